(* Analyses.v — executable model of src/fixed_priority/*.rs, src/edf/*.rs, src/fifo/rta.rs.
   The analyses are written over plain functions (request-bound functions N -> N and step
   enumerators N -> list N) so that the theorems about them do not depend on how the curves are
   represented; Eval.v instantiates them with the deep embedding of Demand.v. *)
From RTA.Model Require Import Base FixedPoint.

(* supply::Dedicated *)
Definition ded_search (dbg : bool) (limit : N) (w : N -> N) : result :=
  search (fun d => d) (fun d => d) dbg limit w.

(* demand::step_offsets(..).take_while(|A| A < L), given the steps <= L: zero-length steps are skipped (an
   interval of length zero has no offset), every other step d becomes the offset d - 1.  The option type is kept
   for compatibility with earlier revisions of the crate in which a zero-length step underflowed: it is always Some. *)
Definition offsets_of_steps (steps : list N) : option (list N) :=
  Some (map (fun d => d - 1) (filter (fun d => 0 <? d) steps)).

Section FP.
  Variable dbg : bool.
  (* [guard = false]: the computation of rtct / rem_cost underflows (checked after L is found) *)
  Variable guard : bool.
  (* blocking bound; remaining cost after the run-to-completion threshold *)
  Variables (B rem : N).
  (* RBF of the task under analysis, total RBF of the interfering tasks, steps of tua's RBF <= h *)
  Variables (tua hp : N -> N) (tua_steps : N -> list N).
  Variable limit : N.

  Definition fp_bw_rhs (L : N) : N := B + hp L + tua L.
  Definition fp_rhs (A AF : N) : N := B + (tua (A + 1) - rem) + hp AF.

  Definition fp_rta (A : N) : result :=
    if tua (A + 1) <? rem then RPanic                 (* self_interference - rem_cost *)
    else rbind (ded_search dbg limit (fp_rhs A))
           (fun AF => if AF <? A then RPanic          (* AF - A.since_time_zero() *)
                      else ROk (AF - A + rem)).

  (* the common skeleton of the four fixed-priority analyses *)
  Definition fp_generic : result :=
    rbind (ded_search dbg limit fp_bw_rhs) (fun L =>
      if negb guard then RPanic else
      match offsets_of_steps (tua_steps L) with
      | None => RPanic
      | Some offs => max_response_time (map fp_rta offs)
      end).
End FP.

(* fixed_priority::fully_preemptive *)
Definition fp_fp dbg (tua hp : N -> N) (tua_steps : N -> list N) (limit : N) : result :=
  fp_generic dbg true 0 0 tua hp tua_steps limit.
(* fixed_priority::fully_nonpreemptive: rtct = epsilon, rem_cost = C - 1 *)
Definition fp_np dbg (C B : N) (arr : N -> N) (hp : N -> N) (tua_steps : N -> list N) (limit : N) : result :=
  fp_generic dbg (1 <=? C) B (C - 1) (fun d => C * arr d) hp tua_steps limit.
(* fixed_priority::limited_preemptive: rtct = C - (last - 1), rem_cost = C - rtct = last - 1 *)
Definition fp_lp dbg (C last B : N) (arr : N -> N) (hp : N -> N) (tua_steps : N -> list N) (limit : N) : result :=
  fp_generic dbg ((1 <=? last) && (last - 1 <=? C)) B (last - 1) (fun d => C * arr d) hp tua_steps limit.
(* fixed_priority::floating_nonpreemptive *)
Definition fp_fnp dbg (B : N) (tua hp : N -> N) (tua_steps : N -> list N) (limit : N) : result :=
  fp_generic dbg true B 0 tua hp tua_steps limit.

(* ------------------------------------------------------------------ EDF *)
Record edf_other := mkOther {
  o_rbf : N -> N;            (* the task's RBF *)
  o_steps : N -> list N;     (* steps of its RBF <= h *)
  o_dl : N;                  (* relative deadline *)
  o_seg : N                  (* maximum non-preemptive segment (WCET for NP-EDF; unused for EDF-FP) *)
}.

Section EDF.
  Variable dbg : bool.
  Variable use_blocking : bool.
  Variable guard : bool.
  Variable rem : N.
  Variables (tua : N -> N) (tua_steps : N -> list N) (D : N).
  Variable others : list edf_other.
  Variable limit : N.

  Definition edf_bw_rhs (L : N) : N := sumN (map (fun o => o_rbf o L) others) + tua L.

  Definition edf_blocking (A : N) : N :=
    if use_blocking then
      maxN (map (fun o => o_seg o - 1)
              (filter (fun o => (D + A <? o_dl o) && (0 <? o_rbf o 1)) others))
    else 0.

  Definition edf_hep (A AF : N) : N :=
    sumN (map (fun o => o_rbf o (N.min AF ((A + 1 + D) - o_dl o))) others).

  Definition edf_rhs (A AF : N) : N := edf_blocking A + (tua (A + 1) - rem) + edf_hep A AF.

  (* tua_demand = self_interference.saturating_sub(rem_cost): the search space also contains offsets that stem
     from the other tasks' steps, at which the task under analysis may have no arrival (rbf_tua (A + 1) = 0);
     the subtraction is truncated (as in Prosa's aRTA), it is the N.sub of [edf_rhs] *)
  Definition edf_rta (A : N) : result :=
    rbind (ded_search dbg limit (edf_rhs A)) (fun AF => ROk ((AF - A) + rem)).

  (* offsets contributed by another task: steps shifted by D_o - D (saturating), below L *)
  Definition edf_other_offsets (L : N) (o : edf_other) : option (list N) :=
    if L =? 0 then Some []      (* max_offset = 0: the first offset is pulled and rejected *)
    else
      match offsets_of_steps (o_steps o ((L + D) - o_dl o)) with
      | None => None
      | Some offs => Some (map (fun a => (a + o_dl o) - D) offs)
      end.

  Fixpoint all_some {A} (l : list (option A)) : option (list A) :=
    match l with
    | [] => Some []
    | None :: _ => None
    | Some x :: l' => match all_some l' with None => None | Some r => Some (x :: r) end
    end.

  Definition edf_search_space (L : N) : option (list N) :=
    match all_some (map (edf_other_offsets L) others), offsets_of_steps (tua_steps L) with
    | Some os, Some ts => Some (dedup (merge (kmerge os) ts))
    | _, _ => None
    end.

  Definition edf_generic : result :=
    rbind (ded_search dbg limit edf_bw_rhs) (fun L =>
      if negb guard then RPanic else
      match edf_search_space L with
      | None => RPanic
      | Some offs => max_response_time (map edf_rta offs)
      end).
End EDF.

(* ------------------------------------------------------------------ FIFO *)
Section FIFO.
  Variable dbg : bool.
  Variables (total : N -> N) (total_steps : N -> list N).
  Variable limit : N.

  Definition fifo_rta : result :=
    rbind (ded_search dbg limit total) (fun L =>
      match offsets_of_steps (total_steps L) with
      | None => RPanic
      | Some offs =>
          if existsb (fun A => total (A + 1) <? A) offs then RPanic     (* Duration - Duration *)
          else ROk (maxN (map (fun A => total (A + 1) - A) offs))
      end).
End FIFO.
