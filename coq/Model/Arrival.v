(* Arrival.v — executable model of src/arrival/*.rs (everything except poisson.rs).
   One constructor per implementor of the ArrivalBound trait; conversions are functions. *)
From RTA.Model Require Import Base.

Inductive AB :=
| Periodic (T : N)                       (* arrival::Periodic *)
| Sporadic (T J : N)                     (* arrival::Sporadic *)
| Never                                  (* arrival::Never *)
| CurveAB (dmin : list N)                (* arrival::Curve: delta-min vector for 2, 3, ... jobs *)
| ExtrapAB (dmin : list N)               (* arrival::ExtrapolatingCurve over that prefix (fresh cache) *)
| PrefixAB (h : N) (steps : list (N * N))(* arrival::ArrivalCurvePrefix *)
| Propagated (J : N) (ab : AB)           (* arrival::Propagated *)
| SumAB (l : list AB).                   (* Vec<T>, [T], sum_of; &/Box/Rc wrappers are the identity *)

(* ------------------------------------------------------------------ arrival::Curve *)

(* Curve::lookup_arrivals: 1 + index of the first entry >= delta.  The end of the vector is the
   Rust `panic!()`; it is unreachable for delta <= last entry. *)
Fixpoint lookup_arrivals (d : list N) (delta : N) : N :=
  match d with
  | [] => 1
  | x :: d' => if delta <=? x then 1 else 1 + lookup_arrivals d' delta
  end.

(* Curve::number_arrivals (with the repair of C11-plateau-curve: at exact multiples of the largest known
   distance the last repetition is resolved by lookup, too) *)
Definition curve_na (d : list N) (delta : N) : N :=
  if delta =? 0 then 0 else
  let last := lastN d in
  let prefix_jobs := (delta / last) * lenN d in
  let tail := delta mod last in
  if tail =? 0 then prefix_jobs - lenN d + lookup_arrivals d last
  else if hdN d <? tail then prefix_jobs + lookup_arrivals d tail
  else prefix_jobs + 1.

(* Curve::extrapolate_next: max over k in 0..=n/2 of d[k] + d[n-k-1] *)
Definition extrapolate_next (d : list N) : N :=
  maxN (firstn (S (Nat.div (length d) 2))
          (map (fun p => fst p + snd p) (combine d (rev_append d [])))).

Definition can_extrapolate (d : list N) : bool := 2 <=? lenN d.

Definition push_next (d : list N) : list N := d ++ [extrapolate_next d].

Definition extrapolate_fuel (d : list N) (h : N) : N := (h + 2) * (2 * lenN d + 2).

(* Curve::extrapolate(horizon): while last < horizon push *)
Definition extrapolate (d : list N) (h : N) : list N :=
  if can_extrapolate d then
    match loopN (extrapolate_fuel d h)
            (fun d => if lastN d <? h then inl (push_next d) else inr d) d with
    | inl d' => d'
    | inr d' => d'
    end
  else d.

(* Curve::extrapolate_steps(n): while len < n push *)
Definition extrapolate_steps (d : list N) (n : N) : list N :=
  if can_extrapolate d then Nat.iter (N.to_nat (n - lenN d)) push_next d else d.

(* Curve::extrapolate_with_bound((delta, njobs)); None = `delta - epsilon` underflows *)
Definition extrapolate_with_bound (d : list N) (delta njobs : N) : option (list N) :=
  if delta =? 0 then None else
  let dm := delta - 1 in
  if lenN d + 2 =? njobs then
    if can_extrapolate d then Some (d ++ [N.max dm (extrapolate_next d)])
    else Some (d ++ [dm])
  else Some d.

(* Curve::min_distance(n) *)
Definition min_distance (d : list N) (n : N) : N :=
  if 1 <? n then nthN d (Nat.min (N.to_nat (n - 2)) (length d - 1)) else 0.

(* FromIterator<Duration> for Curve: running maximum *)
Fixpoint running_max (cur : N) (l : list N) : list N :=
  match l with
  | [] => []
  | x :: l' => let m := N.max cur x in m :: running_max m l'
  end.
Definition curve_from_iter (l : list N) : list N := running_max 0 l.

(* Curve::from_trace: sliding window over the [k] most recent arrivals *)
Fixpoint upd_min (d gaps : list N) : list N :=
  match d, gaps with
  | _, [] => d
  | [], _ => gaps
  | x :: d', g :: gs => N.min x g :: upd_min d' gs
  end.
(* window: most recent first *)
Fixpoint from_trace_go (k : nat) (d window ts : list N) : list N :=
  match ts with
  | [] => d
  | t :: ts' =>
      let d' := upd_min d (map (fun v => t - v) window) in
      from_trace_go k d' (firstn k (t :: window)) ts'
  end.
Definition curve_from_trace (ts : list N) (k : N) : list N := from_trace_go (N.to_nat k) [] [] ts.

(* Curve::steps_iter: 1, then the cyclic cumulative sums of the non-zero differences.  For a
   non-decreasing vector the partial sums inside one cycle are the distinct positive entries. *)
Definition curve_step_base (d : list N) : list N :=
  0 :: removelast (dedup (filter (fun x => 0 <? x) d)).
Definition curve_steps_upto (d : list N) (h : N) : list N :=
  let last := lastN d in
  filter (fun x => x <=? h)
    (flat_map (fun k => map (fun v => 1 + k * last + v) (curve_step_base d))
              (rangeN 0 (h / last + 1))).

(* ------------------------------------------------------------------ closed-form step sequences *)
(* Periodic::steps_iter: T*j + 1 for j = 0, 1, ... *)
Definition periodic_steps_upto (T h : N) : list N :=
  if h =? 0 then [] else map (fun j => T * j + 1) (rangeN 0 ((h - 1) / T + 1)).

(* Sporadic::steps_iter: 1, then T*j + 1 - J for all j >= 1 with T*j > J *)
Definition sporadic_steps_upto (T J h : N) : list N :=
  if h =? 0 then [] else
  let j0 := J / T + 1 in
  let j1 := (h + J - 1) / T in
  1 :: map (fun j => T * j + 1 - J) (rangeN j0 (j1 + 1 - j0)).

(* ------------------------------------------------------------------ ExtrapolatingCurve *)
Definition extrap_na (d : list N) (delta : N) : N :=
  if delta =? 0 then 0 else curve_na (extrapolate d (delta + 1)) delta.

Definition extrap_steps_upto (d : list N) (h : N) : list N :=
  if can_extrapolate d then
    filter (fun x => x <=? h)
      (1 :: map (fun v => 1 + v) (dedup (filter (fun x => 0 <? x) (extrapolate d h))))
  else periodic_steps_upto (min_distance d 2) h.

(* ------------------------------------------------------------------ ArrivalCurvePrefix *)
Definition prefix_max_njobs (steps : list (N * N)) : N := snd (last steps (0, 0)).

(* number of leading steps whose distance is <= delta *)
Fixpoint prefix_lookup_idx (steps : list (N * N)) (delta : N) : nat :=
  match steps with
  | [] => O
  | (md, _) :: s' => if md <=? delta then S (prefix_lookup_idx s' delta) else O
  end.
(* ArrivalCurvePrefix::lookup; index 0 is the Rust `steps[i - 1]` underflow (unreachable when the
   first step is at distance <= 1) *)
Definition prefix_lookup (steps : list (N * N)) (delta : N) : N :=
  if delta =? 0 then 0 else
  match prefix_lookup_idx steps delta with
  | O => 0
  | S i => snd (nth i steps (0, 0))
  end.
Definition prefix_na (h : N) (steps : list (N * N)) (delta : N) : N :=
  prefix_max_njobs steps * (delta / h) + prefix_lookup steps (delta mod h).
(* ArrivalCurvePrefix::steps_iter: 0 first (sic), then the step distances of every cycle *)
Definition prefix_steps_upto (h : N) (steps : list (N * N)) (H : N) : list N :=
  take_while (fun x => x <=? H)
    (0 :: flat_map (fun cycle => map (fun s => fst s + h * cycle) steps) (rangeN 0 (H / h + 1))).

(* ------------------------------------------------------------------ the trait methods *)
Fixpoint na (ab : AB) (delta : N) {struct ab} : N :=
  match ab with
  | Periodic T => div_ceil delta T
  | Sporadic T J => if delta =? 0 then 0 else div_ceil (delta + J) T
  | Never => 0
  | CurveAB d => curve_na d delta
  | ExtrapAB d => extrap_na d delta
  | PrefixAB h s => prefix_na h s delta
  | Propagated J ab' => if delta =? 0 then 0 else na ab' (delta + J)
  | SumAB l => sumN (map (fun a => na a delta) l)
  end.

(* steps_iter().take_while(|x| x <= h) *)
Fixpoint steps_upto (ab : AB) (h : N) {struct ab} : list N :=
  match ab with
  | Periodic T => periodic_steps_upto T h
  | Sporadic T J => sporadic_steps_upto T J h
  | Never => []
  | CurveAB d => curve_steps_upto d h
  | ExtrapAB d => extrap_steps_upto d h
  | PrefixAB hz s => prefix_steps_upto hz s h
  | Propagated J ab' =>
      take_while (fun x => x <=? h)
        ((if 0 <? na ab' (1 + J) then [1] else [])
           ++ map (fun x => x - J) (filter (fun x => J + 1 <? x) (steps_upto ab' (h + J))))
  | SumAB l => dedup (kmerge (map (fun a => steps_upto a h) l))
  end.

Fixpoint clone_with_jitter (ab : AB) (j : N) {struct ab} : AB :=
  match ab with
  | Periodic T => Sporadic T j
  | Sporadic T J => Sporadic T (J + j)
  | Never => Never
  | CurveAB _ | ExtrapAB _ | PrefixAB _ _ => Propagated j ab
  | Propagated J ab' => Propagated (J + j) ab'
  | SumAB l => SumAB (map (fun a => clone_with_jitter a j) l)
  end.

(* brute_force_steps_iter, cut at h: the specification steps_iter is meant to meet *)
Definition bf_steps_upto (f : N -> N) (h : N) : list N :=
  filter (fun d => negb (f (d - 1) =? f d)) (rangeN 1 h).

(* ------------------------------------------------------------------ dmin.rs *)
(* DeltaMinIterator over a finite list of steps: every step delta serves all job counts
   n <= na(delta) that have not been served yet, with distance delta - 1. *)
Fixpoint dm_steps (f : N -> N) (steps : list N) (n : N) : list (N * N) :=
  match steps with
  | [] => []
  | delta :: rest =>
      let c := f delta in
      map (fun m => (m, delta - 1)) (rangeN n (c + 1 - n)) ++ dm_steps f rest (N.max n (c + 1))
  end.
(* all items (n, x) of nonzero_delta_min_iter with x + 1 <= h *)
Definition dmins_upto (ab : AB) (h : N) : list (N * N) := dm_steps (na ab) (steps_upto ab h) 2.
(* delta_min_iter, same cut *)
Definition delta_mins_upto (ab : AB) (h : N) : list (N * N) := (0, 0) :: (1, 0) :: dmins_upto ab h.

(* an arrival bound whose steps_iter is finite (nothing ever arrives) *)
Fixpoint is_never (ab : AB) : bool :=
  match ab with
  | Never => true
  | Propagated _ a => is_never a
  | SumAB l => forallb is_never l
  | _ => false
  end.

(* grow the horizon until the finite prefix of the delta-min iterator decides [enough] *)
Definition dmins_enough (ab : AB) (h0 : N) (enough : list (N * N) -> bool) : list (N * N) :=
  if is_never ab then dmins_upto ab 2 else
  match loopN 64 (fun h => let l := dmins_upto ab h in if enough l then inr l else inl (2 * h)) (N.max h0 1) with
  | inr l => l
  | inl _ => []
  end.

(* take_while over (index, (njobs, delta)) *)
Fixpoint take_while_idx (f : nat -> N * N -> bool) (i : nat) (l : list (N * N)) : list (N * N) :=
  match l with
  | [] => []
  | x :: l' => if f i x then x :: take_while_idx f (S i) l' else []
  end.

(* the repaired take_while of from_arrival_bound(_until): an element is kept if the old condition holds
   OR no non-zero distance has been seen among the elements before it; the flag is updated with the
   current element after the decision *)
Fixpoint take_while_nz (f : nat -> N * N -> bool) (i : nat) (seen : bool) (l : list (N * N)) : list (N * N) :=
  match l with
  | [] => []
  | x :: l' =>
      if f i x || negb seen then x :: take_while_nz f (S i) (seen || negb (snd x =? 0)) l' else []
  end.

(* Curve::from_arrival_bound(ab, up_to_njobs); [] = Curve::new panics (empty vector).
   [enough]: the take_while stops strictly inside the finite prefix of the iterator *)
Definition curve_from_ab (ab : AB) (njobs : N) : list N :=
  let keep := fun (i : nat) (e : N * N) => (fst e <=? njobs) || Nat.ltb i 2 in
  let l := dmins_enough ab 4 (fun l => Nat.ltb (length (take_while_nz keep 0 false l)) (length l)) in
  map snd (take_while_nz keep 0 false l).

(* Curve::from_arrival_bound_until(ab, horizon) *)
Definition curve_from_ab_until (ab : AB) (hz : N) : list N :=
  let keep := fun (i : nat) (e : N * N) => (snd e <=? hz) || Nat.ltb i 2 in
  let l := dmins_enough ab (hz + 2) (fun l => Nat.ltb (length (take_while_nz keep 0 false l)) (length l)) in
  map snd (take_while_nz keep 0 false l).

(* From<Periodic>, From<Sporadic> for Curve *)
Definition curve_of_periodic (T : N) : list N := [T].
Definition curve_of_sporadic (T J : N) : list N :=
  curve_from_ab (Sporadic T J) (N.max 500 (div_ceil J T * 10)).

(* ArrivalCurvePrefix::from_arrival_bound_until; None = an assertion of ArrivalCurvePrefix::new fails *)
Fixpoint prefix_wellformed (hz : N) (lastn : N) (steps : list (N * N)) : bool :=
  match steps with
  | [] => true
  | (d, n) :: s' => (d <=? hz) && (lastn <? n) && prefix_wellformed hz n s'
  end.
Definition prefix_new (hz : N) (steps : list (N * N)) : option (N * list (N * N)) :=
  if prefix_wellformed hz 0 steps then Some (hz, steps) else None.
Definition prefix_from_ab_until (ab : AB) (hz : N) : option (N * list (N * N)) :=
  prefix_new hz (map (fun d => (d, na ab d)) (steps_upto ab (N.max hz 1))).

(* From<&ArrivalCurvePrefix> for Curve *)
Definition curve_of_prefix (hz : N) (steps : list (N * N)) : option (list N) :=
  let n := prefix_max_njobs steps in
  extrapolate_with_bound (curve_from_ab (PrefixAB hz steps) n) (hz + 1) (n + 1).

(* ------------------------------------------------------------------ C13: the shared cache as a state machine *)
(* The cache is the current delta-min vector.  Queries return an answer and the new cache. *)
Inductive hquery := HNa (delta : N) | HStepsUpto (h : N).

Definition cache_na (c : list N) (delta : N) : list N * N :=
  if delta =? 0 then (c, 0) else
  let c' := extrapolate c (delta + 1) in (c', curve_na c' delta).

(* the steps iterator on a cache, run until it yields a value > h: returns the values <= h *)
Definition cache_steps (c : list N) (h : N) : list N * list N :=
  if can_extrapolate c then
    let c' := extrapolate c h in
    (c', filter (fun x => x <=? h) (1 :: map (fun v => 1 + v) (dedup (filter (fun x => 0 <? x) c'))))
  else (c, periodic_steps_upto (min_distance c 2) h).
