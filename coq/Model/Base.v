(* Base.v — numbers, lists and loops shared by the executable model of the crate.
   No proofs here: the model must keep running when a proof breaks. *)
From Coq Require Export List NArith Bool.
Export ListNotations.
#[global] Open Scope N_scope.

Arguments N.add : simpl never.
Arguments N.sub : simpl never.
Arguments N.mul : simpl never.
Arguments N.div : simpl never.
Arguments N.modulo : simpl never.
Arguments N.leb : simpl never.
Arguments N.ltb : simpl never.
Arguments N.eqb : simpl never.
Arguments N.min : simpl never.
Arguments N.max : simpl never.

(* ---------- result of an analysis (fixed_point::SearchResult plus "the debug build panics") ---------- *)
Inductive result :=
| ROk (r : N)
| RErr (offset limit : N)      (* SearchFailure::DivergenceLimitExceeded *)
| RPanic.                       (* checked arithmetic / assertion failure in the debug build *)

Definition result_eqb (a b : result) : bool :=
  match a, b with
  | ROk x, ROk y => x =? y
  | RErr o l, RErr o' l' => (o =? o') && (l =? l')
  | RPanic, RPanic => true
  | _, _ => false
  end.

(* `?` of Rust on a SearchResult *)
Definition rbind (a : result) (f : N -> result) : result :=
  match a with ROk r => f r | e => e end.

(* ---------- loops with early exit on binary fuel ---------- *)
(* [loop_pos p body s] runs [body] at most [p] times; [inr r] = the loop returned [r];
   [inl s] = fuel exhausted in state [s]. *)
Fixpoint loop_pos {S R : Type} (p : positive) (body : S -> S + R) (s : S) : S + R :=
  match p with
  | xH => body s
  | xO p' =>
      match loop_pos p' body s with
      | inl s' => loop_pos p' body s'
      | inr r => inr r
      end
  | xI p' =>
      match body s with
      | inl s' =>
          match loop_pos p' body s' with
          | inl s'' => loop_pos p' body s''
          | inr r => inr r
          end
      | inr r => inr r
      end
  end.

Definition loopN {S R : Type} (fuel : N) (body : S -> S + R) (s : S) : S + R :=
  match fuel with
  | N0 => inl s
  | Npos p => loop_pos p body s
  end.

(* reference semantics of the same loop on unary fuel (used by the proofs only) *)
Fixpoint loop_nat {S R : Type} (n : nat) (body : S -> S + R) (s : S) : S + R :=
  match n with
  | O => inl s
  | S n' => match body s with inl s' => loop_nat n' body s' | inr r => inr r end
  end.

(* ---------- lists of numbers ---------- *)
Definition lenN {A} (l : list A) : N := N.of_nat (length l).

(* [a; a+1; ...; a+n-1] *)
Definition rangeN (a n : N) : list N := map (fun i => a + N.of_nat i) (seq 0 (N.to_nat n)).

Definition sumN (l : list N) : N := fold_right N.add 0 l.
Definition maxN (l : list N) : N := fold_right N.max 0 l.
(* Iterator::min with a default for the empty sequence *)
Definition minN_or (dflt : N) (l : list N) : N :=
  match l with
  | [] => dflt
  | x :: l' => fold_left N.min l' x
  end.

Definition nthN (l : list N) (i : nat) : N := nth i l 0.
Definition lastN (l : list N) : N := last l 0.
Definition hdN (l : list N) : N := hd 0 l.

Fixpoint take_while {A} (f : A -> bool) (l : list A) : list A :=
  match l with
  | [] => []
  | x :: l' => if f x then x :: take_while f l' else []
  end.

(* itertools::merge of two sorted sequences (left element first on ties) *)
Fixpoint merge (l1 l2 : list N) : list N :=
  let fix merge_aux (l2 : list N) : list N :=
    match l1, l2 with
    | [], _ => l2
    | _, [] => l1
    | a1 :: l1', a2 :: l2' =>
        if a1 <=? a2 then a1 :: merge l1' l2 else a2 :: merge_aux l2'
    end
  in merge_aux l2.

(* itertools::kmerge: always yields the least head; as a sequence of values this is the sorted merge *)
Definition kmerge (ls : list (list N)) : list N := fold_right merge [] ls.

(* itertools::dedup: drop consecutive duplicates *)
Fixpoint dedup (l : list N) : list N :=
  match l with
  | [] => []
  | a :: l' =>
      match l' with
      | [] => [a]
      | b :: _ => if a =? b then dedup l' else a :: dedup l'
      end
  end.

(* insertion sort, descending: itertools::sorted(..).rev() as a sequence of values *)
Fixpoint insert_desc (x : N) (l : list N) : list N :=
  match l with
  | [] => [x]
  | y :: l' => if y <=? x then x :: l else y :: insert_desc x l'
  end.
Definition sort_desc (l : list N) : list N := fold_right insert_desc [] l.

Definition div_ceil (a b : N) : N := a / b + (if 0 <? a mod b then 1 else 0).

Definition b2n (b : bool) : N := if b then 1 else 0.
