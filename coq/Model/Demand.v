(* Demand.v — executable model of src/demand/*.rs *)
From RTA.Model Require Import Base Arrival Wcet.

Inductive RB :=
| RBF (ab : AB) (cm : CM)        (* demand::RBF *)
| Agg (l : list RB).             (* demand::Aggregate, demand::Slice (and Box/&/Rc wrappers) *)

(* RequestBound::service_needed *)
Fixpoint sn (rb : RB) (delta : N) {struct rb} : N :=
  match rb with
  | RBF ab cm => cost_of_jobs cm (na ab delta)
  | Agg l => sumN (map (fun r => sn r delta) l)
  end.

(* RequestBound::least_wcet_in_interval *)
Fixpoint lw (rb : RB) (delta : N) {struct rb} : N :=
  match rb with
  | RBF ab cm => least_wcet cm (na ab delta)
  | Agg l => minN_or 0 (map (fun r => lw r delta) l)
  end.

(* RequestBound::steps_iter().take_while(|x| x <= h) *)
Fixpoint rb_steps_upto (rb : RB) (h : N) {struct rb} : list N :=
  match rb with
  | RBF ab _ => steps_upto ab h
  | Agg l => dedup (kmerge (map (fun r => rb_steps_upto r h) l))
  end.

(* RequestBound::job_cost_iter(delta), in yield order *)
Fixpoint jc (rb : RB) (delta : N) {struct rb} : list N :=
  match rb with
  | RBF ab cm => job_costs cm (na ab delta)
  | Agg l => kmerge (map (fun r => jc r delta) l)
  end.

(* RequestBound::service_needed_by_n_jobs (default method): the max_jobs largest job costs *)
Definition snn (rb : RB) (delta n : N) : N :=
  sumN (firstn (N.to_nat n) (sort_desc (jc rb delta))).

(* AggregateRequestBound::service_needed_by_n_jobs_per_component (Aggregate / Slice only) *)
Definition snc (rb : RB) (delta n : N) : option N :=
  match rb with
  | RBF _ _ => None
  | Agg l => Some (sumN (map (fun r => snn r delta n) l))
  end.

(* demand::step_offsets(rb).take_while(|a| a < h): Offset::closed_from_time_zero(delta) = delta - 1 for every
   non-zero step; zero-length steps are skipped.  Always Some (the option is kept for compatibility). *)
Definition step_offsets_below (steps : list N) : option (list N) :=
  Some (map (fun d => d - 1) (filter (fun d => 0 <? d) steps)).
