(* Eval.v — the public entry points of the crate over the deep embedding (what the
   correspondence check evaluates with vm_compute, one definition per query of docs/CASELANG.md). *)
From RTA.Model Require Import Base Arrival Wcet Demand Supply FixedPoint Analyses Ros2.

Definition sum_sn (l : list RB) (d : N) : N := sumN (map (fun r => sn r d) l).

(* workload functions for the fixed-point search *)
Definition wtable (l : list N) (num den : N) (r : N) : N :=
  if r <=? lenN l then nthN l (N.to_nat (r - 1))
  else lastN l + ((r - lenN l) * num) / den.

Definition e_search dbg (sb : SB) (limit : N) (w : N -> N) : result := search (sbf sb) (st sb) dbg limit w.
Definition e_searchoff (sb : SB) (off limit : N) (w : N -> N) : result := search_with_offset (st sb) off limit w.

(* ---- fixed priority ---- *)
Definition e_fp_fp dbg (tua : RB) (hp : list RB) (limit : N) : result :=
  fp_fp dbg (sn tua) (sum_sn hp) (rb_steps_upto tua) limit.
Definition e_fp_np dbg (ab : AB) (C B : N) (hp : list RB) (limit : N) : result :=
  fp_np dbg C B (na ab) (sum_sn hp) (steps_upto ab) limit.
Definition e_fp_lp dbg (ab : AB) (C last B : N) (hp : list RB) (limit : N) : result :=
  fp_lp dbg C last B (na ab) (sum_sn hp) (steps_upto ab) limit.
Definition e_fp_fnp dbg (tua : RB) (B : N) (hp : list RB) (limit : N) : result :=
  fp_fnp dbg B (sn tua) (sum_sn hp) (rb_steps_upto tua) limit.

(* ---- EDF ---- *)
Definition other_of_rb (x : RB * N * N) : edf_other :=
  let '(rb, D, seg) := x in mkOther (sn rb) (rb_steps_upto rb) D seg.
Definition other_of_ab (x : AB * N * N) : edf_other :=
  let '(ab, C, D) := x in mkOther (fun d => C * na ab d) (steps_upto ab) D C.

Definition e_edf_fp dbg (tua : RB) (D : N) (others : list (RB * N)) (limit : N) : result :=
  edf_generic dbg false true 0 (sn tua) (rb_steps_upto tua) D
    (map (fun x => other_of_rb (fst x, snd x, 0)) others) limit.
Definition e_edf_np dbg (ab : AB) (C D : N) (others : list (AB * N * N)) (limit : N) : result :=
  edf_generic dbg true (1 <=? C) (C - 1) (fun d => C * na ab d) (steps_upto ab) D
    (map other_of_ab others) limit.
Definition e_edf_lp dbg (ab : AB) (C D last : N) (others : list (RB * N * N)) (limit : N) : result :=
  edf_generic dbg true ((1 <=? last) && (last - 1 <=? C)) (last - 1) (fun d => C * na ab d) (steps_upto ab) D
    (map other_of_rb others) limit.
Definition e_edf_fnp dbg (tua : RB) (D : N) (others : list (RB * N * N)) (limit : N) : result :=
  edf_generic dbg true true 0 (sn tua) (rb_steps_upto tua) D (map other_of_rb others) limit.

(* ---- FIFO ---- *)
Definition e_fifo dbg (rb : RB) (limit : N) : result := fifo_rta dbg (sn rb) (rb_steps_upto rb) limit.

(* ---- ROS 2, ECRTS'19 ---- *)
Definition e_es dbg (sb : SB) (rb : RB) (limit : N) : result :=
  rta_event_source dbg (sbf sb) (st sb) limit (sn rb) (rb_steps_upto rb).
Definition e_timer dbg (sb : SB) (own intf : RB) (B limit : N) : result :=
  rta_timer dbg (sbf sb) (st sb) limit (sn own) (lw own) (rb_steps_upto own) (sn intf) B.
Definition e_pp dbg (sb : SB) (own intf : RB) (limit : N) : result :=
  rta_pp dbg (sbf sb) (st sb) limit (sn own) (lw own) (rb_steps_upto own) (sn intf).
Definition e_chain dbg (sb : SB) (lastcb prefix full other : RB) (limit : N) : result :=
  rta_chain dbg (sbf sb) (st sb) limit (sn lastcb) (lw lastcb) (sn prefix) (sn full) (rb_steps_upto full) (sn other).

(* ---- ROS 2, RTSS'21 ---- *)
Definition cb_of (x : N * AB * CM * kind) : callback :=
  let '(R, ab, cm, k) := x in mkCb R (na ab) (steps_upto ab) (cost_of_jobs cm) k.
Definition e_rr dbg (sb : SB) (wl : list (N * AB * CM * kind)) (sc : list nat) (limit : N) : result :=
  rr_subchain dbg (sbf sb) (st sb) (map cb_of wl) sc limit.
Definition e_bw dbg (sb : SB) (wl : list (N * AB * CM * kind)) (sc : list nat) (limit : N) : result :=
  bw_subchain dbg (sbf sb) (st sb) (map cb_of wl) sc limit.

(* ---- tables ---- *)
Definition natab (ab : AB) (h : N) : list N := map (na ab) (rangeN 0 (h + 1)).
Definition sntab (rb : RB) (h : N) : list N := map (sn rb) (rangeN 0 (h + 1)).
Definition sbftab (sb : SB) (h : N) : list N := map (sbf sb) (rangeN 0 (h + 1)).
Definition flat_pairs (l : list (N * N)) : list N := flat_map (fun p => [fst p; snd p]) l.

(* ---- C13 histories on one shared ExtrapolatingCurve ---- *)
Inductive hop := HClone (k : nat) | HNaQ (k : nat) (d : N) | HOpen (k : nat) | HNext (i : nat).
(* the k-th (from 0) item of ExtrapolatingCurve::steps_iter *)
Definition extrap_step_nth (d : list N) (k : nat) : N :=
  match loopN 64 (fun h => let l := extrap_steps_upto d h in
                           if Nat.ltb k (length l) then inr (nthN l k) else inl (2 * h)) 4 with
  | inr x => x
  | inl _ => 0
  end.
Fixpoint bump (cs : list nat) (i : nat) : list nat * nat :=
  match cs, i with
  | [], _ => ([], O)
  | c :: cs', O => (S c :: cs', c)
  | c :: cs', S i' => let '(r, v) := bump cs' i' in (c :: r, v)
  end.
Fixpoint hist_go (d : list N) (counters : list nat) (ops : list hop) : list N :=
  match ops with
  | [] => []
  | HClone _ :: ops' => hist_go d counters ops'
  | HNaQ _ delta :: ops' => extrap_na d delta :: hist_go d counters ops'
  | HOpen _ :: ops' => hist_go d (counters ++ [O]) ops'
  | HNext i :: ops' =>
      let '(cs, k) := bump counters i in extrap_step_nth d k :: hist_go d cs ops'
  end.
Definition hist (d : list N) (ops : list hop) : list N := hist_go d [] ops.

(* ---- C14 histories on one shared wcet::ExtrapolatingCurve: the cache is threaded through ---- *)
Inductive cop := CClone (k : nat) | CCost (k : nat) (n : N) | CLeast (k : nat) (n : N) | CJc (k : nat) (n : N).
Fixpoint chist_go (c : list N) (ops : list cop) : list N :=
  match ops with
  | [] => []
  | CClone _ :: ops' => chist_go c ops'
  | CCost _ n :: ops' => let '(c', v) := wcache_cost c n in v :: chist_go c' ops'
  | CLeast _ n :: ops' => wcurve_least c n :: chist_go c ops'
  | CJc _ n :: ops' =>
      let c' := wextrapolate c (n + 1) in
      map (fun i => wcurve_cost c' i - wcurve_cost c' (i - 1)) (rangeN 1 n) ++ chist_go c' ops'
  end.
Definition chist (c : list N) (ops : list cop) : list N := chist_go c ops.

(* option results are printed as lists: [] = panic *)
Definition olist (o : option (list N)) : list N := match o with Some l => 1 :: l | None => [0] end.

(* uniform output type for the correspondence check *)
Inductive out := ON (n : N) | OL (l : list N) | OR (r : result) | OPanic.
Definition nonempty (l : list N) : option (list N) := match l with [] => None | _ => Some l end.
Definition dmins_take (ab : AB) (k : nat) : list (N * N) :=
  firstn k (dmins_enough ab 4 (fun l => Nat.leb k (length l))).
Definition delta_mins_take (ab : AB) (k : nat) : list (N * N) :=
  firstn k ((0, 0) :: (1, 0) :: dmins_take ab k).
(* a delta-min vector is usable as an arrival bound only if its last entry is positive
   (Curve::number_arrivals divides by it) *)
Definition usable_curve (l : list N) : option (list N) := if lastN l =? 0 then None else Some l.
