(* FixedPoint.v — executable model of src/fixed_point.rs *)
From RTA.Model Require Import Base.

Section Search.
  Variables (sbf st : N -> N).      (* SupplyBound::{provided_service, service_time} *)

  (* one iteration of the while loop of search_with_offset; state = assumed response time *)
  Definition swo_body (off limit : N) (w : N -> N) (r : N) : N + result :=
    if r <=? limit then
      let met := st (w r) in
      if met <? off then inr RPanic              (* Offset::distance_to: debug_assert / checked sub *)
      else
        let bound := met - off in
        if bound <=? r then inr (ROk bound) else inl bound
    else inr (RErr off limit).

  (* fixed_point::search_with_offset; every iteration strictly increases r, so limit + 1
     iterations always suffice (lemma); out of fuel is mapped to RPanic *)
  Definition search_with_offset (off limit : N) (w : N -> N) : result :=
    match loopN (limit + 1) (swo_body off limit w) 1 with
    | inr res => res
    | inl _ => RPanic
    end.

  (* fixed_point::brute_force_search_with_offset (debug builds only) *)
  Definition bf_body (off limit : N) (w : N -> N) (r : N) : N + result :=
    if r <=? limit then
      if w r =? 0 then inr (ROk 0)
      else if sbf (off + r) =? w r then inr (ROk r)
      else inl (r + 1)
    else inr (RErr off limit).
  Definition brute_force_search_with_offset (off limit : N) (w : N -> N) : result :=
    match loopN (limit + 1) (bf_body off limit w) 1 with
    | inr res => res
    | inl _ => RPanic
    end.

  (* fixed_point::search; [dbg] = compiled with debug assertions *)
  Definition search (dbg : bool) (limit : N) (w : N -> N) : result :=
    let bw := search_with_offset 0 limit w in
    if dbg && (limit <=? 100000) then
      if result_eqb (brute_force_search_with_offset 0 limit w) bw then bw else RPanic
    else bw.
End Search.

(* Iterator::max_by with the comparator of max_response_time: the accumulator survives when it is
   an error or strictly greater *)
Definition rmax2 (x y : result) : result :=
  match x with
  | ROk a => match y with ROk b => if b <? a then x else y | _ => y end
  | _ => x
  end.
Definition is_panic (r : result) : bool := match r with RPanic => true | _ => false end.
(* fixed_point::max_response_time; a panicking element panics the whole fold *)
Definition max_response_time (l : list result) : result :=
  if existsb is_panic l then RPanic else
  match l with
  | [] => ROk 0
  | x :: l' => fold_left rmax2 l' x
  end.
