(* Poisson.v — executable exact/enclosing arithmetic for the Poisson quantile (property C15).

   `arrival::ApproximatedPoisson::number_arrivals(delta)` of the crate returns, with mean
   m = rate * delta, the least n with  cdf m n >= 1 - epsilon  where
   cdf m n = sum_{k<=n} e^(-m) m^k / k!.  The crate computes in f64, so this file does not model
   it; it provides CHECKERS that decide on rationals whether a candidate n lies in a tolerance
   band around that quantile:

     reference (exact rationals, slow for large means) : psum, exp_lo, exp_hi, quantile_band_ok
     fast (directed fixed-point enclosure of the weights, relative to the weight at the mode)
                                                        : weights, band_fast
     harness entry point on plain numbers               : poisson_check

   No proofs here (they are in Proofs/PoissonProofs.v); no real numbers here.
   This file deliberately does not import Model/Base.v (it opens N_scope globally). *)
From Coq Require Import ZArith QArith Qround List Bool.
Import ListNotations.
Local Open Scope Z_scope.

(* ================================================================================= *)
(* 1. Reference definitions on exact rationals                                        *)
(* ================================================================================= *)

(* [psum_go a b n = (A, P, D)] with  A = a^n,  D = b^n * n!,  P / D = sum_{k<=n} (a/b)^k / k!. *)
Fixpoint psum_go (a : Z) (b : positive) (n : nat) : Z * Z * positive :=
  match n with
  | O => (1, 1, 1%positive)
  | S k =>
      let '(A, P, D) := psum_go a b k in
      let c := (b * Pos.of_succ_nat k)%positive in
      let A' := A * a in
      (A', P * Zpos c + A', (D * c)%positive)
  end.

(* m^k / k! *)
Definition pterm (m : Q) (k : nat) : Q :=
  let '(A, _, D) := psum_go (Qnum m) (Qden m) k in A # D.

(* S m n = sum_{k=0..n} m^k / k! *)
Definition psum (m : Q) (n : nat) : Q :=
  let '(_, P, D) := psum_go (Qnum m) (Qden m) n in P # D.

(* the factor (N+2) / (N+2-m) of the geometric remainder bound; meaningful for m < N+2 *)
Definition geo_factor (m : Q) (N : nat) : Q :=
  let c := inject_Z (Z.of_nat N + 2) in (c / (c - m))%Q.

(* rational enclosure of e^m for 0 <= m < N+2 *)
Definition exp_lo (m : Q) (N : nat) : Q := psum m N.
Definition exp_hi (m : Q) (N : nat) : Q :=
  let '(A, P, D) := psum_go (Qnum m) (Qden m) (S N) in
  (* P/D = psum m (N+1) = psum m N + A/D, so psum m N + A/D * g = P/D + A/D * (g - 1) *)
  ((P # D) + (A # D) * (geo_factor m N - 1))%Q.

Definition Qlt_bool (x y : Q) : bool := negb (Qle_bool y x).

(* side condition of the enclosure: 0 <= m < N + 2 *)
Definition mean_in_range (m : Q) (N : nat) : bool :=
  Qle_bool 0 m && Qlt_bool m (inject_Z (Z.of_nat N + 2)).

(* n is accepted as the (1-eps) quantile for mean m up to tolerance tau:
     cdf m n >= 1 - eps - tau                    decided as  (1-eps-tau) * exp_hi <= psum m n
     n = 0  or  cdf m (n-1) < 1 - eps + tau      decided as  psum m (n-1) < (1-eps+tau) * exp_lo *)
Definition quantile_band_ok (m eps tau : Q) (n : nat) (N : nat) : bool :=
  mean_in_range m N &&
  Qle_bool ((1 - eps - tau) * exp_hi m N) (psum m n) &&
  match n with
  | O => true
  | S n' => Qlt_bool (psum m n') ((1 - eps + tau) * exp_lo m N)
  end.

(* lower and upper bound of e^(-m) m^k / k!  (for 0 <= m < N+2) *)
Definition pmf_enclosure (m : Q) (k : nat) (N : nat) : Q * Q :=
  let t := pterm m k in ((t / exp_hi m N)%Q, (t / exp_lo m N)%Q).

(* lower and upper bound of cdf m n *)
Definition cdf_enclosure (m : Q) (n : nat) (N : nat) : Q * Q :=
  let s := psum m n in ((s / exp_hi m N)%Q, (s / exp_lo m N)%Q).

(* reference quantile by search: least n <= fuel with psum m n >= (1 - eps) * exp_hi m N
   (conservative: the n returned satisfies cdf m n >= 1 - eps); None if there is none.
   Exact rationals: slow (half a minute for mean 200); use [quantile_fast] below for real work. *)
Fixpoint quantile_search_go (a : Z) (b : positive) (target : Q) (fuel : nat)
         (k : nat) (A P : Z) (D : positive) : option nat :=
  if Qle_bool target (P # D) then Some k else
  match fuel with
  | O => None
  | S f =>
      let c := (b * Pos.of_succ_nat k)%positive in
      let A' := A * a in
      quantile_search_go a b target f (S k) A' (P * Zpos c + A') (D * c)%positive
  end.
Definition quantile_search (m eps : Q) (N fuel : nat) : option nat :=
  quantile_search_go (Qnum m) (Qden m) ((1 - eps) * exp_hi m N)%Q fuel 0 1 1 1%positive.

(* ================================================================================= *)
(* 2. Fast checker: fixed-point enclosure of the weights relative to the mode          *)
(* ================================================================================= *)
(* For m = a/b > 0 and a start index M (about m) let  w k = (m^k/k!) / (m^M/M!).  Then w M = 1,
   w (k+1) = w k * a / (b (k+1)),  w (k-1) = w k * (b k) / a,  and all w k <= 1 when M is the mode.
   We carry integer pairs (lo, hi) with  lo <= wscale * w k <= hi,  rounding down / up at each
   step, so the numbers stay about [wbits] bits long whatever the mean (exact rationals need
   about m*log2(m) bits). *)

Definition wbits : Z := 96.
Definition wscale : Z := 2 ^ wbits.

(* entries for k+1, k+2, ..., k+fuel *)
Fixpoint up_ws (a b : Z) (fuel : nat) (k lo hi : Z) : list (Z * Z) :=
  match fuel with
  | O => nil
  | S f =>
      let k' := k + 1 in
      let c := b * k' in
      let lo' := lo * a / c in
      let hi' := hi * a / c + 1 in
      (lo', hi') :: up_ws a b f k' lo' hi'
  end.

(* entries for k-fuel, ..., k-1 pushed in front of acc *)
Fixpoint down_ws (a b : Z) (fuel : nat) (k lo hi : Z) (acc : list (Z * Z)) : list (Z * Z) :=
  match fuel with
  | O => acc
  | S f =>
      let c := b * k in
      let lo' := lo * c / a in
      let hi' := hi * c / a + 1 in
      down_ws a b f (k - 1) lo' hi' ((lo', hi') :: acc)
  end.

(* entry number k (k = 0 .. M + ups) encloses wscale * w k *)
Definition weights (a b : Z) (M ups : nat) : list (Z * Z) :=
  let zM := Z.of_nat M in
  down_ws a b M zM wscale wscale ((wscale, wscale) :: up_ws a b ups zM wscale wscale).

Definition sumZ (l : list Z) : Z := fold_left Z.add l 0.

(* The band test on the enclosures; needs 0 < a/b < N+2, M <= N+1 and n <= N (checked). *)
Definition band_fast (a : Z) (b : positive) (eps tau : Q) (n N M : nat) : bool :=
  (0 <? a) && (a <? Zpos b * (Z.of_nat N + 2)) && (M <=? N)%nat && (n <=? N)%nat &&
  let ws := weights a (Zpos b) M (S N - M) in
  let los := map fst ws in
  let his := map snd ws in
  let L1 := sumZ (firstn (S n) los) in          (* <= wscale * c * psum m n *)
  let LN := sumZ (firstn (S N) los) in          (* <= wscale * c * psum m N <= wscale * c * e^m *)
  let U2 := sumZ (firstn n his) in              (* >= wscale * c * psum m (n-1) *)
  let UN := sumZ (firstn (S N) his) in
  let hN1 := nth (S N) his 0 in
  let Uall := (inject_Z UN + inject_Z hN1 * geo_factor (a # b) N)%Q in  (* >= wscale * c * e^m *)
  (0 <=? LN) &&
  Qle_bool ((1 - eps - tau) * Uall) (inject_Z L1) &&
  match n with
  | O => true
  | S _ => Qlt_bool (inject_Z U2) ((1 - eps + tau) * inject_Z LN)
  end.

(* number of series terms used for mean m: ceil(m) + 10 sqrt(ceil(m)) + 40, at least n *)
Definition Qceil_nat (m : Q) : nat := Z.to_nat (Qceiling m).
Definition Qfloor_nat (m : Q) : nat := Z.to_nat (Qfloor m).
Definition terms_for (m : Q) : nat :=
  let c := Z.max 0 (Qceiling m) in Z.to_nat (c + 10 * Z.sqrt c + 40).

(* the checker with N and M chosen from m *)
Definition quantile_band_auto (m eps tau : Q) (n : nat) : bool :=
  let m := Qred m in
  let N := Nat.max (terms_for m) n in
  if (Qnum m =? 0) then quantile_band_ok m eps tau n N
  else band_fast (Qnum m) (Qden m) eps tau n N (Qfloor_nat m).

(* conservative quantile search on the fast enclosure: least n <= N with
   lower bound of cdf m n >= 1 - eps *)
Fixpoint first_reaching (target : Q) (l : list Z) (k : nat) (acc : Z) : option nat :=
  match l with
  | nil => None
  | x :: r => let acc' := acc + x in
              if Qle_bool target (inject_Z acc') then Some k else first_reaching target r (S k) acc'
  end.
Definition quantile_fast (m eps : Q) : option nat :=
  let m := Qred m in
  if Qle_bool m 0 then Some O else
  let N := terms_for m in
  let a := Qnum m in let b := Qden m in
  let ws := weights a (Zpos b) (Qfloor_nat m) (S N - Qfloor_nat m) in
  let his := map snd ws in
  let UN := sumZ (firstn (S N) his) in
  let hN1 := nth (S N) his 0 in
  let Uall := (inject_Z UN + inject_Z hN1 * geo_factor m N)%Q in
  first_reaching ((1 - eps) * Uall)%Q (firstn (S N) (map fst ws)) O 0.

(* ================================================================================= *)
(* 3. Entry points on plain binary naturals (test harness)                             *)
(* ================================================================================= *)

Definition QofN (num den : N) : option Q :=
  match den with
  | N0 => None
  | Npos d => Some (Z.of_N num # d)
  end.

(* rate = rn/rd, epsilon = en/ed, tolerance = tn/td, interval length delta, candidate n:
   true only if  cdf m n >= 1 - eps - tau  and  (n = 0 or cdf m (n-1) < 1 - eps + tau),
   with m = rate * delta.  Zero denominators and absurdly large candidates are rejected. *)
Definition poisson_check (rn rd en ed tn td delta n : N) : bool :=
  match QofN (rn * delta) rd, QofN en ed, QofN tn td with
  | Some m, Some eps, Some tau =>
      let m := Qred m in
      if (Z.of_N n <=? 8 * Z.of_nat (terms_for m)) then
        quantile_band_auto m eps tau (N.to_nat n)
      else false
  | _, _, _ => false
  end.

(* the conservative quantile for the same arguments (for diagnostics) *)
Definition poisson_quantile (rn rd en ed delta : N) : option N :=
  match QofN (rn * delta) rd, QofN en ed with
  | Some m, Some eps => option_map N.of_nat (quantile_fast m eps)
  | _, _ => None
  end.
