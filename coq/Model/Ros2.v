(* Ros2.v — executable model of src/ros2/{ecrts19,rr,bw}.rs *)
From RTA.Model Require Import Base FixedPoint.

(* ------------------------------------------------------------------ ecrts19.rs *)
Section Ecrts19.
  Variable dbg : bool.
  Variables (sbf st : N -> N).
  Variable limit : N.

  (* ecrts19::bound_response_time; [steps h] = demand.steps_iter() cut at h *)
  Definition bound_response_time (steps : N -> list N) (bw_rhs : N -> N) (rhs : N -> N -> N) : result :=
    rbind (search sbf st dbg limit bw_rhs) (fun max_bw =>
      (* offsets = steps - 1, taken while <= max_bw *)
      let ss := filter (fun d => 0 <? d) (steps (max_bw + 1)) in       (* zero-length steps are skipped *)
      max_response_time
        (map (fun off => search_with_offset st off limit (rhs off)) (map (fun d => d - 1) ss))).

  (* the interval during which other callbacks can delay the callback under analysis *)
  Definition interference_interval (own_lw : N -> N) (off resp : N) : N :=
    let own_wcet := own_lw (off + resp) in
    if own_wcet <? resp then off + resp - own_wcet + 1 else off + 1.

  (* rta_event_source: Lemma 1 *)
  Definition rta_event_source (demand : N -> N) (steps : N -> list N) : result :=
    bound_response_time steps demand (fun off _ => demand (off + 1)).

  (* rta_timer: Lemma 3 *)
  Definition rta_timer (own own_lw : N -> N) (steps : N -> list N) (intf : N -> N) (B : N) : result :=
    bound_response_time steps
      (fun d => own d + B + intf d)
      (fun off resp => own (off + 1) + intf (interference_interval own_lw off resp) + B).

  (* rta_polling_point_callback: Lemmas 4 and 5 *)
  Definition rta_pp (own own_lw : N -> N) (steps : N -> list N) (intf : N -> N) : result :=
    bound_response_time steps
      (fun d => own d + intf d)
      (fun off resp => own (off + 1) + intf (interference_interval own_lw off resp)).

  (* rta_processing_chain: Lemma 8.  The debug_assert_eq on full_chain = prefix + last is the
     caller's obligation and is not modelled. *)
  Definition rta_chain (lastcb lastcb_lw prefix full : N -> N) (full_steps : N -> list N) (other : N -> N) : result :=
    bound_response_time full_steps
      (fun d => full d + other d)
      (fun off resp =>
         let ii := interference_interval lastcb_lw off resp in
         lastcb (off + 1) + prefix ii + other ii).
End Ecrts19.

(* ------------------------------------------------------------------ rr.rs / bw.rs *)
Inductive kind := KTimer | KES | KPU | KP (prio : N).
Definition is_pp (k : kind) : bool := match k with KPU | KP _ => true | _ => false end.

Record callback := mkCb {
  cb_R : N;                    (* assumed response-time bound *)
  cb_na : N -> N;              (* arrival bound *)
  cb_steps : N -> list N;      (* its steps_iter cut at h *)
  cb_cost : N -> N;            (* cost_of_jobs *)
  cb_kind : kind
}.

(* the job-count cap shared by direct_rbf (Def. 1) and busy_window_rbf (Def. 5) *)
Definition capped (self interfered : kind) (arrived base : N) : N :=
  match self with
  | KTimer | KES => arrived
  | KPU => N.min arrived (base + 1)
  | KP p =>
      match interfered with
      | KP q => N.min arrived (base + b2n (p <? q))
      | _ => N.min arrived (base + 1)
      end
  end.

Section Subchain.
  Variable dbg : bool.
  Variables (sbf st : N -> N).
  Variable workload : list callback.
  Variable subchain : list nat.              (* indices into workload *)
  Variable limit : N.

  Definition cb_at (i : nat) : callback := nth i workload (mkCb 0 (fun _ => 0) (fun _ => []) (fun _ => 0) KTimer).
  Definition eoc_idx : nat := last subchain O.
  Definition eoc : callback := cb_at eoc_idx.
  Definition max_pp : N := sumN (map (fun i => cb_na (cb_at i) (cb_R (cb_at i))) subchain).
  Definition indexed : list (nat * callback) := combine (seq 0 (length workload)) workload.
  Definition others : list callback :=
    map snd (filter (fun ic => negb (Nat.eqb (fst ic) eoc_idx)) indexed).

  (* ---- rr ---- *)
  Definition rr_direct (cb : callback) (delta : N) : N :=
    let arrived := cb_na cb ((delta + cb_R cb) - 1) in
    cb_cost cb (capped (cb_kind cb) (cb_kind eoc) arrived max_pp).
  Definition rr_self_instances (delta : N) : N := cb_na eoc ((delta + cb_R eoc) - 1) - 1.
  Definition rr_rhs (s : N) : N :=
    1 + sumN (map (fun cb => rr_direct cb s) others) + cb_cost eoc (rr_self_instances s).

  Definition rr_subchain : result :=
    rbind (search sbf st dbg limit rr_rhs) (fun S =>
      let n := rr_self_instances S in
      if cb_cost eoc (n + 1) <? cb_cost eoc n then RPanic else
      let omega := cb_cost eoc (n + 1) - cb_cost eoc n in
      ROk (st ((sbf S - 1) + omega))).

  (* ---- bw ---- *)
  Definition bw_rbf (cb : callback) (delta act : N) : N :=
    cb_cost cb (capped (cb_kind cb) (cb_kind eoc) (cb_na cb delta) (cb_na cb act + max_pp)).
  Definition bw_interference (delta act : N) : N := sumN (map (fun cb => bw_rbf cb delta act) others).
  Definition bw_self_instances (act : N) : N := cb_na eoc (act + 1) - 1.

  Definition bw_rta (singleton : bool) (act : N) : result :=
    let si := cb_cost eoc (bw_self_instances act) in
    rbind (search sbf st dbg limit (fun S => 1 + bw_interference S act + si)) (fun S =>
      let n := bw_self_instances act in
      if cb_cost eoc (n + 1) <? cb_cost eoc n then RPanic else
      let omega := cb_cost eoc (n + 1) - cb_cost eoc n in
      let F := st ((sbf S - 1) + omega) in
      ROk (if singleton then F - act else F)).

  Definition bw_max_rhs (ta : N) : N := 1 + bw_interference ta ta + cb_cost eoc (cb_na eoc ta).

  (* Lemma 19 steps of one callback, cut at h *)
  Definition bw_cb_steps (h : N) (ic : nat * callback) : list N :=
    if Nat.eqb (fst ic) eoc_idx then map (fun d => d - 1) (cb_steps (snd ic) (h + 1))
    else cb_steps (snd ic) h.
  Definition bw_all_steps (h : N) : list N :=
    dedup (kmerge (map (bw_cb_steps h)
      (filter (fun ic => is_pp (cb_kind (snd ic)) || Nat.eqb (fst ic) eoc_idx) indexed))).

  (* the debug-only brute-force enumeration of the same steps *)
  Definition bw_is_bf_step (ta : N) : bool :=
    existsb (fun ic =>
      if Nat.eqb (fst ic) eoc_idx then negb (cb_na (snd ic) ta =? cb_na (snd ic) (ta + 1))
      else is_pp (cb_kind (snd ic)) && (0 <? ta) && negb (cb_na (snd ic) (ta - 1) =? cb_na (snd ic) ta))
      indexed.
  Definition bw_bf_steps (h : N) : list N := filter bw_is_bf_step (rangeN 0 (h + 1)).

  (* the pairs pulled from `all_steps.zip(brute_force_steps)` are those below max_offset and the
     first one at or above it; find the latter by doubling the horizon *)
  Definition first_at_or_above (m : N) : option N :=
    match loopN 64 (fun h => match filter (fun x => m <=? x) (bw_all_steps h) with
                             | x :: _ => inr x | [] => inl (2 * h) end) (N.max 1 (2 * m)) with
    | inr x => Some x
    | inl _ => None
    end.
  Fixpoint list_eqb (a b : list N) : bool :=
    match a, b with
    | [], [] => true
    | x :: a', y :: b' => (x =? y) && list_eqb a' b'
    | _, _ => false
    end.
  Definition bw_debug_check (m : N) : bool :=
    match first_at_or_above m with
    | None => true            (* the search space is finite: only the pairs below m are compared *)
    | Some x =>
        let pulled := filter (fun y => y <=? x) (bw_all_steps x) in
        list_eqb pulled (firstn (length pulled) (bw_bf_steps x)) && Nat.leb (length pulled) (length (bw_bf_steps x))
    end.

  Definition bw_subchain : result :=
    let singleton := Nat.eqb (length subchain) 1 in
    rbind (search sbf st dbg limit bw_max_rhs) (fun m =>
      if dbg && negb (bw_debug_check m) then RPanic else
      max_response_time (map (bw_rta singleton) (filter (fun a => a <? m) (bw_all_steps m)))).
End Subchain.
