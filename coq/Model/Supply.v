(* Supply.v — executable model of src/supply/*.rs *)
From RTA.Model Require Import Base.

Inductive SB :=
| Dedicated                       (* supply::Dedicated *)
| PeriodicS (Q P : N)             (* supply::Periodic { budget Q, period P } *)
| ConstrainedS (Q D P : N)        (* supply::Constrained { budget Q, deadline D, period P } *)
| DefaultST (sb : SB)             (* a user type forwarding provided_service, using the trait's default service_time *)
| TableS (tbl : list N).          (* user-defined supply given by a table, slope 1 afterwards; default service_time *)

Definition periodic_sbf (Q P delta : N) : N :=
  let slack := P - Q in
  if delta <? slack then 0 else
  let full := (delta - slack) / P in
  let x := slack + slack + P * full in
  Q * full + (if x <? delta then delta - x else 0).

Definition constrained_sbf (Q D P delta : N) : N :=
  let shift := P - Q in
  if delta <? shift then 0 else
  let full := (delta - shift) / P in
  let x := shift + P * full + D - Q in
  Q * full + (if x <? delta then N.min Q (delta - x) else 0).

Definition table_sbf (tbl : list N) (delta : N) : N :=
  if delta <? lenN tbl then nthN tbl (N.to_nat delta)
  else lastN tbl + (delta - (lenN tbl - 1)).

Fixpoint sbf (sb : SB) (delta : N) : N :=
  match sb with
  | Dedicated => delta
  | PeriodicS Q P => periodic_sbf Q P delta
  | ConstrainedS Q D P => constrained_sbf Q D P delta
  | DefaultST sb' => sbf sb' delta
  | TableS tbl => table_sbf tbl delta
  end.

Definition periodic_st (Q P d : N) : N :=
  if d =? 0 then 0 else
  let slack := P - Q in
  let full := d / Q in
  let fb := Q * full in
  slack + P * full + (if fb <? d then slack + d - fb else 0).

Definition constrained_st (Q D P d : N) : N :=
  if d =? 0 then 0 else
  let full := d / Q in
  let fb := Q * full in
  D - Q + P * full + (if fb <? d then d - fb + P - Q else 0).

(* SupplyBound::service_time, default method: t = demand; loop { if sbf t >= demand return t; t += demand - sbf t } *)
Definition default_st_body (f : N -> N) (d : N) (t : N) : N + N :=
  let s := f t in if d <=? s then inr t else inl (t + (d - s)).
Definition default_st (f : N -> N) (fuel d : N) : N :=
  match loopN fuel (default_st_body f d) d with
  | inr t => t
  | inl t => t       (* out of fuel: excluded by the fuel lemma *)
  end.

(* a structural upper bound on the least t with sbf t >= d (plus one), used as fuel *)
Fixpoint st_fuel (sb : SB) (d : N) : N :=
  match sb with
  | Dedicated => d + 2
  | PeriodicS Q P => 2 * P * (d + 2) + 2
  | ConstrainedS Q D P => 2 * P * (d + 2) + 2
  | DefaultST sb' => st_fuel sb' d
  | TableS tbl => lenN tbl + d + 2
  end.

Definition st (sb : SB) (d : N) : N :=
  match sb with
  | Dedicated => d
  | PeriodicS Q P => periodic_st Q P d
  | ConstrainedS Q D P => constrained_st Q D P d
  | DefaultST sb' => default_st (sbf sb') (st_fuel sb' d) d
  | TableS tbl => default_st (table_sbf tbl) (lenN tbl + d + 2) d
  end.
