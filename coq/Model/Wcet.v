(* Wcet.v — executable model of src/wcet/*.rs *)
From RTA.Model Require Import Base.

Inductive CM :=
| Scalar (c : N)                 (* wcet::Scalar *)
| Multiframe (l : list N)        (* wcet::Multiframe *)
| CurveCM (l : list N)           (* wcet::Curve: cumulative cost of 1, 2, ... jobs *)
| ExtrapCM (l : list N).         (* wcet::ExtrapolatingCurve over that prefix (fresh cache) *)

(* wcet::Curve::cost_of_jobs *)
Definition wcurve_cost (l : list N) (n : N) : N :=
  if (negb (lenN l =? 0)) && (0 <? n) then
    let x := n / lenN l in
    let y := n mod lenN l in
    (if 0 <? x then nthN l (length l - 1) * x else 0)
    + (if 0 <? y then nthN l (N.to_nat (y - 1)) else 0)
  else 0.

(* wcet::Curve::least_wcet: least increment among the first min(len, n) entries *)
Definition wcurve_least (l : list N) (n : N) : N :=
  if 0 <? n then
    fold_left (fun least i => N.min least (nthN l i - nthN l (i - 1)))
              (seq 1 (Nat.min (length l) (N.to_nat n) - 1)) (nthN l 0)
  else 0.

(* wcet::Curve::extrapolate_next: min over k in 0..=n/2 of l[k] + l[n-k-1] *)
Definition wextrapolate_next (l : list N) : N :=
  minN_or 0 (firstn (S (Nat.div (length l) 2))
               (map (fun p => fst p + snd p) (combine l (rev_append l [])))).

Definition wpush_next (l : list N) : list N := l ++ [wextrapolate_next l].

(* wcet::Curve::extrapolate(n): if len >= 3, while len < n - 1 push.  (n = 0 underflows in Rust:
   callers of the model pass n >= 1.) *)
Definition wextrapolate (l : list N) (n : N) : list N :=
  if 3 <=? lenN l then Nat.iter (N.to_nat ((n - 1) - lenN l)) wpush_next l else l.

(* FromIterator<Service> for wcet::Curve *)
Fixpoint wrunning_max (cur : N) (l : list N) : list N :=
  match l with
  | [] => []
  | x :: l' => let m := N.max cur x in m :: wrunning_max m l'
  end.
Definition wcurve_from_iter (l : list N) : list N := wrunning_max 0 l.

(* wcet::Curve::from_trace: window most recent first; totals are the costs of the 1, 2, ... most
   recent jobs (the suffix sums of the trace read so far, at most max_n of them) *)
Fixpoint prefix_sums (acc : N) (l : list N) : list N :=
  match l with
  | [] => []
  | x :: l' => (acc + x) :: prefix_sums (acc + x) l'
  end.
Fixpoint upd_max (d totals : list N) : list N :=
  match d, totals with
  | _, [] => d
  | [], _ => totals
  | x :: d', g :: gs => N.max x g :: upd_max d' gs
  end.
Fixpoint wfrom_trace_go (k : nat) (cost_of window cs : list N) : list N :=
  match cs with
  | [] => cost_of
  | c :: cs' =>
      let w := firstn k (c :: window) in
      wfrom_trace_go k (upd_max cost_of (prefix_sums 0 w)) w cs'
  end.
Definition wcurve_from_trace (cs : list N) (max_n : N) : list N :=
  wfrom_trace_go (N.to_nat max_n) [] [] cs.

(* ExtrapolatingCurve::cost_of_jobs on a cache: extrapolate(n + 1), then look up *)
Definition wcache_cost (c : list N) (n : N) : list N * N :=
  let c' := wextrapolate c (n + 1) in (c', wcurve_cost c' n).

(* ------------------------------------------------------------------ the trait methods *)
Definition cost_of_jobs (cm : CM) (n : N) : N :=
  match cm with
  | Scalar c => c * n
  | Multiframe l =>
      if lenN l =? 0 then 0 else
      sumN l * (n / lenN l) + sumN (firstn (N.to_nat (n mod lenN l)) l)
  | CurveCM l => wcurve_cost l n
  | ExtrapCM l => snd (wcache_cost l n)
  end.

Definition least_wcet (cm : CM) (n : N) : N :=
  match cm with
  | Scalar c => if 0 <? n then c else 0
  | Multiframe l => minN_or 0 (firstn (N.to_nat n) l)
  | CurveCM l => wcurve_least l n
  | ExtrapCM l => wcurve_least l n
  end.

(* job_cost_iter().take(n) *)
Definition job_costs (cm : CM) (n : N) : list N :=
  match cm with
  | Scalar c => map (fun _ => c) (rangeN 0 n)
  | Multiframe l =>
      if lenN l =? 0 then [] else
      map (fun i => nthN l (N.to_nat (i mod lenN l))) (rangeN 0 n)
  | CurveCM l => map (fun i => wcurve_cost l i - wcurve_cost l (i - 1)) (rangeN 1 n)
  | ExtrapCM l =>
      map (fun i => snd (wcache_cost l i) - snd (wcache_cost l (i - 1))) (rangeN 1 n)
  end.
