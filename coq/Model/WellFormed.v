(* WellFormed.v — the inputs the crate documents as legal (no proofs here). *)
From RTA.Model Require Import Base Arrival Wcet Demand Supply.

Definition nondecreasing (l : list N) : Prop := forall i, (S i < length l)%nat -> nthN l i <= nthN l (S i).

(* a delta-min vector (minimum distances of 2, 3, ... events): non-empty, non-decreasing, last entry positive *)
Definition wf_dmin (d : list N) : Prop := d <> [] /\ nondecreasing d /\ 0 < lastN d.
(* super-additive: a window with a + b - 1 events splits into one with a and one with b events.
   Entry i is the distance of i + 2 events, so dist(i+2) + dist(j+2) <= dist(i+j+3). *)
Definition superadditive (d : list N) : Prop :=
  forall i j, (i + j + 1 < length d)%nat -> nthN d i + nthN d j <= nthN d (i + j + 1).
(* "realisable" prefixes (C12, C13, C18, C19) *)
Definition realisable (d : list N) : Prop := wf_dmin d /\ superadditive d.
(* the last two entries coincide (the class of the former finding C11-plateau-curve; kept for the regression theorems) *)
Definition plateau_end (d : list N) : Prop := (2 <= length d)%nat /\ nthN d (length d - 2) = nthN d (length d - 1).

(* ArrivalCurvePrefix: positive horizon, first step at distance 1, distances strictly increasing
   and within the horizon, job counts strictly increasing *)
Definition wf_prefix (h : N) (steps : list (N * N)) : Prop :=
  1 <= h /\ steps <> [] /\ fst (hd (0, 0) steps) = 1 /\ 1 <= snd (hd (0, 0) steps) /\
  (forall i, (i < length steps)%nat -> fst (nth i steps (0, 0)) <= h) /\
  (forall i, (S i < length steps)%nat ->
     fst (nth i steps (0, 0)) < fst (nth (S i) steps (0, 0)) /\ snd (nth i steps (0, 0)) < snd (nth (S i) steps (0, 0))).

Fixpoint wf_ab (ab : AB) : Prop :=
  match ab with
  | Periodic T => 1 <= T
  | Sporadic T J => 1 <= T
  | Never => True
  | CurveAB d => wf_dmin d
  | ExtrapAB d => wf_dmin d
  | PrefixAB h s => wf_prefix h s
  | Propagated J a => wf_ab a
  | SumAB l => (fix all (l : list AB) : Prop := match l with [] => True | a :: l' => wf_ab a /\ all l' end) l
  end.

(* outside the known class of C11: no ArrivalCurvePrefix (plateau-ended Curves are covered since the repair of
   Curve::number_arrivals at exact multiples of the last entry) *)
Fixpoint steps_exact_class (ab : AB) : Prop :=
  match ab with
  | CurveAB d => True
  | PrefixAB _ _ => False
  | Propagated J a => steps_exact_class a
  | SumAB l => (fix all (l : list AB) : Prop := match l with [] => True | a :: l' => steps_exact_class a /\ all l' end) l
  | _ => True
  end.

(* cumulative cost vectors: non-empty, non-decreasing; sub-additive where extrapolated *)
Definition subadditive (l : list N) : Prop :=
  forall i j, (i + j + 1 < length l)%nat -> nthN l (i + j + 1) <= nthN l i + nthN l j.
Definition wf_cm (cm : CM) : Prop :=
  match cm with
  | Scalar c => True
  | Multiframe l => l <> []
  | CurveCM l => l <> [] /\ nondecreasing l
  | ExtrapCM l => l <> [] /\ nondecreasing l /\ subadditive l
  end.
(* every job has a positive cost (C11 for request bounds) *)
Definition positive_cm (cm : CM) : Prop :=
  match cm with
  | Scalar c => 1 <= c
  | Multiframe l => Forall (fun c => 1 <= c) l
  | CurveCM l | ExtrapCM l => 1 <= nthN l 0 /\ forall i, (S i < length l)%nat -> nthN l i < nthN l (S i)
  end.

Fixpoint wf_rb (rb : RB) : Prop :=
  match rb with
  | RBF ab cm => wf_ab ab /\ wf_cm cm
  | Agg l => (fix all (l : list RB) : Prop := match l with [] => True | r :: l' => wf_rb r /\ all l' end) l
  end.
