(* AgreeProofs.v — property C19: the analyses agree with each other on their common special cases.
   1. fixed priority: limited-preemptive with last segment 1 = floating non-preemptive (= fully
      preemptive without blocking); with last segment = WCET = fully non-preemptive,
   2. EDF: the same three reductions over the deep embedding,
   3. every ROS 2 analysis depends on the supply only through the values of its two functions,
      hence dedicated = periodic with full budget = constrained with full budget,
   4. the event-source analysis on a dedicated processor is the FIFO analysis. *)
From Coq Require Import List NArith Lia Bool.
From RTA.Model Require Import Base Arrival Wcet Demand Supply FixedPoint Analyses Ros2 Eval.
From RTA.Proofs Require Import FixedPointProofs SupplyProofs.

(* ------------------------------------------------------------------------------------------ *)
(* 0. generic congruence lemmas (no functional extensionality)                                 *)
(* ------------------------------------------------------------------------------------------ *)

Lemma loop_nat_ext : forall {S R} (b1 b2 : S -> S + R), (forall s, b1 s = b2 s) ->
  forall n s, loop_nat n b1 s = loop_nat n b2 s.
Proof.
  intros S R b1 b2 H n. induction n as [|n IH]; intros s; cbn [loop_nat]; [reflexivity|].
  rewrite H. destruct (b2 s) as [s'|r]; [apply IH|reflexivity].
Qed.

Lemma loopN_ext : forall {S R} (b1 b2 : S -> S + R), (forall s, b1 s = b2 s) ->
  forall fuel s, loopN fuel b1 s = loopN fuel b2 s.
Proof.
  intros S R b1 b2 H fuel s. rewrite !loopN_nat. apply loop_nat_ext. exact H.
Qed.

Lemma rbind_ext : forall a f g, (forall x, f x = g x) -> rbind a f = rbind a g.
Proof. intros [r|o l|] f g H; cbn [rbind]; [apply H|reflexivity|reflexivity]. Qed.

Lemma swo_ext_gen : forall st1 st2 w1 w2 off limit,
  (forall x, st1 x = st2 x) -> (forall x, w1 x = w2 x) ->
  search_with_offset st1 off limit w1 = search_with_offset st2 off limit w2.
Proof.
  intros st1 st2 w1 w2 off limit Hst Hw. unfold search_with_offset.
  rewrite (loopN_ext (swo_body st1 off limit w1) (swo_body st2 off limit w2)); [reflexivity|].
  intros r. unfold swo_body. rewrite Hw, Hst. reflexivity.
Qed.

Lemma bf_ext_gen : forall sbf1 sbf2 w1 w2 off limit,
  (forall x, sbf1 x = sbf2 x) -> (forall x, w1 x = w2 x) ->
  brute_force_search_with_offset sbf1 off limit w1 = brute_force_search_with_offset sbf2 off limit w2.
Proof.
  intros sbf1 sbf2 w1 w2 off limit Hsbf Hw. unfold brute_force_search_with_offset.
  rewrite (loopN_ext (bf_body sbf1 off limit w1) (bf_body sbf2 off limit w2)); [reflexivity|].
  intros r. unfold bf_body. rewrite Hw, Hsbf. reflexivity.
Qed.

Lemma search_ext_gen : forall sbf1 st1 sbf2 st2 w1 w2 dbg limit,
  (forall x, sbf1 x = sbf2 x) -> (forall x, st1 x = st2 x) -> (forall x, w1 x = w2 x) ->
  search sbf1 st1 dbg limit w1 = search sbf2 st2 dbg limit w2.
Proof.
  intros sbf1 st1 sbf2 st2 w1 w2 dbg limit Hsbf Hst Hw. unfold search. cbv zeta.
  rewrite (swo_ext_gen st1 st2 w1 w2 0 limit Hst Hw).
  rewrite (bf_ext_gen sbf1 sbf2 w1 w2 0 limit Hsbf Hw). reflexivity.
Qed.

Lemma ded_search_ext : forall dbg limit w1 w2, (forall x, w1 x = w2 x) ->
  ded_search dbg limit w1 = ded_search dbg limit w2.
Proof.
  intros dbg limit w1 w2 Hw. unfold ded_search. apply search_ext_gen; auto.
Qed.

Lemma brt_ext_gen : forall dbg sbf1 st1 sbf2 st2 limit steps bw1 bw2 rhs1 rhs2,
  (forall x, sbf1 x = sbf2 x) -> (forall x, st1 x = st2 x) ->
  (forall x, bw1 x = bw2 x) -> (forall off r, rhs1 off r = rhs2 off r) ->
  bound_response_time dbg sbf1 st1 limit steps bw1 rhs1
  = bound_response_time dbg sbf2 st2 limit steps bw2 rhs2.
Proof.
  intros dbg sbf1 st1 sbf2 st2 limit steps bw1 bw2 rhs1 rhs2 Hsbf Hst Hbw Hrhs.
  unfold bound_response_time.
  rewrite (search_ext_gen sbf1 st1 sbf2 st2 bw1 bw2 dbg limit Hsbf Hst Hbw).
  apply rbind_ext. intros L. cbv zeta.
  f_equal. apply map_ext. intros off. apply swo_ext_gen; [exact Hst|]. intros r. apply Hrhs.
Qed.

(* ------------------------------------------------------------------------------------------ *)
(* 1. fixed priority                                                                           *)
(* ------------------------------------------------------------------------------------------ *)

Lemma guard_last1 : forall C, (1 <=? 1) && (1 - 1 <=? C) = true.
Proof. intros C. change (1 - 1) with 0. destruct C; reflexivity. Qed.

Lemma guard_lastC : forall C, (1 <=? C) && (C - 1 <=? C) = (1 <=? C).
Proof.
  intros C. destruct (N.leb_spec 1 C); [|reflexivity].
  destruct (N.leb_spec (C - 1) C); [reflexivity|lia].
Qed.

(* limited-preemptive with last segment 1 = floating non-preemptive (same blocking bound) *)
Theorem fp_lp_last1_is_fnp : forall dbg C B arr hp steps limit,
  fp_lp dbg C 1 B arr hp steps limit = fp_fnp dbg B (fun d => C * arr d) hp steps limit.
Proof.
  intros dbg C B arr hp steps limit. unfold fp_lp, fp_fnp.
  rewrite guard_last1. reflexivity.
Qed.
Print Assumptions fp_lp_last1_is_fnp.

(* ... and with no blocking it is the fully preemptive analysis *)
Theorem fp_lp_last1_noblocking_is_fp : forall dbg C arr hp steps limit,
  fp_lp dbg C 1 0 arr hp steps limit = fp_fp dbg (fun d => C * arr d) hp steps limit.
Proof.
  intros dbg C arr hp steps limit. unfold fp_lp, fp_fp.
  rewrite guard_last1. reflexivity.
Qed.
Print Assumptions fp_lp_last1_noblocking_is_fp.

(* limited-preemptive with last segment = WCET is the fully non-preemptive analysis *)
Theorem fp_lp_lastC_is_np : forall dbg C B arr hp steps limit, 1 <= C ->
  fp_lp dbg C C B arr hp steps limit = fp_np dbg C B arr hp steps limit.
Proof.
  intros dbg C B arr hp steps limit _. unfold fp_lp, fp_np.
  rewrite guard_lastC. reflexivity.
Qed.
Print Assumptions fp_lp_lastC_is_np.

(* ------------------------------------------------------------------------------------------ *)
(* 2. EDF                                                                                      *)
(* ------------------------------------------------------------------------------------------ *)

(* two lists of other tasks that the analysis cannot tell apart, except for the segments *)
Definition other_equiv (o1 o2 : edf_other) : Prop :=
  (forall x, o_rbf o1 x = o_rbf o2 x) /\ (forall h, o_steps o1 h = o_steps o2 h) /\ o_dl o1 = o_dl o2.

Lemma sumN_map_equiv : forall (f1 f2 : edf_other -> N) l1 l2,
  Forall2 (fun o1 o2 => f1 o1 = f2 o2) l1 l2 -> sumN (map f1 l1) = sumN (map f2 l2).
Proof.
  intros f1 f2 l1 l2 H. induction H as [|o1 o2 l1 l2 Ho _ IH]; [reflexivity|].
  cbn [map sumN fold_right]. fold (sumN (map f1 l1)). fold (sumN (map f2 l2)).
  rewrite Ho, IH. reflexivity.
Qed.

Lemma Forall2_other_weaken : forall (P : edf_other -> edf_other -> Prop) l1 l2,
  Forall2 other_equiv l1 l2 -> (forall o1 o2, other_equiv o1 o2 -> P o1 o2) -> Forall2 P l1 l2.
Proof.
  intros P l1 l2 H HP. induction H as [|o1 o2 l1 l2 Ho _ IH]; constructor; auto.
Qed.

Lemma all_some_offsets_equiv : forall D L l1 l2, Forall2 other_equiv l1 l2 ->
  all_some (map (edf_other_offsets D L) l1) = all_some (map (edf_other_offsets D L) l2).
Proof.
  intros D L l1 l2 H. induction H as [|o1 o2 l1 l2 Ho _ IH]; [reflexivity|].
  cbn [map all_some]. rewrite IH.
  assert (E : edf_other_offsets D L o1 = edf_other_offsets D L o2).
  { destruct Ho as (_ & Hs & Hd). unfold edf_other_offsets. rewrite !Hs, Hd. reflexivity. }
  rewrite E. reflexivity.
Qed.

Lemma edf_generic_equiv : forall dbg ub1 ub2 guard rem tua tua_steps D others1 others2 limit,
  Forall2 other_equiv others1 others2 ->
  (forall A, edf_blocking ub1 D others1 A = edf_blocking ub2 D others2 A) ->
  edf_generic dbg ub1 guard rem tua tua_steps D others1 limit
  = edf_generic dbg ub2 guard rem tua tua_steps D others2 limit.
Proof.
  intros dbg ub1 ub2 guard rem tua tua_steps D others1 others2 limit Heq Hbl.
  unfold edf_generic.
  rewrite (ded_search_ext dbg limit (edf_bw_rhs tua others1) (edf_bw_rhs tua others2)).
  2:{ intros L. unfold edf_bw_rhs. f_equal. apply sumN_map_equiv.
      apply Forall2_other_weaken with (1 := Heq). intros o1 o2 (Hr & _). apply Hr. }
  apply rbind_ext. intros L. destruct (negb guard); [reflexivity|].
  unfold edf_search_space. rewrite (all_some_offsets_equiv D L others1 others2 Heq).
  destruct (all_some (map (edf_other_offsets D L) others2)) as [os|]; [|reflexivity].
  destruct (offsets_of_steps (tua_steps L)) as [ts|]; [|reflexivity].
  f_equal. apply map_ext. intros A. unfold edf_rta.
  rewrite (ded_search_ext dbg limit (edf_rhs ub1 rem tua D others1 A) (edf_rhs ub2 rem tua D others2 A)); [reflexivity|].
  intros AF. unfold edf_rhs. rewrite Hbl. f_equal. unfold edf_hep. apply sumN_map_equiv.
  apply Forall2_other_weaken with (1 := Heq). intros o1 o2 (Hr & _ & Hd). rewrite Hd. apply Hr.
Qed.

Lemma Forall2_map_same : forall {A B} (R : B -> B -> Prop) (f g : A -> B) l,
  (forall a, R (f a) (g a)) -> Forall2 R (map f l) (map g l).
Proof.
  intros A B R f g l H. induction l as [|a l IH]; cbn [map]; constructor; auto.
Qed.

(* all segments 1: limited-preemptive = floating = fully preemptive *)
Theorem edf_lp_segs1_is_fnp : forall dbg ab C D others limit,
  e_edf_lp dbg ab C D 1 others limit = e_edf_fnp dbg (RBF ab (Scalar C)) D others limit.
Proof.
  intros dbg ab C D others limit. unfold e_edf_lp, e_edf_fnp.
  rewrite guard_last1. reflexivity.
Qed.
Print Assumptions edf_lp_segs1_is_fnp.

Lemma maxN_zeros : forall {A} (l : list A), maxN (map (fun _ => 1 - 1) l) = 0.
Proof.
  intros A l. induction l as [|a l IH]; [reflexivity|].
  cbn [map maxN fold_right]. fold (maxN (map (fun _ : A => 1 - 1) l)). rewrite IH. reflexivity.
Qed.

Theorem edf_fnp_segs1_is_fp : forall dbg tua D (others : list (RB * N)) limit,
  e_edf_fnp dbg tua D (map (fun o => (fst o, snd o, 1)) others) limit = e_edf_fp dbg tua D others limit.
Proof.
  intros dbg tua D others limit. unfold e_edf_fnp, e_edf_fp. rewrite map_map.
  apply edf_generic_equiv.
  - apply Forall2_map_same. intros [rb d]. cbn [fst snd other_of_rb].
    repeat split; reflexivity.
  - intros A. unfold edf_blocking.
    induction others as [|[rb d] l IH]; [reflexivity|].
    cbn [map filter fst snd other_of_rb o_dl o_rbf o_seg].
    destruct ((D + A <? d) && (0 <? sn rb 1)); [|exact IH].
    cbn [map maxN fold_right o_seg]. change (1 - 1) with 0.
    rewrite N.max_0_l. exact IH.
Qed.
Print Assumptions edf_fnp_segs1_is_fp.

(* all segments = WCET: limited-preemptive = fully non-preemptive *)
Theorem edf_lp_segsC_is_np : forall dbg ab C D (others : list (AB * N * N)) limit, 1 <= C ->
  e_edf_lp dbg ab C D C (map (fun o => let '(a, c, d) := o in (RBF a (Scalar c), d, c)) others) limit
  = e_edf_np dbg ab C D others limit.
Proof.
  intros dbg ab C D others limit _. unfold e_edf_lp, e_edf_np.
  rewrite guard_lastC, map_map.
  rewrite (map_ext _ other_of_ab); [reflexivity|].
  intros [[a c] d]. reflexivity.
Qed.
Print Assumptions edf_lp_segsC_is_np.

(* ------------------------------------------------------------------------------------------ *)
(* 3. supplies                                                                                 *)
(* ------------------------------------------------------------------------------------------ *)

Section SupplyCongruence.
  Variables (sbf1 st1 sbf2 st2 : N -> N).
  Hypothesis Hsbf : forall x, sbf1 x = sbf2 x.
  Hypothesis Hst : forall x, st1 x = st2 x.

  Theorem search_with_offset_ext : forall off limit w,
    search_with_offset st1 off limit w = search_with_offset st2 off limit w.
  Proof. intros off limit w. apply swo_ext_gen; auto. Qed.

  Theorem search_ext : forall dbg limit w, search sbf1 st1 dbg limit w = search sbf2 st2 dbg limit w.
  Proof. intros dbg limit w. apply search_ext_gen; auto. Qed.

  Theorem rta_event_source_ext : forall dbg limit demand steps,
    rta_event_source dbg sbf1 st1 limit demand steps = rta_event_source dbg sbf2 st2 limit demand steps.
  Proof. intros. unfold rta_event_source. apply brt_ext_gen; auto. Qed.

  Theorem rta_timer_ext : forall dbg limit own own_lw steps intf B,
    rta_timer dbg sbf1 st1 limit own own_lw steps intf B = rta_timer dbg sbf2 st2 limit own own_lw steps intf B.
  Proof. intros. unfold rta_timer. apply brt_ext_gen; auto. Qed.

  Theorem rta_pp_ext : forall dbg limit own own_lw steps intf,
    rta_pp dbg sbf1 st1 limit own own_lw steps intf = rta_pp dbg sbf2 st2 limit own own_lw steps intf.
  Proof. intros. unfold rta_pp. apply brt_ext_gen; auto. Qed.

  Theorem rta_chain_ext : forall dbg limit lastcb lastcb_lw prefix full full_steps other,
    rta_chain dbg sbf1 st1 limit lastcb lastcb_lw prefix full full_steps other
    = rta_chain dbg sbf2 st2 limit lastcb lastcb_lw prefix full full_steps other.
  Proof. intros. unfold rta_chain. apply brt_ext_gen; auto. Qed.

  Theorem rr_subchain_ext : forall dbg wl sc limit,
    rr_subchain dbg sbf1 st1 wl sc limit = rr_subchain dbg sbf2 st2 wl sc limit.
  Proof.
    intros dbg wl sc limit. unfold rr_subchain. rewrite search_ext.
    apply rbind_ext. intros S. cbv zeta. rewrite Hsbf, Hst. reflexivity.
  Qed.

  Theorem bw_subchain_ext : forall dbg wl sc limit,
    bw_subchain dbg sbf1 st1 wl sc limit = bw_subchain dbg sbf2 st2 wl sc limit.
  Proof.
    intros dbg wl sc limit. unfold bw_subchain. cbv zeta. rewrite search_ext.
    apply rbind_ext. intros m.
    destruct (dbg && negb (bw_debug_check wl sc m)); [reflexivity|].
    f_equal. apply map_ext. intros a. unfold bw_rta. cbv zeta. rewrite search_ext.
    apply rbind_ext. intros S. rewrite Hsbf, Hst. reflexivity.
  Qed.
End SupplyCongruence.
Print Assumptions search_with_offset_ext.
Print Assumptions search_ext.
Print Assumptions rta_event_source_ext.
Print Assumptions rta_timer_ext.
Print Assumptions rta_pp_ext.
Print Assumptions rta_chain_ext.
Print Assumptions rr_subchain_ext.
Print Assumptions bw_subchain_ext.

(* hence: dedicated processor = periodic reservation with budget = period
          = constrained reservation with budget = deadline = period *)
Theorem supplies_equal_full_budget : forall P x, 1 <= P ->
  sbf (PeriodicS P P) x = sbf Dedicated x /\ st (PeriodicS P P) x = st Dedicated x /\
  sbf (ConstrainedS P P P) x = sbf Dedicated x /\ st (ConstrainedS P P P) x = st Dedicated x.
Proof.
  intros P x HP. cbn [sbf st].
  destruct (periodic_full_budget_is_dedicated P x HP) as [H1 H2].
  destruct (constrained_deadline_eq_period P P x HP (N.le_refl P)) as [H3 H4].
  rewrite H3, H4. auto.
Qed.
Print Assumptions supplies_equal_full_budget.

Lemma periodic_full_sbf : forall P, 1 <= P -> forall x, sbf (PeriodicS P P) x = sbf Dedicated x.
Proof. intros P HP x. apply (supplies_equal_full_budget P x HP). Qed.
Lemma periodic_full_st : forall P, 1 <= P -> forall x, st (PeriodicS P P) x = st Dedicated x.
Proof. intros P HP x. apply (supplies_equal_full_budget P x HP). Qed.
Lemma constrained_full_sbf : forall P, 1 <= P -> forall x, sbf (ConstrainedS P P P) x = sbf Dedicated x.
Proof. intros P HP x. apply (supplies_equal_full_budget P x HP). Qed.
Lemma constrained_full_st : forall P, 1 <= P -> forall x, st (ConstrainedS P P P) x = st Dedicated x.
Proof. intros P HP x. apply (supplies_equal_full_budget P x HP). Qed.

Theorem ros2_full_budget_is_dedicated : forall P dbg rb limit, 1 <= P ->
  e_es dbg (PeriodicS P P) rb limit = e_es dbg Dedicated rb limit /\
  e_es dbg (ConstrainedS P P P) rb limit = e_es dbg Dedicated rb limit.
Proof.
  intros P dbg rb limit HP. unfold e_es. split; apply rta_event_source_ext;
    auto using periodic_full_sbf, periodic_full_st, constrained_full_sbf, constrained_full_st.
Qed.
Print Assumptions ros2_full_budget_is_dedicated.

Theorem e_timer_full_budget : forall P dbg own intf B limit, 1 <= P ->
  e_timer dbg (PeriodicS P P) own intf B limit = e_timer dbg Dedicated own intf B limit /\
  e_timer dbg (ConstrainedS P P P) own intf B limit = e_timer dbg Dedicated own intf B limit.
Proof.
  intros P dbg own intf B limit HP. unfold e_timer. split; apply rta_timer_ext;
    auto using periodic_full_sbf, periodic_full_st, constrained_full_sbf, constrained_full_st.
Qed.
Print Assumptions e_timer_full_budget.

Theorem e_pp_full_budget : forall P dbg own intf limit, 1 <= P ->
  e_pp dbg (PeriodicS P P) own intf limit = e_pp dbg Dedicated own intf limit /\
  e_pp dbg (ConstrainedS P P P) own intf limit = e_pp dbg Dedicated own intf limit.
Proof.
  intros P dbg own intf limit HP. unfold e_pp. split; apply rta_pp_ext;
    auto using periodic_full_sbf, periodic_full_st, constrained_full_sbf, constrained_full_st.
Qed.
Print Assumptions e_pp_full_budget.

Theorem e_chain_full_budget : forall P dbg lastcb prefix full other limit, 1 <= P ->
  e_chain dbg (PeriodicS P P) lastcb prefix full other limit = e_chain dbg Dedicated lastcb prefix full other limit /\
  e_chain dbg (ConstrainedS P P P) lastcb prefix full other limit = e_chain dbg Dedicated lastcb prefix full other limit.
Proof.
  intros P dbg lastcb prefix full other limit HP. unfold e_chain. split; apply rta_chain_ext;
    auto using periodic_full_sbf, periodic_full_st, constrained_full_sbf, constrained_full_st.
Qed.
Print Assumptions e_chain_full_budget.

Theorem e_rr_full_budget : forall P dbg wl sc limit, 1 <= P ->
  e_rr dbg (PeriodicS P P) wl sc limit = e_rr dbg Dedicated wl sc limit /\
  e_rr dbg (ConstrainedS P P P) wl sc limit = e_rr dbg Dedicated wl sc limit.
Proof.
  intros P dbg wl sc limit HP. unfold e_rr. split; apply rr_subchain_ext;
    auto using periodic_full_sbf, periodic_full_st, constrained_full_sbf, constrained_full_st.
Qed.
Print Assumptions e_rr_full_budget.

Theorem e_bw_full_budget : forall P dbg wl sc limit, 1 <= P ->
  e_bw dbg (PeriodicS P P) wl sc limit = e_bw dbg Dedicated wl sc limit /\
  e_bw dbg (ConstrainedS P P P) wl sc limit = e_bw dbg Dedicated wl sc limit.
Proof.
  intros P dbg wl sc limit HP. unfold e_bw. split; apply bw_subchain_ext;
    auto using periodic_full_sbf, periodic_full_st, constrained_full_sbf, constrained_full_st.
Qed.
Print Assumptions e_bw_full_budget.

(* ------------------------------------------------------------------------------------------ *)
(* 4. event source on a dedicated processor = FIFO                                             *)
(* ------------------------------------------------------------------------------------------ *)

Lemma maxN_ge : forall l x, In x l -> x <= maxN l.
Proof.
  induction l as [|y l IH]; intros x H; [destruct H|].
  cbn [maxN fold_right]. fold (maxN l). destruct H as [->|H]; [lia|]. specialize (IH x H). lia.
Qed.

Lemma maxN_le : forall l b, (forall x, In x l -> x <= b) -> maxN l <= b.
Proof.
  induction l as [|y l IH]; intros b H; [cbn; lia|].
  cbn [maxN fold_right]. fold (maxN l).
  assert (y <= b) by (apply H; left; reflexivity).
  assert (maxN l <= b) by (apply IH; intros x Hx; apply H; right; exact Hx). lia.
Qed.

Lemma existsb_false_intro : forall {A} (f : A -> bool) l,
  (forall x, In x l -> f x = false) -> existsb f l = false.
Proof.
  intros A f l H. destruct (existsb f l) eqn:E; [|reflexivity].
  apply existsb_exists in E. destruct E as [x [Hin Hx]]. rewrite (H x Hin) in Hx. discriminate.
Qed.

(* the maximum of a list of successful searches *)
Lemma mrt_all_ok : forall {A} (f : A -> N) l,
  max_response_time (map (fun a => ROk (f a)) l) = ROk (maxN (map f l)).
Proof.
  intros A f l. rewrite mrt_spec.
  - assert (E : find is_err (map (fun a => ROk (f a)) l) = None).
    { induction l as [|a l IH]; [reflexivity|]. cbn [map find is_err]. exact IH. }
    rewrite E, map_map. reflexivity.
  - apply existsb_false_intro. intros x Hx. apply in_map_iff in Hx.
    destruct Hx as [a [<- _]]. reflexivity.
Qed.

(* a search whose right-hand side is the constant T, at offset A, on a dedicated processor *)
Lemma swo_const : forall A T limit, 1 <= limit -> A <= T -> T - A <= limit ->
  search_with_offset (fun d => d) A limit (fun _ => T) = ROk (T - A).
Proof.
  intros A T limit H1 HA HT.
  apply (swo_complete (fun d => d) (fun d => d)).
  - intros d t. reflexivity.
  - intros a b _. apply N.le_refl.
  - exact HA.
  - exact H1.
  - exact HT.
  - unfold sol. lia.
  - intros r' Hr'. unfold sol. lia.
Qed.

(* the outcome of a search on a dedicated processor, for a monotone right-hand side *)
Lemma ded_search_spec : forall w, (forall a b, a <= b -> w a <= w b) ->
  forall dbg limit, swo_spec (fun d => d) w 0 limit (ded_search dbg limit w).
Proof.
  intros w w_mono dbg limit. unfold ded_search.
  assert (Hinv : forall d t : N, d <= t <-> d <= t) by (intros; reflexivity).
  assert (Hlip : forall t : N, t + 1 <= t + 1) by (intros; apply N.le_refl).
  rewrite (search_dbg_irrelevant (fun d => d) (fun d => d) Hinv eq_refl Hlip w w_mono dbg limit).
  apply (swo_spec_holds (fun d => d) (fun d => d) Hinv w w_mono 0 (N.le_0_l _) limit).
Qed.

Section BusyWindow.
  Variable total : N -> N.
  Hypothesis total_mono : forall a b, a <= b -> total a <= total b.
  Hypothesis total_arrives : 0 < total 1.

  (* the busy-window length found by the search is the least positive fixed point, and it is exact *)
  Lemma bw_facts : forall dbg limit L, ded_search dbg limit total = ROk L ->
    1 <= limit /\ L <= limit /\ 1 <= L /\ total L = L /\ (forall s, 1 <= s -> s < L -> s < total s).
  Proof.
    intros dbg limit L E. pose proof (ded_search_spec total total_mono dbg limit) as HS.
    rewrite E in HS. cbn [swo_spec] in HS. destruct HS as (Hlim1 & HLlim & HsolL & Hleast).
    unfold sol in HsolL, Hleast.
    assert (HL1 : 1 <= L).
    { destruct (N.eq_dec L 0) as [->|]; [|lia]. change (N.max 0 1) with 1 in HsolL. lia. }
    rewrite N.max_l in HsolL by exact HL1. rewrite N.add_0_l in HsolL.
    assert (Hgt : forall s, 1 <= s -> s < L -> s < total s).
    { intros s Hs1 HsL. destruct (N.lt_ge_cases s (total s)) as [|Hle]; [assumption|].
      assert (L <= s); [|lia]. apply Hleast. rewrite N.max_l by exact Hs1. lia. }
    repeat split; try assumption.
    destruct (N.eq_dec L 1) as [->|HLn1]; [lia|].
    assert (L - 1 < total (L - 1)) by (apply Hgt; lia).
    assert (total (L - 1) <= total L) by (apply total_mono; lia). lia.
  Qed.

  Lemma bw_below : forall dbg limit L, ded_search dbg limit total = ROk L ->
    forall A, A < L -> A <= total (A + 1) /\ total (A + 1) <= L.
  Proof.
    intros dbg limit L E A HA. destruct (bw_facts dbg limit L E) as (_ & _ & HL1 & HLeq & Hgt). split.
    - destruct (N.eq_dec A 0) as [->|HA0]; [lia|].
      assert (A < total A) by (apply Hgt; lia).
      assert (total A <= total (A + 1)) by (apply total_mono; lia). lia.
    - assert (total (A + 1) <= total L) by (apply total_mono; lia). lia.
  Qed.

  (* the FIFO bound, once the busy window is known *)
  Lemma fifo_value : forall steps, (forall h d, In d (steps h) -> 1 <= d /\ d <= h) ->
    forall dbg limit L, ded_search dbg limit total = ROk L ->
    fifo_rta dbg total steps limit = ROk (maxN (map (fun A => total (A + 1) - A) (map (fun d => d - 1) (steps L)))).
  Proof.
    intros steps Hsteps dbg limit L E. unfold fifo_rta. rewrite E. cbn [rbind].
    unfold offsets_of_steps. rewrite filter_pos_id by (intros d Hd; apply Hsteps in Hd; lia).
    rewrite (existsb_false_intro (fun A => total (A + 1) <? A)); [reflexivity|].
    intros A HA. apply in_map_iff in HA. destruct HA as [d [<- Hd]]. apply Hsteps in Hd.
    destruct (bw_below dbg limit L E (d - 1) ltac:(lia)) as [H _].
    destruct (N.ltb_spec (total (d - 1 + 1)) (d - 1)); [lia|reflexivity].
  Qed.
End BusyWindow.

Section EsFifo.
  Variables (total : N -> N) (steps : N -> list N) (limit : N).
  Hypothesis total_mono : forall a b, a <= b -> total a <= total b.
  Hypothesis total0 : total 0 = 0.
  Hypothesis total_arrives : 0 < total 1.
  Hypothesis total_subadditive : forall a b, total (a + b) <= total a + total b.
  Hypothesis steps_ok : forall h d, In d (steps h) <-> (1 <= d /\ d <= h /\ total (d - 1) < total d).

  Theorem event_source_dedicated_is_fifo : forall dbg,
    rta_event_source dbg (fun d => d) (fun d => d) limit total steps = fifo_rta dbg total steps limit.
  Proof.
    intros dbg. unfold rta_event_source, bound_response_time.
    fold (ded_search dbg limit total).
    pose proof (ded_search_spec total total_mono dbg limit) as HS.
    destruct (ded_search dbg limit total) as [L|o l|] eqn:E; cycle 1.
    { unfold fifo_rta. rewrite E. reflexivity. }
    { destruct HS. }
    clear HS. cbn [rbind].
    assert (Hsteps : forall h d, In d (steps h) -> 1 <= d /\ d <= h).
    { intros h d Hd. apply steps_ok in Hd. lia. }
    rewrite (fifo_value total total_mono total_arrives steps Hsteps dbg limit L E).
    destruct (bw_facts total total_mono total_arrives dbg limit L E) as (Hlim1 & HLlim & HL1 & HLeq & Hgt).
    pose proof (bw_below total total_mono total_arrives dbg limit L E) as Hbelow.
    assert (Hstep1 : In 1 (steps L)).
    { apply steps_ok. change (1 - 1) with 0. rewrite total0. lia. }
    cbv zeta. rewrite filter_pos_id by (intros d Hd; apply Hsteps in Hd; lia).
    (* every event-source search succeeds *)
    rewrite (map_ext_in _ (fun A => ROk (total (A + 1) - A))).
    2:{ intros A HA. apply in_map_iff in HA. destruct HA as [d [<- Hd]]. apply steps_ok in Hd.
        destruct Hd as (Hd1 & HdL & Hdstep).
        destruct (N.eq_dec d (L + 1)) as [->|Hne].
        - replace (L + 1 - 1) with L in * by lia.
          pose proof (total_subadditive L 1) as Hsub.
          assert (total 1 <= total L) by (apply total_mono; exact HL1).
          apply swo_const; [exact Hlim1|lia|lia].
        - destruct (Hbelow (d - 1) ltac:(lia)) as [H1 H2].
          apply swo_const; [exact Hlim1|exact H1|lia]. }
    rewrite mrt_all_ok. f_equal. apply N.le_antisymm.
    - (* the additional offset L of the event-source analysis is dominated by offset 0 *)
      apply maxN_le. intros x Hx. apply in_map_iff in Hx. destruct Hx as [A [<- HA]].
      apply in_map_iff in HA. destruct HA as [d [<- Hd]]. apply steps_ok in Hd.
      destruct Hd as (Hd1 & HdL & Hdstep).
      destruct (N.eq_dec d (L + 1)) as [->|Hne].
      + replace (L + 1 - 1) with L by lia.
        pose proof (total_subadditive L 1) as Hsub.
        transitivity (total (0 + 1) - 0); [change (0 + 1) with 1; lia|].
        apply maxN_ge. apply in_map_iff. exists 0. split; [reflexivity|].
        apply in_map_iff. exists 1. split; [reflexivity|exact Hstep1].
      + apply maxN_ge. apply in_map_iff. exists (d - 1). split; [reflexivity|].
        apply in_map_iff. exists d. split; [reflexivity|]. apply steps_ok. lia.
    - apply maxN_le. intros x Hx. apply in_map_iff in Hx. destruct Hx as [A [<- HA]].
      apply in_map_iff in HA. destruct HA as [d [<- Hd]]. apply steps_ok in Hd.
      apply maxN_ge. apply in_map_iff. exists (d - 1). split; [reflexivity|].
      apply in_map_iff. exists d. split; [reflexivity|]. apply steps_ok. lia.
  Qed.
End EsFifo.
Print Assumptions event_source_dedicated_is_fifo.

(* ------------------------------------------------------------------------------------------ *)
(* 5. stretch: with equal relative deadlines, the largest NP-EDF bound is the FIFO bound        *)
(* ------------------------------------------------------------------------------------------ *)
From Coq Require Import Permutation.

(* ---- membership in merged step sequences ---- *)
Lemma merge_nil_l : forall l2, merge [] l2 = l2.
Proof. intros [|a l]; reflexivity. Qed.
Lemma merge_nil_r : forall l1, merge l1 [] = l1.
Proof. intros [|a l]; reflexivity. Qed.
Lemma merge_cons : forall a1 l1 a2 l2,
  merge (a1 :: l1) (a2 :: l2) = if a1 <=? a2 then a1 :: merge l1 (a2 :: l2) else a2 :: merge (a1 :: l1) l2.
Proof. reflexivity. Qed.

Lemma In_merge : forall l1 l2 x, In x (merge l1 l2) <-> In x l1 \/ In x l2.
Proof.
  induction l1 as [|a1 l1 IH1]; intros l2 x.
  - rewrite merge_nil_l. cbn [In]. tauto.
  - induction l2 as [|a2 l2 IH2].
    + rewrite merge_nil_r. cbn [In]. tauto.
    + rewrite merge_cons. destruct (a1 <=? a2); cbn [In].
      * rewrite IH1. cbn [In]. tauto.
      * rewrite IH2. cbn [In]. tauto.
Qed.

Lemma kmerge_cons : forall l ls, kmerge (l :: ls) = merge l (kmerge ls).
Proof. reflexivity. Qed.

Lemma In_kmerge : forall ls x, In x (kmerge ls) <-> exists l, In l ls /\ In x l.
Proof.
  induction ls as [|l ls IH]; intros x.
  - cbn. split; [tauto|]. intros [l [[] _]].
  - rewrite kmerge_cons, In_merge, IH. cbn [In]. split.
    + intros [H|[l' [H1 H2]]]; [exists l; auto|exists l'; auto].
    + intros [l' [[<-|H1] H2]]; [left; exact H2|right; exists l'; auto].
Qed.

Lemma In_dedup : forall l x, In x (dedup l) <-> In x l.
Proof.
  induction l as [|a l IH]; intros x; [reflexivity|].
  destruct l as [|b l].
  - reflexivity.
  - change (dedup (a :: b :: l)) with (if a =? b then dedup (b :: l) else a :: dedup (b :: l)).
    destruct (N.eqb_spec a b) as [->|Hne].
    + rewrite IH. cbn [In]. tauto.
    + cbn [In]. rewrite IH. cbn [In]. tauto.
Qed.

(* ---- sums ---- *)
Lemma sumN_cons : forall x l, sumN (x :: l) = x + sumN l.
Proof. reflexivity. Qed.

Lemma sumN_map_le : forall {A} (f g : A -> N) l, (forall x, In x l -> f x <= g x) ->
  sumN (map f l) <= sumN (map g l).
Proof.
  intros A f g l. induction l as [|a l IH]; intros H; [apply N.le_refl|].
  cbn [map]. rewrite !sumN_cons.
  assert (f a <= g a) by (apply H; left; reflexivity).
  assert (sumN (map f l) <= sumN (map g l)) by (apply IH; intros x Hx; apply H; right; exact Hx). lia.
Qed.

Lemma sumN_map_in_le : forall {A} (f : A -> N) l x, In x l -> f x <= sumN (map f l).
Proof.
  intros A f l x. induction l as [|a l IH]; intros H; [destruct H|].
  cbn [map]. rewrite sumN_cons. destruct H as [->|H]; [lia|]. specialize (IH H). lia.
Qed.

Lemma sumN_perm : forall l l', Permutation l l' -> sumN l = sumN l'.
Proof.
  intros l l' H. induction H as [|x l l' _ IH|x y l|l l' l'' _ IH1 _ IH2].
  - reflexivity.
  - rewrite !sumN_cons, IH. reflexivity.
  - rewrite !sumN_cons. lia.
  - congruence.
Qed.

(* ---- every element of a list together with the remaining ones ---- *)
Fixpoint picks {A} (l : list A) : list (A * list A) :=
  match l with
  | [] => []
  | x :: l' => (x, l') :: map (fun p => (fst p, x :: snd p)) (picks l')
  end.

Lemma picks_perm : forall {A} (l : list A) x r, In (x, r) (picks l) -> Permutation l (x :: r).
Proof.
  intros A l. induction l as [|a l IH]; intros x r H; [destruct H|].
  cbn [picks In] in H. destruct H as [H|H].
  - inversion H. subst. apply Permutation_refl.
  - apply in_map_iff in H. destruct H as [[y s] [Heq Hin]]. cbn [fst snd] in Heq.
    inversion Heq. subst. apply IH in Hin.
    apply perm_trans with (a :: x :: s); [apply perm_skip; exact Hin|apply perm_swap].
Qed.

Lemma picks_all : forall {A} (l : list A) x, In x l -> exists r, In (x, r) (picks l).
Proof.
  intros A l. induction l as [|a l IH]; intros x H; [destruct H|].
  destruct H as [->|H].
  - exists l. left. reflexivity.
  - destruct (IH x H) as [r Hr]. exists (a :: r). right.
    apply in_map_iff. exists (x, r). split; [reflexivity|exact Hr].
Qed.

Lemma picks_nonempty : forall {A} (l : list A), l <> [] -> picks l <> [].
Proof. intros A [|a l] H; [congruence|discriminate]. Qed.

(* a non-empty sequence of identical errors *)
Lemma mrt_const_err : forall l o li, l <> [] -> (forall x, In x l -> x = RErr o li) ->
  max_response_time l = RErr o li.
Proof.
  intros l o li Hne H. rewrite mrt_spec.
  - destruct l as [|x l]; [congruence|]. rewrite (H x (or_introl eq_refl)). reflexivity.
  - apply existsb_false_intro. intros x Hx. rewrite (H x Hx). reflexivity.
Qed.

(* ---- one task under NP-EDF when every task has the relative deadline D ---- *)
Definition good_other (D : N) (o : edf_other) : Prop :=
  o_dl o = D /\ (forall a b, a <= b -> o_rbf o a <= o_rbf o b) /\
  (forall h d, In d (o_steps o h) <-> (1 <= d /\ d <= h /\ o_rbf o (d - 1) < o_rbf o d)).

Section NpEdfTask.
  Variables (dbg : bool) (C : N) (arr : N -> N) (asteps : N -> list N) (D : N).
  Variables (others : list edf_other) (limit : N).
  Hypothesis HC : 1 <= C.
  Hypothesis arr_mono : forall a b, a <= b -> arr a <= arr b.
  Hypothesis arr1 : 0 < arr 1.
  Hypothesis asteps_ok : forall h d, In d (asteps h) <-> (1 <= d /\ d <= h /\ arr (d - 1) < arr d).
  Hypothesis Hothers : Forall (good_other D) others.

  Definition oth (x : N) : N := sumN (map (fun o => o_rbf o x) others).
  Definition ttl (x : N) : N := oth x + C * arr x.       (* = edf_bw_rhs of this task *)

  (* A + 1 is a step of the task or of one of the others *)
  Definition some_step (A : N) : Prop :=
    arr A < arr (A + 1) \/ exists o, In o others /\ o_rbf o A < o_rbf o (A + 1).

  Variables (L M : N).
  Hypothesis HL : ded_search dbg limit ttl = ROk L.
  Hypothesis HM1 : forall A, A < L -> some_step A -> ttl (A + 1) - A <= M.
  Hypothesis HM2 : C <= M.

  Lemma good_in : forall o, In o others -> good_other D o.
  Proof. apply Forall_forall. exact Hothers. Qed.

  Lemma oth_mono : forall a b, a <= b -> oth a <= oth b.
  Proof.
    intros a b Hab. unfold oth. apply sumN_map_le. intros o Ho.
    destruct (good_in o Ho) as (_ & Hm & _). apply Hm. exact Hab.
  Qed.

  Lemma ttl_mono : forall a b, a <= b -> ttl a <= ttl b.
  Proof.
    intros a b Hab. unfold ttl. pose proof (oth_mono a b Hab).
    pose proof (N.mul_le_mono_l _ _ C (arr_mono a b Hab)). lia.
  Qed.

  Lemma ttl_arrives : 0 < ttl 1.
  Proof. unfold ttl. pose proof (N.mul_le_mono_l 1 (arr 1) C ltac:(lia)). lia. Qed.

  Lemma np_search_space : exists offs,
    edf_search_space asteps D others L = Some offs /\
    forall A, In A offs <-> (A < L /\ some_step A).
  Proof.
    destruct (bw_facts ttl ttl_mono ttl_arrives dbg limit L HL) as (_ & _ & HL1 & _).
    assert (Hoth : exists os, all_some (map (edf_other_offsets D L) others) = Some os /\
              forall A, In A (kmerge os) <-> (A < L /\ exists o, In o others /\ o_rbf o A < o_rbf o (A + 1))).
    { clear HM1 HL. induction Hothers as [|o l Ho Hl IH].
      - exists []. split; [reflexivity|]. intros A. cbn. split; [tauto|]. intros [_ [o [[] _]]].
      - destruct (IH Hl) as [os [E Hos]]. destruct Ho as (Hd & _ & Hst).
        exists (map (fun a => a + D - D) (map (fun d => d - 1) (o_steps o L)) :: os). split.
        + cbn [map all_some]. rewrite E. unfold edf_other_offsets.
          destruct (N.eqb_spec L 0) as [|_]; [lia|]. rewrite Hd.
          replace (L + D - D) with L by lia. unfold offsets_of_steps.
          rewrite filter_pos_id; [reflexivity|].
          intros d Hin. apply Hst in Hin. lia.
        + intros A. rewrite kmerge_cons, In_merge, Hos, map_map, in_map_iff. split.
          * intros [[d [HdA Hin]]|[HA [o' [Hin Hlt]]]].
            -- apply Hst in Hin. destruct Hin as (H1 & H2 & H3).
               assert (d = A + 1) by lia. subst d. replace (A + 1 - 1) with A in H3 by lia.
               split; [lia|]. exists o. split; [left; reflexivity|exact H3].
            -- split; [exact HA|]. exists o'. split; [right; exact Hin|exact Hlt].
          * intros [HA [o' [[<-|Hin] Hlt]]].
            -- left. exists (A + 1). split; [lia|]. apply Hst. replace (A + 1 - 1) with A by lia. lia.
            -- right. split; [exact HA|]. exists o'. split; assumption. }
    destruct Hoth as [os [E Hos]]. unfold edf_search_space. rewrite E.
    unfold offsets_of_steps. rewrite filter_pos_id by (intros d Hin; apply asteps_ok in Hin; lia).
    eexists. split; [reflexivity|]. intros A.
    rewrite In_dedup, In_merge, Hos, in_map_iff. unfold some_step. split.
    - intros [[HA Ho]|[d [HdA Hin]]]; [tauto|].
      apply asteps_ok in Hin. destruct Hin as (H1 & H2 & H3).
      assert (d = A + 1) by lia. subst d. replace (A + 1 - 1) with A in H3 by lia.
      split; [lia|]. left. exact H3.
    - intros [HA [Hs|Ho]]; [right|left; tauto].
      exists (A + 1). split; [lia|]. apply asteps_ok. replace (A + 1 - 1) with A by lia. lia.
  Qed.

  Lemma np_blocking0 : forall A, edf_blocking true D others A = 0.
  Proof.
    intros A. unfold edf_blocking.
    assert (E : filter (fun o => (D + A <? o_dl o) && (0 <? o_rbf o 1)) others = []).
    { clear HM1 HL. induction Hothers as [|o l Ho Hl IH]; [reflexivity|].
      cbn [filter]. destruct Ho as (Hd & _). rewrite Hd.
      destruct (N.ltb_spec (D + A) D); [lia|]. exact (IH Hl). }
    rewrite E. reflexivity.
  Qed.

  Lemma np_rhs_eq : forall A AF,
    edf_rhs true (C - 1) (fun d => C * arr d) D others A AF
    = (C * arr (A + 1) - (C - 1)) + oth (N.min AF (A + 1)).
  Proof.
    intros A AF. unfold edf_rhs. rewrite np_blocking0, N.add_0_l. f_equal.
    unfold edf_hep, oth. f_equal. apply map_ext_in. intros o Ho.
    destruct (good_in o Ho) as (Hd & _). rewrite Hd. f_equal. lia.
  Qed.

  Lemma np_rta_at : forall A, A < L -> some_step A ->
    exists v, edf_rta dbg true (C - 1) (fun d => C * arr d) D others limit A = ROk v /\
              v <= M /\ (arr A < arr (A + 1) -> v = ttl (A + 1) - A).
  Proof.
    intros A HA Hstep.
    destruct (bw_facts ttl ttl_mono ttl_arrives dbg limit L HL) as (Hlim1 & HLlim & HL1 & HLeq & Hgt).
    assert (Hca : C <= C * arr (A + 1)).
    { pose proof (arr_mono 1 (A + 1) ltac:(lia)).
      pose proof (N.mul_le_mono_l 1 (arr (A + 1)) C ltac:(lia)). lia. }
    unfold edf_rta.
    set (w := edf_rhs true (C - 1) (fun d => C * arr d) D others A).
    assert (Hw : forall AF, w AF = (C * arr (A + 1) - (C - 1)) + oth (N.min AF (A + 1))) by apply np_rhs_eq.
    assert (w_mono : forall a b, a <= b -> w a <= w b).
    { intros a b Hab. rewrite !Hw. pose proof (oth_mono (N.min a (A + 1)) (N.min b (A + 1)) ltac:(lia)). lia. }
    set (X := ttl (A + 1) - (C - 1)).
    assert (HXdef : X = (C * arr (A + 1) - (C - 1)) + oth (A + 1)) by (unfold X, ttl; lia).
    assert (HwX : forall s, w s <= X).
    { intros s. rewrite Hw, HXdef. pose proof (oth_mono (N.min s (A + 1)) (A + 1) ltac:(lia)). lia. }
    assert (HX1 : 1 <= X) by lia.
    assert (HXL : X <= L).
    { pose proof (ttl_mono (A + 1) L ltac:(lia)). unfold X. lia. }
    pose proof (ded_search_spec w w_mono dbg limit) as HS.
    destruct (ded_search dbg limit w) as [AF|o l|]; cbn [swo_spec rbind] in *.
    - destruct HS as (_ & HAFlim & Hsol & Hleast). unfold sol in Hsol, Hleast.
      rewrite N.add_0_l in Hsol.
      assert (HAF1 : 1 <= AF).
      { destruct (N.eq_dec AF 0) as [->|]; [|lia]. change (N.max 0 1) with 1 in Hsol.
        rewrite Hw in Hsol. lia. }
      rewrite N.max_l in Hsol by exact HAF1.
      assert (HAFX : AF <= X).
      { apply Hleast. rewrite N.add_0_l. apply HwX. }
      eexists. split; [reflexivity|]. split.
      + destruct (N.le_gt_cases AF A) as [Hle|Hgt'].
        * replace (AF - A) with 0 by lia. lia.
        * specialize (HM1 A HA Hstep). unfold X in HAFX. unfold ttl in *. lia.
      + intros Hs.
        assert (HAFA : A + 1 <= AF).
        { destruct (N.le_gt_cases (A + 1) AF) as [|Hlt]; [assumption|]. exfalso.
          rewrite Hw in Hsol. rewrite N.min_l in Hsol by lia.
          assert (AF < ttl AF) by (apply Hgt; lia). unfold ttl in *.
          pose proof (N.mul_le_mono_l (arr A + 1) (arr (A + 1)) C ltac:(lia)).
          pose proof (N.mul_le_mono_l _ _ C (arr_mono AF A ltac:(lia))). lia. }
        rewrite Hw in Hsol. rewrite N.min_r in Hsol by lia. rewrite <- HXdef in Hsol.
        assert (AF = X) by lia. subst AF. unfold X, ttl. lia.
    - exfalso. destruct HS as (_ & _ & Hn). specialize (Hn X). unfold sol in Hn.
      rewrite N.add_0_l in Hn. specialize (Hn (HwX _)). lia.
    - destruct HS.
  Qed.

  Theorem np_edf_task : exists Mi,
    edf_generic dbg true (1 <=? C) (C - 1) (fun d => C * arr d) asteps D others limit = ROk Mi /\
    Mi <= M /\ forall A, A < L -> arr A < arr (A + 1) -> ttl (A + 1) - A <= Mi.
  Proof.
    unfold edf_generic.
    assert (E : ded_search dbg limit (edf_bw_rhs (fun d => C * arr d) others) = ROk L) by exact HL.
    rewrite E. cbn [rbind]. destruct (N.leb_spec 1 C) as [_|]; [|lia]. cbn [negb].
    destruct np_search_space as [offs [Ess Hoffs]]. rewrite Ess.
    set (rta := edf_rta dbg true (C - 1) (fun d => C * arr d) D others limit).
    rewrite (map_ext_in rta (fun A => ROk (val_of (rta A)))).
    2:{ intros A HA. apply Hoffs in HA. destruct HA as [HA Hs].
        destruct (np_rta_at A HA Hs) as [v [Ev _]]. fold rta in Ev. rewrite Ev. reflexivity. }
    rewrite mrt_all_ok. eexists. split; [reflexivity|]. split.
    - apply maxN_le. intros x Hx. apply in_map_iff in Hx. destruct Hx as [A [<- HA]].
      apply Hoffs in HA. destruct HA as [HA Hs].
      destruct (np_rta_at A HA Hs) as [v [Ev [Hv _]]]. fold rta in Ev. rewrite Ev. exact Hv.
    - intros A HA Hs.
      assert (Hss : some_step A) by (left; exact Hs).
      destruct (np_rta_at A HA Hss) as [v [Ev [_ Hv]]]. fold rta in Ev. rewrite <- (Hv Hs).
      apply maxN_ge. apply in_map_iff. exists A. split; [rewrite Ev; reflexivity|].
      apply Hoffs. split; assumption.
  Qed.
End NpEdfTask.

(* ---- all tasks ---- *)
Definition np_task_ok (t : AB * N) : Prop :=
  1 <= snd t /\ 0 < na (fst t) 1 /\ na (fst t) 0 = 0 /\
  (forall a b, a <= b -> na (fst t) a <= na (fst t) b) /\
  (forall h d, In d (steps_upto (fst t) h) <-> (1 <= d /\ d <= h /\ na (fst t) (d - 1) < na (fst t) d)).

Definition rb_of_task (t : AB * N) : RB := RBF (fst t) (Scalar (snd t)).
Definition np_others (D : N) (r : list (AB * N)) : list (AB * N * N) := map (fun o => (fst o, snd o, D)) r.
(* the NP-EDF bound of every task, each analysed against all the other ones *)
Definition np_edf_bounds dbg (D : N) (ts : list (AB * N)) (limit : N) : list result :=
  map (fun p => e_edf_np dbg (fst (fst p)) (snd (fst p)) D (np_others D (snd p)) limit) (picks ts).

Definition task_rbf (x : N) (t : AB * N) : N := snd t * na (fst t) x.

Lemma agg_total_eq : forall ts x, sn (Agg (map rb_of_task ts)) x = sumN (map (task_rbf x) ts).
Proof. intros ts x. cbn [sn]. rewrite map_map. reflexivity. Qed.

Lemma np_others_rbf : forall D r x,
  oth (map other_of_ab (np_others D r)) x = sumN (map (task_rbf x) r).
Proof.
  intros D r x. unfold oth, np_others. rewrite !map_map. f_equal.
Qed.

Lemma np_task_total : forall D ts t r x, Permutation ts (t :: r) ->
  ttl (snd t) (na (fst t)) (map other_of_ab (np_others D r)) x = sn (Agg (map rb_of_task ts)) x.
Proof.
  intros D ts t r x Hp. unfold ttl. rewrite np_others_rbf, agg_total_eq.
  rewrite (sumN_perm _ _ (Permutation_map (task_rbf x) Hp)). cbn [map]. rewrite sumN_cons.
  unfold task_rbf. lia.
Qed.

Lemma np_others_good : forall D r, Forall np_task_ok r ->
  Forall (good_other D) (map other_of_ab (np_others D r)).
Proof.
  intros D r Hr. unfold np_others. rewrite map_map. apply Forall_forall. intros o Ho.
  apply in_map_iff in Ho. destruct Ho as [[a c] [<- Hin]].
  rewrite Forall_forall in Hr. destruct (Hr _ Hin) as (Hc & _ & _ & Hm & Hs). cbn [fst snd] in *.
  unfold good_other. cbn [other_of_ab o_dl o_rbf o_steps]. split; [reflexivity|]. split.
  - intros x y Hxy. apply N.mul_le_mono_l. apply Hm. exact Hxy.
  - intros h d. rewrite Hs. rewrite <- (N.mul_lt_mono_pos_l c) by lia. reflexivity.
Qed.

Lemma agg_steps_in : forall ts h d,
  In d (rb_steps_upto (Agg (map rb_of_task ts)) h) <-> exists t, In t ts /\ In d (steps_upto (fst t) h).
Proof.
  intros ts h d. cbn [rb_steps_upto]. rewrite In_dedup, In_kmerge, map_map. split.
  - intros [l [Hl Hd]]. apply in_map_iff in Hl. destruct Hl as [t [<- Ht]]. exists t. split; assumption.
  - intros [t [Ht Hd]]. exists (steps_upto (fst t) h). split; [|exact Hd].
    apply in_map_iff. exists t. split; [reflexivity|exact Ht].
Qed.

Theorem np_edf_equal_deadlines_is_fifo : forall dbg D ts limit, ts <> [] -> Forall np_task_ok ts ->
  max_response_time (np_edf_bounds dbg D ts limit) = e_fifo dbg (Agg (map rb_of_task ts)) limit.
Proof.
  intros dbg D ts limit Hne Hok.
  set (T := sn (Agg (map rb_of_task ts))).
  set (gsteps := rb_steps_upto (Agg (map rb_of_task ts))).
  assert (Hokin : forall t, In t ts -> np_task_ok t) by (apply Forall_forall; exact Hok).
  assert (T_mono : forall a b, a <= b -> T a <= T b).
  { intros a b Hab. unfold T. rewrite !agg_total_eq. apply sumN_map_le. intros t Ht.
    destruct (Hokin t Ht) as (_ & _ & _ & Hm & _). apply N.mul_le_mono_l. apply Hm. exact Hab. }
  assert (T_task : forall t x, In t ts -> snd t * na (fst t) x <= T x).
  { intros t x Ht. unfold T. rewrite agg_total_eq. apply (sumN_map_in_le (task_rbf x) ts t Ht). }
  assert (T_task1 : forall t, In t ts -> snd t <= T 1).
  { intros t Ht. pose proof (T_task t 1 Ht). destruct (Hokin t Ht) as (Hc & H1 & _).
    pose proof (N.mul_le_mono_l 1 (na (fst t) 1) (snd t) ltac:(lia)). lia. }
  assert (T_arrives : 0 < T 1).
  { destruct ts as [|t ts']; [congruence|]. pose proof (T_task1 t (or_introl eq_refl)).
    destruct (Hokin t (or_introl eq_refl)) as (Hc & _). lia. }
  assert (Hgsteps : forall h d, In d (gsteps h) -> 1 <= d /\ d <= h).
  { intros h d Hd. apply agg_steps_in in Hd. destruct Hd as [t [Ht Hd]].
    destruct (Hokin t Ht) as (_ & _ & _ & _ & Hs). apply Hs in Hd. lia. }
  (* every task sees the same busy window *)
  assert (Hbw : forall p, In p (picks ts) ->
            ded_search dbg limit (edf_bw_rhs (fun d => snd (fst p) * na (fst (fst p)) d)
                                    (map other_of_ab (np_others D (snd p))))
            = ded_search dbg limit T).
  { intros [t r] Hp. apply ded_search_ext. intros x. cbn [fst snd].
    apply (np_task_total D ts t r x (picks_perm ts t r Hp)). }
  pose proof (ded_search_spec T T_mono dbg limit) as HS.
  destruct (ded_search dbg limit T) as [L|o l|] eqn:E; cycle 1.
  { (* divergence: every analysis reports it *)
    unfold e_fifo, fifo_rta. fold T. rewrite E. cbn [rbind].
    apply mrt_const_err.
    - unfold np_edf_bounds. pose proof (picks_nonempty ts Hne). destruct (picks ts); [congruence|discriminate].
    - intros x Hx. apply in_map_iff in Hx. destruct Hx as [p [<- Hp]].
      unfold e_edf_np, edf_generic. rewrite (Hbw p Hp). reflexivity. }
  { destruct HS. }
  clear HS.
  unfold e_fifo. fold T gsteps. rewrite (fifo_value T T_mono T_arrives gsteps Hgsteps dbg limit L E).
  set (M := maxN (map (fun A => T (A + 1) - A) (map (fun d => d - 1) (gsteps L)))).
  destruct (bw_facts T T_mono T_arrives dbg limit L E) as (_ & _ & HL1 & _).
  (* the FIFO maximum dominates the value at every offset where some task has a step *)
  assert (HM : forall t A, In t ts -> A < L -> na (fst t) A < na (fst t) (A + 1) -> T (A + 1) - A <= M).
  { intros t A Ht HA Hs. apply maxN_ge. apply in_map_iff. exists A. split; [reflexivity|].
    apply in_map_iff. exists (A + 1). split; [lia|]. apply agg_steps_in. exists t. split; [exact Ht|].
    destruct (Hokin t Ht) as (_ & _ & _ & _ & Hst). apply Hst.
    replace (A + 1 - 1) with A by lia. lia. }
  assert (HM2 : forall t, In t ts -> snd t <= M).
  { intros t Ht. transitivity (T (0 + 1) - 0).
    - change (0 + 1) with 1. pose proof (T_task1 t Ht). lia.
    - apply (HM t 0 Ht); [lia|]. destruct (Hokin t Ht) as (_ & H1 & H0 & _).
      change (0 + 1) with 1. rewrite H0. exact H1. }
  set (R := fun p : (AB * N) * list (AB * N) =>
              e_edf_np dbg (fst (fst p)) (snd (fst p)) D (np_others D (snd p)) limit).
  assert (Hper : forall p, In p (picks ts) -> exists Mi, R p = ROk Mi /\ Mi <= M /\
            forall A, A < L -> na (fst (fst p)) A < na (fst (fst p)) (A + 1) -> T (A + 1) - A <= Mi).
  { intros [t r] Hp. pose proof (picks_perm ts t r Hp) as Hperm. cbn [fst snd].
    assert (Ht : In t ts) by (apply (Permutation_in _ (Permutation_sym Hperm)); left; reflexivity).
    assert (Hr : forall t', In t' r -> In t' ts).
    { intros t' Ht'. apply (Permutation_in _ (Permutation_sym Hperm)). right. exact Ht'. }
    destruct (Hokin t Ht) as (Hc & H1 & H0 & Hm & Hst).
    assert (Hgood : Forall (good_other D) (map other_of_ab (np_others D r))).
    { apply np_others_good. apply Forall_forall. intros t' Ht'. apply Hokin, Hr, Ht'. }
    assert (Httl : forall x, ttl (snd t) (na (fst t)) (map other_of_ab (np_others D r)) x = T x).
    { intros x. apply (np_task_total D ts t r x Hperm). }
    destruct (np_edf_task dbg (snd t) (na (fst t)) (steps_upto (fst t)) D
                (map other_of_ab (np_others D r)) limit Hc Hm H1 Hst Hgood L M) as [Mi (E1 & E2 & E3)].
    - rewrite <- E. apply ded_search_ext. exact Httl.
    - intros A HA Hs. rewrite Httl. destruct Hs as [Hs|[o [Ho Hs]]].
      + apply (HM t A Ht HA Hs).
      + unfold np_others in Ho. rewrite map_map in Ho. apply in_map_iff in Ho.
        destruct Ho as [[a c] [<- Hin]]. cbn [fst snd other_of_ab o_rbf] in Hs.
        apply (HM (a, c) A (Hr _ Hin) HA). cbn [fst].
        destruct (N.lt_ge_cases (na a A) (na a (A + 1))) as [|Hge]; [assumption|].
        pose proof (N.mul_le_mono_l _ _ c Hge). lia.
    - apply HM2. exact Ht.
    - exists Mi. split; [exact E1|]. split; [exact E2|].
      intros A HA Hs. rewrite <- Httl. apply E3; assumption. }
  unfold np_edf_bounds. fold R.
  rewrite (map_ext_in R (fun p => ROk (val_of (R p)))).
  2:{ intros p Hp. destruct (Hper p Hp) as [Mi [Ep _]]. rewrite Ep. reflexivity. }
  rewrite mrt_all_ok. f_equal. apply N.le_antisymm.
  - apply maxN_le. intros x Hx. apply in_map_iff in Hx. destruct Hx as [p [<- Hp]].
    destruct (Hper p Hp) as [Mi [Ep [Hle _]]]. rewrite Ep. exact Hle.
  - apply maxN_le. intros x Hx. apply in_map_iff in Hx. destruct Hx as [A [<- HA]].
    apply in_map_iff in HA. destruct HA as [d [<- Hd]].
    pose proof (Hgsteps _ _ Hd) as Hdb. apply agg_steps_in in Hd. destruct Hd as [t [Ht Hd]].
    destruct (Hokin t Ht) as (_ & _ & _ & _ & Hst). apply Hst in Hd.
    destruct (picks_all ts t Ht) as [r Hp]. destruct (Hper (t, r) Hp) as [Mi [Ep [_ Hlow]]].
    cbn [fst] in Hlow. transitivity Mi.
    + apply Hlow; [lia|]. replace (d - 1 + 1) with d by lia. lia.
    + apply maxN_ge. apply in_map_iff. exists (t, r). split; [rewrite Ep; reflexivity|exact Hp].
Qed.
Print Assumptions np_edf_equal_deadlines_is_fifo.
