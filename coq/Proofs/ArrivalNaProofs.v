(* ArrivalNaProofs.v — C10: the arrival bounds of Model/Arrival.v never undercount the event
   sequences they describe (Spec/Events.v).
   1. counting events in windows (nat),
   2. separated sequences (Periodic / Sporadic) and delayed sequences (jitter),
   3. sorted sequences that respect a delta-min vector (Curve),
   4. curve extension: extrapolate_next / push_next / extrapolate (ExtrapolatingCurve),
   5. na_zero, na_mono, na_bounds_admissible,
   6. attainment and sub-additivity for Periodic / Sporadic,
   7. clone_with_jitter. *)
From Coq Require Import List NArith Arith Lia Bool.
From Coq Require Import ZifyBool.
From RTA.Model Require Import Base Arrival WellFormed.
From RTA.Spec Require Import Events.
From RTA.Proofs Require Import FixedPointProofs WcetProofs.
Import ListNotations.

(* ------------------------------------------------------------------------------------------ *)
(* 1. counting (nat)                                                                           *)
(* ------------------------------------------------------------------------------------------ *)
Local Close Scope N_scope.
Local Open Scope nat_scope.

Lemma iter_succ_r : forall {A} k (f : A -> A) x, Nat.iter (S k) f x = Nat.iter k f (f x).
Proof.
  intros A k f x. induction k as [|k IH].
  - reflexivity.
  - change (Nat.iter (S (S k)) f x) with (f (Nat.iter (S k) f x)). rewrite IH. reflexivity.
Qed.

Lemma iter_S : forall {A} k (f : A -> A) x, Nat.iter (S k) f x = f (Nat.iter k f x).
Proof. reflexivity. Qed.

Lemma iter_add : forall {A} a b (f : A -> A) x, Nat.iter (a + b) f x = Nat.iter a f (Nat.iter b f x).
Proof.
  intros A a b f x. induction a as [|a IH].
  - reflexivity.
  - change (S a + b) with (S (a + b)).
    change (Nat.iter (S (a + b)) f x) with (f (Nat.iter (a + b) f x)). rewrite IH. reflexivity.
Qed.

Lemma count_nil : forall t d, count [] t d = 0.
Proof. reflexivity. Qed.

Lemma count_cons : forall x es t d,
  count (x :: es) t d = (if in_window t d x then 1 else 0) + count es t d.
Proof.
  intros x es t d. unfold count. cbn [filter]. destruct (in_window t d x); reflexivity.
Qed.

Lemma count_app : forall es1 es2 t d, count (es1 ++ es2) t d = count es1 t d + count es2 t d.
Proof.
  intros es1 es2 t d. unfold count. rewrite filter_app, app_length. reflexivity.
Qed.

Lemma in_window_zero : forall t e, in_window t 0 e = false.
Proof. intros t e. unfold in_window. lia. Qed.

Lemma count_zero : forall es t, count es t 0 = 0.
Proof.
  intros es t. induction es as [|x es IH].
  - reflexivity.
  - rewrite count_cons, in_window_zero, IH. reflexivity.
Qed.

Lemma count_all : forall es t d, Forall (fun e => in_window t d e = true) es -> count es t d = length es.
Proof.
  intros es t d H. induction H as [|x es Hx H IH].
  - reflexivity.
  - rewrite count_cons, Hx, IH. reflexivity.
Qed.

Lemma zip_add_length : forall a j, length j = length a -> length (zip_add a j) = length a.
Proof.
  intros a. induction a as [|x a IH]; intros [|y j] H; cbn [zip_add length] in *; try lia.
  rewrite IH; lia.
Qed.

(* delayed events: a window of the delayed sequence is covered by a longer window of the input *)
Lemma count_zip_add_le : forall J es jit t d, length jit = length es ->
  Forall (fun x => x <= J) jit ->
  count (zip_add es jit) t d <= count es (t - J) (d + J).
Proof.
  intros J es. induction es as [|x es IH]; intros [|y jit] t d Hlen HJ; cbn [zip_add length] in *;
    try discriminate; try (rewrite count_nil; lia).
  inversion HJ as [|y' jit' Hy HJ']; subst.
  rewrite !count_cons.
  specialize (IH jit t d ltac:(lia) HJ').
  assert (Hw : in_window t d (x + y) = true -> in_window (t - J) (d + J) x = true).
  { unfold in_window. lia. }
  destruct (in_window t d (x + y)); destruct (in_window (t - J) (d + J) x); lia.
Qed.

(* ------------------------------------------------------------------------------------------ *)
(* 2. separated sequences                                                                      *)
(* ------------------------------------------------------------------------------------------ *)
Lemma separated_tail : forall T x a, separated T (x :: a) -> separated T a.
Proof. intros T x [|y a] H; [exact I | apply H]. Qed.

Lemma separated_lb : forall T a x, separated T (x :: a) -> Forall (fun y => x + T <= y) a.
Proof.
  intros T a. induction a as [|y a IH]; intros x H.
  - constructor.
  - destruct H as [Hxy H]. constructor; [exact Hxy|].
    eapply Forall_impl; [|apply (IH y H)]. cbn beta. intros z Hz. lia.
Qed.

Lemma count_shift : forall es t d t', t <= t' -> Forall (fun y => t' <= y) es ->
  count es t d = count es t' (t + d - t').
Proof.
  intros es t d t' Ht H. induction H as [|x es Hx H IH].
  - reflexivity.
  - rewrite !count_cons, IH.
    replace (in_window t' (t + d - t') x) with (in_window t d x); [reflexivity|].
    unfold in_window. lia.
Qed.

Lemma separated_count : forall T arr, 1 <= T -> separated T arr ->
  forall t len, count arr t len * T < len + T.
Proof.
  intros T arr HT. induction arr as [|x arr IH]; intros Hsep t len.
  - rewrite count_nil. lia.
  - specialize (IH (separated_tail _ _ _ Hsep)).
    rewrite count_cons. destruct (in_window t len x) eqn:Hw.
    + unfold in_window in Hw.
      rewrite (count_shift arr t len (x + T)); [|lia|apply separated_lb; exact Hsep].
      destruct (le_lt_dec (x + T) (t + len)) as [Hle|Hlt].
      * specialize (IH (x + T) (t + len - (x + T))).
        rewrite Nat.mul_add_distr_r. lia.
      * replace (t + len - (x + T)) with 0 by lia. rewrite count_zero. lia.
    + cbn [Nat.add]. apply IH.
Qed.

Lemma separated_map_mul : forall T n a, separated T (map (fun i => i * T) (seq a n)).
Proof.
  intros T n. induction n as [|n IH]; intros a.
  - exact I.
  - cbn [seq map]. specialize (IH (S a)). destruct n as [|n].
    + exact I.
    + cbn [seq map] in *. split; [lia | exact IH].
Qed.

Lemma zip_add_map : forall {A} (f g : A -> nat) l,
  zip_add (map f l) (map g l) = map (fun i => f i + g i) l.
Proof.
  intros A f g l. induction l as [|x l IH]; cbn [map zip_add]; [reflexivity | rewrite IH; reflexivity].
Qed.

Lemma zip_add_assoc : forall a j1 j2, length j1 = length a -> length j2 = length a ->
  zip_add (zip_add a j1) j2 = zip_add a (zip_add j1 j2).
Proof.
  intros a. induction a as [|x a IH]; intros [|y1 j1] [|y2 j2] H1 H2; cbn [zip_add length] in *;
    try discriminate; try reflexivity.
  rewrite IH by lia. f_equal. lia.
Qed.

Lemma zip_add_Forall : forall A B j1 j2, length j1 = length j2 ->
  Forall (fun x => x <= A) j1 -> Forall (fun x => x <= B) j2 ->
  Forall (fun x => x <= A + B) (zip_add j1 j2).
Proof.
  intros A B j1. induction j1 as [|y1 j1 IH]; intros [|y2 j2] Hl H1 H2; cbn [zip_add length] in *;
    try discriminate; try constructor.
  - inversion H1; inversion H2; subst. lia.
  - inversion H1; inversion H2; subst. apply IH; [lia|assumption|assumption].
Qed.

Lemma zip_add_app : forall a1 a2 j1 j2, length j1 = length a1 ->
  zip_add (a1 ++ a2) (j1 ++ j2) = zip_add a1 j1 ++ zip_add a2 j2.
Proof.
  intros a1. induction a1 as [|x a1 IH]; intros a2 [|y j1] j2 H; cbn [zip_add length app] in *;
    try discriminate; try reflexivity.
  rewrite IH by lia. reflexivity.
Qed.

(* ------------------------------------------------------------------------------------------ *)
(* 3. sorted sequences                                                                         *)
(* ------------------------------------------------------------------------------------------ *)
Lemma sorted_tail : forall x es, sorted (x :: es) -> sorted es.
Proof. intros x [|y es] H; [exact I | apply H]. Qed.

Lemma sorted_lb : forall es x, sorted (x :: es) -> Forall (fun y => x <= y) es.
Proof.
  intros es. induction es as [|y es IH]; intros x H.
  - constructor.
  - destruct H as [Hxy H]. constructor; [exact Hxy|].
    eapply Forall_impl; [|apply (IH y H)]. cbn beta. intros z Hz. lia.
Qed.

Lemma sorted_nth : forall es i j, sorted es -> i <= j -> j < length es -> nth i es 0 <= nth j es 0.
Proof.
  intros es. induction es as [|x es IH]; intros i j Hs Hij Hj; cbn [length] in Hj; [lia|].
  destruct j as [|j]; [replace i with 0 by lia; lia|].
  destruct i as [|i]; cbn [nth].
  - pose proof (sorted_lb _ _ Hs) as Hlb. rewrite Forall_forall in Hlb.
    apply Hlb. apply nth_In. lia.
  - apply IH; [eapply sorted_tail; exact Hs | lia | lia].
Qed.

(* the events of a sorted sequence inside a window are consecutive *)
Lemma window_consecutive : forall es t d, sorted es ->
  exists k, k + count es t d <= length es /\
            forall i, i < count es t d -> in_window t d (nth (k + i) es 0) = true.
Proof.
  intros es t d. induction es as [|x es IH]; intros Hs.
  - exists 0. rewrite count_nil. split; [cbn; lia | intros i Hi; lia].
  - destruct (IH (sorted_tail _ _ Hs)) as [k [Hk Hin]].
    rewrite count_cons. destruct (in_window t d x) eqn:Hw.
    + exists 0. split; [cbn [length]; lia|].
      intros [|i] Hi; cbn [Nat.add nth]; [exact Hw|].
      assert (Hi' : i < count es t d) by lia.
      specialize (Hin i Hi').
      pose proof (sorted_nth (x :: es) 0 (S i) Hs ltac:(lia) ltac:(cbn [length]; lia)) as H1.
      pose proof (sorted_nth es i (k + i) (sorted_tail _ _ Hs) ltac:(lia) ltac:(lia)) as H2.
      cbn [nth] in H1. unfold in_window in *. lia.
    + exists (S k). split; [cbn [length]; lia|].
      intros i Hi. cbn [Nat.add nth]. apply Hin. lia.
Qed.

Lemma last_nth : forall (l : list N), lastN l = nthN l (length l - 1).
Proof.
  unfold lastN, nthN. intros l. induction l as [|x l IH].
  - reflexivity.
  - destruct l as [|y l]; [reflexivity|].
    change (last (x :: y :: l) 0%N) with (last (y :: l) 0%N). rewrite IH.
    cbn [length]. replace (S (S (length l)) - 1) with (S (S (length l) - 1)) by lia. reflexivity.
Qed.

(* q full cycles of the vector plus r more events *)
Lemma span_blocks : forall d es, respects_dmin d es -> d <> [] ->
  forall q r k, r < length d -> k + q * length d + r < length es ->
  q * N.to_nat (lastN d) + match r with 0 => 0 | S r' => N.to_nat (nthN d r') end
    <= nth (k + q * length d + r) es 0 - nth k es 0.
Proof.
  intros d es [Hs Hr] Hne q. assert (Hlen : 1 <= length d) by (destruct d; [congruence | cbn; lia]).
  induction q as [|q IH]; intros r k Hrl Hk.
  - cbn [Nat.mul Nat.add]. rewrite Nat.add_0_r. destruct r as [|r']; [lia|].
    specialize (Hr r' k ltac:(lia) ltac:(lia)).
    replace (k + S r') with (k + r' + 1) by lia. exact Hr.
  - specialize (IH r (k + length d) Hrl ltac:(lia)).
    specialize (Hr (length d - 1) k ltac:(lia) ltac:(lia)).
    rewrite <- last_nth in Hr.
    replace (k + (length d - 1) + 1) with (k + length d) in Hr by lia.
    replace (k + S q * length d + r) with (k + length d + q * length d + r) by lia.
    pose proof (sorted_nth es k (k + length d) Hs ltac:(lia) ltac:(lia)) as H1.
    pose proof (sorted_nth es (k + length d) (k + length d + q * length d + r) Hs ltac:(lia) ltac:(lia)) as H2.
    lia.
Qed.

Local Close Scope nat_scope.
Local Open Scope N_scope.

(* ------------------------------------------------------------------------------------------ *)
(* 3b. arithmetic on N: div_ceil, periodic extensions                                          *)
(* ------------------------------------------------------------------------------------------ *)
Lemma div_ceil_spec : forall a T, 1 <= T -> a <= div_ceil a T * T /\ div_ceil a T * T < a + T.
Proof.
  intros a T HT. unfold div_ceil.
  pose proof (N.div_mod a T ltac:(lia)) as Hdm. pose proof (N.mod_lt a T ltac:(lia)) as Hlt.
  rewrite N.mul_add_distr_r, (N.mul_comm (a / T) T).
  generalize dependent (a / T). generalize dependent (a mod T). intros r Hlt q Hdm.
  destruct (N.ltb_spec 0 r); cbv iota; lia.
Qed.

Lemma div_ceil_le : forall a T n, 1 <= T -> n * T < a + T -> n <= div_ceil a T.
Proof.
  intros a T n HT H. destruct (div_ceil_spec a T HT) as [H1 _].
  destruct (N.le_gt_cases n (div_ceil a T)) as [Hle|Hgt]; [exact Hle|].
  assert ((div_ceil a T + 1) * T <= n * T) by (apply N.mul_le_mono_r; lia). lia.
Qed.

Lemma div_ceil_ge : forall a T n, 1 <= T -> a <= n * T -> div_ceil a T <= n.
Proof.
  intros a T n HT H. destruct (div_ceil_spec a T HT) as [_ H2].
  destruct (N.le_gt_cases (div_ceil a T) n) as [Hle|Hgt]; [exact Hle|].
  assert ((n + 1) * T <= div_ceil a T * T) by (apply N.mul_le_mono_r; lia). lia.
Qed.

Lemma div_ceil_mono : forall a b T, 1 <= T -> a <= b -> div_ceil a T <= div_ceil b T.
Proof.
  intros a b T HT Hab. apply div_ceil_ge; [exact HT|].
  destruct (div_ceil_spec b T HT) as [H1 _]. lia.
Qed.

Lemma div_ceil_subadd : forall a b T, 1 <= T -> div_ceil (a + b) T <= div_ceil a T + div_ceil b T.
Proof.
  intros a b T HT. apply div_ceil_ge; [exact HT|].
  destruct (div_ceil_spec a T HT) as [H1 _]. destruct (div_ceil_spec b T HT) as [H2 _]. lia.
Qed.

Lemma div_ceil_0 : forall T, div_ceil 0 T = 0.
Proof.
  intros T. unfold div_ceil. destruct T as [|p]; [reflexivity|].
  rewrite N.div_0_l, N.mod_0_l by lia. reflexivity.
Qed.

(* q * c + g (a mod L) is monotone in a when g is monotone and bounded by c below L *)
Lemma cyclic_mono : forall (g : N -> N) c L, 0 < L ->
  (forall x y, x <= y -> g x <= g y) -> (forall x, x < L -> g x <= c) ->
  forall a b, a <= b -> (a / L) * c + g (a mod L) <= (b / L) * c + g (b mod L).
Proof.
  intros g c L HL Hmono Hbnd a b Hab.
  pose proof (N.div_mod a L ltac:(lia)) as Ha. pose proof (N.mod_lt a L ltac:(lia)) as Hra.
  pose proof (N.div_mod b L ltac:(lia)) as Hb. pose proof (N.mod_lt b L ltac:(lia)) as Hrb.
  generalize dependent (a / L). generalize dependent (a mod L). intros ra Hra qa Ha.
  generalize dependent (b / L). generalize dependent (b mod L). intros rb Hrb qb Hb.
  destruct (N.lt_trichotomy qa qb) as [Hlt|[Heq|Hgt]].
  - assert ((qa + 1) * c <= qb * c) by (apply N.mul_le_mono_r; lia).
    specialize (Hbnd ra Hra). lia.
  - subst qb. assert (ra <= rb) by lia.
    specialize (Hmono _ _ H). lia.
  - assert (L * (qb + 1) <= L * qa) by (apply N.mul_le_mono_l; lia). lia.
Qed.

(* ------------------------------------------------------------------------------------------ *)
(* 3c. Curve::lookup_arrivals and Curve::number_arrivals                                       *)
(* ------------------------------------------------------------------------------------------ *)
Lemma lookup_ge1 : forall d x, 1 <= lookup_arrivals d x.
Proof.
  intros [|y d] x; cbn [lookup_arrivals]; [lia|]. destruct (x <=? y); lia.
Qed.

Lemma lookup_mono : forall d a b, a <= b -> lookup_arrivals d a <= lookup_arrivals d b.
Proof.
  intros d a b Hab. induction d as [|y d IH]; cbn [lookup_arrivals]; [lia|].
  destruct (N.leb_spec a y); destruct (N.leb_spec b y); lia.
Qed.

Lemma lookup_lb : forall d x r, (r <= length d)%nat -> (forall i, (i < r)%nat -> nthN d i < x) ->
  N.of_nat r + 1 <= lookup_arrivals d x.
Proof.
  intros d x. induction d as [|y d IH]; intros r Hr H.
  - cbn [length] in Hr. replace r with O by lia. cbn [lookup_arrivals]. lia.
  - destruct r as [|r]; [pose proof (lookup_ge1 (y :: d) x); lia|].
    cbn [lookup_arrivals]. pose proof (H O ltac:(lia)) as H0. unfold nthN in H0. cbn [nth] in H0.
    destruct (N.leb_spec x y); [lia|].
    assert (N.of_nat r + 1 <= lookup_arrivals d x).
    { apply IH; [cbn [length] in Hr; lia|]. intros i Hi. apply (H (S i)). lia. }
    lia.
Qed.

Lemma lastN_cons2 : forall x y (d : list N), lastN (x :: y :: d) = lastN (y :: d).
Proof. reflexivity. Qed.

Lemma lookup_le_len : forall d x, d <> [] -> x <= lastN d -> lookup_arrivals d x <= lenN d.
Proof.
  intros d x. induction d as [|y d IH]; intros Hne Hx; [congruence|].
  cbn [lookup_arrivals]. unfold lenN in *. cbn [length].
  destruct (N.leb_spec x y); [lia|].
  destruct d as [|z d]; [unfold lastN in Hx; cbn [last] in Hx; lia|].
  rewrite lastN_cons2 in Hx. specialize (IH ltac:(discriminate) Hx). lia.
Qed.

Lemma lookup_app : forall d1 d2 x, d1 <> [] -> x <= lastN d1 ->
  lookup_arrivals (d1 ++ d2) x = lookup_arrivals d1 x.
Proof.
  intros d1 d2 x. induction d1 as [|y d IH]; intros Hne Hx; [congruence|].
  cbn [lookup_arrivals app].
  destruct (N.leb_spec x y); [reflexivity|].
  destruct d as [|z d]; [unfold lastN in Hx; cbn [last] in Hx; lia|].
  rewrite lastN_cons2 in Hx. rewrite (IH ltac:(discriminate) Hx). reflexivity.
Qed.

(* the part of number_arrivals that depends on the position inside a repetition block *)
Definition curve_tail (d : list N) (tail : N) : N :=
  if hdN d <? tail then lookup_arrivals d tail else b2n (0 <? tail).

(* number_arrivals by the block and the position of delta - 1: delta = q * last + t with 1 <= t <= last *)
Lemma curve_na_succ : forall d n, 0 < lastN d ->
  curve_na d (n + 1) = (n / lastN d) * lenN d + curve_tail d (n mod lastN d + 1).
Proof.
  intros d n HL. unfold curve_na, curve_tail.
  destruct (N.eqb_spec (n + 1) 0) as [E|_]; [lia|]. cbv zeta.
  set (L := lastN d) in *.
  destruct (divmod_succ n L HL) as [[H1 [H2 H3]]|[H1 [H2 H3]]]; rewrite H2, H3.
  - destruct (N.eqb_spec (n mod L + 1) 0) as [E|_]; [dlia|].
    destruct (N.ltb_spec (hdN d) (n mod L + 1)); [reflexivity|].
    unfold b2n. destruct (N.ltb_spec 0 (n mod L + 1)); [reflexivity | dlia].
  - rewrite N.eqb_refl, H1.
    replace ((n / L + 1) * lenN d - lenN d) with (n / L * lenN d) by dlia.
    destruct (N.ltb_spec (hdN d) L) as [Hhd|Hhd]; [reflexivity|].
    unfold b2n. destruct (N.ltb_spec 0 L) as [_|E]; [|lia].
    destruct d as [|y d]; [unfold L, lastN in HL; cbn [last] in HL; lia|].
    unfold hdN in Hhd. cbn [hd] in Hhd. cbn [lookup_arrivals].
    destruct (N.leb_spec L y); [reflexivity | lia].
Qed.

Lemma curve_na_eq : forall d delta, delta <> 0 -> 0 < lastN d ->
  curve_na d delta = ((delta - 1) / lastN d) * lenN d + curve_tail d ((delta - 1) mod lastN d + 1).
Proof.
  intros d delta H HL. rewrite <- (curve_na_succ d (delta - 1) HL). f_equal. lia.
Qed.

Lemma curve_tail_mono : forall d x y, x <= y -> curve_tail d x <= curve_tail d y.
Proof.
  intros d x y Hxy. unfold curve_tail.
  destruct (N.ltb_spec (hdN d) x); destruct (N.ltb_spec (hdN d) y); try lia.
  - apply lookup_mono; exact Hxy.
  - pose proof (lookup_ge1 d y). unfold b2n. destruct (0 <? x); lia.
  - unfold b2n. destruct (N.ltb_spec 0 x); destruct (N.ltb_spec 0 y); lia.
Qed.

Lemma curve_tail_le_len : forall d x, d <> [] -> x <= lastN d -> curve_tail d x <= lenN d.
Proof.
  intros d x Hne Hx. unfold curve_tail. destruct (hdN d <? x).
  - apply lookup_le_len; assumption.
  - unfold b2n, lenN. destruct d; [congruence|]. cbn [length]. destruct (0 <? x); lia.
Qed.

Lemma curve_na_0 : forall d, curve_na d 0 = 0.
Proof. reflexivity. Qed.

(* up to and including the last entry, number_arrivals is the plain lookup *)
Lemma curve_na_le_last : forall d delta, delta <> 0 -> delta <= lastN d ->
  curve_na d delta = curve_tail d delta.
Proof.
  intros d delta H0 Hle. rewrite curve_na_eq by lia.
  rewrite N.div_small, N.mod_small by lia. replace (delta - 1 + 1) with delta by lia. lia.
Qed.

Lemma curve_na_mono : forall d a b, wf_dmin d -> a <= b -> curve_na d a <= curve_na d b.
Proof.
  intros d a b [Hne [Hnd Hlast]] Hab.
  destruct (N.eq_dec a 0) as [->|Ha]; [rewrite curve_na_0; lia|].
  rewrite !curve_na_eq by lia.
  apply (cyclic_mono (fun x => curve_tail d (x + 1)) (lenN d) (lastN d) Hlast); [| |lia].
  - intros x y Hxy. apply curve_tail_mono. lia.
  - intros x Hx. apply curve_tail_le_len; [exact Hne | lia].
Qed.

Lemma nondecreasing_nth : forall d i j, nondecreasing d -> (i <= j)%nat -> (j < length d)%nat ->
  nthN d i <= nthN d j.
Proof.
  intros d i j Hnd Hij Hj. induction j as [|j IH].
  - replace i with O by lia. lia.
  - destruct (Nat.eq_dec i (S j)) as [->|Hne]; [lia|].
    specialize (IH ltac:(lia) ltac:(lia)). specialize (Hnd j Hj). lia.
Qed.

Lemma hdN_nth : forall d, hdN d = nthN d 0.
Proof. intros [|x d]; reflexivity. Qed.

Lemma curve_na_lb : forall d q r delta, wf_dmin d -> (r < length d)%nat ->
  q * lastN d + (match r with O => 0 | S r' => nthN d r' end) + 1 <= delta ->
  q * lenN d + N.of_nat r + 1 <= curve_na d delta.
Proof.
  intros d q r delta [Hne [Hnd Hlast]] Hr Hd.
  rewrite curve_na_eq by lia.
  set (L := lastN d) in *. set (D := match r with O => 0 | S r' => nthN d r' end) in *.
  assert (HD : D <= L).
  { subst D L. destruct r as [|r']; [lia|]. rewrite last_nth.
    apply nondecreasing_nth; [exact Hnd | lia | lia]. }
  pose proof (N.div_mod (delta - 1) L ltac:(lia)) as Hdm. pose proof (N.mod_lt (delta - 1) L ltac:(lia)) as Hlt.
  generalize dependent ((delta - 1) / L). generalize dependent ((delta - 1) mod L). intros tail Hlt Q Hdm.
  assert (Hlen : N.of_nat r + 1 <= lenN d) by (unfold lenN; lia).
  destruct (N.lt_trichotomy Q q) as [HQ|[HQ|HQ]].
  - exfalso. assert (L * (Q + 1) <= L * q) by (apply N.mul_le_mono_l; lia). lia.
  - subst q. assert (Htail : D + 1 <= tail + 1) by lia.
    enough (N.of_nat r + 1 <= curve_tail d (tail + 1)) by lia.
    unfold curve_tail. destruct (N.ltb_spec (hdN d) (tail + 1)) as [Hhd|Hhd].
    + apply lookup_lb; [lia|]. intros i Hi. destruct r as [|r']; [lia|].
      pose proof (nondecreasing_nth d i r' Hnd ltac:(lia) ltac:(lia)). subst D. lia.
    + destruct r as [|r'].
      * unfold b2n. destruct (N.ltb_spec 0 (tail + 1)); lia.
      * exfalso. rewrite hdN_nth in Hhd.
        pose proof (nondecreasing_nth d O r' Hnd ltac:(lia) ltac:(lia)). subst D. lia.
  - assert ((q + 1) * lenN d <= Q * lenN d) by (apply N.mul_le_mono_r; lia). lia.
Qed.

(* every window of a sequence that respects d holds at most curve_na d delta events *)
Lemma curve_na_covers : forall d es, wf_dmin d -> respects_dmin d es ->
  forall t delta : nat, N.of_nat (count es t delta) <= curve_na d (N.of_nat delta).
Proof.
  intros d es Hwf Hresp t delta.
  destruct (window_consecutive es t delta (proj1 Hresp)) as [k [Hk Hin]].
  destruct (count es t delta) as [|m1]; [lia|].
  pose proof Hwf as [Hne [Hnd Hlast]].
  assert (Hn : (1 <= length d)%nat) by (destruct d; [congruence | cbn [length]; lia]).
  pose proof (Nat.div_mod m1 (length d) ltac:(lia)) as Hdm.
  pose proof (Nat.mod_upper_bound m1 (length d) ltac:(lia)) as Hr.
  set (q := (m1 / length d)%nat) in *. set (r := (m1 mod length d)%nat) in *.
  pose proof (span_blocks d es Hresp Hne q r k Hr ltac:(lia)) as Hspan.
  pose proof (Hin O ltac:(lia)) as H0. pose proof (Hin m1 ltac:(lia)) as H1.
  replace (k + q * length d + r)%nat with (k + m1)%nat in Hspan by lia.
  rewrite Nat.add_0_r in H0. unfold in_window in H0, H1.
  pose proof (curve_na_lb d (N.of_nat q) r (N.of_nat delta) Hwf Hr) as Hlb.
  assert (Hpre : N.of_nat q * lastN d + match r with O => 0 | S r' => nthN d r' end + 1 <= N.of_nat delta).
  { destruct r as [|r']; lia. }
  specialize (Hlb Hpre). unfold lenN in Hlb. lia.
Qed.

(* ------------------------------------------------------------------------------------------ *)
(* 4. curve extension                                                                          *)
(* ------------------------------------------------------------------------------------------ *)
Lemma maxN_ub : forall l b, (forall x, In x l -> x <= b) -> maxN l <= b.
Proof.
  intros l b H. induction l as [|x l IH]; cbn [maxN fold_right]; [lia|].
  fold (maxN l). pose proof (H x (or_introl eq_refl)).
  assert (maxN l <= b) by (apply IH; intros y Hy; apply H; right; exact Hy). lia.
Qed.

Lemma maxN_lb : forall l x, In x l -> x <= maxN l.
Proof.
  intros l x H. induction l as [|y l IH]; [destruct H|].
  cbn [maxN fold_right]. fold (maxN l). destruct H as [->|H]; [lia|].
  specialize (IH H). lia.
Qed.

Definition pair_sums (d : list N) : list N :=
  map (fun p => fst p + snd p) (combine d (rev_append d [])).

Lemma pair_sums_length : forall d, length (pair_sums d) = length d.
Proof.
  intros d. unfold pair_sums. rewrite map_length, combine_length, <- rev_alt, rev_length.
  apply Nat.min_id.
Qed.

Lemma nth_map_N : forall {A} (f : A -> N) l a j, (j < length l)%nat ->
  nth j (map f l) 0 = f (nth j l a).
Proof.
  intros A f l a j Hj. rewrite (nth_indep _ 0 (f a)) by (rewrite map_length; exact Hj).
  apply map_nth.
Qed.

Lemma pair_sums_nth : forall d j, (j < length d)%nat ->
  nth j (pair_sums d) 0 = nthN d j + nthN d (length d - 1 - j).
Proof.
  intros d j Hj. unfold pair_sums.
  rewrite (nth_map_N _ _ (0, 0)) by (rewrite combine_length, <- rev_alt, rev_length; lia).
  rewrite <- rev_alt, combine_nth by (rewrite rev_length; reflexivity).
  cbn [fst snd]. rewrite rev_nth by exact Hj. unfold nthN.
  replace (length d - S j)%nat with (length d - 1 - j)%nat by lia. reflexivity.
Qed.

Lemma In_firstn : forall {A} k (l : list A) x, In x (firstn k l) -> In x l.
Proof.
  intros A k l x H. rewrite <- (firstn_skipn k l). apply in_or_app. left. exact H.
Qed.

Lemma In_firstn_nth : forall k (l : list N) j, (j < k)%nat -> (j < length l)%nat ->
  In (nth j l 0) (firstn k l).
Proof.
  intros k. induction k as [|k IH]; intros l j Hjk Hjl; [lia|].
  destruct l as [|x l]; [cbn [length] in Hjl; lia|].
  cbn [firstn]. destruct j as [|j]; [left; reflexivity|].
  right. cbn [nth]. apply IH; [lia | cbn [length] in Hjl; lia].
Qed.

(* extrapolate_next d = max over all k < n of d[k] + d[n-1-k] *)
Lemma extrapolate_next_ub : forall d b,
  (forall j, (j < length d)%nat -> nthN d j + nthN d (length d - 1 - j) <= b) ->
  extrapolate_next d <= b.
Proof.
  intros d b H. unfold extrapolate_next. fold (pair_sums d). apply maxN_ub.
  intros x Hx. apply In_firstn in Hx.
  destruct (In_nth _ _ 0 Hx) as [j [Hj Hnth]]. rewrite pair_sums_length in Hj.
  rewrite pair_sums_nth in Hnth by exact Hj. subst x. apply H. exact Hj.
Qed.

Lemma extrapolate_next_lb : forall d j, (j < length d)%nat ->
  nthN d j + nthN d (length d - 1 - j) <= extrapolate_next d.
Proof.
  intros d j Hj. unfold extrapolate_next. fold (pair_sums d).
  assert (Hhalf : forall i, (i < length d)%nat -> (i <= length d / 2)%nat ->
            nthN d i + nthN d (length d - 1 - i) <= maxN (firstn (S (length d / 2)) (pair_sums d))).
  { intros i Hi Hhalf. rewrite <- pair_sums_nth by exact Hi. apply maxN_lb.
    apply In_firstn_nth; [lia | rewrite pair_sums_length; exact Hi]. }
  destruct (le_lt_dec j (length d / 2)) as [Hle|Hgt].
  - apply Hhalf; assumption.
  - pose proof (Nat.div_mod (length d) 2 ltac:(lia)) as Hdm.
    pose proof (Nat.mod_upper_bound (length d) 2 ltac:(lia)) as Hm.
    specialize (Hhalf (length d - 1 - j)%nat ltac:(lia) ltac:(lia)).
    replace (length d - 1 - (length d - 1 - j))%nat with j in Hhalf by lia. lia.
Qed.

Lemma push_next_length : forall d, length (push_next d) = S (length d).
Proof. intros d. unfold push_next. rewrite app_length. cbn [length]. lia. Qed.

Lemma push_next_last : forall d, lastN (push_next d) = extrapolate_next d.
Proof. intros d. unfold push_next, lastN. apply last_last. Qed.

Lemma push_next_wf : forall d, wf_dmin d -> wf_dmin (push_next d).
Proof.
  intros d [Hne [Hnd Hlast]].
  assert (Hn : (1 <= length d)%nat) by (destruct d; [congruence | cbn [length]; lia]).
  pose proof (extrapolate_next_lb d O ltac:(lia)) as Hlb.
  rewrite Nat.sub_0_r, <- last_nth in Hlb.
  split; [|split].
  - unfold push_next. destruct d; discriminate.
  - intros i Hi. rewrite push_next_length in Hi. unfold push_next, nthN.
    destruct (Nat.eq_dec (S i) (length d)) as [Heq|Hneq].
    + rewrite app_nth1 by lia. rewrite app_nth2 by lia.
      replace (S i - length d)%nat with O by lia. cbn [nth].
      rewrite last_nth in Hlb. unfold nthN in Hlb.
      replace (length d - 1)%nat with i in Hlb by lia. lia.
    + rewrite !app_nth1 by lia. apply Hnd. lia.
  - rewrite push_next_last. lia.
Qed.

Theorem push_next_respected_gen : forall d es, respects_dmin d es -> respects_dmin (push_next d) es.
Proof.
  intros d es [Hs Hr]. split; [exact Hs|].
  intros i k Hi Hk. rewrite push_next_length in Hi. unfold push_next, nthN.
  destruct (Nat.eq_dec i (length d)) as [->|Hneq].
  - rewrite app_nth2 by lia. rewrite Nat.sub_diag. cbn [nth].
    assert (Hub : extrapolate_next d <= N.of_nat (nth (k + length d + 1) es 0%nat - nth k es 0%nat)).
    { apply extrapolate_next_ub. intros j Hj.
      pose proof (Hr j k Hj ltac:(lia)) as H1.
      pose proof (Hr (length d - 1 - j)%nat (k + j + 1)%nat ltac:(lia) ltac:(lia)) as H2.
      replace (k + j + 1 + (length d - 1 - j) + 1)%nat with (k + length d + 1)%nat in H2 by lia.
      pose proof (sorted_nth es k (k + j + 1) Hs ltac:(lia) ltac:(lia)).
      pose proof (sorted_nth es (k + j + 1) (k + length d + 1) Hs ltac:(lia) ltac:(lia)).
      lia. }
    lia.
  - rewrite app_nth1 by lia. apply Hr; lia.
Qed.

Theorem push_next_respected : forall d es, (2 <= length d)%nat -> respects_dmin d es ->
  respects_dmin (push_next d) es.
Proof. intros d es _. apply push_next_respected_gen. Qed.

Lemma iter_push_wf : forall k d, wf_dmin d -> wf_dmin (Nat.iter k push_next d).
Proof.
  intros k d H. induction k as [|k IH]; [exact H|]. rewrite iter_S. apply push_next_wf. exact IH.
Qed.

Lemma iter_push_respected : forall k d es, respects_dmin d es ->
  respects_dmin (Nat.iter k push_next d) es.
Proof.
  intros k d es H. induction k as [|k IH]; [exact H|]. rewrite iter_S.
  apply push_next_respected_gen. exact IH.
Qed.

Lemma iter_push_app : forall k d, exists l, Nat.iter k push_next d = d ++ l /\ length l = k.
Proof.
  intros k d. induction k as [|k [l [IH Hl]]].
  - exists []. rewrite app_nil_r. split; reflexivity.
  - exists (l ++ [extrapolate_next (d ++ l)]). rewrite iter_S.
    rewrite IH. unfold push_next. rewrite app_assoc. split; [reflexivity|].
    rewrite app_length. cbn [length]. lia.
Qed.

Lemma iter_push_length : forall k d, length (Nat.iter k push_next d) = (length d + k)%nat.
Proof.
  intros k d. destruct (iter_push_app k d) as [l [-> Hl]]. rewrite app_length. lia.
Qed.

(* the loop of Curve::extrapolate *)
Definition ebody (h : N) : list N -> list N + list N :=
  fun d => if lastN d <? h then inl (push_next d) else inr d.

Lemma eloop_char : forall h f s, exists k, (k <= f)%nat /\
  (forall j, (j < k)%nat -> lastN (Nat.iter j push_next s) < h) /\
  ((loop_nat f (ebody h) s = inr (Nat.iter k push_next s) /\ h <= lastN (Nat.iter k push_next s)) \/
   (loop_nat f (ebody h) s = inl (Nat.iter k push_next s) /\ k = f)).
Proof.
  intros h f. induction f as [|f IH]; intros s.
  - exists O. split; [lia|]. split; [intros j Hj; lia|]. right. split; reflexivity.
  - cbn [loop_nat]. destruct (N.ltb_spec (lastN s) h) as [Hlt|Hge].
    + assert (Hb : ebody h s = inl (push_next s)).
      { unfold ebody. destruct (N.ltb_spec (lastN s) h); [reflexivity | lia]. }
      rewrite Hb. clear Hb.
      destruct (IH (push_next s)) as [k [Hk [Hmin Hres]]]. exists (S k).
      split; [lia|]. split.
      * intros [|j] Hj; [exact Hlt|]. rewrite iter_succ_r. apply Hmin. lia.
      * rewrite iter_succ_r. destruct Hres as [[H1 H2]|[H1 H2]]; [left|right]; split; auto.
    + assert (Hb : ebody h s = inr s).
      { unfold ebody. destruct (N.ltb_spec (lastN s) h); [lia | reflexivity]. }
      rewrite Hb. clear Hb.
      exists O. split; [lia|]. split; [intros j Hj; lia|]. left. split; [reflexivity | exact Hge].
Qed.

Lemma extrapolate_char : forall d h, can_extrapolate d = true -> exists k,
  extrapolate d h = Nat.iter k push_next d /\
  (forall j, (j < k)%nat -> lastN (Nat.iter j push_next d) < h) /\
  (h <= lastN (Nat.iter k push_next d) \/ k = N.to_nat (extrapolate_fuel d h)).
Proof.
  intros d h Hc. unfold extrapolate. rewrite Hc, loopN_nat.
  destruct (eloop_char h (N.to_nat (extrapolate_fuel d h)) d) as [k [Hk [Hmin Hres]]].
  exists k. fold (ebody h).
  destruct Hres as [[H1 H2]|[H1 H2]]; rewrite H1; (split; [reflexivity|]); (split; [exact Hmin|]);
    [left; exact H2 | right; exact H2].
Qed.

Theorem extrapolate_prefix : forall d h, exists k, extrapolate d h = Nat.iter k push_next d.
Proof.
  intros d h. destruct (can_extrapolate d) eqn:Hc.
  - destruct (extrapolate_char d h Hc) as [k [H _]]. exists k. exact H.
  - exists O. unfold extrapolate. rewrite Hc. reflexivity.
Qed.

Theorem extrapolate_respected : forall d h es, respects_dmin d es -> respects_dmin (extrapolate d h) es.
Proof.
  intros d h es H. destruct (extrapolate_prefix d h) as [k ->]. apply iter_push_respected. exact H.
Qed.

Theorem extrapolate_wf : forall d h, wf_dmin d -> wf_dmin (extrapolate d h).
Proof.
  intros d h H. destruct (extrapolate_prefix d h) as [k ->]. apply iter_push_wf. exact H.
Qed.

(* n more pushes raise the last entry by at least the last entry of the original vector *)
Lemma iter_growth : forall d k, wf_dmin d ->
  lastN (Nat.iter k push_next d) + lastN d <= lastN (Nat.iter (k + length d) push_next d).
Proof.
  intros d k [Hne [Hnd Hlast]].
  assert (Hn : (1 <= length d)%nat) by (destruct d; [congruence | cbn [length]; lia]).
  replace (k + length d)%nat with (S ((length d - 1) + k))%nat by lia.
  rewrite iter_S, push_next_last.
  set (e := Nat.iter (length d - 1 + k) push_next d).
  assert (Hlen : length e = (length d + (length d - 1 + k))%nat) by apply iter_push_length.
  pose proof (extrapolate_next_lb e (length d - 1)%nat ltac:(lia)) as Hlb.
  assert (H1 : nthN e (length d - 1) = lastN d).
  { unfold e. destruct (iter_push_app (length d - 1 + k) d) as [l [-> _]].
    unfold nthN. rewrite app_nth1 by lia. symmetry. apply last_nth. }
  assert (H2 : nthN e (length e - 1 - (length d - 1)) = lastN (Nat.iter k push_next d)).
  { rewrite Hlen. unfold e. rewrite iter_add.
    destruct (iter_push_app (length d - 1) (Nat.iter k push_next d)) as [l [-> _]].
    rewrite last_nth, iter_push_length. unfold nthN.
    rewrite app_nth1 by (rewrite iter_push_length; lia). f_equal. lia. }
  rewrite H1, H2 in Hlb. lia.
Qed.

Lemma iter_growth_mul : forall d j, wf_dmin d ->
  N.of_nat j + 1 <= lastN (Nat.iter (j * length d) push_next d).
Proof.
  intros d j Hwf. pose proof Hwf as [_ [_ Hlast]]. induction j as [|j IH].
  - change (0 * length d)%nat with O. change (Nat.iter 0 push_next d) with d. lia.
  - pose proof (iter_growth d (j * length d) Hwf) as Hg.
    replace (S j * length d)%nat with (j * length d + length d)%nat by lia. lia.
Qed.

Theorem extrapolate_reaches : forall d h, wf_dmin d -> (2 <= length d)%nat -> h <= lastN (extrapolate d h).
Proof.
  intros d h Hwf Hlen.
  assert (Hc : can_extrapolate d = true) by (unfold can_extrapolate, lenN; lia).
  destruct (extrapolate_char d h Hc) as [k [-> [Hmin [Hok|Hfuel]]]]; [exact Hok|].
  exfalso.
  assert (Hj : (N.to_nat h * length d < k)%nat).
  { rewrite Hfuel. unfold extrapolate_fuel, lenN. nia. }
  specialize (Hmin _ Hj). pose proof (iter_growth_mul d (N.to_nat h) Hwf). lia.
Qed.

(* ------------------------------------------------------------------------------------------ *)
(* 4b. ExtrapolatingCurve::number_arrivals is monotone                                         *)
(* ------------------------------------------------------------------------------------------ *)
Lemma can_extrapolate_len : forall d, can_extrapolate d = true -> (2 <= length d)%nat.
Proof. intros d H. unfold can_extrapolate, lenN in H. lia. Qed.

Lemma curve_na_small : forall d delta, delta <> 0 -> delta < lastN d ->
  curve_na d delta = curve_tail d delta.
Proof. intros d delta H0 Hlt. apply curve_na_le_last; [exact H0 | lia]. Qed.

Lemma curve_tail_app : forall d l x, d <> [] -> x <= lastN d -> curve_tail (d ++ l) x = curve_tail d x.
Proof.
  intros d l x Hne Hx. unfold curve_tail. rewrite lookup_app by assumption.
  destruct d as [|y d]; [congruence|]. reflexivity.
Qed.

Lemma extrap_na_mono : forall d a b, wf_dmin d -> a <= b -> extrap_na d a <= extrap_na d b.
Proof.
  intros d a b Hwf Hab. unfold extrap_na.
  destruct (N.eqb_spec a 0) as [Ha|Ha]; [lia|].
  destruct (N.eqb_spec b 0) as [Hb|Hb]; [lia|].
  destruct (can_extrapolate d) eqn:Hc.
  - pose proof (can_extrapolate_len d Hc) as Hlen.
    pose proof (extrapolate_reaches d (a + 1) Hwf Hlen) as Hra.
    pose proof (extrapolate_reaches d (b + 1) Hwf Hlen) as Hrb.
    destruct (extrapolate_char d (a + 1) Hc) as [ka [Ea [Hmina _]]].
    destruct (extrapolate_char d (b + 1) Hc) as [kb [Eb [Hminb _]]].
    rewrite Ea in *. rewrite Eb in *.
    assert (Hk : (ka <= kb)%nat).
    { destruct (le_lt_dec ka kb) as [Hle|Hlt]; [exact Hle|]. specialize (Hmina kb Hlt). lia. }
    replace kb with ((kb - ka) + ka)%nat in * by lia. rewrite iter_add in *.
    set (E := Nat.iter ka push_next d) in *.
    destruct (iter_push_app (kb - ka) E) as [l [Hl _]]. rewrite Hl in *.
    assert (HE : wf_dmin E) by (apply iter_push_wf; exact Hwf).
    destruct HE as [HneE _].
    rewrite !curve_na_small by lia.
    rewrite <- (curve_tail_app E l a HneE ltac:(lia)).
    apply curve_tail_mono. exact Hab.
  - unfold extrapolate. rewrite Hc. apply curve_na_mono; assumption.
Qed.

(* ------------------------------------------------------------------------------------------ *)
(* 4c. ArrivalCurvePrefix                                                                      *)
(* ------------------------------------------------------------------------------------------ *)
Lemma last_nth_gen : forall {A} (l : list A) a, last l a = nth (length l - 1) l a.
Proof.
  intros A l a. induction l as [|x l IH].
  - reflexivity.
  - destruct l as [|y l]; [reflexivity|].
    change (last (x :: y :: l) a) with (last (y :: l) a). rewrite IH.
    cbn [length]. replace (S (S (length l)) - 1)%nat with (S (S (length l) - 1)) by lia. reflexivity.
Qed.

Lemma prefix_idx_le_len : forall s x, (prefix_lookup_idx s x <= length s)%nat.
Proof.
  intros s x. induction s as [|[md n] s IH]; cbn [prefix_lookup_idx length]; [lia|].
  destruct (md <=? x); lia.
Qed.

Lemma prefix_idx_mono : forall s a b, a <= b -> (prefix_lookup_idx s a <= prefix_lookup_idx s b)%nat.
Proof.
  intros s a b Hab. induction s as [|[md n] s IH]; cbn [prefix_lookup_idx]; [lia|].
  destruct (N.leb_spec md a); destruct (N.leb_spec md b); lia.
Qed.

Section Prefix.
  Variables (h : N) (s : list (N * N)).
  Hypothesis Hwf : wf_prefix h s.

  Lemma prefix_snd_mono : forall i j, (i <= j)%nat -> (j < length s)%nat ->
    snd (nth i s (0, 0)) <= snd (nth j s (0, 0)).
  Proof.
    destruct Hwf as [_ [_ [_ [_ [_ Hinc]]]]].
    intros i j Hij Hj. induction j as [|j IH].
    - replace i with O by lia. lia.
    - destruct (Nat.eq_dec i (S j)) as [->|Hne]; [lia|].
      specialize (IH ltac:(lia) ltac:(lia)). destruct (Hinc j Hj) as [_ H2]. lia.
  Qed.

  Lemma prefix_lookup_mono : forall a b, a <= b -> prefix_lookup s a <= prefix_lookup s b.
  Proof.
    intros a b Hab. unfold prefix_lookup.
    destruct (N.eqb_spec a 0) as [Ha|Ha]; [lia|].
    destruct (N.eqb_spec b 0) as [Hb|Hb]; [lia|].
    pose proof (prefix_idx_mono s a b Hab) as Hm. pose proof (prefix_idx_le_len s b) as Hl.
    destruct (prefix_lookup_idx s a) as [|i]; [lia|].
    destruct (prefix_lookup_idx s b) as [|j]; [lia|].
    apply prefix_snd_mono; lia.
  Qed.

  Lemma prefix_lookup_le_max : forall x, prefix_lookup s x <= prefix_max_njobs s.
  Proof.
    intros x. unfold prefix_lookup, prefix_max_njobs. rewrite last_nth_gen.
    destruct (x =? 0); [lia|].
    pose proof (prefix_idx_le_len s x) as Hl.
    destruct (prefix_lookup_idx s x) as [|i]; [lia|].
    apply prefix_snd_mono; lia.
  Qed.

  Lemma prefix_na_mono : forall a b, a <= b -> prefix_na h s a <= prefix_na h s b.
  Proof.
    intros a b Hab. unfold prefix_na. rewrite !(N.mul_comm (prefix_max_njobs s)).
    apply cyclic_mono; [destruct Hwf; lia | apply prefix_lookup_mono | | exact Hab].
    intros x _. apply prefix_lookup_le_max.
  Qed.

  Lemma prefix_na_0 : prefix_na h s 0 = 0.
  Proof.
    unfold prefix_na. destruct Hwf as [Hh _].
    rewrite N.div_0_l, N.mod_0_l by lia. unfold prefix_lookup. rewrite N.eqb_refl. lia.
  Qed.
End Prefix.

(* ------------------------------------------------------------------------------------------ *)
(* 5. the three statements of C10                                                              *)
(* ------------------------------------------------------------------------------------------ *)
Lemma AB_ind' : forall P : AB -> Prop,
  (forall T, P (Periodic T)) -> (forall T J, P (Sporadic T J)) -> P Never ->
  (forall d, P (CurveAB d)) -> (forall d, P (ExtrapAB d)) -> (forall h s, P (PrefixAB h s)) ->
  (forall J a, P a -> P (Propagated J a)) -> (forall l, Forall P l -> P (SumAB l)) ->
  forall ab, P ab.
Proof.
  intros P H1 H2 H3 H4 H5 H6 H7 H8. fix IH 1. intros [T|T J| |d|d|h s|J a|l].
  - apply H1.
  - apply H2.
  - apply H3.
  - apply H4.
  - apply H5.
  - apply H6.
  - apply H7. apply IH.
  - apply H8. induction l as [|a l IHl]; constructor; [apply IH | exact IHl].
Qed.

Lemma wf_sum : forall l, wf_ab (SumAB l) <-> Forall wf_ab l.
Proof.
  induction l as [|a l IH].
  - split; intros _; constructor.
  - split.
    + intros [Ha Hl]. constructor; [exact Ha | apply IH; exact Hl].
    + intros H. inversion H as [|a' l' Ha Hl]; subst. split; [exact Ha | apply IH; exact Hl].
Qed.

Theorem na_zero : forall ab, wf_ab ab -> na ab 0 = 0.
Proof.
  induction ab as [T|T J| |d|d|h s|J a IH|l IH] using AB_ind'; intros Hwf; cbn [na].
  - apply div_ceil_0.
  - rewrite N.eqb_refl. reflexivity.
  - reflexivity.
  - reflexivity.
  - reflexivity.
  - apply prefix_na_0. exact Hwf.
  - rewrite N.eqb_refl. reflexivity.
  - apply wf_sum in Hwf. induction IH as [|a l Ha Hl IHl]; [reflexivity|].
    inversion Hwf as [|a' l' Hwa Hwl]; subst. cbn [map sumN fold_right]. fold (sumN (map (fun a => na a 0) l)).
    rewrite (Ha Hwa), (IHl Hwl). reflexivity.
Qed.

Theorem na_mono : forall ab, wf_ab ab -> forall a b, a <= b -> na ab a <= na ab b.
Proof.
  induction ab as [T|T J| |d|d|h s|J ab' IH|l IH] using AB_ind'; intros Hwf a b Hab; cbn [na].
  - apply div_ceil_mono; assumption.
  - destruct (N.eqb_spec a 0); [lia|]. destruct (N.eqb_spec b 0); [lia|].
    apply div_ceil_mono; [exact Hwf | lia].
  - lia.
  - apply curve_na_mono; assumption.
  - apply extrap_na_mono; assumption.
  - apply prefix_na_mono; assumption.
  - destruct (N.eqb_spec a 0); [lia|]. destruct (N.eqb_spec b 0); [lia|].
    apply IH; [exact Hwf | lia].
  - apply wf_sum in Hwf. induction IH as [|x l Hx Hl IHl]; [cbn; lia|].
    inversion Hwf as [|a' l' Hwa Hwl]; subst. cbn [map sumN fold_right].
    fold (sumN (map (fun x => na x a) l)). fold (sumN (map (fun x => na x b) l)).
    specialize (Hx Hwa a b Hab). specialize (IHl Hwl). lia.
Qed.

Lemma separated_bound : forall T arr t len, 1 <= T -> separated (N.to_nat T) arr ->
  N.of_nat (count arr t len) <= div_ceil (N.of_nat len) T.
Proof.
  intros T arr t len HT Hsep. apply div_ceil_le; [exact HT|].
  pose proof (separated_count (N.to_nat T) arr ltac:(lia) Hsep t len). lia.
Qed.

Theorem na_bounds_admissible : forall ab es, wf_ab ab -> admissible ab es ->
  forall t d : nat, N.of_nat (count es t d) <= na ab (N.of_nat d).
Proof.
  intros ab es Hwf Hadm. revert Hwf.
  induction Hadm as [T arr Hsep | T J arr jit Hsep Hlen HJ | | d es Hr | d es Hr
                    | J ab es jit Hadm IH Hlen HJ | | a l es1 es2 H1 IH1 H2 IH2];
    intros Hwf t dl; cbn [na].
  - apply separated_bound; assumption.
  - destruct (N.eqb_spec (N.of_nat dl) 0) as [H0|H0].
    + replace dl with O by lia. rewrite count_zero. lia.
    + pose proof (count_zip_add_le (N.to_nat J) arr jit t dl Hlen HJ) as Hc.
      pose proof (separated_bound T arr (t - N.to_nat J) (dl + N.to_nat J) Hwf Hsep) as Hb.
      replace (N.of_nat (dl + N.to_nat J)) with (N.of_nat dl + J) in Hb by lia. lia.
  - rewrite count_nil. lia.
  - apply curve_na_covers; assumption.
  - unfold extrap_na. destruct (N.eqb_spec (N.of_nat dl) 0) as [H0|H0].
    + replace dl with O by lia. rewrite count_zero. lia.
    + apply curve_na_covers; [apply extrapolate_wf; exact Hwf | apply extrapolate_respected; exact Hr].
  - destruct (N.eqb_spec (N.of_nat dl) 0) as [H0|H0].
    + replace dl with O by lia. rewrite count_zero. lia.
    + pose proof (count_zip_add_le (N.to_nat J) es jit t dl Hlen HJ) as Hc.
      specialize (IH Hwf (t - N.to_nat J)%nat (dl + N.to_nat J)%nat).
      replace (N.of_nat (dl + N.to_nat J)) with (N.of_nat dl + J) in IH by lia. lia.
  - rewrite count_nil. cbn. lia.
  - apply wf_sum in Hwf. inversion Hwf as [|a' l' Hwa Hwl]; subst.
    rewrite count_app. cbn [map sumN fold_right]. fold (sumN (map (fun x => na x (N.of_nat dl)) l)).
    specialize (IH1 Hwa t dl). specialize (IH2 (proj2 (wf_sum l) Hwl) t dl). cbn [na] in IH2. lia.
Qed.

(* ------------------------------------------------------------------------------------------ *)
(* 6. Periodic / Sporadic: attainment and sub-additivity                                       *)
(* ------------------------------------------------------------------------------------------ *)
(* witness: arrivals at 0, T, 2T, ..., each delayed up to time J if it arrives earlier *)
Lemma staircase_count : forall T J len n : nat,
  (forall i, (i < n)%nat -> (i * T < J + len)%nat) -> (n = 0 \/ 1 <= len)%nat ->
  count (zip_add (map (fun i => (i * T)%nat) (seq 0 n)) (map (fun i => (J - i * T)%nat) (seq 0 n))) J len = n.
Proof.
  intros T J len n Hlt Hlen. rewrite zip_add_map. rewrite count_all.
  - rewrite map_length, seq_length. reflexivity.
  - rewrite Forall_forall. intros e He. apply in_map_iff in He. destruct He as [i [<- Hi]].
    apply in_seq in Hi. specialize (Hlt i ltac:(lia)). unfold in_window. lia.
Qed.

Lemma staircase_bound : forall (T a : N) (i : nat), 1 <= T ->
  (i < N.to_nat (div_ceil a T))%nat -> (i * N.to_nat T < N.to_nat a)%nat.
Proof.
  intros T a i HT Hi. destruct (div_ceil_spec a T HT) as [_ H2].
  assert (H : (N.of_nat i + 1) * T <= div_ceil a T * T) by (apply N.mul_le_mono_r; lia).
  lia.
Qed.

Theorem sporadic_attained : forall T J d, 1 <= T -> exists es t,
  admissible (Sporadic T J) es /\ N.of_nat (count es t (N.to_nat d)) = na (Sporadic T J) d.
Proof.
  intros T J d HT.
  set (n := N.to_nat (if d =? 0 then 0 else div_ceil (d + J) T)).
  exists (zip_add (map (fun i => (i * N.to_nat T)%nat) (seq 0 n))
                  (map (fun i => (N.to_nat J - i * N.to_nat T)%nat) (seq 0 n))).
  exists (N.to_nat J). split.
  - apply adm_sporadic.
    + apply separated_map_mul.
    + rewrite !map_length. reflexivity.
    + rewrite Forall_forall. intros e He. apply in_map_iff in He. destruct He as [i [<- _]]. lia.
  - cbn [na]. rewrite staircase_count.
    + unfold n. lia.
    + intros i Hi. unfold n in Hi. destruct (N.eqb_spec d 0); [cbn in Hi; lia|].
      pose proof (staircase_bound T (d + J) i HT Hi). lia.
    + unfold n. destruct (N.eqb_spec d 0); [left; reflexivity | right; lia].
Qed.

Theorem periodic_attained : forall T d, 1 <= T -> exists es t,
  admissible (Periodic T) es /\ N.of_nat (count es t (N.to_nat d)) = na (Periodic T) d.
Proof.
  intros T d HT.
  set (n := N.to_nat (div_ceil d T)).
  exists (map (fun i => (i * N.to_nat T)%nat) (seq 0 n)). exists O. split.
  - apply adm_periodic. apply separated_map_mul.
  - cbn [na]. rewrite count_all.
    + rewrite map_length, seq_length. unfold n. lia.
    + rewrite Forall_forall. intros e He. apply in_map_iff in He. destruct He as [i [<- Hi]].
      apply in_seq in Hi. pose proof (staircase_bound T d i HT ltac:(fold n; lia)).
      unfold in_window. lia.
Qed.

Theorem periodic_subadditive : forall T a b, 1 <= T ->
  na (Periodic T) (a + b) <= na (Periodic T) a + na (Periodic T) b.
Proof. intros T a b HT. cbn [na]. apply div_ceil_subadd. exact HT. Qed.

Theorem sporadic_subadditive : forall T J a b, 1 <= T ->
  na (Sporadic T J) (a + b) <= na (Sporadic T J) a + na (Sporadic T J) b.
Proof.
  intros T J a b HT. cbn [na].
  destruct (N.eqb_spec a 0) as [->|Ha].
  - rewrite N.add_0_l. lia.
  - destruct (N.eqb_spec b 0) as [->|Hb].
    + rewrite N.add_0_r. destruct (N.eqb_spec a 0); [congruence|]. lia.
    + destruct (N.eqb_spec (a + b) 0); [lia|].
      pose proof (div_ceil_mono (a + b + J) ((a + J) + (b + J)) T HT ltac:(lia)).
      pose proof (div_ceil_subadd (a + J) (b + J) T HT). lia.
Qed.

(* ------------------------------------------------------------------------------------------ *)
(* 7. clone_with_jitter                                                                        *)
(* ------------------------------------------------------------------------------------------ *)
Theorem clone_with_jitter_compose : forall ab a b,
  clone_with_jitter (clone_with_jitter ab a) b = clone_with_jitter ab (a + b).
Proof.
  induction ab as [T|T J| |d|d|h s|J ab' IH|l IH] using AB_ind'; intros a b; cbn [clone_with_jitter];
    try reflexivity.
  - rewrite N.add_assoc. reflexivity.
  - rewrite N.add_assoc. reflexivity.
  - f_equal. rewrite map_map. induction IH as [|x l Hx Hl IHl]; [reflexivity|].
    cbn [map]. rewrite Hx, IHl. reflexivity.
Qed.

Theorem clone_with_jitter_wf : forall ab j, wf_ab ab -> wf_ab (clone_with_jitter ab j).
Proof.
  induction ab as [T|T J| |d|d|h s|J ab' IH|l IH] using AB_ind'; intros j Hwf; cbn [clone_with_jitter];
    try exact Hwf.
  apply wf_sum. apply wf_sum in Hwf. induction IH as [|x l Hx Hl IHl]; [constructor|].
  inversion Hwf as [|a' l' Hwa Hwl]; subst. cbn [map]. constructor; [apply Hx; exact Hwa | apply IHl; exact Hwl].
Qed.

Local Close Scope N_scope.
Local Open Scope nat_scope.

Lemma Forall_app_inv : forall {A} (P : A -> Prop) l1 l2, Forall P (l1 ++ l2) -> Forall P l1 /\ Forall P l2.
Proof.
  intros A P l1 l2 H. rewrite !Forall_forall in *. split; intros x Hx; apply H; apply in_or_app; auto.
Qed.

Theorem clone_with_jitter_admits_delays : forall ab es jit j, admissible ab es -> length jit = length es ->
  Forall (fun x => x <= N.to_nat j) jit -> admissible (clone_with_jitter ab j) (zip_add es jit).
Proof.
  intros ab es jit j Hadm. revert jit.
  induction Hadm as [T arr Hsep | T J arr jit0 Hsep Hlen0 HJ0 | | d es Hr | d es Hr
                    | J ab es jit0 Hadm IH Hlen0 HJ0 | | a l es1 es2 H1 IH1 H2 IH2];
    intros jit Hlen HJ; cbn [clone_with_jitter].
  - apply adm_sporadic; assumption.
  - rewrite zip_add_length in Hlen by exact Hlen0.
    rewrite zip_add_assoc by assumption.
    apply adm_sporadic; [exact Hsep | rewrite zip_add_length; lia |].
    rewrite Nnat.N2Nat.inj_add. apply zip_add_Forall; [lia | assumption | assumption].
  - destruct jit; [|discriminate]. apply adm_never.
  - apply adm_propagated; [apply adm_curve; exact Hr | exact Hlen | exact HJ].
  - apply adm_propagated; [apply adm_extrap; exact Hr | exact Hlen | exact HJ].
  - rewrite zip_add_length in Hlen by exact Hlen0.
    rewrite zip_add_assoc by assumption.
    apply adm_propagated; [exact Hadm | rewrite zip_add_length; lia |].
    rewrite Nnat.N2Nat.inj_add. apply zip_add_Forall; [lia | assumption | assumption].
  - destruct jit; [|discriminate]. apply adm_sum_nil.
  - rewrite app_length in Hlen.
    rewrite <- (firstn_skipn (length es1) jit) in HJ |- *.
    apply Forall_app_inv in HJ. destruct HJ as [HJ1 HJ2].
    assert (Hl1 : length (firstn (length es1) jit) = length es1) by (rewrite firstn_length; lia).
    assert (Hl2 : length (skipn (length es1) jit) = length es2) by (rewrite skipn_length; lia).
    rewrite zip_add_app by exact Hl1. cbn [map].
    apply adm_sum_cons; [apply IH1; assumption|].
    specialize (IH2 _ Hl2 HJ2). cbn [clone_with_jitter] in IH2. exact IH2.
Qed.

Print Assumptions na_zero.
Print Assumptions na_mono.
Print Assumptions na_bounds_admissible.
Print Assumptions sporadic_attained.
Print Assumptions periodic_attained.
Print Assumptions sporadic_subadditive.
Print Assumptions periodic_subadditive.
Print Assumptions clone_with_jitter_admits_delays.
Print Assumptions clone_with_jitter_wf.
Print Assumptions clone_with_jitter_compose.
Print Assumptions push_next_respected.
Print Assumptions extrapolate_respected.
Print Assumptions extrapolate_wf.
Print Assumptions extrapolate_reaches.
Print Assumptions extrapolate_prefix.
