(* BwSound.v — property C05 (busy-window-aware part): soundness of the RTSS'21 analysis [bw_subchain] (Theorem 3,
   Lemma 18, Lemma 19, Def. 5 of Blass, Casini, Bozhko, Brandenburg, "A ROS 2 Response-Time Analysis Exploiting
   Starvation Freedom and Execution-Time Variance"; Model/Ros2.v, entry point [e_bw] of Model/Eval.v, Rust source
   src/ros2/bw.rs) for the operational model of the ROS 2 single-threaded executor of Spec/Executor.v running on a
   reservation.  Companion of RrSound.v, whose executor invariants and window lemmas (Part 1 there) are re-used.

   MAIN THEOREM [bw_sound] (shape of [rr_sound]).  Let wl be a workload of timers and polled callbacks (known or
   unknown priority) with well-formed arrival models whose step enumerators are exact ([wl_steps_ok]: the known
   class of C11 — ArrivalCurvePrefix — is excluded, as in [bw_exhaustive_any_build]) and
   scalar WCETs, in which every callback i carries an assumed bound R_i with [e_bw dbg sb wl [i] limit = ROk R_i]
   (any dbg, any limit).  Then in EVERY run of the executor, for every legal budget placement of the reservation,
   every admissible arrival function, every execution time in [1, WCET] and every executor order that matches wl
   ([cbs_match]), every completed instance (c, a, f) satisfies f - a <= R_c.  No hypothesis is left open; the only
   addition to the hypotheses of [rr_sound] is [wl_steps_ok].  NOT needed: "every callback can arrive"
   (0 < na 1) — a callback that can never arrive has no instance, and the degenerate result ROk 0 of
   [C07_bw_needs_arrival_refuted] is then vacuously sound.

   STRONGER [bw_sound_any_order].  The priority order of the executor is irrelevant for the busy-window analysis:
   the theorem holds under [cbs_timers_match] (the executor only has to agree with wl on which callbacks are
   timers; the order among polled callbacks is arbitrary, ties and disagreement with the known priorities
   included).  In particular the equal-priority scenario [rr_unsound_witness] of the rr analysis is NOT a
   counterexample for bw (bw bounds 7 and 7, observed 5 and 7).  Reason ([X_polled]): in the busy window
   [t0, t0 + d) a polled callback cb executes at most  na_cb(A) + #polling points in [a, start)  instances
   ([starts_per_window]: one start per polling point, plus one if cb sat in the ready set at a — but that instance
   was released before a and is counted in na_cb(A)); and there are at most na_e(R_e) polling points before the
   instance under analysis starts.  So Def. 5 holds even WITHOUT its "+1" / "+[higher priority]" terms on this
   executor model; the terms only add pessimism.

   Where the assumed bounds enter: only R_e of the callback under analysis itself, through the polling-point bound
   npp = na_e(R_e) (Def. 3) — by induction over time ([claim], as in RrSound) every instance of e released R_e or
   more before a has completed at a, so at most na_e(R_e) instances of e up to ours are pending and each polling
   point serves one of them.  The bounds of the OTHER callbacks are not used by [bw_subchain] at all.

   No violation found ⇒ no [bw_unsound_witness].  Tests before the proof (Eval vm_compute, not part of this file):
   least self-consistent vectors by iterating e_bw from 0; Executor.run on plain and dense (first release delayed
   by the full jitter) release patterns with all offset vectors in a grid, WCET / alternating-short execution
   times, Dedicated, PeriodicS 4 5 and ConstrainedS 2 3 5 with early-then-late budget placement, several executor
   orders; 6 workload mixes of timers / known / unknown priority, about 55 000 runs, every released instance
   completed, 0 violations (tightest case: bound 7, observed 7).

   Structure.
   Part 1  (Section ExecBw) [quiet] / [last_quiet] (beginning t0 of the busy window containing a),
           [busy_accounting_bw] (work conservation over a busy interval), [starts_per_window]; Section Window:
           [X_arrived_bw] (what executes in the busy window was released in it), [X_self_bw], [X_polled],
           [X_capped_bw] (Def. 5), [window_bound_bw] (supply(t0, d) + 1 <= rhs_bw(A, S) while not started),
           [offset_below_max] (Lemma 18: A = a - t0 < m); [claim_step_bw], [claim_all_bw], [exec_bound_bw].
   Part 2  [bw_rhs_nat], [bw_max_rhs_nat] (N -> nat), [bw_fixpoint] (ROk R_e means: for EVERY offset A below the
           busy-window bound — via [bw_exhaustive_any_build] — the start-time fixed point Sst(A) and
           sbf(Sst) - 1 + C_e <= sbf(A + R_e)).
   Part 3  [bw_sound_any_order], [bw_sound].   Part 4  [bw_sound_nonvacuous]. *)
From Coq Require Import Arith NArith List Lia Bool.
From RTA.Model Require Import Base Arrival Wcet Supply FixedPoint Ros2 Eval WellFormed.
From RTA.Spec Require Import Sched Events Reservation Exhaustive ExhaustiveRos Executor.
From RTA.Proofs Require Import WcetProofs ArrivalNaProofs StepsProofs SupplyProofs FixedPointProofs ReservationProofs ExhFP ExhRos EsSound RrSound.
Import ListNotations.
Local Close Scope N_scope.
Local Open Scope nat_scope.

(* ------------------------------------------------------------------------------------------ *)
(* Part 1: the busy window of the executor                                                     *)
(* ------------------------------------------------------------------------------------------ *)
Lemma capn_id : forall k k' x y, capn k k' x (x + y) = x.
Proof.
  intros k k' x y. unfold capn. destruct k as [| | |p]; [reflexivity|reflexivity|lia|].
  destruct k' as [| | |q]; try lia; destruct (N.ltb p q); lia.
Qed.

Section ExecBw.
  Variable cbs : list cbdef.
  Variable cost_of : nat -> nat -> nat.
  Variable arr : nat -> list nat.
  Variable sigma : nat -> bool.
  Notation n := (length cbs).
  Notation cbd := (cb cbs).
  Notation stt := (RrSound.st cbs cost_of arr sigma).
  Notation srv := (RrSound.srv cbs cost_of arr sigma).
  Notation dne := (RrSound.done cbs cost_of arr sigma).
  Notation remn := (RrSound.rem cbs cost_of arr sigma).
  Notation narr := (RrSound.narr arr).
  Notation arrives := (RrSound.arrives arr).
  Notation startc := (RrSound.start cbs cost_of arr sigma).

  Hypothesis Hcost1 : forall c k, c < n -> 1 <= cost_of c k.

  Ltac slot t :=
    destruct (slot_cases cbs cost_of arr sigma t) as
      [Es Est Epp Hsrv Erun Erdy Efin
      | c0 r0 a0 Es Est Epp Er Hsrv Erun Erdy Efin
      | c0 Es Est Er Hc0 Hp0 Hsrv Erun Efin Hknd
      | Es Est Er Hnp Hsrv Erun Erd Erdy Efin].

  (* quiet time: every instance released before t has completed by (the beginning of slot) t *)
  Definition quiet (t : nat) : Prop := forall c, c < n -> narr c t <= dne c t.
  Definition quietb (t : nat) : bool := forallb (fun c => narr c t <=? dne c t) (seq 0 n).

  Lemma quietP : forall t, quietb t = true <-> quiet t.
  Proof.
    intros t. unfold quietb, quiet. rewrite forallb_forall. split.
    - intros H c Hc. apply Nat.leb_le. apply H. apply in_seq. lia.
    - intros H c Hc. apply in_seq in Hc. apply Nat.leb_le. apply H. lia.
  Qed.

  Lemma quiet_0 : quiet 0.
  Proof. intros c _. unfold RrSound.narr, arrs_upto. cbn. lia. Qed.

  (* the beginning of the busy window that contains a *)
  Lemma last_quiet : forall a, exists t0, t0 <= a /\ quiet t0 /\ forall t, t0 < t <= a -> ~ quiet t.
  Proof.
    induction a as [|a (t0 & H1 & H2 & H3)].
    - exists 0. split; [lia|]. split; [apply quiet_0|]. intros; lia.
    - destruct (quietb (S a)) eqn:E.
      + exists (S a). split; [lia|]. split; [apply quietP; exact E|]. intros; lia.
      + exists t0. split; [lia|]. split; [exact H2|]. intros t Ht.
        destruct (Nat.eq_dec t (S a)) as [->|Hne]; [|apply H3; lia].
        intros Hq. apply quietP in Hq. congruence.
  Qed.

  Lemma quiet_done : forall t c, quiet t -> c < n -> dne c t = narr c t.
  Proof.
    intros t c Hq Hc. specialize (Hq c Hc).
    pose proof (done_le_srv cbs cost_of arr sigma c t). pose proof (srv_le_narr cbs cost_of arr sigma c t Hc). lia.
  Qed.

  Variable C : nat -> nat.
  Hypothesis HC : forall c k, c < n -> cost_of c k <= C c.

  (* work conservation over a busy interval: as long as no quiet time is reached, the supply of [t0, t0 + d) is
     consumed by instances that execute in it *)
  Lemma busy_accounting_bw : forall t0 d, (forall t, t0 <= t < t0 + d -> ~ quiet (S t)) ->
    supplied sigma t0 d + remn (t0 + d) <= sumn n (fun c => C c * (srv c (t0 + d) - dne c t0)).
  Proof.
    intros t0 d. induction d as [|d IH]; intros Hb.
    - rewrite Nat.add_0_r. cbn [supplied]. unfold RrSound.rem.
      pose proof (inv_run cbs cost_of arr sigma t0 (inv_all cbs cost_of arr sigma t0)) as Hr.
      destruct (running (stt t0)) as [[[c r] a']|] eqn:Er; [|lia].
      destruct Hr as (Hc & _ & Hr & Hs1 & _).
      etransitivity; [|apply (sumn_term_le n _ c Hc)]. cbn beta.
      unfold RrSound.done, runs_cb. rewrite Er, Nat.eqb_refl.
      replace (srv c t0 - (srv c t0 - 1)) with 1 by lia.
      specialize (HC c (srv c t0 - 1) Hc). lia.
    - replace (t0 + S d) with (S (t0 + d)) in * by lia. cbn [supplied]. set (t := t0 + d) in *.
      specialize (IH ltac:(intros u Hu; apply Hb; lia)).
      assert (Hnq : ~ quiet (S t)) by (apply Hb; lia).
      unfold RrSound.rem in *.
      pose proof (inv_run cbs cost_of arr sigma t (inv_all cbs cost_of arr sigma t)) as Hr.
      slot t.
      + rewrite Es, Erun. rewrite (sumn_ext n _ (fun c => C c * (srv c t - dne c t0))); [lia|].
        intros i _. rewrite Hsrv. reflexivity.
      + rewrite Es, Erun. rewrite Er in IH, Hr. destruct Hr as (_ & Hr1 & _).
        rewrite (sumn_ext n _ (fun c => C c * (srv c t - dne c t0))) by (intros i _; rewrite Hsrv; reflexivity).
        destruct (Nat.leb_spec r0 1); lia.
      + rewrite Es, Erun. rewrite Er in IH.
        rewrite (sumn_bump n (fun c => C c * (srv c t - dne c t0)) _ c0 (C c0) Hc0).
        * specialize (HC c0 (srv c0 t) Hc0). pose proof (Hcost1 c0 (srv c0 t) Hc0).
          destruct (Nat.leb_spec (cost_of c0 (srv c0 t)) 1); cbv iota; lia.
        * intros i Hi. rewrite (Hsrv i Hi). destruct (Nat.eqb_spec i c0) as [->|_]; [|lia].
          pose proof (done_le_srv cbs cost_of arr sigma c0 t0).
          pose proof (srv_mono cbs cost_of arr sigma c0 t0 t Hc0 ltac:(lia)).
          replace (S (srv c0 t) - dne c0 t0) with (S (srv c0 t - dne c0 t0)) by lia. lia.
      + exfalso. apply Hnq. intros c Hc. unfold RrSound.done, runs_cb. rewrite Erun, Hsrv.
        specialize (Hnp c Hc). lia.
  Qed.

  (* starts of a polled callback in [a, a + d): one per polling point, plus one if it sat in the ready set at a
     (the refinement of [once_per_window] that the busy-window argument needs: an instance that is ready at a was
     released before a) *)
  Lemma starts_per_window : forall a cb d, cb < n -> is_timer (cbd cb) = false ->
    (srv cb (a + d) - srv cb a) + mem cb (ready (stt (a + d))) <= supplied (ppb cbs cost_of arr sigma) a d + mem cb (ready (stt a)).
  Proof.
    intros a cb d Hcb Hpol. induction d as [|d IH].
    - rewrite Nat.add_0_r. cbn [supplied]. lia.
    - replace (a + S d) with (S (a + d)) by lia. cbn [supplied]. set (t := a + d) in *.
      pose proof (srv_mono cbs cost_of arr sigma cb a t Hcb ltac:(lia)) as Hm.
      slot t.
      + rewrite Hsrv, Erdy. lia.
      + rewrite Hsrv, Erdy. lia.
      + destruct Hknd as [(Htm & Hpp & Erdy & _)|(Hpl & Hnt & Hin & Hmin & Erdy & Hpp)].
        * rewrite (Hsrv cb Hcb), Erdy. destruct (Nat.eqb_spec cb c0) as [->|_]; [congruence|]. lia.
        * rewrite (Hsrv cb Hcb), Erdy, mem_filter_ne, Hpp. unfold rdy0 in *.
          destruct (ready (stt t)) as [|x l] eqn:Erd0.
          -- change (mem cb []) with 0 in IH.
             destruct (Nat.eqb cb c0); [lia|]. pose proof (mem_le1 cb (pollset cbs (pend cbs cost_of arr sigma t))). lia.
          -- destruct (Nat.eqb_spec cb c0) as [->|_]; [|lia]. rewrite (mem_in _ _ Hin) in IH. lia.
      + rewrite Hsrv, Erdy. rewrite Erd in IH. change (mem cb []) with 0 in *. lia.
  Qed.

  Lemma ready_has_pending : forall t c, In c (ready (stt t)) -> srv c t < narr c t.
  Proof. intros t c Hin. apply (inv_rdy cbs cost_of arr sigma t (inv_all cbs cost_of arr sigma t) c Hin). Qed.

  (* ---- the analysis, in nat ---- *)
  Variable kd : nat -> kind.
  Variable R : nat -> nat.
  Variable nab : nat -> nat -> nat.
  Variable sbfn : nat -> nat.

  Hypothesis Hkd_timer : forall c, c < n -> (is_timer (cbd c) = true <-> kd c = KTimer).
  Hypothesis Harr : forall c t d, c < n -> narr c (t + d) - narr c t <= nab c d.
  Hypothesis Hsbf : forall t d, sbfn d <= supplied sigma t d.

  (* right-hand side of the start-time recurrence of Theorem 3 for activation offset A (bw_rta) *)
  Definition rhs_bw (e A s : nat) : nat :=
    1 + sumn n (fun c => if Nat.eqb c e then 0
                         else C c * capn (kd c) (kd e) (nab c s) (nab c A + nab e (R e)))
      + C e * (nab e (A + 1) - 1).
  (* right-hand side of the recurrence of the maximum busy-window length of Lemma 18 (bw_max_rhs) *)
  Definition rhs_max (e m : nat) : nat :=
    1 + sumn n (fun c => if Nat.eqb c e then 0
                         else C c * capn (kd c) (kd e) (nab c m) (nab c m + nab e (R e)))
      + C e * nab e m.

  (* what an Ok result R e of the singleton analysis of e means: a busy-window bound m and, for EVERY activation
     offset A below it, a start-time bound S*(A) whose finish-time bound is within A + R e *)
  Hypothesis Hfix : forall e, e < n -> 0 < nab e 1 ->
    exists m, 1 <= m /\ rhs_max e m <= sbfn m /\
      forall A, A < m -> exists Sx, 1 <= Sx /\ rhs_bw e A Sx <= sbfn Sx /\ sbfn Sx - 1 + C e <= sbfn (A + R e).

  Lemma C_pos_bw : forall c, c < n -> 1 <= C c.
  Proof. intros c Hc. pose proof (Hcost1 c 0 Hc). pose proof (HC c 0 Hc). lia. Qed.

  Lemma R_pos_bw : forall e, e < n -> 0 < nab e 1 -> 1 <= R e.
  Proof.
    intros e He Hna. destruct (Hfix e He Hna) as (m & Hm & _ & HA).
    destruct (HA 0 ltac:(lia)) as (Sx & HS & H1 & H2). pose proof (C_pos_bw e He).
    assert (1 <= rhs_bw e 0 Sx) by (unfold rhs_bw; rewrite <- Nat.add_assoc; apply Nat.le_add_r).
    destruct (R e) as [|r]; [|lia]. pose proof (Hsbf 0 0) as Hz. cbn [supplied] in Hz.
    cbn [Nat.add] in H2. lia.
  Qed.

  Lemma arrives_nab1 : forall e k a, e < n -> arrives e k a -> 0 < nab e 1.
  Proof.
    intros e k a He (H1 & H2). pose proof (Harr e a 1 He) as H. replace (a + 1) with (S a) in H by lia. lia.
  Qed.

  Notation claim := (RrSound.claim cbs cost_of arr sigma R).

  Section Window.
    Variables (T e k a t0 : nat).
    Hypothesis Hclaim : claim T.
    Hypothesis HaT : a <= T.
    Hypothesis He : e < n.
    Hypothesis Harrives : arrives e k a.
    (* [t0, a] lies in one busy window that starts at t0 *)
    Hypothesis Ht0 : t0 <= a.
    Hypothesis Hq : quiet t0.
    Hypothesis Hnq : forall t, t0 < t <= a -> ~ quiet t.

    Notation A := (a - t0).
    (* the instances of c that execute in [t0, t0 + d) *)
    Notation X c d := (srv c (t0 + d) - dne c t0).

    (* everything that executes in the busy window was released in it *)
    Lemma X_arrived_bw : forall c d Sx, c < n -> d <= Sx -> X c d <= nab c Sx.
    Proof.
      intros c d Sx Hc Hd. rewrite (quiet_done t0 c Hq Hc).
      pose proof (srv_le_narr cbs cost_of arr sigma c (t0 + d) Hc) as H2.
      pose proof (Harr c t0 Sx Hc) as H3.
      pose proof (narr_mono arr c (t0 + d) (t0 + Sx) ltac:(lia)). lia.
    Qed.

    Lemma X_self_bw : forall d, srv e (t0 + d) <= k -> X e d <= nab e (A + 1) - 1.
    Proof.
      intros d Hs. rewrite (quiet_done t0 e Hq He). destruct Harrives as (_ & H2).
      pose proof (Harr e t0 (A + 1) He) as H3. replace (t0 + (A + 1)) with (S a) in H3 by lia. lia.
    Qed.

    (* a polled callback: its instances released before a, plus one per polling point while our instance waits;
       and there are at most na_e(R_e) such polling points: every one of them admits the callback e, which has at
       most that many pending instances up to ours (this is where the assumed bound R_e enters) *)
    Lemma X_polled : forall cb d, cb < n -> is_timer (cbd cb) = false -> srv e (t0 + d) <= k ->
      X cb d <= nab cb A + nab e (R e).
    Proof.
      intros cb d Hcb Hpol Hs. rewrite (quiet_done t0 cb Hq Hcb).
      pose proof (Harr cb t0 A Hcb) as H3. replace (t0 + A) with a in H3 by lia.
      destruct (Nat.le_gt_cases (t0 + d) a) as [Hle|Hgt].
      - pose proof (srv_le_narr cbs cost_of arr sigma cb (t0 + d) Hcb).
        pose proof (narr_mono arr cb (t0 + d) a Hle). lia.
      - set (d' := t0 + d - a). replace (t0 + d) with (a + d') in * by (unfold d'; lia).
        pose proof (srv_le_narr cbs cost_of arr sigma cb a Hcb) as Hsn.
        destruct Harrives as (_ & Hk).
        destruct (is_timer (cbd e)) eqn:Ete.
        + rewrite (timer_blocks_polled cbs cost_of arr sigma e k a d' cb He Ete Hk Hs Hcb Hpol). lia.
        + pose proof (starts_per_window a cb d' Hcb Hpol) as H1.
          pose proof (served_within_window cbs cost_of arr sigma e k a d' He Ete Hk Hs) as H2.
          pose proof (npp_bound cbs cost_of arr sigma R nab Harr T e k a Hclaim HaT He Harrives) as Hnpp.
          pose proof (mem_le1 e (ready (stt (a + d')))). pose proof (done_le_srv cbs cost_of arr sigma e a).
          pose proof (srv_mono cbs cost_of arr sigma e a (a + d') He ltac:(lia)).
          pose proof (srv_mono cbs cost_of arr sigma cb a (a + d') Hcb ltac:(lia)).
          destruct (in_dec Nat.eq_dec cb (ready (stt a))) as [Hin|Hnin].
          * pose proof (ready_has_pending a cb Hin). pose proof (mem_le1 cb (ready (stt a))). lia.
          * rewrite (mem_notin _ _ Hnin) in H1. lia.
    Qed.

    (* Def. 5 (the "+1" / "+[higher priority]" of the definition is not even needed) *)
    Lemma X_capped_bw : forall c d Sx, c < n -> c <> e -> d <= Sx -> srv e (t0 + d) <= k ->
      X c d <= capn (kd c) (kd e) (nab c Sx) (nab c A + nab e (R e)).
    Proof.
      intros c d Sx Hc Hne Hd Hs. pose proof (X_arrived_bw c d Sx Hc Hd) as H1.
      assert (Hpolc : forall p, kd c = KPU \/ kd c = KP p -> is_timer (cbd c) = false).
      { intros p Hp. destruct (is_timer (cbd c)) eqn:E; [|reflexivity]. apply Hkd_timer in E; [|exact Hc].
        destruct Hp as [Hp|Hp]; congruence. }
      unfold capn. destruct (kd c) as [| | |p] eqn:Ekc; try exact H1.
      - pose proof (X_polled c d Hc (Hpolc 0%N (or_introl eq_refl)) Hs). lia.
      - pose proof (X_polled c d Hc (Hpolc p (or_intror eq_refl)) Hs) as H2.
        destruct (kd e) as [| | |q] eqn:Eke; try lia; destruct (N.ltb p q); lia.
    Qed.

    (* the executor stays busy from t0 until our instance is started *)
    Lemma busy_until_started : forall d, srv e (t0 + d) <= k -> forall t, t0 <= t < t0 + d -> ~ quiet (S t).
    Proof.
      intros d Hs t Ht. destruct (Nat.lt_ge_cases t a) as [Hlt|Hge]; [apply Hnq; lia|].
      intros Hqt. specialize (Hqt e He). destruct Harrives as (_ & H2).
      pose proof (narr_mono arr e (S a) (S t) ltac:(lia)).
      pose proof (done_le_srv cbs cost_of arr sigma e (S t)).
      pose proof (srv_mono cbs cost_of arr sigma e (S t) (t0 + d) He ltac:(lia)). lia.
    Qed.

    Lemma window_bound_bw : forall Sx d, d <= Sx -> srv e (t0 + d) <= k ->
      supplied sigma t0 d + remn (t0 + d) + 1 <= rhs_bw e A Sx.
    Proof.
      intros Sx d Hd Hs.
      pose proof (busy_accounting_bw t0 d (busy_until_started d Hs)) as Hb.
      rewrite (sumn_bump n (fun c => if Nat.eqb c e then 0 else C c * X c d) _ e (C e * X e d) He) in Hb.
      2:{ intros i Hi. destruct (Nat.eqb_spec i e) as [->|_]; lia. }
      unfold rhs_bw.
      assert (H1 : sumn n (fun c => if Nat.eqb c e then 0 else C c * X c d) <=
                   sumn n (fun c => if Nat.eqb c e then 0
                                    else C c * capn (kd c) (kd e) (nab c Sx) (nab c A + nab e (R e)))).
      { apply sumn_le. intros i Hi. destruct (Nat.eqb_spec i e) as [_|Hne]; [lia|].
        apply Nat.mul_le_mono_l. apply X_capped_bw; assumption. }
      pose proof (Nat.mul_le_mono_l _ _ (C e) (X_self_bw d Hs)). lia.
    Qed.

    (* Lemma 18: the activation offset lies below the maximum busy-window length *)
    Lemma offset_below_max : forall m, 1 <= m -> rhs_max e m <= sbfn m -> A < m.
    Proof.
      intros m Hm Hmax. destruct (Nat.lt_ge_cases A m) as [H|Hge]; [exact H|]. exfalso.
      assert (Hbusy : forall t, t0 <= t < t0 + m -> ~ quiet (S t)) by (intros t Ht; apply Hnq; lia).
      pose proof (busy_accounting_bw t0 m Hbusy) as Hb.
      rewrite (sumn_bump n (fun c => if Nat.eqb c e then 0 else C c * X c m) _ e (C e * X e m) He) in Hb.
      2:{ intros i Hi. destruct (Nat.eqb_spec i e) as [->|_]; lia. }
      unfold rhs_max in Hmax.
      assert (H1 : sumn n (fun c => if Nat.eqb c e then 0 else C c * X c m) <=
                   sumn n (fun c => if Nat.eqb c e then 0
                                    else C c * capn (kd c) (kd e) (nab c m) (nab c m + nab e (R e)))).
      { apply sumn_le. intros i Hi. destruct (Nat.eqb_spec i e) as [_|Hne]; [lia|].
        apply Nat.mul_le_mono_l. rewrite capn_id. apply X_arrived_bw; [exact Hi|lia]. }
      pose proof (Nat.mul_le_mono_l _ _ (C e) (X_arrived_bw e m m He (le_n _))).
      pose proof (Hsbf t0 m). lia.
    Qed.
  End Window.

  Lemma claim_step_bw : forall T, claim T -> claim (S T).
  Proof.
    intros T Hcl e k a He Har HT.
    destruct (Nat.le_gt_cases (a + R e) T) as [Hle|Hgt]; [apply Hcl; assumption|].
    pose proof (arrives_nab1 e k a He Har) as Hna.
    pose proof (R_pos_bw e He Hna) as HR. assert (HaT : a <= T) by lia.
    destruct (last_quiet a) as (t0 & Ht0 & Hq & Hnq).
    destruct (Hfix e He Hna) as (m & Hm1 & Hmax & Hoffs).
    pose proof (offset_below_max T e a t0 HaT He Ht0 Hq Hnq m Hm1 Hmax) as HA.
    destruct (Hoffs (a - t0) HA) as (Sst & HS1 & Hrhs & HRe).
    pose proof (window_bound_bw T e k a t0 Hcl HaT He Har Ht0 Hq Hnq Sst) as Hwb.
    (* phase 1: the instance is started before t0 + S* *)
    assert (Hstarted : k < srv e (t0 + Sst)).
    { destruct (Nat.lt_ge_cases k (srv e (t0 + Sst))) as [H|H]; [exact H|]. exfalso.
      specialize (Hwb Sst (le_n _) H). pose proof (Hsbf t0 Sst). lia. }
    assert (Hsa : srv e t0 <= k).
    { pose proof (srv_le_narr cbs cost_of arr sigma e t0 He). pose proof (narr_mono arr e t0 a Ht0).
      destruct Har as (H1 & _). lia. }
    destruct (crossing (srv e) t0 (t0 + Sst) k ltac:(lia) Hsa Hstarted) as (s0 & Hs0 & Hb & Ha).
    assert (Hst : startc s0 = Some e /\ srv e s0 = k).
    { rewrite (srv_S cbs cost_of arr sigma s0 e He) in Ha. destruct (startc s0) as [c'|]; [|lia].
      destruct (Nat.eqb_spec e c') as [E|_]; [subst c'|lia]. split; [reflexivity|lia]. }
    destruct Hst as (Hst & Hsk).
    set (d0 := s0 - t0). replace s0 with (t0 + d0) in Hb by (unfold d0; lia).
    specialize (Hwb d0 ltac:(unfold d0; lia) Hb).
    (* phase 2: it completes once the supply has delivered its cost *)
    set (F := a - t0 + R e) in *.
    pose proof (Hsbf t0 F) as Hsup. pose proof (HC e k He) as Hw.
    assert (Hd0 : d0 < F).
    { destruct (Nat.lt_ge_cases d0 F) as [H|H]; [exact H|].
      pose proof (supplied_mono sigma t0 F d0 H). pose proof (C_pos_bw e He). lia. }
    pose proof (supplied_split sigma t0 d0 (F - d0)) as Hsplit.
    replace (d0 + (F - d0)) with F in Hsplit by lia.
    replace (t0 + d0) with s0 in Hsplit by (unfold d0; lia).
    pose proof (runs_to_completion cbs cost_of arr sigma e s0 (F - d0 - 1) Hst) as Hrc.
    replace (S (F - d0 - 1)) with (F - d0) in Hrc by lia.
    rewrite Hsk in Hrc. replace (s0 + (F - d0)) with (a + R e) in Hrc by (unfold d0, F; lia).
    apply Hrc. lia.
  Qed.

  Theorem claim_all_bw : forall T, claim T.
  Proof.
    induction T as [|T IH]; [|apply claim_step_bw; exact IH].
    intros c k a Hc Har H. pose proof (R_pos_bw c Hc (arrives_nab1 c k a Hc Har)). lia.
  Qed.

  Theorem exec_bound_bw : forall H c a f, In (c, a, f) (finished (stt H)) -> f - a <= R c.
  Proof.
    intros H c a f Hin.
    destruct (finished_origin cbs cost_of arr sigma H c a f Hin) as (t & k & -> & Ht & Hc & Har & Hd).
    pose proof (claim_all_bw (a + R c) c k a Hc Har (le_n _)) as Hcl.
    destruct (Nat.le_gt_cases (a + R c) t) as [Hle|Hgt]; [|lia].
    pose proof (done_mono cbs cost_of arr sigma c (a + R c) t Hc Hle). lia.
  Qed.
End ExecBw.
Print Assumptions exec_bound_bw.

(* ------------------------------------------------------------------------------------------ *)
(* Part 2: from the model of the crate to the hypotheses of Part 1                             *)
(* ------------------------------------------------------------------------------------------ *)
(* the start-time recurrence of [bw_rta] for activation offset A *)
Definition bw_rhs_N (wl' : list callback) (e : nat) (A S : N) : N :=
  (1 + bw_interference wl' [e] S A + cb_cost (eoc wl' [e]) (bw_self_instances wl' [e] A))%N.

Section BridgeBw.
  Variable wl : wlT.
  Variable cbs : list cbdef.
  Hypothesis Hlen : length cbs = length wl.
  Hypothesis Hok : wl_ok wl.

  Lemma bw_interference_nat : forall e S A, e < length wl ->
    N.to_nat (bw_interference (map cb_of wl) [e] S A) =
    sumn (length cbs) (fun c => if Nat.eqb c e then 0
       else Cn wl c * capn (wl_kind wl c) (wl_kind wl e) (nabn wl c (N.to_nat S))
                           (nabn wl c (N.to_nat A) + nabn wl e (Rn wl e))).
  Proof.
    intros e S A He. rewrite Hlen. unfold bw_interference.
    assert (Ee : eoc (map cb_of wl) [e] = cb_at (map cb_of wl) e) by reflexivity.
    unfold others, indexed. change (eoc_idx [e]) with e.
    rewrite (others_sum (map cb_of wl) e _ (mkCb 0 (fun _ => 0%N) (fun _ => []) (fun _ => 0%N) KTimer)).
    rewrite map_length. apply sumn_ext. intros c Hc. destruct (Nat.eqb c e); [reflexivity|].
    change (nth c (map cb_of wl) (mkCb 0 (fun _ => 0%N) (fun _ => []) (fun _ => 0%N) KTimer))
      with (cb_at (map cb_of wl) c).
    unfold bw_rbf, max_pp. rewrite Ee. cbn [map sumN fold_right]. rewrite !cb_at_wl by assumption.
    cbn [cb_cost cb_kind cb_na cb_R].
    destruct (Hok c Hc) as (_ & Ecm & _). rewrite Ecm. cbn [cost_of_jobs].
    rewrite Nnat.N2Nat.inj_mul, capped_nat. unfold Cn, nabn, Rn. f_equal. f_equal.
    - rewrite Nnat.N2Nat.id. reflexivity.
    - rewrite N.add_0_r, Nnat.N2Nat.inj_add, !Nnat.N2Nat.id. reflexivity.
  Qed.

  Lemma bw_rhs_nat : forall e A S, e < length wl ->
    N.to_nat (bw_rhs_N (map cb_of wl) e A S) =
    rhs_bw cbs (Cn wl) (wl_kind wl) (Rn wl) (nabn wl) e (N.to_nat A) (N.to_nat S).
  Proof.
    intros e A S He. unfold bw_rhs_N, rhs_bw. rewrite !Nnat.N2Nat.inj_add. change (N.to_nat 1) with 1.
    rewrite (bw_interference_nat e S A He). f_equal.
    assert (Ee : eoc (map cb_of wl) [e] = cb_at (map cb_of wl) e) by reflexivity.
    unfold bw_self_instances. rewrite Ee. rewrite !cb_at_wl by assumption. cbn [cb_cost cb_na].
    destruct (Hok e He) as (_ & Ecm & _). rewrite Ecm. cbn [cost_of_jobs].
    rewrite Nnat.N2Nat.inj_mul, Nnat.N2Nat.inj_sub. change (N.to_nat 1) with 1.
    unfold Cn, nabn. f_equal. f_equal. f_equal. f_equal. lia.
  Qed.

  Lemma bw_max_rhs_nat : forall e m, e < length wl ->
    N.to_nat (bw_max_rhs (map cb_of wl) [e] m) =
    rhs_max cbs (Cn wl) (wl_kind wl) (Rn wl) (nabn wl) e (N.to_nat m).
  Proof.
    intros e m He. unfold bw_max_rhs, rhs_max. rewrite !Nnat.N2Nat.inj_add. change (N.to_nat 1) with 1.
    rewrite (bw_interference_nat e m m He). f_equal.
    assert (Ee : eoc (map cb_of wl) [e] = cb_at (map cb_of wl) e) by reflexivity.
    rewrite Ee. rewrite !cb_at_wl by assumption. cbn [cb_cost cb_na].
    destruct (Hok e He) as (_ & Ecm & _). rewrite Ecm. cbn [cost_of_jobs].
    rewrite Nnat.N2Nat.inj_mul. unfold Cn, nabn. rewrite Nnat.N2Nat.id. reflexivity.
  Qed.
End BridgeBw.

(* the step enumerators of the arrival models are exact (C11: no ArrivalCurvePrefix) *)
Definition wl_steps_ok (wl : wlT) : Prop := forall c, c < length wl -> steps_exact_class (wl_ab wl c).

Lemma wl_cb_steps : forall (wl : wlT), wl_ok wl -> wl_steps_ok wl ->
  forall cb, In cb (map cb_of wl) ->
    ExhFP.mono (cb_na cb) /\ ExhFP.mono (cb_cost cb) /\ forall h, steps_spec (cb_na cb) (cb_steps cb h) h.
Proof.
  intros wl Hok Hsec cb Hin. destruct (wl_cb_mono wl Hok cb Hin) as (H1 & H2).
  split; [exact H1|]. split; [exact H2|].
  apply in_map_iff in Hin. destruct Hin as (x & <- & Hx).
  apply (In_nth _ _ wl_dflt) in Hx. destruct Hx as (c & Hc & Hx).
  destruct (Hok c Hc) as (Hwfab & _). specialize (Hsec c Hc). unfold wl_ab in *. rewrite Hx in *.
  destruct x as [[[R ab] cm] k]. cbn [cb_of cb_steps cb_na]. apply steps_upto_exact; assumption.
Qed.

(* what [e_bw ... [e] = ROk R_e] says: Lemma 18 and, for EVERY offset below the busy-window bound (not only the
   Lemma-19 steps: [bw_exhaustive_any_build]), the two steps of Theorem 3 *)
Lemma bw_fixpoint : forall dbg sb (wl : wlT) limit e, wf_sb sb -> wl_ok wl -> wl_steps_ok wl -> e < length wl ->
  (0 < na (wl_ab wl e) 1)%N ->
  e_bw dbg sb wl [e] limit = ROk (wl_R wl e) ->
  exists m : N, (1 <= m)%N /\ (bw_max_rhs (map cb_of wl) [e] m <= sbf sb m)%N /\
    forall A, (A < m)%N -> exists Sx : N, (1 <= Sx)%N /\ (bw_rhs_N (map cb_of wl) e A Sx <= sbf sb Sx)%N /\
                                          (sbf sb Sx - 1 + wl_C wl e <= sbf sb (A + wl_R wl e))%N.
Proof.
  intros dbg sb wl limit e Hwf Hok Hsec He Hna Hbw.
  pose proof (sbf_wf_ok sb Hwf) as Hsok. pose proof (st_wf_exact sb Hwf) as Hinv.
  pose proof (wl_cb_steps wl Hok Hsec) as Hall.
  assert (Hin : In (eoc (map cb_of wl) [e]) (map cb_of wl)).
  { unfold eoc, cb_at. apply nth_In. rewrite map_length. exact He. }
  assert (Ee : eoc (map cb_of wl) [e] = cb_at (map cb_of wl) e) by reflexivity.
  destruct (Hok e He) as (Hwfe & Ecm & _).
  unfold e_bw in Hbw.
  rewrite (bw_exhaustive_any_build (sbf sb) (Supply.st sb) Hsok Hinv dbg (map cb_of wl) [e] limit
             (fun d => (Supply.st sb d + 1)%N) Hall) in Hbw.
  2:{ exact (Hall _ Hin). }
  2:{ intros d. lia. }
  2:{ rewrite Ee, cb_at_wl by exact He. cbn [cb_na]. rewrite (na_zero _ Hwfe). exact Hna. }
  unfold exh_bw in Hbw. change (Nat.eqb (length [e]) 1) with true in Hbw. cbv zeta in Hbw.
  destruct (least_sol (sbf sb) limit 0 (bw_max_rhs (map cb_of wl) [e])) as [m|] eqn:Em; [|discriminate].
  set (sols := map (exh_bw_at (sbf sb) (fun d => (Supply.st sb d + 1)%N) (map cb_of wl) [e] limit true) (rangeN 0 m)) in *.
  destruct (existsb is_none sols) eqn:Eex; [discriminate|]. injection Hbw as Hmax.
  apply least_sol_some in Em. destruct Em as (_ & _ & Hsol & _). unfold FixedPointProofs.sol in Hsol.
  rewrite N.add_0_l in Hsol.
  assert (Hm1 : (1 <= m)%N).
  { destruct (N.eq_dec m 0) as [->|Hne]; [|lia]. exfalso. destruct Hsok as (H0 & _).
    rewrite H0 in Hsol. unfold bw_max_rhs in Hsol. lia. }
  replace (N.max m 1) with m in Hsol by lia.
  exists m. split; [exact Hm1|]. split; [exact Hsol|].
  intros A HA.
  assert (HinA : In (exh_bw_at (sbf sb) (fun d => (Supply.st sb d + 1)%N) (map cb_of wl) [e] limit true A) sols).
  { unfold sols. apply in_map. apply in_rangeN. lia. }
  destruct (exh_bw_at (sbf sb) (fun d => (Supply.st sb d + 1)%N) (map cb_of wl) [e] limit true A) as [r|] eqn:Er.
  2:{ exfalso. assert (existsb is_none sols = true) by (apply existsb_exists; exists None; split; [exact HinA|reflexivity]).
      congruence. }
  assert (Hr : (r <= wl_R wl e)%N).
  { rewrite <- Hmax. apply maxN_ub. apply in_map_iff. exists (Some r). split; [reflexivity|exact HinA]. }
  unfold exh_bw_at in Er. cbv zeta in Er.
  destruct (least_sol (sbf sb) limit 0
              (fun x => (1 + bw_interference (map cb_of wl) [e] x A +
                         cb_cost (eoc (map cb_of wl) [e]) (bw_self_instances (map cb_of wl) [e] A))%N))
    as [Sx|] eqn:ES; [|discriminate].
  injection Er as Er.
  apply least_sol_some in ES. destruct ES as (_ & _ & HsolS & _). unfold FixedPointProofs.sol in HsolS.
  rewrite N.add_0_l in HsolS.
  assert (HS1 : (1 <= Sx)%N).
  { destruct (N.eq_dec Sx 0) as [->|Hne]; [|lia]. exfalso. destruct Hsok as (H0 & _).
    rewrite H0 in HsolS. lia. }
  replace (N.max Sx 1) with Sx in HsolS by lia.
  exists Sx. split; [exact HS1|]. split; [exact HsolS|].
  rewrite Ee in Er. rewrite cb_at_wl in Er by exact He. cbn [cb_cost] in Er. rewrite Ecm in Er.
  cbn [cost_of_jobs] in Er.
  set (ni := bw_self_instances (map cb_of wl) [e] A) in *.
  replace (wl_C wl e * (ni + 1) - wl_C wl e * ni)%N with (wl_C wl e) in Er by lia.
  rewrite <- (st_is_inv_scan (sbf sb) (Supply.st sb) Hinv) in Er by lia.
  apply (Hinv _ _). lia.
Qed.

(* ------------------------------------------------------------------------------------------ *)
(* Part 3: the theorem                                                                         *)
(* ------------------------------------------------------------------------------------------ *)
(* the executor's view of the workload as far as the busy-window analysis depends on it: which callbacks are
   timers.  The priority order of the executor is ARBITRARY (ties included). *)
Definition cbs_timers_match (wl : wlT) (cbs : list cbdef) : Prop :=
  length cbs = length wl /\
  (forall c, c < length wl -> (is_timer (cb cbs c) = true <-> wl_kind wl c = KTimer)).

Theorem bw_sound_any_order : forall dbg sb (wl : wlT) limit cbs cost_of arr sigma,
  wf_sb sb -> supply_admits sb sigma ->
  wl_ok wl -> wl_steps_ok wl -> cbs_timers_match wl cbs -> arrivals_ok wl arr -> costs_ok wl cost_of ->
  (forall i, i < length wl -> e_bw dbg sb wl [i] limit = ROk (wl_R wl i)) ->
  forall H c a f, In (c, a, f) (finished (run cbs cost_of H arr sigma)) -> f - a <= N.to_nat (wl_R wl c).
Proof.
  intros dbg sb wl limit cbs cost_of arr sigma Hwf Hadm Hok Hsec (Hlen & Htm) Harr Hcost Hfix H c a f Hin.
  apply (exec_bound_bw cbs cost_of arr sigma) with (C := Cn wl) (kd := wl_kind wl) (R := Rn wl) (nab := nabn wl)
    (sbfn := fun d => N.to_nat (sbf sb (N.of_nat d))) (H := H).
  - intros c' k Hc. rewrite Hlen in Hc. apply (Hcost c' k Hc).
  - intros c' k Hc. rewrite Hlen in Hc. apply (Hcost c' k Hc).
  - intros c' Hc. rewrite Hlen in Hc. apply Htm. exact Hc.
  - intros c' t d Hc. rewrite Hlen in Hc. destruct (Harr c' Hc) as (es & Hes & Hcnt).
    rewrite (narr_count arr c' es Hcnt). unfold nabn.
    pose proof (na_bounds_admissible _ es (proj1 (Hok c' Hc)) Hes t d). lia.
  - intros t d. apply supply_admits_sbf; assumption.
  - intros e He Hna. rewrite Hlen in He.
    assert (Hna' : (0 < na (wl_ab wl e) 1)%N) by (unfold nabn in Hna; change (N.of_nat 1) with 1%N in Hna; lia).
    destruct (bw_fixpoint dbg sb wl limit e Hwf Hok Hsec He Hna' (Hfix e He)) as (m & Hm1 & Hmax & Hoffs).
    exists (N.to_nat m). split; [lia|]. split.
    + rewrite <- (bw_max_rhs_nat wl cbs Hlen Hok e m He). rewrite Nnat.N2Nat.id. lia.
    + intros A HA. destruct (Hoffs (N.of_nat A) ltac:(lia)) as (Sx & HS1 & Hrhs & HR).
      exists (N.to_nat Sx). split; [lia|].
      pose proof (bw_rhs_nat wl cbs Hlen Hok e (N.of_nat A) Sx He) as E. rewrite Nnat.Nat2N.id in E.
      rewrite <- E. rewrite Nnat.N2Nat.id. unfold Rn, Cn.
      replace (N.of_nat (A + N.to_nat (wl_R wl e))) with (N.of_nat A + wl_R wl e)%N by lia.
      split; lia.
  - exact Hin.
Qed.
Print Assumptions bw_sound_any_order.

(* the requested statement, in the shape of [rr_sound] *)
Theorem bw_sound : forall dbg sb (wl : wlT) limit cbs cost_of arr sigma,
  wf_sb sb -> supply_admits sb sigma ->
  wl_ok wl -> wl_steps_ok wl -> cbs_match wl cbs -> arrivals_ok wl arr -> costs_ok wl cost_of ->
  (forall i, i < length wl -> e_bw dbg sb wl [i] limit = ROk (wl_R wl i)) ->
  forall H c a f, In (c, a, f) (finished (run cbs cost_of H arr sigma)) -> f - a <= N.to_nat (wl_R wl c).
Proof.
  intros dbg sb wl limit cbs cost_of arr sigma Hwf Hadm Hok Hsec (Hlen & Htm & _).
  apply bw_sound_any_order; try assumption. split; assumption.
Qed.
Print Assumptions bw_sound.

(* ------------------------------------------------------------------------------------------ *)
(* Part 4: non-vacuity                                                                         *)
(* ------------------------------------------------------------------------------------------ *)
(* The scenario of [rr_sound_nonvacuous]: two polled callbacks on a dedicated processor,
     callback 0: sporadic, period 10, jitter 9, WCET 3, Polled(4)     callback 1: sporadic, period 20, WCET 2, Polled(5)
   releases: callback 0 at 9, 10, 20; callback 1 at 10.  The self-consistent busy-window-aware bounds are 7 and 8
   (round-robin-aware: 11 and 8); callback 1 observes response time 7, callback 0 observes 5.
   Case language:  (bw (dedicated) ((7 (sporadic 10 9) (scalar 3) (p 4)) (8 (sporadic 20 0) (scalar 2) (p 5))) (0) 1000)
                   (bw (dedicated) ((7 (sporadic 10 9) (scalar 3) (p 4)) (8 (sporadic 20 0) (scalar 2) (p 5))) (1) 1000) *)
Definition nv_wl_bw : wlT := [(7%N, Sporadic 10 9, Scalar 3, KP 4); (8%N, Sporadic 20 0, Scalar 2, KP 5)].

Theorem bw_sound_nonvacuous :
  wf_sb Dedicated /\ supply_admits Dedicated wit_sigma /\ wl_ok nv_wl_bw /\ wl_steps_ok nv_wl_bw /\
  cbs_match nv_wl_bw nv_cbs /\ arrivals_ok nv_wl_bw wit_arr /\ costs_ok nv_wl_bw wit_cost /\
  (forall dbg i, i < length nv_wl_bw -> e_bw dbg Dedicated nv_wl_bw [i] 1000 = ROk (wl_R nv_wl_bw i)) /\
  In (1, 10, 17) (finished (run nv_cbs wit_cost 30 wit_arr wit_sigma)) /\
  In (0, 10, 15) (finished (run nv_cbs wit_cost 30 wit_arr wit_sigma)).
Proof.
  split; [exact I|]. split; [intros t; reflexivity|]. split.
  { intros c Hc. destruct c as [|[|c]]; [| |cbn in Hc; lia]; (split; [cbn; lia|]); (split; [reflexivity|discriminate]). }
  split.
  { intros c Hc. destruct c as [|[|c]]; [| |cbn in Hc; lia]; exact I. }
  split.
  { split; [reflexivity|]. split.
    - intros c Hc. destruct c as [|[|c]]; [| |cbn in Hc; lia]; cbn; split; discriminate.
    - intros i j p q Hi Hj Hne Ei Ej Hqp.
      destruct i as [|[|i]]; [| |cbn in Hi; lia]; destruct j as [|[|j]]; try (cbn in Hj; lia); try congruence;
        cbn in Ei, Ej; injection Ei as <-; injection Ej as <-; cbn; lia. }
  split; [apply wit_arrivals_ok; reflexivity|]. split.
  { intros c k Hc. destruct c as [|[|c]]; [| |cbn in Hc; lia]; cbn; lia. }
  split.
  { intros dbg i Hi. destruct i as [|[|i]]; [| |cbn in Hi; lia]; destruct dbg; vm_compute; reflexivity. }
  split; vm_compute; tauto.
Qed.
Print Assumptions bw_sound_nonvacuous.
