(* ChainBridge.v — property C04, processing chains: every run of the OPERATIONAL ROS 2 executor WITH CHAINS
   (Spec/ExecutorChains.v: the machine of Spec/Executor.v plus a successor function; the completion of an instance of
   c releases an instance of next c at the completion time, carrying the source arrival) is a member of the ABSTRACT
   dispatcher class against which the chain analysis is proved (Proofs/ChainSound.v: [chain_sound],
   [chain_sound_total]), INCLUDING [chain_jobs] and [chain_jobs_complete].  Hence the chain theorem holds for the
   operational executor.  Companion of Proofs/ExecutorBridge.v (the same for the executor without chains).

   DELIVERABLES
   [chain_sound_executor]: for the operational executor [crun cbs cost_of (next_of (pre ++ [i])) H arr sigma] on a
   reservation, under [wf_sb sb], [supply_admits sb sigma], [Forall fifo_task_ok tasks], NoDup (pre ++ [i]), every
   callback of the chain a task with arrival bound ab, one task per callback, [chain_arrivals_ok] (the external
   arrivals of the FIRST callback of the chain -- the source events -- and of every callback OUTSIDE the chain are
   admissible for their tasks' arrival bounds; the other callbacks of the chain have no external arrivals: they are
   only released through the chain), execution times in [1, WCET] ([costs_ok_t]) and [e_chain ... = ROk R]:
   [chain_executor_meets_bound cbs cost_of (pre ++ [i]) arr sigma i R], i.e. for EVERY horizon H
     - every entry (i, r, f, src) of [cfinished (crun ... H ...)] (src = the recorded source arrival) has f <= src + R;
     - for the k-th source event, arrived at a with a + R <= H, the instance of the last callback HAS completed: it is
       the k-th entry (i, r, f, a) of callback i in that list, and f <= a + R;
     - (unindexed) if the first callback is in [arr a] and a + R <= H the list contains some (i, r, f, a), f <= a + R.
   No restriction to polled callbacks is needed: [chain_sound]'s class has no precedence hypothesis, so the callbacks
   of the chain, like the others, may be timers or polled callbacks of any priority.
   [chain_run_in_class]: the membership statement alone (the five dispatcher hypotheses, [chain_jobs],
   [chain_jobs_complete]); [run_chains_no_chain]: with next = fun _ => None the machine is the one of Executor.v.
   [chain_sound_executor_nonvacuous]: the chain system of ChainSound.v's witness 1 on the operational executor;
   the bound 13 is attained (source arrival 2, completion 15).

   CONSTRUCTION
   Part 1 (simulation).  The run with chains IS a run of Executor.v under the arrival function
     arr' t = crel t ++ arr t,     crel t = the successors of the callbacks whose completion time is t,
   read off the chain run itself ([crel]).  [sim_all]: after t slots the two machines agree on ready set, running
   instance, counters and completed instances (source arrivals erased), and the queues of the chain machine are
   those of Executor.v's machine plus the releases crel t, which Executor.v's machine adds at the beginning of slot
   t: releasing the successor at the END of the completion slot (tools/sim.py) or at the BEGINNING of the next one
   is the same thing.  Hence [crun_finished] and, without any new invariant, everything RrSound.v and
   ExecutorBridge.v prove about [run cbs cost_of T arr' sigma]: [run_valid], [run_uses_supply],
   [run_work_conserving], [run_runs_to_completion], [run_fifo_within_task], [service_lt_cost_iff], [fin_inv],
   [completed_entry].  None of them had to be re-proved.
   Part 2 (source arrivals).  [hist s c] = (release time, source arrival) of all instances of c released so far, in
   release order (completed ++ in progress ++ pending).  [step_hist]: one slot appends the external arrivals (t, t) and
   the instance handed over by a completion.  Hence [hist_src_first] (first callback: source arrival = arrival) and
   [hist_src_succ] (the source arrivals of the instances of c_{l+1} are those of the completed instances of c_l, in
   order), and [src_inv]: the k-th completed instance of every callback of the chain carries the arrival time of the
   k-th source event.
   Parts 3/4 (chain_jobs).  Job [jid c k] = the k-th released instance of c (ExecutorBridge.v); srcs = the arrivals of
   the first callback; ev (jid c k) = k: the executor serves every queue in order, so along the chain the k-th
   instance of every callback stems from the k-th source event.  [narr_succ]: the number of instances of c_{l+1}
   released up to time T = the number of instances of c_l completed by T; hence [arrives_succ] (the k-th instance
   of c_{l+1} is released exactly when the k-th instance of c_l completes: [released_on_completion]),
   [run_chain_jobs], [run_chain_jobs_complete].
   Part 5.  The abstract class wants a finite job list, i.e. a last release.  The external arrivals end (finite
   admissible sequences); that the chain releases end is only classically immediate (a bounded monotone counter is
   eventually constant: [bounded_mono_stab], [horizon_nn], doubly negated).  The conclusion of
   [chain_core_done] is a comparison of two numbers, hence stable under double negation: no axiom is used.

   FINDINGS
   All hypotheses of the abstract class, [chain_jobs] and [chain_jobs_complete] are TRUE of the operational executor
   with chains; nothing had to be weakened.  The successor is released with release time = completion time f and can
   be dispatched from slot f on, exactly what [released_on_completion] and [Sched.pending] say.  FIFO within a
   callback holds even when chain releases and external arrivals of one callback mix (one queue, release order).
   The hypothesis that the callbacks of the chain other than the first have no external arrivals is needed for
   [chain_jobs] itself (an externally released instance has no predecessor: clause 4 fails for every ev), not for
   the dispatcher class: [chain_checks_external_arrivals] (Part 7).  Part 7 keeps the executable checks that
   preceded the proofs. *)
From Coq Require Import Arith NArith List Lia Bool Permutation.
From RTA.Model Require Import Base Arrival Wcet Demand Supply FixedPoint Analyses Ros2 Eval WellFormed.
From RTA.Spec Require Import Sched Events TaskModel Reservation SupplySched NonPreemptive Executor ExecutorChains.
From RTA.Proofs Require Import SupplyProofs ReservationProofs FifoEndToEnd EsSound PpSound RrSound ChainSound ExecutorBridge.
Import ListNotations.
Local Close Scope N_scope.
Local Open Scope nat_scope.

Local Notation tsk jobs k := (j_task (nth k jobs (mkJob 0 0 0))).

(* ------------------------------------------------------------------------------------------ *)
(* Part 0: list helpers                                                                        *)
(* ------------------------------------------------------------------------------------------ *)
Definition opt_list {A} (o : option A) : list A := match o with Some x => [x] | None => [] end.

Lemma mcs_commute : forall {A B} (h : A -> B) (F : nat -> A -> A) (G : nat -> B -> B),
  (forall i x, h (F i x) = G i (h x)) -> forall p s,
  map h (map (fun ic => F (fst ic) (snd ic)) (combine (seq s (length p)) p)) =
  map (fun ic => G (fst ic) (snd ic)) (combine (seq s (length (map h p))) (map h p)).
Proof.
  intros A B h F G HFG. induction p as [|x p IH]; intros s; [reflexivity|].
  cbn [length seq combine map fst snd]. f_equal; [apply HFG|apply IH].
Qed.

Lemma map_repeat_c : forall {A B} (f : A -> B) x k, map f (repeat x k) = repeat (f x) k.
Proof. intros A B f x k. induction k as [|k IH]; [reflexivity|]. cbn [repeat map]. rewrite IH. reflexivity. Qed.

Lemma nth_error_app_Some : forall {A} (l1 l2 : list A) k x, nth_error l1 k = Some x -> nth_error (l1 ++ l2) k = Some x.
Proof.
  intros A l1 l2 k x E. rewrite nth_error_app1; [exact E|]. apply nth_error_Some. rewrite E. discriminate.
Qed.

Lemma nth_error_map_Some : forall {A B} (f : A -> B) l k y, nth_error (map f l) k = Some y ->
  exists x, nth_error l k = Some x /\ f x = y.
Proof.
  intros A B f l k y E. rewrite nth_error_map in E. destruct (nth_error l k) as [x|]; [|discriminate E].
  injection E as E. exists x. split; [reflexivity|exact E].
Qed.

Lemma filter_map_comm : forall {A B} (f : A -> B) (p : B -> bool) l, filter p (map f l) = map f (filter (fun x => p (f x)) l).
Proof.
  intros A B f p l. induction l as [|x l IH]; [reflexivity|]. cbn [map filter].
  destruct (p (f x)); cbn [map]; rewrite IH; reflexivity.
Qed.

(* a bounded monotone sequence is eventually constant (classically: the statement is doubly negated) *)
Lemma bounded_mono_stab : forall B (f : nat -> nat), (forall t t', t <= t' -> f t <= f t') -> (forall t, f t <= B) ->
  ~ ~ exists H, forall t, H <= t -> f t = f H.
Proof.
  induction B as [|B IH]; intros f Hm Hb Hno.
  - apply Hno. exists 0. intros t _. pose proof (Hb t). pose proof (Hb 0). lia.
  - assert (Hnt : ~ exists t, f t = S B).
    { intros (t0 & E). apply Hno. exists t0. intros t Ht. pose proof (Hm t0 t Ht). pose proof (Hb t). lia. }
    apply (IH f Hm); [|exact Hno]. intros t. destruct (Nat.eq_dec (f t) (S B)) as [E|E].
    + exfalso. apply Hnt. exists t. exact E.
    + pose proof (Hb t). lia.
Qed.

(* ------------------------------------------------------------------------------------------ *)
(* Part 1: the run with chains as a run of Executor.v with an augmented arrival function        *)
(* ------------------------------------------------------------------------------------------ *)
(* the callbacks released at time t by the completions recorded in a list of completed instances *)
Definition rel_of (next : nat -> option nat) (t : nat) (fin : list (nat * nat * nat)) : list nat :=
  flat_map (fun e => if snd e =? t then opt_list (next (fst (fst e))) else []) fin.

Lemma rel_of_app : forall next t l1 l2, rel_of next t (l1 ++ l2) = rel_of next t l1 ++ rel_of next t l2.
Proof. intros. unfold rel_of. apply flat_map_app. Qed.

Lemma rel_of_old : forall next t l, (forall e, In e l -> snd e <= t) -> rel_of next (S t) l = [].
Proof.
  intros next t l. induction l as [|e l IH]; intros Hl; [reflexivity|]. cbn [rel_of flat_map].
  pose proof (Hl e (or_introl eq_refl)) as He. destruct (Nat.eqb_spec (snd e) (S t)) as [E|_]; [lia|].
  cbn [app]. apply IH. intros e' He'. apply Hl. right. exact He'.
Qed.

(* the number of releases of c', whose only predecessor is c *)
Lemma rel_of_count : forall next f c c' l, (forall e, In e l -> snd e = f) -> (forall c0, next c0 = Some c' <-> c0 = c) ->
  count_occ Nat.eq_dec (rel_of next f l) c' = length (filter (fun e => fst (fst e) =? c) l).
Proof.
  intros next f c c' l Hl Hp. induction l as [|e l IH]; [reflexivity|]. cbn [rel_of flat_map filter].
  fold (rel_of next f l). rewrite count_occ_app, IH by (intros e' He'; apply Hl; right; exact He').
  rewrite (Hl e (or_introl eq_refl)), Nat.eqb_refl.
  destruct (Nat.eqb_spec (fst (fst e)) c) as [E|Hne].
  - apply Hp in E. rewrite E. cbn [opt_list count_occ length]. destruct (Nat.eq_dec c' c'); [reflexivity|congruence].
  - destruct (next (fst (fst e))) as [x|] eqn:En; cbn [opt_list count_occ]; [|reflexivity].
    destruct (Nat.eq_dec x c') as [->|_]; [|reflexivity]. apply Hp in En. contradiction.
Qed.

Lemma rel_of_count0 : forall next f c' l, (forall c0, next c0 <> Some c') -> count_occ Nat.eq_dec (rel_of next f l) c' = 0.
Proof.
  intros next f c' l Hp. induction l as [|e l IH]; [reflexivity|]. cbn [rel_of flat_map]. fold (rel_of next f l).
  rewrite count_occ_app, IH. destruct (snd e =? f); [|reflexivity].
  destruct (next (fst (fst e))) as [x|] eqn:En; cbn [opt_list count_occ]; [|reflexivity].
  destruct (Nat.eq_dec x c') as [->|_]; [|reflexivity]. exfalso. apply (Hp _ En).
Qed.

Definition er4 (r : nat * nat * nat * nat) : nat * nat * nat := let '(c, rem, a, _) := r in (c, rem, a).
Definition cb4 (e : nat * nat * nat * nat) : nat := fst (fst (fst e)).
Definition src4 (e : nat * nat * nat * nat) : nat := snd e.
Definition rs4 (e : nat * nat * nat * nat) : nat * nat := (snd (fst (fst e)), snd e).

(* ---- the list functions of ExecutorChains.v and their erasures ---- *)
Section Queues.
  Lemma push_length : forall c e p, length (push c e p) = length p.
  Proof. intros. apply length_map_combine_seq. Qed.

  Lemma push_nth : forall c e p c', c' < length p ->
    nth c' (push c e p) [] = if c' =? c then nth c' p [] ++ [e] else nth c' p [].
  Proof.
    intros c e p c' Hc. unfold push.
    rewrite (nth_map_combine_seq (fun i l => if Nat.eqb i c then l ++ [e] else l) p 0 c' [] []) by exact Hc. reflexivity.
  Qed.

  Lemma cpop_length : forall p c, length (cpop p c) = length p.
  Proof. intros. apply length_map_combine_seq. Qed.

  Lemma cpop_nth : forall p c c', c' < length p -> nth c' (cpop p c) [] = if c' =? c then tl (nth c' p []) else nth c' p [].
  Proof.
    intros p c c' Hc. unfold cpop.
    rewrite (nth_map_combine_seq (fun i l => if Nat.eqb i c then tl l else l) p 0 c' [] []) by exact Hc. reflexivity.
  Qed.

  Lemma cadd_length : forall t arrs p, length (cadd_arrivals t arrs p) = length p.
  Proof.
    intros t arrs. induction arrs as [|x arrs IH]; intros p; cbn [cadd_arrivals]; [reflexivity|].
    rewrite IH. apply push_length.
  Qed.

  Lemma cadd_nth : forall t arrs p c, c < length p ->
    nth c (cadd_arrivals t arrs p) [] = nth c p [] ++ repeat (t, t) (count_occ Nat.eq_dec arrs c).
  Proof.
    intros t arrs. induction arrs as [|x arrs IH]; intros p c Hc; cbn [cadd_arrivals count_occ].
    - cbn [repeat]. rewrite app_nil_r. reflexivity.
    - rewrite IH by (rewrite push_length; exact Hc). rewrite push_nth by exact Hc.
      destruct (Nat.eq_dec x c) as [E|E].
      + subst x. rewrite Nat.eqb_refl. cbn [repeat]. rewrite <- app_assoc. reflexivity.
      + destruct (Nat.eqb_spec c x) as [E'|_]; [congruence|]. reflexivity.
  Qed.

  Lemma erase_length : forall p, length (erase_q p) = length p.
  Proof. intros. apply map_length. Qed.

  Lemma erase_nth : forall p c, nth c (erase_q p) [] = map fst (nth c p []).
  Proof. intros p c. unfold erase_q. apply (map_nth (map fst) p [] c). Qed.

  Lemma erase_push : forall c a src p, erase_q (push c (a, src) p) = add_arrivals a [c] (erase_q p).
  Proof.
    intros c a src p. cbn [add_arrivals]. unfold erase_q, push.
    apply (mcs_commute (map fst) (fun i l => if Nat.eqb i c then l ++ [(a, src)] else l)
             (fun i l => if Nat.eqb i c then l ++ [a] else l)).
    intros i x. destruct (Nat.eqb i c); [|reflexivity]. rewrite map_app. reflexivity.
  Qed.

  Lemma add_arrivals_app : forall t l1 l2 p, add_arrivals t (l1 ++ l2) p = add_arrivals t l2 (add_arrivals t l1 p).
  Proof. intros t l1. induction l1 as [|x l1 IH]; intros l2 p; [reflexivity|]. cbn [app add_arrivals]. apply IH. Qed.

  Lemma erase_cadd : forall t arrs p, erase_q (cadd_arrivals t arrs p) = add_arrivals t arrs (erase_q p).
  Proof.
    intros t arrs. induction arrs as [|x arrs IH]; intros p; [reflexivity|].
    cbn [cadd_arrivals]. rewrite IH, erase_push. change (x :: arrs) with ([x] ++ arrs). rewrite add_arrivals_app. reflexivity.
  Qed.

  Lemma erase_cpop : forall p c, erase_q (cpop p c) = pop_pending (erase_q p) c.
  Proof.
    intros p c. unfold erase_q, cpop, pop_pending.
    apply (mcs_commute (map fst) (fun i l => if Nat.eqb i c then tl l else l) (fun i l => if Nat.eqb i c then tl l else l)).
    intros i x. destruct (Nat.eqb i c); [|reflexivity]. destruct x; reflexivity.
  Qed.

  Lemma erase_hd : forall p c, hd 0 (nth c (erase_q p) []) = fst (hd (0, 0) (nth c p [])).
  Proof. intros p c. rewrite erase_nth. destruct (nth c p []); reflexivity. Qed.

  Lemma erase_release : forall next c f src p,
    erase_q (release next c f src p) = add_arrivals f (opt_list (next c)) (erase_q p).
  Proof. intros next c f src p. unfold release. destruct (next c); [apply erase_push|reflexivity]. Qed.
End Queues.

(* ---- one step of the two machines ---- *)
Section StepSim.
  Variable cbs : list cbdef.
  Variable cost_of : nat -> nat -> nat.
  Variable next : nat -> option nat.

  Lemma advance_sim : forall t (p : list (list (nat * nat))) rdy srv (fin : list (nat * nat * nat * nat)) pfin c r a src,
    let s' := advance next t p rdy srv fin c r a src in
    let q' := if r <=? 1 then mkEstate (erase_q p) rdy None srv (pfin ++ [(c, a, S t)])
              else mkEstate (erase_q p) rdy (Some (c, r - 1, a)) srv pfin in
    cready s' = ready q' /\ option_map er4 (crunning s') = running q' /\ cserved s' = served q' /\
    exists new, cfinished s' = fin ++ new /\ finished q' = pfin ++ map erase_fin new /\
      (forall e, In e new -> snd (erase_fin e) = S t) /\
      erase_q (cpending s') = add_arrivals (S t) (rel_of next (S t) (map erase_fin new)) (pending q').
  Proof.
    intros t p rdy srv fin pfin c r a src. unfold advance. destruct (r <=? 1); cbv zeta.
    - cbn [cready crunning cserved cfinished cpending ready running served finished pending option_map].
      split; [reflexivity|]. split; [reflexivity|]. split; [reflexivity|].
      exists [(c, a, S t, src)]. split; [reflexivity|]. split; [reflexivity|]. split.
      + intros e [<-|[]]. reflexivity.
      + cbn [map erase_fin rel_of flat_map snd fst]. rewrite Nat.eqb_refl, app_nil_r. apply erase_release.
    - cbn [cready crunning cserved cfinished cpending ready running served finished pending option_map er4].
      split; [reflexivity|]. split; [reflexivity|]. split; [reflexivity|].
      exists []. split; [rewrite app_nil_r; reflexivity|]. split; [rewrite app_nil_r; reflexivity|].
      split; [intros e []|reflexivity].
  Qed.

  Lemma step_sim : forall t arrs ext sup (s : cstate) (q : estate),
    cready s = ready q -> option_map er4 (crunning s) = running q -> cserved s = served q ->
    erase_q (cadd_arrivals t arrs (cpending s)) = add_arrivals t ext (pending q) ->
    let s' := cstep cbs cost_of next t arrs sup s in
    let q' := step cbs cost_of t ext sup q in
    cready s' = ready q' /\ option_map er4 (crunning s') = running q' /\ cserved s' = served q' /\
    exists new, cfinished s' = cfinished s ++ new /\ finished q' = finished q ++ map erase_fin new /\
      (forall e, In e new -> snd (erase_fin e) = S t) /\
      erase_q (cpending s') = add_arrivals (S t) (rel_of next (S t) (map erase_fin new)) (pending q').
  Proof.
    intros t arrs ext sup s q Hrdy Hrun Hsrv Hp. cbv zeta. unfold cstep, step. rewrite <- Hp, <- Hrun, <- Hrdy, <- Hsrv.
    set (P := cadd_arrivals t arrs (cpending s)).
    assert (Hidle : forall rdy r4,
      cready (mkCstate P rdy r4 (cserved s) (cfinished s)) = ready (mkEstate (erase_q P) rdy (option_map er4 r4) (cserved s) (finished q)) /\
      option_map er4 (crunning (mkCstate P rdy r4 (cserved s) (cfinished s))) =
        running (mkEstate (erase_q P) rdy (option_map er4 r4) (cserved s) (finished q)) /\
      cserved (mkCstate P rdy r4 (cserved s) (cfinished s)) = served (mkEstate (erase_q P) rdy (option_map er4 r4) (cserved s) (finished q)) /\
      exists new, cfinished (mkCstate P rdy r4 (cserved s) (cfinished s)) = cfinished s ++ new /\
        finished (mkEstate (erase_q P) rdy (option_map er4 r4) (cserved s) (finished q)) = finished q ++ map erase_fin new /\
        (forall e, In e new -> snd (erase_fin e) = S t) /\
        erase_q (cpending (mkCstate P rdy r4 (cserved s) (cfinished s))) =
          add_arrivals (S t) (rel_of next (S t) (map erase_fin new))
            (pending (mkEstate (erase_q P) rdy (option_map er4 r4) (cserved s) (finished q)))).
    { intros rdy r4. split; [reflexivity|]. split; [reflexivity|]. split; [reflexivity|].
      exists []. split; [rewrite app_nil_r; reflexivity|]. split; [rewrite app_nil_r; reflexivity|].
      split; [intros e []|reflexivity]. }
    destruct sup; cbn [negb]; [|apply Hidle].
    destruct (crunning s) as [[[[c r] a] src]|]; cbn [option_map er4].
    - apply (advance_sim t P (cready s) (cserved s) (cfinished s) (finished q) c r a src).
    - destruct (dispatch cbs (erase_q P) (cready s)) as [[c|] rdy'].
      + rewrite erase_hd, <- erase_cpop.
        apply (advance_sim t (cpop P c) rdy' (bump (cserved s) c) (cfinished s) (finished q) c
                 (cost_of c (nth c (cserved s) 0)) (fst (hd (0, 0) (nth c P []))) (snd (hd (0, 0) (nth c P [])))).
      + apply (Hidle rdy' None).
  Qed.
End StepSim.

Section ChainRun.
  Variable cbs : list cbdef.
  Variable cost_of : nat -> nat -> nat.
  Variable next : nat -> option nat.
  Variable arr : nat -> list nat.
  Variable sigma : nat -> bool.
  Notation n := (length cbs).

  Definition cst (t : nat) : cstate := crun cbs cost_of next t arr sigma.
  (* chain releases at time t; all the releases of slot t, as Executor.v's machine sees them *)
  Definition crel (t : nat) : list nat := rel_of next t (map erase_fin (cfinished (cst t))).
  Definition arr' (t : nat) : list nat := crel t ++ arr t.
  Notation pst := (st cbs cost_of arr' sigma).

  Lemma crun_from_S : forall H t0 s,
    crun_from cbs cost_of next t0 (S H) arr sigma s =
    cstep cbs cost_of next (t0 + H) (arr (t0 + H)) (sigma (t0 + H)) (crun_from cbs cost_of next t0 H arr sigma s).
  Proof.
    induction H as [|H IH]; intros t0 s.
    - cbn [crun_from]. rewrite Nat.add_0_r. reflexivity.
    - change (crun_from cbs cost_of next t0 (S (S H)) arr sigma s)
        with (crun_from cbs cost_of next (S t0) (S H) arr sigma (cstep cbs cost_of next t0 (arr t0) (sigma t0) s)).
      rewrite IH. replace (S t0 + H) with (t0 + S H) by lia. reflexivity.
  Qed.

  Lemma cst_S : forall t, cst (S t) = cstep cbs cost_of next t (arr t) (sigma t) (cst t).
  Proof. intros t. unfold cst, crun. rewrite crun_from_S. reflexivity. Qed.

  Record simr (t : nat) : Prop := mkSimr {
    sim_rdy : cready (cst t) = ready (pst t);
    sim_run : option_map er4 (crunning (cst t)) = running (pst t);
    sim_srv : cserved (cst t) = served (pst t);
    sim_fin : map erase_fin (cfinished (cst t)) = finished (pst t);
    sim_old : forall e, In e (finished (pst t)) -> snd e <= t;
    sim_pnd : erase_q (cpending (cst t)) = add_arrivals t (crel t) (pending (pst t)) }.

  (* the queues after the external arrivals of slot t *)
  Definition cP (t : nat) : list (list (nat * nat)) := cadd_arrivals t (arr t) (cpending (cst t)).

  Lemma erase_cP : forall t, simr t -> erase_q (cP t) = pend cbs cost_of arr' sigma t.
  Proof.
    intros t Hs. unfold cP, pend, arr'. rewrite erase_cadd, add_arrivals_app, (sim_pnd t Hs). reflexivity.
  Qed.

  (* what slot t adds to the lists of completed instances, and the releases it causes *)
  Definition sim_step (t : nat) : Prop :=
    exists new, cfinished (cst (S t)) = cfinished (cst t) ++ new /\
      finished (pst (S t)) = finished (pst t) ++ map erase_fin new /\
      (forall e, In e new -> snd (erase_fin e) = S t) /\
      crel (S t) = rel_of next (S t) (map erase_fin new).

  Lemma sim_S : forall t, simr t -> simr (S t) /\ sim_step t.
  Proof.
    intros t Hs.
    pose proof (step_sim cbs cost_of next t (arr t) (arr' t) (sigma t) (cst t) (pst t)
                  (sim_rdy t Hs) (sim_run t Hs) (sim_srv t Hs) (erase_cP t Hs)) as Hst.
    cbv zeta in Hst. rewrite <- cst_S, <- st_S in Hst.
    destruct Hst as (H1 & H2 & H3 & new & H4 & H5 & H6 & H7).
    assert (Hrel : crel (S t) = rel_of next (S t) (map erase_fin new)).
    { unfold crel. rewrite H4, map_app, rel_of_app, (sim_fin t Hs), (rel_of_old next t _ (sim_old t Hs)). reflexivity. }
    split.
    - constructor; try assumption.
      + rewrite H4, H5, map_app, (sim_fin t Hs). reflexivity.
      + intros e He. rewrite H5 in He. apply in_app_or in He. destruct He as [He|He].
        * pose proof (sim_old t Hs e He). lia.
        * apply in_map_iff in He. destruct He as (e4 & <- & He4). rewrite (H6 e4 He4). lia.
      + rewrite Hrel. exact H7.
    - exists new. repeat split; assumption.
  Qed.

  Lemma sim_0 : simr 0.
  Proof.
    constructor; unfold cst, crun, st, run, crel, cst, crun; cbn [crun_from run_from cinit init cready crunning cserved
      cfinished cpending ready running served finished pending option_map map rel_of flat_map add_arrivals];
      try reflexivity.
    - intros e [].
    - unfold erase_q. rewrite map_map. reflexivity.
  Qed.

  Lemma sim_all : forall t, simr t.
  Proof. induction t as [|t IH]; [apply sim_0|apply (sim_S t IH)]. Qed.

  Lemma sim_step_all : forall t, sim_step t.
  Proof. intros t. apply (sim_S t (sim_all t)). Qed.

  (* the completed instances of the run with chains are those of the run of Executor.v under arr' *)
  Theorem crun_finished : forall T,
    map erase_fin (cfinished (crun cbs cost_of next T arr sigma)) = finished (run cbs cost_of T arr' sigma).
  Proof. intros T. apply (sim_fin T (sim_all T)). Qed.

  Lemma crel_0 : crel 0 = [].
  Proof. reflexivity. Qed.
End ChainRun.

(* without chains the machine of ExecutorChains.v is the machine of Executor.v *)
Theorem run_chains_no_chain : forall cbs cost_of arr sigma H,
  map erase_fin (cfinished (crun cbs cost_of (fun _ => None) H arr sigma)) = finished (run cbs cost_of H arr sigma).
Proof.
  intros cbs cost_of arr sigma H. rewrite crun_finished.
  change (finished (st cbs cost_of (arr' cbs cost_of (fun _ => None) arr sigma) sigma H) = finished (st cbs cost_of arr sigma H)).
  rewrite (st_ext cbs cost_of sigma (arr' cbs cost_of (fun _ => None) arr sigma) arr H); [reflexivity|].
  intros u _. unfold arr', crel.
  assert (E : forall l, rel_of (fun _ : nat => @None nat) u l = []).
  { induction l as [|e l IH]; [reflexivity|]. cbn [rel_of flat_map]. fold (rel_of (fun _ : nat => @None nat) u l).
    rewrite IH. destruct (snd e =? u); reflexivity. }
  rewrite E. reflexivity.
Qed.
Print Assumptions run_chains_no_chain.

(* ------------------------------------------------------------------------------------------ *)
(* Part 2: the source arrivals carried by the instances                                        *)
(* ------------------------------------------------------------------------------------------ *)
(* [hist s c]: (release time, source arrival) of all the instances of c released so far, in release order: the
   completed ones, the one in progress, the pending ones *)
Definition fin_c (s : cstate) (c : nat) : list (nat * nat * nat * nat) := filter (fun e => cb4 e =? c) (cfinished s).
Definition run_c (s : cstate) (c : nat) : list (nat * nat) :=
  match crunning s with Some (c', _, a, src) => if c' =? c then [(a, src)] else [] | None => [] end.
Definition hist (s : cstate) (c : nat) : list (nat * nat) := map rs4 (fin_c s c) ++ run_c s c ++ nth c (cpending s) [].

Section Hist.
  Variable cbs : list cbdef.
  Variable cost_of : nat -> nat -> nat.
  Variable next : nat -> option nat.
  Variable arr : nat -> list nat.
  Variable sigma : nat -> bool.
  Notation n := (length cbs).
  Notation cst := (cst cbs cost_of next arr sigma).
  Notation a' := (arr' cbs cost_of next arr sigma).
  Notation pst := (st cbs cost_of a' sigma).
  Notation cP := (cP cbs cost_of next arr sigma).

  (* the instances handed over to callback c by the completions [new] at time f *)
  Definition handoff (f : nat) (new : list (nat * nat * nat * nat)) (c : nat) : list (nat * nat) :=
    flat_map (fun e => match next (cb4 e) with Some c' => if c' =? c then [(f, src4 e)] else [] | None => [] end) new.

  Lemma handoff_none : forall f new c, (forall c0, next c0 <> Some c) -> handoff f new c = [].
  Proof.
    intros f new c Hp. induction new as [|e new IH]; [reflexivity|]. cbn [handoff flat_map]. fold (handoff f new c).
    rewrite IH, app_nil_r. destruct (next (cb4 e)) as [x|] eqn:En; [|reflexivity].
    destruct (Nat.eqb_spec x c) as [->|_]; [|reflexivity]. exfalso. apply (Hp _ En).
  Qed.

  Lemma handoff_succ : forall f new c c', (forall c0, next c0 = Some c' <-> c0 = c) ->
    map snd (handoff f new c') = map src4 (filter (fun e => cb4 e =? c) new).
  Proof.
    intros f new c c' Hp. induction new as [|e new IH]; [reflexivity|]. cbn [handoff flat_map filter].
    fold (handoff f new c'). rewrite map_app, IH.
    destruct (Nat.eqb_spec (cb4 e) c) as [E|Hne].
    - apply Hp in E. rewrite E, Nat.eqb_refl. reflexivity.
    - destruct (next (cb4 e)) as [x|] eqn:En; [|reflexivity].
      destruct (Nat.eqb_spec x c') as [->|_]; [|reflexivity]. apply Hp in En. contradiction.
  Qed.

  Definition adv_new (t c0 r a src : nat) : list (nat * nat * nat * nat) := if r <=? 1 then [(c0, a, S t, src)] else [].

  Lemma hist_advance : forall t (p : list (list (nat * nat))) rdy srv fin c0 r a src,
    cfinished (advance next t p rdy srv fin c0 r a src) = fin ++ adv_new t c0 r a src /\
    forall c, c < length p ->
      hist (advance next t p rdy srv fin c0 r a src) c =
      map rs4 (filter (fun e => cb4 e =? c) fin) ++ (if c0 =? c then [(a, src)] else []) ++ nth c p [] ++
      handoff (S t) (adv_new t c0 r a src) c.
  Proof.
    intros t p rdy srv fin c0 r a src. unfold advance, adv_new. destruct (r <=? 1).
    - split; [reflexivity|]. intros c Hc.
      unfold hist, fin_c, run_c, handoff. cbn [cfinished crunning cpending flat_map].
      rewrite filter_app, map_app. cbn [filter cb4 src4 fst snd]. unfold release.
      destruct (next c0) as [c'|].
      + rewrite push_nth by exact Hc. rewrite (Nat.eqb_sym c' c).
        destruct (c0 =? c); destruct (c =? c'); cbn [map rs4 fst snd app]; rewrite <- ?app_assoc, ?app_nil_r; reflexivity.
      + destruct (c0 =? c); cbn [map rs4 fst snd app]; rewrite <- ?app_assoc, ?app_nil_r; reflexivity.
    - split; [rewrite app_nil_r; reflexivity|]. intros c Hc.
      unfold hist, fin_c, run_c, handoff. cbn [cfinished crunning cpending flat_map]. rewrite app_nil_r. reflexivity.
  Qed.

  Lemma cpending_length : forall t, length (cpending (cst t)) = n.
  Proof.
    intros t. pose proof (sim_pnd _ _ _ _ _ t (sim_all cbs cost_of next arr sigma t)) as E.
    apply (f_equal (@length _)) in E. rewrite erase_length, add_arrivals_length in E. rewrite E.
    apply (inv_lenp _ _ _ _ t (inv_all cbs cost_of a' sigma t)).
  Qed.

  (* the executor only dispatches a callback with a non-empty queue *)
  Lemma dispatch_nonempty : forall t c rdy', sigma t = true -> crunning (cst t) = None ->
    dispatch cbs (erase_q (cP t)) (cready (cst t)) = (Some c, rdy') -> c < n /\ nth c (cP t) [] <> [].
  Proof.
    intros t c rdy' Es Er Ed. pose proof (sim_all cbs cost_of next arr sigma t) as Hs.
    rewrite (erase_cP _ _ _ _ _ t Hs), (sim_rdy _ _ _ _ _ t Hs) in Ed.
    assert (Erp : running (pst t) = None) by (rewrite <- (sim_run _ _ _ _ _ t Hs), Er; reflexivity).
    assert (Est0 : start cbs cost_of a' sigma t = Some c) by (unfold start; rewrite Es, Erp, Ed; reflexivity).
    destruct (slot_cases cbs cost_of a' sigma t) as
      [Es' Est Epp Hsrv Erun Erdy Efin
      | c0 r0 a0 Es' Est Epp Er' Hsrv Erun Erdy Efin
      | c0 Es' Est Er' Hc0 Hp0 Hsrv Erun Efin Hknd
      | Es' Est Er' Hnp Hsrv Erun Erd Erdy Efin]; rewrite Est in Est0; try discriminate Est0.
    injection Est0 as ->. split; [exact Hc0|].
    apply (has_pending_iff cbs cost_of a' sigma t c (inv_all _ _ _ _ t) Hc0) in Hp0.
    unfold has_pending in Hp0. rewrite <- (erase_cP _ _ _ _ _ t Hs), erase_nth in Hp0.
    intros E. rewrite E in Hp0. discriminate Hp0.
  Qed.

  Lemma step_hist : forall t, exists new, cfinished (cst (S t)) = cfinished (cst t) ++ new /\
    forall c, c < n -> hist (cst (S t)) c = hist (cst t) c ++ repeat (t, t) (count_occ Nat.eq_dec (arr t) c) ++ handoff (S t) new c.
  Proof.
    intros t. pose proof (cpending_length t) as Hlen.
    assert (HPl : length (cP t) = n) by (unfold ChainBridge.cP; rewrite cadd_length; exact Hlen).
    assert (HP : forall c, c < n -> nth c (cP t) [] = nth c (cpending (cst t)) [] ++ repeat (t, t) (count_occ Nat.eq_dec (arr t) c)).
    { intros c Hc. unfold ChainBridge.cP. apply cadd_nth. rewrite Hlen. exact Hc. }
    assert (Hidle : forall rdy, exists new,
      cfinished (mkCstate (cP t) rdy (crunning (cst t)) (cserved (cst t)) (cfinished (cst t))) = cfinished (cst t) ++ new /\
      forall c, c < n -> hist (mkCstate (cP t) rdy (crunning (cst t)) (cserved (cst t)) (cfinished (cst t))) c =
        hist (cst t) c ++ repeat (t, t) (count_occ Nat.eq_dec (arr t) c) ++ handoff (S t) new c).
    { intros rdy. exists []. split; [rewrite app_nil_r; reflexivity|]. intros c Hc.
      unfold hist, fin_c, run_c, handoff. cbn [cfinished crunning cpending flat_map].
      rewrite (HP c Hc), app_nil_r, <- !app_assoc. reflexivity. }
    rewrite cst_S. unfold cstep. fold (cP t).
    destruct (sigma t) eqn:Es; cbn [negb]; [|apply Hidle].
    destruct (crunning (cst t)) as [[[[c0 r] a] src]|] eqn:Er.
    - destruct (hist_advance t (cP t) (cready (cst t)) (cserved (cst t)) (cfinished (cst t)) c0 r a src) as (E1 & E2).
      exists (adv_new t c0 r a src). split; [exact E1|]. intros c Hc.
      rewrite (E2 c ltac:(rewrite HPl; exact Hc)), (HP c Hc). unfold hist, fin_c, run_c. rewrite Er, <- !app_assoc. reflexivity.
    - destruct (dispatch cbs (erase_q (cP t)) (cready (cst t))) as [[c0|] rdy'] eqn:Ed.
      + destruct (dispatch_nonempty t c0 rdy' Es Er Ed) as (Hc0 & Hne).
        set (e := hd (0, 0) (nth c0 (cP t) [])).
        destruct (hist_advance t (cpop (cP t) c0) rdy' (bump (cserved (cst t)) c0) (cfinished (cst t)) c0
                    (cost_of c0 (nth c0 (cserved (cst t)) 0)) (fst e) (snd e)) as (E1 & E2).
        eexists. split; [exact E1|]. intros c Hc.
        rewrite (E2 c ltac:(rewrite cpop_length, HPl; exact Hc)), cpop_nth by (rewrite HPl; exact Hc).
        unfold hist, fin_c, run_c. rewrite Er. cbn [app]. rewrite <- !app_assoc. f_equal. rewrite (Nat.eqb_sym c c0).
        rewrite !app_assoc. f_equal. rewrite <- (HP c Hc).
        destruct (Nat.eqb_spec c0 c) as [->|Hne']; [|reflexivity].
        unfold e. destruct (nth c (cP t) []) as [|[x y] l]; [contradiction|]. reflexivity.
      + exists []. split; [rewrite app_nil_r; reflexivity|]. intros c Hc.
        unfold hist, fin_c, run_c, handoff. cbn [cfinished crunning cpending flat_map]. rewrite Er.
        rewrite (HP c Hc), app_nil_r, <- !app_assoc. reflexivity.
  Qed.

  (* a callback that is only released externally: the source arrivals are the arrivals *)
  Lemma hist_src_first : forall c, c < n -> (forall c0, next c0 <> Some c) ->
    forall t, map snd (hist (cst t) c) = arrs_upto arr c t.
  Proof.
    intros c Hc Hp. induction t as [|t IH].
    - unfold hist, fin_c, run_c, ChainBridge.cst, crun. cbn [crun_from cinit cfinished crunning cpending filter map app].
      rewrite nth_map_const. reflexivity.
    - destruct (step_hist t) as (new & _ & E). rewrite (E c Hc), (handoff_none _ _ _ Hp), app_nil_r, map_app, IH, map_repeat_c.
      cbn [snd]. rewrite arrs_upto_S. reflexivity.
  Qed.

  (* a callback that is only released by the completions of c: the source arrivals are those of the completed
     instances of c, in completion order *)
  Lemma hist_src_succ : forall c c', c' < n -> (forall c0, next c0 = Some c' <-> c0 = c) ->
    (forall t, count_occ Nat.eq_dec (arr t) c' = 0) ->
    forall t, map snd (hist (cst t) c') = map src4 (fin_c (cst t) c).
  Proof.
    intros c c' Hc' Hp Hext. induction t as [|t IH].
    - unfold hist, fin_c, run_c, ChainBridge.cst, crun. cbn [crun_from cinit cfinished crunning cpending filter map app].
      rewrite nth_map_const. reflexivity.
    - destruct (step_hist t) as (new & Ef & E). rewrite (E c' Hc'), Hext. cbn [repeat app].
      rewrite map_app, IH, (handoff_succ _ _ c c' Hp). unfold fin_c. rewrite Ef, filter_app, map_app. reflexivity.
  Qed.
End Hist.
(* ------------------------------------------------------------------------------------------ *)
(* Part 3: the successor function of a chain                                                   *)
(* ------------------------------------------------------------------------------------------ *)
Lemma next_of_inv : forall chain c0 c', next_of chain c0 = Some c' ->
  exists l, S l < length chain /\ c0 = nth l chain 0 /\ c' = nth (S l) chain 0.
Proof.
  induction chain as [|c1 rest IH]; intros c0 c' E; [discriminate E|].
  destruct rest as [|c2 rest']; [discriminate E|]. cbn [next_of] in E.
  destruct (Nat.eqb_spec c0 c1) as [->|Hne].
  - injection E as <-. exists 0. cbn [length nth]. split; [lia|]. split; reflexivity.
  - destruct (IH c0 c' E) as (l & Hl & E1 & E2). exists (S l). cbn [length] in *. split; [lia|]. split; assumption.
Qed.

Lemma next_of_nth : forall chain l, NoDup chain -> S l < length chain ->
  next_of chain (nth l chain 0) = Some (nth (S l) chain 0).
Proof.
  induction chain as [|c1 rest IH]; intros l Hnd Hl; [cbn in Hl; lia|].
  destruct rest as [|c2 rest']; [cbn in Hl; lia|]. cbn [next_of].
  destruct l as [|l].
  - cbn [nth]. rewrite Nat.eqb_refl. reflexivity.
  - apply NoDup_cons_iff in Hnd. destruct Hnd as (Hnin & Hnd).
    change (nth (S l) (c1 :: c2 :: rest') 0) with (nth l (c2 :: rest') 0).
    change (nth (S (S l)) (c1 :: c2 :: rest') 0) with (nth (S l) (c2 :: rest') 0).
    destruct (Nat.eqb_spec (nth l (c2 :: rest') 0) c1) as [E|_].
    + exfalso. apply Hnin. rewrite <- E. apply nth_In. cbn [length] in *. lia.
    + apply IH; [exact Hnd|cbn [length] in *; lia].
Qed.

Lemma next_of_pred : forall chain l, NoDup chain -> S l < length chain ->
  forall c0, next_of chain c0 = Some (nth (S l) chain 0) <-> c0 = nth l chain 0.
Proof.
  intros chain l Hnd Hl c0. split.
  - intros E. destruct (next_of_inv chain c0 _ E) as (l' & Hl' & -> & E2).
    apply (proj1 (NoDup_nth chain 0) Hnd) in E2; [|lia|lia]. f_equal. lia.
  - intros ->. apply next_of_nth; assumption.
Qed.

Lemma next_of_first : forall chain, NoDup chain -> forall c0, next_of chain c0 <> Some (nth 0 chain 0).
Proof.
  intros chain Hnd c0 E. destruct (next_of_inv chain c0 _ E) as (l' & Hl' & _ & E2).
  apply (proj1 (NoDup_nth chain 0) Hnd) in E2; lia.
Qed.

Lemma next_of_off : forall chain c', on_chain chain c' = false -> forall c0, next_of chain c0 <> Some c'.
Proof.
  intros chain c' Hoff c0 E. destruct (next_of_inv chain c0 _ E) as (l' & Hl' & _ & ->).
  unfold on_chain in Hoff. assert (Hex : existsb (Nat.eqb (nth (S l') chain 0)) chain = true); [|congruence].
  apply existsb_exists. exists (nth (S l') chain 0). split; [apply nth_In; exact Hl'|apply Nat.eqb_refl].
Qed.

Lemma on_chain_nth : forall chain c, on_chain chain c = true -> exists l, l < length chain /\ c = nth l chain 0.
Proof.
  intros chain c H. unfold on_chain in H. apply existsb_exists in H. destruct H as (x & Hin & E).
  apply Nat.eqb_eq in E. subst x. destruct (In_nth chain c 0 Hin) as (l & Hl & E). exists l. split; [exact Hl|congruence].
Qed.

Lemma nth_on_chain : forall chain l, l < length chain -> on_chain chain (nth l chain 0) = true.
Proof.
  intros chain l Hl. unfold on_chain. apply existsb_exists. exists (nth l chain 0).
  split; [apply nth_In; exact Hl|apply Nat.eqb_refl].
Qed.

(* ------------------------------------------------------------------------------------------ *)
(* Part 4: the run with a chain is a member of the abstract class, with [chain_jobs]            *)
(* ------------------------------------------------------------------------------------------ *)
Lemma arrs_upto_cb_ext : forall arr1 arr2 c T, (forall u, u < T -> count_occ Nat.eq_dec (arr1 u) c = count_occ Nat.eq_dec (arr2 u) c) ->
  arrs_upto arr1 c T = arrs_upto arr2 c T.
Proof.
  intros arr1 arr2 c. induction T as [|T IH]; intros Hext; [reflexivity|].
  rewrite !arrs_upto_S, IH, (Hext T) by (intros; try apply Hext; lia). reflexivity.
Qed.

Section ChainCounters.
  Variable cbs : list cbdef.
  Variable cost_of : nat -> nat -> nat.
  Variable chain : list nat.
  Variable arr : nat -> list nat.
  Variable sigma : nat -> bool.
  Notation n := (length cbs).
  Notation next := (next_of chain).
  Notation a' := (arr' cbs cost_of next arr sigma).
  Notation cst := (cst cbs cost_of next arr sigma).
  Notation crel := (crel cbs cost_of next arr sigma).
  Notation pst := (st cbs cost_of a' sigma).
  Notation done' := (done cbs cost_of a' sigma).
  Notation srv' := (srv cbs cost_of a' sigma).
  Notation narr' := (narr a').
  Notation c_ l := (nth l chain 0).

  Hypothesis Hnd : NoDup chain.
  Hypothesis Hlt : forall c, In c chain -> c < n.
  (* the callbacks of the chain other than the first are only released through the chain *)
  Hypothesis Hext : forall l t, S l < length chain -> count_occ Nat.eq_dec (arr t) (c_ (S l)) = 0.

  Lemma c_lt : forall l, l < length chain -> c_ l < n.
  Proof. intros l Hl. apply Hlt. apply nth_In. exact Hl. Qed.

  Lemma count_arr' : forall t c, count_occ Nat.eq_dec (a' t) c = count_occ Nat.eq_dec (crel t) c + count_occ Nat.eq_dec (arr t) c.
  Proof. intros t c. unfold arr'. apply count_occ_app. Qed.

  (* a callback without predecessor has its external arrivals only *)
  Lemma count_nopred : forall c t, (forall c0, next c0 <> Some c) ->
    count_occ Nat.eq_dec (a' t) c = count_occ Nat.eq_dec (arr t) c.
  Proof.
    intros c t Hp. unfold arr', ChainBridge.crel. rewrite count_occ_app, (rel_of_count0 next t c _ Hp). reflexivity.
  Qed.

  Lemma arrs_nopred : forall c T, (forall c0, next c0 <> Some c) -> arrs_upto a' c T = arrs_upto arr c T.
  Proof. intros c T Hp. apply arrs_upto_cb_ext. intros u _. apply count_nopred. exact Hp. Qed.

  (* the releases of c_{l+1} in slot S t are the completions of c_l in slot t *)
  Lemma count_succ : forall l t, S l < length chain ->
    count_occ Nat.eq_dec (a' (S t)) (c_ (S l)) = done' (c_ l) (S t) - done' (c_ l) t.
  Proof.
    intros l t Hl. rewrite count_arr', (Hext l (S t) Hl), Nat.add_0_r.
    destruct (sim_step_all cbs cost_of next arr sigma t) as (new & _ & Ef & Hnew & ->).
    rewrite (rel_of_count next (S t) (c_ l) (c_ (S l))).
    - assert (Hcl : c_ l < n) by (apply c_lt; lia).
      destruct (fin_inv cbs cost_of a' sigma (S t) (c_ l) Hcl) as (E1 & _).
      destruct (fin_inv cbs cost_of a' sigma t (c_ l) Hcl) as (E2 & _).
      rewrite <- E1, <- E2. unfold fin_of. rewrite Ef, filter_app, app_length. lia.
    - intros e He. apply in_map_iff in He. destruct He as (e4 & <- & He4). apply Hnew. exact He4.
    - apply next_of_pred; assumption.
  Qed.

  Lemma done_0 : forall c, c < n -> done' c 0 = 0.
  Proof. intros c Hc. pose proof (done_le_srv cbs cost_of a' sigma c 0). pose proof (srv_0 cbs cost_of a' sigma c Hc). lia. Qed.

  (* the instances of c_{l+1} released up to time T are the instances of c_l completed by T *)
  Theorem narr_succ : forall l T, S l < length chain -> narr' (c_ (S l)) (S T) = done' (c_ l) T.
  Proof.
    intros l T Hl. assert (Hcl : c_ l < n) by (apply c_lt; lia). induction T as [|T IH].
    - rewrite narr_S. unfold narr, arrs_upto. cbn [seq flat_map length].
      rewrite count_arr', crel_0, (Hext l 0 Hl), (done_0 _ Hcl). reflexivity.
    - rewrite narr_S, IH, (count_succ l T Hl). pose proof (done_mono cbs cost_of a' sigma (c_ l) T (S T) Hcl ltac:(lia)). lia.
  Qed.

  Lemma narr_chain_le : forall l T, S l < length chain -> narr' (c_ (S l)) T <= narr' (c_ l) T.
  Proof.
    intros l T Hl. assert (Hcl : c_ l < n) by (apply c_lt; lia).
    pose proof (narr_mono a' (c_ (S l)) T (S T) ltac:(lia)). rewrite (narr_succ l T Hl) in H.
    pose proof (done_le_srv cbs cost_of a' sigma (c_ l) T). pose proof (srv_le_narr cbs cost_of a' sigma (c_ l) T Hcl). lia.
  Qed.

  Lemma narr_chain_first : forall l T, l < length chain -> narr' (c_ l) T <= narr arr (c_ 0) T.
  Proof.
    induction l as [|l IH]; intros T Hl.
    - unfold narr. rewrite (arrs_nopred (c_ 0) T (next_of_first chain Hnd)). lia.
    - pose proof (narr_chain_le l T Hl). pose proof (IH T ltac:(lia)). lia.
  Qed.

  (* the release time of the k-th instance of c_{l+1} is the completion time of the k-th instance of c_l *)
  Lemma arrives_succ : forall l k a, S l < length chain -> arrives a' (c_ (S l)) k a ->
    k < done' (c_ l) a /\ forall t, t < a -> done' (c_ l) t <= k.
  Proof.
    intros l k a Hl (H1 & H2). assert (Hcl : c_ l < n) by (apply c_lt; lia).
    rewrite (narr_succ l a Hl) in H2. split; [exact H2|]. intros t Ht.
    destruct a as [|a]; [lia|]. rewrite (narr_succ l a Hl) in H1.
    pose proof (done_mono cbs cost_of a' sigma (c_ l) t a Hcl ltac:(lia)). lia.
  Qed.
End ChainCounters.

Section ChainMembership.
  Variable cbs : list cbdef.
  Variable cost_of : nat -> nat -> nat.
  Variable chain : list nat.
  Variable arr : nat -> list nat.
  Variable sigma : nat -> bool.
  Variable H : nat.
  Notation n := (length cbs).
  Notation next := (next_of chain).
  Notation a' := (arr' cbs cost_of next arr sigma).
  Notation done' := (done cbs cost_of a' sigma).
  Notation narr' := (narr a').
  Notation c_ l := (nth l chain 0).
  Notation jobs := (run_jobs cbs cost_of a' H).
  Notation sched := (run_sched cbs cost_of a' sigma H).
  Notation jid' := (jid a' H).

  Hypothesis Hcost1 : forall c k, c < n -> 1 <= cost_of c k.
  Hypothesis Hnd : NoDup chain.
  Hypothesis Hlt : forall c, In c chain -> c < n.
  Hypothesis Hext : forall l t, S l < length chain -> count_occ Nat.eq_dec (arr t) (c_ (S l)) = 0.
  Hypothesis Hfin : no_arrivals_from cbs a' H.

  (* the source events: the arrivals of the first callback; the source event of an instance: its index in the
     queue order of its callback *)
  Definition run_srcs : list nat := arrs_upto arr (c_ 0) H.
  Definition run_ev (j : nat) : nat := j - joff a' H (tsk jobs j).

  Lemma run_ev_jid : forall c k, c < n -> k < narr' c H -> run_ev (jid' c k) = k.
  Proof.
    intros c k Hc Hk. unfold run_ev. rewrite (job_task cbs cost_of a' H c k Hc Hk). unfold jid. lia.
  Qed.

  Lemma run_srcs_length : length run_srcs = narr' (c_ 0) H.
  Proof. unfold run_srcs, narr. rewrite (arrs_nopred cbs cost_of chain arr sigma (c_ 0) H (next_of_first chain Hnd)). reflexivity. Qed.

  Lemma chain_le_first : forall l, l < length chain -> narr' (c_ l) H <= length run_srcs.
  Proof.
    intros l Hl. rewrite run_srcs_length.
    pose proof (narr_chain_first cbs cost_of chain arr sigma Hnd Hlt Hext l H Hl) as H1.
    unfold narr at 2. rewrite (arrs_nopred cbs cost_of chain arr sigma (c_ 0) H (next_of_first chain Hnd)). exact H1.
  Qed.

  Lemma completed_iff : forall t c k, c < n -> k < narr' c H ->
    (cost jobs (jid' c k) <= service sched (jid' c k) t <-> k < done' c t).
  Proof.
    intros t c k Hc Hk. rewrite (job_cost cbs cost_of a' H c k Hc Hk).
    pose proof (service_lt_cost_iff cbs cost_of a' sigma H Hcost1 Hfin t c k Hc Hk). lia.
  Qed.

  Theorem run_chain_jobs : chain_jobs jobs sched chain run_srcs run_ev.
  Proof.
    split; [|split; [|split]].
    - intros j Hj Hon. destruct (jobs_decode cbs cost_of a' H j Hj) as (c & k & Hc & Hk & ->).
      rewrite (job_task cbs cost_of a' H c k Hc Hk) in Hon. rewrite (run_ev_jid c k Hc Hk).
      destruct (on_chain_nth chain c Hon) as (l & Hl & ->). pose proof (chain_le_first l Hl). lia.
    - intros j j' Hj Hj' _ Ht He.
      destruct (jobs_decode cbs cost_of a' H j Hj) as (c & k & Hc & Hk & ->).
      destruct (jobs_decode cbs cost_of a' H j' Hj') as (c' & k' & Hc' & Hk' & ->).
      rewrite (job_task cbs cost_of a' H c k Hc Hk), (job_task cbs cost_of a' H c' k' Hc' Hk') in Ht. subst c'.
      rewrite (run_ev_jid c k Hc Hk), (run_ev_jid c k' Hc Hk') in He. subst k'. reflexivity.
    - intros j Hj Ht. destruct (jobs_decode cbs cost_of a' H j Hj) as (c & k & Hc & Hk & ->).
      rewrite (job_task cbs cost_of a' H c k Hc Hk) in Ht. subst c.
      rewrite (job_arr cbs cost_of a' H _ k Hc Hk). unfold src_of. rewrite (run_ev_jid _ k Hc Hk).
      unfold aof, run_srcs. rewrite (arrs_nopred cbs cost_of chain arr sigma (c_ 0) H (next_of_first chain Hnd)). reflexivity.
    - intros l j Hl Hj Ht. destruct (jobs_decode cbs cost_of a' H j Hj) as (c & k & Hc & Hk & ->).
      rewrite (job_task cbs cost_of a' H c k Hc Hk) in Ht. subst c.
      assert (Hcl : c_ l < n) by (apply Hlt; apply nth_In; lia).
      assert (Hkl : k < narr' (c_ l) H).
      { pose proof (narr_chain_le cbs cost_of chain arr sigma Hnd Hlt Hext l H Hl). lia. }
      exists (jid' (c_ l) k). split; [apply jid_lt; assumption|]. split; [apply job_task; assumption|].
      split; [rewrite (run_ev_jid _ k Hcl Hkl), (run_ev_jid _ k Hc Hk); reflexivity|].
      unfold released_on_completion. rewrite (job_arr cbs cost_of a' H _ k Hc Hk).
      destruct (arrives_succ cbs cost_of chain arr sigma Hnd Hlt Hext l k _ Hl (aof_arrives a' H _ k Hk)) as (H1 & H2).
      split.
      + apply completed_iff; assumption.
      + intros t Ht. specialize (H2 t Ht).
        pose proof (completed_iff t (c_ l) k Hcl Hkl). lia.
  Qed.

  Hypothesis Hne : 0 < length chain.

  Theorem run_chain_jobs_complete : chain_jobs_complete jobs sched chain run_srcs run_ev.
  Proof.
    split.
    - intros e He. assert (Hc0 : c_ 0 < n) by (apply Hlt; apply nth_In; exact Hne).
      rewrite run_srcs_length in He.
      exists (jid' (c_ 0) e). split; [apply jid_lt; assumption|]. split; [apply job_task; assumption|].
      apply run_ev_jid; assumption.
    - intros l j Hl Hj Ht (t & Hdone). destruct (jobs_decode cbs cost_of a' H j Hj) as (c & k & Hc & Hk & ->).
      rewrite (job_task cbs cost_of a' H c k Hc Hk) in Ht. subst c.
      apply completed_iff in Hdone; try assumption.
      assert (Hc' : c_ (S l) < n) by (apply Hlt; apply nth_In; lia).
      assert (Hk' : k < narr' (c_ (S l)) H).
      { pose proof (narr_succ cbs cost_of chain arr sigma Hnd Hlt Hext l t Hl).
        pose proof (narr_le_H cbs a' H Hfin (S t) _ Hc'). lia. }
      exists (jid' (c_ (S l)) k). split; [apply jid_lt; assumption|]. split; [apply job_task; assumption|].
      rewrite (run_ev_jid _ k Hc' Hk'), (run_ev_jid _ k Hc Hk). reflexivity.
  Qed.
End ChainMembership.
Print Assumptions run_chain_jobs.
Print Assumptions run_chain_jobs_complete.

(* ------------------------------------------------------------------------------------------ *)
(* Part 5: the chain theorem for the operational executor                                      *)
(* ------------------------------------------------------------------------------------------ *)
(* external arrivals: the first callback of the chain (the source events) and the callbacks outside the chain comply
   with the arrival bounds of their tasks; the other callbacks of the chain are only released through the chain *)
Definition chain_arrivals_ok (tasks : list task) (chain : list nat) (arr : nat -> list nat) : Prop :=
  (forall c, c < length tasks -> c = nth 0 chain 0 \/ on_chain chain c = false ->
     exists es, admissible (fst (nth c tasks (Never, 0%N))) es /\
       forall t, count_occ Nat.eq_dec (arr t) c = count_occ Nat.eq_dec es t) /\
  (forall l t, S l < length chain -> count_occ Nat.eq_dec (arr t) (nth (S l) chain 0) = 0).

(* what the corollary concludes about the last callback i of the chain: no completed instance took longer than R
   from the ARRIVAL OF ITS SOURCE EVENT; for every source event whose bound expires within the horizon the instance
   of i has completed: the instance for the k-th source event is the k-th entry of callback i *)
Definition chain_executor_meets_bound (cbs : list cbdef) (cost_of : nat -> nat -> nat) (chain : list nat)
    (arr : nat -> list nat) (sigma : nat -> bool) (i R : nat) : Prop :=
  forall H,
    (forall r f src, In (i, r, f, src) (cfinished (crun cbs cost_of (next_of chain) H arr sigma)) -> f <= src + R) /\
    (forall k a, arrives arr (nth 0 chain 0) k a -> a + R <= H ->
       exists r f, nth_error (fin_c (crun cbs cost_of (next_of chain) H arr sigma) i) k = Some (i, r, f, a) /\ f <= a + R) /\
    (forall a, In (nth 0 chain 0) (arr a) -> a + R <= H ->
       exists r f, In (i, r, f, a) (cfinished (crun cbs cost_of (next_of chain) H arr sigma)) /\ f <= a + R).

Lemma count_le_length : forall es t d, count es t d <= length es.
Proof.
  intros es t d. unfold count. induction es as [|x es IH]; [reflexivity|]. cbn [filter length].
  destruct (in_window t d x); cbn [length]; lia.
Qed.

Lemma narr_le_es : forall arr c es, (forall u, count_occ Nat.eq_dec (arr u) c = count_occ Nat.eq_dec es u) ->
  forall t, narr arr c t <= length es.
Proof.
  intros arr c es Hes t. pose proof (narr_count arr c es Hes 0 t) as E. cbn [Nat.add] in E.
  pose proof (count_le_length es 0 t). assert (narr arr c 0 = 0) by reflexivity. lia.
Qed.

Section ChainCore.
  Variable tasks : list task.
  Variable cbs : list cbdef.
  Variable cost_of : nat -> nat -> nat.
  Variable chain : list nat.
  Variable arr : nat -> list nat.
  Variable sigma : nat -> bool.
  Notation n := (length cbs).
  Notation next := (next_of chain).
  Notation a' := (arr' cbs cost_of next arr sigma).
  Notation cst := (cst cbs cost_of next arr sigma).
  Notation pst := (st cbs cost_of a' sigma).
  Notation done' := (done cbs cost_of a' sigma).
  Notation narr' := (narr a').
  Notation c_ l := (nth l chain 0).

  Hypothesis Hlen : length cbs = length tasks.
  Hypothesis Hnd : NoDup chain.
  Hypothesis Hne : 0 < length chain.
  Hypothesis Hch : forall c, In c chain -> c < length tasks.
  Hypothesis Harr : chain_arrivals_ok tasks chain arr.
  Hypothesis Hcost : costs_ok_t tasks cost_of.

  Lemma cc_lt : forall c, In c chain -> c < n.
  Proof. intros c Hc. rewrite Hlen. apply Hch. exact Hc. Qed.

  Lemma cc_ext : forall l t, S l < length chain -> count_occ Nat.eq_dec (arr t) (c_ (S l)) = 0.
  Proof. apply Harr. Qed.

  Lemma cc_cost1 : forall c k, c < n -> 1 <= cost_of c k.
  Proof. intros c k Hc. rewrite Hlen in Hc. apply (Hcost c k Hc). Qed.

  (* ---- the run has a last release (classically) ---- *)
  Lemma narr_bounded : forall c, c < n -> exists B, forall t, narr' c t <= B.
  Proof.
    intros c Hc. destruct Harr as (Hes & _). destruct (on_chain chain c) eqn:Hon.
    - destruct (on_chain_nth chain c Hon) as (l & Hl & ->).
      destruct (Hes (c_ 0) ltac:(apply Hch; apply nth_In; exact Hne) (or_introl eq_refl)) as (es & _ & Hcnt).
      exists (length es). intros t.
      pose proof (narr_chain_first cbs cost_of chain arr sigma Hnd cc_lt cc_ext l t Hl).
      pose proof (narr_le_es arr (c_ 0) es Hcnt t). lia.
    - destruct (Hes c ltac:(rewrite <- Hlen; exact Hc) (or_intror Hon)) as (es & _ & Hcnt).
      exists (length es). intros t. unfold narr.
      rewrite (arrs_nopred cbs cost_of chain arr sigma c t (next_of_off chain c Hon)).
      apply (narr_le_es arr c es Hcnt t).
  Qed.

  Lemma horizon_nn : ~ ~ exists H, no_arrivals_from cbs a' H.
  Proof.
    assert (Hgen : forall m, m <= n -> ~ ~ exists H, forall t c, H <= t -> c < m -> count_occ Nat.eq_dec (a' t) c = 0).
    { induction m as [|m IH]; intros Hm Hno; [apply Hno; exists 0; intros; lia|].
      apply (IH ltac:(lia)). intros (H1 & HH1).
      destruct (narr_bounded m ltac:(lia)) as (B & HB).
      apply (bounded_mono_stab B (narr' m) (narr_mono a' m) HB). intros (H2 & HH2).
      apply Hno. exists (Nat.max H1 H2). intros t c Ht Hc.
      destruct (Nat.eq_dec c m) as [->|Hne']; [|apply HH1; lia].
      pose proof (narr_S a' m t) as E. rewrite (HH2 t ltac:(lia)), (HH2 (S t) ltac:(lia)) in E. lia. }
    intros Hno. apply (Hgen n (le_n _)). intros (H & HH). apply Hno. exists H. intros t c Ht Hc. apply HH; assumption.
  Qed.

  (* ---- membership: the class hypotheses of [chain_sound] that are not in ExecutorBridge.v ---- *)
  Lemma cc_sources : forall H, no_arrivals_from cbs a' H ->
    exists es, Permutation es (run_srcs chain arr H) /\ admissible (fst (nth (c_ 0) tasks (Never, 0%N))) es.
  Proof.
    intros H Hfin. destruct Harr as (Hes & _).
    assert (Hc0 : c_ 0 < length tasks) by (apply Hch; apply nth_In; exact Hne).
    destruct (Hes (c_ 0) Hc0 (or_introl eq_refl)) as (es & Hadm & Hcnt). exists es. split; [|exact Hadm].
    apply (Permutation_count_occ Nat.eq_dec). intros x. unfold run_srcs. rewrite count_occ_arrs_upto, <- Hcnt.
    destruct (Nat.ltb_spec x H) as [_|Hge]; [reflexivity|].
    rewrite <- (count_nopred cbs cost_of chain arr sigma (c_ 0) x (next_of_first chain Hnd)).
    apply Hfin; [exact Hge|rewrite Hlen; exact Hc0].
  Qed.

  Lemma cc_curves_off : forall H, no_arrivals_from cbs a' H -> respects_curves_off tasks chain (run_jobs cbs cost_of a' H).
  Proof.
    intros H Hfin c Hc Hoff. destruct Harr as (Hes & _). destruct (Hes c Hc (or_intror Hoff)) as (es & Hadm & Hcnt).
    exists es. split; [|exact Hadm].
    rewrite arrivals_of_run_jobs by (rewrite Hlen; exact Hc).
    rewrite (arrs_nopred cbs cost_of chain arr sigma c H (next_of_off chain c Hoff)).
    apply (Permutation_count_occ Nat.eq_dec). intros x. rewrite count_occ_arrs_upto, <- Hcnt.
    destruct (Nat.ltb_spec x H) as [_|Hge]; [reflexivity|].
    rewrite <- (count_nopred cbs cost_of chain arr sigma c x (next_of_off chain c Hoff)).
    apply Hfin; [exact Hge|rewrite Hlen; exact Hc].
  Qed.

  (* ---- from the abstract class back to the executor's counters ---- *)
  Lemma chain_core_done : forall l R, l < length chain ->
    (forall H, no_arrivals_from cbs a' H -> forall e, e < length (run_srcs chain arr H) ->
       exists j, j < length (run_jobs cbs cost_of a' H) /\ tsk (run_jobs cbs cost_of a' H) j = c_ l /\
         run_ev cbs cost_of chain arr sigma H j = e /\
         cost (run_jobs cbs cost_of a' H) j <=
           service (run_sched cbs cost_of a' sigma H) j (nth e (run_srcs chain arr H) 0 + R)) ->
    forall k a, arrives arr (c_ 0) k a -> k < done' (c_ l) (a + R).
  Proof.
    intros l R Hl Hcw k a Ha.
    destruct (Nat.lt_ge_cases k (done' (c_ l) (a + R))) as [Hlt|Hge]; [exact Hlt|exfalso].
    apply horizon_nn. intros (H0 & Hfin0).
    set (H := Nat.max H0 (S a)).
    assert (Hfin : no_arrivals_from cbs a' H) by (apply (no_arrivals_mono cbs a' H0 H Hfin0); unfold H; lia).
    assert (He : k < length (run_srcs chain arr H)).
    { unfold run_srcs. fold (narr arr (c_ 0) H). destruct Ha as (_ & Ha).
      pose proof (narr_mono arr (c_ 0) (S a) H ltac:(unfold H; lia)). lia. }
    destruct (Hcw H Hfin k He) as (j & Hj & Htj & Hej & Hdone).
    destruct (jobs_decode cbs cost_of a' H j Hj) as (c & k' & Hc & Hk' & ->).
    rewrite (job_task cbs cost_of a' H c k' Hc Hk') in Htj. subst c.
    rewrite (run_ev_jid cbs cost_of chain arr sigma H _ k' Hc Hk') in Hej. subst k'.
    assert (Ea : nth k (run_srcs chain arr H) 0 = a) by (apply arrives_nth; [exact Ha|unfold H; lia]).
    rewrite Ea in Hdone.
    apply (completed_iff cbs cost_of chain arr sigma H cc_cost1 Hfin (a + R) _ k Hc Hk') in Hdone. lia.
  Qed.

  (* ---- the source arrival recorded in a completed instance ---- *)
  Lemma snd_rs4 : forall l, map snd (map rs4 l) = map src4 l.
  Proof. intros l. rewrite map_map. reflexivity. Qed.

  Lemma src_index : forall l, l < length chain -> forall T k e,
    nth_error (fin_c (cst T) (c_ l)) k = Some e -> nth_error (arrs_upto arr (c_ 0) T) k = Some (src4 e).
  Proof.
    induction l as [|l IH]; intros Hl T k e E.
    - rewrite <- (hist_src_first cbs cost_of next arr sigma (c_ 0) (cc_lt _ (nth_In _ _ Hl)) (next_of_first chain Hnd) T).
      unfold hist. rewrite map_app, snd_rs4. apply nth_error_app_Some. apply map_nth_error. exact E.
    - assert (E' : nth_error (map snd (hist (cst T) (c_ (S l)))) k = Some (src4 e)).
      { unfold hist. rewrite map_app, snd_rs4. apply nth_error_app_Some. apply map_nth_error. exact E. }
      rewrite (hist_src_succ cbs cost_of next arr sigma (c_ l) (c_ (S l)) (cc_lt _ (nth_In _ _ Hl))
                 (next_of_pred chain l Hnd Hl) (fun t => cc_ext l t Hl) T) in E'.
      destruct (nth_error_map_Some _ _ _ _ E') as (e' & E1 & E2). rewrite <- E2. apply (IH ltac:(lia) T k e' E1).
  Qed.

  Lemma src_inv : forall l, l < length chain -> forall T k e,
    nth_error (fin_c (cst T) (c_ l)) k = Some e -> arrives arr (c_ 0) k (src4 e).
  Proof.
    intros l Hl T k e E. pose proof (src_index l Hl T k e E) as E'.
    assert (Hk : k < narr arr (c_ 0) T) by (apply nth_error_Some; rewrite E'; discriminate).
    rewrite <- (nth_error_nth _ _ 0 E'). apply nth_arrives. exact Hk.
  Qed.

  Lemma fin_of_erase : forall c T, fin_of cbs cost_of a' sigma c T = map erase_fin (fin_c (cst T) c).
  Proof.
    intros c T. unfold fin_of, fin_c. rewrite <- (sim_fin _ _ _ _ _ T (sim_all cbs cost_of next arr sigma T)), filter_map_comm.
    f_equal. apply filter_ext. intros [[[c4 r4] f4] s4]. reflexivity.
  Qed.

  Lemma meets_of_done : forall l R, l < length chain ->
    (forall k a, arrives arr (c_ 0) k a -> k < done' (c_ l) (a + R)) ->
    chain_executor_meets_bound cbs cost_of chain arr sigma (c_ l) R.
  Proof.
    intros l R Hl Hd H. assert (Hcl : c_ l < n) by (apply cc_lt; apply nth_In; exact Hl).
    change (crun cbs cost_of next H arr sigma) with (cst H).
    assert (H2 : forall k a, arrives arr (c_ 0) k a -> a + R <= H ->
              exists r f, nth_error (fin_c (cst H) (c_ l)) k = Some (c_ l, r, f, a) /\ f <= a + R).
    { intros k a Ha Hle. pose proof (Hd k a Ha) as Hk.
      assert (Hkn : k < narr' (c_ l) (a + R)).
      { pose proof (done_le_srv cbs cost_of a' sigma (c_ l) (a + R)).
        pose proof (srv_le_narr cbs cost_of a' sigma (c_ l) (a + R) Hcl). lia. }
      destruct (completed_entry cbs cost_of a' sigma (c_ l) k _ (a + R) H Hcl (nth_arrives a' (c_ l) (a + R) k Hkn) Hk Hle)
        as (f & E & Hf).
      rewrite fin_of_erase in E. destruct (nth_error_map_Some _ _ _ _ E) as ([[[c4 r4] f4] s4] & E1 & E2).
      cbn [erase_fin] in E2. injection E2 as -> -> ->.
      pose proof (src_inv l Hl H k _ E1) as Hs. cbn [src4 snd] in Hs.
      rewrite (arrives_fun arr (c_ 0) k s4 a Hs Ha) in E1. eexists _, f. split; [exact E1|exact Hf]. }
    split; [|split; [exact H2|]].
    - intros r f src Hin.
      assert (Hin' : In (c_ l, r, f, src) (fin_c (cst H) (c_ l))).
      { unfold fin_c. apply filter_In. split; [exact Hin|]. cbn [cb4 fst]. apply Nat.eqb_refl. }
      destruct (In_nth_error _ _ Hin') as (k & E).
      pose proof (src_inv l Hl H k _ E) as Hs. cbn [src4 snd] in Hs.
      destruct (Nat.le_gt_cases (src + R) H) as [Hle|Hgt].
      + destruct (H2 k src Hs Hle) as (r' & f' & E' & Hf'). rewrite E in E'. injection E' as -> ->. exact Hf'.
      + assert (Hf : snd (erase_fin (c_ l, r, f, src)) <= H).
        { apply (sim_old _ _ _ _ _ H (sim_all cbs cost_of next arr sigma H)).
          rewrite <- (sim_fin _ _ _ _ _ H (sim_all cbs cost_of next arr sigma H)). apply in_map. exact Hin. }
        cbn [erase_fin snd] in Hf. lia.
    - intros a Hin Hle. destruct (H2 _ a (in_arr_arrives arr (c_ 0) a Hin) Hle) as (r & f & E & Hf).
      exists r, f. split; [|exact Hf]. apply nth_error_In in E. unfold fin_c in E. apply filter_In in E. apply E.
  Qed.
End ChainCore.

(* The processing-chain analysis (Lemma 8) for the operational executor with chains.  chain = pre ++ [i], the
   successor function follows the chain; the callbacks of the chain may be timers or polled callbacks, so may the
   others: [chain_sound] needs no precedence hypothesis.  The source events are the external arrivals of the first
   callback, admissible for ab; the other callbacks of the chain have no external arrivals. *)
Theorem chain_sound_executor : forall dbg sb (tasks : list task) (pre : list nat) (i : nat) (ab : AB) limit R
    cbs cost_of arr sigma,
  wf_sb sb -> supply_admits sb sigma -> Forall fifo_task_ok tasks ->
  NoDup (pre ++ [i]) ->
  (forall c, In c (pre ++ [i]) -> c < length tasks /\ fst (nth c tasks (Never, 0%N)) = ab) ->
  length cbs = length tasks ->
  chain_arrivals_ok tasks (pre ++ [i]) arr -> costs_ok_t tasks cost_of ->
  e_chain dbg sb (chain_rb ab tasks i) (Agg (map (chain_rb ab tasks) pre))
    (Agg (map (chain_rb ab tasks) pre ++ [chain_rb ab tasks i]))
    (Agg (map rb_of (select_tasks (off_chain (pre ++ [i])) tasks))) limit = ROk R ->
  chain_executor_meets_bound cbs cost_of (pre ++ [i]) arr sigma i (N.to_nat R).
Proof.
  intros dbg sb tasks pre i ab limit R cbs cost_of arr sigma Hwf Hadm Hok Hnd Hch Hlen Harr Hcost He.
  set (chain := pre ++ [i]) in *.
  assert (Hne : 0 < length chain) by (unfold chain; rewrite app_length; cbn [length]; lia).
  assert (Hl : length pre < length chain) by (unfold chain; rewrite app_length; cbn [length]; lia).
  assert (Ei : i = nth (length pre) chain 0).
  { unfold chain. rewrite app_nth2, Nat.sub_diag by lia. reflexivity. }
  assert (Hch' : forall c, In c chain -> c < length tasks) by (intros c Hc; apply (Hch c Hc)).
  assert (Hlt : forall c, In c chain -> c < length cbs) by (intros c Hc; rewrite Hlen; apply (Hch' c Hc)).
  pose proof (cc_cost1 tasks cbs cost_of Hlen Hcost) as Hc1.
  assert (Hm : chain_executor_meets_bound cbs cost_of chain arr sigma (nth (length pre) chain 0) (N.to_nat R));
    [|rewrite <- Ei in Hm; exact Hm].
  apply (meets_of_done tasks cbs cost_of chain arr sigma Hlen Hnd Hne Hch' Harr (length pre) (N.to_nat R) Hl).
  apply (chain_core_done tasks cbs cost_of chain arr sigma Hlen Hnd Hne Hch' Harr Hcost (length pre) (N.to_nat R) Hl).
  intros H Hfin e Hlte. rewrite <- Ei.
  destruct (cc_sources tasks cbs cost_of chain arr sigma Hlen Hnd Hne Hch' Harr H Hfin) as (es & Hperm & Hadmis).
  rewrite (proj2 (Hch (nth 0 chain 0) (nth_In _ _ Hne))) in Hadmis.
  apply (chain_sound_total dbg sb tasks pre i ab limit R
           (run_jobs cbs cost_of (arr' cbs cost_of (next_of chain) arr sigma) H)
           (run_sched cbs cost_of (arr' cbs cost_of (next_of chain) arr sigma) sigma H) sigma
           (run_srcs chain arr H) (run_ev cbs cost_of chain arr sigma H) Hwf Hadm Hok Hnd Hch He).
  - apply run_valid; assumption.
  - apply run_uses_supply.
  - apply run_work_conserving; assumption.
  - apply run_runs_to_completion; assumption.
  - apply run_fifo_within_task; assumption.
  - exists es. split; assumption.
  - apply run_chain_jobs; try assumption. apply Harr.
  - apply run_chain_jobs_complete; try assumption. apply Harr.
  - apply (cc_curves_off tasks cbs cost_of chain arr sigma Hlen Harr H Hfin).
  - apply (core_costs tasks cbs cost_of _ Hlen Hcost H).
  - exact Hlte.
Qed.
Print Assumptions chain_sound_executor.

(* all the hypotheses of the abstract class of ChainSound.v at once, for a run with a chain that has a last release *)
Theorem chain_run_in_class : forall cbs cost_of chain arr sigma H,
  (forall c k, c < length cbs -> 1 <= cost_of c k) ->
  NoDup chain -> 0 < length chain -> (forall c, In c chain -> c < length cbs) ->
  (forall l t, S l < length chain -> count_occ Nat.eq_dec (arr t) (nth (S l) chain 0) = 0) ->
  no_arrivals_from cbs (arr' cbs cost_of (next_of chain) arr sigma) H ->
  let jobs := run_jobs cbs cost_of (arr' cbs cost_of (next_of chain) arr sigma) H in
  let sched := run_sched cbs cost_of (arr' cbs cost_of (next_of chain) arr sigma) sigma H in
  (forall T, map erase_fin (cfinished (crun cbs cost_of (next_of chain) T arr sigma)) =
             finished (run cbs cost_of T (arr' cbs cost_of (next_of chain) arr sigma) sigma)) /\
  valid jobs sched /\ uses_supply sched sigma /\ work_conserving_under jobs sched sigma /\
  runs_to_completion_under jobs sched sigma /\ fifo_within_task jobs sched /\
  chain_jobs jobs sched chain (run_srcs chain arr H) (run_ev cbs cost_of chain arr sigma H) /\
  chain_jobs_complete jobs sched chain (run_srcs chain arr H) (run_ev cbs cost_of chain arr sigma H).
Proof.
  intros cbs cost_of chain arr sigma H Hc1 Hnd Hne Hlt Hext Hfin jobs sched.
  split; [intros T; apply crun_finished|].
  split; [apply run_valid; assumption|]. split; [apply run_uses_supply|].
  split; [apply run_work_conserving; assumption|]. split; [apply run_runs_to_completion; assumption|].
  split; [apply run_fifo_within_task; assumption|].
  split; [apply run_chain_jobs; assumption|apply run_chain_jobs_complete; assumption].
Qed.
Print Assumptions chain_run_in_class.

(* ------------------------------------------------------------------------------------------ *)
(* Part 6: non-vacuity                                                                         *)
(* ------------------------------------------------------------------------------------------ *)
(* The chain system of ChainSound.v, witness 1, on the operational executor: reservation PeriodicS 2 5 with the budget
   placement [pp_sigma] (supplied slots 0, 1, 8, 9, 13, 14, ...); chain c0 (WCET 1) -> c1 (WCET 2) on a sporadic source
   (period 20), one other polled callback c2 (WCET 1) which the executor prefers (priority number 0).  The source event
   and an instance of c2 arrive at time 2.  Polling point at slot 8: c2 runs in slot 8, c0 in slot 9 (completion at 10:
   release of the instance of c1, admitted at the polling point 13), c1 in slots 13 and 14: completion at 15 = 2 + 13,
   the bound of the analysis is attained. *)
Definition cbs_ch : list cbdef := [mkCbdef false 1; mkCbdef false 2; mkCbdef false 0].
Definition arr_ch (t : nat) : list nat := if t =? 2 then [0; 2] else [].
Definition cost_ch : nat -> nat -> nat := fixed_cost [1; 2; 1].

Lemma arr_ch_ok : chain_arrivals_ok ch_tasks ([0] ++ [1]) arr_ch.
Proof.
  split.
  - intros c Hc Hcase. exists [2].
    assert (Hab : fst (nth c ch_tasks (Never, 0%N)) = Sporadic 20 0).
    { destruct c as [|[|[|c]]]; [reflexivity|reflexivity|reflexivity|cbn in Hc; lia]. }
    rewrite Hab. split; [apply adm_one|]. intros t. unfold arr_ch. rewrite single_release_ok, count_occ_one.
    destruct (t =? 2); [|reflexivity].
    destruct c as [|[|[|c]]]; [reflexivity| |reflexivity|cbn in Hc; lia].
    destruct Hcase as [E|E]; [discriminate E|discriminate E].
  - intros l t Hl. destruct l as [|l]; [|cbn in Hl; lia]. cbn [app nth]. unfold arr_ch.
    destruct (t =? 2); reflexivity.
Qed.

Lemma cost_ch_ok : costs_ok_t ch_tasks cost_ch.
Proof. intros c k Hc. destruct c as [|[|[|c]]]; [cbn; lia|cbn; lia|cbn; lia|cbn in Hc; lia]. Qed.

Theorem chain_sound_executor_nonvacuous :
  chain_executor_meets_bound cbs_ch cost_ch ([0] ++ [1]) arr_ch pp_sigma 1 13 /\
  cfinished (crun cbs_ch cost_ch (next_of ([0] ++ [1])) 15 arr_ch pp_sigma) = [(2, 2, 9, 2); (0, 2, 10, 2); (1, 10, 15, 2)] /\
  (exists r, In (1, r, 2 + 13, 2) (cfinished (crun cbs_ch cost_ch (next_of ([0] ++ [1])) 15 arr_ch pp_sigma))).
Proof.
  split; [|split; [vm_compute; reflexivity|exists 10; vm_compute; tauto]].
  refine (chain_sound_executor false pp_sb ch_tasks [0] 1 ch_ab 100%N 13%N cbs_ch cost_ch arr_ch pp_sigma
            pp_sb_wf pp_sigma_ok ch_tasks_ok _ _ eq_refl arr_ch_ok cost_ch_ok ch_analysis).
  - repeat constructor; cbn; intuition lia.
  - intros c [<-|[<-|[]]]; split; (cbn; lia) || reflexivity.
Qed.
Print Assumptions chain_sound_executor_nonvacuous.

(* ------------------------------------------------------------------------------------------ *)
(* Part 7: executable checks (the tests that preceded the proofs)                              *)
(* ------------------------------------------------------------------------------------------ *)
Section ChainCheckers.
  Variable jobs : list job.
  Variable sched : nat -> option nat.
  Variable chain srcs : list nat.
  Variable ev : nat -> nat.
  Variable T : nat.
  Notation nj := (length jobs).
  Notation allj := (all_j jobs).
  Definition onb (k : nat) : bool := on_chain chain (tskb jobs k).
  Definition cj1 : bool := allj (fun k => negb (onb k) || (ev k <? length srcs)).
  Definition cj2 : bool :=
    allj (fun k => allj (fun k' => negb (onb k && (tskb jobs k =? tskb jobs k') && (ev k =? ev k')) || (k =? k'))).
  Definition cj3 : bool :=
    allj (fun k => negb (tskb jobs k =? nth 0 chain 0) || (Sched.arr jobs k =? nth (ev k) srcs 0)).
  Definition rocb (p k : nat) : bool :=
    (Sched.cost jobs p <=? service sched p (Sched.arr jobs k)) &&
    forallb (fun t => service sched p t <? Sched.cost jobs p) (seq 0 (Sched.arr jobs k)).
  Definition cj4 : bool :=
    forallb (fun l => allj (fun k => negb (tskb jobs k =? nth (S l) chain 0) ||
       existsb (fun p => (tskb jobs p =? nth l chain 0) && (ev p =? ev k) && rocb p k) (seq 0 nj)))
      (seq 0 (length chain - 1)).
  Definition cc1 : bool :=
    forallb (fun e => existsb (fun k => (tskb jobs k =? nth 0 chain 0) && (ev k =? e)) (seq 0 nj)) (seq 0 (length srcs)).
  Definition cc2 : bool :=
    forallb (fun l => allj (fun k => negb ((tskb jobs k =? nth l chain 0) && (Sched.cost jobs k <=? service sched k T)) ||
       existsb (fun k' => (tskb jobs k' =? nth (S l) chain 0) && (ev k' =? ev k)) (seq 0 nj)))
      (seq 0 (length chain - 1)).
  Definition chain_checks : list bool := [cj1; cj2; cj3; cj4; cc1; cc2].
End ChainCheckers.

Definition e3_eqb (x y : nat * nat * nat) : bool :=
  let '(a, b, c) := x in let '(d, e, f) := y in (a =? d) && (b =? e) && (c =? f).
Fixpoint l3_eqb (l1 l2 : list (nat * nat * nat)) : bool :=
  match l1, l2 with
  | [], [] => true
  | x :: l1', y :: l2' => e3_eqb x y && l3_eqb l1' l2'
  | _, _ => false
  end.

Section Tests.
  Variable cbs : list cbdef.
  Variable cost_of : nat -> nat -> nat.
  Variable chain : list nat.
  Variable arr : nat -> list nat.
  Variable sigma : nat -> bool.
  Variable H T : nat.
  Definition test_all : list bool * list bool * bool :=
    let atab := map (arr' cbs cost_of (next_of chain) arr sigma) (seq 0 T) in
    let arrT := fun t => nth t atab [] in
    let jobs := run_jobs cbs cost_of arrT H in
    let stab := map (run_sched cbs cost_of arrT sigma H) (seq 0 T) in
    let sched := fun t => nth t stab None in
    let srcs := arrs_upto arr (nth 0 chain 0) H in
    let offs := map (joff arrT H) (seq 0 (S (length cbs))) in
    let ev := fun j => j - nth (tskb jobs j) offs 0 in
    (class_checks jobs sched sigma T (fun _ => false),
     chain_checks jobs sched chain srcs ev T,
     l3_eqb (map erase_fin (cfinished (crun cbs cost_of (next_of chain) T arr sigma)))
            (finished (run cbs cost_of T arrT sigma))).
End Tests.

(* [test_all] = (the six class hypotheses of ExecutorBridge.v; [chain_jobs] (4 clauses) and [chain_jobs_complete] (2 clauses)
   with srcs = the arrivals of the first callback and ev = the queue index; agreement of the two machines' lists of
   completed instances) *)
Definition y1_cbs := [mkCbdef false 1; mkCbdef false 2; mkCbdef false 0].
Definition y1_arr (t : nat) : list nat := if t =? 2 then [0; 2] else [].
Definition y2_cbs := [mkCbdef true 0; mkCbdef false 1; mkCbdef false 0; mkCbdef false 2].
Definition y2_arr (t : nat) : list nat := match t with 0 => [0; 3] | 3 => [0] | 4 => [3] | 7 => [0] | 8 => [0] | _ => [] end.
Definition y2_sigma (t : nat) : bool := negb (t mod 4 =? 2).
Definition y3_cbs := [mkCbdef false 1; mkCbdef false 0; mkCbdef true 0].
Definition y3_arr (t : nat) : list nat := match t with 0 => [0; 1] | 1 => [0; 2] | 2 => [1] | 5 => [0; 0] | 6 => [2] | _ => [] end.
Definition y3_sigma (t : nat) : bool := negb (t mod 3 =? 1).
(* bursts, variable costs, chain 2 -> 0 -> 3 headed by a polled callback, timer 1 outside *)
Definition y4_cbs := [mkCbdef false 2; mkCbdef true 1; mkCbdef false 0; mkCbdef false 2].
Definition y4_arr (t : nat) : list nat := match t with 0 => [2; 2; 1] | 1 => [2] | 5 => [1; 2; 2] | 6 => [1] | 11 => [2] | _ => [] end.

Example chain_checks_ok :
  test_all y1_cbs (fixed_cost [1; 2; 1]) [0; 1] y1_arr ws25 20 40 =
    ([true; true; true; true; true; true], [true; true; true; true; true; true], true) /\
  test_all y2_cbs (fixed_cost [1; 2; 1; 2]) [0; 1; 2] y2_arr y2_sigma 30 50 =
    ([true; true; true; true; true; true], [true; true; true; true; true; true], true) /\
  test_all y4_cbs (fun c k => 1 + (c + 2 * k) mod 3) [2; 0; 3] y4_arr y3_sigma 70 90 =
    ([true; true; true; true; true; true], [true; true; true; true; true; true], true).
Proof. vm_compute. repeat split. Qed.

(* OUTSIDE the hypotheses of [chain_sound_executor]: callback 1, the second callback of the chain 0 -> 1, also has
   external arrivals (slots 0 and 2).  The run is still a member of the dispatcher class (the chain instances and the
   external instances share one FIFO queue in release order) and the two machines agree, but [chain_jobs] fails: an
   externally released instance of callback 1 has no predecessor (clause 4, for every choice of ev), and the queue
   index is no longer the source event (clause 1). *)
Example chain_checks_external_arrivals :
  test_all y3_cbs (fixed_cost [1; 2; 3]) [0; 1] y3_arr y3_sigma 36 50 =
    ([true; true; true; true; true; true], [false; true; true; false; true; true], true).
Proof. vm_compute. reflexivity. Qed.
