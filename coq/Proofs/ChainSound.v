(* ChainSound.v — property C04 (processing-chain part): soundness of the ROS 2 analysis [rta_chain] (Lemma 8 of
   the ECRTS'19 paper), Model/Ros2.v, entry point [e_chain] of Model/Eval.v, for the abstract non-preemptive
   dispatcher of Spec/NonPreemptive.v running on a reservation.  Builds on Proofs/PpSound.v.

   A chain is a list of callbacks c_1 ... c_m (= pre ++ [i]) driven by one source with arrival bound ab.  Every
   source event gives rise to (at most) one instance of each callback; the instance of c_1 is released when the
   event arrives, the instance of c_{l+1} exactly when the instance of c_l for the same event completes
   ([chain_jobs]; [j_arr] = release time).  Only the source events (and the callbacks outside the chain) comply
   with arrival curves.  If the model returns [ROk R] then, for every legal placement of the budget, and every
   schedule that uses only supplied slots, is work-conserving relative to the supply, runs every instance to
   completion once started and serves the instances of one callback in RELEASE order ([fifo_within_task]: no
   further dispatcher property is needed), the instance of the last callback completes within R time units of the
   ARRIVAL OF ITS SOURCE EVENT.

   Part 1  the virtual job set [vjobs]: every chain instance is considered released when its source event
           arrives.  The schedule is still valid, work-conserving ([in_flight]: while an instance of the chain
           is incomplete some instance for the same source event is pending), run-to-completion and FIFO per
           callback w.r.t. the SOURCE arrivals ([chain_order]: by induction along the chain, every callback
           processes the source events in arrival order).  [chain_count]: the instances of a chain callback
           whose source events arrived in a window are at most as many as these source events.
   Part 2  [chain_reservation_bound]: [np_reservation_bound] (PpSound.v) applied to the virtual job set with the
           last callback as the callback under analysis and everything else as interference.
   Part 3  [chain_interference_bound]: prefix callbacks (C_l * na(d) each) plus the callbacks outside the chain.
   Part 4  [chain_analysis_facts] (from [e_chain_steps], Totality.v) and [chain_sound].
   Part 5  [chain_sound_total]: if the job set is closed under succession ([chain_jobs_complete]) then for EVERY
           source event the instance of the last callback exists and completes within R.
   Part 6  non-vacuity: PeriodicS 2 5, one source event, bound 13 attained; dedicated processor, two source
           events with release jitter, bound 7, observed 5 and 6. *)
From Coq Require Import Arith NArith List Lia Bool Permutation.
From RTA.Model Require Import Base Arrival Wcet Demand Supply FixedPoint Analyses Ros2 Eval WellFormed.
From RTA.Spec Require Import Sched Events TaskModel Reservation SupplySched NonPreemptive Exhaustive ExhaustiveRos.
From RTA.Proofs Require Import ArrivalNaProofs WcetProofs StepsProofs FixedPointProofs SupplyProofs
  ReservationProofs ExhFP ExhRos FifoSound Workload FifoEndToEnd EntryPoints EsSound DemandProofs Totality PpSound.
Import ListNotations.
Local Close Scope N_scope.
Local Open Scope nat_scope.

Local Notation tsk jobs k := (j_task (nth k jobs (mkJob 0 0 0))).

(* ------------------------------------------------------------------------------------------ *)
(* Part 0: helpers                                                                             *)
(* ------------------------------------------------------------------------------------------ *)
Lemma runs_pos_c : forall (sched : nat -> option nat) k u, 0 < runs sched k u -> sched u = Some k.
Proof.
  intros sched k u. unfold runs. destruct (sched u) as [k'|]; [|lia].
  destruct (Nat.eqb_spec k' k) as [->|]; [reflexivity|lia].
Qed.

Lemma svc_pos_ex_c : forall (sched : nat -> option nat) k t1 d,
  0 < svc sched k t1 d -> exists u, u < d /\ sched (t1 + u) = Some k.
Proof.
  intros sched k t1 d H. unfold svc in H. apply sumn_pos_ex in H. destruct H as (u & Hu & Hr).
  exists u. split; [exact Hu|apply runs_pos_c; exact Hr].
Qed.

Lemma sumn_le_one : forall m f, (forall i, i < m -> f i <= 1) ->
  (forall i j, i < m -> j < m -> 0 < f i -> 0 < f j -> i = j) -> sumn m f <= 1.
Proof.
  induction m as [|m IH]; intros f H1 Hu; [cbn; lia|]. cbn [sumn].
  destruct (Nat.eq_dec (f m) 0) as [E|E].
  - rewrite E. assert (sumn m f <= 1); [|lia]. apply IH; [intros; apply H1; lia|].
    intros i j Hi Hj. apply Hu; lia.
  - rewrite (sumn_const0 m f).
    + pose proof (H1 m ltac:(lia)). lia.
    + intros i Hi. destruct (Nat.eq_dec (f i) 0) as [|Hne]; [assumption|exfalso].
      assert (i = m) by (apply Hu; lia). lia.
Qed.

Lemma count_list_sum : forall es t d,
  count es t d = list_sum (map (fun x => if in_window t d x then 1 else 0) es).
Proof.
  intros es t d. unfold count. induction es as [|x es IH]; [reflexivity|].
  cbn [filter map list_sum fold_right]. unfold list_sum in IH. rewrite <- IH.
  destruct (in_window t d x); reflexivity.
Qed.

(* the sum over the indices that occur in a duplicate-free list *)
Lemma sumn_mem_list : forall m (l : list nat) (W : nat -> nat), NoDup l -> (forall c, In c l -> c < m) ->
  sumn m (fun x => if existsb (Nat.eqb x) l then W x else 0) = list_sum (map W l).
Proof.
  intros m l W. induction l as [|c l IH]; intros Hnd Hlt.
  - cbn [existsb map list_sum fold_right]. apply sumn_const0. reflexivity.
  - apply NoDup_cons_iff in Hnd. destruct Hnd as [Hnin Hnd].
    cbn [map list_sum fold_right]. unfold list_sum in IH. rewrite <- (IH Hnd) by (intros; apply Hlt; right; assumption).
    rewrite <- (sumn_pick m c (W c)) at 1 by (apply Hlt; left; reflexivity).
    rewrite <- sumn_add. apply sumn_ext. intros x Hx. cbn [existsb].
    destruct (Nat.eqb_spec c x) as [->|Hne].
    + rewrite Nat.eqb_refl. cbn [orb].
      destruct (existsb (Nat.eqb x) l) eqn:E; [|lia]. exfalso. apply Hnin.
      apply existsb_exists in E. destruct E as (y & Hy & Hxy). apply Nat.eqb_eq in Hxy. subst y. exact Hy.
    + destruct (Nat.eqb_spec x c) as [->|_]; [contradiction|]. cbn [orb]. lia.
Qed.

(* ------------------------------------------------------------------------------------------ *)
(* Part 1: processing chains at the level of jobs and schedules                                *)
(* ------------------------------------------------------------------------------------------ *)
Section ChainSemantics.
  Variable jobs : list job.
  Variable sched : nat -> option nat.
  (* the callbacks c_1 ... c_m of the chain (task indices), the arrival times of the source events of the
     chain, and the source event (index into srcs) each instance of a chain callback stems from *)
  Variable chain : list nat.
  Variable srcs : list nat.
  Variable ev : nat -> nat.
  Notation n := (length jobs).
  Notation arr := (arr jobs).
  Notation cost := (cost jobs).
  Notation service := (service sched).
  Notation pending := (pending jobs sched).

  Definition on_chain (c : nat) : bool := existsb (Nat.eqb c) chain.
  (* the arrival time of the source event of instance k *)
  Definition src_of (k : nat) : nat := nth (ev k) srcs 0.

  (* instance k is released exactly when instance p completes *)
  Definition released_on_completion (p k : nat) : Prop :=
    cost p <= service p (arr k) /\ forall t, t < arr k -> service p t < cost p.

  (* the instances of the chain callbacks:
     - every instance of a chain callback stems from a source event, and a source event gives rise to at most
       one instance of each callback of the chain (an instance whose predecessor never completes does not exist);
     - the instance of the first callback is released when the source event arrives;
     - the instance of callback c_{l+1} has a predecessor, the instance of c_l for the same source event, and is
       released exactly when this predecessor completes ([j_arr] is the RELEASE time, as everywhere). *)
  Definition chain_jobs : Prop :=
    (forall k, k < n -> on_chain (tsk jobs k) = true -> ev k < length srcs) /\
    (forall k k', k < n -> k' < n -> on_chain (tsk jobs k) = true -> tsk jobs k = tsk jobs k' -> ev k = ev k' -> k = k') /\
    (forall k, k < n -> tsk jobs k = nth 0 chain 0 -> arr k = src_of k) /\
    (forall l k, S l < length chain -> k < n -> tsk jobs k = nth (S l) chain 0 ->
       exists p, p < n /\ tsk jobs p = nth l chain 0 /\ ev p = ev k /\ released_on_completion p k).

  (* the "virtual" job set: every chain instance is considered released when its source event arrives *)
  Definition earr (k : nat) : nat := if on_chain (tsk jobs k) then src_of k else arr k.
  Definition vjobs : list job := map (fun k => mkJob (tsk jobs k) (earr k) (cost k)) (seq 0 n).

  Lemma vjobs_length : length vjobs = n.
  Proof. unfold vjobs. rewrite map_length, seq_length. reflexivity. Qed.

  Lemma vjobs_nth k : k < n -> nth k vjobs (mkJob 0 0 0) = mkJob (tsk jobs k) (earr k) (cost k).
  Proof.
    intros Hk. unfold vjobs. set (f := fun k => mkJob (tsk jobs k) (earr k) (cost k)).
    rewrite (nth_indep (map f (seq 0 n)) (mkJob 0 0 0) (f 0)) by (rewrite map_length, seq_length; exact Hk).
    rewrite (map_nth f), seq_nth by exact Hk. reflexivity.
  Qed.

  Lemma vjobs_tsk k : tsk vjobs k = tsk jobs k.
  Proof.
    destruct (Nat.lt_ge_cases k n) as [Hk|Hk]; [rewrite (vjobs_nth k Hk); reflexivity|].
    rewrite (nth_overflow vjobs) by (rewrite vjobs_length; exact Hk).
    rewrite (nth_overflow jobs) by exact Hk. reflexivity.
  Qed.

  Lemma vjobs_cost k : Sched.cost vjobs k = cost k.
  Proof.
    unfold Sched.cost. destruct (Nat.lt_ge_cases k n) as [Hk|Hk]; [rewrite (vjobs_nth k Hk); reflexivity|].
    rewrite (nth_overflow vjobs) by (rewrite vjobs_length; exact Hk).
    rewrite (nth_overflow jobs) by exact Hk. reflexivity.
  Qed.

  Lemma vjobs_arr k : k < n -> Sched.arr vjobs k = earr k.
  Proof. intros Hk. unfold Sched.arr. rewrite (vjobs_nth k Hk). reflexivity. Qed.

  Hypothesis Hvalid : valid jobs sched.
  Hypothesis Hfifo : fifo_within_task jobs sched.
  Hypothesis Hchain : chain_jobs.
  Hypothesis Hnd : NoDup chain.
  Hypothesis Hcpos : forall k, k < n -> 1 <= cost k.

  Lemma on_chain_pos c : on_chain c = true -> exists l, l < length chain /\ nth l chain 0 = c.
  Proof.
    unfold on_chain. intros H. apply existsb_exists in H. destruct H as (y & Hy & E).
    apply Nat.eqb_eq in E. subst y. apply In_nth. exact Hy.
  Qed.

  Lemma on_chain_nth l : l < length chain -> on_chain (nth l chain 0) = true.
  Proof.
    intros Hl. unfold on_chain. apply existsb_exists. exists (nth l chain 0).
    split; [apply nth_In; exact Hl|apply Nat.eqb_refl].
  Qed.

  (* the predecessor runs in the slot before the release of its successor *)
  Lemma roc_last_slot p k : p < n -> released_on_completion p k ->
    exists u, arr k = S u /\ sched u = Some p /\ arr p <= u.
  Proof.
    intros Hp [H1 H2]. pose proof (Hcpos p Hp) as Hc.
    destruct (arr k) as [|u] eqn:E.
    - exfalso. unfold Sched.service, svc in H1. cbn [sumn] in H1. lia.
    - exists u. split; [reflexivity|]. specialize (H2 u ltac:(lia)).
      rewrite service_S in H1.
      assert (Hr : sched u = Some p) by (apply runs_pos_c; lia).
      split; [exact Hr|]. destruct (Hvalid _ _ Hr) as (_ & Ha & _). exact Ha.
  Qed.

  Lemma src_of_eq p k : ev p = ev k -> src_of p = src_of k.
  Proof. intros E. unfold src_of. rewrite E. reflexivity. Qed.

  (* an instance is released at or after the arrival of its source event *)
  Lemma src_le_arr : forall l, l < length chain -> forall k, k < n -> tsk jobs k = nth l chain 0 -> src_of k <= arr k.
  Proof.
    destruct Hchain as (_ & _ & Hfirst & Hnext).
    induction l as [|l IH]; intros Hl k Hk Htk.
    - rewrite (Hfirst k Hk Htk). lia.
    - destruct (Hnext l k Hl Hk Htk) as (p & Hp & Htp & Hev & Hroc).
      destruct (roc_last_slot p k Hp Hroc) as (u & Hu & _ & Ha).
      pose proof (IH ltac:(lia) p Hp Htp). rewrite <- (src_of_eq p k Hev). lia.
  Qed.

  (* while an instance of the chain is incomplete, some instance for the same source event is pending *)
  Lemma in_flight : forall l, l < length chain -> forall k, k < n -> tsk jobs k = nth l chain 0 ->
    forall t, src_of k <= t -> service k t < cost k -> exists k', pending k' t.
  Proof.
    destruct Hchain as (_ & _ & Hfirst & Hnext).
    induction l as [|l IH]; intros Hl k Hk Htk t Hs Hinc.
    - exists k. split; [exact Hk|]. split; [rewrite (Hfirst k Hk Htk); exact Hs|exact Hinc].
    - destruct (Nat.le_gt_cases (arr k) t) as [Ha|Ha].
      + exists k. split; [exact Hk|]. split; [exact Ha|exact Hinc].
      + destruct (Hnext l k Hl Hk Htk) as (p & Hp & Htp & Hev & (_ & Hroc)).
        apply (IH ltac:(lia) p Hp Htp t); [rewrite (src_of_eq p k Hev); exact Hs|apply Hroc; exact Ha].
  Qed.

  (* every callback of the chain processes the source events in arrival order *)
  Lemma chain_order : forall l, l < length chain -> forall k k', k < n -> k' < n ->
    tsk jobs k = nth l chain 0 -> tsk jobs k' = nth l chain 0 -> src_of k' < src_of k ->
    forall t, sched t = Some k -> cost k' <= service k' t.
  Proof.
    destruct Hchain as (_ & _ & Hfirst & Hnext).
    induction l as [|l IH]; intros Hl k k' Hk Hk' Htk Htk' Hlt t E.
    - destruct (Nat.le_gt_cases (cost k') (service k' t)) as [|Hinc]; [assumption|exfalso].
      destruct (Hvalid _ _ E) as (_ & Ha & _).
      rewrite (Hfirst k Hk Htk) in Ha.
      assert (Hp' : pending k' t).
      { split; [exact Hk'|]. split; [rewrite (Hfirst k' Hk' Htk'); lia|exact Hinc]. }
      pose proof (Hfifo t k k' E Hp' ltac:(congruence)) as Hf.
      rewrite (Hfirst k Hk Htk), (Hfirst k' Hk' Htk') in Hf. lia.
    - destruct (Nat.le_gt_cases (cost k') (service k' t)) as [|Hinc]; [assumption|exfalso].
      destruct (Hvalid _ _ E) as (_ & Ha & _).
      destruct (Hnext l k Hl Hk Htk) as (p & Hp & Htp & Hev & Hroc).
      destruct (Hnext l k' Hl Hk' Htk') as (p' & Hp' & Htp' & Hev' & Hroc').
      destruct (roc_last_slot p k Hp Hroc) as (u & Hu & Eu & _).
      assert (Hdone : cost p' <= service p' u).
      { apply (IH ltac:(lia) p p' Hp Hp' Htp Htp'); [|exact Eu].
        rewrite (src_of_eq p k Hev), (src_of_eq p' k' Hev'). exact Hlt. }
      assert (Ha' : arr k' <= u).
      { destruct (Nat.le_gt_cases (arr k') u) as [|Hgt]; [assumption|exfalso].
        destruct Hroc' as (_ & Hroc'). specialize (Hroc' u Hgt). lia. }
      assert (Hpk' : pending k' t).
      { split; [exact Hk'|]. split; [lia|exact Hinc]. }
      pose proof (Hfifo t k k' E Hpk' ltac:(congruence)) as Hf. lia.
  Qed.

  (* ---- the schedule is a legal schedule of the virtual job set ---- *)
  Lemma earr_le_arr k : k < n -> earr k <= arr k.
  Proof.
    intros Hk. unfold earr. destruct (on_chain (tsk jobs k)) eqn:E; [|lia].
    destruct (on_chain_pos _ E) as (l & Hl & El). apply (src_le_arr l Hl k Hk). symmetry. exact El.
  Qed.

  Lemma v_valid : valid vjobs sched.
  Proof.
    intros t j E. destruct (Hvalid _ _ E) as (Hj & Ha & Hs).
    split; [rewrite vjobs_length; exact Hj|]. split; [|rewrite vjobs_cost; exact Hs].
    rewrite (vjobs_arr j Hj). pose proof (earr_le_arr j Hj). lia.
  Qed.

  Lemma v_pending_real k t : Sched.pending vjobs sched k t -> exists k', pending k' t.
  Proof.
    intros (Hk & Ha & Hs). rewrite vjobs_length in Hk. rewrite vjobs_cost in Hs.
    rewrite (vjobs_arr k Hk) in Ha. unfold earr in Ha.
    destruct (on_chain (tsk jobs k)) eqn:E.
    - destruct (on_chain_pos _ E) as (l & Hl & El).
      apply (in_flight l Hl k Hk (eq_sym El) t Ha Hs).
    - exists k. split; [exact Hk|]. split; [exact Ha|exact Hs].
  Qed.

  Lemma v_wc sigma : work_conserving_under jobs sched sigma -> work_conserving_under vjobs sched sigma.
  Proof.
    intros Hwc t k Hp Hsig. destruct (v_pending_real k t Hp) as (k' & Hp'). exact (Hwc t k' Hp' Hsig).
  Qed.

  Lemma v_rtc sigma : runs_to_completion_under jobs sched sigma -> runs_to_completion_under vjobs sched sigma.
  Proof. intros Hrtc t k H1 H2 Hsig. rewrite vjobs_cost in H2. exact (Hrtc t k H1 H2 Hsig). Qed.

  Lemma v_fifo : fifo_within_task vjobs sched.
  Proof.
    intros t k k' E (Hk' & Ha' & Hs') Ht. rewrite vjobs_length in Hk'. rewrite vjobs_cost in Hs'.
    rewrite !vjobs_tsk in Ht. destruct (Hvalid _ _ E) as (Hk & Ha & Hs).
    rewrite (vjobs_arr k Hk). rewrite (vjobs_arr k' Hk') in *. unfold earr in *. rewrite <- Ht in *.
    destruct (on_chain (tsk jobs k)) eqn:Eon.
    - destruct (on_chain_pos _ Eon) as (l & Hl & El).
      destruct (Nat.le_gt_cases (src_of k) (src_of k')) as [|Hlt]; [assumption|exfalso].
      pose proof (chain_order l Hl k k' Hk Hk' (eq_sym El) ltac:(congruence) Hlt t E). lia.
    - apply (Hfifo t k k' E); [|exact Ht]. split; [exact Hk'|]. split; [exact Ha'|exact Hs'].
  Qed.

  (* ---- counting: the instances of a chain callback whose source events arrived in a window ---- *)
  Lemma chain_count c t1 d : on_chain c = true -> countP vjobs (task_in_win vjobs c t1 d) <= count srcs t1 d.
  Proof.
    intros Hc. destruct Hchain as (Hev & Hinj & _ & _).
    unfold countP. rewrite vjobs_length. rewrite count_list_sum, <- (sumn_nth srcs 0).
    set (P := task_in_win vjobs c t1 d).
    assert (HP : forall k, k < n -> P k = true ->
              tsk jobs k = c /\ ev k < length srcs /\ in_window t1 d (nth (ev k) srcs 0) = true).
    { intros k Hk Pk. unfold P, task_in_win in Pk. rewrite vjobs_tsk, (vjobs_arr k Hk) in Pk.
      apply andb_true_iff in Pk. destruct Pk as [Pk H3]. apply andb_true_iff in Pk. destruct Pk as [H1 H2].
      apply Nat.eqb_eq in H1. unfold earr in H2, H3. rewrite H1, Hc in H2, H3.
      split; [exact H1|]. split; [apply Hev; [exact Hk|rewrite H1; exact Hc]|].
      unfold in_window, src_of in *. rewrite H2, H3. reflexivity. }
    apply Nat.le_trans with
      (sumn n (fun k => sumn (length srcs) (fun e => if ev k =? e then (if P k then 1 else 0) else 0))).
    { apply sumn_le. intros k Hk. destruct (P k) eqn:Pk; [|lia].
      destruct (HP k Hk Pk) as (_ & He & _). rewrite (sumn_pick _ _ 1 He). lia. }
    rewrite sumn_exch. apply sumn_le. intros e He.
    destruct (in_window t1 d (nth e srcs 0)) eqn:Ew.
    - apply sumn_le_one.
      + intros k _. destruct (ev k =? e); [destruct (P k)|]; lia.
      + intros k k' Hk Hk' H1 H2.
        destruct (Nat.eqb_spec (ev k) e) as [E1|]; [|lia]. destruct (Nat.eqb_spec (ev k') e) as [E2|]; [|lia].
        destruct (P k) eqn:Pk; [|lia]. destruct (P k') eqn:Pk'; [|lia].
        destruct (HP k Hk Pk) as (T1 & _ & _). destruct (HP k' Hk' Pk') as (T2 & _ & _).
        apply Hinj; [exact Hk|exact Hk'|rewrite T1; exact Hc|congruence|congruence].
    - assert (Hz : sumn n (fun k => if ev k =? e then if P k then 1 else 0 else 0) = 0); [|lia].
      apply sumn_const0. intros k Hk. destruct (Nat.eqb_spec (ev k) e) as [E1|]; [|reflexivity].
      destruct (P k) eqn:Pk; [|reflexivity]. destruct (HP k Hk Pk) as (_ & _ & Hw). rewrite E1 in Hw. congruence.
  Qed.

  (* the instances of a callback outside the chain keep their release times *)
  Lemma off_chain_win c t1 d k : on_chain c = false -> k < n ->
    task_in_win vjobs c t1 d k = task_in_win jobs c t1 d k.
  Proof.
    intros Hc Hk. unfold task_in_win. rewrite vjobs_tsk, (vjobs_arr k Hk). unfold earr.
    destruct (Nat.eqb_spec (tsk jobs k) c) as [->|]; [|reflexivity]. rewrite Hc. reflexivity.
  Qed.
End ChainSemantics.

(* ------------------------------------------------------------------------------------------ *)
(* Part 2: the schedule-level theorem                                                          *)
(* ------------------------------------------------------------------------------------------ *)
(* The busy-window argument of [np_reservation_bound] applied to the virtual job set: relative to the ARRIVALS OF
   THE SOURCE EVENTS the schedule is a legal non-preemptive, work-conserving, per-callback-FIFO schedule
   (Part 1), the instances of the last callback play the role of the callback under analysis and every other
   instance (prefix callbacks of the chain, by source-event arrival; other callbacks, by release) interferes. *)
Section ChainUnderSupply.
  Variable jobs : list job.
  Variable sched : nat -> option nat.
  Variable sigma : rsched.
  Variable chain : list nat.
  Variable srcs : list nat.
  Variable ev : nat -> nat.
  Notation n := (length jobs).
  Notation vj := (vjobs jobs chain srcs ev).

  Hypothesis Hvalid : valid jobs sched.
  Hypothesis Huses : uses_supply sched sigma.
  Hypothesis Hwc : work_conserving_under jobs sched sigma.
  Hypothesis Hrtc : runs_to_completion_under jobs sched sigma.
  Hypothesis Hfifo : fifo_within_task jobs sched.
  Hypothesis Hchain : chain_jobs jobs sched chain srcs ev.
  Hypothesis Hnd : NoDup chain.
  Hypothesis Hcpos : forall k, k < n -> 1 <= cost jobs k.

  (* the last callback of the chain *)
  Variable i : nat.
  Hypothesis Hi : on_chain chain i = true.

  Variable C : nat.
  Variables nao intf sbf : nat -> nat.
  (* the source events comply with the arrival bound of the chain *)
  Hypothesis Hsrc : forall t1 d, count srcs t1 d <= nao d.
  Hypothesis HC : forall k, k < n -> tsk jobs k = i -> cost jobs k <= C.
  (* the work of the instances other than those of the last callback whose source event arrived (chain) /
     which were released (other callbacks) in a window of length d *)
  Hypothesis Hintf : forall t1 d, workP vj (fun k => negb (tsk jobs k =? i) && in_win vj t1 d k) <= intf d.
  Hypothesis Hnao0 : nao 0 = 0.
  Hypothesis Hsbf : forall t d, sbf d <= supplied sigma t d.

  Variable maxbw : nat.
  Hypothesis Hbw : 0 < maxbw /\ C * nao maxbw + intf maxbw <= sbf maxbw.
  Variable R : nat.
  Hypothesis HR : forall A, A < maxbw -> nao A < nao (A + 1) ->
    exists r, r <= R /\ C * nao (A + 1) + intf (iin C A (Nat.max r 1)) <= sbf (A + r).

  Theorem chain_reservation_bound : forall j, j < n -> tsk jobs j = i ->
    cost jobs j <= service sched j (src_of srcs ev j + R).
  Proof.
    intros j Hj Htj.
    pose proof (np_reservation_bound vj sched sigma
                  (v_valid jobs sched chain srcs ev Hvalid Hchain Hcpos) Huses
                  (v_wc jobs sched chain srcs ev Hchain sigma Hwc)
                  (v_rtc jobs sched chain srcs ev sigma Hrtc)
                  (v_fifo jobs sched chain srcs ev Hvalid Hfifo Hchain Hcpos)
                  i (fun _ => true) ltac:(reflexivity) ltac:(intros; discriminate)
                  C 0 nao intf sbf) as H.
    rewrite vjobs_length in H.
    assert (Hgoal : cost vj j <= service sched j (arr vj j + R)).
    { apply H with (maxbw := maxbw).
      - intros t1 d. eapply Nat.le_trans; [|apply (Hsrc t1 d)].
        unfold own_in. apply (chain_count jobs sched chain srcs ev Hchain i t1 d Hi).
      - intros k Hk Ht. rewrite vjobs_cost. rewrite vjobs_tsk in Ht. apply HC; assumption.
      - intros t1 d. eapply Nat.le_trans; [|apply (Hintf t1 d)]. apply workP_mono.
        intros k _. unfold oth_in. rewrite vjobs_tsk. cbn [andb]. intros E. exact E.
      - intros; discriminate.
      - exact Hnao0.
      - exact Hsbf.
      - destruct Hbw as [H1 H2]. split; [exact H1|lia].
      - intros A HA Hstep. destruct (HR A HA Hstep) as (r & Hr & Hs). exists r. split; [exact Hr|lia].
      - exact Hj.
      - rewrite vjobs_tsk. exact Htj. }
    rewrite vjobs_cost, (vjobs_arr jobs chain srcs ev j Hj) in Hgoal. unfold earr in Hgoal.
    rewrite Htj, Hi in Hgoal. exact Hgoal.
  Qed.
End ChainUnderSupply.
Print Assumptions chain_reservation_bound.

(* ------------------------------------------------------------------------------------------ *)
(* Part 3: from the task-level model to the schedule-level hypotheses                          *)
(* ------------------------------------------------------------------------------------------ *)
Definition wcet_of (tasks : list task) (c : nat) : N := snd (nth c tasks (Never, 0%N)).
(* the request bound of a callback of the chain: the arrival bound of the chain's source, its own WCET *)
Definition chain_rb (ab : AB) (tasks : list task) (c : nat) : RB := RBF ab (Scalar (wcet_of tasks c)).
Definition off_chain (chain : list nat) (c : nat) : bool := negb (on_chain chain c).

(* the callbacks outside the chain are ordinary tasks: their releases comply with their own arrival bounds
   (the instances of the chain's callbacks do NOT: they are released on completion of their predecessors) *)
Definition respects_curves_off (tasks : list task) (chain : list nat) (jobs : list job) : Prop :=
  forall c, c < length tasks -> on_chain chain c = false ->
    exists es, Permutation es (arrivals_of jobs c) /\ admissible (fst (nth c tasks (Never, 0%N))) es.

Lemma list_sum_ofnat_sumN : forall {A} (l : list A) (f : A -> nat) (g : A -> N),
  (forall x, In x l -> (N.of_nat (f x) <= g x)%N) -> (N.of_nat (list_sum (map f l)) <= sumN (map g l))%N.
Proof.
  intros A l f g. induction l as [|x l IH]; intros H; [cbn; lia|].
  cbn [map list_sum sumN fold_right]. rewrite Nnat.Nat2N.inj_add.
  pose proof (H x (or_introl eq_refl)). pose proof (IH (fun y Hy => H y (or_intror Hy))) as IH'.
  unfold sumN, list_sum in IH'. lia.
Qed.

Lemma work_le_N : forall jobs' (P : nat -> bool) (C cnt : N),
  (forall k, k < length jobs' -> P k = true -> cost jobs' k <= N.to_nat C) ->
  (N.of_nat (countP jobs' P) <= cnt)%N -> (N.of_nat (workP jobs' P) <= C * cnt)%N.
Proof.
  intros jobs' P C cnt HC Hcnt. pose proof (workP_count jobs' P (N.to_nat C) HC) as H.
  apply N.le_trans with (N.of_nat (N.to_nat C * countP jobs' P)); [lia|].
  rewrite Nnat.Nat2N.inj_mul, Nnat.N2Nat.id. apply N.mul_le_mono_l. exact Hcnt.
Qed.

Local Open Scope N_scope.

(* the interfering workload: prefix callbacks (by source-event arrival) and callbacks outside the chain *)
Lemma chain_interference_bound : forall (tasks : list task) (pre : list nat) (i : nat) (ab : AB)
    jobs sched (srcs : list nat) (ev : nat -> nat),
  Forall fifo_task_ok tasks -> NoDup (pre ++ [i]) ->
  (forall c, In c (pre ++ [i]) -> (c < length tasks)%nat /\ fst (nth c tasks (Never, 0)) = ab) ->
  (forall t1 d, N.of_nat (count srcs t1 d) <= na ab (N.of_nat d)) ->
  chain_jobs jobs sched (pre ++ [i]) srcs ev ->
  respects_curves_off tasks (pre ++ [i]) jobs -> respects_costs tasks jobs ->
  forall t1 d : nat,
    N.of_nat (workP (vjobs jobs (pre ++ [i]) srcs ev)
                (fun k => negb (tsk jobs k =? i)%nat && in_win (vjobs jobs (pre ++ [i]) srcs ev) t1 d k))
    <= sn (Agg (map (chain_rb ab tasks) pre)) (N.of_nat d)
       + sn (Agg (map rb_of (select_tasks (off_chain (pre ++ [i])) tasks))) (N.of_nat d).
Proof.
  intros tasks pre i ab jobs sched srcs ev Hok Hnd Hch Hsrc Hcj Hoff Hcost t1 d.
  set (chain := pre ++ [i]) in *. set (vj := vjobs jobs chain srcs ev).
  assert (Hcost' : respects_costs tasks vj).
  { intros j Hin. unfold vj, vjobs in Hin. apply in_map_iff in Hin. destruct Hin as (k & <- & Hk).
    apply in_seq in Hk. cbn [j_task j_cost]. apply (Hcost (nth k jobs (mkJob 0 0 0))). apply nth_In. lia. }
  assert (Hlen : length vj = length jobs) by apply vjobs_length.
  assert (Hvc : forall k, (k < length jobs)%nat ->
            (cost vj k <= N.to_nat (wcet_of tasks (tsk jobs k)))%nat).
  { intros k Hk. unfold vj. rewrite vjobs_cost.
    destruct (Hcost _ (nth_In _ (mkJob 0 0 0) Hk)) as (_ & _ & Hle). exact Hle. }
  assert (Heq : workP vj (fun k => negb (tsk jobs k =? i)%nat && in_win vj t1 d k)
                = workP vj (fun k => (true && negb (tsk vj k =? i)%nat) && in_win vj t1 d k)).
  { unfold workP. apply sumn_ext. intros k _. unfold vj at 3. rewrite vjobs_tsk. reflexivity. }
  rewrite Heq. clear Heq.
  pose proof (class_workload_split tasks vj (fun i' => true && negb (i' =? i)%nat) t1 d Hcost') as Hs.
  cbv beta in Hs. rewrite Hs. cbn [andb]. clear Hs.
  set (W := fun i' => workP vj (task_in_win vj i' t1 d)).
  change (N.of_nat (sumn (length tasks) (fun i' => if negb (i' =? i)%nat then W i' else 0%nat)) <=
          sn (Agg (map (chain_rb ab tasks) pre)) (N.of_nat d)
          + sn (Agg (map rb_of (select_tasks (off_chain chain) tasks))) (N.of_nat d)).
  assert (Hipre : existsb (Nat.eqb i) pre = false).
  { destruct (existsb (Nat.eqb i) pre) eqn:E; [|reflexivity]. exfalso.
    apply existsb_exists in E. destruct E as (y & Hy & Eq). apply Nat.eqb_eq in Eq. subst y.
    apply (NoDup_remove_2 pre [] i Hnd). rewrite app_nil_r. exact Hy. }
  assert (Hndp : NoDup pre).
  { pose proof (NoDup_remove_1 pre [] i Hnd) as H. rewrite app_nil_r in H. exact H. }
  rewrite (sumn_ext (length tasks) _
             (fun x => ((if existsb (Nat.eqb x) pre then W x else 0) + (if off_chain chain x then W x else 0))%nat)).
  2:{ intros x _. unfold off_chain, on_chain, chain. rewrite existsb_app. cbn [existsb]. rewrite orb_false_r.
      destruct (Nat.eqb_spec x i) as [->|Hne]; cbn [negb].
      - rewrite Hipre. cbn [orb negb]. lia.
      - rewrite orb_false_r. destruct (existsb (Nat.eqb x) pre); cbn [negb]; lia. }
  rewrite sumn_add, Nnat.Nat2N.inj_add. apply N.add_le_mono.
  - (* the prefix callbacks *)
    rewrite (sumn_mem_list (length tasks) pre W Hndp).
    2:{ intros c0 Hc0. apply Hch. apply in_or_app. left. exact Hc0. }
    rewrite agg_service_needed, map_map. unfold chain_rb. cbn [sn cost_of_jobs].
    apply list_sum_ofnat_sumN. intros c0 Hc0.
    assert (Hon : on_chain chain c0 = true).
    { apply existsb_exists. exists c0. split; [apply in_or_app; left; exact Hc0|apply Nat.eqb_refl]. }
    unfold W. apply work_le_N.
    + intros k Hk Pk. rewrite Hlen in Hk. unfold task_in_win in Pk.
      apply andb_true_iff in Pk. destruct Pk as [Pk _]. apply andb_true_iff in Pk. destruct Pk as [Pk _].
      apply Nat.eqb_eq in Pk. unfold vj in Pk. rewrite vjobs_tsk in Pk. rewrite <- Pk. apply Hvc. exact Hk.
    + eapply N.le_trans; [|apply (Hsrc t1 d)].
      pose proof (chain_count jobs sched chain srcs ev Hcj c0 t1 d Hon). fold vj in H. lia.
  - (* the callbacks outside the chain *)
    rewrite sn_total. unfold total_of, select_tasks. rewrite map_map.
    apply (sumn_select_le (off_chain chain) W
             (fun k0 => snd (nth k0 tasks (Never, 0)) * na (fst (nth k0 tasks (Never, 0))) (N.of_nat d))).
    intros x Hx Hp. unfold off_chain in Hp. apply negb_true_iff in Hp.
    unfold W. apply work_le_N.
    + intros k Hk Pk. rewrite Hlen in Hk. unfold task_in_win in Pk.
      apply andb_true_iff in Pk. destruct Pk as [Pk _]. apply andb_true_iff in Pk. destruct Pk as [Pk _].
      apply Nat.eqb_eq in Pk. unfold vj in Pk. rewrite vjobs_tsk in Pk. rewrite <- Pk. apply Hvc. exact Hk.
    + destruct (Hoff x Hx Hp) as (es & Hperm & Hadm).
      assert (Hwfx : wf_ab (fst (nth x tasks (Never, 0)))) by (apply wf_nth; assumption).
      unfold countP. rewrite Hlen.
      rewrite (sumn_ext (length jobs) _ (fun k => if task_in_win jobs x t1 d k then 1%nat else 0%nat)).
      2:{ intros k Hk. unfold vj. rewrite (off_chain_win jobs chain srcs ev x t1 d k Hp Hk). reflexivity. }
      rewrite task_count_eq, <- (count_perm _ _ t1 d Hperm). apply na_bounds_admissible; assumption.
Qed.

(* ------------------------------------------------------------------------------------------ *)
(* Part 4: the processing-chain analysis (Lemma 8)                                             *)
(* ------------------------------------------------------------------------------------------ *)
(* the functions of the analysis over nat *)
Definition ch_nao (ab : AB) (d : nat) : nat := N.to_nat (na ab (N.of_nat d)).
Definition ch_intf (ab : AB) (tasks : list task) (pre : list nat) (i : nat) (d : nat) : nat :=
  N.to_nat (sn (Agg (map (chain_rb ab tasks) pre)) (N.of_nat d)
            + sn (Agg (map rb_of (select_tasks (off_chain (pre ++ [i])) tasks))) (N.of_nat d)).
Definition ch_sbf (sb : SB) (d : nat) : nat := N.to_nat (sbf sb (N.of_nat d)).

(* what a successful run of the analysis establishes: a busy-window bound and, for every step offset of the
   arrival bound below it, a solution r <= R of the offset inequality *)
Lemma chain_analysis_facts : forall dbg sb (tasks : list task) (pre : list nat) (i : nat) (ab : AB) limit R,
  wf_sb sb -> Forall fifo_task_ok tasks ->
  (forall c, In c (pre ++ [i]) -> (c < length tasks)%nat /\ fst (nth c tasks (Never, 0)) = ab) ->
  0 < na ab 1 ->
  e_chain dbg sb (chain_rb ab tasks i) (Agg (map (chain_rb ab tasks) pre))
    (Agg (map (chain_rb ab tasks) pre ++ [chain_rb ab tasks i]))
    (Agg (map rb_of (select_tasks (off_chain (pre ++ [i])) tasks))) limit = ROk R ->
  exists maxbw : nat,
    ((0 < maxbw)%nat /\
     (N.to_nat (wcet_of tasks i) * ch_nao ab maxbw + ch_intf ab tasks pre i maxbw <= ch_sbf sb maxbw)%nat) /\
    forall A : nat, (A < maxbw)%nat -> (ch_nao ab A < ch_nao ab (A + 1))%nat ->
      exists r : nat, (r <= N.to_nat R)%nat /\
        (N.to_nat (wcet_of tasks i) * ch_nao ab (A + 1)
         + ch_intf ab tasks pre i (iin (N.to_nat (wcet_of tasks i)) A (Nat.max r 1)) <= ch_sbf sb (A + r))%nat.
Proof.
  intros dbg sb tasks pre i ab limit R Hwf Hok Hch Hpos He.
  unfold ch_nao, ch_intf, ch_sbf.
  set (chain := pre ++ [i]) in *.
  assert (Hii : In i chain) by (apply in_or_app; right; left; reflexivity).
  destruct (Hch i Hii) as (Hi & Habi).
  assert (Hti : fifo_task_ok (nth i tasks (Never, 0))).
  { rewrite Forall_forall in Hok. apply Hok. apply nth_In. exact Hi. }
  destruct Hti as (Hab & Hcl & Hc1). rewrite Habi in Hab, Hcl.
  set (c := wcet_of tasks i). fold (wcet_of tasks i) in Hc1. fold c in Hc1.
  set (other := Agg (map rb_of (select_tasks (off_chain chain) tasks))) in *.
  assert (Hother : wf_rb other).
  { apply rb_steps_ok_wf. apply rb_of_ok. apply select_tasks_Forall. exact Hok. }
  assert (Hpcs : Forall (fun x => 1 <= x) (map (wcet_of tasks) pre)).
  { rewrite Forall_map, Forall_forall. intros c0 Hc0.
    assert (Hc0' : (c0 < length tasks)%nat) by (apply Hch; apply in_or_app; left; exact Hc0).
    rewrite Forall_forall in Hok. destruct (Hok _ (nth_In tasks (Never, 0) Hc0')) as (_ & _ & H1). exact H1. }
  pose proof (e_chain_steps sb ab c (map (wcet_of tasks) pre) other limit Hwf Hab Hcl Hc1 Hpcs Hpos Hother dbg) as E.
  rewrite map_map in E. unfold chain_rb in He. fold c in He. rewrite E in He. clear E.
  unfold chain_rb.
  set (P := sn (Agg (map (fun x => RBF ab (Scalar (wcet_of tasks x))) pre))) in *.
  set (O := sn other) in *.
  assert (Hfull : forall d, sn (Agg (map (fun x => RBF ab (Scalar (wcet_of tasks x))) pre ++ [RBF ab (Scalar c)])) d
                            = P d + c * na ab d).
  { intros d. unfold P. rewrite !agg_service_needed, map_app, sumN_app. cbn [map sumN fold_right sn cost_of_jobs]. lia. }
  assert (HPm : forall a b, a <= b -> P a <= P b).
  { apply sn_mono. apply wf_rb_agg. rewrite Forall_map, Forall_forall. intros x _. apply scalar_wf. exact Hab. }
  match type of He with exh_ecrts_steps _ _ ?dm ?bw ?rh = _ =>
    set (bwr := bw) in He; set (rhs := rh) in He; set (dem := dm) in He end.
  assert (Hbwr : forall d, bwr d = c * na ab d + (P d + O d)).
  { intros d. unfold bwr. rewrite Hfull. lia. }
  assert (Hrhs : forall off resp, rhs off resp =
            c * na ab (off + 1) + (P (interference_interval (lw (RBF ab (Scalar c))) off resp)
                                   + O (interference_interval (lw (RBF ab (Scalar c))) off resp))).
  { intros off resp. unfold rhs. cbv zeta. cbn [sn cost_of_jobs]. lia. }
  assert (Hsok := sbf_wf_ok sb Hwf).
  unfold exh_ecrts_steps in He.
  destruct (least_sol (sbf sb) limit 0 bwr) as [max_bw|] eqn:Ebw; [|discriminate].
  cbv zeta in He.
  set (offs := filter (fun A => dem A <? dem (A + 1)) (rangeN 0 (max_bw + 1))) in He.
  set (sols := map (fun A => (A, least_sol (sbf sb) limit A (rhs A))) offs) in He.
  destruct (find (fun p => is_none (snd p)) sols) as [p|] eqn:Ef; [discriminate|].
  assert (HR : maxN (map (fun p => oval (snd p)) sols) = R) by (injection He as HR'; exact HR').
  apply least_sol_some in Ebw. destruct Ebw as (Hl1 & Hbl & Hsol & _).
  unfold sol in Hsol. rewrite N.add_0_l, Hbwr in Hsol.
  assert (Hbw0 : 0 < max_bw).
  { destruct (N.eq_dec max_bw 0) as [E|E]; [|lia]. exfalso. rewrite E in Hsol.
    destruct Hsok as (Hs0 & _). rewrite Hs0 in Hsol. change (N.max 0 1) with 1 in Hsol.
    assert (1 * 1 <= c * na ab 1) by (apply N.mul_le_mono; lia). lia. }
  replace (N.max max_bw 1) with max_bw in Hsol by lia.
  exists (N.to_nat max_bw). split.
  - rewrite Nnat.N2Nat.id. split; [lia|]. rewrite <- Nnat.N2Nat.inj_mul. lia.
  - intros A HA Hstep. set (A' := N.of_nat A).
    assert (Hin : In (A', least_sol (sbf sb) limit A' (rhs A')) sols).
    { unfold sols. apply (in_map (fun A => (A, least_sol (sbf sb) limit A (rhs A)))).
      unfold offs. apply filter_In. split; [apply in_rangeN; unfold A'; lia|].
      apply N.ltb_lt. unfold dem. rewrite !Hfull.
      pose proof (HPm A' (A' + 1) ltac:(lia)) as Hm.
      assert (c * na ab A' < c * na ab (A' + 1)); [|lia].
      apply N.mul_lt_mono_pos_l; [lia|].
      replace (A' + 1) with (N.of_nat (A + 1)) by (unfold A'; lia). unfold A'. lia. }
    pose proof (find_none _ _ Ef _ Hin) as Hsome. cbn [snd] in Hsome.
    destruct (least_sol (sbf sb) limit A' (rhs A')) as [r|] eqn:Er; [|discriminate Hsome].
    assert (Hle : r <= R).
    { rewrite <- HR. apply maxN_ub.
      change r with ((fun p : N * option N => oval (snd p)) (A', Some r)).
      apply in_map. exact Hin. }
    apply least_sol_some in Er. destruct Er as (_ & _ & Hs & _). unfold sol in Hs.
    rewrite Hrhs in Hs. unfold interference_interval in Hs. cbv zeta in Hs.
    rewrite (lw_scalar_const ab c _ Hab Hpos) in Hs by lia.
    exists (N.to_nat r). split; [lia|].
    replace (Nat.max (N.to_nat r) 1) with (N.to_nat (N.max r 1)) by lia.
    assert (Hiin : N.of_nat (iin (N.to_nat c) A (N.to_nat (N.max r 1)))
                   = if c <? N.max r 1 then A' + N.max r 1 - c + 1 else A' + 1).
    { replace A with (N.to_nat A') by (unfold A'; lia). apply iin_N. }
    rewrite Hiin.
    replace (N.of_nat (A + 1)) with (A' + 1) by (unfold A'; lia).
    replace (N.of_nat (A + N.to_nat r)) with (A' + r) by (unfold A'; lia).
    rewrite <- Nnat.N2Nat.inj_mul. lia.
Qed.

(* chain = pre ++ [i]: the prefix callbacks and the last callback; every callback of the chain is analysed
   with the arrival bound ab of the chain's source; srcs = the arrival times of the source events;
   ev k = the source event instance k stems from.  The end-to-end response time of the chain, from the arrival
   of the source event to the completion of the instance of the last callback, is at most R. *)
Theorem chain_sound : forall dbg sb (tasks : list task) (pre : list nat) (i : nat) (ab : AB) limit R
    jobs sched sigma (srcs : list nat) (ev : nat -> nat),
  wf_sb sb -> supply_admits sb sigma -> Forall fifo_task_ok tasks ->
  NoDup (pre ++ [i]) ->
  (forall c, In c (pre ++ [i]) -> (c < length tasks)%nat /\ fst (nth c tasks (Never, 0)) = ab) ->
  e_chain dbg sb (chain_rb ab tasks i) (Agg (map (chain_rb ab tasks) pre))
    (Agg (map (chain_rb ab tasks) pre ++ [chain_rb ab tasks i]))
    (Agg (map rb_of (select_tasks (off_chain (pre ++ [i])) tasks))) limit = ROk R ->
  valid jobs sched -> uses_supply sched sigma -> work_conserving_under jobs sched sigma ->
  runs_to_completion_under jobs sched sigma -> fifo_within_task jobs sched ->
  (exists es, Permutation es srcs /\ admissible ab es) ->
  chain_jobs jobs sched (pre ++ [i]) srcs ev ->
  respects_curves_off tasks (pre ++ [i]) jobs -> respects_costs tasks jobs ->
  forall k, (k < length jobs)%nat -> tsk jobs k = i ->
    (cost jobs k <= service sched k (nth (ev k) srcs 0%nat + N.to_nat R))%nat.
Proof.
  intros dbg sb tasks pre i ab limit R jobs sched sigma srcs ev Hwf Hadm Hok Hnd Hch He Hv Hus Hwc Hrtc Hf
    (es & Hperm & Hadmis) Hcj Hoff Hcost k Hk Htk.
  set (chain := pre ++ [i]) in *.
  assert (Hii : In i chain) by (apply in_or_app; right; left; reflexivity).
  destruct (Hch i Hii) as (Hi & Habi).
  assert (Hti : fifo_task_ok (nth i tasks (Never, 0))).
  { rewrite Forall_forall in Hok. apply Hok. apply nth_In. exact Hi. }
  destruct Hti as (Hab & _ & _). rewrite Habi in Hab.
  assert (Hon : on_chain chain i = true).
  { apply existsb_exists. exists i. split; [exact Hii|apply Nat.eqb_refl]. }
  assert (Hcpos : forall k0, (k0 < length jobs)%nat -> (1 <= cost jobs k0)%nat).
  { intros k0 Hk0. destruct (Hcost _ (nth_In _ (mkJob 0 0 0) Hk0)) as (_ & H1 & _). exact H1. }
  assert (Hsrc : forall t1 d : nat, N.of_nat (count srcs t1 d) <= na ab (N.of_nat d)).
  { intros t1 d. rewrite <- (count_perm _ _ t1 d Hperm). apply na_bounds_admissible; assumption. }
  (* the source of a chain that has an instance allows an arrival *)
  assert (Hpos : 0 < na ab 1).
  { pose proof (chain_count jobs sched chain srcs ev Hcj i (src_of srcs ev k) 1 Hon) as H1.
    assert (H2 : (1 <= countP (vjobs jobs chain srcs ev)
                         (task_in_win (vjobs jobs chain srcs ev) i (src_of srcs ev k) 1))%nat).
    { unfold countP. eapply Nat.le_trans; [|apply (sumn_ge_term _ _ k)]; [|rewrite vjobs_length; exact Hk].
      cbv beta. unfold task_in_win. rewrite vjobs_tsk, (vjobs_arr jobs chain srcs ev k Hk). unfold earr.
      rewrite Htk, Hon, Nat.eqb_refl, Nat.leb_refl. cbn [andb].
      destruct (Nat.ltb_spec (src_of srcs ev k) (src_of srcs ev k + 1)); lia. }
    specialize (Hsrc (src_of srcs ev k) 1%nat). change (N.of_nat 1) with 1 in Hsrc. lia. }
  destruct (chain_analysis_facts dbg sb tasks pre i ab limit R Hwf Hok Hch Hpos He) as (maxbw & Hbw & HR).
  change (nth (ev k) srcs 0%nat) with (src_of srcs ev k).
  apply chain_reservation_bound with (sigma := sigma) (chain := chain) (i := i)
    (C := N.to_nat (wcet_of tasks i)) (nao := ch_nao ab) (intf := ch_intf ab tasks pre i)
    (sbf := ch_sbf sb) (maxbw := maxbw); try assumption.
  - intros t1 d. specialize (Hsrc t1 d). unfold ch_nao. lia.
  - intros k0 Hk0 E. destruct (Hcost _ (nth_In _ (mkJob 0 0 0) Hk0)) as (_ & _ & Hle).
    rewrite E in Hle. exact Hle.
  - intros t1 d.
    pose proof (chain_interference_bound tasks pre i ab jobs sched srcs ev Hok Hnd Hch Hsrc Hcj Hoff Hcost t1 d) as H.
    fold chain in H. unfold ch_intf. fold chain. lia.
  - unfold ch_nao. change (N.of_nat 0) with 0. rewrite (na_zero ab Hab). reflexivity.
  - intros t d. apply supply_admits_sbf; assumption.
Qed.
Print Assumptions chain_sound.

(* ------------------------------------------------------------------------------------------ *)
(* Part 5: every source event is processed by the whole chain within R                          *)
(* ------------------------------------------------------------------------------------------ *)
(* [chain_sound] speaks about the instances of the last callback that exist.  If the job set is closed under
   succession (every source event has an instance of the first callback; an instance that completes has a
   successor) then, for EVERY source event, the instance of the last callback exists and completes within R:
   with a supply that never dries up a work-conserving schedule completes every instance eventually. *)
Local Close Scope N_scope.
Local Open Scope nat_scope.

Lemma supplied_many : forall (sigma : rsched) L, (forall t, 1 <= supplied sigma t L) ->
  forall m t, m <= supplied sigma t (m * L).
Proof.
  intros sigma L H. induction m as [|m IH]; intros t; [lia|].
  replace (S m * L) with (L + m * L) by lia. rewrite supplied_split.
  pose proof (H t). pose proof (IH (t + L)). lia.
Qed.

Lemma eventually_completes : forall jobs sched (sigma : rsched) L,
  valid jobs sched -> work_conserving_under jobs sched sigma -> (forall t, 1 <= supplied sigma t L) ->
  forall k, k < length jobs -> exists t, cost jobs k <= service sched k t.
Proof.
  intros jobs sched sigma L Hv Hwc HL k Hk.
  set (W := workP jobs (fun _ => true)). set (D := (W + 1) * L).
  exists (arr jobs k + D).
  destruct (Nat.le_gt_cases (cost jobs k) (service sched k (arr jobs k + D))) as [|Hinc]; [assumption|exfalso].
  assert (Hb : forall u, u < D -> sigma (arr jobs k + u) = true -> busyP sched (fun _ => true) (arr jobs k + u)).
  { intros u Hu Hsig.
    assert (Hp : pending jobs sched k (arr jobs k + u)).
    { split; [exact Hk|]. split; [lia|].
      pose proof (service_mono sched k (arr jobs k + u) (arr jobs k + D) ltac:(lia)). lia. }
    destruct (sched (arr jobs k + u)) as [k'|] eqn:E; [|exfalso; exact (Hwc _ _ Hp Hsig E)].
    exists k'. split; [exact E|reflexivity]. }
  pose proof (svcP_supplied jobs sched sigma (fun _ => true) (arr jobs k) D Hv Hb) as H1.
  pose proof (svcP_le_workP jobs sched Hv (fun _ => true) (arr jobs k) D) as H2.
  pose proof (supplied_many sigma L HL (W + 1) (arr jobs k)) as H3. fold D in H3. fold W in H2. lia.
Qed.

(* closure of the job set under succession *)
Definition chain_jobs_complete (jobs : list job) (sched : nat -> option nat) (chain srcs : list nat)
    (ev : nat -> nat) : Prop :=
  (forall e, e < length srcs -> exists k, k < length jobs /\ tsk jobs k = nth 0 chain 0 /\ ev k = e) /\
  (forall l k, S l < length chain -> k < length jobs -> tsk jobs k = nth l chain 0 ->
     (exists t, cost jobs k <= service sched k t) ->
     exists k', k' < length jobs /\ tsk jobs k' = nth (S l) chain 0 /\ ev k' = ev k).

Local Open Scope N_scope.

Theorem chain_sound_total : forall dbg sb (tasks : list task) (pre : list nat) (i : nat) (ab : AB) limit R
    jobs sched sigma (srcs : list nat) (ev : nat -> nat),
  wf_sb sb -> supply_admits sb sigma -> Forall fifo_task_ok tasks ->
  NoDup (pre ++ [i]) ->
  (forall c, In c (pre ++ [i]) -> (c < length tasks)%nat /\ fst (nth c tasks (Never, 0)) = ab) ->
  e_chain dbg sb (chain_rb ab tasks i) (Agg (map (chain_rb ab tasks) pre))
    (Agg (map (chain_rb ab tasks) pre ++ [chain_rb ab tasks i]))
    (Agg (map rb_of (select_tasks (off_chain (pre ++ [i])) tasks))) limit = ROk R ->
  valid jobs sched -> uses_supply sched sigma -> work_conserving_under jobs sched sigma ->
  runs_to_completion_under jobs sched sigma -> fifo_within_task jobs sched ->
  (exists es, Permutation es srcs /\ admissible ab es) ->
  chain_jobs jobs sched (pre ++ [i]) srcs ev -> chain_jobs_complete jobs sched (pre ++ [i]) srcs ev ->
  respects_curves_off tasks (pre ++ [i]) jobs -> respects_costs tasks jobs ->
  forall e, (e < length srcs)%nat ->
    exists k, (k < length jobs)%nat /\ tsk jobs k = i /\ ev k = e /\
      (cost jobs k <= service sched k (nth e srcs 0%nat + N.to_nat R))%nat.
Proof.
  intros dbg sb tasks pre i ab limit R jobs sched sigma srcs ev Hwf Hadm Hok Hnd Hch He Hv Hus Hwc Hrtc Hf
    Hsrcs Hcj (Hfirst & Hsucc) Hoff Hcost e He'.
  set (chain := pre ++ [i]) in *.
  (* the arrival bound allows an arrival: there is a source event *)
  assert (Hpos : 0 < na ab 1).
  { destruct Hsrcs as (es & Hperm & Hadmis).
    assert (Hii : In i chain) by (apply in_or_app; right; left; reflexivity).
    destruct (Hch i Hii) as (Hi & Habi).
    assert (Hti : fifo_task_ok (nth i tasks (Never, 0))).
    { rewrite Forall_forall in Hok. apply Hok. apply nth_In. exact Hi. }
    destruct Hti as (Hab & _ & _). rewrite Habi in Hab.
    pose proof (na_bounds_admissible ab es Hab Hadmis (nth e srcs 0%nat) 1) as H.
    rewrite (count_perm _ _ _ _ Hperm) in H. change (N.of_nat 1) with 1 in H.
    assert (1 <= count srcs (nth e srcs 0%nat) 1)%nat; [|lia].
    unfold count.
    assert (Hin : In (nth e srcs 0%nat) (filter (in_window (nth e srcs 0%nat) 1) srcs)).
    { apply filter_In. split; [apply nth_In; exact He'|]. unfold in_window.
      rewrite Nat.leb_refl. cbn [andb]. apply Nat.ltb_lt. lia. }
    destruct (filter (in_window (nth e srcs 0%nat) 1) srcs); [destruct Hin|cbn [length]; lia]. }
  destruct (chain_analysis_facts dbg sb tasks pre i ab limit R Hwf Hok Hch Hpos He) as (maxbw & (Hbw0 & Hbw) & _).
  (* the supply never dries up *)
  assert (HL : forall t, (1 <= supplied sigma t maxbw)%nat).
  { intros t. pose proof (supply_admits_sbf sb sigma Hwf Hadm t maxbw) as H. unfold ch_sbf in Hbw.
    assert (Hii : In i chain) by (apply in_or_app; right; left; reflexivity).
    destruct (Hch i Hii) as (Hi & Habi).
    assert (Hti : fifo_task_ok (nth i tasks (Never, 0))).
    { rewrite Forall_forall in Hok. apply Hok. apply nth_In. exact Hi. }
    destruct Hti as (Hab & _ & Hc1). rewrite Habi in Hab. fold (wcet_of tasks i) in Hc1.
    assert (Hn1 : (1 <= ch_nao ab maxbw)%nat).
    { unfold ch_nao. pose proof (na_mono ab Hab 1 (N.of_nat maxbw) ltac:(lia)). lia. }
    assert (1 * 1 <= N.to_nat (wcet_of tasks i) * ch_nao ab maxbw)%nat by (apply Nat.mul_le_mono; lia).
    lia. }
  (* every callback of the chain has an instance for source event e *)
  assert (Hall : forall l, (l < length chain)%nat ->
            exists k, (k < length jobs)%nat /\ tsk jobs k = nth l chain 0%nat /\ ev k = e).
  { induction l as [|l IH]; intros Hl; [apply Hfirst; exact He'|].
    destruct (IH ltac:(lia)) as (k & Hk & Htk & Hek).
    destruct (Hsucc l k Hl Hk Htk (eventually_completes jobs sched sigma maxbw Hv Hwc HL k Hk))
      as (k' & Hk' & Htk' & Hek').
    exists k'. split; [exact Hk'|]. split; [exact Htk'|congruence]. }
  destruct (Hall (length pre) ltac:(unfold chain; rewrite app_length; cbn [length]; lia)) as (k & Hk & Htk & Hek).
  unfold chain in Htk. rewrite app_nth2, Nat.sub_diag in Htk by lia. cbn [nth] in Htk.
  exists k. split; [exact Hk|]. split; [exact Htk|]. split; [exact Hek|].
  rewrite <- Hek.
  exact (chain_sound dbg sb tasks pre i ab limit R jobs sched sigma srcs ev Hwf Hadm Hok Hnd Hch He Hv Hus Hwc
           Hrtc Hf Hsrcs Hcj Hoff Hcost k Hk Htk).
Qed.
Print Assumptions chain_sound_total.

(* ------------------------------------------------------------------------------------------ *)
(* Part 6: non-vacuity                                                                         *)
(* ------------------------------------------------------------------------------------------ *)
(* Witness 1: reservation PeriodicS 2 5, chain c0 (WCET 1) -> c1 (WCET 2) on a sporadic source (period 20), one
   other callback c2 (WCET 1).  The analysis returns 13; the bound is attained. *)
Definition ch_ab : AB := Sporadic 20 0.
Definition ch_tasks : list task := [(ch_ab, 1); (ch_ab, 2); (Sporadic 20 0, 1)].

Example ch_tasks_ok : Forall fifo_task_ok ch_tasks.
Proof. repeat constructor; cbn; lia. Qed.

Example ch_analysis :
  e_chain false pp_sb (chain_rb ch_ab ch_tasks 1) (Agg (map (chain_rb ch_ab ch_tasks) [0%nat]))
    (Agg (map (chain_rb ch_ab ch_tasks) [0%nat] ++ [chain_rb ch_ab ch_tasks 1]))
    (Agg (map rb_of (select_tasks (off_chain ([0%nat] ++ [1%nat])) ch_tasks))) 100 = ROk 13.
Proof. vm_compute. reflexivity. Qed.

Section ChainWitness1.
  Local Open Scope nat_scope.
  (* supplied slots 0, 1, 8, 9, 13, 14, ... ([pp_sigma]); the source event arrives at time 2, when an instance
     of the other callback is released too; the dispatcher serves the other callback first (slot 8), then c0
     (slot 9, completes at 10: release of the instance of c1), then c1 (slots 13, 14): completion at 15 = 2 + 13 *)
  Definition ch_jobs : list job := [mkJob 0 2 1; mkJob 1 10 2; mkJob 2 2 1].
  Definition ch_srcs : list nat := [2].
  Definition ch_ev : nat -> nat := fun _ => 0.
  Definition ch_sched (t : nat) : option nat :=
    if t =? 8 then Some 2 else if t =? 9 then Some 0 else if (t =? 13) || (t =? 14) then Some 1 else None.

  Lemma ch_valid : valid ch_jobs ch_sched.
  Proof.
    intros t j E.
    do 15 (destruct t as [|t];
           [first [ discriminate E
                  | injection E as <-; unfold pending, arr, cost, service, svc, runs; cbn; lia ]|]).
    discriminate E.
  Qed.

  Lemma ch_uses_supply : uses_supply ch_sched pp_sigma.
  Proof.
    intros t k E.
    do 15 (destruct t as [|t]; [first [ discriminate E | reflexivity ]|]).
    discriminate E.
  Qed.

  Lemma ch_done : forall j t, 15 <= t -> cost ch_jobs j <= service ch_sched j t.
  Proof.
    intros j t Ht. pose proof (service_mono ch_sched j 15 t Ht) as Hm.
    destruct j as [|[|[|j]]];
      [assert (service ch_sched 0 15 = 1) by reflexivity; change (cost ch_jobs 0) with 1; lia
      |assert (service ch_sched 1 15 = 2) by reflexivity; change (cost ch_jobs 1) with 2; lia
      |assert (service ch_sched 2 15 = 1) by reflexivity; change (cost ch_jobs 2) with 1; lia
      |unfold cost; cbn; destruct j; cbn; lia].
  Qed.

  Lemma ch_work_conserving : work_conserving_under ch_jobs ch_sched pp_sigma.
  Proof.
    intros t j (Hj & Ha & Hs) Hsig.
    destruct (Nat.le_gt_cases 15 t) as [Ht|Ht]; [pose proof (ch_done j t Ht); lia|].
    assert (Hj' : j = 0 \/ j = 1 \/ j = 2) by (cbn in Hj; lia).
    destruct Hj' as [-> | [-> | ->]].
    - change (arr ch_jobs 0) with 2 in Ha.
      do 15 (destruct t as [|t];
             [first [ exfalso; lia | vm_compute in Hsig; discriminate Hsig | cbn; discriminate ]|]).
      lia.
    - change (arr ch_jobs 1) with 10 in Ha.
      do 15 (destruct t as [|t];
             [first [ exfalso; lia | vm_compute in Hsig; discriminate Hsig | cbn; discriminate ]|]).
      lia.
    - change (arr ch_jobs 2) with 2 in Ha.
      do 15 (destruct t as [|t];
             [first [ exfalso; lia | vm_compute in Hsig; discriminate Hsig | cbn; discriminate ]|]).
      lia.
  Qed.

  Lemma ch_runs_to_completion : runs_to_completion_under ch_jobs ch_sched pp_sigma.
  Proof.
    intros t k H1 H2 Hsig.
    destruct (Nat.le_gt_cases 15 t) as [Ht|Ht]; [pose proof (ch_done k t Ht); lia|].
    destruct k as [|[|[|k]]].
    - exfalso. change (cost ch_jobs 0) with 1 in H2. lia.
    - change (cost ch_jobs 1) with 2 in H2.
      do 15 (destruct t as [|t];
             [first [ exfalso; unfold service, svc, runs in H1, H2; cbn in H1, H2; lia
                    | vm_compute in Hsig; discriminate Hsig
                    | reflexivity ]|]).
      lia.
    - exfalso. change (cost ch_jobs 2) with 1 in H2. lia.
    - exfalso. unfold cost in H2. cbn in H2. destruct k; cbn in H2; lia.
  Qed.

  Lemma ch_fifo_within_task : fifo_within_task ch_jobs ch_sched.
  Proof.
    intros t k k' E (Hk' & _) Ht.
    destruct (ch_valid t k E) as (Hk & _). cbn in Hk, Hk'.
    destruct k as [|[|[|k]]]; [| | |lia]; (destruct k' as [|[|[|k']]]; [| | |lia]);
      cbn in Ht; try discriminate Ht; lia.
  Qed.

  Lemma ch_srcs_ok : exists es, Permutation es ch_srcs /\ admissible ch_ab es.
  Proof.
    exists [2]. split; [apply Permutation_refl|].
    change [2] with (zip_add [2] [0]). apply adm_sporadic; cbn; auto.
  Qed.

  Lemma ch_chain_jobs : chain_jobs ch_jobs ch_sched ([0] ++ [1]) ch_srcs ch_ev.
  Proof.
    split; [|split; [|split]].
    - intros k _ _. unfold ch_ev, ch_srcs. cbn. lia.
    - intros k k' Hk Hk' _ Ht _. cbn in Hk, Hk'.
      destruct k as [|[|[|k]]]; [| | |lia]; (destruct k' as [|[|[|k']]]; [| | |lia]);
        cbn in Ht; try discriminate Ht; reflexivity.
    - intros k Hk Ht. cbn in Hk. destruct k as [|[|[|k]]]; [reflexivity|discriminate Ht|discriminate Ht|lia].
    - intros l k Hl Hk Ht. cbn in Hl, Hk. assert (l = 0) by lia. subst l.
      destruct k as [|[|[|k]]]; [discriminate Ht| |discriminate Ht|lia].
      exists 0. split; [cbn; lia|]. split; [reflexivity|]. split; [reflexivity|].
      split; [vm_compute; lia|]. intros t Hlt. change (arr ch_jobs 1) with 10 in Hlt.
      do 10 (destruct t as [|t]; [vm_compute; lia|]). lia.
  Qed.

  Lemma ch_chain_complete : chain_jobs_complete ch_jobs ch_sched ([0] ++ [1]) ch_srcs ch_ev.
  Proof.
    split.
    - intros e He. exists 0. split; [cbn; lia|]. split; [reflexivity|]. cbn in He. unfold ch_ev. lia.
    - intros l k Hl Hk Ht _. exists 1. cbn in Hl. assert (l = 0) by lia. subst l.
      split; [cbn; lia|]. split; reflexivity.
  Qed.

  Lemma ch_respects_off : respects_curves_off ch_tasks ([0] ++ [1]) ch_jobs.
  Proof.
    intros c Hc Hoff. cbn in Hc. destruct c as [|[|[|c]]]; [discriminate Hoff|discriminate Hoff| |lia].
    exists [2]. split; [apply Permutation_refl|].
    change [2] with (zip_add [2] [0]). apply adm_sporadic; cbn; auto.
  Qed.

  Lemma ch_respects_costs : respects_costs ch_tasks ch_jobs.
  Proof. intros j [<-|[<-|[<-|[]]]]; cbn; lia. Qed.

  Lemma ch_chain_ok : forall c, In c ([0] ++ [1]) -> c < length ch_tasks /\ fst (nth c ch_tasks (Never, 0%N)) = ch_ab.
  Proof. intros c [<-|[<-|[]]]; split; cbn; (lia || reflexivity). Qed.

  Lemma ch_nodup : NoDup ([0] ++ [1]).
  Proof. repeat constructor; cbn; intuition lia. Qed.

  (* the theorem applies: the instance of the last callback completes within 13 of the arrival of its source event *)
  Example ch_completes : cost ch_jobs 1 <= service ch_sched 1 (2 + 13).
  Proof.
    exact (chain_sound false pp_sb ch_tasks [0] 1 ch_ab 100 13 ch_jobs ch_sched pp_sigma ch_srcs ch_ev
             pp_sb_wf pp_sigma_ok ch_tasks_ok ch_nodup ch_chain_ok ch_analysis ch_valid ch_uses_supply
             ch_work_conserving ch_runs_to_completion ch_fifo_within_task ch_srcs_ok ch_chain_jobs
             ch_respects_off ch_respects_costs 1 ltac:(cbn; lia) eq_refl).
  Qed.

  (* ... and not within 12: the bound is tight *)
  Example ch_tight : ~ cost ch_jobs 1 <= service ch_sched 1 (2 + 12).
  Proof. unfold cost, service, svc, runs. cbn. lia. Qed.

  (* the closed form: the source event is processed by the whole chain within 13 *)
  Example ch_total : exists k, k < length ch_jobs /\ tsk ch_jobs k = 1 /\ ch_ev k = 0 /\
    cost ch_jobs k <= service ch_sched k (nth 0 ch_srcs 0 + 13).
  Proof.
    exact (chain_sound_total false pp_sb ch_tasks [0] 1 ch_ab 100 13 ch_jobs ch_sched pp_sigma ch_srcs ch_ev
             pp_sb_wf pp_sigma_ok ch_tasks_ok ch_nodup ch_chain_ok ch_analysis ch_valid ch_uses_supply
             ch_work_conserving ch_runs_to_completion ch_fifo_within_task ch_srcs_ok ch_chain_jobs
             ch_chain_complete ch_respects_off ch_respects_costs 0 ltac:(cbn; lia)).
  Qed.
End ChainWitness1.
Print Assumptions ch_completes.
Print Assumptions ch_tight.
Print Assumptions ch_total.

(* Witness 2: dedicated processor, chain c0 (WCET 1) -> c1 (WCET 2) on a sporadic source with period 4 and
   release jitter 3, one other callback c2 (WCET 1).  Two source events arrive at 3 and 4: each callback of the
   chain processes them in order, the instances of c0 for both events run before the first instance of c1.
   The analysis returns 7; the observed end-to-end response times are 5 and 6. *)
Definition d_ab : AB := Sporadic 4 3.
Definition d_tasks : list task := [(d_ab, 1); (d_ab, 2); (Sporadic 20 0, 1)].

Example d_tasks_ok : Forall fifo_task_ok d_tasks.
Proof. repeat constructor; cbn; lia. Qed.

Example d_analysis :
  e_chain false Dedicated (chain_rb d_ab d_tasks 1) (Agg (map (chain_rb d_ab d_tasks) [0%nat]))
    (Agg (map (chain_rb d_ab d_tasks) [0%nat] ++ [chain_rb d_ab d_tasks 1]))
    (Agg (map rb_of (select_tasks (off_chain ([0%nat] ++ [1%nat])) d_tasks))) 100 = ROk 7.
Proof. vm_compute. reflexivity. Qed.

Section ChainWitness2.
  Local Open Scope nat_scope.
  (* jobs 0, 1: c0 for events 0, 1 (released at 3, 4); jobs 2, 3: c1 for events 0, 1 (released at 5, 6, the
     completion times of jobs 0, 1); job 4: the other callback, released at 3.
     slot 3: job 4; slot 4: job 0; slot 5: job 1; slots 6, 7: job 2; slots 8, 9: job 3 *)
  Definition d_jobs : list job := [mkJob 0 3 1; mkJob 0 4 1; mkJob 1 5 2; mkJob 1 6 2; mkJob 2 3 1].
  Definition d_srcs : list nat := [3; 4].
  Definition d_ev (k : nat) : nat := nth k [0; 1; 0; 1; 0] 0.
  Definition d_sigma : rsched := fun _ => true.
  Definition d_sched (t : nat) : option nat :=
    if t =? 3 then Some 4 else if t =? 4 then Some 0 else if t =? 5 then Some 1
    else if (t =? 6) || (t =? 7) then Some 2 else if (t =? 8) || (t =? 9) then Some 3 else None.

  Lemma d_valid : valid d_jobs d_sched.
  Proof.
    intros t j E.
    do 10 (destruct t as [|t];
           [first [ discriminate E
                  | injection E as <-; unfold pending, arr, cost, service, svc, runs; cbn; lia ]|]).
    discriminate E.
  Qed.

  Lemma d_uses_supply : uses_supply d_sched d_sigma.
  Proof. intros t k _. reflexivity. Qed.

  Lemma d_done : forall j t, 10 <= t -> cost d_jobs j <= service d_sched j t.
  Proof.
    intros j t Ht. pose proof (service_mono d_sched j 10 t Ht) as Hm.
    destruct j as [|[|[|[|[|j]]]]];
      [assert (service d_sched 0 10 = 1) by reflexivity; change (cost d_jobs 0) with 1; lia
      |assert (service d_sched 1 10 = 1) by reflexivity; change (cost d_jobs 1) with 1; lia
      |assert (service d_sched 2 10 = 2) by reflexivity; change (cost d_jobs 2) with 2; lia
      |assert (service d_sched 3 10 = 2) by reflexivity; change (cost d_jobs 3) with 2; lia
      |assert (service d_sched 4 10 = 1) by reflexivity; change (cost d_jobs 4) with 1; lia
      |unfold cost; cbn; destruct j; cbn; lia].
  Qed.

  Lemma d_work_conserving : work_conserving_under d_jobs d_sched d_sigma.
  Proof.
    intros t j (Hj & Ha & Hs) _.
    destruct (Nat.le_gt_cases 10 t) as [Ht|Ht]; [pose proof (d_done j t Ht); lia|].
    assert (H3 : 3 <= arr d_jobs j).
    { cbn in Hj. destruct j as [|[|[|[|[|j]]]]]; [vm_compute; lia..|lia]. }
    do 10 (destruct t as [|t]; [first [ exfalso; lia | cbn; discriminate ]|]).
    lia.
  Qed.

  Lemma d_runs_to_completion : runs_to_completion_under d_jobs d_sched d_sigma.
  Proof.
    intros t k H1 H2 _.
    destruct (Nat.le_gt_cases 10 t) as [Ht|Ht]; [pose proof (d_done k t Ht); lia|].
    destruct k as [|[|[|[|[|k]]]]].
    - exfalso. change (cost d_jobs 0) with 1 in H2. lia.
    - exfalso. change (cost d_jobs 1) with 1 in H2. lia.
    - change (cost d_jobs 2) with 2 in H2.
      do 10 (destruct t as [|t];
             [first [ exfalso; unfold service, svc, runs in H1, H2; cbn in H1, H2; lia | reflexivity ]|]).
      lia.
    - change (cost d_jobs 3) with 2 in H2.
      do 10 (destruct t as [|t];
             [first [ exfalso; unfold service, svc, runs in H1, H2; cbn in H1, H2; lia | reflexivity ]|]).
      lia.
    - exfalso. change (cost d_jobs 4) with 1 in H2. lia.
    - exfalso. unfold cost in H2. cbn in H2. destruct k; cbn in H2; lia.
  Qed.

  Lemma d_fifo_within_task : fifo_within_task d_jobs d_sched.
  Proof.
    intros t k k' E (Hk' & Ha' & Hs') Ht.
    destruct (Nat.le_gt_cases 10 t) as [H10|H10].
    { destruct (d_valid t k E) as (_ & _ & Hs). pose proof (d_done k t H10). lia. }
    cbn in Hk'.
    do 10 (destruct t as [|t];
           [first [ discriminate E
                  | injection E as <-;
                    (destruct k' as [|[|[|[|[|k']]]]];
                     [first [ cbn in Ht; discriminate Ht | vm_compute; lia | exfalso; vm_compute in Hs'; lia ]..
                     |exfalso; lia]) ]|]).
    lia.
  Qed.

  Lemma d_srcs_ok : exists es, Permutation es d_srcs /\ admissible d_ab es.
  Proof.
    exists [3; 4]. split; [apply Permutation_refl|].
    change [3; 4] with (zip_add [0; 4] [3; 0]).
    apply adm_sporadic; [cbn; lia|reflexivity|repeat constructor; cbn; lia].
  Qed.

  Lemma d_chain_jobs : chain_jobs d_jobs d_sched ([0] ++ [1]) d_srcs d_ev.
  Proof.
    split; [|split; [|split]].
    - intros k Hk _. cbn in Hk. destruct k as [|[|[|[|[|k]]]]]; [vm_compute; lia..|lia].
    - intros k k' Hk Hk' _ Ht He. cbn in Hk, Hk'.
      destruct k as [|[|[|[|[|k]]]]]; [| | | | |lia]; (destruct k' as [|[|[|[|[|k']]]]]; [| | | | |lia]);
        cbn in Ht, He; try discriminate Ht; try discriminate He; reflexivity.
    - intros k Hk Ht. cbn in Hk.
      destruct k as [|[|[|[|[|k]]]]]; [reflexivity|reflexivity|discriminate Ht|discriminate Ht|discriminate Ht|lia].
    - intros l k Hl Hk Ht. cbn in Hl, Hk. assert (l = 0) by lia. subst l.
      destruct k as [|[|[|[|[|k]]]]]; [discriminate Ht|discriminate Ht| | |discriminate Ht|lia].
      + exists 0. split; [cbn; lia|]. split; [reflexivity|]. split; [reflexivity|].
        split; [vm_compute; lia|]. intros t Hlt. change (arr d_jobs 2) with 5 in Hlt.
        do 5 (destruct t as [|t]; [vm_compute; lia|]). lia.
      + exists 1. split; [cbn; lia|]. split; [reflexivity|]. split; [reflexivity|].
        split; [vm_compute; lia|]. intros t Hlt. change (arr d_jobs 3) with 6 in Hlt.
        do 6 (destruct t as [|t]; [vm_compute; lia|]). lia.
  Qed.

  Lemma d_chain_complete : chain_jobs_complete d_jobs d_sched ([0] ++ [1]) d_srcs d_ev.
  Proof.
    split.
    - intros e He. cbn in He. destruct e as [|[|e]]; [exists 0|exists 1|lia]; (split; [cbn; lia|split; reflexivity]).
    - intros l k Hl Hk Ht _. cbn in Hl, Hk. assert (l = 0) by lia. subst l.
      destruct k as [|[|[|[|[|k]]]]]; [exists 2|exists 3|discriminate Ht|discriminate Ht|discriminate Ht|lia];
        (split; [cbn; lia|split; reflexivity]).
  Qed.

  Lemma d_respects_off : respects_curves_off d_tasks ([0] ++ [1]) d_jobs.
  Proof.
    intros c Hc Hoff. cbn in Hc. destruct c as [|[|[|c]]]; [discriminate Hoff|discriminate Hoff| |lia].
    exists [3]. split; [apply Permutation_refl|].
    change [3] with (zip_add [3] [0]). apply adm_sporadic; cbn; auto.
  Qed.

  Lemma d_respects_costs : respects_costs d_tasks d_jobs.
  Proof. intros j [<-|[<-|[<-|[<-|[<-|[]]]]]]; cbn; lia. Qed.

  Lemma d_chain_ok : forall c, In c ([0] ++ [1]) -> c < length d_tasks /\ fst (nth c d_tasks (Never, 0%N)) = d_ab.
  Proof. intros c [<-|[<-|[]]]; split; cbn; (lia || reflexivity). Qed.

  (* the theorem applies to both source events: the whole chain processes each of them within 7 *)
  Example d_total : forall e, e < 2 -> exists k, k < length d_jobs /\ tsk d_jobs k = 1 /\ d_ev k = e /\
    cost d_jobs k <= service d_sched k (nth e d_srcs 0 + 7).
  Proof.
    intros e He.
    exact (chain_sound_total false Dedicated d_tasks [0] 1 d_ab 100 7 d_jobs d_sched d_sigma d_srcs d_ev
             I (fun _ => eq_refl) d_tasks_ok ch_nodup d_chain_ok d_analysis d_valid d_uses_supply
             d_work_conserving d_runs_to_completion d_fifo_within_task d_srcs_ok d_chain_jobs
             d_chain_complete d_respects_off d_respects_costs e He).
  Qed.

  (* the second source event (arrival 4) is processed by 10 and not earlier: observed response time 6 <= 7 *)
  Example d_observed : cost d_jobs 3 <= service d_sched 3 (4 + 6) /\ ~ cost d_jobs 3 <= service d_sched 3 (4 + 5).
  Proof. unfold cost, service, svc, runs. cbn. lia. Qed.
End ChainWitness2.
Print Assumptions d_total.
Print Assumptions d_observed.
