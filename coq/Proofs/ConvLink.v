(* ConvLink.v — C12: the horizon-doubling loop of the model of Curve::from_arrival_bound(_until) finds a
   horizon.  Discharges the hypothesis "some round j < 64 decides [enough]" of the theorems of ConvProofs.v
   (curve_from_ab_wf, curve_from_ab_until_wf, curve_from_ab_length, curve_from_ab_until_covers) for every
   arrival bound that keeps stepping at a bounded distance G, under an explicit magnitude bound, and
   instantiates the result for Periodic, Sporadic, Propagated and sums.

   1. the repaired take_while: a sufficient condition for "stops strictly inside", monotonicity in the list
   2. dmins_upto ab h is a prefix of dmins_upto ab h' for h <= h'; [enough] is monotone in the horizon
   3. the general sufficient condition (steps_within ab G) and the explicit horizons H0n / H0u
   4. the loop finds a horizon; the theorems of ConvProofs.v without the loop hypothesis
   5. instances: Periodic, Sporadic, Propagated, SumAB; From<Sporadic> for Curve *)
From Coq Require Import List NArith Arith Lia Bool.
From RTA.Model Require Import Base Arrival WellFormed.
From RTA.Proofs Require Import FixedPointProofs ArrivalNaProofs StepsProofs ConvProofs.

(* ------------------------------------------------------------------------------------------ *)
(* 1. the repaired take_while                                                                  *)
(* ------------------------------------------------------------------------------------------ *)
(* it stops at or before every element that fails the old condition and comes after a non-zero distance *)
Lemma twn_stop : forall keep l i s k, (k < length l)%nat ->
  keep (i + k)%nat (nth k l (0, 0)) = false -> nz_seen s (firstn k l) = true ->
  (length (take_while_nz keep i s l) <= k)%nat.
Proof.
  intros keep l. induction l as [|x l IH]; intros i s k Hk Hkeep Hseen; cbn [length] in Hk; [lia|].
  cbn [take_while_nz]. destruct (keep i x || negb s) eqn:E.
  - destruct k as [|k].
    + exfalso. cbn [nth firstn] in *. rewrite Nat.add_0_r in Hkeep. unfold nz_seen in Hseen.
      cbn [existsb] in Hseen. rewrite orb_false_r in Hseen. rewrite Hkeep, Hseen in E. discriminate.
    + cbn [length]. apply le_n_S. apply IH.
      * lia.
      * cbn [nth] in Hkeep. replace (S i + k)%nat with (i + S k)%nat by lia. exact Hkeep.
      * cbn [firstn] in Hseen. rewrite nz_seen_cons. exact Hseen.
  - cbn [length]. lia.
Qed.

(* once the take_while stops strictly inside a list, it does so in every extension of the list *)
Lemma twn_app_enough : forall keep p r i s,
  Nat.ltb (length (take_while_nz keep i s p)) (length p) = true ->
  Nat.ltb (length (take_while_nz keep i s (p ++ r))) (length (p ++ r)) = true.
Proof.
  intros keep p r. induction p as [|x p IH]; intros i s H.
  - cbn [take_while_nz length] in H. discriminate.
  - cbn [app take_while_nz] in *. destruct (keep i x || negb s).
    + cbn [length] in *. apply Nat.ltb_lt in H. apply Nat.ltb_lt.
      specialize (IH (S i) (s || negb (snd x =? 0))). rewrite !Nat.ltb_lt in IH. apply -> Nat.succ_lt_mono.
      apply IH. lia.
    + cbn [length]. apply Nat.ltb_lt. lia.
Qed.

(* ------------------------------------------------------------------------------------------ *)
(* 2. the cuts of the delta-min iterator are nested                                            *)
(* ------------------------------------------------------------------------------------------ *)
Lemma dmins_nth_agree : forall ab h h' i, wf_ab ab -> steps_exact_class ab -> h <= h' ->
  (i < length (dmins_upto ab h))%nat ->
  (i < length (dmins_upto ab h'))%nat /\ nth i (dmins_upto ab h') (0, 0) = nth i (dmins_upto ab h) (0, 0).
Proof.
  intros ab h h' i Hwf Hc Hh Hi.
  pose proof (nth_In (dmins_upto ab h) (0, 0) Hi) as Hin.
  pose proof (dmins_fst_nth ab h i Hi) as Hf.
  destruct (nth i (dmins_upto ab h) (0, 0)) as [m x] eqn:E. cbn [fst] in Hf.
  apply dmins_dual in Hin; [|exact Hwf | exact Hc].
  assert (Hin' : In (m, x) (dmins_upto ab h')) by (apply dmins_dual; [exact Hwf | exact Hc | lia]).
  destruct (In_nth _ _ (0, 0) Hin') as [k [Hk Ek]].
  pose proof (dmins_fst_nth ab h' k Hk) as Hf'. rewrite Ek in Hf'. cbn [fst] in Hf'.
  assert (k = i) by lia. subst k. split; [exact Hk | exact Ek].
Qed.

Theorem dmins_upto_prefix : forall ab h h', wf_ab ab -> steps_exact_class ab -> h <= h' ->
  exists r, dmins_upto ab h' = dmins_upto ab h ++ r.
Proof.
  intros ab h h' Hwf Hc Hh.
  set (l := dmins_upto ab h). set (l' := dmins_upto ab h').
  assert (Hlen : (length l <= length l')%nat).
  { destruct (Nat.eq_dec (length l) 0) as [E|E]; [lia|].
    destruct (dmins_nth_agree ab h h' (length l - 1) Hwf Hc Hh ltac:(fold l; lia)) as [H _]. fold l' in H. lia. }
  exists (skipn (length l) l'). rewrite <- (firstn_skipn (length l) l') at 1. f_equal.
  apply (nth_ext _ _ (0, 0) (0, 0)).
  - rewrite firstn_length. lia.
  - intros i Hi. rewrite firstn_length in Hi. rewrite nth_firstn_lt by lia.
    apply (dmins_nth_agree ab h h' i Hwf Hc Hh). fold l. lia.
Qed.
Print Assumptions dmins_upto_prefix.

(* [enough] of both conversions is monotone in the horizon: the doubling loop may stop at the first
   horizon that decides it *)
Theorem njobs_enough_mono : forall ab n h h', wf_ab ab -> steps_exact_class ab -> h <= h' ->
  njobs_enough n (dmins_upto ab h) = true -> njobs_enough n (dmins_upto ab h') = true.
Proof.
  intros ab n h h' Hwf Hc Hh H. destruct (dmins_upto_prefix ab h h' Hwf Hc Hh) as [r ->].
  unfold njobs_enough in *. apply twn_app_enough. exact H.
Qed.
Print Assumptions njobs_enough_mono.

Theorem until_enough_mono : forall ab hz h h', wf_ab ab -> steps_exact_class ab -> h <= h' ->
  until_enough hz (dmins_upto ab h) = true -> until_enough hz (dmins_upto ab h') = true.
Proof.
  intros ab hz h h' Hwf Hc Hh H. destruct (dmins_upto_prefix ab h h' Hwf Hc Hh) as [r ->].
  unfold until_enough in *. apply twn_app_enough. exact H.
Qed.
Print Assumptions until_enough_mono.

(* ------------------------------------------------------------------------------------------ *)
(* 3. the general sufficient condition                                                         *)
(* ------------------------------------------------------------------------------------------ *)
(* every window of length G contains an increase point of the arrival bound *)
Definition steps_within (ab : AB) (G : N) : Prop :=
  forall x, exists y, x < y /\ y <= x + G /\ na ab (y - 1) < na ab y.
(* equivalently (for the monotone na): the bound grows over every window of length G *)
Definition grows_within (f : N -> N) (G : N) : Prop := forall x, f x < f (x + G).

Lemma growth_has_step : forall (f : N -> N) a k, f a < f (a + k) ->
  exists y, a < y /\ y <= a + k /\ f (y - 1) < f y.
Proof.
  intros f a k. induction k as [|k IH] using N.peano_ind; intros H.
  - rewrite N.add_0_r in H. lia.
  - destruct (N.lt_ge_cases (f a) (f (a + k))) as [H1|H1].
    + destruct (IH H1) as [y [Hy1 [Hy2 Hy3]]]. exists y. split; [exact Hy1|]. split; [lia | exact Hy3].
    + exists (a + N.succ k). split; [lia|]. split; [lia|].
      replace (a + N.succ k - 1) with (a + k) by lia. lia.
Qed.

Lemma steps_within_of_growth : forall ab G, grows_within (na ab) G -> steps_within ab G.
Proof. intros ab G H x. apply growth_has_step. apply H. Qed.

Lemma growth_of_steps_within : forall ab G, wf_ab ab -> steps_within ab G -> grows_within (na ab) G.
Proof.
  intros ab G Hwf H x. destruct (H x) as [y [H1 [H2 H3]]].
  pose proof (na_mono ab Hwf x (y - 1) ltac:(lia)). pose proof (na_mono ab Hwf y (x + G) H2). lia.
Qed.

Lemma growth_linear : forall (f : N -> N) G, grows_within f G -> forall k, k <= f (G * k).
Proof.
  intros f G H k. induction k as [|k IH] using N.peano_ind; [lia|].
  rewrite N.mul_succ_r. pose proof (H (G * k)). lia.
Qed.

(* an arrival bound that is "never" has no increase point *)
Lemma is_never_na : forall ab, is_never ab = true -> forall x, na ab x = 0.
Proof.
  induction ab as [T|T J| |d|d|h s|J a IH|l IH] using AB_ind'; intros Hn x; cbn [is_never] in Hn; try discriminate.
  - reflexivity.
  - cbn [na]. destruct (x =? 0); [reflexivity | apply IH; exact Hn].
  - cbn [na]. induction IH as [|a l Ha Hl IHl]; [reflexivity|].
    cbn [forallb] in Hn. apply andb_true_iff in Hn. destruct Hn as [H1 H2].
    cbn [map sumN fold_right]. fold (sumN (map (fun a => na a x) l)). rewrite (Ha H1 x), (IHl H2). reflexivity.
Qed.

Lemma steps_within_not_never : forall ab G, steps_within ab G -> is_never ab = false.
Proof.
  intros ab G H. destruct (is_never ab) eqn:E; [|reflexivity]. exfalso.
  destruct (H 0) as [y [_ [_ Hy]]]. rewrite !(is_never_na ab E) in Hy. lia.
Qed.

(* a job count between f 0 and f h is first reached inside (0, h] *)
Lemma cross_point : forall (f : N -> N) m h, f 0 < m -> m <= f h ->
  exists x, x < h /\ f x < m /\ m <= f (x + 1).
Proof.
  intros f m h H0. induction h as [|h IH] using N.peano_ind; intros H; [lia|].
  destruct (N.lt_ge_cases (f h) m) as [H1|H1].
  - exists h. split; [lia|]. split; [exact H1|]. rewrite N.add_1_r. exact H.
  - destruct (IH H1) as [x [Hx1 Hx2]]. exists x. split; [lia | exact Hx2].
Qed.

(* the entry of the iterator for m events, m <= na ab h *)
Lemma dmins_entry : forall ab h m, wf_ab ab -> steps_exact_class ab -> 2 <= m -> m <= na ab h ->
  exists x, (N.to_nat (m - 2) < length (dmins_upto ab h))%nat /\
    nth (N.to_nat (m - 2)) (dmins_upto ab h) (0, 0) = (m, x) /\ na ab x < m /\ m <= na ab (x + 1).
Proof.
  intros ab h m Hwf Hc Hm Hh.
  destruct (cross_point (na ab) m h ltac:(rewrite na_zero by exact Hwf; lia) Hh) as [x [Hx1 [Hx2 Hx3]]].
  assert (Hin : In (m, x) (dmins_upto ab h)) by (apply dmins_dual; [exact Hwf | exact Hc | lia]).
  destruct (In_nth _ _ (0, 0) Hin) as [k [Hk Ek]].
  pose proof (dmins_fst_nth ab h k Hk) as Hf. rewrite Ek in Hf. cbn [fst] in Hf.
  assert (k = N.to_nat (m - 2)) by lia. subst k.
  exists x. split; [exact Hk|]. split; [exact Ek|]. split; assumption.
Qed.

(* the take_while stops strictly inside the cut as soon as the cut holds an entry with index
   i0 >= max 2 (na ab 1) that fails the old condition: all entries up to index na ab 1 - 2 are zero, the
   entry with index na ab 1 - 1 is positive *)
Lemma enough_at : forall ab h keep i0, wf_ab ab -> steps_exact_class ab ->
  2 <= i0 -> na ab 1 <= i0 -> i0 + 2 <= na ab h ->
  (forall x, na ab x < i0 + 2 -> i0 + 2 <= na ab (x + 1) -> keep (N.to_nat i0) (i0 + 2, x) = false) ->
  Nat.ltb (length (take_while_nz keep 0 false (dmins_upto ab h))) (length (dmins_upto ab h)) = true.
Proof.
  intros ab h keep i0 Hwf Hc H2 H1 Hh Hkeep. set (l := dmins_upto ab h).
  destruct (dmins_entry ab h (i0 + 2) Hwf Hc ltac:(lia) Hh) as [x [Hk [Ek [Hx1 Hx2]]]].
  replace (i0 + 2 - 2) with i0 in * by lia. fold l in Hk, Ek.
  set (m0 := N.max (na ab 1) 1 + 1).
  destruct (dmins_entry ab h m0 Hwf Hc ltac:(lia) ltac:(lia)) as [x0 [Hk0 [Ek0 [Hy1 Hy2]]]].
  fold l in Hk0, Ek0.
  assert (Hx0 : x0 <> 0).
  { intros ->. change (0 + 1) with 1 in Hy2. lia. }
  apply Nat.ltb_lt. apply Nat.le_lt_trans with (m := N.to_nat i0); [|exact Hk].
  apply twn_stop; [exact Hk | |].
  - cbn [Nat.add]. rewrite Ek. apply Hkeep; assumption.
  - unfold nz_seen. cbn [orb]. apply existsb_exists. exists (m0, x0). split.
    + rewrite <- Ek0, <- (nth_firstn_lt (N.to_nat i0) l) by lia. apply nth_In. rewrite firstn_length. lia.
    + cbn [snd]. destruct (N.eqb_spec x0 0); [contradiction | reflexivity].
Qed.

(* the explicit horizons *)
Definition H0n (ab : AB) (G n : N) : N := G * (N.max (N.max 2 (n - 1)) (na ab 1) + 2).
Definition H0u (ab : AB) (G hz : N) : N := G * (N.max 2 (na ab (hz + 1)) + 2).

Theorem njobs_enough_beyond : forall ab G n h, wf_ab ab -> steps_exact_class ab -> steps_within ab G ->
  H0n ab G n <= h -> njobs_enough n (dmins_upto ab h) = true.
Proof.
  intros ab G n h Hwf Hc HG Hh. unfold H0n in Hh. set (i0 := N.max (N.max 2 (n - 1)) (na ab 1)) in *.
  pose proof (growth_linear (na ab) G (growth_of_steps_within ab G Hwf HG) (i0 + 2)) as Hlin.
  pose proof (na_mono ab Hwf _ _ Hh) as Hm.
  unfold njobs_enough. apply (enough_at ab h (njobs_keep n) i0 Hwf Hc); [lia | lia | lia|].
  intros x _ _. unfold njobs_keep. cbn [fst].
  destruct (N.leb_spec (i0 + 2) n); [lia|]. destruct (Nat.ltb_spec (N.to_nat i0) 2); [lia | reflexivity].
Qed.
Print Assumptions njobs_enough_beyond.

Theorem until_enough_beyond : forall ab G hz h, wf_ab ab -> steps_exact_class ab -> steps_within ab G ->
  H0u ab G hz <= h -> until_enough hz (dmins_upto ab h) = true.
Proof.
  intros ab G hz h Hwf Hc HG Hh. unfold H0u in Hh. set (i0 := N.max 2 (na ab (hz + 1))) in *.
  pose proof (growth_linear (na ab) G (growth_of_steps_within ab G Hwf HG) (i0 + 2)) as Hlin.
  pose proof (na_mono ab Hwf _ _ Hh) as Hm.
  pose proof (na_mono ab Hwf 1 (hz + 1) ltac:(lia)) as H1.
  unfold until_enough. apply (enough_at ab h (until_keep hz) i0 Hwf Hc); [lia | lia | lia|].
  intros x _ Hx. unfold until_keep. cbn [snd].
  destruct (N.leb_spec x hz) as [Hle|Hgt].
  - exfalso. pose proof (na_mono ab Hwf (x + 1) (hz + 1) ltac:(lia)). lia.
  - destruct (Nat.ltb_spec (N.to_nat i0) 2); [lia | reflexivity].
Qed.
Print Assumptions until_enough_beyond.

(* ------------------------------------------------------------------------------------------ *)
(* 4. the loop finds a horizon                                                                 *)
(* ------------------------------------------------------------------------------------------ *)
Lemma loop_reaches : forall (en : N -> bool) H0 h0, (forall h, H0 <= h -> en h = true) ->
  H0 <= N.max h0 1 * 2 ^ 63 -> exists j, (j < 64)%nat /\ en (N.max h0 1 * 2 ^ N.of_nat j) = true.
Proof.
  intros en H0 h0 Hen Hb. exists 63%nat. split; [lia|]. apply Hen. change (N.of_nat 63) with 63. exact Hb.
Qed.

(* for every start horizon h0 *)
Theorem njobs_loop_finds_from : forall ab G n h0, wf_ab ab -> steps_exact_class ab -> steps_within ab G ->
  H0n ab G n <= N.max h0 1 * 2 ^ 63 ->
  exists j, (j < 64)%nat /\ njobs_enough n (dmins_upto ab (N.max h0 1 * 2 ^ N.of_nat j)) = true.
Proof.
  intros ab G n h0 Hwf Hc HG Hb.
  apply (loop_reaches (fun h => njobs_enough n (dmins_upto ab h)) (H0n ab G n) h0); [|exact Hb].
  intros h Hh. apply (njobs_enough_beyond ab G); assumption.
Qed.
Print Assumptions njobs_loop_finds_from.

Theorem until_loop_finds_from : forall ab G hz h0, wf_ab ab -> steps_exact_class ab -> steps_within ab G ->
  H0u ab G hz <= N.max h0 1 * 2 ^ 63 ->
  exists j, (j < 64)%nat /\ until_enough hz (dmins_upto ab (N.max h0 1 * 2 ^ N.of_nat j)) = true.
Proof.
  intros ab G hz h0 Hwf Hc HG Hb.
  apply (loop_reaches (fun h => until_enough hz (dmins_upto ab h)) (H0u ab G hz) h0); [|exact Hb].
  intros h Hh. apply (until_enough_beyond ab G); assumption.
Qed.
Print Assumptions until_loop_finds_from.

(* the start horizons of the two conversions *)
Theorem njobs_loop_finds : forall ab G n, wf_ab ab -> steps_exact_class ab -> steps_within ab G ->
  H0n ab G n <= N.max 4 1 * 2 ^ 63 ->
  exists j, (j < 64)%nat /\ njobs_enough n (dmins_upto ab (N.max 4 1 * 2 ^ N.of_nat j)) = true.
Proof.
  intros ab G n Hwf Hc HG Hb.
  apply (loop_reaches (fun h => njobs_enough n (dmins_upto ab h)) (H0n ab G n) 4); [|exact Hb].
  intros h Hh. apply (njobs_enough_beyond ab G); assumption.
Qed.
Print Assumptions njobs_loop_finds.

Theorem until_loop_finds : forall ab G hz, wf_ab ab -> steps_exact_class ab -> steps_within ab G ->
  H0u ab G hz <= N.max (hz + 2) 1 * 2 ^ 63 ->
  exists j, (j < 64)%nat /\ until_enough hz (dmins_upto ab (N.max (hz + 2) 1 * 2 ^ N.of_nat j)) = true.
Proof.
  intros ab G hz Hwf Hc HG Hb.
  apply (loop_reaches (fun h => until_enough hz (dmins_upto ab h)) (H0u ab G hz) (hz + 2)); [|exact Hb].
  intros h Hh. apply (until_enough_beyond ab G); assumption.
Qed.
Print Assumptions until_loop_finds.

(* the loop stops at the FIRST of its horizons that decides [enough]; by monotonicity this is the first
   horizon of the sequence above the least deciding one *)
Theorem njobs_loop_first : forall ab n j, wf_ab ab -> steps_exact_class ab ->
  njobs_enough n (dmins_upto ab (N.max 4 1 * 2 ^ N.of_nat j)) = true ->
  forall j', (j <= j')%nat -> njobs_enough n (dmins_upto ab (N.max 4 1 * 2 ^ N.of_nat j')) = true.
Proof.
  intros ab n j Hwf Hc H j' Hj. refine (njobs_enough_mono ab n _ _ Hwf Hc _ H).
  apply N.mul_le_mono_l. apply N.pow_le_mono_r; lia.
Qed.
Print Assumptions njobs_loop_first.

Theorem until_loop_first : forall ab hz j, wf_ab ab -> steps_exact_class ab ->
  until_enough hz (dmins_upto ab (N.max (hz + 2) 1 * 2 ^ N.of_nat j)) = true ->
  forall j', (j <= j')%nat -> until_enough hz (dmins_upto ab (N.max (hz + 2) 1 * 2 ^ N.of_nat j')) = true.
Proof.
  intros ab hz j Hwf Hc H j' Hj. refine (until_enough_mono ab hz _ _ Hwf Hc _ H).
  apply N.mul_le_mono_l. apply N.pow_le_mono_r; lia.
Qed.
Print Assumptions until_loop_first.

(* ---------- the theorems of ConvProofs.v without the loop hypothesis ---------- *)
Section General.
  Variables (ab : AB) (G : N).
  Hypothesis Hwf : wf_ab ab.
  Hypothesis Hc : steps_exact_class ab.
  Hypothesis HG : steps_within ab G.

  Theorem curve_from_ab_wf_gap : forall n, H0n ab G n <= 2 ^ 65 -> wf_dmin (curve_from_ab ab n).
  Proof.
    intros n Hb. change (2 ^ 65) with (N.max 4 1 * 2 ^ 63) in Hb.
    destruct (njobs_loop_finds ab G n Hwf Hc HG Hb) as [j [Hj Hen]].
    exact (curve_from_ab_wf ab n j Hwf Hc (steps_within_not_never ab G HG) Hj Hen).
  Qed.

  Theorem curve_from_ab_length_gap : forall n, H0n ab G n <= 2 ^ 65 ->
    N.max 2 (n - 1) <= lenN (curve_from_ab ab n) /\
    0 < lastN (curve_from_ab ab n) /\
    (forall k, N.max 2 (n - 1) <= N.of_nat k -> (k < length (curve_from_ab ab n))%nat ->
       nthN (curve_from_ab ab n) (k - 1) = 0).
  Proof.
    intros n Hb. change (2 ^ 65) with (N.max 4 1 * 2 ^ 63) in Hb.
    destruct (njobs_loop_finds ab G n Hwf Hc HG Hb) as [j [Hj Hen]].
    exact (curve_from_ab_length ab n j Hwf Hc (steps_within_not_never ab G HG) Hj Hen).
  Qed.

  Theorem curve_from_ab_until_wf_gap : forall hz, H0u ab G hz <= (hz + 2) * 2 ^ 63 ->
    wf_dmin (curve_from_ab_until ab hz).
  Proof.
    intros hz Hb. replace (hz + 2) with (N.max (hz + 2) 1) in Hb by lia.
    destruct (until_loop_finds ab G hz Hwf Hc HG Hb) as [j [Hj Hen]].
    exact (curve_from_ab_until_wf ab hz j Hwf Hc (steps_within_not_never ab G HG) Hj Hen).
  Qed.

  Theorem curve_from_ab_until_covers_gap : forall hz, H0u ab G hz <= (hz + 2) * 2 ^ 63 ->
    (2 <= length (curve_from_ab_until ab hz))%nat /\
    na ab (hz + 1) <= lenN (curve_from_ab_until ab hz) + 1 /\
    0 < lastN (curve_from_ab_until ab hz) /\
    (forall i, (2 <= i)%nat -> (i < length (curve_from_ab_until ab hz))%nat ->
       nthN (curve_from_ab_until ab hz) i <= hz \/
       (forall k, (k < i)%nat -> nthN (curve_from_ab_until ab hz) k = 0)).
  Proof.
    intros hz Hb. replace (hz + 2) with (N.max (hz + 2) 1) in Hb by lia.
    destruct (until_loop_finds ab G hz Hwf Hc HG Hb) as [j [Hj Hen]].
    exact (curve_from_ab_until_covers ab hz j Hwf Hc (steps_within_not_never ab G HG) Hj Hen).
  Qed.

  (* a sub-additive source is dominated everywhere *)
  Hypothesis Hsub : forall a b, na ab (a + b) <= na ab a + na ab b.

  Theorem curve_from_ab_dominates_gap : forall n, H0n ab G n <= 2 ^ 65 ->
    forall delta, na ab delta <= curve_na (curve_from_ab ab n) delta.
  Proof.
    intros n Hb. destruct (curve_from_ab_wf_gap n Hb) as [Hne [_ Hl]].
    apply curve_from_ab_dominates; assumption.
  Qed.

  Theorem curve_from_ab_until_dominates_gap : forall hz, H0u ab G hz <= (hz + 2) * 2 ^ 63 ->
    forall delta, na ab delta <= curve_na (curve_from_ab_until ab hz) delta.
  Proof.
    intros hz Hb. destruct (curve_from_ab_until_wf_gap hz Hb) as [Hne [_ Hl]].
    apply curve_from_ab_until_dominates; assumption.
  Qed.
End General.
Print Assumptions curve_from_ab_wf_gap.
Print Assumptions curve_from_ab_length_gap.
Print Assumptions curve_from_ab_until_wf_gap.
Print Assumptions curve_from_ab_until_covers_gap.
Print Assumptions curve_from_ab_dominates_gap.
Print Assumptions curve_from_ab_until_dominates_gap.

(* ------------------------------------------------------------------------------------------ *)
(* 5. instances                                                                                *)
(* ------------------------------------------------------------------------------------------ *)
Lemma div_ceil_grows : forall a T, 1 <= T -> div_ceil a T + 1 <= div_ceil (a + T) T.
Proof.
  intros a T HT. apply div_ceil_le; [exact HT|]. destruct (div_ceil_spec a T HT) as [_ H]. lia.
Qed.

Lemma div_ceil_le_self : forall a T, 1 <= T -> div_ceil a T <= a.
Proof.
  intros a T HT. apply div_ceil_ge; [exact HT|]. pose proof (N.mul_le_mono_l 1 T a HT). lia.
Qed.

Lemma div_ceil_pos : forall a T, 1 <= T -> 0 < a -> 1 <= div_ceil a T.
Proof. intros a T HT Ha. apply div_ceil_le; [exact HT | lia]. Qed.

Lemma mul_bound : forall a b A B C, a <= A -> b <= B -> A * B <= C -> a * b <= C.
Proof. intros a b A B C Ha Hb HC. pose proof (N.mul_le_mono a A b B Ha Hb). lia. Qed.

(* ---------- Periodic ---------- *)
Lemma periodic_steps_within : forall T, 1 <= T -> steps_within (Periodic T) T.
Proof.
  intros T HT. apply steps_within_of_growth. intros x. cbn [na]. pose proof (div_ceil_grows x T HT). lia.
Qed.

Lemma periodic_pos : forall T, 1 <= T -> forall x, 0 < x -> 1 <= na (Periodic T) x.
Proof. intros T HT x Hx. cbn [na]. apply div_ceil_pos; assumption. Qed.

Lemma periodic_H0n : forall T n, 1 <= T -> T < 2 ^ 31 -> n < 2 ^ 31 -> H0n (Periodic T) T n <= 2 ^ 65.
Proof.
  intros T n HT HTb Hn. unfold H0n. cbn [na]. pose proof (div_ceil_le_self 1 T HT) as H1.
  apply (mul_bound _ _ (2 ^ 31) (2 ^ 31 + 2)); [lia | lia | vm_compute; discriminate].
Qed.

Lemma periodic_H0u : forall T hz, 1 <= T -> T < 2 ^ 31 -> hz < 2 ^ 31 ->
  H0u (Periodic T) T hz <= (hz + 2) * 2 ^ 63.
Proof.
  intros T hz HT HTb Hhz. unfold H0u. cbn [na]. pose proof (div_ceil_le_self (hz + 1) T HT) as H1.
  apply N.le_trans with (m := 2 * 2 ^ 63); [|apply N.mul_le_mono_r; lia].
  apply (mul_bound _ _ (2 ^ 31) (2 ^ 31 + 2)); [lia | lia | vm_compute; discriminate].
Qed.

Theorem curve_from_ab_periodic_wf : forall T n, 1 <= T -> T < 2 ^ 31 -> n < 2 ^ 31 ->
  wf_dmin (curve_from_ab (Periodic T) n).
Proof.
  intros T n HT HTb Hn. apply (curve_from_ab_wf_gap (Periodic T) T HT I (periodic_steps_within T HT)).
  apply periodic_H0n; assumption.
Qed.
Print Assumptions curve_from_ab_periodic_wf.

Theorem curve_from_ab_until_periodic_wf : forall T hz, 1 <= T -> T < 2 ^ 31 -> hz < 2 ^ 31 ->
  wf_dmin (curve_from_ab_until (Periodic T) hz).
Proof.
  intros T hz HT HTb Hhz. apply (curve_from_ab_until_wf_gap (Periodic T) T HT I (periodic_steps_within T HT)).
  apply periodic_H0u; assumption.
Qed.
Print Assumptions curve_from_ab_until_periodic_wf.

Theorem curve_from_ab_periodic_dominates : forall T n, 1 <= T -> T < 2 ^ 31 -> n < 2 ^ 31 ->
  forall delta, na (Periodic T) delta <= curve_na (curve_from_ab (Periodic T) n) delta.
Proof.
  intros T n HT HTb Hn. apply (curve_from_ab_dominates_gap (Periodic T) T HT I (periodic_steps_within T HT)).
  - intros a b. apply periodic_subadditive. exact HT.
  - apply periodic_H0n; assumption.
Qed.
Print Assumptions curve_from_ab_periodic_dominates.

Theorem curve_from_ab_until_periodic_dominates : forall T hz, 1 <= T -> T < 2 ^ 31 -> hz < 2 ^ 31 ->
  forall delta, na (Periodic T) delta <= curve_na (curve_from_ab_until (Periodic T) hz) delta.
Proof.
  intros T hz HT HTb Hhz. apply (curve_from_ab_until_dominates_gap (Periodic T) T HT I (periodic_steps_within T HT)).
  - intros a b. apply periodic_subadditive. exact HT.
  - apply periodic_H0u; assumption.
Qed.
Print Assumptions curve_from_ab_until_periodic_dominates.

(* exactness up to and including the last entry needs no magnitude bound *)
Theorem curve_from_ab_periodic_exact_upto_last : forall T n, 1 <= T ->
  forall delta, delta <= lastN (curve_from_ab (Periodic T) n) ->
  curve_na (curve_from_ab (Periodic T) n) delta = na (Periodic T) delta.
Proof. intros T n HT. apply curve_from_ab_exact_upto_last; [exact HT | exact I | apply periodic_pos; exact HT]. Qed.
Print Assumptions curve_from_ab_periodic_exact_upto_last.

Theorem curve_from_ab_until_periodic_exact_upto_last : forall T hz, 1 <= T ->
  forall delta, delta <= lastN (curve_from_ab_until (Periodic T) hz) ->
  curve_na (curve_from_ab_until (Periodic T) hz) delta = na (Periodic T) delta.
Proof. intros T hz HT. apply curve_from_ab_until_exact_upto_last; [exact HT | exact I | apply periodic_pos; exact HT]. Qed.
Print Assumptions curve_from_ab_until_periodic_exact_upto_last.

Theorem curve_from_ab_periodic_length : forall T n, 1 <= T -> T < 2 ^ 31 -> n < 2 ^ 31 ->
  lenN (curve_from_ab (Periodic T) n) = N.max 2 (n - 1).
Proof.
  intros T n HT HTb Hn.
  destruct (njobs_loop_finds (Periodic T) T n HT I (periodic_steps_within T HT) (periodic_H0n T n HT HTb Hn)) as [j [Hj Hen]].
  apply (curve_from_ab_length_old (Periodic T) n j HT I eq_refl Hj Hen).
  cbn [na]. pose proof (div_ceil_le_self 1 T HT). lia.
Qed.
Print Assumptions curve_from_ab_periodic_length.

(* ---------- Sporadic ---------- *)
Lemma sporadic_steps_within : forall T J, 1 <= T -> steps_within (Sporadic T J) T.
Proof.
  intros T J HT. apply steps_within_of_growth. intros x. cbn [na].
  destruct (N.eqb_spec (x + T) 0) as [E|E]; [lia|].
  destruct (N.eqb_spec x 0) as [->|Hx].
  - pose proof (div_ceil_pos (0 + T + J) T HT ltac:(lia)). lia.
  - pose proof (div_ceil_grows (x + J) T HT) as H. replace (x + J + T) with (x + T + J) in H by lia. lia.
Qed.

Lemma sporadic_pos : forall T J, 1 <= T -> forall x, 0 < x -> 1 <= na (Sporadic T J) x.
Proof.
  intros T J HT x Hx. cbn [na]. destruct (N.eqb_spec x 0); [lia|]. apply div_ceil_pos; [exact HT | lia].
Qed.

Lemma sporadic_H0n : forall T J n, 1 <= T -> T < 2 ^ 31 -> J < 2 ^ 31 -> n < 2 ^ 31 ->
  H0n (Sporadic T J) T n <= 2 ^ 65.
Proof.
  intros T J n HT HTb HJ Hn. unfold H0n. cbn [na]. change (1 =? 0) with false. cbv iota.
  pose proof (div_ceil_le_self (1 + J) T HT) as H1.
  apply (mul_bound _ _ (2 ^ 31) (2 ^ 31 + 2)); [lia | lia | vm_compute; discriminate].
Qed.

Lemma sporadic_H0u : forall T J hz, 1 <= T -> T < 2 ^ 31 -> J < 2 ^ 31 -> hz < 2 ^ 31 ->
  H0u (Sporadic T J) T hz <= (hz + 2) * 2 ^ 63.
Proof.
  intros T J hz HT HTb HJ Hhz. unfold H0u. cbn [na]. destruct (N.eqb_spec (hz + 1) 0) as [E|_]; [lia|].
  pose proof (div_ceil_le_self (hz + 1 + J) T HT) as H1.
  apply N.le_trans with (m := 2 * 2 ^ 63); [|apply N.mul_le_mono_r; lia].
  apply (mul_bound _ _ (2 ^ 31) (2 ^ 32 + 2)); [lia | lia | vm_compute; discriminate].
Qed.

Theorem curve_from_ab_sporadic_wf : forall T J n, 1 <= T -> T < 2 ^ 31 -> J < 2 ^ 31 -> n < 2 ^ 31 ->
  wf_dmin (curve_from_ab (Sporadic T J) n).
Proof.
  intros T J n HT HTb HJ Hn. apply (curve_from_ab_wf_gap (Sporadic T J) T HT I (sporadic_steps_within T J HT)).
  apply sporadic_H0n; assumption.
Qed.
Print Assumptions curve_from_ab_sporadic_wf.

Theorem curve_from_ab_until_sporadic_wf : forall T J hz, 1 <= T -> T < 2 ^ 31 -> J < 2 ^ 31 -> hz < 2 ^ 31 ->
  wf_dmin (curve_from_ab_until (Sporadic T J) hz).
Proof.
  intros T J hz HT HTb HJ Hhz.
  apply (curve_from_ab_until_wf_gap (Sporadic T J) T HT I (sporadic_steps_within T J HT)).
  apply sporadic_H0u; assumption.
Qed.
Print Assumptions curve_from_ab_until_sporadic_wf.

Theorem curve_from_ab_sporadic_dominates : forall T J n, 1 <= T -> T < 2 ^ 31 -> J < 2 ^ 31 -> n < 2 ^ 31 ->
  forall delta, na (Sporadic T J) delta <= curve_na (curve_from_ab (Sporadic T J) n) delta.
Proof.
  intros T J n HT HTb HJ Hn.
  apply (curve_from_ab_dominates_gap (Sporadic T J) T HT I (sporadic_steps_within T J HT)).
  - intros a b. apply sporadic_subadditive. exact HT.
  - apply sporadic_H0n; assumption.
Qed.
Print Assumptions curve_from_ab_sporadic_dominates.

Theorem curve_from_ab_until_sporadic_dominates : forall T J hz, 1 <= T -> T < 2 ^ 31 -> J < 2 ^ 31 -> hz < 2 ^ 31 ->
  forall delta, na (Sporadic T J) delta <= curve_na (curve_from_ab_until (Sporadic T J) hz) delta.
Proof.
  intros T J hz HT HTb HJ Hhz.
  apply (curve_from_ab_until_dominates_gap (Sporadic T J) T HT I (sporadic_steps_within T J HT)).
  - intros a b. apply sporadic_subadditive. exact HT.
  - apply sporadic_H0u; assumption.
Qed.
Print Assumptions curve_from_ab_until_sporadic_dominates.

Theorem curve_from_ab_sporadic_exact_upto_last : forall T J n, 1 <= T ->
  forall delta, delta <= lastN (curve_from_ab (Sporadic T J) n) ->
  curve_na (curve_from_ab (Sporadic T J) n) delta = na (Sporadic T J) delta.
Proof. intros T J n HT. apply curve_from_ab_exact_upto_last; [exact HT | exact I | apply sporadic_pos; exact HT]. Qed.
Print Assumptions curve_from_ab_sporadic_exact_upto_last.

Theorem curve_from_ab_until_sporadic_exact_upto_last : forall T J hz, 1 <= T ->
  forall delta, delta <= lastN (curve_from_ab_until (Sporadic T J) hz) ->
  curve_na (curve_from_ab_until (Sporadic T J) hz) delta = na (Sporadic T J) delta.
Proof. intros T J hz HT. apply curve_from_ab_until_exact_upto_last; [exact HT | exact I | apply sporadic_pos; exact HT]. Qed.
Print Assumptions curve_from_ab_until_sporadic_exact_upto_last.

(* size and coverage of the results *)
Theorem curve_from_ab_sporadic_length : forall T J n, 1 <= T -> T < 2 ^ 31 -> J < 2 ^ 31 -> n < 2 ^ 31 ->
  N.max 2 (n - 1) <= lenN (curve_from_ab (Sporadic T J) n) /\
  (na (Sporadic T J) 1 < N.max n 3 -> lenN (curve_from_ab (Sporadic T J) n) = N.max 2 (n - 1)).
Proof.
  intros T J n HT HTb HJ Hn.
  destruct (njobs_loop_finds (Sporadic T J) T n HT I (sporadic_steps_within T J HT)
              (sporadic_H0n T J n HT HTb HJ Hn)) as [j [Hj Hen]].
  split.
  - apply (curve_from_ab_length (Sporadic T J) n j HT I eq_refl Hj Hen).
  - apply (curve_from_ab_length_old (Sporadic T J) n j HT I eq_refl Hj Hen).
Qed.
Print Assumptions curve_from_ab_sporadic_length.

Theorem curve_from_ab_until_sporadic_covers : forall T J hz, 1 <= T -> T < 2 ^ 31 -> J < 2 ^ 31 -> hz < 2 ^ 31 ->
  (2 <= length (curve_from_ab_until (Sporadic T J) hz))%nat /\
  na (Sporadic T J) (hz + 1) <= lenN (curve_from_ab_until (Sporadic T J) hz) + 1.
Proof.
  intros T J hz HT HTb HJ Hhz.
  destruct (curve_from_ab_until_covers_gap (Sporadic T J) T HT I (sporadic_steps_within T J HT) hz
              (sporadic_H0u T J hz HT HTb HJ Hhz)) as [H1 [H2 _]].
  split; assumption.
Qed.
Print Assumptions curve_from_ab_until_sporadic_covers.

(* ---------- From<Sporadic> for Curve ---------- *)
Lemma curve_of_sporadic_H0n : forall T J, 1 <= T -> T < 2 ^ 31 -> J < 2 ^ 31 ->
  H0n (Sporadic T J) T (N.max 500 (div_ceil J T * 10)) <= 2 ^ 65.
Proof.
  intros T J HT HTb HJ. unfold H0n. cbn [na]. change (1 =? 0) with false. cbv iota.
  pose proof (div_ceil_le_self (1 + J) T HT) as H1.
  destruct (div_ceil_spec J T HT) as [_ H2].
  set (c := div_ceil J T) in *. set (f1 := div_ceil (1 + J) T) in *.
  apply N.le_trans with (m := T * (10 * c + (J + 504))); [apply N.mul_le_mono_l; lia|].
  rewrite N.mul_add_distr_l.
  assert (H3 : T * (J + 504) <= 2 ^ 31 * (2 ^ 31 + 504)) by (apply N.mul_le_mono; lia).
  replace (T * (10 * c)) with (10 * (c * T)) by lia.
  assert (H4 : 2 ^ 31 * (2 ^ 31 + 504) + 10 * (2 ^ 31 + 2 ^ 31) <= 2 ^ 65) by (vm_compute; discriminate).
  lia.
Qed.

Theorem curve_of_sporadic_wf : forall T J, 1 <= T -> T < 2 ^ 31 -> J < 2 ^ 31 -> wf_dmin (curve_of_sporadic T J).
Proof.
  intros T J HT HTb HJ. unfold curve_of_sporadic.
  apply (curve_from_ab_wf_gap (Sporadic T J) T HT I (sporadic_steps_within T J HT)).
  apply curve_of_sporadic_H0n; assumption.
Qed.
Print Assumptions curve_of_sporadic_wf.

Theorem curve_of_sporadic_dominates : forall T J, 1 <= T -> T < 2 ^ 31 -> J < 2 ^ 31 ->
  forall delta, na (Sporadic T J) delta <= curve_na (curve_of_sporadic T J) delta.
Proof.
  intros T J HT HTb HJ. unfold curve_of_sporadic.
  apply (curve_from_ab_dominates_gap (Sporadic T J) T HT I (sporadic_steps_within T J HT)).
  - intros a b. apply sporadic_subadditive. exact HT.
  - apply curve_of_sporadic_H0n; assumption.
Qed.
Print Assumptions curve_of_sporadic_dominates.

Theorem curve_of_sporadic_exact_upto_last : forall T J, 1 <= T ->
  forall delta, delta <= lastN (curve_of_sporadic T J) ->
  curve_na (curve_of_sporadic T J) delta = na (Sporadic T J) delta.
Proof. intros T J HT. unfold curve_of_sporadic. apply curve_from_ab_sporadic_exact_upto_last. exact HT. Qed.
Print Assumptions curve_of_sporadic_exact_upto_last.

(* at least max 500 (10 * ceil(J / T)) - 1 entries: every burst is covered *)
Theorem curve_of_sporadic_length : forall T J, 1 <= T -> T < 2 ^ 31 -> J < 2 ^ 31 ->
  lenN (curve_of_sporadic T J) = N.max 500 (div_ceil J T * 10) - 1.
Proof.
  intros T J HT HTb HJ. unfold curve_of_sporadic. set (n := N.max 500 (div_ceil J T * 10)).
  destruct (njobs_loop_finds (Sporadic T J) T n HT I (sporadic_steps_within T J HT)
              (curve_of_sporadic_H0n T J HT HTb HJ)) as [j [Hj Hen]].
  rewrite (curve_from_ab_length_old (Sporadic T J) n j HT I eq_refl Hj Hen); [lia|].
  cbn [na]. change (1 =? 0) with false. cbv iota.
  pose proof (div_ceil_subadd 1 J T HT) as H1. pose proof (div_ceil_le_self 1 T HT) as H2. lia.
Qed.
Print Assumptions curve_of_sporadic_length.

(* ---------- Propagated and sums: the condition is inherited ---------- *)
Lemma propagated_steps_within : forall J a G, wf_ab a -> 1 <= G -> steps_within a G ->
  steps_within (Propagated J a) G.
Proof.
  intros J a G Hwf HG H. apply steps_within_of_growth. pose proof (growth_of_steps_within a G Hwf H) as Hg.
  intros x. cbn [na]. destruct (N.eqb_spec (x + G) 0) as [E|_]; [lia|].
  destruct (N.eqb_spec x 0) as [->|Hx].
  - pose proof (Hg 0) as H0. pose proof (na_mono a Hwf (0 + G) (0 + G + J) ltac:(lia)). lia.
  - pose proof (Hg (x + J)) as H1. replace (x + J + G) with (x + G + J) in H1 by lia. exact H1.
Qed.

Lemma sum_steps_within : forall l a G, wf_ab (SumAB l) -> In a l -> steps_within a G -> steps_within (SumAB l) G.
Proof.
  intros l a G Hwf Hin H. apply steps_within_of_growth. apply wf_sum in Hwf.
  assert (Hwa : wf_ab a) by (rewrite Forall_forall in Hwf; apply Hwf; exact Hin).
  pose proof (growth_of_steps_within a G Hwa H) as Hg. intros x. cbn [na].
  apply (sum_increases na l); [|lia|].
  - rewrite Forall_forall in *. intros b Hb u v Huv. apply na_mono; [apply Hwf; exact Hb | exact Huv].
  - exists a. split; [exact Hin | apply Hg].
Qed.

Lemma sec_propagated : forall J a, steps_exact_class (Propagated J a) = steps_exact_class a.
Proof. reflexivity. Qed.

(* jittered release of a sporadic source (Propagated J' (Sporadic T J)): usable whenever the loop bound holds *)
Theorem curve_from_ab_propagated_wf : forall J a G n, wf_ab a -> steps_exact_class a -> 1 <= G ->
  steps_within a G -> H0n (Propagated J a) G n <= 2 ^ 65 -> wf_dmin (curve_from_ab (Propagated J a) n).
Proof.
  intros J a G n Hwf Hc HG H Hb.
  exact (curve_from_ab_wf_gap (Propagated J a) G Hwf Hc (propagated_steps_within J a G Hwf HG H) n Hb).
Qed.
Print Assumptions curve_from_ab_propagated_wf.

Theorem curve_from_ab_sum_wf : forall l a G n, wf_ab (SumAB l) -> steps_exact_class (SumAB l) -> In a l ->
  steps_within a G -> H0n (SumAB l) G n <= 2 ^ 65 -> wf_dmin (curve_from_ab (SumAB l) n).
Proof.
  intros l a G n Hwf Hc Hin H Hb.
  exact (curve_from_ab_wf_gap (SumAB l) G Hwf Hc (sum_steps_within l a G Hwf Hin H) n Hb).
Qed.
Print Assumptions curve_from_ab_sum_wf.

(* ---------- regression: the horizons found for the examples of the task ---------- *)
Example link_examples :
  curve_from_ab (Sporadic 3 7) 3 = [0; 0; 2] /\ H0n (Sporadic 3 7) 3 3 = 15 /\
  curve_from_ab_until (Sporadic 10 0) 25 = [10; 20] /\ H0u (Sporadic 10 0) 10 25 = 50 /\
  njobs_enough 3 (dmins_upto (Sporadic 3 7) 15) = true /\ until_enough 25 (dmins_upto (Sporadic 10 0) 50) = true.
Proof. repeat split; vm_compute; reflexivity. Qed.
