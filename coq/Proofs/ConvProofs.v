(* ConvProofs.v — property C12: derived arrival curves dominate their source and are exact on the
   covered prefix.
   1. Curve::from_trace: the inferred vector is the vector of minimum spans, is respected by the
      trace and bounds every window of it,
   2. dmin.rs: the delta-min iterator is the exact dual of number_arrivals,
   3. a delta-min vector read off a sub-additive source dominates it and is exact on its prefix;
      Curve::from_arrival_bound(_until) and From<Periodic> produce such vectors,
   4. ArrivalCurvePrefix::from_arrival_bound_until: exact up to the horizon, dominates beyond. *)
From Coq Require Import List NArith Arith Lia Bool Sorting.Sorted.
From Coq Require Import ZifyBool.
From RTA.Model Require Import Base Arrival WellFormed.
From RTA.Spec Require Import Events.
From RTA.Proofs Require Import FixedPointProofs ArrivalNaProofs StepsProofs.
Import ListNotations.
Local Open Scope N_scope.

(* ------------------------------------------------------------------------------------------ *)
(* 1. Curve::from_trace                                                                        *)
(* ------------------------------------------------------------------------------------------ *)
Definition trace_N (ts : list nat) : list N := map N.of_nat ts.

Lemma upd_min_length : forall d g, length (upd_min d g) = Nat.max (length d) (length g).
Proof.
  induction d as [|x d IH]; intros [|y g]; cbn [upd_min length]; try lia.
  rewrite IH. lia.
Qed.

Lemma upd_min_nth : forall d g i,
  nthN (upd_min d g) i =
  if (i <? length d)%nat
  then (if (i <? length g)%nat then N.min (nthN d i) (nthN g i) else nthN d i)
  else nthN g i.
Proof.
  unfold nthN. induction d as [|x d IH]; intros [|y g] i.
  - cbn [upd_min length]. destruct (Nat.ltb_spec i 0); [lia | reflexivity].
  - cbn [upd_min length]. destruct (Nat.ltb_spec i 0); [lia | reflexivity].
  - cbn [upd_min]. change (length (@nil N)) with O.
    destruct (Nat.ltb_spec i 0); [lia|].
    destruct (Nat.ltb_spec i (length (x :: d))); [reflexivity|].
    rewrite !nth_overflow; [reflexivity | cbn [length]; lia | lia].
  - cbn [upd_min]. destruct i as [|i]; cbn [nth length].
    + reflexivity.
    + rewrite IH.
      destruct (Nat.ltb_spec i (length d)); destruct (Nat.ltb_spec (S i) (S (length d))); try lia;
      destruct (Nat.ltb_spec i (length g)); destruct (Nat.ltb_spec (S i) (S (length g))); try lia; reflexivity.
Qed.

Lemma nth_firstn_lt : forall {A} k (l : list A) i a, (i < k)%nat -> nth i (firstn k l) a = nth i l a.
Proof.
  intros A k. induction k as [|k IH]; intros l i a Hi; [lia|].
  destruct l as [|x l]; [reflexivity|]. cbn [firstn]. destruct i as [|i]; cbn [nth]; [reflexivity|].
  apply IH. lia.
Qed.

Lemma firstn_cons_firstn : forall {A} k (t : A) l, firstn k (t :: firstn k l) = firstn k (t :: l).
Proof.
  intros A [|k] t l; [reflexivity|].
  change (firstn (S k) (t :: firstn (S k) l)) with (t :: firstn k (firstn (S k) l)).
  change (firstn (S k) (t :: l)) with (t :: firstn k l). f_equal.
  rewrite firstn_firstn. f_equal. lia.
Qed.

(* the span of i + 2 consecutive events starting at position j *)
Definition span (l : list N) (j i : nat) : N := nthN l (j + i + 1) - nthN l j.

Definition tr_inv (k : nat) (done d window : list N) : Prop :=
  window = firstn k (rev done) /\
  length d = Nat.min k (length done - 1) /\
  (forall i j, (i < length d)%nat -> (j + i + 1 < length done)%nat -> nthN d i <= span done j i) /\
  (forall i, (i < length d)%nat -> exists j, (j + i + 1 < length done)%nat /\ nthN d i = span done j i).

Lemma tr_inv_init : forall k, tr_inv k [] [] [].
Proof.
  intros k. unfold tr_inv. cbn [rev length]. rewrite firstn_nil.
  split; [reflexivity|]. split; [lia|]. split; intros; lia.
Qed.

Lemma tr_inv_step : forall k done d w t, tr_inv k done d w ->
  tr_inv k (done ++ [t]) (upd_min d (map (fun v => t - v) w)) (firstn k (t :: w)).
Proof.
  intros k done d w t [Hw [Hlen [Hlo Hat]]].
  set (n := length done) in *.
  set (g := map (fun v => t - v) w).
  assert (Hglen : length g = Nat.min k n).
  { unfold g. rewrite map_length, Hw, firstn_length, rev_length. reflexivity. }
  assert (Hg : forall i, (i < Nat.min k n)%nat -> nthN g i = t - nthN done (n - 1 - i)).
  { intros i Hi. unfold g, nthN. rewrite (nth_map_N _ _ 0) by (rewrite <- Hglen in Hi; unfold g in Hi; rewrite map_length in Hi; exact Hi).
    rewrite Hw, nth_firstn_lt by lia. rewrite rev_nth by (fold n; lia). fold n.
    replace (n - S i)%nat with (n - 1 - i)%nat by lia. reflexivity. }
  assert (Hd1 : forall j, (j < n)%nat -> nthN (done ++ [t]) j = nthN done j).
  { intros j Hj. unfold nthN. apply app_nth1. exact Hj. }
  assert (Hd2 : nthN (done ++ [t]) n = t).
  { unfold nthN. rewrite app_nth2 by (fold n; lia). fold n. rewrite Nat.sub_diag. reflexivity. }
  assert (Hlen' : length (upd_min d g) = Nat.min k n).
  { rewrite upd_min_length, Hlen, Hglen. lia. }
  assert (Hnew : forall i, (i < Nat.min k n)%nat -> span (done ++ [t]) (n - 1 - i) i = nthN g i).
  { intros i Hi. unfold span. replace (n - 1 - i + i + 1)%nat with n by lia.
    rewrite Hd2, Hd1 by lia. symmetry. apply Hg. exact Hi. }
  assert (Hold : forall i j, (j + i + 1 < n)%nat -> span (done ++ [t]) j i = span done j i).
  { intros i j Hj. unfold span. rewrite !Hd1 by lia. reflexivity. }
  unfold tr_inv. rewrite app_length. cbn [length]. fold n.
  split; [|split; [|split]].
  - rewrite Hw, firstn_cons_firstn, rev_app_distr. reflexivity.
  - rewrite Hlen'. lia.
  - intros i j Hi Hj. rewrite Hlen' in Hi. rewrite upd_min_nth, Hglen.
    destruct (Nat.ltb_spec i (Nat.min k n)) as [_|Hc]; [|lia].
    destruct (Nat.eq_dec (j + i + 1) n) as [E|NE].
    + replace j with (n - 1 - i)%nat by lia. rewrite Hnew by exact Hi.
      destruct (Nat.ltb_spec i (length d)); lia.
    + rewrite Hold by lia.
      destruct (Nat.ltb_spec i (length d)) as [Hid|Hid]; [|lia].
      specialize (Hlo i j Hid ltac:(lia)). lia.
  - intros i Hi. rewrite Hlen' in Hi. rewrite upd_min_nth, Hglen.
    destruct (Nat.ltb_spec i (Nat.min k n)) as [_|Hc]; [|lia].
    destruct (Nat.ltb_spec i (length d)) as [Hid|Hid].
    + destruct (N.le_ge_cases (nthN d i) (nthN g i)) as [Hm|Hm].
      * destruct (Hat i Hid) as [j [Hj Hj']]. exists j. split; [lia|].
        rewrite Hold by exact Hj. lia.
      * exists (n - 1 - i)%nat. split; [lia|]. rewrite Hnew by exact Hi. lia.
    + exists (n - 1 - i)%nat. split; [lia|]. rewrite Hnew by exact Hi. reflexivity.
Qed.

Lemma tr_inv_go : forall k ts done d w, tr_inv k done d w ->
  exists w', tr_inv k (done ++ ts) (from_trace_go k d w ts) w'.
Proof.
  intros k ts. induction ts as [|t ts IH]; intros done d w H.
  - exists w. rewrite app_nil_r. exact H.
  - cbn [from_trace_go]. destruct (IH _ _ _ (tr_inv_step k done d w t H)) as [w' H'].
    exists w'. rewrite <- app_assoc in H'. exact H'.
Qed.

Lemma from_trace_inv : forall ts k, exists w, tr_inv (N.to_nat k) ts (curve_from_trace ts k) w.
Proof.
  intros ts k. unfold curve_from_trace.
  destruct (tr_inv_go (N.to_nat k) ts [] [] [] (tr_inv_init _)) as [w H]. exists w. exact H.
Qed.

Lemma span_trace : forall ts j i,
  span (trace_N ts) j i = N.of_nat (nth (j + i + 1) ts 0%nat - nth j ts 0%nat).
Proof.
  intros ts j i. unfold span, trace_N, nthN.
  change 0 with (N.of_nat 0). rewrite !map_nth. lia.
Qed.

(* the three characterisations do not need the trace to be sorted *)
Lemma from_trace_length_gen : forall ts k,
  length (curve_from_trace (trace_N ts) k) = Nat.min (N.to_nat k) (length ts - 1).
Proof.
  intros ts k. destruct (from_trace_inv (trace_N ts) k) as [w [_ [H _]]].
  rewrite H. unfold trace_N. rewrite map_length. reflexivity.
Qed.

Theorem from_trace_length : forall ts k, sorted ts ->
  length (curve_from_trace (trace_N ts) k) = Nat.min (N.to_nat k) (length ts - 1).
Proof. intros ts k _. apply from_trace_length_gen. Qed.
Print Assumptions from_trace_length.

Lemma from_trace_lower_gen : forall ts k i j, (i < N.to_nat k)%nat -> (j + i + 1 < length ts)%nat ->
  nthN (curve_from_trace (trace_N ts) k) i <= N.of_nat (nth (j + i + 1) ts 0%nat - nth j ts 0%nat).
Proof.
  intros ts k i j Hi Hj. destruct (from_trace_inv (trace_N ts) k) as [w [_ [Hl [Hlo _]]]].
  unfold trace_N in Hl, Hlo. rewrite map_length in Hl, Hlo. fold (trace_N ts) in Hl, Hlo.
  rewrite <- span_trace. apply Hlo; [rewrite Hl; lia | exact Hj].
Qed.

Theorem from_trace_lower : forall ts k i j, sorted ts -> (i < N.to_nat k)%nat -> (j + i + 1 < length ts)%nat ->
  nthN (curve_from_trace (trace_N ts) k) i <= N.of_nat (nth (j + i + 1) ts 0%nat - nth j ts 0%nat).
Proof. intros ts k i j _. apply from_trace_lower_gen. Qed.
Print Assumptions from_trace_lower.

Lemma from_trace_attained_gen : forall ts k i, (i < N.to_nat k)%nat -> (i + 1 < length ts)%nat ->
  exists j, (j + i + 1 < length ts)%nat /\
    nthN (curve_from_trace (trace_N ts) k) i = N.of_nat (nth (j + i + 1) ts 0%nat - nth j ts 0%nat).
Proof.
  intros ts k i Hi Hj. destruct (from_trace_inv (trace_N ts) k) as [w [_ [Hl [_ Hat]]]].
  unfold trace_N in Hl, Hat. rewrite map_length in Hl, Hat. fold (trace_N ts) in Hl, Hat.
  destruct (Hat i ltac:(rewrite Hl; lia)) as [j [Hj1 Hj2]].
  exists j. split; [exact Hj1|]. rewrite <- span_trace. exact Hj2.
Qed.

Theorem from_trace_attained : forall ts k i, sorted ts -> (i < N.to_nat k)%nat -> (i + 1 < length ts)%nat ->
  exists j, (j + i + 1 < length ts)%nat /\
    nthN (curve_from_trace (trace_N ts) k) i = N.of_nat (nth (j + i + 1) ts 0%nat - nth j ts 0%nat).
Proof. intros ts k i _. apply from_trace_attained_gen. Qed.
Print Assumptions from_trace_attained.

Theorem from_trace_respected : forall ts k, sorted ts -> respects_dmin (curve_from_trace (trace_N ts) k) ts.
Proof.
  intros ts k Hs. split; [exact Hs|]. intros i j Hi Hj.
  rewrite from_trace_length_gen in Hi.
  pose proof (from_trace_lower_gen ts k i j ltac:(lia) Hj) as H. lia.
Qed.
Print Assumptions from_trace_respected.

Theorem from_trace_bounds_trace : forall ts k, sorted ts -> wf_dmin (curve_from_trace (trace_N ts) k) ->
  forall t d : nat, N.of_nat (count ts t d) <= curve_na (curve_from_trace (trace_N ts) k) (N.of_nat d).
Proof.
  intros ts k Hs Hwf t d. apply curve_na_covers; [exact Hwf | apply from_trace_respected; exact Hs].
Qed.
Print Assumptions from_trace_bounds_trace.

(* known finding: k + 1 simultaneous events make the last recorded distance 0; number_arrivals then
   divides by zero in the crate, and the vector is not wf_dmin in the model *)
Theorem from_trace_zero_last_refuted : exists ts k,
  sorted ts /\ (2 <= length ts)%nat /\ ~ wf_dmin (curve_from_trace (trace_N ts) k).
Proof.
  exists [0%nat; 0%nat], 1. split; [cbn; lia|]. split; [cbn [length]; lia|].
  intros [_ [_ H]]. vm_compute in H. discriminate.
Qed.
Print Assumptions from_trace_zero_last_refuted.

(* ------------------------------------------------------------------------------------------ *)
(* 2. dmin.rs: the delta-min iterator is the exact dual of number_arrivals                     *)
(* ------------------------------------------------------------------------------------------ *)
(* a non-decreasing function is constant across a range without increase points *)
Lemma flat_between : forall (f : N -> N) a b, mono f -> a <= b ->
  (forall d, a < d -> d <= b -> ~ f (d - 1) < f d) -> f a = f b.
Proof.
  intros f a b Hm Hab. replace b with (a + (b - a)) by lia. generalize (b - a) as k.
  intros k. induction k as [|k IH] using N.peano_ind; intros H.
  - rewrite N.add_0_r. reflexivity.
  - rewrite IH by (intros d H1 H2; apply H; lia).
    pose proof (H (a + N.succ k) ltac:(lia) ltac:(lia)) as Hn.
    replace (a + N.succ k - 1) with (a + k) in Hn by lia.
    pose proof (Hm (a + k) (a + N.succ k) ltac:(lia)). lia.
Qed.

(* the job counts are consecutive *)
Fixpoint consec (n : N) (l : list (N * N)) : Prop :=
  match l with
  | [] => True
  | e :: l' => fst e = n /\ consec (n + 1) l'
  end.

Lemma consec_app : forall l1 l2 n, consec n l1 -> consec (n + lenN l1) l2 -> consec n (l1 ++ l2).
Proof.
  induction l1 as [|e l1 IH]; intros l2 n H1 H2.
  - unfold lenN in H2. cbn [length] in H2. rewrite N.add_0_r in H2. exact H2.
  - destruct H1 as [He H1]. cbn [app consec]. split; [exact He|]. apply IH; [exact H1|].
    unfold lenN in *. cbn [length] in H2. replace (n + 1 + N.of_nat (length l1)) with (n + N.of_nat (S (length l1))) by lia.
    exact H2.
Qed.

Lemma consec_range : forall x n k, consec n (map (fun m => (m, x)) (rangeN n k)).
Proof.
  intros x n k. unfold rangeN.
  enough (H : forall len s, consec (n + N.of_nat s) (map (fun m => (m, x)) (map (fun i => n + N.of_nat i) (seq s len)))).
  { specialize (H (N.to_nat k) O). rewrite N.add_0_r in H. exact H. }
  induction len as [|len IH]; intros s; cbn [seq map consec]; [exact I|].
  split; [reflexivity|]. replace (n + N.of_nat s + 1) with (n + N.of_nat (S s)) by lia. apply IH.
Qed.

Lemma rangeN_length : forall a n, lenN (rangeN a n) = n.
Proof. intros a n. unfold lenN, rangeN. rewrite map_length, seq_length. lia. Qed.

Lemma dm_consec : forall f l n, consec n (dm_steps f l n).
Proof.
  intros f l. induction l as [|delta l IH]; intros n; cbn [dm_steps]; [exact I|].
  apply consec_app; [apply consec_range|].
  unfold lenN. rewrite map_length. fold (lenN (rangeN n (f delta + 1 - n))). rewrite rangeN_length.
  replace (n + (f delta + 1 - n)) with (N.max n (f delta + 1)) by lia. apply IH.
Qed.

Lemma consec_nth : forall l n i, consec n l -> (i < length l)%nat -> fst (nth i l (0, 0)) = n + N.of_nat i.
Proof.
  induction l as [|e l IH]; intros n i H Hi; cbn [length] in Hi; [lia|].
  destruct H as [He H]. destruct i as [|i]; cbn [nth]; [lia|].
  rewrite (IH (n + 1) i H) by lia. lia.
Qed.

(* the distances are non-decreasing *)
Lemma le_sorted_app : forall l1 l2, StronglySorted N.le l1 -> StronglySorted N.le l2 ->
  (forall x y, In x l1 -> In y l2 -> x <= y) -> StronglySorted N.le (l1 ++ l2).
Proof.
  intros l1 l2 H1 H2 H. induction H1 as [|a l Hs IH Hf]; [exact H2|].
  cbn [app]. constructor.
  - apply IH. intros x y Hx Hy. apply H; [right; exact Hx | exact Hy].
  - rewrite Forall_forall in *. intros x Hx. apply in_app_or in Hx. destruct Hx as [Hx|Hx].
    + apply Hf; exact Hx.
    + apply H; [left; reflexivity | exact Hx].
Qed.

Lemma le_sorted_const : forall (l : list N) c, (forall y, In y l -> y = c) -> StronglySorted N.le l.
Proof.
  induction l as [|a l IH]; intros c H; [constructor|].
  constructor; [apply (IH c); intros y Hy; apply H; right; exact Hy|].
  rewrite Forall_forall. intros y Hy. rewrite (H a (or_introl eq_refl)), (H y (or_intror Hy)). lia.
Qed.

Lemma le_sorted_nth : forall (l : list N) i j, StronglySorted N.le l -> (i <= j)%nat -> (j < length l)%nat ->
  nth i l 0 <= nth j l 0.
Proof.
  intros l i j H. revert i j. induction H as [|a l Hs IH Hf]; intros i j Hij Hj; cbn [length] in Hj; [lia|].
  destruct j as [|j]; [replace i with O by lia; lia|].
  destruct i as [|i]; cbn [nth].
  - rewrite Forall_forall in Hf. apply Hf. apply nth_In. lia.
  - apply IH; lia.
Qed.

Lemma dm_snd_in : forall f l n y, In y (map snd (dm_steps f l n)) -> exists delta, In delta l /\ y = delta - 1.
Proof.
  intros f l. induction l as [|delta l IH]; intros n y H; cbn [dm_steps map] in H; [destruct H|].
  rewrite map_app, in_app_iff in H. destruct H as [H|H].
  - rewrite map_map in H. cbn [snd] in H. apply in_map_iff in H. destruct H as [m [<- _]].
    exists delta. split; [left; reflexivity | reflexivity].
  - destruct (IH _ _ H) as [d' [Hd' ->]]. exists d'. split; [right; exact Hd' | reflexivity].
Qed.

Lemma dm_snd_sorted : forall f l n, StronglySorted N.le l -> StronglySorted N.le (map snd (dm_steps f l n)).
Proof.
  intros f l n H. revert n. induction H as [|delta l Hs IH Hf]; intros n; cbn [dm_steps map]; [constructor|].
  rewrite map_app. apply le_sorted_app.
  - apply (le_sorted_const _ (delta - 1)). intros y Hy. rewrite map_map in Hy. cbn [snd] in Hy.
    apply in_map_iff in Hy. destruct Hy as [m [<- _]]. reflexivity.
  - apply IH.
  - intros x y Hx Hy. rewrite map_map in Hx. cbn [snd] in Hx. apply in_map_iff in Hx. destruct Hx as [m [<- _]].
    apply dm_snd_in in Hy. destruct Hy as [d' [Hd' ->]]. rewrite Forall_forall in Hf. specialize (Hf d' Hd'). lia.
Qed.

(* the produced pairs, for an exact and strictly increasing list of steps in (lo, h] *)
Lemma dm_steps_spec : forall f, mono f -> forall h l lo n,
  StronglySorted N.lt l ->
  (forall d, In d l <-> lo < d /\ d <= h /\ f (d - 1) < f d) ->
  n = N.max 2 (f lo + 1) ->
  forall m x, In (m, x) (dm_steps f l n) <-> 2 <= m /\ lo <= x /\ x + 1 <= h /\ f x < m /\ m <= f (x + 1).
Proof.
  intros f Hm h l. induction l as [|delta l IH]; intros lo n Hs Hin Hn m x.
  - cbn [dm_steps In]. split; [tauto|]. intros [_ [H1 [H2 [H3 H4]]]].
    apply (Hin (x + 1)). split; [lia|]. split; [lia|]. replace (x + 1 - 1) with x by lia. lia.
  - inversion Hs as [|? ? Hs' Hf]; subst. rewrite Forall_forall in Hf.
    destruct (proj1 (Hin delta) (or_introl eq_refl)) as [Hd1 [Hd2 Hd3]].
    assert (Hflat : f lo = f (delta - 1)).
    { apply flat_between; [exact Hm | lia|]. intros d H1 H2 H3.
      destruct (proj2 (Hin d) ltac:(lia)) as [E|E]; [lia|]. specialize (Hf d E). lia. }
    assert (Hin' : forall d, In d l <-> delta < d /\ d <= h /\ f (d - 1) < f d).
    { intros d. split.
      - intros Hd. pose proof (Hf d Hd). destruct (proj1 (Hin d) (or_intror Hd)) as [_ [H2 H3]]. lia.
      - intros [H1 [H2 H3]]. destruct (proj2 (Hin d) ltac:(lia)) as [E|E]; [lia | exact E]. }
    specialize (IH delta (N.max (N.max 2 (f lo + 1)) (f delta + 1)) Hs' Hin' ltac:(lia) m x).
    cbn [dm_steps]. rewrite in_app_iff, IH, in_map_iff. clear IH. split.
    + intros [[m0 [E Hr]]|H].
      * injection E as -> <-. apply rangeN_In in Hr.
        replace (delta - 1 + 1) with delta by lia. lia.
      * lia.
    + intros [H1 [H2 [H3 [H4 H5]]]].
      destruct (N.lt_trichotomy (x + 1) delta) as [Hc|[Hc|Hc]].
      * exfalso. pose proof (Hm lo x H2). pose proof (Hm (x + 1) (delta - 1) ltac:(lia)). lia.
      * left. exists m. split; [f_equal; lia|]. apply rangeN_In. subst delta.
        replace (x + 1 - 1) with x in Hflat by lia. lia.
      * right. lia.
Qed.

Lemma dmins_spec_pre : forall ab h, wf_ab ab -> steps_exact_class ab ->
  mono (na ab) /\ StronglySorted N.lt (steps_upto ab h) /\
  (forall d, In d (steps_upto ab h) <-> 0 < d /\ d <= h /\ na ab (d - 1) < na ab d).
Proof.
  intros ab h Hwf Hc. destruct (steps_upto_exact ab Hwf Hc h) as [Hs Hin].
  split; [intros x y Hxy; apply na_mono; assumption|]. split; [exact Hs|].
  intros d. rewrite Hin. lia.
Qed.

Theorem dmins_dual : forall ab h n x, wf_ab ab -> steps_exact_class ab ->
  In (n, x) (dmins_upto ab h) <-> (2 <= n /\ x + 1 <= h /\ n <= na ab (x + 1) /\ na ab x < n).
Proof.
  intros ab h n x Hwf Hc. destruct (dmins_spec_pre ab h Hwf Hc) as [Hm [Hs Hin]].
  unfold dmins_upto.
  rewrite (dm_steps_spec (na ab) Hm h (steps_upto ab h) 0 2 Hs Hin); [lia|].
  rewrite na_zero by exact Hwf. reflexivity.
Qed.
Print Assumptions dmins_dual.

Lemma dmins_fst_nth : forall ab h i, (i < length (dmins_upto ab h))%nat ->
  fst (nth i (dmins_upto ab h) (0, 0)) = 2 + N.of_nat i.
Proof. intros ab h i Hi. apply consec_nth; [apply dm_consec | exact Hi]. Qed.

Theorem dmins_sorted : forall ab h, wf_ab ab -> steps_exact_class ab ->
  forall i, (S i < length (dmins_upto ab h))%nat ->
    fst (nth (S i) (dmins_upto ab h) (0, 0)) = fst (nth i (dmins_upto ab h) (0, 0)) + 1 /\
    snd (nth i (dmins_upto ab h) (0, 0)) <= snd (nth (S i) (dmins_upto ab h) (0, 0)).
Proof.
  intros ab h Hwf Hc i Hi. split.
  - rewrite !dmins_fst_nth by lia. lia.
  - destruct (dmins_spec_pre ab h Hwf Hc) as [_ [Hs _]].
    pose proof (dm_snd_sorted (na ab) (steps_upto ab h) 2 (lt_sorted_le _ Hs)) as Hsorted.
    fold (dmins_upto ab h) in Hsorted.
    pose proof (le_sorted_nth _ i (S i) Hsorted ltac:(lia) ltac:(rewrite map_length; exact Hi)) as H.
    change 0 with (snd (0, 0)) in H at 1 2. rewrite !map_nth in H. exact H.
Qed.
Print Assumptions dmins_sorted.

Theorem dmins_first : forall ab h, wf_ab ab -> steps_exact_class ab -> dmins_upto ab h <> [] ->
  fst (hd (0, 0) (dmins_upto ab h)) = 2.
Proof.
  intros ab h _ _ Hne. pose proof (dm_consec (na ab) (steps_upto ab h) 2) as H.
  fold (dmins_upto ab h) in H. destruct (dmins_upto ab h) as [|e l]; [congruence|]. apply H.
Qed.
Print Assumptions dmins_first.

(* ------------------------------------------------------------------------------------------ *)
(* 3. exact delta-min vectors of a source                                                      *)
(* ------------------------------------------------------------------------------------------ *)
(* d is the exact delta-min vector of f for 2 .. length d + 1 events: entry i is one less than the
   least interval length that admits i + 2 events *)
Definition exact_dmin_of (f : N -> N) (d : list N) : Prop :=
  forall i, (i < length d)%nat -> N.of_nat i + 2 <= f (nthN d i + 1) /\ f (nthN d i) < N.of_nat i + 2.

(* the number of entries below t splits a sorted vector *)
Lemma cnt_sorted_spec : forall d t, StronglySorted N.le d ->
  exists c : nat, cnt d t = N.of_nat c /\ (c <= length d)%nat /\
    (forall i, (i < c)%nat -> nthN d i < t) /\
    (forall i, (c <= i)%nat -> (i < length d)%nat -> t <= nthN d i).
Proof.
  intros d t H. induction H as [|x d Hs IH Hf].
  - exists O. split; [reflexivity|]. split; [cbn [length]; lia|]. split; intros i Hi; [lia|]. cbn [length]. lia.
  - rewrite Forall_forall in Hf. destruct (N.ltb_spec x t) as [Hlt|Hge].
    + destruct IH as [c [Hc [Hl [H1 H2]]]]. exists (S c). split; [|split; [|split]].
      * rewrite cnt_cons, Hc. unfold b2n. destruct (N.ltb_spec x t); lia.
      * cbn [length]. lia.
      * intros [|i] Hi; unfold nthN; cbn [nth]; [exact Hlt | apply H1; lia].
      * intros [|i] Hi1 Hi2; [lia|]. unfold nthN. cbn [nth]. apply H2; [lia | cbn [length] in Hi2; lia].
    + exists O. split; [|split; [|split]].
      * apply cnt_none. intros y [<-|Hy]; [exact Hge | specialize (Hf y Hy); lia].
      * lia.
      * intros i Hi. lia.
      * intros [|i] _ Hi; unfold nthN; cbn [nth]; [exact Hge|].
        cbn [length] in Hi. assert (Hi' : (i < length d)%nat) by lia.
        pose proof (Hf (nth i d 0) (nth_In d 0 Hi')). lia.
Qed.

Lemma curve_tail_0 : forall d, curve_tail d 0 = 0.
Proof.
  intros d. unfold curve_tail. destruct (N.ltb_spec (hdN d) 0); [lia | reflexivity].
Qed.

(* up to the last entry, an exact vector and its source agree up to the rounding of curve_tail *)
Lemma exact_tail_ub : forall f d r, mono f -> wf_dmin d -> exact_dmin_of f d ->
  0 < r -> r <= lastN d ->
  f r <= curve_tail d r.
Proof.
  intros f d r Hm Hwf Hex Hr0 HrL. pose proof Hwf as [Hne [Hnd Hlast]].
  pose proof (nondec_sorted d Hnd) as Hs.
  rewrite curve_tail_cnt by assumption. destruct (N.eqb_spec r 0); [lia|].
  destruct (cnt_sorted_spec d r Hs) as [c [Hc [Hcl [H1 H2]]]]. rewrite Hc.
  assert (Hl : (1 <= length d)%nat) by (destruct d; [congruence | cbn [length]; lia]).
  rewrite last_nth in HrL.
  assert (Hclt : (c < length d)%nat).
  { destruct (Nat.eq_dec c (length d)) as [E|NE]; [|lia].
    specialize (H1 (length d - 1)%nat ltac:(lia)). lia. }
  specialize (H2 c (le_n _) Hclt). destruct (Hex c Hclt) as [_ He].
  pose proof (Hm r (nthN d c) H2). lia.
Qed.

Lemma exact_last_ub : forall f d, wf_dmin d -> exact_dmin_of f d -> f (lastN d) <= lenN d.
Proof.
  intros f d [Hne _] Hex.
  assert (Hl : (1 <= length d)%nat) by (destruct d; [congruence | cbn [length]; lia]).
  destruct (Hex (length d - 1)%nat ltac:(lia)) as [_ H]. rewrite <- last_nth in H. unfold lenN. lia.
Qed.

Lemma subadd_mul : forall (f : N -> N) L q, f 0 = 0 -> (forall a b, f (a + b) <= f a + f b) ->
  f (L * q) <= q * f L.
Proof.
  intros f L q H0 Hsub. induction q as [|q IH] using N.peano_ind.
  - rewrite N.mul_0_r, H0. lia.
  - replace (L * N.succ q) with (L * q + L) by lia. pose proof (Hsub (L * q) L). lia.
Qed.

(* the hypothesis "something can arrive" of the task is not needed for domination *)
Lemma exact_dmin_dominates_gen : forall f d, (forall a b, a <= b -> f a <= f b) -> f 0 = 0 ->
  (forall a b, f (a + b) <= f a + f b) ->
  wf_dmin d -> exact_dmin_of f d ->
  forall delta, f delta <= curve_na d delta.
Proof.
  intros f d Hm H0 Hsub Hwf Hex delta. pose proof Hwf as [Hne [Hnd Hlast]].
  destruct (N.eq_dec delta 0) as [->|Hd]; [rewrite H0, curve_na_0; lia|].
  rewrite curve_na_eq by assumption. set (L := lastN d) in *.
  pose proof (N.div_mod (delta - 1) L ltac:(lia)) as Hdm. pose proof (N.mod_lt (delta - 1) L ltac:(lia)) as Hlt.
  set (q := (delta - 1) / L) in *. set (r := (delta - 1) mod L) in *.
  replace delta with (L * q + (r + 1)) at 1 by lia.
  pose proof (Hsub (L * q) (r + 1)) as H1. pose proof (subadd_mul f L q H0 Hsub) as H2.
  pose proof (exact_last_ub f d Hwf Hex) as H3. fold L in H3.
  assert (H4 : q * f L <= q * lenN d) by (apply N.mul_le_mono_l; exact H3).
  assert (H5 : f (r + 1) <= curve_tail d (r + 1)).
  { apply exact_tail_ub; try assumption; [lia | fold L; lia]. }
  lia.
Qed.

Theorem exact_dmin_dominates : forall f d, (forall a b, a <= b -> f a <= f b) -> f 0 = 0 ->
  (forall a b, f (a + b) <= f a + f b) ->                       (* sub-additive source *)
  (forall x, 0 < x -> 1 <= f x) ->                              (* something can arrive *)
  wf_dmin d -> exact_dmin_of f d ->
  forall delta, f delta <= curve_na d delta.
Proof. intros f d Hm H0 Hsub _. apply exact_dmin_dominates_gen; assumption. Qed.
Print Assumptions exact_dmin_dominates.

Lemma exact_tail_lb : forall f d r, mono f -> (forall x, 0 < x -> 1 <= f x) -> wf_dmin d -> exact_dmin_of f d ->
  0 < r -> r <= lastN d -> curve_tail d r <= f r.
Proof.
  intros f d r Hm Hpos Hwf Hex Hr0 HrL. pose proof Hwf as [Hne [Hnd Hlast]].
  pose proof (nondec_sorted d Hnd) as Hs.
  rewrite curve_tail_cnt by assumption. destruct (N.eqb_spec r 0); [lia|].
  destruct (cnt_sorted_spec d r Hs) as [c [Hc [Hcl [H1 H2]]]]. rewrite Hc.
  destruct c as [|c]; [specialize (Hpos r Hr0); lia|].
  specialize (H1 c ltac:(lia)). destruct (Hex c ltac:(lia)) as [He _].
  pose proof (Hm (nthN d c + 1) r ltac:(lia)). lia.
Qed.

(* the hypothesis f 1 = 1 of the task is not needed: leading zeros (sources with f 1 > 1) are fine.
   Since the repair of Curve::number_arrivals at exact multiples of the last entry, vectors that end in a plateau
   are covered, too (former hypothesis ~ plateau_end d) *)
Lemma exact_dmin_exact_on_prefix_gen : forall f d, (forall a b, a <= b -> f a <= f b) -> f 0 = 0 ->
  (forall x, 0 < x -> 1 <= f x) ->
  wf_dmin d -> exact_dmin_of f d ->
  forall delta, delta <= lastN d -> curve_na d delta = f delta.
Proof.
  intros f d Hm H0 Hpos Hwf Hex delta Hd. pose proof Hwf as [Hne [Hnd Hlast]].
  destruct (N.eq_dec delta 0) as [->|Hd0]; [rewrite H0; apply curve_na_0|].
  assert (Hpos' : 0 < delta) by lia.
  rewrite curve_na_le_last by lia.
  pose proof (exact_tail_ub f d delta Hm Hwf Hex Hpos' Hd).
  pose proof (exact_tail_lb f d delta Hm Hpos Hwf Hex Hpos' Hd). lia.
Qed.

Theorem exact_dmin_exact_on_prefix : forall f d, (forall a b, a <= b -> f a <= f b) -> f 0 = 0 ->
  (forall x, 0 < x -> 1 <= f x) -> f 1 = 1 ->
  wf_dmin d -> exact_dmin_of f d ->
  forall delta, delta <= lastN d -> curve_na d delta = f delta.
Proof. intros f d Hm H0 Hpos _. apply exact_dmin_exact_on_prefix_gen; assumption. Qed.
Print Assumptions exact_dmin_exact_on_prefix.

(* strictly below the last entry (kept: before the repair this was all that held for plateau-ended vectors) *)
Theorem exact_dmin_exact_below_last : forall f d, (forall a b, a <= b -> f a <= f b) -> f 0 = 0 ->
  (forall x, 0 < x -> 1 <= f x) ->
  wf_dmin d -> exact_dmin_of f d ->
  forall delta, delta < lastN d -> curve_na d delta = f delta.
Proof.
  intros f d Hm H0 Hpos Hwf Hex delta Hd. apply exact_dmin_exact_on_prefix_gen; try assumption. lia.
Qed.
Print Assumptions exact_dmin_exact_below_last.

(* regression (former finding C12-plateau-at-last): the old witness, a plateau-ended exact vector, now agrees with
   its source at delta = lastN d as well *)
Theorem exact_plateau_repaired :
  let ab := SumAB [Periodic 3; Sporadic 4 2] in let d := [0; 2; 3; 6; 6] in
  wf_ab ab /\ wf_dmin d /\ plateau_end d /\ exact_dmin_of (na ab) d /\
  curve_na d (lastN d) = na ab (lastN d) /\ forall delta, delta <= lastN d -> curve_na d delta = na ab delta.
Proof.
  cbv zeta.
  assert (Hwa : wf_ab (SumAB [Periodic 3; Sporadic 4 2])) by (cbn; lia).
  assert (Hwf : wf_dmin [0; 2; 3; 6; 6]).
  { split; [discriminate|]. split; [|vm_compute; reflexivity].
    intros [|[|[|[|i]]]] Hi; cbn [length] in Hi; try lia; vm_compute; discriminate. }
  assert (Hex : exact_dmin_of (na (SumAB [Periodic 3; Sporadic 4 2])) [0; 2; 3; 6; 6]).
  { intros [|[|[|[|[|i]]]]] Hi; cbn [length] in Hi; try lia; vm_compute; split; (discriminate || reflexivity). }
  split; [exact Hwa|]. split; [exact Hwf|]. split; [|split; [exact Hex|split]].
  - split; [cbn [length]; lia | reflexivity].
  - vm_compute. reflexivity.
  - apply exact_dmin_exact_on_prefix_gen; try assumption.
    + intros a b Hab. apply na_mono; assumption.
    + apply na_zero; exact Hwa.
    + intros x Hx. pose proof (na_mono _ Hwa 1 x ltac:(lia)) as H1.
      assert (E : na (SumAB [Periodic 3; Sporadic 4 2]) 1 = 2) by (vm_compute; reflexivity). lia.
Qed.
Print Assumptions exact_plateau_repaired.

(* ---------- the conversions built on the delta-min iterator ---------- *)
(* the repaired take_while: the flag "a non-zero distance has been seen" after a list of kept elements *)
Definition nz_seen (s : bool) (p : list (N * N)) : bool := s || existsb (fun e => negb (snd e =? 0)) p.

Lemma nz_seen_cons : forall s x p, nz_seen (s || negb (snd x =? 0)) p = nz_seen s (x :: p).
Proof. intros s x p. unfold nz_seen. cbn [existsb]. rewrite orb_assoc. reflexivity. Qed.

Lemma nz_seen_false : forall p, nz_seen false p = false -> forall e, In e p -> snd e = 0.
Proof.
  intros p H e He. unfold nz_seen in H. cbn [orb] in H.
  destruct (N.eqb_spec (snd e) 0) as [E|E]; [exact E|]. exfalso.
  assert (Hx : existsb (fun e => negb (snd e =? 0)) p = true).
  { apply existsb_exists. exists e. split; [exact He|]. destruct (N.eqb_spec (snd e) 0); [contradiction | reflexivity]. }
  congruence.
Qed.

Lemma nz_seen_true : forall p, nz_seen false p = true -> exists e, In e p /\ 0 < snd e.
Proof.
  intros p H. unfold nz_seen in H. cbn [orb] in H. apply existsb_exists in H. destruct H as [e [He Hs]].
  exists e. split; [exact He|]. destruct (N.eqb_spec (snd e) 0); [discriminate | lia].
Qed.

(* the result is a prefix; the element after it (if any) fails the old condition and comes after a
   non-zero distance *)
Lemma twn_split : forall keep l i s, exists r, l = take_while_nz keep i s l ++ r /\
  match r with
  | [] => True
  | e :: _ => keep (i + length (take_while_nz keep i s l))%nat e = false /\
              nz_seen s (take_while_nz keep i s l) = true
  end.
Proof.
  intros keep l. induction l as [|x l IH]; intros i s; cbn [take_while_nz].
  - exists []. split; [reflexivity | exact I].
  - destruct (keep i x || negb s) eqn:E.
    + destruct (IH (S i) (s || negb (snd x =? 0))) as [r [H1 H2]]. exists r. split; [cbn [app]; f_equal; exact H1|].
      destruct r as [|e r]; [exact I|]. cbn [length].
      rewrite Nat.add_succ_r, <- nz_seen_cons. exact H2.
    + exists (x :: l). apply orb_false_elim in E. destruct E as [E1 E2]. split; [reflexivity|].
      cbn [length]. rewrite Nat.add_0_r. split; [exact E1|].
      destruct s; [reflexivity | discriminate].
Qed.

(* every kept element satisfies the old condition or is preceded by zero distances only *)
Lemma twn_all : forall keep l i s k, (k < length (take_while_nz keep i s l))%nat ->
  keep (i + k)%nat (nth k (take_while_nz keep i s l) (0, 0)) = true \/
  nz_seen s (firstn k (take_while_nz keep i s l)) = false.
Proof.
  intros keep l. induction l as [|x l IH]; intros i s k Hk; cbn [take_while_nz] in *; [cbn [length] in Hk; lia|].
  destruct (keep i x || negb s) eqn:E; [|cbn [length] in Hk; lia].
  destruct k as [|k].
  - cbn [nth firstn]. rewrite Nat.add_0_r. unfold nz_seen. cbn [existsb]. rewrite orb_false_r.
    apply orb_true_iff in E. destruct E as [E|E]; [left; exact E|].
    right. destruct s; [discriminate | reflexivity].
  - cbn [nth firstn]. rewrite <- nz_seen_cons. replace (i + S k)%nat with (S i + k)%nat by lia.
    apply IH. cbn [length] in Hk. lia.
Qed.

Lemma nz_seen_false_nth : forall p i k, nz_seen false (firstn i p) = false -> (k < i)%nat -> (i <= length p)%nat ->
  nthN (map snd p) k = 0.
Proof.
  intros p i k H Hk Hi. unfold nthN. rewrite (nth_map_N snd p (0, 0)) by lia.
  apply (nz_seen_false (firstn i p) H).
  rewrite <- (nth_firstn_lt i p k (0, 0)) by lia. apply nth_In. rewrite firstn_length. lia.
Qed.

(* the take_while stops strictly inside the list: the shape of the cut *)
Lemma twn_found : forall keep l, Nat.ltb (length (take_while_nz keep 0 false l)) (length l) = true ->
  exists e r, l = take_while_nz keep 0 false l ++ e :: r /\
    keep (length (take_while_nz keep 0 false l)) e = false /\
    nz_seen false (take_while_nz keep 0 false l) = true.
Proof.
  intros keep l H. apply Nat.ltb_lt in H. destruct (twn_split keep l 0 false) as [r [Hr Hhead]].
  destruct r as [|e r].
  - exfalso. rewrite app_nil_r in Hr. rewrite <- Hr in H. lia.
  - exists e, r. cbn [Nat.add] in Hhead. destruct Hhead as [H1 H2]. split; [exact Hr|]. split; assumption.
Qed.

(* every prefix of the iterator, read as a vector, is exact and non-decreasing *)
Lemma dmins_prefix_nth : forall ab h p r i, dmins_upto ab h = p ++ r -> (i < length p)%nat ->
  nthN (map snd p) i = snd (nth i (dmins_upto ab h) (0, 0)).
Proof.
  intros ab h p r i E Hi. unfold nthN. rewrite (nth_map_N snd p (0, 0) i Hi), E, app_nth1 by exact Hi.
  reflexivity.
Qed.

Lemma dmins_prefix_exact : forall ab h p r, wf_ab ab -> steps_exact_class ab ->
  dmins_upto ab h = p ++ r -> exact_dmin_of (na ab) (map snd p).
Proof.
  intros ab h p r Hwf Hc E i Hi. rewrite map_length in Hi.
  assert (Hil : (i < length (dmins_upto ab h))%nat) by (rewrite E, app_length; lia).
  pose proof (dmins_fst_nth ab h i Hil) as Hf.
  pose proof (nth_In (dmins_upto ab h) (0, 0) Hil) as Hin.
  rewrite (dmins_prefix_nth ab h p r i E Hi).
  destruct (nth i (dmins_upto ab h) (0, 0)) as [m x]. cbn [fst snd] in *.
  apply dmins_dual in Hin; [|exact Hwf | exact Hc]. lia.
Qed.

Lemma dmins_prefix_nondecreasing : forall ab h p r, wf_ab ab -> steps_exact_class ab ->
  dmins_upto ab h = p ++ r -> nondecreasing (map snd p).
Proof.
  intros ab h p r Hwf Hc E i Hi. rewrite map_length in Hi.
  rewrite !(dmins_prefix_nth ab h p r _ E) by lia.
  apply (dmins_sorted ab h Hwf Hc i). rewrite E, app_length. lia.
Qed.

(* the doubling loop returns either nothing (fuel exhausted) or a cut of the iterator that decides [enough] *)
Definition dm_body (ab : AB) (en : list (N * N) -> bool) (h : N) : N + list (N * N) :=
  let l := dmins_upto ab h in if en l then inr l else inl (2 * h).

Lemma dmins_loop_char : forall ab en n s,
  match loop_nat n (dm_body ab en) s with
  | inr l => exists h, l = dmins_upto ab h /\ en l = true
  | inl _ => True
  end.
Proof.
  intros ab en n. induction n as [|n IH]; intros s; cbn [loop_nat]; [exact I|]. unfold dm_body at 1. cbv zeta.
  destruct (en (dmins_upto ab s)) eqn:E; [|apply IH]. exists s. split; [reflexivity | exact E].
Qed.

Lemma dmins_enough_char : forall ab h0 en,
  dmins_enough ab h0 en = [] \/
  exists h, dmins_enough ab h0 en = dmins_upto ab h /\ (is_never ab = true \/ en (dmins_upto ab h) = true).
Proof.
  intros ab h0 en. unfold dmins_enough. destruct (is_never ab).
  - right. exists 2. split; [reflexivity | left; reflexivity].
  - rewrite loopN_nat. pose proof (dmins_loop_char ab en (N.to_nat 64) (N.max h0 1)) as H.
    unfold dm_body in H. revert H.
    match goal with |- context [loop_nat ?n ?b ?s] => destruct (loop_nat n b s) as [s'|l] end;
      intros H; [left; reflexivity|].
    destruct H as [h [-> H]]. right. exists h. split; [reflexivity | right; exact H].
Qed.

(* the explicit link: if one of the 64 horizons h0' * 2^j tried by the loop decides [enough], the loop
   returns the iterator cut at such a horizon *)
Lemma dmins_loop_found : forall ab en n s j, (j < n)%nat ->
  en (dmins_upto ab (s * 2 ^ N.of_nat j)) = true ->
  exists h, loop_nat n (dm_body ab en) s = inr (dmins_upto ab h) /\ en (dmins_upto ab h) = true.
Proof.
  intros ab en n. induction n as [|n IH]; intros s j Hj Hen; [lia|]. cbn [loop_nat]. unfold dm_body at 1. cbv zeta.
  destruct (en (dmins_upto ab s)) eqn:E; [exists s; split; [reflexivity | exact E]|].
  destruct j as [|j]; [rewrite N.mul_1_r in Hen; congruence|].
  apply (IH (2 * s) j); [lia|].
  replace (2 * s * 2 ^ N.of_nat j) with (s * 2 ^ N.of_nat (S j)); [exact Hen|].
  rewrite Nnat.Nat2N.inj_succ, N.pow_succ_r'. lia.
Qed.

Theorem dmins_enough_found : forall ab h0 en j, is_never ab = false -> (j < 64)%nat ->
  en (dmins_upto ab (N.max h0 1 * 2 ^ N.of_nat j)) = true ->
  exists h, dmins_enough ab h0 en = dmins_upto ab h /\ en (dmins_upto ab h) = true.
Proof.
  intros ab h0 en j Hn Hj Hen. unfold dmins_enough. rewrite Hn, loopN_nat.
  assert (Hj' : (j < N.to_nat 64)%nat) by lia.
  destruct (dmins_loop_found ab en (N.to_nat 64) (N.max h0 1) j Hj' Hen) as [h [Hl H]].
  unfold dm_body in Hl. rewrite Hl.
  exists h. split; [reflexivity | exact H].
Qed.
Print Assumptions dmins_enough_found.

Lemma conv_split : forall ab h0 en keep,
  take_while_nz keep 0 false (dmins_enough ab h0 en) = [] \/
  exists h r, dmins_upto ab h = take_while_nz keep 0 false (dmins_enough ab h0 en) ++ r.
Proof.
  intros ab h0 en keep. destruct (dmins_enough_char ab h0 en) as [->|[h [-> _]]].
  - left. reflexivity.
  - right. destruct (twn_split keep (dmins_upto ab h) 0 false) as [r [Hr _]]. exists h, r. exact Hr.
Qed.

Lemma conv_exact : forall ab h0 en keep, wf_ab ab -> steps_exact_class ab ->
  exact_dmin_of (na ab) (map snd (take_while_nz keep 0 false (dmins_enough ab h0 en))).
Proof.
  intros ab h0 en keep Hwf Hc. destruct (conv_split ab h0 en keep) as [->|[h [r E]]].
  - intros i Hi. cbn [map length] in Hi. lia.
  - apply (dmins_prefix_exact ab h _ r Hwf Hc E).
Qed.

Lemma conv_nondecreasing : forall ab h0 en keep, wf_ab ab -> steps_exact_class ab ->
  nondecreasing (map snd (take_while_nz keep 0 false (dmins_enough ab h0 en))).
Proof.
  intros ab h0 en keep Hwf Hc. destruct (conv_split ab h0 en keep) as [->|[h [r E]]].
  - intros i Hi. cbn [map length] in Hi. lia.
  - apply (dmins_prefix_nondecreasing ab h _ r Hwf Hc E).
Qed.

(* the hypotheses "not Never" and "arrivals never stop" of the task are not needed for exactness: when
   the loop gives up the model returns the empty vector, which is vacuously exact *)
Lemma curve_from_ab_until_exact_gen : forall ab hz, wf_ab ab -> steps_exact_class ab ->
  exact_dmin_of (na ab) (curve_from_ab_until ab hz).
Proof. intros ab hz Hwf Hc. unfold curve_from_ab_until. cbv zeta. apply conv_exact; assumption. Qed.

Lemma curve_from_ab_exact_gen : forall ab n, wf_ab ab -> steps_exact_class ab ->
  exact_dmin_of (na ab) (curve_from_ab ab n).
Proof. intros ab n Hwf Hc. unfold curve_from_ab. cbv zeta. apply conv_exact; assumption. Qed.

Theorem curve_from_ab_until_exact : forall ab hz, wf_ab ab -> steps_exact_class ab -> ~ is_never ab = true ->
  (forall h, exists x, h < x /\ na ab (x - 1) < na ab x) ->      (* arrivals never stop *)
  exact_dmin_of (na ab) (curve_from_ab_until ab hz).
Proof. intros ab hz Hwf Hc _ _. apply curve_from_ab_until_exact_gen; assumption. Qed.
Print Assumptions curve_from_ab_until_exact.

Theorem curve_from_ab_exact : forall ab n, wf_ab ab -> steps_exact_class ab -> ~ is_never ab = true ->
  (forall h, exists x, h < x /\ na ab (x - 1) < na ab x) ->
  exact_dmin_of (na ab) (curve_from_ab ab n).
Proof. intros ab n Hwf Hc _ _. apply curve_from_ab_exact_gen; assumption. Qed.
Print Assumptions curve_from_ab_exact.

Theorem curve_from_ab_until_nondecreasing : forall ab hz, wf_ab ab -> steps_exact_class ab ->
  nondecreasing (curve_from_ab_until ab hz).
Proof. intros ab hz Hwf Hc. unfold curve_from_ab_until. cbv zeta. apply conv_nondecreasing; assumption. Qed.
Print Assumptions curve_from_ab_until_nondecreasing.

Theorem curve_from_ab_nondecreasing : forall ab n, wf_ab ab -> steps_exact_class ab ->
  nondecreasing (curve_from_ab ab n).
Proof. intros ab n Hwf Hc. unfold curve_from_ab. cbv zeta. apply conv_nondecreasing; assumption. Qed.
Print Assumptions curve_from_ab_nondecreasing.

(* C12 for the two conversions: a usable result (non-empty, last entry positive) dominates a sub-additive
   source everywhere and coincides with it on the covered prefix *)
Corollary curve_from_ab_until_dominates : forall ab hz, wf_ab ab -> steps_exact_class ab ->
  (forall a b, na ab (a + b) <= na ab a + na ab b) ->
  curve_from_ab_until ab hz <> [] -> 0 < lastN (curve_from_ab_until ab hz) ->
  forall delta, na ab delta <= curve_na (curve_from_ab_until ab hz) delta.
Proof.
  intros ab hz Hwf Hc Hsub Hne Hlast. apply exact_dmin_dominates_gen.
  - intros a b Hab. apply na_mono; assumption.
  - apply na_zero; exact Hwf.
  - exact Hsub.
  - split; [exact Hne|]. split; [apply curve_from_ab_until_nondecreasing; assumption | exact Hlast].
  - apply curve_from_ab_until_exact_gen; assumption.
Qed.
Print Assumptions curve_from_ab_until_dominates.

Corollary curve_from_ab_dominates : forall ab n, wf_ab ab -> steps_exact_class ab ->
  (forall a b, na ab (a + b) <= na ab a + na ab b) ->
  curve_from_ab ab n <> [] -> 0 < lastN (curve_from_ab ab n) ->
  forall delta, na ab delta <= curve_na (curve_from_ab ab n) delta.
Proof.
  intros ab n Hwf Hc Hsub Hne Hlast. apply exact_dmin_dominates_gen.
  - intros a b Hab. apply na_mono; assumption.
  - apply na_zero; exact Hwf.
  - exact Hsub.
  - split; [exact Hne|]. split; [apply curve_from_ab_nondecreasing; assumption | exact Hlast].
  - apply curve_from_ab_exact_gen; assumption.
Qed.
Print Assumptions curve_from_ab_dominates.

Corollary curve_from_ab_until_exact_below_last : forall ab hz, wf_ab ab -> steps_exact_class ab ->
  (forall x, 0 < x -> 1 <= na ab x) ->
  forall delta, delta < lastN (curve_from_ab_until ab hz) ->
  curve_na (curve_from_ab_until ab hz) delta = na ab delta.
Proof.
  intros ab hz Hwf Hc Hpos delta Hd. apply exact_dmin_exact_below_last; try assumption.
  - intros a b Hab. apply na_mono; assumption.
  - apply na_zero; exact Hwf.
  - split; [intros E; rewrite E in Hd; unfold lastN in Hd; cbn [last] in Hd; lia|].
    split; [apply curve_from_ab_until_nondecreasing; assumption | lia].
  - apply curve_from_ab_until_exact_gen; assumption.
Qed.
Print Assumptions curve_from_ab_until_exact_below_last.

Corollary curve_from_ab_exact_below_last : forall ab n, wf_ab ab -> steps_exact_class ab ->
  (forall x, 0 < x -> 1 <= na ab x) ->
  forall delta, delta < lastN (curve_from_ab ab n) ->
  curve_na (curve_from_ab ab n) delta = na ab delta.
Proof.
  intros ab n Hwf Hc Hpos delta Hd. apply exact_dmin_exact_below_last; try assumption.
  - intros a b Hab. apply na_mono; assumption.
  - apply na_zero; exact Hwf.
  - split; [intros E; rewrite E in Hd; unfold lastN in Hd; cbn [last] in Hd; lia|].
    split; [apply curve_from_ab_nondecreasing; assumption | lia].
  - apply curve_from_ab_exact_gen; assumption.
Qed.
Print Assumptions curve_from_ab_exact_below_last.

(* up to AND INCLUDING the largest recorded distance (no side condition on plateaus any more); for delta = 0 no
   usable result is needed *)
Corollary curve_from_ab_until_exact_upto_last : forall ab hz, wf_ab ab -> steps_exact_class ab ->
  (forall x, 0 < x -> 1 <= na ab x) ->
  forall delta, delta <= lastN (curve_from_ab_until ab hz) ->
  curve_na (curve_from_ab_until ab hz) delta = na ab delta.
Proof.
  intros ab hz Hwf Hc Hpos delta Hd.
  destruct (N.eq_dec delta 0) as [->|Hd0]; [rewrite na_zero by exact Hwf; apply curve_na_0|].
  apply exact_dmin_exact_on_prefix_gen; try assumption.
  - intros a b Hab. apply na_mono; assumption.
  - apply na_zero; exact Hwf.
  - split; [intros E; rewrite E in Hd; unfold lastN in Hd; cbn [last] in Hd; lia|].
    split; [apply curve_from_ab_until_nondecreasing; assumption | lia].
  - apply curve_from_ab_until_exact_gen; assumption.
Qed.
Print Assumptions curve_from_ab_until_exact_upto_last.

Corollary curve_from_ab_exact_upto_last : forall ab n, wf_ab ab -> steps_exact_class ab ->
  (forall x, 0 < x -> 1 <= na ab x) ->
  forall delta, delta <= lastN (curve_from_ab ab n) ->
  curve_na (curve_from_ab ab n) delta = na ab delta.
Proof.
  intros ab n Hwf Hc Hpos delta Hd.
  destruct (N.eq_dec delta 0) as [->|Hd0]; [rewrite na_zero by exact Hwf; apply curve_na_0|].
  apply exact_dmin_exact_on_prefix_gen; try assumption.
  - intros a b Hab. apply na_mono; assumption.
  - apply na_zero; exact Hwf.
  - split; [intros E; rewrite E in Hd; unfold lastN in Hd; cbn [last] in Hd; lia|].
    split; [apply curve_from_ab_nondecreasing; assumption | lia].
  - apply curve_from_ab_exact_gen; assumption.
Qed.
Print Assumptions curve_from_ab_exact_upto_last.

(* ---------- the link to the doubling loop, with the explicit hypothesis that it found a horizon ---------- *)
Lemma dmins_snd_mono : forall ab h i j, wf_ab ab -> steps_exact_class ab -> (i <= j)%nat ->
  (j < length (dmins_upto ab h))%nat ->
  snd (nth i (dmins_upto ab h) (0, 0)) <= snd (nth j (dmins_upto ab h) (0, 0)).
Proof.
  intros ab h i j Hwf Hc Hij Hj. destruct (dmins_spec_pre ab h Hwf Hc) as [_ [Hs _]].
  pose proof (dm_snd_sorted (na ab) (steps_upto ab h) 2 (lt_sorted_le _ Hs)) as Hsorted.
  fold (dmins_upto ab h) in Hsorted.
  pose proof (le_sorted_nth _ i j Hsorted Hij ltac:(rewrite map_length; exact Hj)) as H.
  rewrite !(nth_map_N snd _ (0, 0)) in H by lia. exact H.
Qed.

(* [enough] of the doubling loop: the repaired take_while stops strictly inside the cut of the iterator *)
Definition until_keep (hz : N) (i : nat) (e : N * N) : bool := (snd e <=? hz) || Nat.ltb i 2.
Definition until_enough (hz : N) (l : list (N * N)) : bool :=
  Nat.ltb (length (take_while_nz (until_keep hz) 0 false l)) (length l).
Definition njobs_keep (n : N) (i : nat) (e : N * N) : bool := (fst e <=? n) || Nat.ltb i 2.
Definition njobs_enough (n : N) (l : list (N * N)) : bool :=
  Nat.ltb (length (take_while_nz (njobs_keep n) 0 false l)) (length l).

Lemma curve_from_ab_until_unfold : forall ab hz, curve_from_ab_until ab hz =
  map snd (take_while_nz (until_keep hz) 0 false (dmins_enough ab (hz + 2) (until_enough hz))).
Proof. reflexivity. Qed.
Lemma curve_from_ab_unfold : forall ab n, curve_from_ab ab n =
  map snd (take_while_nz (njobs_keep n) 0 false (dmins_enough ab 4 (njobs_enough n))).
Proof. reflexivity. Qed.

(* a cut of the iterator inside which the repaired take_while stops: the kept vector ends in a positive
   distance *)
Lemma conv_last_pos : forall ab h keep, wf_ab ab -> steps_exact_class ab ->
  nz_seen false (take_while_nz keep 0 false (dmins_upto ab h)) = true ->
  0 < lastN (map snd (take_while_nz keep 0 false (dmins_upto ab h))).
Proof.
  intros ab h keep Hwf Hc Hseen. destruct (twn_split keep (dmins_upto ab h) 0 false) as [r [Hr _]].
  pose proof (dmins_prefix_nondecreasing ab h _ r Hwf Hc Hr) as Hnd.
  destruct (nz_seen_true _ Hseen) as [e [He Hpos]].
  pose proof (le_lastN _ (snd e) Hnd (in_map snd _ e He)). lia.
Qed.

(* from_arrival_bound_until: when the loop finds a horizon, the vector has at least two entries, covers
   every job count that fits into a window of length hz + 1, ends in a positive distance, and an entry
   after the first two exceeds hz only if all entries before it are zero (the repair: the vector is
   extended until it contains a non-zero distance) *)
Theorem curve_from_ab_until_covers : forall ab hz j, wf_ab ab -> steps_exact_class ab ->
  is_never ab = false -> (j < 64)%nat ->
  until_enough hz (dmins_upto ab (N.max (hz + 2) 1 * 2 ^ N.of_nat j)) = true ->
  (2 <= length (curve_from_ab_until ab hz))%nat /\
  na ab (hz + 1) <= lenN (curve_from_ab_until ab hz) + 1 /\
  0 < lastN (curve_from_ab_until ab hz) /\
  (forall i, (2 <= i)%nat -> (i < length (curve_from_ab_until ab hz))%nat ->
     nthN (curve_from_ab_until ab hz) i <= hz \/
     (forall k, (k < i)%nat -> nthN (curve_from_ab_until ab hz) k = 0)).
Proof.
  intros ab hz j Hwf Hc Hn Hj Hen.
  destruct (dmins_enough_found ab (hz + 2) (until_enough hz) j Hn Hj Hen) as [h [El Hen']].
  rewrite curve_from_ab_until_unfold, El. clear Hen El j Hj.
  set (l := dmins_upto ab h) in *.
  destruct (twn_found (until_keep hz) l Hen') as [e [r [Hr [Hhead Hseen]]]].
  pose proof (twn_all (until_keep hz) l 0 false) as Hall.
  pose proof (conv_last_pos ab h (until_keep hz) Hwf Hc Hseen) as Hlast. fold l in Hlast.
  set (p := take_while_nz (until_keep hz) 0 false l) in *.
  assert (Hlp : length l = (length p + S (length r))%nat) by (rewrite Hr at 1; rewrite app_length; reflexivity).
  assert (Hnth : forall k, (k < length p)%nat -> nth k p (0, 0) = nth k l (0, 0)).
  { intros k Hk. rewrite Hr. symmetry. apply app_nth1. exact Hk. }
  unfold until_keep in Hhead.
  assert (He : e = nth (length p) l (0, 0)).
  { rewrite Hr, app_nth2, Nat.sub_diag by lia. reflexivity. }
  assert (Hp2 : (2 <= length p)%nat) by (destruct (Nat.ltb_spec (length p) 2); lia).
  assert (Hes : hz < snd e) by lia.
  pose proof (dmins_fst_nth ab h (length p) ltac:(fold l; lia)) as Hfst. fold l in Hfst. rewrite <- He in Hfst.
  assert (Hin : In e l) by (rewrite He; apply nth_In; lia).
  destruct e as [m x]. cbn [fst snd] in *. apply dmins_dual in Hin; [|exact Hwf | exact Hc].
  rewrite map_length. unfold lenN. rewrite map_length. split; [exact Hp2|]. split; [|split; [exact Hlast|]].
  - pose proof (na_mono ab Hwf (hz + 1) x ltac:(lia)). lia.
  - intros i Hi2 Hip. destruct (Hall i Hip) as [Hk|Hz].
    + left. fold p in Hk. cbn [Nat.add] in Hk. unfold until_keep in Hk.
      unfold nthN. rewrite (nth_map_N snd p (0, 0)) by exact Hip.
      destruct (Nat.ltb_spec i 2); [lia|]. lia.
    + right. intros k Hk. fold p in Hz. apply (nz_seen_false_nth p i k Hz Hk). lia.
Qed.
Print Assumptions curve_from_ab_until_covers.

(* from_arrival_bound: when the loop finds a horizon, the vector is the shortest prefix of the iterator
   that holds at least the job counts 2 .. max(njobs, 3) AND ends in a positive distance *)
Theorem curve_from_ab_length : forall ab n j, wf_ab ab -> steps_exact_class ab ->
  is_never ab = false -> (j < 64)%nat ->
  njobs_enough n (dmins_upto ab (N.max 4 1 * 2 ^ N.of_nat j)) = true ->
  N.max 2 (n - 1) <= lenN (curve_from_ab ab n) /\
  0 < lastN (curve_from_ab ab n) /\
  (forall k, N.max 2 (n - 1) <= N.of_nat k -> (k < length (curve_from_ab ab n))%nat ->
     nthN (curve_from_ab ab n) (k - 1) = 0).
Proof.
  intros ab n j Hwf Hc Hn Hj Hen.
  destruct (dmins_enough_found ab 4 (njobs_enough n) j Hn Hj Hen) as [h [El Hen']].
  rewrite curve_from_ab_unfold, El. clear Hen El j Hj.
  set (l := dmins_upto ab h) in *.
  destruct (twn_found (njobs_keep n) l Hen') as [e [r [Hr [Hhead Hseen]]]].
  pose proof (twn_all (njobs_keep n) l 0 false) as Hall.
  pose proof (conv_last_pos ab h (njobs_keep n) Hwf Hc Hseen) as Hlast. fold l in Hlast.
  set (p := take_while_nz (njobs_keep n) 0 false l) in *.
  assert (Hlp : length l = (length p + S (length r))%nat) by (rewrite Hr at 1; rewrite app_length; reflexivity).
  assert (Hnth : forall k, (k < length p)%nat -> nth k p (0, 0) = nth k l (0, 0)).
  { intros k Hk. rewrite Hr. symmetry. apply app_nth1. exact Hk. }
  unfold njobs_keep in Hhead.
  assert (He : e = nth (length p) l (0, 0)).
  { rewrite Hr, app_nth2, Nat.sub_diag by lia. reflexivity. }
  pose proof (dmins_fst_nth ab h (length p) ltac:(fold l; lia)) as Hfst. fold l in Hfst. rewrite <- He in Hfst.
  assert (Hp2 : (2 <= length p)%nat) by (destruct (Nat.ltb_spec (length p) 2); lia).
  assert (Hes : n < fst e) by lia.
  rewrite map_length. unfold lenN. rewrite map_length. split; [lia|]. split; [exact Hlast|].
  intros k Hk Hkp. destruct (Hall k Hkp) as [Hkk|Hz].
  - exfalso. fold p in Hkk. cbn [Nat.add] in Hkk. rewrite Hnth in Hkk by exact Hkp.
    unfold njobs_keep in Hkk. unfold l in Hkk. rewrite (dmins_fst_nth ab h k) in Hkk by (fold l; lia).
    destruct (Nat.ltb_spec k 2); lia.
  - fold p in Hz. apply (nz_seen_false_nth p k (k - 1) Hz); lia.
Qed.
Print Assumptions curve_from_ab_length.

(* an entry 0 at index i means that i + 2 events can arrive simultaneously *)
Lemma exact_zero_entry : forall f d i, exact_dmin_of f d -> (i < length d)%nat -> nthN d i = 0 ->
  N.of_nat i + 2 <= f 1.
Proof.
  intros f d i Hex Hi E. destruct (Hex i Hi) as [H _]. rewrite E in H. change (0 + 1) with 1 in H. exact H.
Qed.

(* the length before the repair, max 2 (n - 1), is kept whenever the entry for max(n, 3) events is
   already positive, i.e. fewer than max(n, 3) events can arrive simultaneously *)
Corollary curve_from_ab_length_old : forall ab n j, wf_ab ab -> steps_exact_class ab ->
  is_never ab = false -> (j < 64)%nat ->
  njobs_enough n (dmins_upto ab (N.max 4 1 * 2 ^ N.of_nat j)) = true ->
  na ab 1 < N.max n 3 ->
  lenN (curve_from_ab ab n) = N.max 2 (n - 1).
Proof.
  intros ab n j Hwf Hc Hn Hj Hen H1.
  destruct (curve_from_ab_length ab n j Hwf Hc Hn Hj Hen) as [Hlen [_ Hz]].
  destruct (N.eq_dec (lenN (curve_from_ab ab n)) (N.max 2 (n - 1))) as [E|NE]; [exact E|]. exfalso.
  unfold lenN in *. set (k := N.to_nat (N.max 2 (n - 1))).
  specialize (Hz k ltac:(lia) ltac:(lia)).
  pose proof (exact_zero_entry (na ab) _ (k - 1)%nat (curve_from_ab_exact_gen ab n Hwf Hc) ltac:(lia) Hz). lia.
Qed.
Print Assumptions curve_from_ab_length_old.

(* usability of a vector that is not extended: the last entry is positive as soon as the source admits
   no more simultaneous events than the vector has entries *)
Lemma exact_last_pos : forall f d, exact_dmin_of f d -> d <> [] -> f 1 <= lenN d -> 0 < lastN d.
Proof.
  intros f d Hex Hne Hf.
  assert (Hl : (1 <= length d)%nat) by (destruct d; [congruence | cbn [length]; lia]).
  destruct (Hex (length d - 1)%nat ltac:(lia)) as [H _]. rewrite <- last_nth in H.
  destruct (N.eq_dec (lastN d) 0) as [E|E]; [|lia]. rewrite E in H. change (0 + 1) with 1 in H.
  unfold lenN in Hf. lia.
Qed.

(* the repaired conversions: whenever the loop finds a horizon the result is a well-formed delta-min
   vector (non-empty, non-decreasing, last entry positive), whatever the burst size of the source *)
Corollary curve_from_ab_until_wf : forall ab hz j, wf_ab ab -> steps_exact_class ab ->
  is_never ab = false -> (j < 64)%nat ->
  until_enough hz (dmins_upto ab (N.max (hz + 2) 1 * 2 ^ N.of_nat j)) = true ->
  wf_dmin (curve_from_ab_until ab hz).
Proof.
  intros ab hz j Hwf Hc Hn Hj Hen.
  destruct (curve_from_ab_until_covers ab hz j Hwf Hc Hn Hj Hen) as [Hlen [_ [Hlast _]]].
  split; [intros E; rewrite E in Hlen; cbn [length] in Hlen; lia|].
  split; [apply curve_from_ab_until_nondecreasing; assumption | exact Hlast].
Qed.
Print Assumptions curve_from_ab_until_wf.

Corollary curve_from_ab_wf : forall ab n j, wf_ab ab -> steps_exact_class ab ->
  is_never ab = false -> (j < 64)%nat ->
  njobs_enough n (dmins_upto ab (N.max 4 1 * 2 ^ N.of_nat j)) = true ->
  wf_dmin (curve_from_ab ab n).
Proof.
  intros ab n j Hwf Hc Hn Hj Hen.
  destruct (curve_from_ab_length ab n j Hwf Hc Hn Hj Hen) as [Hlen [Hlast _]].
  split; [intros E; rewrite E in Hlen; unfold lenN in Hlen; cbn [length] in Hlen; lia|].
  split; [apply curve_from_ab_nondecreasing; assumption | exact Hlast].
Qed.
Print Assumptions curve_from_ab_wf.

(* regression for the repaired finding: a source that releases three or more events at once (jitter >= 2
   periods) turned into a short Curve used to yield a vector whose last entry is 0 (number_arrivals on it
   divides by zero in the crate); the repaired conversions extend it to the first positive distance.
   The first conjunct instantiates the general theorem (the doubling loop stops at horizon 4 * 2^1);
   the second is checked point by point up to the stated bound and, below, for every delta *)
Theorem curve_from_ab_zero_last_repaired :
  wf_dmin (curve_from_ab (Sporadic 3 7) 3) /\
  forall delta, delta <= 40 -> na (Sporadic 3 7) delta <= curve_na (curve_from_ab (Sporadic 3 7) 3) delta.
Proof.
  split.
  - apply (curve_from_ab_wf (Sporadic 3 7) 3 1); [cbn; lia | exact I | reflexivity | lia | vm_compute; reflexivity].
  - intros delta Hd.
    assert (H : forallb (fun d => na (Sporadic 3 7) d <=? curve_na (curve_from_ab (Sporadic 3 7) 3) d) (rangeN 0 41) = true)
      by (vm_compute; reflexivity).
    rewrite forallb_forall in H. apply N.leb_le. apply H. apply rangeN_In. lia.
Qed.
Print Assumptions curve_from_ab_zero_last_repaired.

Theorem curve_from_ab_until_zero_last_repaired :
  wf_dmin (curve_from_ab_until (Sporadic 3 7) 0) /\
  forall delta, delta <= 40 -> na (Sporadic 3 7) delta <= curve_na (curve_from_ab_until (Sporadic 3 7) 0) delta.
Proof.
  split.
  - apply (curve_from_ab_until_wf (Sporadic 3 7) 0 2); [cbn; lia | exact I | reflexivity | lia | vm_compute; reflexivity].
  - intros delta Hd.
    assert (H : forallb (fun d => na (Sporadic 3 7) d <=? curve_na (curve_from_ab_until (Sporadic 3 7) 0) d) (rangeN 0 41) = true)
      by (vm_compute; reflexivity).
    rewrite forallb_forall in H. apply N.leb_le. apply H. apply rangeN_In. lia.
Qed.
Print Assumptions curve_from_ab_until_zero_last_repaired.

(* the same without a bound, from the general theorems *)
Theorem curve_from_ab_zero_last_repaired_all :
  curve_from_ab (Sporadic 3 7) 3 = [0; 0; 2] /\ curve_from_ab_until (Sporadic 3 7) 0 = [0; 0; 2] /\
  (forall delta, na (Sporadic 3 7) delta <= curve_na (curve_from_ab (Sporadic 3 7) 3) delta) /\
  (forall delta, na (Sporadic 3 7) delta <= curve_na (curve_from_ab_until (Sporadic 3 7) 0) delta).
Proof.
  assert (Hwf : wf_ab (Sporadic 3 7)) by (cbn; lia).
  assert (Hsub : forall a b, na (Sporadic 3 7) (a + b) <= na (Sporadic 3 7) a + na (Sporadic 3 7) b)
    by (intros a b; apply sporadic_subadditive; lia).
  split; [vm_compute; reflexivity|]. split; [vm_compute; reflexivity|]. split.
  - destruct curve_from_ab_zero_last_repaired as [[Hne [_ Hl]] _].
    apply curve_from_ab_dominates; (assumption || exact I).
  - destruct curve_from_ab_until_zero_last_repaired as [[Hne [_ Hl]] _].
    apply curve_from_ab_until_dominates; (assumption || exact I).
Qed.
Print Assumptions curve_from_ab_zero_last_repaired_all.

(* From<Periodic> for Curve: exact everywhere *)
Theorem curve_of_periodic_exact : forall T, 1 <= T -> forall delta,
  na (Periodic T) delta <= curve_na (curve_of_periodic T) delta /\
  (delta <= T -> curve_na (curve_of_periodic T) delta = na (Periodic T) delta).
Proof.
  intros T HT delta.
  assert (E : curve_na (curve_of_periodic T) delta = na (Periodic T) delta).
  { cbn [na]. unfold curve_of_periodic. apply curve_na_singleton. lia. }
  rewrite E. split; [lia | reflexivity].
Qed.
Print Assumptions curve_of_periodic_exact.

(* ------------------------------------------------------------------------------------------ *)
(* 4. ArrivalCurvePrefix::from_arrival_bound_until                                             *)
(* ------------------------------------------------------------------------------------------ *)
Lemma last_cons_default : forall {A} (l : list A) a d, last (a :: l) d = last l a.
Proof.
  intros A l a d. destruct l as [|b l]; [reflexivity|].
  change (last (a :: b :: l) d) with (last (b :: l) d).
  revert b. induction l as [|c l IH]; intros b; [reflexivity|].
  change (last (b :: c :: l) d) with (last (c :: l) d).
  change (last (b :: c :: l) a) with (last (c :: l) a). apply IH.
Qed.

Section RecordedPrefix.
  Variable f : N -> N.
  Hypothesis Hm : mono f.
  Variable h : N.
  Let g := fun d : N => (d, f d).

  (* the recorded steps in (lo, h]: the lookup returns the value of the source *)
  Lemma recorded_lookup : forall l lo, StronglySorted N.lt l ->
    (forall d, In d l <-> lo < d /\ d <= h /\ f (d - 1) < f d) ->
    forall delta, lo <= delta -> delta <= h ->
    match prefix_lookup_idx (map g l) delta with
    | O => f lo
    | S i => snd (nth i (map g l) (0, 0))
    end = f delta.
  Proof.
    induction l as [|d0 l IH]; intros lo Hs Hin delta H1 H2.
    - cbn [map prefix_lookup_idx]. apply flat_between; [exact Hm | exact H1|].
      intros d Hd1 Hd2 Hd3. apply (Hin d). lia.
    - inversion Hs as [|? ? Hs' Hf]; subst. rewrite Forall_forall in Hf.
      destruct (proj1 (Hin d0) (or_introl eq_refl)) as [Hd1 [Hd2 Hd3]].
      cbn [map prefix_lookup_idx]. unfold g at 1. destruct (N.leb_spec d0 delta) as [Hle|Hgt].
      + assert (Hin' : forall d, In d l <-> d0 < d /\ d <= h /\ f (d - 1) < f d).
        { intros d. split.
          - intros Hd. pose proof (Hf d Hd). destruct (proj1 (Hin d) (or_intror Hd)) as [_ [H3 H4]]. lia.
          - intros [H3 [H4 H5]]. destruct (proj2 (Hin d) ltac:(lia)) as [E|E]; [lia | exact E]. }
        specialize (IH d0 Hs' Hin' delta Hle H2).
        destruct (prefix_lookup_idx (map g l) delta) as [|i]; cbn [nth]; [cbn [snd]; exact IH | exact IH].
      + apply flat_between; [exact Hm | exact H1|]. intros d H3 H4 H5.
        destruct (proj2 (Hin d) ltac:(lia)) as [E|E]; [lia|]. specialize (Hf d E). lia.
  Qed.

  Lemma recorded_last : forall l lo, StronglySorted N.lt l ->
    (forall d, In d l <-> lo < d /\ d <= h /\ f (d - 1) < f d) -> lo <= h ->
    snd (last (map g l) (g lo)) = f h.
  Proof.
    induction l as [|d0 l IH]; intros lo Hs Hin Hlo.
    - cbn [map last]. unfold g. cbn [snd]. apply flat_between; [exact Hm | exact Hlo|].
      intros d Hd1 Hd2 Hd3. apply (Hin d). lia.
    - inversion Hs as [|? ? Hs' Hf]; subst. rewrite Forall_forall in Hf.
      destruct (proj1 (Hin d0) (or_introl eq_refl)) as [Hd1 [Hd2 Hd3]].
      cbn [map]. rewrite last_cons_default. apply IH; [exact Hs'| |exact Hd2].
      intros d. split.
      + intros Hd. pose proof (Hf d Hd). destruct (proj1 (Hin d) (or_intror Hd)) as [_ [H3 H4]]. lia.
      + intros [H3 [H4 H5]]. destruct (proj2 (Hin d) ltac:(lia)) as [E|E]; [lia | exact E].
  Qed.
End RecordedPrefix.

Lemma prefix_from_shape : forall ab hz h s, 1 <= hz -> prefix_from_ab_until ab hz = Some (h, s) ->
  h = hz /\ s = map (fun d => (d, na ab d)) (steps_upto ab hz).
Proof.
  intros ab hz h s Hhz H. unfold prefix_from_ab_until, prefix_new in H.
  replace (N.max hz 1) with hz in H by lia.
  destruct (prefix_wellformed hz 0 _); [|discriminate]. injection H as <- <-. split; reflexivity.
Qed.

Lemma prefix_from_lookup : forall ab hz delta, wf_ab ab -> steps_exact_class ab -> delta <= hz ->
  prefix_lookup (map (fun d => (d, na ab d)) (steps_upto ab hz)) delta = na ab delta.
Proof.
  intros ab hz delta Hwf Hc Hd. destruct (dmins_spec_pre ab hz Hwf Hc) as [Hm [Hs Hin]].
  unfold prefix_lookup. destruct (N.eqb_spec delta 0) as [->|Hd0]; [symmetry; apply na_zero; exact Hwf|].
  pose proof (recorded_lookup (na ab) Hm hz (steps_upto ab hz) 0 Hs Hin delta ltac:(lia) Hd) as H.
  rewrite (na_zero ab Hwf) in H. exact H.
Qed.

Lemma prefix_from_max : forall ab hz, wf_ab ab -> steps_exact_class ab ->
  prefix_max_njobs (map (fun d => (d, na ab d)) (steps_upto ab hz)) = na ab hz.
Proof.
  intros ab hz Hwf Hc. destruct (dmins_spec_pre ab hz Hwf Hc) as [Hm [Hs Hin]].
  unfold prefix_max_njobs.
  pose proof (recorded_last (na ab) Hm hz (steps_upto ab hz) 0 Hs Hin ltac:(lia)) as H.
  cbv beta in H. rewrite (na_zero ab Hwf) in H. exact H.
Qed.

(* exact on the whole recorded horizon, including delta = hz; the hypothesis 0 < na ab 1 of the task is
   not needed *)
Lemma prefix_from_exact_upto_horizon : forall ab hz h s, wf_ab ab -> steps_exact_class ab -> 1 <= hz ->
  prefix_from_ab_until ab hz = Some (h, s) ->
  h = hz /\ forall delta, delta <= hz -> prefix_na h s delta = na ab delta.
Proof.
  intros ab hz h s Hwf Hc Hhz H. destruct (prefix_from_shape ab hz h s Hhz H) as [-> ->].
  split; [reflexivity|]. intros delta Hd. unfold prefix_na.
  destruct (N.eq_dec delta hz) as [->|Hne].
  - rewrite N.div_same, N.mod_same by lia. rewrite prefix_from_max by assumption.
    unfold prefix_lookup. change (0 =? 0) with true. cbv iota. lia.
  - rewrite N.div_small, N.mod_small by lia. rewrite prefix_from_lookup by (assumption || lia). lia.
Qed.

Theorem prefix_from_exact_within_horizon : forall ab hz h s, wf_ab ab -> steps_exact_class ab -> 1 <= hz -> 0 < na ab 1 ->
  prefix_from_ab_until ab hz = Some (h, s) -> h = hz /\ forall delta, delta < hz -> prefix_na h s delta = na ab delta.
Proof.
  intros ab hz h s Hwf Hc Hhz _ H.
  destruct (prefix_from_exact_upto_horizon ab hz h s Hwf Hc Hhz H) as [-> Hex].
  split; [reflexivity|]. intros delta Hd. apply Hex. lia.
Qed.
Print Assumptions prefix_from_exact_within_horizon.

Lemma prefix_from_dominates_gen : forall ab hz h s, wf_ab ab -> steps_exact_class ab -> 1 <= hz ->
  (forall a b, na ab (a + b) <= na ab a + na ab b) ->
  prefix_from_ab_until ab hz = Some (h, s) -> forall delta, na ab delta <= prefix_na h s delta.
Proof.
  intros ab hz h s Hwf Hc Hhz Hsub H delta. destruct (prefix_from_shape ab hz h s Hhz H) as [-> ->].
  unfold prefix_na. rewrite prefix_from_max by assumption.
  pose proof (N.div_mod delta hz ltac:(lia)) as Hdm. pose proof (N.mod_lt delta hz ltac:(lia)) as Hlt.
  rewrite prefix_from_lookup by (assumption || lia).
  set (q := delta / hz) in *. set (r := delta mod hz) in *. rewrite Hdm at 1.
  pose proof (Hsub (hz * q) r). pose proof (subadd_mul (na ab) hz q (na_zero ab Hwf) Hsub). lia.
Qed.

Theorem prefix_from_dominates : forall ab hz h s, wf_ab ab -> steps_exact_class ab -> 1 <= hz -> 0 < na ab 1 ->
  (forall a b, na ab (a + b) <= na ab a + na ab b) ->
  prefix_from_ab_until ab hz = Some (h, s) -> forall delta, na ab delta <= prefix_na h s delta.
Proof. intros ab hz h s Hwf Hc Hhz _. apply prefix_from_dominates_gen; assumption. Qed.
Print Assumptions prefix_from_dominates.
