(* DemandProofs.v — property C16: request-bound functions compose arrival and cost models additively;
   aggregates add up their components, the n-largest-jobs bound is the sum of the n largest job costs,
   and nesting / boxing / slicing of aggregates is invisible. *)
From Coq Require Import List NArith Lia Bool Permutation.
From RTA.Model Require Import Base Arrival Wcet Demand WellFormed.
From RTA.Proofs Require Import WcetProofs.

(* all cost models inside a request bound are well-formed (nothing is assumed about the arrival models) *)
Fixpoint cm_wf_rb (rb : RB) : Prop :=
  match rb with
  | RBF _ cm => wf_cm cm
  | Agg l => (fix all (l : list RB) : Prop := match l with [] => True | r :: l' => cm_wf_rb r /\ all l' end) l
  end.

(* ------------------------------------------------------------------ induction on nested request bounds *)

Lemma RB_ind' : forall P : RB -> Prop,
  (forall ab cm, P (RBF ab cm)) -> (forall l, Forall P l -> P (Agg l)) -> forall rb, P rb.
Proof.
  intros P H1 H2. fix IH 1. intros [ab cm|l].
  - apply H1.
  - apply H2. induction l as [|r l IHl]; constructor; [apply IH|exact IHl].
Qed.

Lemma cm_wf_agg : forall l, cm_wf_rb (Agg l) -> Forall cm_wf_rb l.
Proof.
  induction l as [|r l IH]; intros H; constructor.
  - destruct H as [H _]. exact H.
  - apply IH. destruct H as [_ H]. exact H.
Qed.

(* ------------------------------------------------------------------ sums, merge, sorting *)

Lemma sumN_cons : forall a l, sumN (a :: l) = a + sumN l.
Proof. reflexivity. Qed.

Lemma sumN_perm : forall a b, Permutation a b -> sumN a = sumN b.
Proof.
  induction 1 as [|x a b _ IH|x y a|a b c _ IH1 _ IH2]; rewrite ?sumN_cons; try lia.
Qed.

Lemma sumN_concat : forall ls, sumN (concat ls) = sumN (map sumN ls).
Proof.
  induction ls as [|l ls IH]; [reflexivity|].
  cbn [concat map]. now rewrite sumN_app, sumN_cons, IH.
Qed.

Lemma merge_nil_l : forall l2, merge [] l2 = l2.
Proof. destruct l2; reflexivity. Qed.

Lemma merge_nil_r : forall l1, merge l1 [] = l1.
Proof. destruct l1; reflexivity. Qed.

Lemma merge_cons : forall a1 l1 a2 l2,
  merge (a1 :: l1) (a2 :: l2) =
  if a1 <=? a2 then a1 :: merge l1 (a2 :: l2) else a2 :: merge (a1 :: l1) l2.
Proof. reflexivity. Qed.

(* for arbitrary (also unsorted) lists *)
Lemma merge_perm : forall l1 l2, Permutation (merge l1 l2) (l1 ++ l2).
Proof.
  induction l1 as [|a1 l1 IH]; intros l2.
  - now rewrite merge_nil_l.
  - induction l2 as [|a2 l2 IH2].
    + now rewrite merge_nil_r, app_nil_r.
    + rewrite merge_cons. destruct (a1 <=? a2).
      * cbn [app]. constructor. apply IH.
      * rewrite IH2. apply (Permutation_middle (a1 :: l1) l2 a2).
Qed.

Lemma kmerge_perm : forall ls, Permutation (kmerge ls) (concat ls).
Proof.
  induction ls as [|l ls IH]; [reflexivity|].
  cbn [kmerge fold_right concat]. fold (kmerge ls). rewrite merge_perm. now apply Permutation_app_head.
Qed.

Lemma insert_perm : forall x l, Permutation (insert_desc x l) (x :: l).
Proof.
  induction l as [|y l IH]; cbn [insert_desc]; [reflexivity|].
  destruct (y <=? x); [reflexivity|]. rewrite IH. apply perm_swap.
Qed.

Lemma sort_perm : forall l, Permutation (sort_desc l) l.
Proof.
  induction l as [|x l IH]; [reflexivity|].
  cbn [sort_desc fold_right]. fold (sort_desc l). rewrite insert_perm. now constructor.
Qed.

Lemma insert_comm : forall x y s, insert_desc x (insert_desc y s) = insert_desc y (insert_desc x s).
Proof.
  induction s as [|z s IH]; cbn [insert_desc];
    repeat (match goal with |- context [?a <=? ?b] => destruct (N.leb_spec a b) end; cbn [insert_desc]);
    try lia; try reflexivity; try (now rewrite IH);
    assert (x = y) by lia; subst; reflexivity.
Qed.

(* insertion sort is canonical for multisets *)
Lemma sort_desc_perm_eq : forall l l', Permutation l l' -> sort_desc l = sort_desc l'.
Proof.
  induction 1 as [|x a b _ IH|x y a|a b c _ IH1 _ IH2].
  - reflexivity.
  - cbn [sort_desc fold_right]. fold (sort_desc a) (sort_desc b). now rewrite IH.
  - cbn [sort_desc fold_right]. fold (sort_desc a). apply insert_comm.
  - congruence.
Qed.

(* sorted in descending order *)
Fixpoint desc (s : list N) : Prop :=
  match s with
  | [] => True
  | a :: s' => (forall x, In x s' -> x <= a) /\ desc s'
  end.

Lemma insert_desc_desc : forall x l, desc l -> desc (insert_desc x l).
Proof.
  induction l as [|y l IH]; intros H; cbn [insert_desc].
  - split; [intros z []|exact I].
  - destruct H as [H1 H2]. destruct (N.leb_spec y x) as [Hyx|Hyx].
    + split; [|split; assumption]. intros z [<-|Hz]; [assumption|]. specialize (H1 z Hz). lia.
    + split; [|now apply IH]. intros z Hz.
      apply (Permutation_in _ (insert_perm x l)) in Hz. destruct Hz as [<-|Hz]; [lia|now apply H1].
Qed.

Lemma sort_desc_desc : forall l, desc (sort_desc l).
Proof.
  induction l as [|x l IH]; [exact I|].
  cbn [sort_desc fold_right]. fold (sort_desc l). now apply insert_desc_desc.
Qed.

Lemma sum_firstn_le : forall n (l : list N), sumN (firstn n l) <= sumN l.
Proof.
  intros n l. rewrite <- (firstn_skipn n l) at 2. rewrite sumN_app. lia.
Qed.

Lemma sum_firstn_mono : forall n m (l : list N), (n <= m)%nat -> sumN (firstn n l) <= sumN (firstn m l).
Proof.
  intros n m l H. replace (firstn n l) with (firstn n (firstn m l)).
  - apply sum_firstn_le.
  - rewrite firstn_firstn. f_equal. lia.
Qed.

(* the first n elements of a descending list dominate any n elements *)
Lemma top_sum : forall s, desc s -> forall n l1 l2, Permutation (l1 ++ l2) s ->
  (length l1 <= n)%nat -> sumN l1 <= sumN (firstn n s).
Proof.
  induction s as [|a s IH]; intros Hd n l1 l2 Hp Hn.
  - apply Permutation_sym, Permutation_nil in Hp. apply app_eq_nil in Hp. destruct Hp as [-> _]. cbn. lia.
  - destruct l1 as [|b l1]; [cbn; lia|].
    destruct n as [|n]; [cbn [length] in Hn; lia|].
    destruct Hd as [Hmax Hd]. cbn [firstn]. rewrite (sumN_cons a).
    assert (Ha : In a ((b :: l1) ++ l2)) by (apply (Permutation_in _ (Permutation_sym Hp)); now left).
    apply in_app_or in Ha. destruct Ha as [Ha|Ha].
    + apply in_split in Ha. destruct Ha as (p & q & E). rewrite E in *.
      rewrite <- app_assoc in Hp. cbn [app] in Hp.
      apply Permutation_sym, Permutation_cons_app_inv in Hp.
      rewrite app_length in Hn. cbn [length] in Hn.
      specialize (IH Hd n (p ++ q) l2). rewrite <- app_assoc in IH.
      specialize (IH (Permutation_sym Hp)). rewrite app_length in IH. specialize (IH ltac:(lia)).
      rewrite sumN_app, sumN_cons. rewrite sumN_app in IH. lia.
    + assert (Hb : b <= a).
      { assert (Hb : In b (a :: s)) by (apply (Permutation_in _ Hp); now left).
        destruct Hb as [<-|Hb]; [lia|now apply Hmax]. }
      apply in_split in Ha. destruct Ha as (p & q & ->).
      rewrite app_assoc in Hp. apply Permutation_sym, Permutation_cons_app_inv in Hp.
      cbn [app] in Hp.
      assert (Hp' : Permutation (l1 ++ b :: p ++ q) s).
      { rewrite <- Permutation_middle. rewrite app_assoc. now apply Permutation_sym. }
      cbn [length] in Hn. specialize (IH Hd n l1 _ Hp' ltac:(lia)).
      rewrite sumN_cons. lia.
Qed.

(* ------------------------------------------------------------------ C16 *)

Theorem rbf_service_needed : forall ab cm delta, sn (RBF ab cm) delta = cost_of_jobs cm (na ab delta).
Proof. reflexivity. Qed.
Print Assumptions rbf_service_needed.

Theorem agg_service_needed : forall l delta, sn (Agg l) delta = sumN (map (fun r => sn r delta) l).
Proof. reflexivity. Qed.
Print Assumptions agg_service_needed.

(* the job costs of an aggregate are exactly the job costs of its components (as a multiset) *)
Theorem jc_agg_permutation : forall l delta, Permutation (jc (Agg l) delta) (concat (map (fun r => jc r delta) l)).
Proof. intros. cbn [jc]. apply kmerge_perm. Qed.
Print Assumptions jc_agg_permutation.

Theorem jc_sums_to_sn : forall rb, cm_wf_rb rb -> forall delta, sumN (jc rb delta) = sn rb delta.
Proof.
  induction rb as [ab cm|l IH] using RB_ind'; intros Hwf delta.
  - cbn [jc sn]. now apply cost_sum_job_costs.
  - rewrite (sumN_perm _ _ (jc_agg_permutation l delta)), agg_service_needed, sumN_concat, map_map.
    apply cm_wf_agg in Hwf. f_equal.
    induction l as [|r l IHl]; [reflexivity|].
    inversion IH as [|? ? H1 H2]; subst. inversion Hwf as [|? ? W1 W2]; subst.
    cbn [map]. f_equal; [now apply H1|now apply IHl].
Qed.
Print Assumptions jc_sums_to_sn.

Theorem lw_le_every_job_cost : forall rb, cm_wf_rb rb -> forall delta c, In c (jc rb delta) -> lw rb delta <= c.
Proof.
  induction rb as [ab cm|l IH] using RB_ind'; intros Hwf delta c Hc.
  - cbn [jc lw] in *. now apply least_le_job_costs.
  - apply (Permutation_in _ (jc_agg_permutation l delta)) in Hc.
    apply in_concat in Hc. destruct Hc as (x & Hx & Hc).
    apply in_map_iff in Hx. destruct Hx as (r & <- & Hr).
    apply cm_wf_agg in Hwf. rewrite Forall_forall in IH, Hwf.
    specialize (IH r Hr (Hwf r Hr) delta c Hc).
    cbn [lw].
    assert (Hin : In (lw r delta) (map (fun r => lw r delta) l)) by (apply in_map_iff; eauto).
    assert (Hne : map (fun r => lw r delta) l <> []) by (intros E; rewrite E in Hin; exact Hin).
    destruct (minN_or_spec 0 _ Hne) as [_ H]. specialize (H _ Hin). lia.
Qed.
Print Assumptions lw_le_every_job_cost.

(* service_needed_by_n_jobs *)
Theorem snn_mono : forall rb delta n m, n <= m -> snn rb delta n <= snn rb delta m.
Proof. intros rb delta n m H. unfold snn. apply sum_firstn_mono. lia. Qed.
Print Assumptions snn_mono.

Lemma sum_sort_jc : forall rb, cm_wf_rb rb -> forall delta, sumN (sort_desc (jc rb delta)) = sn rb delta.
Proof. intros rb Hwf delta. rewrite (sumN_perm _ _ (sort_perm _)). now apply jc_sums_to_sn. Qed.

Theorem snn_le_sn : forall rb, cm_wf_rb rb -> forall delta n, snn rb delta n <= sn rb delta.
Proof.
  intros rb Hwf delta n. unfold snn. rewrite <- (sum_sort_jc rb Hwf delta). apply sum_firstn_le.
Qed.
Print Assumptions snn_le_sn.

Theorem snn_saturates : forall rb, cm_wf_rb rb -> forall delta n, lenN (jc rb delta) <= n -> snn rb delta n = sn rb delta.
Proof.
  intros rb Hwf delta n H. unfold snn. rewrite firstn_all2; [now apply sum_sort_jc|].
  rewrite (Permutation_length (sort_perm _)). unfold lenN in H. lia.
Qed.
Print Assumptions snn_saturates.

(* ... it is the sum of the n largest job costs: no choice of at most n jobs costs more, and some choice attains it *)
Theorem snn_upper : forall rb delta n l1 l2, Permutation (l1 ++ l2) (jc rb delta) -> (length l1 <= N.to_nat n)%nat -> sumN l1 <= snn rb delta n.
Proof.
  intros rb delta n l1 l2 Hp Hn. unfold snn.
  apply (top_sum _ (sort_desc_desc _) _ l1 l2); [|assumption].
  rewrite Hp. apply Permutation_sym, sort_perm.
Qed.
Print Assumptions snn_upper.

Theorem snn_attained : forall rb delta n, exists l1 l2, Permutation (l1 ++ l2) (jc rb delta) /\
     length l1 = Nat.min (N.to_nat n) (length (jc rb delta)) /\ sumN l1 = snn rb delta n.
Proof.
  intros rb delta n.
  exists (firstn (N.to_nat n) (sort_desc (jc rb delta))), (skipn (N.to_nat n) (sort_desc (jc rb delta))).
  split; [|split].
  - rewrite firstn_skipn. apply sort_perm.
  - rewrite firstn_length. now rewrite (Permutation_length (sort_perm _)).
  - reflexivity.
Qed.
Print Assumptions snn_attained.

Theorem snc_components : forall l delta n, snc (Agg l) delta n = Some (sumN (map (fun r => snn r delta n) l)).
Proof. reflexivity. Qed.
Print Assumptions snc_components.

(* nesting / boxing / slicing is invisible: flattening an inner aggregate changes nothing *)
Theorem sn_flatten : forall l1 l2 l3 delta, sn (Agg (l1 ++ Agg l2 :: l3)) delta = sn (Agg (l1 ++ l2 ++ l3)) delta.
Proof.
  intros. rewrite !agg_service_needed, !map_app, !sumN_app. cbn [map]. rewrite sumN_cons.
  rewrite agg_service_needed. lia.
Qed.
Print Assumptions sn_flatten.

Theorem lw_singleton : forall r delta, lw (Agg [r]) delta = lw r delta.
Proof. reflexivity. Qed.
Print Assumptions lw_singleton.

Theorem jc_flatten : forall l1 l2 l3 delta, Permutation (jc (Agg (l1 ++ Agg l2 :: l3)) delta) (jc (Agg (l1 ++ l2 ++ l3)) delta).
Proof.
  intros. rewrite !jc_agg_permutation, !map_app, !concat_app. cbn [map concat].
  apply Permutation_app_head. apply Permutation_app_tail.
  apply jc_agg_permutation.
Qed.
Print Assumptions jc_flatten.

Theorem snn_flatten : forall l1 l2 l3 delta n, snn (Agg (l1 ++ Agg l2 :: l3)) delta n = snn (Agg (l1 ++ l2 ++ l3)) delta n.
Proof.
  intros. unfold snn. now rewrite (sort_desc_perm_eq _ _ (jc_flatten l1 l2 l3 delta)).
Qed.
Print Assumptions snn_flatten.
