(* EcrtsGeneralCosts.v — property C04 for tasks with GENERAL job-cost models (Model/Wcet.v: Scalar | Multiframe |
   CurveCM | ExtrapCM): the ROS 2 ECRTS'19 analyses [e_es], [e_pp], [e_timer] are safe under reservation supply.
   Generalises EsSound.v ([event_source_sound]) and PpSound.v ([pp_sound], [timer_sound]) from scalar WCETs
   ([task], [rb_of], [respects_costs]) to [gtask], [grb_of], [respects_cost_models] of GeneralCosts.v.
   Part 1  [event_source_sound_gen]: e_es, every task general (exactly the shape of C04_event_source_sound).
   Part 2  [np_reservation_bound_gen]: the schedule-level busy-window argument of PpSound.v for an own cost FUNCTION
           cst (cost bound of m consecutive instances) and the analysis' stand-in lst (least WCET) for the cost of the
           instance under analysis.  The interference interval A + R - lst + 1 is sound although an instance may
           execute for LESS than every frame of its cost model: what the argument needs of lst is not "the instance
           costs at least lst" but  cst k + lst m <= cst (k + 1) for k < m  (lst is a lower bound on every INCREMENT of
           the cost bound): if the instance j has not started by A + R - lst + 1, the supply went to the N - 1 earlier
           instances of its callback (<= cst (N - 1) <= cst N - lst, whatever j itself costs) and to interference released
           in the interval, and the remaining lst - 1 slots cannot make up for the lst units the fixed point reserved.
   Part 3  the cost-model facts: [least_wcet_item] (that inequality, from least_le_job_costs: it holds for Scalar,
           Multiframe, CurveCM and sub-additive ExtrapCM), [least_wcet_anti], hence [ii_mono_gen]: the interference interval
           is monotone in the response time for EVERY well-formed cost model, so e_pp / e_timer compute LEAST fixed points
           ([e_pp_steps_gen], [e_timer_steps_gen]) and never panic ([e_pp_total_gen], [e_timer_total_gen]).
   Part 4  [ecrts_np_core_gen]: from gtasks / respects_gcurves / respects_cost_models to Part 2.
   Part 5  [pp_sound_gen], [timer_sound_gen]: analysed AND interfering callbacks general.  Shape of C04_polling_point_callback_sound /
           C04_timer_sound with ONE extra hypothesis, [tie_free]: the instances of the analysed callback have pairwise
           distinct release times, or its cost model is Scalar.  (Blocking bound of the timer theorem: cost_of_jobs cm 1 <= B
           for every callback outside the class.)
   Part 6  [pp_sound_from_gen], [timer_sound_from_gen], [event_source_sound_from_gen]: the scalar theorems of C04 are special cases.
   Part 7  non-vacuity on runs of the operational executor: [pp_sound_gen_nonvacuous] (Multiframe [3;1], bound 5 attained),
           [timer_sound_gen_nonvacuous] (bound 6, observed 5); [pp_tie_order_witness]: without [tie_free] the statement is false
           for the hypothesis [respects_cost_models] (it lets the enumeration order of SIMULTANEOUS releases differ from the
           order in which the dispatcher serves them): bound 9, response time 10, on a run of the operational executor.
   Part 8  the checker used for testing (executor runs over all release offsets, budget placements, compliant cost sequences).

   FINDING (negative): no unsoundness of rta_timer / rta_polling_point_callback for non-scalar own cost models; the
   non-monotonicity in the frame costs (C17) does not affect safety. *)
From Coq Require Import Arith NArith List Lia Bool Permutation.
From RTA.Model Require Import Base Arrival Wcet Demand Supply FixedPoint Analyses Ros2 Eval WellFormed.
From RTA.Spec Require Import Sched Events TaskModel Reservation SupplySched NonPreemptive Exhaustive ExhaustiveRos.
From RTA.Proofs Require Import ArrivalNaProofs WcetProofs StepsProofs FixedPointProofs SupplyProofs
  ReservationProofs ExhFP ExhRos FifoSound Workload FifoEndToEnd EntryPoints EsSound DemandProofs Totality
  PpSound GeneralCosts WcetTraceProofs.
Import ListNotations.
Local Open Scope N_scope.

(* ------------------------------------------------------------------------------------------ *)
(* Part 1: the event-source analysis (Lemma 1), every task general                             *)
(* ------------------------------------------------------------------------------------------ *)
Theorem event_source_sound_gen : forall dbg sb (tasks : list gtask) limit R jobs sched sigma,
  wf_sb sb -> supply_admits sb sigma ->
  Forall gtask_ok tasks ->
  e_es dbg sb (Agg (map grb_of tasks)) limit = ROk R ->
  valid jobs sched -> uses_supply sched sigma -> work_conserving_under jobs sched sigma ->
  fifo_policy jobs sched ->
  respects_gcurves tasks jobs -> respects_cost_models tasks jobs ->
  forall k, (k < length jobs)%nat -> completes_within jobs sched k (N.to_nat R).
Proof.
  intros dbg sb tasks limit R jobs sched sigma Hwf Hadm Hok He Hv Hus Hwc Hf Hc Hcm k Hk.
  unfold e_es in He.
  assert (Hrb := gtasks_ok_agg tasks Hok).
  set (rb := Agg (map grb_of tasks)) in *.
  assert (Hwfrb := rb_steps_ok_wf rb Hrb).
  assert (Hmono := sn_mono rb Hwfrb).
  assert (H0 := sn_zero rb Hwfrb).
  assert (Hse := rb_steps_exact rb Hrb).
  assert (Hsok := sbf_wf_ok sb Hwf).
  assert (Hinv := st_wf_exact sb Hwf).
  assert (H1 : 0 < sn rb 1).
  { pose proof (gjob_sn1_pos tasks jobs Hok Hc Hcm k Hk) as Hp.
    destruct (gjob_task tasks jobs Hcm k Hk) as (Ht & _).
    eapply N.lt_le_trans; [exact Hp|]. unfold rb. cbn [sn]. rewrite map_map.
    apply (sumN_ge_In (fun tk => sn (grb_of tk) 1)). apply nth_In. exact Ht. }
  rewrite (event_source_exhaustive (sbf sb) (st sb) Hsok Hinv dbg limit (sn rb) (rb_steps_upto rb)
             Hmono H0 Hse) in He.
  unfold exh_event_source, exh_ecrts in He.
  destruct (least_sol (sbf sb) limit 0 (sn rb)) as [max_bw|] eqn:Ebw; [|discriminate].
  cbv zeta in He.
  set (sols := map (fun A => (A, least_sol (sbf sb) limit A (fun _ => sn rb (A + 1))))
                   (rangeN 0 (max_bw + 1))) in He.
  destruct (find (fun p => is_none (snd p)) sols) as [p|] eqn:Ef; [discriminate|].
  assert (HR : maxN (map (fun p => oval (snd p)) sols) = R) by (injection He as HR'; exact HR').
  apply least_sol_some in Ebw. destruct Ebw as (Hl1 & Hbl & Hsol & _).
  unfold sol in Hsol. rewrite N.add_0_l in Hsol.
  assert (Hbw0 : 0 < max_bw).
  { destruct (N.eq_dec max_bw 0) as [E|E]; [|lia]. exfalso. rewrite E in Hsol.
    destruct Hsok as (Hs0 & _). rewrite Hs0 in Hsol. change (N.max 0 1) with 1 in Hsol. lia. }
  replace (N.max max_bw 1) with max_bw in Hsol by lia.
  unfold completes_within.
  apply (fifo_under_supply_bound jobs sched sigma Hv Hus Hwc Hf
           (fun d => N.to_nat (sn rb (N.of_nat d)))) with
        (sbf := fun d => N.to_nat (sbf sb (N.of_nat d))) (maxbw := N.to_nat max_bw).
  - intros t1 d.
    assert (H := gtotal_workload_bounded tasks jobs Hc Hcm (gtasks_ok_wf tasks Hok) t1 d).
    fold rb in H. unfold Jlfp2.in_win in H. lia.
  - intros t d. apply supply_admits_sbf; assumption.
  - rewrite Nnat.N2Nat.id. split; lia.
  - intros A HA. set (A' := N.of_nat A).
    assert (Hin : In (A', least_sol (sbf sb) limit A' (fun _ => sn rb (A' + 1))) sols).
    { unfold sols. apply (in_map (fun A => (A, least_sol (sbf sb) limit A (fun _ => sn rb (A + 1))))).
      apply in_rangeN. unfold A'. lia. }
    pose proof (find_none _ _ Ef _ Hin) as Hsome. cbn [snd] in Hsome.
    destruct (least_sol (sbf sb) limit A' (fun _ => sn rb (A' + 1))) as [r|] eqn:Er;
      [|discriminate Hsome].
    assert (Hle : r <= R).
    { rewrite <- HR. apply maxN_ub.
      change r with ((fun p : N * option N => oval (snd p)) (A', Some r)).
      apply in_map. exact Hin. }
    apply least_sol_some in Er. destruct Er as (_ & _ & Hs & _). unfold sol in Hs.
    exists (N.to_nat r). split; [lia|].
    replace (N.of_nat (A + 1)) with (A' + 1) by (unfold A'; lia).
    replace (N.of_nat (A + N.to_nat r)) with (A' + r) by (unfold A'; lia). lia.
  - exact Hk.
Qed.
Print Assumptions event_source_sound_gen.

(* ------------------------------------------------------------------------------------------ *)
(* Part 2: the schedule-level busy-window argument for a general own cost function             *)
(* ------------------------------------------------------------------------------------------ *)
Local Close Scope N_scope.
Local Open Scope nat_scope.

(* the section-generalised helper lemmas of PpSound.v carry unused parameters; instantiate them once *)
Lemma junk_bw : forall B, 0 < 1 /\ 0 * 0 + B + 0 <= S B.
Proof. intros B. lia. Qed.

Section NpGen.
  Variable jobs : list job.
  Variable sched : nat -> option nat.
  Variable sigma : rsched.
  Notation n := (length jobs).
  Notation arr := (arr jobs).
  Notation cost := (cost jobs).
  Notation service := (service sched).
  Notation pending := (pending jobs sched).
  Notation tsk k := (j_task (nth k jobs (mkJob 0 0 0))).

  Hypothesis Hvalid : valid jobs sched.
  Hypothesis Huses : uses_supply sched sigma.
  Hypothesis Hwc : work_conserving_under jobs sched sigma.
  Hypothesis Hrtc : runs_to_completion_under jobs sched sigma.
  Hypothesis Hfifo : fifo_within_task jobs sched.

  Variable i : nat.
  Variable hi : nat -> bool.
  Hypothesis Hown_hi : forall k, tsk k = i -> hi k = true.
  Hypothesis Hprio : forall t k k', starts_at sched k t -> hi k = false -> pending k' t -> hi k' = false.

  Variable B : nat.
  (* nao: own arrival bound; cst m: cost bound of m consecutive own instances; lst m: the analysis' "least WCET"
     when m own instances can arrive; intf: interfering request bound; sbf: supply bound *)
  Variables nao intf sbf cst lst : nat -> nat.
  Notation own_in := (own_in jobs i).
  Notation oth_in := (oth_in jobs i hi).
  Notation hi_in := (hi_in jobs hi).
  Notation hquiet := (hquiet jobs sched hi).

  Hypothesis Hcnt : forall t1 d, countP jobs (own_in t1 d) <= nao d.
  (* the own instances released in a window are consecutive: they cost at most cst (their number) *)
  Hypothesis Hblk : forall t1 d, workP jobs (own_in t1 d) <= cst (countP jobs (own_in t1 d)).
  (* the own instances released in [t1, arr j] that have started while j has not are consecutive instances that
     do not include j *)
  Hypothesis Hpre : forall j t1 t, j < n -> tsk j = i -> t1 <= arr j -> service j t = 0 ->
    workP jobs (fun k => own_in t1 (arr j - t1 + 1) k && (0 <? service k t))
    <= cst (countP jobs (own_in t1 (arr j - t1 + 1)) - 1).
  Hypothesis Hcst_mono : forall a b, a <= b -> cst a <= cst b.
  Hypothesis Hcst_step : forall m, cst m < cst (m + 1).
  (* what the analysis subtracts is a lower bound on every increment of the cost function *)
  Hypothesis Hlst : forall k m, k < m -> cst k + lst m <= cst (k + 1).
  Hypothesis Hnao_mono : forall a b, a <= b -> nao a <= nao b.
  Hypothesis Hintf : forall t1 d, workP jobs (oth_in t1 d) <= intf d.
  Hypothesis HB : forall k, k < n -> hi k = false -> cost k <= B.
  Hypothesis Hnao0 : nao 0 = 0.
  Hypothesis Hsbf : forall t d, sbf d <= supplied sigma t d.

  Variable maxbw : nat.
  Hypothesis Hbw : 0 < maxbw /\ cst (nao maxbw) + B + intf maxbw <= sbf maxbw.

  (* the interference interval of the analysis *)
  Definition giin (A r : nat) : nat :=
    let w := lst (nao (A + r)) in if w <? r then A + r - w + 1 else A + 1.

  Variable R : nat.
  Hypothesis HR : forall A, A < maxbw -> nao A < nao (A + 1) ->
    exists r, r <= R /\ cst (nao (A + 1)) + intf (giin A (Nat.max r 1)) + B <= sbf (A + r).

  Let g_hlast_quiet a := hlast_quiet jobs sched hi 0 0 (fun _ => 0) (fun _ => 0) (fun _ => 1) eq_refl 1 (junk_bw 0) a.
  Let g_not_hquiet_ex t := not_hquiet_ex jobs sched hi 0 0 (fun _ => 0) (fun _ => 0) (fun _ => 1) eq_refl 1 (junk_bw 0) t.
  Let g_supplied_le_svc Q t1 d :=
    supplied_le_svc jobs sched sigma Hvalid Huses Hwc Hrtc hi Hprio 0 B (fun _ => 0) (fun _ => 0) (fun _ => S B) HB
      eq_refl 1 (junk_bw B) Q t1 d.

  Theorem np_reservation_bound_gen : forall j, j < n -> tsk j = i -> cost j <= service j (arr j + R).
  Proof.
    intros j Hj Htj. set (a := arr j).
    destruct (g_hlast_quiet a) as [t1 (Ht1 & Hq & Hnq)].
    assert (Hhj : hi j = true) by (apply Hown_hi; exact Htj).
    assert (Hbusy_pre : forall t, t1 <= t < a -> exists k, hi k = true /\ pending k t).
    { intros t Ht. destruct (g_not_hquiet_ex (S t) (Hnq (S t) ltac:(lia))) as (k & Hk & Hh & Ha & Hs).
      exists k. split; [exact Hh|]. split; [exact Hk|]. split; [lia|].
      pose proof (service_mono sched k t (S t) ltac:(lia)). lia. }
    assert (Hold : forall t k, t1 <= t -> sched t = Some k -> hi k = true -> t1 <= arr k).
    { intros t k Ht Ek Hh. destruct (Nat.le_gt_cases t1 (arr k)) as [|Hlt]; [assumption|].
      destruct (Hvalid _ _ Ek) as (Hk & _ & Hs). specialize (Hq k Hk Hh Hlt).
      assert (service k t1 <= service k t) by (apply service_mono; lia). lia. }
    assert (Hhiw : forall y, workP jobs (hi_in t1 y) <= cst (countP jobs (own_in t1 y)) + workP jobs (oth_in t1 y)).
    { intros y. apply Nat.le_trans with (workP jobs (fun k => own_in t1 y k || oth_in t1 y k)).
      - apply workP_mono. intros k Hk Hin. unfold PpSound.hi_in in Hin. apply andb_true_iff in Hin.
        destruct Hin as [Hh Hw]. unfold PpSound.own_in, PpSound.oth_in, task_in_win, in_win in *. rewrite Hh.
        destruct (tsk k =? i); cbn [andb negb orb]; rewrite Hw; reflexivity.
      - eapply Nat.le_trans; [apply workP_or_le|]. apply Nat.add_le_mono_r. apply Hblk. }
    assert (Hlag : forall y, 0 < y -> t1 + y <= a -> supplied sigma t1 y < workP jobs (hi_in t1 y) + B).
    { intros y Hy0 Hya. set (P := hi_in t1 y).
      assert (Hb : forall u, u < y -> sigma (t1 + u) = true -> exists k, hi k = true /\ pending k (t1 + u)).
      { intros u Hu _. apply Hbusy_pre. lia. }
      assert (Hs : supplied sigma t1 y <= svcP jobs sched P t1 y + B).
      { apply g_supplied_le_svc; [exact Hb|]. intros u k Hu E Hh. unfold P, PpSound.hi_in, in_win. rewrite Hh.
        destruct (Hvalid _ _ E) as (_ & Ha' & _). pose proof (Hold (t1 + u) k ltac:(lia) E Hh).
        apply andb_true_iff. split; [reflexivity|].
        apply andb_true_iff. split; [apply Nat.leb_le|apply Nat.ltb_lt]; lia. }
      destruct (g_not_hquiet_ex (t1 + y) (Hnq (t1 + y) ltac:(lia))) as (k & Hk & Hh & Ha & Hinc).
      assert (Hge : t1 <= arr k).
      { destruct (Nat.le_gt_cases t1 (arr k)) as [|Hlt]; [assumption|]. exfalso.
        specialize (Hq k Hk Hh Hlt). pose proof (service_mono sched k t1 (t1 + y) ltac:(lia)). lia. }
      assert (svcP jobs sched P t1 y < workP jobs P); [|lia].
      apply (svcP_lt_workP jobs sched Hvalid P t1 y k Hk); [|lia].
      unfold P, PpSound.hi_in, in_win. rewrite Hh.
      apply andb_true_iff. split; [reflexivity|].
      apply andb_true_iff. split; [apply Nat.leb_le|apply Nat.ltb_lt]; lia. }
    (* Step 1: the busy window is shorter than maxbw *)
    destruct Hbw as [Hbw0 Hbw1].
    assert (HA : a - t1 < maxbw).
    { destruct (Nat.lt_ge_cases (a - t1) maxbw) as [|Hge]; [assumption|]. exfalso.
      pose proof (Hlag maxbw Hbw0 ltac:(lia)) as H1. pose proof (Hhiw maxbw) as H2.
      pose proof (Hcst_mono _ _ (Hcnt t1 maxbw)) as H3. pose proof (Hintf t1 maxbw) as H4.
      pose proof (Hsbf t1 maxbw) as H5. lia. }
    set (A := a - t1) in *.
    assert (Oj : own_in t1 (A + 1) j = true).
    { unfold PpSound.own_in, task_in_win. rewrite Htj, Nat.eqb_refl. cbn [andb].
      apply andb_true_iff. split; [apply Nat.leb_le|apply Nat.ltb_lt]; unfold A; fold a; lia. }
    set (N' := countP jobs (own_in t1 (A + 1))).
    assert (HN1 : 1 <= N').
    { unfold N', countP. eapply Nat.le_trans; [|apply (sumn_ge_term _ _ j Hj)]. cbv beta. rewrite Oj. lia. }
    assert (HN2 : N' <= nao (A + 1)) by (apply Hcnt).
    destruct (last_step nao Hnao0 A ltac:(lia)) as (A' & HA'1 & HA'2 & HA'3).
    destruct (HR A' ltac:(lia) HA'2) as (r & Hr & Hsol).
    set (n' := nao (A' + 1)) in *.
    set (r' := Nat.max r 1) in *.
    set (W := lst (nao (A' + r'))).
    set (X := A' + r) in *. set (Y := giin A' r') in *.
    assert (Hn'1 : 1 <= n') by lia.
    assert (HW : cst (n' - 1) + W <= cst n').
    { replace n' with ((n' - 1) + 1) at 2 by lia. apply Hlst.
      assert (n' <= nao (A' + r')) by (apply Hnao_mono; unfold r'; lia). lia. }
    assert (HY1 : A' + 1 <= Y) by (unfold Y, giin; cbv zeta; fold W; destruct (Nat.ltb_spec W r'); lia).
    assert (HXY : X + 1 <= Y + W).
    { unfold X, Y, giin. cbv zeta. fold W. destruct (Nat.ltb_spec W r'); unfold r' in *; lia. }
    assert (Hsup : cst n' + intf Y + B <= supplied sigma t1 X) by (pose proof (Hsbf t1 X); lia).
    assert (Hx : t1 + X <= a + R) by (unfold X, A in *; lia).
    apply Nat.le_trans with (service j (t1 + X)); [|apply service_mono; unfold a in Hx; lia].
    destruct (Nat.le_gt_cases (cost j) (service j (t1 + X))) as [|Hinc]; [assumption|]. exfalso.
    assert (Hcnt_pre : forall y, y <= A -> countP jobs (own_in t1 y) + 1 <= N').
    { intros y Hy. apply (countP_lt jobs _ _ j Hj); [| |exact Oj].
      - intros k Hk Hin. unfold PpSound.own_in, task_in_win in *. apply andb_true_iff in Hin. destruct Hin as [Hin H3].
        rewrite Hin. cbn [andb]. apply Nat.ltb_lt in H3. apply Nat.ltb_lt. lia.
      - unfold PpSound.own_in, task_in_win. apply andb_false_iff. right. apply Nat.ltb_ge. unfold A in Hy. fold a. lia. }
    assert (HNn : cst (N' - 1) <= cst (n' - 1)) by (apply Hcst_mono; lia).
    assert (HNn' : cst N' <= cst n') by (apply Hcst_mono; lia).
    destruct (Nat.le_gt_cases (Nat.min X Y) A) as [Hmin|Hmin].
    { (* the analysis' fixed point for offset A' lies inside the busy prefix [t1, a]: impossible *)
      set (y := Nat.min X Y) in *.
      destruct (Nat.eq_dec y 0) as [Hy0|Hy0].
      { assert (HX0' : X = 0) by lia. assert (HX0 : supplied sigma t1 X = 0) by (rewrite HX0'; reflexivity).
        pose proof (Hcst_step (n' - 1)) as Hs1. replace (n' - 1 + 1) with n' in Hs1 by lia. lia. }
      pose proof (Hlag y ltac:(lia) ltac:(unfold A in Hmin; lia)) as H1. pose proof (Hhiw y) as H2.
      pose proof (Hcnt_pre y Hmin) as H3.
      assert (H4 : workP jobs (oth_in t1 y) <= intf Y).
      { eapply Nat.le_trans; [|apply (Hintf t1 Y)]. apply workP_mono. intros k Hk Hin.
        unfold PpSound.oth_in, in_win in *. apply andb_true_iff in Hin. destruct Hin as [Hin H5]. rewrite Hin. cbn [andb].
        apply andb_true_iff in H5. destruct H5 as [H5 H6]. rewrite H5. cbn [andb].
        apply Nat.ltb_lt in H6. apply Nat.ltb_lt. lia. }
      pose proof (supplied_lip sigma t1 X y) as H5.
      assert (H6 : cst (countP jobs (own_in t1 y)) <= cst (n' - 1)) by (apply Hcst_mono; lia).
      lia. }
    assert (HAY : A + 1 <= Y) by lia. assert (HAX : A + 1 <= X) by lia.
    assert (Hjp : forall t, a <= t < t1 + X -> pending j t).
    { intros t Ht. split; [exact Hj|]. split; [fold a; lia|].
      pose proof (service_mono sched j t (t1 + X) ltac:(lia)). lia. }
    assert (Hb : forall u, u < X -> sigma (t1 + u) = true -> exists k, hi k = true /\ pending k (t1 + u)).
    { intros u Hu _. destruct (Nat.lt_ge_cases (t1 + u) a) as [Hlt|Hge]; [apply Hbusy_pre; lia|].
      exists j. split; [exact Hhj|apply Hjp; lia]. }
    assert (Hown_run : forall u k, u < X -> sched (t1 + u) = Some k -> tsk k = i -> own_in t1 (A + 1) k = true).
    { intros u k Hu E Htk. unfold PpSound.own_in, task_in_win. rewrite Htk, Nat.eqb_refl. cbn [andb].
      destruct (Hvalid _ _ E) as (_ & Ha' & _).
      pose proof (Hold (t1 + u) k ltac:(lia) E (Hown_hi k Htk)).
      assert (arr k <= a).
      { destruct (Nat.lt_ge_cases (t1 + u) a) as [Hlt|Hge]; [lia|]. fold a.
        apply (Hfifo (t1 + u) k j E (Hjp (t1 + u) ltac:(lia))). rewrite Htk, Htj. reflexivity. }
      apply andb_true_iff. split; [apply Nat.leb_le|apply Nat.ltb_lt]; unfold A; lia. }
    assert (Hoth_run : forall y u k, u < y -> sched (t1 + u) = Some k -> hi k = true -> tsk k <> i -> oth_in t1 y k = true).
    { intros y u k Hu E Hh Htk. unfold PpSound.oth_in, in_win. rewrite Hh. cbn [andb].
      destruct (Nat.eqb_spec (tsk k) i) as [|_]; [contradiction|]. cbn [negb andb].
      destruct (Hvalid _ _ E) as (_ & Ha' & _). pose proof (Hold (t1 + u) k ltac:(lia) E Hh).
      apply andb_true_iff. split; [apply Nat.leb_le|apply Nat.ltb_lt]; lia. }
    destruct (Nat.eq_dec (service j (t1 + Y)) 0) as [Hns|Hst].
    - (* j has not started by t1 + Y: the supply of [t1, t1 + Y) went to other instances *)
      assert (HYX : Y <= X).
      { destruct (Nat.le_gt_cases Y X) as [|Hgt]; [assumption|]. exfalso.
        pose proof (service_mono sched j (t1 + X) (t1 + Y) ltac:(lia)).
        (* X < Y: then the supply of [t1, t1 + X) went to other instances, too *) 
        clear H. set (P := fun k => (own_in t1 (A + 1) k && (0 <? service k (t1 + Y))) || oth_in t1 Y k).
        assert (Hs : supplied sigma t1 X <= svcP jobs sched P t1 X + B).
        { apply g_supplied_le_svc; [exact Hb|]. intros u k Hu E Hh. unfold P.
          destruct (Nat.eq_dec (tsk k) i) as [Htk|Htk].
          - rewrite (Hown_run u k Hu E Htk). cbn [andb].
            pose proof (runs_service sched k (t1 + u) E).
            pose proof (service_mono sched k (S (t1 + u)) (t1 + Y) ltac:(lia)).
            destruct (Nat.ltb_spec 0 (service k (t1 + Y))); [reflexivity|lia].
          - rewrite (Hoth_run Y u k ltac:(lia) E Hh Htk). apply orb_true_r. }
        assert (Hw : workP jobs P <= cst (N' - 1) + intf Y).
        { unfold P. eapply Nat.le_trans; [apply workP_or_le|]. apply Nat.add_le_mono; [|apply Hintf].
          apply (Hpre j t1 (t1 + Y) Hj Htj Ht1 Hns). }
        pose proof (svcP_le_workP jobs sched Hvalid P t1 X) as H1.
        pose proof (Hcst_step (n' - 1)) as Hs1. replace (n' - 1 + 1) with n' in Hs1 by lia. lia. }
      set (P := fun k => (own_in t1 (A + 1) k && (0 <? service k (t1 + Y))) || oth_in t1 Y k).
      assert (Hs : supplied sigma t1 Y <= svcP jobs sched P t1 Y + B).
      { apply g_supplied_le_svc; [intros u Hu; apply Hb; lia|]. intros u k Hu E Hh. unfold P.
        destruct (Nat.eq_dec (tsk k) i) as [Htk|Htk].
        - rewrite (Hown_run u k ltac:(lia) E Htk). cbn [andb].
          pose proof (runs_service sched k (t1 + u) E).
          pose proof (service_mono sched k (S (t1 + u)) (t1 + Y) ltac:(lia)).
          destruct (Nat.ltb_spec 0 (service k (t1 + Y))); [reflexivity|lia].
        - rewrite (Hoth_run Y u k Hu E Hh Htk). apply orb_true_r. }
      assert (Hw : workP jobs P <= cst (N' - 1) + intf Y).
      { unfold P. eapply Nat.le_trans; [apply workP_or_le|]. apply Nat.add_le_mono; [|apply Hintf].
        apply (Hpre j t1 (t1 + Y) Hj Htj Ht1 Hns). }
      pose proof (svcP_le_workP jobs sched Hvalid P t1 Y) as H1.
      pose proof (supplied_lip sigma t1 X Y) as H2.
      pose proof (Hcst_step (n' - 1)) as Hs1. replace (n' - 1 + 1) with n' in Hs1 by lia. lia.
    - (* j has started by t1 + Y: from then on it occupies every supplied slot *)
      set (P := fun k => own_in t1 (A + 1) k || oth_in t1 Y k).
      assert (Hs : supplied sigma t1 X <= svcP jobs sched P t1 X + B).
      { apply g_supplied_le_svc; [exact Hb|]. intros u k Hu E Hh. unfold P.
        destruct (Nat.eq_dec (tsk k) i) as [Htk|Htk].
        - rewrite (Hown_run u k Hu E Htk). reflexivity.
        - destruct (Nat.lt_ge_cases u Y) as [HuY|HuY].
          + rewrite (Hoth_run Y u k HuY E Hh Htk). apply orb_true_r.
          + exfalso. pose proof (service_mono sched j (t1 + Y) (t1 + u) ltac:(lia)).
            pose proof (service_mono sched j (t1 + u) (t1 + X) ltac:(lia)).
            assert (Hrun := Hrtc (t1 + u) j ltac:(lia) ltac:(lia) (Huses _ _ E)).
            rewrite E in Hrun. injection Hrun as ->. contradiction. }
      assert (Hw : workP jobs P <= cst N' + intf Y).
      { unfold P. eapply Nat.le_trans; [apply workP_or_le|]. apply Nat.add_le_mono; [|apply Hintf]. apply Hblk. }
      assert (svcP jobs sched P t1 X < workP jobs P); [|lia].
      apply (svcP_lt_workP jobs sched Hvalid P t1 X j Hj); [|lia].
      unfold P. rewrite Oj. reflexivity.
  Qed.
End NpGen.
Print Assumptions np_reservation_bound_gen.

(* ------------------------------------------------------------------------------------------ *)
(* Part 3: what the analyses need of a cost model                                              *)
(* ------------------------------------------------------------------------------------------ *)
Local Close Scope nat_scope.
Local Open Scope N_scope.

(* least_wcet m is a lower bound on every increment of cost_of_jobs among the first m jobs *)
Lemma least_wcet_item : forall cm, wf_cm cm -> forall k m, k < m ->
  cost_of_jobs cm k + least_wcet cm m <= cost_of_jobs cm (k + 1).
Proof.
  intros cm Hwf k m Hk.
  assert (Hin : In (item cm k) (job_costs cm m)).
  { rewrite job_costs_item by exact Hwf. apply in_map. apply in_rangeN. lia. }
  pose proof (least_le_job_costs cm Hwf m _ Hin) as H. unfold item in H.
  pose proof (cost_step cm Hwf k). lia.
Qed.

Lemma In_firstn_le : forall {A} a b (l : list A) x, (a <= b)%nat -> In x (firstn a l) -> In x (firstn b l).
Proof.
  intros A a b l x Hab H. replace a with (Nat.min a b) in H by lia. rewrite <- firstn_firstn in H.
  apply In_firstn in H. exact H.
Qed.

(* ... and it does not grow with the number of jobs (from one job on) *)
Lemma least_wcet_anti : forall cm, wf_cm cm -> forall a b, 1 <= a -> a <= b -> least_wcet cm b <= least_wcet cm a.
Proof.
  intros [c|l|l|l] Hwf a b Ha Hab; cbn [least_wcet].
  - destruct (N.ltb_spec 0 a), (N.ltb_spec 0 b); lia.
  - cbn [wf_cm] in Hwf.
    assert (Hne : firstn (N.to_nat a) l <> []).
    { destruct l as [|x l]; [congruence|]. destruct (N.to_nat a) as [|p] eqn:E; [lia|]. cbn [firstn]. discriminate. }
    destruct (minN_or_spec 0 _ Hne) as [H1 _].
    apply (In_firstn_le (N.to_nat a) (N.to_nat b)) in H1; [|lia].
    assert (Hne' : firstn (N.to_nat b) l <> []) by (intros E; rewrite E in H1; exact H1).
    destruct (minN_or_spec 0 _ Hne') as [_ H2]. apply H2. exact H1.
  - destruct Hwf as [Hl _]. destruct (wcurve_least_attained l a Hl ltac:(lia)) as (j & Hj1 & Hj2 & ->).
    apply wcurve_least_le; lia.
  - destruct Hwf as [Hl _]. destruct (wcurve_least_attained l a Hl ltac:(lia)) as (j & Hj1 & Hj2 & ->).
    apply wcurve_least_le; lia.
Qed.

(* hence the interference interval is monotone in the response time, for EVERY well-formed cost model *)
Lemma ii_mono_gen : forall ab cm, wf_ab ab -> wf_cm cm -> 0 < na ab 1 ->
  forall off, ExhFP.mono (interference_interval (lw (RBF ab cm)) off).
Proof.
  intros ab cm Hab Hcm Hpos off a b Hle. destruct (N.eq_dec a 0) as [->|Ha].
  - unfold interference_interval at 1. cbv zeta.
    destruct (N.ltb_spec (lw (RBF ab cm) (off + 0)) 0) as [Hlt|_]; [lia|]. apply ii_ge.
  - unfold interference_interval. cbv zeta. cbn [lw].
    pose proof (na_mono ab Hab 1 (off + a) ltac:(lia)) as H1.
    pose proof (na_mono ab Hab (off + a) (off + b) ltac:(lia)) as H2.
    pose proof (least_wcet_anti cm Hcm (na ab (off + a)) (na ab (off + b)) ltac:(lia) H2) as H3.
    destruct (N.ltb_spec (least_wcet cm (na ab (off + a))) a), (N.ltb_spec (least_wcet cm (na ab (off + b))) b); lia.
Qed.
Print Assumptions ii_mono_gen.

Lemma e_timer_steps_gen : forall sb ab cm intf B limit, wf_sb sb -> gtask_ok (ab, cm) -> 0 < na ab 1 -> wf_rb intf ->
  forall dbg, e_timer dbg sb (RBF ab cm) intf B limit =
    exh_ecrts_steps (sbf sb) limit (sn (RBF ab cm))
      (fun d => sn (RBF ab cm) d + B + sn intf d)
      (fun off resp => sn (RBF ab cm) (off + 1) + sn intf (interference_interval (lw (RBF ab cm)) off resp) + B).
Proof.
  intros sb ab cm intf B limit Hsb Hok Hpos Hintf dbg. unfold e_timer.
  pose proof (gtask_ok_rb (ab, cm) Hok) as Hrb. cbn [grb_of fst snd] in Hrb.
  destruct Hok as (Hab & _ & Hcm & _). cbn [fst snd] in Hab, Hcm.
  apply (timer_step_offsets (sbf sb) (st sb) (sbf_wf_ok sb Hsb) (st_wf_exact sb Hsb)).
  - apply rb_steps_upto_exact. exact Hrb.
  - apply sn_mono. apply rb_steps_ok_wf. exact Hrb.
  - apply sn_mono. exact Hintf.
  - apply ii_mono_gen; assumption.
Qed.

Lemma e_pp_steps_gen : forall sb ab cm intf limit, wf_sb sb -> gtask_ok (ab, cm) -> 0 < na ab 1 -> wf_rb intf ->
  forall dbg, e_pp dbg sb (RBF ab cm) intf limit =
    exh_ecrts_steps (sbf sb) limit (sn (RBF ab cm))
      (fun d => sn (RBF ab cm) d + sn intf d)
      (fun off resp => sn (RBF ab cm) (off + 1) + sn intf (interference_interval (lw (RBF ab cm)) off resp)).
Proof.
  intros sb ab cm intf limit Hsb Hok Hpos Hintf dbg. unfold e_pp.
  pose proof (gtask_ok_rb (ab, cm) Hok) as Hrb. cbn [grb_of fst snd] in Hrb.
  destruct Hok as (Hab & _ & Hcm & _). cbn [fst snd] in Hab, Hcm.
  apply (pp_step_offsets (sbf sb) (st sb) (sbf_wf_ok sb Hsb) (st_wf_exact sb Hsb)).
  - apply rb_steps_upto_exact. exact Hrb.
  - apply sn_mono. apply rb_steps_ok_wf. exact Hrb.
  - apply sn_mono. exact Hintf.
  - apply ii_mono_gen; assumption.
Qed.

(* consequently the two entry points never panic and their debug and release builds agree, for every cost model *)
Theorem e_pp_total_gen : forall dbg sb ab cm intf limit, wf_sb sb -> gtask_ok (ab, cm) -> 0 < na ab 1 -> wf_rb intf ->
  e_pp dbg sb (RBF ab cm) intf limit <> RPanic /\
  e_pp dbg sb (RBF ab cm) intf limit = e_pp (negb dbg) sb (RBF ab cm) intf limit.
Proof.
  intros dbg sb ab cm intf limit Hsb Hok Hpos Hintf.
  pose proof (e_pp_steps_gen sb ab cm intf limit Hsb Hok Hpos Hintf) as E.
  rewrite (E dbg), (E (negb dbg)). split; [apply exh_ecrts_steps_not_panic|reflexivity].
Qed.
Theorem e_timer_total_gen : forall dbg sb ab cm intf B limit, wf_sb sb -> gtask_ok (ab, cm) -> 0 < na ab 1 -> wf_rb intf ->
  e_timer dbg sb (RBF ab cm) intf B limit <> RPanic /\
  e_timer dbg sb (RBF ab cm) intf B limit = e_timer (negb dbg) sb (RBF ab cm) intf B limit.
Proof.
  intros dbg sb ab cm intf B limit Hsb Hok Hpos Hintf.
  pose proof (e_timer_steps_gen sb ab cm intf B limit Hsb Hok Hpos Hintf) as E.
  rewrite (E dbg), (E (negb dbg)). split; [apply exh_ecrts_steps_not_panic|reflexivity].
Qed.
Print Assumptions e_pp_total_gen.
Print Assumptions e_timer_total_gen.

(* ------------------------------------------------------------------------------------------ *)
(* Part 4: from the task-level model to the schedule-level hypotheses                          *)
(* ------------------------------------------------------------------------------------------ *)
Local Close Scope N_scope.
Local Open Scope nat_scope.
Local Notation tsk jobs k := (j_task (nth k jobs (mkJob 0 0 0))).

(* The instances of the callback under analysis are released at pairwise distinct times.  [respects_cost_models]
   lets the enumeration order of SIMULTANEOUS releases be chosen freely, [fifo_within_task] lets the dispatcher serve
   them in any order: if the two orders differ, the instances served before the one under analysis need not be
   consecutive in the enumeration, and the bound can be exceeded ([pp_tie_order_witness] below).  With distinct
   release times the service order of a callback's instances IS the enumeration order. *)
Definition distinct_releases (jobs : list job) (i : nat) : Prop :=
  forall k k', k < length jobs -> k' < length jobs -> tsk jobs k = i -> tsk jobs k' = i ->
    arr jobs k = arr jobs k' -> k = k'.

Lemma g_svc_pos_ex : forall (sched : nat -> option nat) k t1 d, 0 < svc sched k t1 d ->
  exists u, u < d /\ sched (t1 + u) = Some k.
Proof.
  intros sched k t1 d. exact (svc_pos_ex sched 0 0 (fun _ => 0) (fun _ => 0) (fun _ => 1) eq_refl 1 (junk_bw 0) k t1 d).
Qed.

(* [Hpre] of Part 2 from distinct release times *)
Lemma hpre_of_distinct : forall jobs sched i (cst : nat -> nat),
  valid jobs sched -> fifo_within_task jobs sched -> distinct_releases jobs i ->
  (forall k, k < length jobs -> tsk jobs k = i -> 1 <= cost jobs k) ->
  (forall t1 d, workP jobs (own_in jobs i t1 d) <= cst (countP jobs (own_in jobs i t1 d))) ->
  (forall a b, a <= b -> cst a <= cst b) ->
  forall j t1 t, j < length jobs -> tsk jobs j = i -> t1 <= arr jobs j -> service sched j t = 0 ->
    workP jobs (fun k => own_in jobs i t1 (arr jobs j - t1 + 1) k && (0 <? service sched k t))
    <= cst (countP jobs (own_in jobs i t1 (arr jobs j - t1 + 1)) - 1).
Proof.
  intros jobs sched i cst Hvalid Hfifo Hdist Hc1 Hblk Hmono j t1 t Hj Htj Ht1 Hs0.
  set (A := arr jobs j - t1).
  apply Nat.le_trans with (workP jobs (own_in jobs i t1 A)).
  - apply workP_mono. intros k Hk Hin. apply andb_true_iff in Hin. destruct Hin as [Hin Hst].
    apply Nat.ltb_lt in Hst.
    unfold own_in, task_in_win in *. apply andb_true_iff in Hin. destruct Hin as [Hin H3].
    apply andb_true_iff in Hin. destruct Hin as [Htk H2]. rewrite Htk, H2. cbn [andb].
    apply Nat.eqb_eq in Htk. apply Nat.leb_le in H2. apply Nat.ltb_lt in H3. apply Nat.ltb_lt.
    assert (Hkj : k <> j) by (intros ->; lia).
    assert (Hle : arr jobs k <= arr jobs j).
    { unfold Sched.service in Hst. destruct (g_svc_pos_ex sched k 0 t Hst) as (u & Hu & E).
      rewrite Nat.add_0_l in E. destruct (Hvalid _ _ E) as (_ & Hak & _).
      destruct (Nat.le_gt_cases (arr jobs j) u) as [Hju|Hju]; [|lia].
      apply (Hfifo u k j E); [|rewrite Htk, Htj; reflexivity].
      split; [exact Hj|]. split; [exact Hju|].
      pose proof (service_mono sched j u t ltac:(lia)). pose proof (Hc1 j Hj Htj). lia. }
    assert (arr jobs k <> arr jobs j) by (intros E; apply Hkj; apply Hdist; assumption).
    unfold A. lia.
  - eapply Nat.le_trans; [apply Hblk|]. apply Hmono.
    assert (countP jobs (own_in jobs i t1 A) + 1 <= countP jobs (own_in jobs i t1 (A + 1))); [|lia].
    apply (countP_lt jobs _ _ j Hj).
    + intros k Hk Hin. unfold own_in, task_in_win in *. apply andb_true_iff in Hin. destruct Hin as [Hin H3].
      rewrite Hin. cbn [andb]. apply Nat.ltb_lt in H3. apply Nat.ltb_lt. unfold A in H3. lia.
    + unfold own_in, task_in_win. apply andb_false_iff. right. apply Nat.ltb_ge. unfold A. lia.
    + unfold own_in, task_in_win. rewrite Htj, Nat.eqb_refl. cbn [andb].
      apply andb_true_iff. split; [apply Nat.leb_le|apply Nat.ltb_lt]; lia.
Qed.

(* [Hpre] of Part 2 for a scalar own cost: any N - 1 instances cost at most C * (N - 1), consecutive or not *)
Lemma hpre_of_scalar : forall jobs (sched : nat -> option nat) i C,
  (forall k, k < length jobs -> tsk jobs k = i -> cost jobs k <= C) ->
  forall j t1 t, j < length jobs -> tsk jobs j = i -> t1 <= arr jobs j -> service sched j t = 0 ->
    workP jobs (fun k => own_in jobs i t1 (arr jobs j - t1 + 1) k && (0 <? service sched k t))
    <= C * (countP jobs (own_in jobs i t1 (arr jobs j - t1 + 1)) - 1).
Proof.
  intros jobs sched i C HC j t1 t Hj Htj Ht1 Hs0.
  set (P := fun k => own_in jobs i t1 (arr jobs j - t1 + 1) k && (0 <? service sched k t)).
  eapply Nat.le_trans; [apply (workP_count jobs P C)|].
  - intros k Hk Hin. unfold P in Hin. apply andb_true_iff in Hin. destruct Hin as [Hin _].
    unfold own_in, task_in_win in Hin. apply andb_true_iff in Hin. destruct Hin as [Hin _].
    apply andb_true_iff in Hin. destruct Hin as [Hin _]. apply Nat.eqb_eq in Hin. apply HC; assumption.
  - apply Nat.mul_le_mono_l.
    assert (countP jobs P + 1 <= countP jobs (own_in jobs i t1 (arr jobs j - t1 + 1))); [|lia].
    apply (countP_lt jobs _ _ j Hj).
    + intros k Hk Hin. unfold P in Hin. apply andb_true_iff in Hin. tauto.
    + unfold P. rewrite Hs0. apply andb_false_r.
    + unfold own_in, task_in_win. rewrite Htj, Nat.eqb_refl. cbn [andb].
      apply andb_true_iff. split; [apply Nat.leb_le|apply Nat.ltb_lt]; lia.
Qed.

(* the extra hypothesis of the polling-point / timer theorems: the instances of the callback under analysis are
   released at pairwise distinct times, or its cost model is a scalar WCET (then PpSound.v's theorems are recovered) *)
Definition tie_free (tasks : list gtask) (jobs : list job) (i : nat) : Prop :=
  distinct_releases jobs i \/ exists c, snd (nth i tasks gdflt) = Scalar c.

(* the instances of task i released in a window cost at most cost_of_jobs (their number): they are consecutive *)
Lemma gtask_block_workload : forall (tasks : list gtask) jobs i t1 d, i < length tasks ->
  respects_cost_models tasks jobs ->
  (N.of_nat (workP jobs (task_in_win jobs i t1 d))
   <= cost_of_jobs (snd (nth i tasks gdflt)) (N.of_nat (countP jobs (task_in_win jobs i t1 d))))%N.
Proof.
  intros tasks jobs i t1 d Hi [_ Hblocks]. destruct (Hblocks i Hi) as (js & Hperm & Hsorted & Hbb).
  rewrite workP_task_in_win.
  rewrite <- (total_cost_perm _ _ (perm_filter (jwin t1 d) _ _ Hperm)).
  unfold countP. rewrite task_count_eq, <- count_jobs_of.
  rewrite <- (Permutation_length (perm_filter (jwin t1 d) _ _ Hperm)).
  destruct (window_is_block t1 d js Hsorted) as (p & Hp & Hf).
  rewrite Hf at 1. apply Hbb. exact Hp.
Qed.

Lemma giin_N : forall ab cm (A r : N),
  N.of_nat (giin (fun d => N.to_nat (na ab (N.of_nat d))) (fun m => N.to_nat (least_wcet cm (N.of_nat m)))
              (N.to_nat A) (N.to_nat r))
  = interference_interval (lw (RBF ab cm)) A r.
Proof.
  intros ab cm A r. unfold giin, interference_interval. cbv zeta. cbn [lw].
  rewrite !Nnat.N2Nat.id. replace (N.of_nat (N.to_nat A + N.to_nat r)) with (A + r)%N by lia.
  set (w := least_wcet cm (na ab (A + r))).
  destruct (Nat.ltb_spec (N.to_nat w) (N.to_nat r)), (N.ltb_spec w r); lia.
Qed.

Local Open Scope N_scope.

(* the common core (cf. [ecrts_np_core] of PpSound.v): hiT = the class {callback under analysis} + {interfering
   callbacks}; a callback outside the class starts only when no instance of the class is pending and none of its
   instances costs more than B *)
Lemma ecrts_np_core_gen : forall sb (tasks : list gtask) i (hiT : nat -> bool) (intfrb : RB) (B limit R : N)
    (bw_rhs : N -> N) (rhs : N -> N -> N) jobs sched sigma,
  wf_sb sb -> supply_admits sb sigma -> Forall gtask_ok tasks -> (i < length tasks)%nat ->
  hiT i = true ->
  (forall t1 d : nat,
     N.of_nat (workP jobs (fun k => hiT (tsk jobs k) && negb (tsk jobs k =? i)%nat && in_win jobs t1 d k))
     <= sn intfrb (N.of_nat d)) ->
  (forall i', (i' < length tasks)%nat -> hiT i' = false -> cost_of_jobs (snd (nth i' tasks gdflt)) 1 <= B) ->
  (forall d, bw_rhs d = sn (grb_of (nth i tasks gdflt)) d + B + sn intfrb d) ->
  (forall off resp, rhs off resp =
     sn (grb_of (nth i tasks gdflt)) (off + 1)
     + sn intfrb (interference_interval (lw (grb_of (nth i tasks gdflt))) off resp) + B) ->
  exh_ecrts_steps (sbf sb) limit (sn (grb_of (nth i tasks gdflt))) bw_rhs rhs = ROk R ->
  valid jobs sched -> uses_supply sched sigma -> work_conserving_under jobs sched sigma ->
  runs_to_completion_under jobs sched sigma -> fifo_within_task jobs sched ->
  (forall t k k', starts_at sched k t -> hiT (tsk jobs k) = false -> pending jobs sched k' t ->
                  hiT (tsk jobs k') = false) ->
  respects_gcurves tasks jobs -> respects_cost_models tasks jobs -> tie_free tasks jobs i ->
  forall k, (k < length jobs)%nat -> tsk jobs k = i -> completes_within jobs sched k (N.to_nat R).
Proof.
  intros sb tasks i hiT intfrb B limit R bw_rhs rhs jobs sched sigma Hwf Hadm Hok Hi HhiT Hoth HBlow
    Hbwr Hrhs He Hv Hus Hwc Hrtc Hf Hprio Hc Hcm Hdist k Hk Htk.
  unfold grb_of in *. set (ab := fst (nth i tasks gdflt)) in *. set (cm := snd (nth i tasks gdflt)) in *.
  destruct (gtasks_ok_nth tasks Hok i Hi) as (Hab & Hcl & Hwcm & Hpcm). fold ab in Hab, Hcl. fold cm in Hwcm, Hpcm.
  assert (Hpos : 0 < na ab 1).
  { assert (Hb := gtask_jobs_in_window_bounded tasks jobs Hc i (arr jobs k) 1 Hi Hab). fold ab in Hb.
    rewrite <- task_count_eq in Hb.
    assert (Hone : (1 <= sumn (length jobs) (fun k' => if task_in_win jobs i (arr jobs k) 1 k' then 1 else 0))%nat).
    { eapply Nat.le_trans; [|apply (sumn_ge_term _ _ k Hk)].
      unfold task_in_win. rewrite Htk, Nat.eqb_refl, Nat.leb_refl. cbn [andb].
      destruct (Nat.ltb_spec (arr jobs k) (arr jobs k + 1)); lia. }
    change (N.of_nat 1) with 1 in Hb. lia. }
  assert (Hsok := sbf_wf_ok sb Hwf).
  unfold exh_ecrts_steps in He.
  destruct (least_sol (sbf sb) limit 0 bw_rhs) as [max_bw|] eqn:Ebw; [|discriminate].
  cbv zeta in He.
  set (offs := filter (fun A => sn (RBF ab cm) A <? sn (RBF ab cm) (A + 1)) (rangeN 0 (max_bw + 1))) in He.
  set (sols := map (fun A => (A, least_sol (sbf sb) limit A (rhs A))) offs) in He.
  destruct (find (fun p => is_none (snd p)) sols) as [p|] eqn:Ef; [discriminate|].
  assert (HR : maxN (map (fun p => oval (snd p)) sols) = R) by (injection He as HR'; exact HR').
  apply least_sol_some in Ebw. destruct Ebw as (Hl1 & Hbl & Hsol & _).
  unfold sol in Hsol. rewrite N.add_0_l, Hbwr in Hsol. cbn [sn] in Hsol.
  assert (Hbw0 : 0 < max_bw).
  { destruct (N.eq_dec max_bw 0) as [E|E]; [|lia]. exfalso. rewrite E in Hsol.
    destruct Hsok as (Hs0 & _). rewrite Hs0 in Hsol. change (N.max 0 1) with 1 in Hsol.
    pose proof (cost_strict_mono cm Hwcm Hpcm 0 (na ab 1) Hpos). lia. }
  replace (N.max max_bw 1) with max_bw in Hsol by lia.
  assert (Hblk : forall t1 d, (workP jobs (own_in jobs i t1 d)
            <= N.to_nat (cost_of_jobs cm (N.of_nat (countP jobs (own_in jobs i t1 d)))))%nat).
  { intros t1 d. pose proof (gtask_block_workload tasks jobs i t1 d Hi Hcm) as H. fold cm in H.
    change (own_in jobs i t1 d) with (task_in_win jobs i t1 d). lia. }
  assert (Hcmono : forall a b, (a <= b)%nat ->
            (N.to_nat (cost_of_jobs cm (N.of_nat a)) <= N.to_nat (cost_of_jobs cm (N.of_nat b)))%nat).
  { intros a b Hle. pose proof (cost_mono cm Hwcm (N.of_nat a) (N.of_nat b) ltac:(lia)). lia. }
  unfold completes_within.
  apply np_reservation_bound_gen with (sigma := sigma) (i := i) (hi := fun k => hiT (tsk jobs k))
    (B := N.to_nat B) (nao := fun d => N.to_nat (na ab (N.of_nat d)))
    (intf := fun d => N.to_nat (sn intfrb (N.of_nat d))) (sbf := fun d => N.to_nat (sbf sb (N.of_nat d)))
    (cst := fun m => N.to_nat (cost_of_jobs cm (N.of_nat m)))
    (lst := fun m => N.to_nat (least_wcet cm (N.of_nat m)))
    (maxbw := N.to_nat max_bw); try assumption.
  - intros k0 E. rewrite E. exact HhiT.
  - intros t1 d. unfold countP, own_in.
    assert (H := gtask_jobs_in_window_bounded tasks jobs Hc i t1 d Hi Hab). fold ab in H.
    rewrite <- task_count_eq in H. lia.
  - destruct Hdist as [Hdist|(c & Ec)].
    + apply (hpre_of_distinct jobs sched i (fun m => N.to_nat (cost_of_jobs cm (N.of_nat m))) Hv Hf Hdist);
        [|exact Hblk|exact Hcmono].
      intros k0 Hk0 _. apply (gjob_task tasks jobs Hcm k0 Hk0).
    + fold cm in Ec. intros j t1 t Hj Htj Ht1 Hs0.
      pose proof (hpre_of_scalar jobs sched i (N.to_nat c)) as H. rewrite Ec. cbn [cost_of_jobs].
      rewrite Nnat.N2Nat.inj_mul, Nnat.Nat2N.id. apply H; try assumption.
      intros k0 Hk0 Ek0. pose proof (gjob_cost_le1 tasks jobs Hcm k0 Hk0) as Hle. rewrite Ek0 in Hle.
      fold cm in Hle. rewrite Ec in Hle. cbn [cost_of_jobs] in Hle. lia.
  - intros m. pose proof (cost_strict_step cm Hwcm Hpcm (N.of_nat m)) as H.
    replace (N.of_nat (m + 1)) with (N.of_nat m + 1) by lia. lia.
  - intros k0 m Hlt. pose proof (least_wcet_item cm Hwcm (N.of_nat k0) (N.of_nat m) ltac:(lia)) as H.
    replace (N.of_nat (k0 + 1)) with (N.of_nat k0 + 1) by lia. lia.
  - intros a b Hle. pose proof (na_mono ab Hab (N.of_nat a) (N.of_nat b) ltac:(lia)). lia.
  - intros t1 d. unfold oth_in. specialize (Hoth t1 d). lia.
  - intros k0 Hk0 Hl. pose proof (gjob_cost_le1 tasks jobs Hcm k0 Hk0) as Hle.
    destruct (gjob_task tasks jobs Hcm k0 Hk0) as (Ht & _).
    specialize (HBlow _ Ht Hl). lia.
  - change (N.of_nat 0) with 0. rewrite (na_zero ab Hab). reflexivity.
  - intros t d. apply supply_admits_sbf; assumption.
  - rewrite !Nnat.N2Nat.id. split; [lia|]. lia.
  - intros A HA Hstep. set (A' := N.of_nat A).
    assert (Hin : In (A', least_sol (sbf sb) limit A' (rhs A')) sols).
    { unfold sols. apply (in_map (fun A => (A, least_sol (sbf sb) limit A (rhs A)))).
      unfold offs. apply filter_In. split; [apply in_rangeN; unfold A'; lia|].
      apply N.ltb_lt. cbn [sn]. apply (cost_strict_mono cm Hwcm Hpcm).
      replace (A' + 1) with (N.of_nat (A + 1)) by (unfold A'; lia). unfold A'. lia. }
    pose proof (find_none _ _ Ef _ Hin) as Hsome. cbn [snd] in Hsome.
    destruct (least_sol (sbf sb) limit A' (rhs A')) as [r|] eqn:Er; [|discriminate Hsome].
    assert (Hle : r <= R).
    { rewrite <- HR. apply maxN_ub.
      change r with ((fun p : N * option N => oval (snd p)) (A', Some r)).
      apply in_map. exact Hin. }
    apply least_sol_some in Er. destruct Er as (_ & _ & Hs & _). unfold sol in Hs.
    rewrite Hrhs in Hs. cbn [sn] in Hs.
    exists (N.to_nat r). split; [lia|].
    replace (Nat.max (N.to_nat r) 1) with (N.to_nat (N.max r 1)) by lia.
    replace A with (N.to_nat A') at 2 by (unfold A'; lia).
    pose proof (giin_N ab cm A' (N.max r 1)) as Hg.
    rewrite !Nnat.N2Nat.id.
    replace (N.of_nat (A + 1)) with (A' + 1) by (unfold A'; lia).
    replace (N.of_nat (A + N.to_nat r)) with (A' + r) by (unfold A'; lia).
    set (gi := giin _ _ _ _) in *. replace (N.of_nat gi) with (interference_interval (lw (RBF ab cm)) A' (N.max r 1)).
    lia.
Qed.
Print Assumptions ecrts_np_core_gen.

(* ------------------------------------------------------------------------------------------ *)
(* Part 5: the polling-point-callback analysis (Lemmas 4/5) and the timer analysis (Lemma 3)   *)
(* ------------------------------------------------------------------------------------------ *)
(* the tasks whose index satisfies p *)
Definition gselect_tasks (p : nat -> bool) (tasks : list gtask) : list gtask :=
  map (fun k => nth k tasks gdflt) (filter p (seq 0 (length tasks))).

Lemma gselect_tasks_Forall : forall (P : gtask -> Prop) p tasks, Forall P tasks -> Forall P (gselect_tasks p tasks).
Proof.
  intros P p tasks H. rewrite Forall_forall in *. intros tk Hin. unfold gselect_tasks in Hin.
  apply in_map_iff in Hin. destruct Hin as (k & <- & Hk). apply filter_In in Hk. destruct Hk as [Hk _].
  apply in_seq in Hk. apply H. apply nth_In. lia.
Qed.

(* polling-point callback: the interfering demand is the aggregate of ALL other callbacks; every callback has a
   general cost model *)
Theorem pp_sound_gen : forall dbg sb (tasks : list gtask) i limit R jobs sched sigma,
  wf_sb sb -> supply_admits sb sigma -> Forall gtask_ok tasks -> (i < length tasks)%nat ->
  e_pp dbg sb (grb_of (nth i tasks gdflt)) (Agg (map grb_of (remove_nth i tasks))) limit = ROk R ->
  valid jobs sched -> uses_supply sched sigma -> work_conserving_under jobs sched sigma ->
  runs_to_completion_under jobs sched sigma -> fifo_within_task jobs sched ->
  respects_gcurves tasks jobs -> respects_cost_models tasks jobs -> tie_free tasks jobs i ->
  forall k, (k < length jobs)%nat -> j_task (nth k jobs (mkJob 0 0 0)) = i ->
    completes_within jobs sched k (N.to_nat R).
Proof.
  intros dbg sb tasks i limit R jobs sched sigma Hwf Hadm Hok Hi He Hv Hus Hwc Hrtc Hf Hc Hcm Hdist k Hk Htk.
  pose proof (gtasks_ok_nth tasks Hok i Hi) as Hti.
  assert (Hpos : 0 < na (fst (nth i tasks gdflt)) 1).
  { destruct Hti as (Hab & _).
    assert (Hb := gtask_jobs_in_window_bounded tasks jobs Hc i (arr jobs k) 1 Hi Hab).
    rewrite <- task_count_eq in Hb.
    assert (Hone : (1 <= sumn (length jobs) (fun k' => if task_in_win jobs i (arr jobs k) 1 k' then 1 else 0))%nat).
    { eapply Nat.le_trans; [|apply (sumn_ge_term _ _ k Hk)].
      unfold task_in_win. rewrite Htk, Nat.eqb_refl, Nat.leb_refl. cbn [andb].
      destruct (Nat.ltb_spec (arr jobs k) (arr jobs k + 1)); lia. }
    change (N.of_nat 1) with 1 in Hb. lia. }
  set (intfrb := Agg (map grb_of (remove_nth i tasks))) in *.
  assert (Hwfi : wf_rb intfrb).
  { apply rb_steps_ok_wf. apply gtasks_ok_agg. apply remove_nth_Forall. exact Hok. }
  assert (E := e_pp_steps_gen sb (fst (nth i tasks gdflt)) (snd (nth i tasks gdflt)) intfrb limit Hwf
                 ltac:(destruct (nth i tasks gdflt); exact Hti) Hpos Hwfi dbg).
  change (RBF (fst (nth i tasks gdflt)) (snd (nth i tasks gdflt))) with (grb_of (nth i tasks gdflt)) in E.
  rewrite E in He. clear E.
  apply (ecrts_np_core_gen sb tasks i (fun _ => true) intfrb 0 limit R
           (fun d => sn (grb_of (nth i tasks gdflt)) d + sn intfrb d)
           (fun off resp => sn (grb_of (nth i tasks gdflt)) (off + 1)
              + sn intfrb (interference_interval (lw (grb_of (nth i tasks gdflt))) off resp))
           jobs sched sigma Hwf Hadm Hok Hi eq_refl); try assumption.
  - (* the interfering workload: all the other callbacks *)
    intros t1 d.
    pose proof (gpw_split tasks jobs Hcm (fun i' => true && negb (i' =? i)%nat) (fun _ => d) t1) as Hs.
    cbv beta in Hs. unfold Jlfp2.in_win in Hs. unfold in_win. rewrite Hs. cbn [andb].
    unfold intfrb. cbn [sn]. rewrite map_map.
    apply (sumn_remove_nth_le tasks gdflt (fun tk => sn (grb_of tk) (N.of_nat d)) i
             (fun i' => workP jobs (task_in_win jobs i' t1 d))).
    intros i' Hi' _. destruct (gtasks_ok_wf tasks Hok i' Hi') as (H1 & H2).
    apply gtask_workload_bounded; assumption.
  - intros i' _ Hf'. discriminate Hf'.
  - intros d. cbv beta. lia.
  - intros off resp. cbv beta. lia.
  - intros t k0 k' _ Hf' _. discriminate Hf'.
Qed.
Print Assumptions pp_sound_gen.

(* timer i, the interfering (higher-precedence) timers hp, no instance of any other callback costs more than B
   (cost_of_jobs cm 1 = the cost bound of a single instance); every callback has a general cost model *)
Theorem timer_sound_gen : forall dbg sb (tasks : list gtask) i (hp : nat -> bool) B limit R jobs sched sigma,
  wf_sb sb -> supply_admits sb sigma -> Forall gtask_ok tasks -> (i < length tasks)%nat ->
  hp i = false ->
  (forall i', (i' < length tasks)%nat -> i' <> i -> hp i' = false -> cost_of_jobs (snd (nth i' tasks gdflt)) 1 <= B) ->
  e_timer dbg sb (grb_of (nth i tasks gdflt)) (Agg (map grb_of (gselect_tasks hp tasks))) B limit = ROk R ->
  valid jobs sched -> uses_supply sched sigma -> work_conserving_under jobs sched sigma ->
  runs_to_completion_under jobs sched sigma -> fifo_within_task jobs sched ->
  precedence_respected jobs sched (fun i' => (i' =? i)%nat || hp i') ->
  respects_gcurves tasks jobs -> respects_cost_models tasks jobs -> tie_free tasks jobs i ->
  forall k, (k < length jobs)%nat -> j_task (nth k jobs (mkJob 0 0 0)) = i ->
    completes_within jobs sched k (N.to_nat R).
Proof.
  intros dbg sb tasks i hp B limit R jobs sched sigma Hwf Hadm Hok Hi Hhpi HB He Hv Hus Hwc Hrtc Hf Hprec
    Hc Hcm Hdist k Hk Htk.
  pose proof (gtasks_ok_nth tasks Hok i Hi) as Hti.
  assert (Hpos : 0 < na (fst (nth i tasks gdflt)) 1).
  { destruct Hti as (Hab & _).
    assert (Hb := gtask_jobs_in_window_bounded tasks jobs Hc i (arr jobs k) 1 Hi Hab).
    rewrite <- task_count_eq in Hb.
    assert (Hone : (1 <= sumn (length jobs) (fun k' => if task_in_win jobs i (arr jobs k) 1 k' then 1 else 0))%nat).
    { eapply Nat.le_trans; [|apply (sumn_ge_term _ _ k Hk)].
      unfold task_in_win. rewrite Htk, Nat.eqb_refl, Nat.leb_refl. cbn [andb].
      destruct (Nat.ltb_spec (arr jobs k) (arr jobs k + 1)); lia. }
    change (N.of_nat 1) with 1 in Hb. lia. }
  set (intfrb := Agg (map grb_of (gselect_tasks hp tasks))) in *.
  assert (Hwfi : wf_rb intfrb).
  { apply rb_steps_ok_wf. apply gtasks_ok_agg. apply gselect_tasks_Forall. exact Hok. }
  assert (E := e_timer_steps_gen sb (fst (nth i tasks gdflt)) (snd (nth i tasks gdflt)) intfrb B limit Hwf
                 ltac:(destruct (nth i tasks gdflt); exact Hti) Hpos Hwfi dbg).
  change (RBF (fst (nth i tasks gdflt)) (snd (nth i tasks gdflt))) with (grb_of (nth i tasks gdflt)) in E.
  rewrite E in He. clear E.
  apply (ecrts_np_core_gen sb tasks i (fun i' => (i' =? i)%nat || hp i') intfrb B limit R
           (fun d => sn (grb_of (nth i tasks gdflt)) d + B + sn intfrb d)
           (fun off resp => sn (grb_of (nth i tasks gdflt)) (off + 1)
              + sn intfrb (interference_interval (lw (grb_of (nth i tasks gdflt))) off resp) + B)
           jobs sched sigma Hwf Hadm Hok Hi); try assumption.
  - rewrite Nat.eqb_refl. reflexivity.
  - (* the interfering workload: the callbacks selected by hp *)
    intros t1 d.
    pose proof (gpw_split tasks jobs Hcm (fun i' => ((i' =? i)%nat || hp i') && negb (i' =? i)%nat) (fun _ => d) t1) as Hs.
    cbv beta in Hs. unfold Jlfp2.in_win in Hs. unfold in_win. rewrite Hs.
    rewrite (sumn_ext (length tasks) _ (fun i' => if hp i' then workP jobs (task_in_win jobs i' t1 d) else 0%nat)).
    2:{ intros i' _. destruct (Nat.eqb_spec i' i) as [->|Hne]; cbn [orb negb andb].
        - rewrite Hhpi. reflexivity.
        - rewrite andb_true_r. reflexivity. }
    unfold intfrb. cbn [sn]. unfold gselect_tasks. rewrite !map_map.
    apply (sumn_select_le hp (fun i' => workP jobs (task_in_win jobs i' t1 d))
             (fun k0 => sn (grb_of (nth k0 tasks gdflt)) (N.of_nat d))).
    intros i' Hi' _. destruct (gtasks_ok_wf tasks Hok i' Hi') as (H1 & H2).
    apply gtask_workload_bounded; assumption.
  - intros i' Hi' Hl. apply orb_false_iff in Hl. destruct Hl as [Hne Hl]. apply Nat.eqb_neq in Hne.
    apply HB; assumption.
  - intros d. reflexivity.
  - intros off resp. reflexivity.
  - intros t k0 k' Hst Hl Hp. destruct ((tsk jobs k' =? i)%nat || hp (tsk jobs k')) eqn:Hh; [|reflexivity].
    pose proof (Hprec t k0 k' Hst Hp Hh) as Hc'. cbv beta in Hc'. congruence.
Qed.
Print Assumptions timer_sound_gen.

(* ------------------------------------------------------------------------------------------ *)
(* Part 6: the scalar theorems of C04 (PpSound.v) are special cases                            *)
(* ------------------------------------------------------------------------------------------ *)
Lemma remove_nth_map : forall {A B} (f : A -> B) i l, remove_nth i (map f l) = map f (remove_nth i l).
Proof.
  intros A B f i l. revert i. induction l as [|x l IH]; intros i; [destruct i; reflexivity|].
  destruct i as [|i]; cbn [map remove_nth]; [reflexivity|]. rewrite IH. reflexivity.
Qed.

Lemma gtask_of_ok : forall tasks, Forall fifo_task_ok tasks -> Forall gtask_ok (map gtask_of tasks).
Proof.
  intros tasks Hok. rewrite Forall_forall in *. intros tk Htk. apply in_map_iff in Htk. destruct Htk as (tk' & <- & Hin).
  destruct (Hok tk' Hin) as (H1 & H2 & H3). unfold gtask_ok, gtask_of. cbn [fst snd wf_cm positive_cm]. auto.
Qed.

Lemma nth_gtask_of : forall tasks i, nth i (map gtask_of tasks) gdflt = gtask_of (nth i tasks (Never, 0)).
Proof. intros tasks i. change gdflt with (gtask_of (Never, 0)). apply map_nth. Qed.

Corollary pp_sound_from_gen : forall dbg sb (tasks : list task) i limit R jobs sched sigma,
  wf_sb sb -> supply_admits sb sigma -> Forall fifo_task_ok tasks -> (i < length tasks)%nat ->
  e_pp dbg sb (rb_of (nth i tasks (Never, 0))) (Agg (map rb_of (remove_nth i tasks))) limit = ROk R ->
  valid jobs sched -> uses_supply sched sigma -> work_conserving_under jobs sched sigma ->
  runs_to_completion_under jobs sched sigma -> fifo_within_task jobs sched ->
  respects_curves tasks jobs -> respects_costs tasks jobs ->
  forall k, (k < length jobs)%nat -> j_task (nth k jobs (mkJob 0 0 0)) = i ->
    completes_within jobs sched k (N.to_nat R).
Proof.
  intros dbg sb tasks i limit R jobs sched sigma Hwf Hadm Hok Hi He Hv Hus Hwc Hrtc Hf Hc Hcost.
  apply (pp_sound_gen dbg sb (map gtask_of tasks) i limit R jobs sched sigma); try assumption.
  - apply gtask_of_ok. exact Hok.
  - rewrite map_length. exact Hi.
  - rewrite nth_gtask_of, remove_nth_map, map_map. exact He.
  - apply scalar_respects_gcurves. exact Hc.
  - apply scalar_respects_cost_models. exact Hcost.
  - right. rewrite nth_gtask_of. eexists. reflexivity.
Qed.
Print Assumptions pp_sound_from_gen.

Corollary timer_sound_from_gen : forall dbg sb (tasks : list task) i (hp : nat -> bool) B limit R jobs sched sigma,
  wf_sb sb -> supply_admits sb sigma -> Forall fifo_task_ok tasks -> (i < length tasks)%nat ->
  hp i = false ->
  (forall i', (i' < length tasks)%nat -> i' <> i -> hp i' = false -> snd (nth i' tasks (Never, 0)) <= B) ->
  e_timer dbg sb (rb_of (nth i tasks (Never, 0))) (Agg (map rb_of (select_tasks hp tasks))) B limit = ROk R ->
  valid jobs sched -> uses_supply sched sigma -> work_conserving_under jobs sched sigma ->
  runs_to_completion_under jobs sched sigma -> fifo_within_task jobs sched ->
  precedence_respected jobs sched (fun i' => (i' =? i)%nat || hp i') ->
  respects_curves tasks jobs -> respects_costs tasks jobs ->
  forall k, (k < length jobs)%nat -> j_task (nth k jobs (mkJob 0 0 0)) = i ->
    completes_within jobs sched k (N.to_nat R).
Proof.
  intros dbg sb tasks i hp B limit R jobs sched sigma Hwf Hadm Hok Hi Hhpi HB He Hv Hus Hwc Hrtc Hf Hprec Hc Hcost.
  apply (timer_sound_gen dbg sb (map gtask_of tasks) i hp B limit R jobs sched sigma); try assumption.
  - apply gtask_of_ok. exact Hok.
  - rewrite map_length. exact Hi.
  - intros i' Hi' Hne Hl. rewrite map_length in Hi'. rewrite nth_gtask_of. cbn [gtask_of snd cost_of_jobs].
    specialize (HB i' Hi' Hne Hl). lia.
  - rewrite nth_gtask_of. unfold gselect_tasks. rewrite map_length, map_map.
    rewrite (map_ext (fun k => grb_of (nth k (map gtask_of tasks) gdflt)) (fun k => rb_of (nth k tasks (Never, 0)))).
    2:{ intros k. rewrite nth_gtask_of. reflexivity. }
    unfold select_tasks in He. rewrite map_map in He. exact He.
  - apply scalar_respects_gcurves. exact Hc.
  - apply scalar_respects_cost_models. exact Hcost.
  - right. rewrite nth_gtask_of. eexists. reflexivity.
Qed.
Print Assumptions timer_sound_from_gen.

Corollary event_source_sound_from_gen : forall dbg sb (tasks : list task) limit R jobs sched sigma,
  wf_sb sb -> supply_admits sb sigma -> Forall fifo_task_ok tasks ->
  e_es dbg sb (Agg (map rb_of tasks)) limit = ROk R ->
  valid jobs sched -> uses_supply sched sigma -> work_conserving_under jobs sched sigma -> fifo_policy jobs sched ->
  respects_curves tasks jobs -> respects_costs tasks jobs ->
  forall k, (k < length jobs)%nat -> completes_within jobs sched k (N.to_nat R).
Proof.
  intros dbg sb tasks limit R jobs sched sigma Hwf Hadm Hok He Hv Hus Hwc Hf Hc Hcost.
  apply (event_source_sound_gen dbg sb (map gtask_of tasks) limit R jobs sched sigma); try assumption.
  - apply gtask_of_ok. exact Hok.
  - rewrite map_map. exact He.
  - apply scalar_respects_gcurves. exact Hc.
  - apply scalar_respects_cost_models. exact Hcost.
Qed.
Print Assumptions event_source_sound_from_gen.

(* ------------------------------------------------------------------------------------------ *)
(* Part 7: non-vacuity (Multiframe own cost, bound attained) and the tie-order witness          *)
(* ------------------------------------------------------------------------------------------ *)
From RTA.Proofs Require Import ExecutorBridge.
Local Close Scope N_scope.
Local Open Scope nat_scope.
Notation cbdef := Executor.cbdef.
Notation mkCbdef := Executor.mkCbdef.

Definition distinctb (jobs : list job) (i : nat) : bool :=
  forallb (fun k => forallb (fun k' =>
     negb ((tsk jobs k =? i) && (tsk jobs k' =? i) && (arr jobs k =? arr jobs k')) || (k =? k'))
     (seq 0 (length jobs))) (seq 0 (length jobs)).

Lemma distinctb_sound : forall jobs i, distinctb jobs i = true -> distinct_releases jobs i.
Proof.
  intros jobs i H k k' Hk Hk' Ht Ht' Ha. unfold distinctb in H. rewrite forallb_forall in H.
  specialize (H k ltac:(apply in_seq; lia)). rewrite forallb_forall in H.
  specialize (H k' ltac:(apply in_seq; lia)). rewrite Ht, Ht', Ha, !Nat.eqb_refl in H. cbn [andb negb orb] in H.
  apply Nat.eqb_eq. exact H.
Qed.

Definition all_supplied : nat -> bool := fun _ => true.

(* (a) A polled callback with cost model Multiframe [3; 1] released every 4 and a polled callback (WCET 2) released
   every 6 on a dedicated processor; the executor prefers the latter.  Both are released at 0: callback 1 occupies
   slots 0-1, the first instance of callback 0 (frame 3) slots 2-4: response time 5 = the analysis' bound.
   Case language: (pp (dedicated) (rbf (periodic 4) (multiframe (3 1))) (agg ((rbf (periodic 6) (scalar 2)))) 1000) *)
Definition nv_tasks : list gtask := [(Periodic 4, Multiframe [3; 1]%N); (Periodic 6, Scalar 2%N)].
Definition nv_cbs : list cbdef := [mkCbdef false 1; mkCbdef false 0].
Definition nv_arr (t : nat) : list nat := (if t mod 4 =? 0 then [0] else []) ++ (if t mod 6 =? 0 then [1] else []).
Definition nv_cost (c k : nat) : nat := match c with 0 => nth (k mod 2) [3; 1] 1 | _ => 2 end.
Definition nv_jobs : list job := run_jobs nv_cbs nv_cost nv_arr 12.
Definition nv_sched : nat -> option nat := run_sched nv_cbs nv_cost (trunc_arr nv_arr 12) all_supplied 12.

Lemma nv_cost_pos : forall c k, c < length nv_cbs -> 1 <= nv_cost c k.
Proof.
  intros c k _. unfold nv_cost. destruct c as [|c]; [|lia].
  assert (H : k mod 2 < 2) by (apply Nat.mod_upper_bound; lia).
  destruct (k mod 2) as [|[|m]]; cbn; lia.
Qed.

Example nv_tasks_ok : Forall gtask_ok nv_tasks.
Proof.
  constructor; [|constructor; [|constructor]]; unfold gtask_ok; cbn [fst snd wf_ab steps_exact_class wf_cm positive_cm].
  - repeat split; try lia; [discriminate|]. repeat constructor; lia.
  - repeat split; lia.
Qed.

Example nv_analysis :
  e_pp false Dedicated (grb_of (nth 0 nv_tasks gdflt)) (Agg (map grb_of (remove_nth 0 nv_tasks))) 1000 = ROk 5%N.
Proof. vm_compute. reflexivity. Qed.

Example nv_gcurves : respects_gcurves nv_tasks nv_jobs.
Proof.
  intros i Hi. destruct i as [|[|i]]; [| |cbn in Hi; lia].
  - exists [0; 4; 8]. split; [vm_compute; apply Permutation_refl|]. apply adm_periodic. cbn. lia.
  - exists [0; 6]. split; [vm_compute; apply Permutation_refl|]. apply adm_periodic. cbn. lia.
Qed.

Example nv_cost_models : respects_cost_models nv_tasks nv_jobs.
Proof. apply rcm_check_sound. vm_compute. reflexivity. Qed.

Theorem pp_sound_gen_nonvacuous : completes_within nv_jobs nv_sched 0 5 /\ ~ completes_within nv_jobs nv_sched 0 4.
Proof.
  split.
  - destruct (run_prefix_in_class nv_cbs nv_cost nv_arr all_supplied 12 nv_cost_pos)
      as (_ & _ & Hv & Hus & Hwc & Hrtc & Hf & _).
    refine (pp_sound_gen false Dedicated nv_tasks 0 1000%N 5%N nv_jobs nv_sched all_supplied I (fun _ => eq_refl)
              nv_tasks_ok ltac:(cbn; lia) nv_analysis Hv Hus Hwc Hrtc Hf nv_gcurves nv_cost_models _ 0 _ eq_refl).
    + left. apply distinctb_sound. vm_compute. reflexivity.
    + vm_compute. lia.
  - unfold completes_within. vm_compute. lia.
Qed.
Print Assumptions pp_sound_gen_nonvacuous.

(* (b) [tie_free] cannot be dropped.  Callback 0: three instances released TOGETHER (arrival bound = sum of three
   periodic streams), cost model Multiframe [4; 2; 2] (one instance <= 4, two consecutive <= 6, three <= 8); callback 1:
   a timer, period 8, WCET 1, released at 0 and 8; dedicated processor.  The analysis returns 9
   (case language: (pp (dedicated) (rbf (sum ((periodic 50) (periodic 50) (periodic 50))) (multiframe (4 2 2)))
                       (agg ((rbf (periodic 8) (scalar 1)))) 1000)).
   The three instances cost 4, 1, 3 in the enumeration order that witnesses [respects_cost_models] (blocks 4, 1, 3 / 5, 4 / 8),
   but the executor serves them in the order 4, 3, 1 (any order among simultaneous releases is FIFO): timer [0,1),
   4 [1,5), 3 [5,8), second timer instance (released at 8) [8,9), then the instance of cost 1 [9,10): response time
   10 > 9.  The instances served before it (4, 3) are NOT consecutive in the enumeration; they cost 7 > cost_of_jobs 3 -
   least_wcet 3 = 8 - 2, the amount the interference interval A + R - least_wcet + 1 relies on.  This is a property of
   the hypothesis [respects_cost_models] (existential order among simultaneous releases), not of the crate: when the
   service order of simultaneous instances is the enumeration order (e.g. distinct release times) the bound holds. *)
Definition tw_tasks : list gtask :=
  [(SumAB [Periodic 50; Periodic 50; Periodic 50], Multiframe [4; 2; 2]%N); (Periodic 8, Scalar 1%N)].
Definition tw_cbs : list cbdef := [mkCbdef false 1; mkCbdef true 0].
Definition tw_arr (t : nat) : list nat := if t =? 0 then [0; 0; 0; 1] else if t =? 8 then [1] else [].
Definition tw_cost (c k : nat) : nat := match c with 0 => nth k [4; 3; 1] 1 | _ => 1 end.
Definition tw_jobs : list job := run_jobs tw_cbs tw_cost tw_arr 12.
Definition tw_sched : nat -> option nat := run_sched tw_cbs tw_cost (trunc_arr tw_arr 12) all_supplied 12.

Lemma tw_cost_pos : forall c k, c < length tw_cbs -> 1 <= tw_cost c k.
Proof.
  intros c k _. unfold tw_cost. destruct c as [|c]; [|lia].
  destruct k as [|[|[|k]]]; cbn; try lia. destruct k; cbn; lia.
Qed.

Example tw_tasks_ok : Forall gtask_ok tw_tasks.
Proof.
  constructor; [|constructor; [|constructor]]; unfold gtask_ok; cbn [fst snd wf_ab steps_exact_class wf_cm positive_cm].
  - repeat split; try lia; [discriminate|]. repeat constructor; lia.
  - repeat split; lia.
Qed.

Theorem pp_tie_order_witness :
  exists sb (tasks : list gtask) i limit R jobs sched sigma k,
    wf_sb sb /\ supply_admits sb sigma /\ Forall gtask_ok tasks /\ i < length tasks /\
    e_pp false sb (grb_of (nth i tasks gdflt)) (Agg (map grb_of (remove_nth i tasks))) limit = ROk R /\
    valid jobs sched /\ uses_supply sched sigma /\ work_conserving_under jobs sched sigma /\
    runs_to_completion_under jobs sched sigma /\ fifo_within_task jobs sched /\
    respects_gcurves tasks jobs /\ respects_cost_models tasks jobs /\
    k < length jobs /\ j_task (nth k jobs (mkJob 0 0 0)) = i /\
    ~ completes_within jobs sched k (N.to_nat R).
Proof.
  exists Dedicated, tw_tasks, 0, 1000%N, 9%N, tw_jobs, tw_sched, all_supplied, 2.
  destruct (run_prefix_in_class tw_cbs tw_cost tw_arr all_supplied 12 tw_cost_pos)
    as (_ & _ & Hv & Hus & Hwc & Hrtc & Hf & _).
  split; [exact I|]. split; [intros t; reflexivity|]. split; [exact tw_tasks_ok|]. split; [cbn; lia|].
  split; [vm_compute; reflexivity|].
  split; [exact Hv|]. split; [exact Hus|]. split; [exact Hwc|]. split; [exact Hrtc|]. split; [exact Hf|].
  split; [|split; [|split; [vm_compute; lia|split; [reflexivity|unfold completes_within; vm_compute; lia]]]].
  - intros i Hi. destruct i as [|[|i]]; [| |cbn in Hi; lia].
    + exists ([0] ++ [0] ++ [0] ++ []). split; [vm_compute; apply Permutation_refl|].
      cbn [nth fst tw_tasks].
      apply adm_sum_cons; [apply adm_periodic; exact I|].
      apply adm_sum_cons; [apply adm_periodic; exact I|].
      apply adm_sum_cons; [apply adm_periodic; exact I|apply adm_sum_nil].
    + exists [0; 8]. split; [vm_compute; apply Permutation_refl|]. apply adm_periodic. cbn. lia.
  - split.
    + intros j Hj. vm_compute in Hj.
      repeat (destruct Hj as [<-|Hj]; [cbn; lia|]). destruct Hj.
    + intros i Hi. destruct i as [|[|i]]; [| |cbn in Hi; lia].
      * exists [mkJob 0 0 4; mkJob 0 0 1; mkJob 0 0 3].
        split; [vm_compute; apply perm_skip; apply perm_swap|].
        split; [apply sortedb_sound; reflexivity|apply bb_check_sound; vm_compute; reflexivity].
      * exists [mkJob 1 0 1; mkJob 1 8 1].
        split; [vm_compute; apply Permutation_refl|].
        split; [apply sortedb_sound; reflexivity|apply bb_check_sound; vm_compute; reflexivity].
Qed.
Print Assumptions pp_tie_order_witness.

(* (c) the timer analysis: timer 0 (cost model Multiframe [3; 1], period 6, first release at 1), a higher-precedence
   timer 1 (WCET 1, period 5, first release at 1) and a polled callback 2 (WCET 2 = B, period 11, released at 0) on a
   dedicated processor.  The polled instance starts at 0 and blocks both timers in slot 1; timer 1 runs in slot 2, the
   first instance of timer 0 (frame 3) in slots 3-5: response time 5, bound 6 (the analysis charges the whole WCET of
   the blocking callback).
   Case language: (timer (dedicated) (rbf (periodic 6) (multiframe (3 1))) (agg ((rbf (periodic 5) (scalar 1)))) 2 1000) *)
Definition nt_tasks : list gtask := [(Periodic 6, Multiframe [3; 1]%N); (Periodic 5, Scalar 1%N); (Periodic 11, Scalar 2%N)].
Definition nt_cbs : list cbdef := [mkCbdef true 1; mkCbdef true 0; mkCbdef false 0].
Definition nt_arr (t : nat) : list nat :=
  (if (1 <=? t) && ((t - 1) mod 6 =? 0) then [0] else []) ++ (if (1 <=? t) && ((t - 1) mod 5 =? 0) then [1] else [])
  ++ (if t mod 11 =? 0 then [2] else []).
Definition nt_cost (c k : nat) : nat := match c with 0 => nth (k mod 2) [3; 1] 1 | 1 => 1 | _ => 2 end.
Definition nt_jobs : list job := run_jobs nt_cbs nt_cost nt_arr 12.
Definition nt_sched : nat -> option nat := run_sched nt_cbs nt_cost (trunc_arr nt_arr 12) all_supplied 12.
Definition nt_hp (c : nat) : bool := c =? 1.

Lemma nt_cost_pos : forall c k, c < length nt_cbs -> 1 <= nt_cost c k.
Proof.
  intros c k _. unfold nt_cost. destruct c as [|[|c]]; [|lia|lia].
  assert (H : k mod 2 < 2) by (apply Nat.mod_upper_bound; lia).
  destruct (k mod 2) as [|[|m]]; cbn; lia.
Qed.

Example nt_tasks_ok : Forall gtask_ok nt_tasks.
Proof.
  constructor; [|constructor; [|constructor; [|constructor]]]; unfold gtask_ok;
    cbn [fst snd wf_ab steps_exact_class wf_cm positive_cm].
  - repeat split; try lia; [discriminate|]. repeat constructor; lia.
  - repeat split; lia.
  - repeat split; lia.
Qed.

Example nt_analysis :
  e_timer false Dedicated (grb_of (nth 0 nt_tasks gdflt)) (Agg (map grb_of (gselect_tasks nt_hp nt_tasks))) 2 1000 = ROk 6%N.
Proof. vm_compute. reflexivity. Qed.

Example nt_gcurves : respects_gcurves nt_tasks nt_jobs.
Proof.
  intros i Hi. destruct i as [|[|[|i]]]; [| | |cbn in Hi; lia].
  - exists [1; 7]. split; [vm_compute; apply Permutation_refl|]. apply adm_periodic. cbn. lia.
  - exists [1; 6; 11]. split; [vm_compute; apply Permutation_refl|]. apply adm_periodic. cbn. lia.
  - exists [0; 11]. split; [vm_compute; apply Permutation_refl|]. apply adm_periodic. cbn. lia.
Qed.

Example nt_cost_models : respects_cost_models nt_tasks nt_jobs.
Proof. apply rcm_check_sound. vm_compute. reflexivity. Qed.

Theorem timer_sound_gen_nonvacuous : completes_within nt_jobs nt_sched 0 6 /\ ~ completes_within nt_jobs nt_sched 0 4.
Proof.
  split.
  - destruct (run_prefix_in_class nt_cbs nt_cost nt_arr all_supplied 12 nt_cost_pos)
      as (_ & _ & Hv & Hus & Hwc & Hrtc & Hf & Hprec).
    refine (timer_sound_gen false Dedicated nt_tasks 0 nt_hp 2%N 1000%N 6%N nt_jobs nt_sched all_supplied I
              (fun _ => eq_refl) nt_tasks_ok ltac:(cbn; lia) eq_refl _ nt_analysis Hv Hus Hwc Hrtc Hf _
              nt_gcurves nt_cost_models _ 0 _ eq_refl).
    + intros [|[|[|i']]] Hi' Hne Hh; [contradiction|discriminate Hh|cbn; lia|cbn in Hi'; lia].
    + apply Hprec.
      * intros c Hc Hh. destruct c as [|[|c]]; [reflexivity|reflexivity|discriminate Hh].
      * intros c c' Hc Hc' Htc _ _.
        destruct c as [|[|[|c]]]; [reflexivity|reflexivity|discriminate Htc|cbn in Hc; lia].
    + left. apply distinctb_sound. vm_compute. reflexivity.
    + vm_compute. lia.
  - unfold completes_within. vm_compute. lia.
Qed.
Print Assumptions timer_sound_gen_nonvacuous.

(* ------------------------------------------------------------------------------------------ *)
(* Part 8: the checker the statements were tested with before they were proved                 *)
(* ------------------------------------------------------------------------------------------ *)
(* The operational executor (Spec/Executor.v, a member of the dispatcher class) is run on periodic releases with all
   combinations of release offsets, several placements of the budget, and own cost sequences that comply with the
   block condition (full frames in either phase, shortened instances, ...); the largest observed response time of
   callback 0 is compared with the analysis' value.  Runs made during development (own cost models Multiframe [2;1],
   [3;1], CurveCM [3;4]; one or two interfering callbacks; Dedicated and PeriodicS 3 5; e_pp and e_timer with B = 2):
   (bound, observed) = (4,4) (5,5) (5,4) (3,3) (6,5) on a dedicated processor -- the bound is attained --, and
   (12,10) (12,11) (15,11) (16,11) (16,12) (17,11) (17,12) under PeriodicS 3 5: no violation.  Two of them are
   replayed here. *)
Section Checker.
  Definition parr (specs : list (nat * nat)) (t : nat) : list nat :=
    flat_map (fun ic => let o := fst (snd ic) in let T := snd (snd ic) in
                        if (o <=? t) && ((t - o) mod T =? 0) then [fst ic] else [])
             (combine (seq 0 (length specs)) specs).
  Definition okseq (cm : CM) (l : list nat) : bool :=
    forallb (fun x => 1 <=? x) l &&
    forallb (fun p => forallb (fun m => (N.of_nat (list_sum (firstn m (skipn p l))) <=? cost_of_jobs cm (N.of_nat m))%N)
                        (seq 0 (S (length l - p)))) (seq 0 (S (length l))).
  Definition maxresp (i : nat) (fin : list (nat * nat * nat)) : nat :=
    fold_right Nat.max 0 (map (fun x => let '(c, a, f) := x in if c =? i then f - a else 0) fin).
  Definition mk_cost (own : list nat) (others : list nat) (c k : nat) : nat :=
    match c with O => nth k own 1 | S c' => nth c' others 1 end.
  Fixpoint cyc {A} (n : nat) (l : list A) : list A := match n with O => [] | S n' => l ++ cyc n' l end.
  (* the candidate own-cost sequences (12 instances) that comply with the cost model *)
  Definition cands (cm : CM) (pats : list (list nat)) : list (list nat) :=
    filter (okseq cm) (map (fun p => firstn 12 (cyc 12 p)) pats).
  Definition run1 (cbs : list cbdef) (specs : list (nat * nat)) (own others : list nat) (sigma : nat -> bool) (H : nat) : nat :=
    maxresp 0 (Executor.finished (Executor.run cbs (mk_cost own others) H (parr specs) sigma)).
  (* all offsets of callback 0 (period To) and of one interfering callback (period T1) *)
  Definition sweep1 (cbs : list cbdef) (To T1 : nat) (owns : list (list nat)) (others : list nat)
      (sigmas : list (nat -> bool)) (H : nat) : nat :=
    fold_right Nat.max 0
      (flat_map (fun own => flat_map (fun sg => flat_map (fun oo =>
         map (fun o1 => run1 cbs [(oo, To); (o1, T1)] own others sg H) (seq 0 T1)) (seq 0 To)) sigmas) owns).
  Definition pats31 : list (list nat) :=
    [[3;1]; [1;3]; [1;1]; [2;1]; [1;2]; [2;2]; [3;1;1]; [1;1;3]; [1;3;1]; [3;1;2;1]; [2;1;3;1]; [3]; [2;2;1]].
End Checker.

(* polled callback 0: Periodic 4, Multiframe [3;1]; interfering polled callback of higher priority: Periodic 6, WCET 2;
   dedicated processor: bound 5, attained *)
Example check_pp_dedicated :
  e_pp false Dedicated (RBF (Periodic 4) (Multiframe [3;1]%N)) (Agg [RBF (Periodic 6) (Scalar 2)]) 1000 = ROk 5%N /\
  sweep1 [mkCbdef false 1; mkCbdef false 0] 4 6 (cands (Multiframe [3;1]%N) pats31) [2] [all_supplied] 60 = 5.
Proof. split; vm_compute; reflexivity. Qed.

(* timer 0: Periodic 10, Multiframe [3;1]; interfering timer of higher priority: Periodic 8, WCET 2; PeriodicS 3 5 with the
   budget at the start of every period, and as late as possible from the second period on (two phases): bound 15, observed 11 *)
Example check_timer_reservation :
  e_timer false (PeriodicS 3 5) (RBF (Periodic 10) (Multiframe [3;1]%N)) (Agg [RBF (Periodic 8) (Scalar 2)]) 0 1000 = ROk 15%N /\
  sweep1 [mkCbdef true 1; mkCbdef true 0] 10 8 (cands (Multiframe [3;1]%N) pats31) [2]
    [fun t => t mod 5 <? 3; worst_sigma 3 5 5; fun t => worst_sigma 3 5 5 (t + 3)] 100 = 11.
Proof. split; vm_compute; reflexivity. Qed.
