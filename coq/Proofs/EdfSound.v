(* EdfSound.v — property C02: soundness of the EDF response-time analyses, end to end.
   If the model of an EDF analysis (fully preemptive, fully non-preemptive, limited preemptive,
   floating non-preemptive: all instances of [edf_generic], Model/Analyses.v) returns [ROk R] for a
   task, then in every legal EDF schedule (arbitrary tie-breaking among equal absolute deadlines,
   arbitrary relative deadlines) of every job set that complies with the tasks' arrival curves and
   WCETs, every job of that task completes within R time units of its release.

   Ingredients: [edf_generic_exhaustive] (ExhEDF.v), [ab_steps_exact] (EntryPoints.v),
   [task_jobs_in_window_bounded], [task_workload_bounded] (Workload.v), the facts about legal
   limited-preemptive schedules of FpSound.v section 1 (stated there for any priority relation) and
   the busy-window theorem with offset-dependent blocking [jlfp_response_time_bound3] together with
   [total_busy_window_bound] (Jlfp3.v).

   Contents
   1. [exhaustive_ok_inv]: what [exhaustive ... = ROk R] says;
   2. Section EDFSound: [edf_block] (offset-dependent bounded priority inversion), [edf_rtc],
      workload bounds [other_workload], [edf_wl], [total_wl], then [edf_exh_sound], [edf_generic_sound];
   3. the four named corollaries over the public entry points: [edf_fully_preemptive_sound],
      [edf_fully_nonpreemptive_sound], [edf_limited_preemptive_sound],
      [edf_floating_nonpreemptive_sound];
   4. non-vacuity: a concrete two-task set with different relative deadlines, a non-preemptive EDF
      schedule with blocking to which the theorem applies and in which the computed bound is attained. *)
From Coq Require Import Arith NArith List Lia Bool Permutation.
From RTA.Model Require Import Base Arrival Wcet Demand Analyses Eval WellFormed.
From RTA.Spec Require Import Sched Events TaskModel Policies Exhaustive.
From RTA.Proofs Require Import FixedPointProofs ExhFP ExhCorollaries ExhEDF ArrivalNaProofs WcetProofs StepsProofs
  EntryPoints Workload Jlfp2 Jlfp3 FpSound AgreeProofs.
Import ListNotations.
Local Open Scope N_scope.

(* ------------------------------------------------------------------------------------------ *)
(* 1. what a successful exhaustive evaluation says                                             *)
(* ------------------------------------------------------------------------------------------ *)
Lemma exhaustive_ok_inv : forall limit bw rhs rem R,
  exhaustive limit bw rhs (fun A AF => AF - A + rem) = ROk R ->
  exists L, 1 <= L /\ bw L <= L /\
    forall A, A < L -> exists AF, 1 <= AF /\ rhs A AF <= AF /\ AF - A + rem <= R.
Proof.
  intros limit bw rhs rem R H. unfold exhaustive in H.
  destruct (least_fix limit bw) as [L|] eqn:HL; [|discriminate].
  cbv zeta in H.
  pose (sols := map (fun A => (A, least_fix limit (rhs A))) (rangeN 0 L)).
  change (map (fun A => (A, least_fix limit (rhs A))) (rangeN 0 L)) with sols in H.
  destruct (existsb (fun p => is_none (snd p)) sols) eqn:EX; [discriminate|].
  assert (HR : maxN (map (fun p => oval (snd p) - fst p + rem) sols) = R) by (injection H as H'; exact H').
  apply least_fix_spec in HL. destruct HL as (HL1 & _ & HLfix & _).
  exists L. split; [exact HL1|]. split; [exact HLfix|].
  intros A HA.
  assert (Hin : In (A, least_fix limit (rhs A)) sols).
  { unfold sols. apply (in_map (fun A => (A, least_fix limit (rhs A)))). apply in_rangeN. lia. }
  destruct (least_fix limit (rhs A)) as [AF|] eqn:E.
  - exists AF. assert (E' := E). apply least_fix_spec in E'. destruct E' as (E1 & _ & E3 & _).
    split; [exact E1|]. split; [exact E3|].
    rewrite <- HR.
    assert (Hin' : In (AF - A + rem) (map (fun p => oval (snd p) - fst p + rem) sols)).
    { apply in_map_iff. exists (A, Some AF). split; [reflexivity|exact Hin]. }
    apply ExhFP.maxN_ub in Hin'. exact Hin'.
  - exfalso. assert (HT : existsb (fun p => is_none (snd p)) sols = true); [|congruence].
    apply existsb_exists. exists (A, None). split; [exact Hin|reflexivity].
Qed.

(* ------------------------------------------------------------------------------------------ *)
(* 2. the generic EDF soundness theorem                                                        *)
(* ------------------------------------------------------------------------------------------ *)
Section EDFSound.
  Variable tasks : list task.                 (* (arrival bound, WCET) per task index *)
  Variable dl : nat -> nat.                   (* relative deadline per task index *)
  Variable i : nat.                           (* index of the task under analysis *)
  Hypothesis Hi : (i < length tasks)%nat.
  Hypothesis tasks_ok : Forall (fun tk => wf_ab (fst tk) /\ steps_exact_class (fst tk) /\ 1 <= snd tk) tasks.

  Notation Ck k := (snd (nth k tasks (Never, 0))).
  Notation abk k := (fst (nth k tasks (Never, 0))).
  Notation C := (C tasks i).
  Notation ab_i := (ab_i tasks i).
  Notation D := (N.of_nat (dl i)).

  (* the other tasks, in index order *)
  Definition other_idx : list nat := filter (fun k => negb (k =? i)%nat) (seq 0 (length tasks)).
  (* per other task: maximum length of a non-preemptive segment *)
  Variable seg : nat -> N.
  Definition mk_other (k : nat) : edf_other :=
    mkOther (fun d => Ck k * na (abk k) d) (steps_upto (abk k)) (N.of_nat (dl k)) (seg k).
  Definition others : list edf_other := map mk_other other_idx.

  Variables (jobs : list job) (sched : nat -> option nat) (pp : nat -> nat -> bool).
  Hypothesis Hvalid : valid jobs sched.
  Hypothesis Hwc : work_conserving jobs sched.
  Hypothesis Hcurves : respects_curves tasks jobs.
  Hypothesis Hcosts : respects_costs tasks jobs.
  Hypothesis Hpp : pp_sane jobs pp.
  Hypothesis Hlegal : legal jobs sched (edf_hp jobs dl) pp.

  Notation tsk k := (j_task (nth k jobs (mkJob 0 0 0))).

  (* every non-preemptive segment of every job of another task o is at most seg o long; the last
     non-preemptive segment of every job of task i starts after at most C - last units of service *)
  Hypothesis Hseg : forall k, (k < length jobs)%nat -> tsk k <> i ->
     segments_le jobs pp k (N.to_nat (seg (tsk k))).
  Variable last : N.
  Hypothesis Hlast : 1 <= last /\ last <= C.
  Hypothesis Hseg_tua : forall k, (k < length jobs)%nat -> tsk k = i ->
     last_segment_starts_by jobs pp k (N.to_nat (C - last)).

  (* the jobs with higher-or-equal priority than a job of task i released at time a: absolute
     deadline not later (ties included: they may or may not be scheduled first) *)
  Definition hepb (a k : nat) : bool := (arr jobs k + dl (tsk k) <=? a + dl i)%nat.

  Let task_facts := task_facts tasks tasks_ok.
  Let job_facts := job_facts tasks jobs Hcosts.

  (* a task that has a job can release a job *)
  Lemma na1_pos : forall k, (k < length jobs)%nat -> 0 < na (abk (tsk k)) 1.
  Proof.
    intros k Hk. destruct (job_facts k Hk) as (Hkt & _ & _).
    destruct (task_facts _ Hkt) as (Hwf & _ & _).
    assert (Hb := task_jobs_in_window_bounded tasks jobs (tsk k) (arr jobs k) 1 Hkt Hwf Hcurves).
    set (cnt := sumn (length jobs) _) in Hb.
    assert (Hone : (1 <= cnt)%nat).
    { eapply Nat.le_trans; [|apply (sumn_term_le _ _ k Hk)].
      unfold task_in_win. rewrite Nat.eqb_refl, Nat.leb_refl. cbn [andb].
      destruct (Nat.ltb_spec (arr jobs k) (arr jobs k + 1)); lia. }
    change (N.of_nat 1) with 1 in Hb. apply N.lt_le_trans with (N.of_nat cnt); [lia|exact Hb].
  Qed.

  Lemma in_others : forall o, (o < length tasks)%nat -> o <> i -> In (mk_other o) others.
  Proof.
    intros o Ho Hne. unfold others. apply in_map. unfold other_idx. apply filter_In.
    split; [apply in_seq; lia|]. destruct (Nat.eqb_spec o i); [contradiction|reflexivity].
  Qed.

  Local Open Scope nat_scope.

  (* ---- offset-dependent bounded priority inversion ---- *)
  Lemma edf_block : forall j, j < length jobs -> tsk j = i ->
    forall t1 t k, quiet jobs sched (hepb (arr jobs j)) t1 -> t1 <= arr jobs j -> t1 <= t ->
      sched t = Some k -> hepb (arr jobs j) k = false -> service sched j t < cost jobs j ->
      (forall u, t1 <= u <= t -> exists k', pending jobs sched k' u /\ hepb (arr jobs j) k' = true) ->
      t < t1 + N.to_nat (edf_blocking true D others (N.of_nat (arr jobs j - t1))).
  Proof.
    intros j Hj Htj t1 t k _ Ht1 Ht Ek Hk Hinc Hhp.
    destruct (last_decision sched pp t k Ek) as (t0 & Ht0 & Hdec & Hrun).
    destruct (Hvalid _ _ Ek) as (Hkn & _ & _).
    destruct (job_facts k Hkn) as (Hkt & Hkc & _).
    assert (E0 : sched t0 = Some k) by (destruct Hdec; assumption).
    destruct (Hvalid _ _ E0) as (_ & Hka0 & _).
    unfold hepb in Hk. apply Nat.leb_gt in Hk.
    destruct Hlegal as [_ Hb].
    (* no hep job is pending at the decision point: each would strictly precede k *)
    assert (Hnone : forall k'', pending jobs sched k'' t0 -> hepb (arr jobs j) k'' = false).
    { intros k'' Hp. destruct (hepb (arr jobs j) k'') eqn:Hh; [exfalso|reflexivity].
      apply (Hb t0 k k'' Hdec Hp). unfold edf_hp. unfold hepb in Hh. apply Nat.leb_le in Hh. lia. }
    (* hence the decision was taken before the busy window *)
    assert (Ht01 : t0 < t1).
    { destruct (Nat.lt_ge_cases t0 t1) as [|Hge]; [assumption|exfalso].
      destruct (Hhp t0 ltac:(lia)) as (k' & Hp' & Hh'). rewrite (Hnone _ Hp') in Hh'. discriminate. }
    assert (Hne : tsk k <> i).
    { intros Heq. rewrite Heq in Hk. lia. }
    assert (Hsegk := Hseg k Hkn Hne).
    set (o := tsk k) in *.
    destruct (N.eq_dec (seg o) 0) as [Hs0|Hs0].
    { exfalso. rewrite Hs0 in Hsegk. change (N.to_nat 0) with 0 in Hsegk.
      destruct (Hsegk 0 (proj1 (Hpp k)) ltac:(lia)) as (s' & H1 & H2 & _). lia. }
    assert (Hrunle : t <= t0 + N.to_nat (seg o - 1)).
    { apply (np_run_le jobs sched (edf_hp jobs dl) pp Hvalid Hpp Hlegal t k t0 (N.to_nat (seg o - 1)) Ht0 Hdec Hrun Ek).
      replace (N.to_nat (seg o - 1) + 1) with (N.to_nat (seg o)) by lia. exact Hsegk. }
    assert (Hub : (seg o - 1 <= edf_blocking true D others (N.of_nat (arr jobs j - t1)))%N).
    { unfold edf_blocking. apply ExhFP.maxN_ub.
      apply (in_map (fun o' => (o_seg o' - 1)%N) _ (mk_other o)).
      apply filter_In. split; [apply in_others; assumption|].
      cbn [mk_other o_dl o_rbf]. apply andb_true_iff. split.
      - apply N.ltb_lt. lia.
      - apply N.ltb_lt. pose proof (na1_pos k Hkn) as Hna. fold o in Hna.
        destruct (task_facts _ Hkt) as (_ & _ & HC1). nia. }
    lia.
  Qed.

  (* ---- run to completion ---- *)
  Lemma edf_rtc : forall j, j < length jobs -> tsk j = i ->
    forall t, N.to_nat (C - last + 1) <= service sched j t -> service sched j t < cost jobs j -> sched t = Some j.
  Proof.
    intros j Hj Htj t Hs Hc.
    apply (runs_to_completion jobs sched (edf_hp jobs dl) pp Hvalid Hpp Hlegal j (N.to_nat (C - last))).
    - apply Hseg_tua; assumption.
    - lia.
    - exact Hc.
  Qed.

  (* ---- workload bounds ---- *)
  (* jobs of the tasks selected by p released in per-task windows [t1, t1 + len o) *)
  Lemma pw_split : forall (p : nat -> bool) (len : nat -> nat) t1,
    workP jobs (fun k => p (tsk k) && in_win jobs t1 (len (tsk k)) k)
    = sumn (length tasks) (fun i' => if p i' then workP jobs (task_in_win jobs i' t1 (len i')) else 0).
  Proof.
    intros p len t1. unfold workP.
    rewrite (sumn_ext (length tasks) _
               (fun i' => sumn (length jobs)
                  (fun k => if p i' && task_in_win jobs i' t1 (len i') k then cost jobs k else 0))).
    2:{ intros i' _. destruct (p i'); cbn [andb]; [reflexivity|].
        symmetry. apply sumn_const0. reflexivity. }
    rewrite sumn_exch. apply sumn_ext. intros k Hk.
    destruct (job_facts k Hk) as (Ht & _ & _).
    rewrite (sumn_ext (length tasks) _
               (fun i' => if tsk k =? i'
                          then (if p (tsk k) && in_win jobs t1 (len (tsk k)) k then cost jobs k else 0) else 0)).
    - rewrite sumn_pick by exact Ht. reflexivity.
    - intros i' _. unfold task_in_win, in_win.
      destruct (Nat.eqb_spec (tsk k) i') as [<-|Hne]; cbn [andb]; [reflexivity|].
      rewrite andb_false_r. reflexivity.
  Qed.

  (* jobs of the other tasks released in [t1, t1 + min x (A + 1 + D - D_o)) *)
  Definition ow (A t1 x k : nat) : bool :=
    negb (tsk k =? i) && in_win jobs t1 (min x (A + 1 + dl i - dl (tsk k))) k.

  Lemma other_workload : forall A t1 x,
    (N.of_nat (workP jobs (ow A t1 x)) <= edf_hep D others (N.of_nat A) (N.of_nat x))%N.
  Proof.
    intros A t1 x. unfold ow.
    rewrite (pw_split (fun o => negb (o =? i)) (fun o => min x (A + 1 + dl i - dl o)) t1).
    unfold edf_hep, others, other_idx. rewrite map_map.
    apply (sumn_filter_le (fun o => negb (o =? i))
             (fun o => workP jobs (task_in_win jobs o t1 (min x (A + 1 + dl i - dl o))))
             (fun o => o_rbf (mk_other o) (N.min (N.of_nat x) (N.of_nat A + 1 + D - o_dl (mk_other o))))).
    intros o Ho _. cbn [mk_other o_rbf o_dl].
    replace (N.min (N.of_nat x) (N.of_nat A + 1 + D - N.of_nat (dl o)))%N
      with (N.of_nat (min x (A + 1 + dl i - dl o))) by lia.
    apply task_workload_bounded; auto. apply task_facts. exact Ho.
  Qed.

  (* all jobs released in a window of length L: the busy-window equation of the analysis *)
  Lemma total_wl : forall L t1,
    workP jobs (in_win jobs t1 L)
    <= N.to_nat (edf_bw_rhs (fun d => C * na ab_i d)%N others (N.of_nat L)).
  Proof.
    intros L t1.
    assert (H1 := workP_le_split jobs (in_win jobs t1 L)
                    (fun k => negb (tsk k =? i) && in_win jobs t1 L k) (task_in_win jobs i t1 L)).
    assert (H2 : (N.of_nat (workP jobs (fun k => negb (tsk k =? i)%nat && in_win jobs t1 L k))
                  <= sumN (map (fun o => o_rbf o (N.of_nat L)) others))%N).
    { rewrite (pw_split (fun o => negb (o =? i)) (fun _ => L) t1).
      unfold others, other_idx. rewrite map_map.
      apply (sumn_filter_le (fun o => negb (o =? i))
               (fun o => workP jobs (task_in_win jobs o t1 L))
               (fun o => o_rbf (mk_other o) (N.of_nat L))).
      intros o Ho _. cbn [mk_other o_rbf]. apply task_workload_bounded; auto. apply task_facts. exact Ho. }
    assert (H3 : (N.of_nat (workP jobs (task_in_win jobs i t1 L)) <= C * na ab_i (N.of_nat L))%N).
    { apply task_workload_bounded; auto. apply task_facts. exact Hi. }
    assert (H1' : workP jobs (in_win jobs t1 L)
                  <= workP jobs (fun k => negb (tsk k =? i) && in_win jobs t1 L k) + workP jobs (task_in_win jobs i t1 L)).
    { apply H1. intros k Hk Hw. destruct (Nat.eqb_spec (tsk k) i) as [Ht|Ht].
      - right. unfold task_in_win. unfold in_win in Hw. rewrite Ht, Nat.eqb_refl. exact Hw.
      - left. cbn [negb andb]. exact Hw. }
    clear H1.
    unfold edf_bw_rhs. lia.
  Qed.

  Lemma edf_wl : forall j, j < length jobs -> tsk j = i -> forall t1 x, t1 <= arr jobs j ->
    workP jobs (fun k => hepb (arr jobs j) k && in_win jobs t1 x k && negb (k =? j)) + N.to_nat (C - last + 1)
    <= N.to_nat ((C * na ab_i (N.of_nat (arr jobs j - t1) + 1) - (last - 1))
                 + edf_hep D others (N.of_nat (arr jobs j - t1)) (N.of_nat x)).
  Proof.
    intros j Hj Htj t1 x Ht1.
    set (a := arr jobs j) in *. set (A := a - t1).
    assert (H1 := workP_le_split jobs
                    (fun k => hepb a k && in_win jobs t1 x k && negb (k =? j))
                    (ow A t1 x)
                    (fun k => task_in_win jobs i t1 (A + 1) k && negb (k =? j))).
    assert (H2 := other_workload A t1 x).
    assert (H3 := tua_workload tasks i Hi tasks_ok jobs Hcurves Hcosts last Hlast j Hj Htj t1 Ht1).
    fold a in H3. fold A in H3.
    assert (H1' : workP jobs (fun k => hepb a k && in_win jobs t1 x k && negb (k =? j))
                  <= workP jobs (ow A t1 x)
                     + workP jobs (fun k => task_in_win jobs i t1 (A + 1) k && negb (k =? j))).
    { apply H1. intros k Hk HP. apply andb_true_iff in HP. destruct HP as [HP Hn].
      apply andb_true_iff in HP. destruct HP as [Hh Hw].
      unfold hepb in Hh. apply Nat.leb_le in Hh.
      unfold in_win in Hw. apply andb_true_iff in Hw. destruct Hw as [Hw1 Hw2].
      apply Nat.leb_le in Hw1. apply Nat.ltb_lt in Hw2.
      destruct (Nat.eqb_spec (tsk k) i) as [Ht|Ht].
      - right. rewrite Hn, andb_true_r. unfold task_in_win. rewrite Ht, Nat.eqb_refl. cbn [andb].
        rewrite Ht in Hh.
        apply andb_true_iff. split; [apply Nat.leb_le|apply Nat.ltb_lt]; lia.
      - left. unfold ow, in_win. destruct (Nat.eqb_spec (tsk k) i) as [|_]; [contradiction|]. cbn [negb andb].
        apply andb_true_iff. split; [apply Nat.leb_le; exact Hw1|apply Nat.ltb_lt].
        unfold A. lia. }
    clear H1.
    destruct Hlast as [Hl1 Hl2].
    generalize dependent (workP jobs (fun k => hepb a k && in_win jobs t1 x k && negb (k =? j))).
    generalize dependent (workP jobs (ow A t1 x)).
    generalize dependent (workP jobs (fun k => task_in_win jobs i t1 (A + 1) k && negb (k =? j))).
    generalize dependent (edf_hep D others (N.of_nat A) (N.of_nat x)).
    generalize dependent (C * na ab_i (N.of_nat A + 1))%N.
    intros X s w1 H3 w2 H2 w3 H1. lia.
  Qed.

  Local Open Scope N_scope.

  Lemma others_ok : forall o, In o others -> mono (o_rbf o) /\ steps_exact (o_rbf o) (o_steps o).
  Proof.
    intros o Ho. unfold others in Ho. apply in_map_iff in Ho. destruct Ho as (k & <- & Hk).
    unfold other_idx in Hk. apply filter_In in Hk. destruct Hk as [Hk _]. apply in_seq in Hk.
    destruct (task_facts k ltac:(lia)) as (Hwf & Hcl & HC1).
    cbn [mk_other o_rbf o_steps]. split.
    - apply scaled_mono. apply na_mono'. exact Hwf.
    - apply scaled_steps; [exact HC1|apply ab_steps_exact; assumption].
  Qed.

  (* soundness of the exhaustive evaluation of the equations ... *)
  Theorem edf_exh_sound : forall limit R,
    exh_edf true (last - 1) (fun d => C * na ab_i d) D (map other_triple others) limit = ROk R ->
    forall k, (k < length jobs)%nat -> tsk k = i -> completes_within jobs sched k (N.to_nat R).
  Proof.
    intros limit R He j Hj Htj.
    rewrite exh_edf_eq in He.
    destruct (exhaustive_ok_inv _ _ _ _ _ He) as (L & HL1 & HLfix & HRr).
    destruct (job_facts j Hj) as (_ & Hc1 & Hc2). rewrite Htj in Hc2.
    destruct Hlast as [Hl1 Hl2].
    unfold completes_within.
    assert (hep_j : hepb (arr jobs j) j = true).
    { unfold hepb. rewrite Htj. apply Nat.leb_refl. }
    refine (jlfp_response_time_bound3 jobs sched Hvalid Hwc j Hj _ (hepb (arr jobs j)) hep_j
              (fun A => N.to_nat (edf_blocking true D others (N.of_nat A))) (edf_block j Hj Htj)
              (N.to_nat (C - last + 1)) (N.to_nat (last - 1)) _ (edf_rtc j Hj Htj)
              (fun A x => N.to_nat ((C * na ab_i (N.of_nat A + 1) - (last - 1))
                                    + edf_hep D others (N.of_nat A) (N.of_nat x)))
              (edf_wl j Hj Htj)
              (N.to_nat L) _ (N.to_nat R) _).
    - lia.
    - unfold FpSound.C in *. lia.
    - apply (total_busy_window_bound jobs sched Hvalid Hwc j Hj ltac:(lia) (hepb (arr jobs j)) (N.to_nat L)
               (N.to_nat (edf_bw_rhs (fun d => C * na ab_i d) others L))).
      + lia.
      + intros t1. assert (H := total_wl (N.to_nat L) t1). rewrite Nnat.N2Nat.id in H. exact H.
      + lia.
    - intros A HA. destruct (HRr (N.of_nat A) ltac:(lia)) as (AF & H1 & H2 & H3).
      exists (N.to_nat AF). rewrite Nnat.N2Nat.id. unfold edf_rhs in H2.
      split; [lia|]. split; lia.
  Qed.

  (* ... and hence of the pruned, iterative analysis *)
  Theorem edf_generic_sound : forall dbg limit R,
    edf_generic dbg true true (last - 1) (fun d => C * na ab_i d) (steps_upto ab_i) D others limit = ROk R ->
    forall k, (k < length jobs)%nat -> tsk k = i -> completes_within jobs sched k (N.to_nat R).
  Proof.
    intros dbg limit R He k Hk Htk.
    destruct (task_facts i Hi) as (Hwf & Hcl & HC1).
    assert (Hna1 : 0 < na ab_i 1).
    { pose proof (na1_pos k Hk) as H. rewrite Htk in H. exact H. }
    destruct Hlast as [Hl1 Hl2].
    rewrite (edf_generic_exhaustive true (last - 1) (fun d => C * na ab_i d) (steps_upto ab_i) D others limit) in He.
    - exact (edf_exh_sound limit R He k Hk Htk).
    - apply scaled_mono. apply na_mono'. exact Hwf.
    - apply scaled_steps; [exact HC1|apply ab_steps_exact; assumption].
    - unfold FpSound.ab_i. rewrite (na_zero _ Hwf). lia.
    - unfold FpSound.C, FpSound.ab_i in *. nia.
    - apply scaled_step_gt. unfold FpSound.C in *. lia.
    - exact others_ok.
  Qed.
End EDFSound.
Print Assumptions edf_exh_sound.
Print Assumptions edf_generic_sound.

(* ------------------------------------------------------------------------------------------ *)
(* 3. the four named analyses at their public entry points                                     *)
(* ------------------------------------------------------------------------------------------ *)
Section EDFNamed.
  Variable tasks : list task.
  Variable dl : nat -> nat.
  Variable i : nat.
  Hypothesis Hi : (i < length tasks)%nat.
  Hypothesis tasks_ok : Forall (fun tk => wf_ab (fst tk) /\ steps_exact_class (fst tk) /\ 1 <= snd tk) tasks.
  Variables (jobs : list job) (sched : nat -> option nat) (pp : nat -> nat -> bool).
  Hypothesis Hvalid : valid jobs sched.
  Hypothesis Hwc : work_conserving jobs sched.
  Hypothesis Hcurves : respects_curves tasks jobs.
  Hypothesis Hcosts : respects_costs tasks jobs.
  Hypothesis Hpp : pp_sane jobs pp.
  Hypothesis Hlegal : legal jobs sched (edf_hp jobs dl) pp.

  Notation Ci := (C tasks i).
  Notation abi := (ab_i tasks i).
  Notation Di := (N.of_nat (dl i)).
  Notation Ck k := (snd (nth k tasks (Never, 0))).
  Notation abk k := (fst (nth k tasks (Never, 0))).
  Notation rbk k := (RBF (abk k) (Scalar (Ck k))).
  Notation oidx := (other_idx tasks i).
  Notation tsk k := (j_task (nth k jobs (mkJob 0 0 0))).

  Let Ci_pos : 1 <= Ci := Ci_pos tasks i Hi tasks_ok.
  Let last1_vacuous := last1_vacuous tasks i Hi tasks_ok jobs pp Hcosts.

  (* edf::limited_preemptive: the other tasks with their relative deadlines and maximum
     non-preemptive segment lengths *)
  Theorem edf_limited_preemptive_sound : forall dbg (seg : nat -> N) last limit R,
    1 <= last /\ last <= Ci ->
    (forall k, (k < length jobs)%nat -> tsk k <> i -> segments_le jobs pp k (N.to_nat (seg (tsk k)))) ->
    (forall k, (k < length jobs)%nat -> tsk k = i -> last_segment_starts_by jobs pp k (N.to_nat (Ci - last))) ->
    e_edf_lp dbg abi Ci Di last (map (fun k => (rbk k, N.of_nat (dl k), seg k)) oidx) limit = ROk R ->
    forall k, (k < length jobs)%nat -> tsk k = i -> completes_within jobs sched k (N.to_nat R).
  Proof.
    intros dbg seg last limit R Hlast Hseg Htua He.
    apply (edf_generic_sound tasks dl i Hi tasks_ok seg jobs sched pp Hvalid Hwc Hcurves Hcosts Hpp Hlegal
             Hseg last Hlast Htua) with (dbg := dbg) (limit := limit).
    unfold e_edf_lp in He. rewrite map_map in He.
    replace ((1 <=? last) && (last - 1 <=? Ci)) with true in He; [exact He|].
    symmetry. apply andb_true_iff. split; apply N.leb_le; lia.
  Qed.

  (* edf::floating_nonpreemptive *)
  Theorem edf_floating_nonpreemptive_sound : forall dbg (seg : nat -> N) limit R,
    (forall k, (k < length jobs)%nat -> tsk k <> i -> segments_le jobs pp k (N.to_nat (seg (tsk k)))) ->
    e_edf_fnp dbg (RBF abi (Scalar Ci)) Di (map (fun k => (rbk k, N.of_nat (dl k), seg k)) oidx) limit = ROk R ->
    forall k, (k < length jobs)%nat -> tsk k = i -> completes_within jobs sched k (N.to_nat R).
  Proof.
    intros dbg seg limit R Hseg He.
    apply (edf_generic_sound tasks dl i Hi tasks_ok seg jobs sched pp Hvalid Hwc Hcurves Hcosts Hpp Hlegal
             Hseg 1) with (dbg := dbg) (limit := limit).
    - lia.
    - exact last1_vacuous.
    - unfold e_edf_fnp in He. rewrite map_map in He. exact He.
  Qed.

  (* edf::fully_preemptive: no blocking term; it is the floating analysis with all segments 1 *)
  Theorem edf_fully_preemptive_sound : forall dbg limit R,
    fully_preemptive pp ->
    e_edf_fp dbg (RBF abi (Scalar Ci)) Di (map (fun k => (rbk k, N.of_nat (dl k))) oidx) limit = ROk R ->
    forall k, (k < length jobs)%nat -> tsk k = i -> completes_within jobs sched k (N.to_nat R).
  Proof.
    intros dbg limit R Hfp He.
    rewrite <- edf_fnp_segs1_is_fp in He. rewrite map_map in He. cbn [fst snd] in He.
    apply (edf_floating_nonpreemptive_sound dbg (fun _ => 1) limit R); [|exact He].
    intros k Hk _ s _ Hs. exists (S s). rewrite Hfp. change (N.to_nat 1) with 1%nat. repeat split; lia.
  Qed.

  (* edf::fully_nonpreemptive: the other tasks' segments are their WCETs *)
  Theorem edf_fully_nonpreemptive_sound : forall dbg limit R,
    fully_nonpreemptive jobs pp ->
    e_edf_np dbg abi Ci Di (map (fun k => (abk k, Ck k, N.of_nat (dl k))) oidx) limit = ROk R ->
    forall k, (k < length jobs)%nat -> tsk k = i -> completes_within jobs sched k (N.to_nat R).
  Proof.
    intros dbg limit R Hnp He.
    apply (edf_generic_sound tasks dl i Hi tasks_ok (fun k => Ck k) jobs sched pp Hvalid Hwc Hcurves Hcosts Hpp Hlegal)
      with (last := Ci) (dbg := dbg) (limit := limit).
    - intros k Hk _ s Hs Hsc. rewrite Hnp in Hs.
      assert (Hs0 : s = 0%nat).
      { apply orb_true_iff in Hs. destruct Hs as [Hs|Hs]; apply Nat.eqb_eq in Hs; lia. }
      exists (cost jobs k). destruct (job_facts tasks jobs Hcosts k Hk) as (_ & _ & Hle).
      rewrite Hnp, Nat.eqb_refl, orb_true_r. repeat split; lia.
    - lia.
    - intros k Hk Htk s Hs1 Hs2. rewrite Hnp.
      destruct (Nat.eqb_spec s 0) as [->|_]; [lia|]. destruct (Nat.eqb_spec s (cost jobs k)); [lia|reflexivity].
    - unfold e_edf_np in He. rewrite map_map in He.
      replace (1 <=? Ci) with true in He; [exact He|]. symmetry. apply N.leb_le. exact Ci_pos.
  Qed.
End EDFNamed.
Print Assumptions edf_fully_preemptive_sound.
Print Assumptions edf_fully_nonpreemptive_sound.
Print Assumptions edf_limited_preemptive_sound.
Print Assumptions edf_floating_nonpreemptive_sound.

(* ------------------------------------------------------------------------------------------ *)
(* 4. non-vacuity: the task set, job set and non-preemptive schedule of FpSound.v section 6,   *)
(*    now scheduled by EDF with relative deadlines 8 (task 0) and 20 (task 1)                  *)
(* ------------------------------------------------------------------------------------------ *)
Definition edf_ex_dl (k : nat) : nat := match k with O => 8%nat | _ => 20%nat end.

(* task 0 (WCET 3, deadline 8): blocked for at most 4 by the non-preemptive job of task 1 (WCET 5,
   deadline 20 > 8 + A for every offset A of the busy window) *)
Example edf_ex_np_ok :
  e_edf_np false (ab_i FpSound.ex_tasks 0) (C FpSound.ex_tasks 0) (N.of_nat (edf_ex_dl 0))
    (map (fun k => (fst (nth k FpSound.ex_tasks (Never, 0)), snd (nth k FpSound.ex_tasks (Never, 0)), N.of_nat (edf_ex_dl k)))
         (other_idx FpSound.ex_tasks 0)) 100 = ROk 7.
Proof. vm_compute. reflexivity. Qed.

Section EdfWitness.
  Local Open Scope nat_scope.
  (* jobs [mkJob 1 0 5; mkJob 0 1 3]: the job of task 1 is released at 0 (absolute deadline 20) and
     runs non-preemptively in [0,5); the job of task 0 is released at 1 (absolute deadline 9, so it
     has the higher EDF priority), is blocked until 5 and runs in [5,8): response time 7 *)
  Lemma edf_ex_legal : legal FpSound.ex_jobs FpSound.ex_sched (edf_hp FpSound.ex_jobs edf_ex_dl) FpSound.ex_pp.
  Proof.
    split.
    - intros t k E N (_ & _ & P).
      do 8 (destruct t as [|t];
            [injection E as <-; try (exfalso; apply N; reflexivity);
             unfold cost, service, svc, runs in P; cbn in P; lia|]).
      discriminate E.
    - intros t k k' (E & D) (Hk' & Ha & Hs) H.
      assert (Hk'2 : k' = 0 \/ k' = 1) by (cbn in Hk'; lia).
      do 8 (destruct t as [|t];
            [injection E as <-;
             destruct Hk'2 as [-> | ->];
             unfold edf_hp, edf_ex_dl, arr, cost, service, svc, runs, FpSound.ex_pp in *; cbn in *;
             try lia;
             try (destruct D as [D|[D|D]]; [lia|apply D; reflexivity|discriminate D]) |]).
      discriminate E.
  Qed.

  (* the job of task 0 really has the higher EDF priority, so it is blocked, not outranked *)
  Example edf_ex_priority : edf_hp FpSound.ex_jobs edf_ex_dl 1 0.
  Proof. unfold edf_hp, arr. cbn. lia. Qed.

  (* so the theorem applies: the job of task 0 (index 1) completes within 7 ... *)
  Example edf_ex_completes : completes_within FpSound.ex_jobs FpSound.ex_sched 1 7.
  Proof.
    apply (edf_fully_nonpreemptive_sound FpSound.ex_tasks edf_ex_dl 0 ltac:(cbn; lia) FpSound.ex_tasks_ok
             FpSound.ex_jobs FpSound.ex_sched FpSound.ex_pp FpSound.ex_valid FpSound.ex_work_conserving
             FpSound.ex_respects_curves FpSound.ex_respects_costs FpSound.ex_pp_sane edf_ex_legal
             false 100%N 7%N FpSound.ex_np).
    - exact edf_ex_np_ok.
    - cbn. lia.
    - reflexivity.
  Qed.

  (* ... and not within 6: the bound is attained *)
  Example edf_ex_tight : ~ completes_within FpSound.ex_jobs FpSound.ex_sched 1 6.
  Proof. exact FpSound.ex_tight. Qed.
End EdfWitness.
Print Assumptions edf_ex_np_ok.
Print Assumptions edf_ex_completes.
Print Assumptions edf_ex_tight.

(* a second witness, for arbitrary tie-breaking: fully preemptive EDF, relative deadlines 8 and 9, so
   that the two jobs of the schedule above have the SAME absolute deadline 9; the scheduler breaks
   the tie against the job under analysis, and the bound 7 (offset A = 1) is again attained *)
Definition edf_ex_dl2 (k : nat) : nat := match k with O => 8%nat | _ => 9%nat end.
Definition edf_ex_pp2 (k s : nat) : bool := true.

Example edf_ex_fp_ok :
  e_edf_fp false (RBF (ab_i FpSound.ex_tasks 0) (Scalar (C FpSound.ex_tasks 0))) (N.of_nat (edf_ex_dl2 0))
    (map (fun k => (RBF (fst (nth k FpSound.ex_tasks (Never, 0))) (Scalar (snd (nth k FpSound.ex_tasks (Never, 0)))),
                    N.of_nat (edf_ex_dl2 k)))
         (other_idx FpSound.ex_tasks 0)) 100 = ROk 7.
Proof. vm_compute. reflexivity. Qed.

Section EdfTieWitness.
  Local Open Scope nat_scope.
  (* task indices: job 0 is of task 1, job 1 of task 0 — the absolute deadlines coincide *)
  Example edf_ex_tie_deadlines :
    arr FpSound.ex_jobs 0 + edf_ex_dl2 (j_task (nth 0 FpSound.ex_jobs (mkJob 0 0 0)))
    = arr FpSound.ex_jobs 1 + edf_ex_dl2 (j_task (nth 1 FpSound.ex_jobs (mkJob 0 0 0))).
  Proof. reflexivity. Qed.

  Lemma edf_ex_pp2_sane : pp_sane FpSound.ex_jobs edf_ex_pp2.
  Proof. intros k. split; reflexivity. Qed.

  Lemma edf_ex_legal2 : legal FpSound.ex_jobs FpSound.ex_sched (edf_hp FpSound.ex_jobs edf_ex_dl2) edf_ex_pp2.
  Proof.
    split.
    - intros t k _ _ _. reflexivity.
    - intros t k k' (E & _) (Hk' & Ha & Hs) H.
      assert (Hk'2 : k' = 0 \/ k' = 1) by (cbn in Hk'; lia).
      do 8 (destruct t as [|t];
            [injection E as <-;
             destruct Hk'2 as [-> | ->];
             unfold edf_hp, edf_ex_dl2, arr, cost, service, svc, runs in *; cbn in *; lia |]).
      discriminate E.
  Qed.

  Example edf_ex_tie_completes : completes_within FpSound.ex_jobs FpSound.ex_sched 1 7.
  Proof.
    apply (edf_fully_preemptive_sound FpSound.ex_tasks edf_ex_dl2 0 ltac:(cbn; lia) FpSound.ex_tasks_ok
             FpSound.ex_jobs FpSound.ex_sched edf_ex_pp2 FpSound.ex_valid FpSound.ex_work_conserving
             FpSound.ex_respects_curves FpSound.ex_respects_costs edf_ex_pp2_sane edf_ex_legal2
             false 100%N 7%N ltac:(intros k s; reflexivity)).
    - exact edf_ex_fp_ok.
    - cbn. lia.
    - reflexivity.
  Qed.
End EdfTieWitness.
Print Assumptions edf_ex_fp_ok.
Print Assumptions edf_ex_tie_completes.
