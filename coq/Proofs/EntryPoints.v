(* EntryPoints.v — properties C06 ("analysis = exhaustive evaluation of its equations") and C20
   ("never panics") lifted from the function-level theorems of ExhFP / ExhCorollaries / ExhEDF /
   ExhEdfCorollaries to the public entry points over the deep embedding (Model/Eval.v):
   e_fp_fp, e_fp_np, e_fp_lp, e_fp_fnp, e_edf_fp, e_edf_np, e_edf_lp, e_edf_fnp, e_fifo.

   The function-level hypotheses (monotone request-bound functions, zero at zero, exact step
   enumerators) are discharged from well-formedness of the inputs:
     wf_rb / wf_ab            -> monotone, zero at zero        (ArrivalNaProofs, WcetProofs)
     rb_steps_ok / wf_ab + steps_exact_class -> exact step enumerators (StepsProofs, property C11).

   Contents
   1. request bounds of well-formed inputs: rb_steps_ok_wf, sn_mono, sn_zero, sum_sn_mono,
      rb_steps_exact, ab_steps_exact;
   2. C06 at the five fixed-priority / FIFO entry points;
   3. C06 at the four EDF entry points;
   4. C20: e_dedicated_no_panic (FP, FIFO), e_edf_{fp,fnp,np,lp}_total and e_edf_no_panic (EDF);
   5. independence of the build profile (dbg) for all nine entry points;
   6. concrete instances (the hypotheses are satisfiable; both sides evaluated with vm_compute);
   7. regression for finding C20-edf-never-tua: edf_np_never_tua_repaired, edf_lp_never_tua_repaired. *)
From Coq Require Import List NArith Lia Bool Sorting.Sorted.
From RTA.Model Require Import Base Arrival Wcet Demand Supply FixedPoint Analyses Ros2 Eval WellFormed.
From RTA.Spec Require Import Exhaustive.
From RTA.Proofs Require Import FixedPointProofs ExhFP ExhCorollaries ExhEDF ExhEdfCorollaries ArrivalNaProofs WcetProofs StepsProofs.
Import ListNotations.
Local Open Scope N_scope.

(* Both ExhFP and StepsProofs define [mono] (the same definition up to bound-variable names, hence
   convertible); all statements below use the one of ExhFP, which the C06 theorems are stated with. *)
Local Notation mono := ExhFP.mono.

(* ------------------------------------------------------------------------------------------ *)
(* 1. request bounds of well-formed inputs                                                     *)
(* ------------------------------------------------------------------------------------------ *)

Lemma wf_rb_agg : forall l, wf_rb (Agg l) <-> Forall wf_rb l.
Proof.
  induction l as [|a l IH].
  - split; intros _; constructor.
  - split.
    + intros [Ha Hl]. constructor; [exact Ha | apply IH; exact Hl].
    + intros H. inversion H as [|a' l' Ha Hl]; subst. split; [exact Ha | apply IH; exact Hl].
Qed.

Theorem rb_steps_ok_wf : forall rb, rb_steps_ok rb -> wf_rb rb.
Proof.
  induction rb as [ab cm|l IH] using RB_ind_st; intros Hok.
  - destruct Hok as [Hwa [_ [Hwc _]]]. split; assumption.
  - apply rb_ok_agg in Hok. apply wf_rb_agg.
    rewrite Forall_forall in *. intros r Hr. apply IH; [exact Hr | apply Hok; exact Hr].
Qed.
Print Assumptions rb_steps_ok_wf.

Theorem sn_mono : forall rb, wf_rb rb -> mono (sn rb).
Proof.
  induction rb as [ab cm|l IH] using RB_ind_st; intros Hwf.
  - destruct Hwf as [Hwa Hwc]. intros a b Hab. cbn [sn].
    apply cost_mono; [exact Hwc|]. apply na_mono; assumption.
  - apply wf_rb_agg in Hwf.
    change (sn (Agg l)) with (fun d => sumN (map (fun r => sn r d) l)).
    apply (sum_mono sn l). rewrite Forall_forall in *.
    intros r Hr. apply IH; [exact Hr | apply Hwf; exact Hr].
Qed.
Print Assumptions sn_mono.

Lemma sumN_map_zero : forall {A} (f : A -> N) l, (forall a, In a l -> f a = 0) -> sumN (map f l) = 0.
Proof.
  intros A f l. induction l as [|a l IH]; intros H; cbn [map sumN fold_right]; [reflexivity|].
  fold (sumN (map f l)). rewrite IH by (intros b Hb; apply H; right; exact Hb).
  rewrite (H a) by (left; reflexivity). reflexivity.
Qed.

Theorem sn_zero : forall rb, wf_rb rb -> sn rb 0 = 0.
Proof.
  induction rb as [ab cm|l IH] using RB_ind_st; intros Hwf.
  - destruct Hwf as [Hwa _]. cbn [sn]. rewrite (na_zero ab Hwa). apply cost_zero.
  - apply wf_rb_agg in Hwf. cbn [sn]. apply sumN_map_zero.
    rewrite Forall_forall in *. intros r Hr. apply IH; [exact Hr | apply Hwf; exact Hr].
Qed.
Print Assumptions sn_zero.

Theorem sum_sn_mono : forall l, Forall wf_rb l -> mono (sum_sn l).
Proof.
  intros l Hl. change (sum_sn l) with (fun d => sumN (map (fun r => sn r d) l)).
  apply (sum_mono sn l). eapply Forall_impl; [|exact Hl]. cbn beta. intros r Hr. apply sn_mono. exact Hr.
Qed.
Print Assumptions sum_sn_mono.

Theorem rb_steps_exact : forall rb, rb_steps_ok rb -> steps_exact (sn rb) (rb_steps_upto rb).
Proof. intros rb Hok h d. apply (proj2 (rb_steps_upto_exact rb Hok h)). Qed.
Print Assumptions rb_steps_exact.

Theorem ab_steps_exact : forall ab, wf_ab ab -> steps_exact_class ab -> steps_exact (na ab) (steps_upto ab).
Proof. intros ab Hwf Hc h d. apply (proj2 (steps_upto_exact ab Hwf Hc h)). Qed.
Print Assumptions ab_steps_exact.

Lemma na_mono' : forall ab, wf_ab ab -> mono (na ab).
Proof. intros ab Hwf a b Hab. apply na_mono; assumption. Qed.

(* ------------------------------------------------------------------------------------------ *)
(* 2. C06 at the fixed-priority and FIFO entry points                                          *)
(* ------------------------------------------------------------------------------------------ *)

Theorem e_fp_fp_exhaustive : forall dbg tua hp limit, rb_steps_ok tua -> Forall wf_rb hp -> 0 < sn tua 1 ->
  e_fp_fp dbg tua hp limit = exh_fp 0 0 (sn tua) (sum_sn hp) limit.
Proof.
  intros dbg tua hp limit Hok Hhp Hpos. unfold e_fp_fp.
  pose proof (rb_steps_ok_wf tua Hok) as Hwf.
  apply fp_fp_exhaustive.
  - apply sn_mono; exact Hwf.
  - apply sum_sn_mono; exact Hhp.
  - apply sn_zero; exact Hwf.
  - exact Hpos.
  - apply rb_steps_exact; exact Hok.
Qed.
Print Assumptions e_fp_fp_exhaustive.

Theorem e_fp_fnp_exhaustive : forall dbg tua B hp limit, rb_steps_ok tua -> Forall wf_rb hp -> 0 < sn tua 1 ->
  e_fp_fnp dbg tua B hp limit = exh_fp B 0 (sn tua) (sum_sn hp) limit.
Proof.
  intros dbg tua B hp limit Hok Hhp Hpos. unfold e_fp_fnp.
  pose proof (rb_steps_ok_wf tua Hok) as Hwf.
  apply fp_fnp_exhaustive.
  - apply sn_mono; exact Hwf.
  - apply sum_sn_mono; exact Hhp.
  - apply sn_zero; exact Hwf.
  - exact Hpos.
  - apply rb_steps_exact; exact Hok.
Qed.
Print Assumptions e_fp_fnp_exhaustive.

Theorem e_fp_np_exhaustive : forall dbg ab C B hp limit, wf_ab ab -> steps_exact_class ab -> Forall wf_rb hp -> 0 < na ab 1 -> 1 <= C ->
  e_fp_np dbg ab C B hp limit = exh_fp B (C - 1) (fun d => C * na ab d) (sum_sn hp) limit.
Proof.
  intros dbg ab C B hp limit Hwf Hc Hhp Hpos HC. unfold e_fp_np.
  apply fp_np_exhaustive.
  - apply na_mono'; exact Hwf.
  - apply sum_sn_mono; exact Hhp.
  - apply na_zero; exact Hwf.
  - exact Hpos.
  - apply ab_steps_exact; assumption.
  - exact HC.
Qed.
Print Assumptions e_fp_np_exhaustive.

Theorem e_fp_lp_exhaustive : forall dbg ab C last B hp limit, wf_ab ab -> steps_exact_class ab -> Forall wf_rb hp -> 0 < na ab 1 -> 1 <= last -> last <= C ->
  e_fp_lp dbg ab C last B hp limit = exh_fp B (last - 1) (fun d => C * na ab d) (sum_sn hp) limit.
Proof.
  intros dbg ab C last B hp limit Hwf Hc Hhp Hpos Hl HC. unfold e_fp_lp.
  apply fp_lp_exhaustive.
  - apply na_mono'; exact Hwf.
  - apply sum_sn_mono; exact Hhp.
  - apply na_zero; exact Hwf.
  - exact Hpos.
  - apply ab_steps_exact; assumption.
  - exact Hl.
  - exact HC.
Qed.
Print Assumptions e_fp_lp_exhaustive.

Theorem e_fifo_exhaustive : forall dbg rb limit, rb_steps_ok rb -> 0 < sn rb 1 ->
  e_fifo dbg rb limit = exh_fifo (sn rb) limit.
Proof.
  intros dbg rb limit Hok Hpos. unfold e_fifo.
  pose proof (rb_steps_ok_wf rb Hok) as Hwf.
  apply fifo_exhaustive.
  - apply sn_mono; exact Hwf.
  - apply rb_steps_exact; exact Hok.
  - exact Hpos.
  - apply sn_zero; exact Hwf.
Qed.
Print Assumptions e_fifo_exhaustive.

(* ------------------------------------------------------------------------------------------ *)
(* 3. C06 at the EDF entry points                                                              *)
(*    others: (request bound, deadline[, segment]) resp. (arrival bound, WCET, deadline);       *)
(*    exh_edf takes them as ((rbf, deadline), segment).                                         *)
(* ------------------------------------------------------------------------------------------ *)

Lemma other_of_rb_ok : forall rb D seg, rb_steps_ok rb ->
  mono (o_rbf (other_of_rb (rb, D, seg))) /\
  steps_exact (o_rbf (other_of_rb (rb, D, seg))) (o_steps (other_of_rb (rb, D, seg))).
Proof.
  intros rb D seg Hok. cbn [other_of_rb o_rbf o_steps]. split.
  - apply sn_mono. apply rb_steps_ok_wf. exact Hok.
  - apply rb_steps_exact. exact Hok.
Qed.

Lemma other_of_ab_ok : forall ab C D, wf_ab ab -> steps_exact_class ab -> 1 <= C ->
  mono (o_rbf (other_of_ab (ab, C, D))) /\
  steps_exact (o_rbf (other_of_ab (ab, C, D))) (o_steps (other_of_ab (ab, C, D))).
Proof.
  intros ab C D Hwf Hc HC. cbn [other_of_ab o_rbf o_steps]. split.
  - apply scaled_mono. apply na_mono'. exact Hwf.
  - apply scaled_steps; [exact HC|]. apply ab_steps_exact; assumption.
Qed.

Lemma others_rb_ok : forall (others : list (RB * N * N)),
  Forall (fun o => rb_steps_ok (fst (fst o))) others ->
  forall o, In o (map other_of_rb others) -> mono (o_rbf o) /\ steps_exact (o_rbf o) (o_steps o).
Proof.
  intros others Hall o Ho. apply in_map_iff in Ho. destruct Ho as [[[rb D] seg] [<- Hin]].
  rewrite Forall_forall in Hall. specialize (Hall _ Hin). cbn [fst] in Hall.
  apply other_of_rb_ok. exact Hall.
Qed.

Lemma others_rb_triples : forall (others : list (RB * N * N)),
  map other_triple (map other_of_rb others)
  = map (fun o => (sn (fst (fst o)), snd (fst o), snd o)) others.
Proof.
  intros others. rewrite map_map. apply map_ext. intros [[rb D] seg]. reflexivity.
Qed.

Theorem e_edf_fp_exhaustive : forall dbg tua D others limit, rb_steps_ok tua -> 0 < sn tua 1 ->
  Forall (fun o => rb_steps_ok (fst o)) others ->
  e_edf_fp dbg tua D others limit = exh_edf false 0 (sn tua) D (map (fun o => (sn (fst o), snd o, 0)) others) limit.
Proof.
  intros dbg tua D others limit Hok Hpos Hall. unfold e_edf_fp.
  pose proof (rb_steps_ok_wf tua Hok) as Hwf.
  replace (map (fun o : RB * N => (sn (fst o), snd o, 0)) others)
    with (map other_triple (map (fun x : RB * N => other_of_rb (fst x, snd x, 0)) others)).
  2:{ rewrite map_map. apply map_ext. intros [rb Do]. reflexivity. }
  apply edf_generic_exhaustive.
  - apply sn_mono; exact Hwf.
  - apply rb_steps_exact; exact Hok.
  - apply sn_zero; exact Hwf.
  - exact Hpos.
  - intros d H. lia.
  - intros o Ho. apply in_map_iff in Ho. destruct Ho as [[rb Do] [<- Hin]].
    rewrite Forall_forall in Hall. specialize (Hall _ Hin). cbn [fst snd] in *.
    apply other_of_rb_ok. exact Hall.
Qed.
Print Assumptions e_edf_fp_exhaustive.

Theorem e_edf_fnp_exhaustive : forall dbg tua D (others : list (RB * N * N)) limit, rb_steps_ok tua -> 0 < sn tua 1 ->
  Forall (fun o => rb_steps_ok (fst (fst o))) others ->
  e_edf_fnp dbg tua D others limit = exh_edf true 0 (sn tua) D (map (fun o => (sn (fst (fst o)), snd (fst o), snd o)) others) limit.
Proof.
  intros dbg tua D others limit Hok Hpos Hall. unfold e_edf_fnp.
  pose proof (rb_steps_ok_wf tua Hok) as Hwf.
  rewrite <- others_rb_triples.
  apply edf_generic_exhaustive.
  - apply sn_mono; exact Hwf.
  - apply rb_steps_exact; exact Hok.
  - apply sn_zero; exact Hwf.
  - exact Hpos.
  - intros d H. lia.
  - apply others_rb_ok. exact Hall.
Qed.
Print Assumptions e_edf_fnp_exhaustive.

Theorem e_edf_np_exhaustive : forall dbg ab C D (others : list (AB * N * N)) limit,
  wf_ab ab -> steps_exact_class ab -> 0 < na ab 1 -> 1 <= C ->
  Forall (fun o => wf_ab (fst (fst o)) /\ steps_exact_class (fst (fst o)) /\ 1 <= snd (fst o)) others ->
  e_edf_np dbg ab C D others limit =
  exh_edf true (C - 1) (fun d => C * na ab d) D (map (fun o => ((fun d => snd (fst o) * na (fst (fst o)) d), snd o, snd (fst o))) others) limit.
Proof.
  intros dbg ab C D others limit Hwf Hc Hpos HC Hall. unfold e_edf_np.
  replace (1 <=? C) with true by (symmetry; apply N.leb_le; exact HC).
  replace (map (fun o : AB * N * N => (fun d => snd (fst o) * na (fst (fst o)) d, snd o, snd (fst o))) others)
    with (map other_triple (map other_of_ab others)).
  2:{ rewrite map_map. apply map_ext. intros [[a Co] Do]. reflexivity. }
  apply edf_scalar_exhaustive.
  - apply na_mono'; exact Hwf.
  - apply na_zero; exact Hwf.
  - exact Hpos.
  - apply ab_steps_exact; assumption.
  - intros o Ho. apply in_map_iff in Ho. destruct Ho as [[[a Co] Do] [<- Hin]].
    rewrite Forall_forall in Hall. specialize (Hall _ Hin). cbn [fst snd] in Hall.
    destruct Hall as [H1 [H2 H3]]. apply other_of_ab_ok; assumption.
  - exact HC.
  - lia.
Qed.
Print Assumptions e_edf_np_exhaustive.

Theorem e_edf_lp_exhaustive : forall dbg ab C D last (others : list (RB * N * N)) limit,
  wf_ab ab -> steps_exact_class ab -> 0 < na ab 1 -> 1 <= last -> last <= C ->
  Forall (fun o => rb_steps_ok (fst (fst o))) others ->
  e_edf_lp dbg ab C D last others limit =
  exh_edf true (last - 1) (fun d => C * na ab d) D (map (fun o => (sn (fst (fst o)), snd (fst o), snd o)) others) limit.
Proof.
  intros dbg ab C D last others limit Hwf Hc Hpos Hl HC Hall. unfold e_edf_lp.
  replace ((1 <=? last) && (last - 1 <=? C)) with true.
  2:{ symmetry. apply andb_true_iff. split; apply N.leb_le; lia. }
  rewrite <- others_rb_triples.
  apply edf_scalar_exhaustive.
  - apply na_mono'; exact Hwf.
  - apply na_zero; exact Hwf.
  - exact Hpos.
  - apply ab_steps_exact; assumption.
  - apply others_rb_ok. exact Hall.
  - lia.
  - lia.
Qed.
Print Assumptions e_edf_lp_exhaustive.

(* ------------------------------------------------------------------------------------------ *)
(* 4. C20: on well-formed inputs no analysis panics, in either build profile, whatever the limit *)
(* ------------------------------------------------------------------------------------------ *)

Lemma exhaustive_not_panic : forall limit bw rhs bound, exhaustive limit bw rhs bound <> RPanic.
Proof.
  intros limit bw rhs bound. unfold exhaustive.
  destruct (least_fix limit bw); [|discriminate].
  cbv zeta. destruct (existsb _ _); discriminate.
Qed.

Lemma exh_fp_not_panic : forall B rem tua hp limit, exh_fp B rem tua hp limit <> RPanic.
Proof. intros. apply exhaustive_not_panic. Qed.

Lemma exh_edf_not_panic : forall ub rem tua D others limit, exh_edf ub rem tua D others limit <> RPanic.
Proof. intros. apply exhaustive_not_panic. Qed.

Lemma exh_fifo_not_panic : forall total limit, exh_fifo total limit <> RPanic.
Proof. intros total limit. unfold exh_fifo. destruct (least_fix limit total); discriminate. Qed.

Theorem e_dedicated_no_panic : forall dbg limit,
  (forall tua hp, rb_steps_ok tua -> Forall wf_rb hp -> 0 < sn tua 1 -> e_fp_fp dbg tua hp limit <> RPanic) /\
  (forall tua B hp, rb_steps_ok tua -> Forall wf_rb hp -> 0 < sn tua 1 -> e_fp_fnp dbg tua B hp limit <> RPanic) /\
  (forall ab C B hp, wf_ab ab -> steps_exact_class ab -> Forall wf_rb hp -> 0 < na ab 1 -> 1 <= C -> e_fp_np dbg ab C B hp limit <> RPanic) /\
  (forall ab C last B hp, wf_ab ab -> steps_exact_class ab -> Forall wf_rb hp -> 0 < na ab 1 -> 1 <= last -> last <= C -> e_fp_lp dbg ab C last B hp limit <> RPanic) /\
  (forall rb, rb_steps_ok rb -> 0 < sn rb 1 -> e_fifo dbg rb limit <> RPanic).
Proof.
  intros dbg limit. repeat split.
  - intros tua hp H1 H2 H3. rewrite e_fp_fp_exhaustive by assumption. apply exh_fp_not_panic.
  - intros tua B hp H1 H2 H3. rewrite e_fp_fnp_exhaustive by assumption. apply exh_fp_not_panic.
  - intros ab C B hp H1 H2 H3 H4 H5. rewrite e_fp_np_exhaustive by assumption. apply exh_fp_not_panic.
  - intros ab C last B hp H1 H2 H3 H4 H5 H6. rewrite e_fp_lp_exhaustive by assumption. apply exh_fp_not_panic.
  - intros rb H1 H2. rewrite e_fifo_exhaustive by assumption. apply exh_fifo_not_panic.
Qed.
Print Assumptions e_dedicated_no_panic.

(* the four EDF entry points.  Since the subtraction self_interference - rem_cost of the NP- and LP-EDF analyses
   saturates (edf_rta has no panic test any more), monotone request bounds suffice (edf_generic_total): the task
   under analysis need not be able to release a job (arrival::Never, sparse ApproximatedPoisson), and neither the
   step class of C11 nor positive costs of the other tasks are needed *)
Theorem e_edf_fp_total : forall dbg tua D others limit, wf_rb tua ->
  Forall (fun o : RB * N => wf_rb (fst o)) others ->
  e_edf_fp dbg tua D others limit <> RPanic /\
  e_edf_fp dbg tua D others limit = e_edf_fp (negb dbg) tua D others limit.
Proof.
  intros dbg tua D others limit Hwf Hall. unfold e_edf_fp. apply edf_generic_total.
  - apply sn_mono; exact Hwf.
  - intros o Ho. apply in_map_iff in Ho. destruct Ho as [[rb Do] [<- Hin]].
    rewrite Forall_forall in Hall. specialize (Hall _ Hin). cbn [fst snd other_of_rb o_rbf] in *.
    apply sn_mono; exact Hall.
Qed.
Print Assumptions e_edf_fp_total.

Lemma others_rb_mono : forall (others : list (RB * N * N)),
  Forall (fun o => wf_rb (fst (fst o))) others ->
  forall o, In o (map other_of_rb others) -> mono (o_rbf o).
Proof.
  intros others Hall o Ho. apply in_map_iff in Ho. destruct Ho as [[[rb D] seg] [<- Hin]].
  rewrite Forall_forall in Hall. specialize (Hall _ Hin). cbn [fst other_of_rb o_rbf] in *.
  apply sn_mono. exact Hall.
Qed.

Theorem e_edf_fnp_total : forall dbg tua D (others : list (RB * N * N)) limit, wf_rb tua ->
  Forall (fun o => wf_rb (fst (fst o))) others ->
  e_edf_fnp dbg tua D others limit <> RPanic /\
  e_edf_fnp dbg tua D others limit = e_edf_fnp (negb dbg) tua D others limit.
Proof.
  intros dbg tua D others limit Hwf Hall. unfold e_edf_fnp. apply edf_generic_total.
  - apply sn_mono; exact Hwf.
  - apply others_rb_mono. exact Hall.
Qed.
Print Assumptions e_edf_fnp_total.

Theorem e_edf_np_total : forall dbg ab C D (others : list (AB * N * N)) limit, wf_ab ab -> 1 <= C ->
  Forall (fun o => wf_ab (fst (fst o))) others ->
  e_edf_np dbg ab C D others limit <> RPanic /\
  e_edf_np dbg ab C D others limit = e_edf_np (negb dbg) ab C D others limit.
Proof.
  intros dbg ab C D others limit Hwf HC Hall. unfold e_edf_np.
  replace (1 <=? C) with true by (symmetry; apply N.leb_le; exact HC).
  apply edf_generic_total.
  - apply scaled_mono. apply na_mono'; exact Hwf.
  - intros o Ho. apply in_map_iff in Ho. destruct Ho as [[[a Co] Do] [<- Hin]].
    rewrite Forall_forall in Hall. specialize (Hall _ Hin). cbn [fst snd other_of_ab o_rbf] in *.
    apply scaled_mono. apply na_mono'; exact Hall.
Qed.
Print Assumptions e_edf_np_total.

Theorem e_edf_lp_total : forall dbg ab C D last (others : list (RB * N * N)) limit, wf_ab ab ->
  1 <= last -> last <= C -> Forall (fun o => wf_rb (fst (fst o))) others ->
  e_edf_lp dbg ab C D last others limit <> RPanic /\
  e_edf_lp dbg ab C D last others limit = e_edf_lp (negb dbg) ab C D last others limit.
Proof.
  intros dbg ab C D last others limit Hwf Hl HC Hall. unfold e_edf_lp.
  replace ((1 <=? last) && (last - 1 <=? C)) with true.
  2:{ symmetry. apply andb_true_iff. split; apply N.leb_le; lia. }
  apply edf_generic_total.
  - apply scaled_mono. apply na_mono'; exact Hwf.
  - apply others_rb_mono. exact Hall.
Qed.
Print Assumptions e_edf_lp_total.

Lemma Forall_rb_steps_ok_wf : forall (others : list (RB * N * N)),
  Forall (fun o => rb_steps_ok (fst (fst o))) others -> Forall (fun o => wf_rb (fst (fst o))) others.
Proof.
  intros others H. apply Forall_forall. intros o Ho. rewrite Forall_forall in H.
  apply rb_steps_ok_wf. exact (H o Ho).
Qed.

Lemma Forall_rb_steps_ok_wf2 : forall (others : list (RB * N)),
  Forall (fun o => rb_steps_ok (fst o)) others -> Forall (fun o => wf_rb (fst o)) others.
Proof.
  intros others H. apply Forall_forall. intros o Ho. rewrite Forall_forall in H.
  apply rb_steps_ok_wf. exact (H o Ho).
Qed.

Lemma Forall_ab_wf : forall (others : list (AB * N * N)),
  Forall (fun o => wf_ab (fst (fst o)) /\ steps_exact_class (fst (fst o)) /\ 1 <= snd (fst o)) others ->
  Forall (fun o => wf_ab (fst (fst o))) others.
Proof.
  intros others H. apply Forall_forall. intros o Ho. rewrite Forall_forall in H.
  exact (proj1 (H o Ho)).
Qed.

(* the statement of earlier revisions, minus the hypotheses [0 < sn tua 1] / [0 < na ab 1] that the task under
   analysis can release a job: for NP- and LP-EDF the hypothesis was needed (self_interference - rem_cost used to
   underflow without it, finding C20-edf-never-tua), for EDF-FP and floating NP-EDF it was an artefact of the
   proof through the exhaustive evaluator *)
Theorem e_edf_no_panic : forall dbg limit,
  (forall tua D others, rb_steps_ok tua ->
     Forall (fun o : RB * N => rb_steps_ok (fst o)) others -> e_edf_fp dbg tua D others limit <> RPanic) /\
  (forall tua D (others : list (RB * N * N)), rb_steps_ok tua ->
     Forall (fun o => rb_steps_ok (fst (fst o))) others -> e_edf_fnp dbg tua D others limit <> RPanic) /\
  (forall ab C D (others : list (AB * N * N)), wf_ab ab -> steps_exact_class ab -> 1 <= C ->
     Forall (fun o => wf_ab (fst (fst o)) /\ steps_exact_class (fst (fst o)) /\ 1 <= snd (fst o)) others ->
     e_edf_np dbg ab C D others limit <> RPanic) /\
  (forall ab C D last (others : list (RB * N * N)), wf_ab ab -> steps_exact_class ab ->
     1 <= last -> last <= C -> Forall (fun o => rb_steps_ok (fst (fst o))) others ->
     e_edf_lp dbg ab C D last others limit <> RPanic).
Proof.
  intros dbg limit. repeat split.
  - intros tua D others H1 H3. apply e_edf_fp_total; [apply rb_steps_ok_wf; exact H1|apply Forall_rb_steps_ok_wf2; exact H3].
  - intros tua D others H1 H3. apply e_edf_fnp_total; [apply rb_steps_ok_wf; exact H1|apply Forall_rb_steps_ok_wf; exact H3].
  - intros ab C D others H1 _ H4 H5. apply e_edf_np_total; [exact H1|exact H4|apply Forall_ab_wf; exact H5].
  - intros ab C D last others H1 _ H4 H5 H6. apply e_edf_lp_total; [exact H1|exact H4|exact H5|apply Forall_rb_steps_ok_wf; exact H6].
Qed.
Print Assumptions e_edf_no_panic.

(* ------------------------------------------------------------------------------------------ *)
(* 5. the results do not depend on the build profile                                           *)
(* ------------------------------------------------------------------------------------------ *)

Theorem e_dedicated_profile_independent : forall limit tua hp, rb_steps_ok tua -> Forall wf_rb hp -> 0 < sn tua 1 ->
  e_fp_fp true tua hp limit = e_fp_fp false tua hp limit.
Proof. intros limit tua hp H1 H2 H3. rewrite !e_fp_fp_exhaustive by assumption. reflexivity. Qed.
Print Assumptions e_dedicated_profile_independent.

Theorem e_fp_fnp_profile_independent : forall limit tua B hp, rb_steps_ok tua -> Forall wf_rb hp -> 0 < sn tua 1 ->
  e_fp_fnp true tua B hp limit = e_fp_fnp false tua B hp limit.
Proof. intros limit tua B hp H1 H2 H3. rewrite !e_fp_fnp_exhaustive by assumption. reflexivity. Qed.
Print Assumptions e_fp_fnp_profile_independent.

Theorem e_fp_np_profile_independent : forall limit ab C B hp,
  wf_ab ab -> steps_exact_class ab -> Forall wf_rb hp -> 0 < na ab 1 -> 1 <= C ->
  e_fp_np true ab C B hp limit = e_fp_np false ab C B hp limit.
Proof. intros limit ab C B hp H1 H2 H3 H4 H5. rewrite !e_fp_np_exhaustive by assumption. reflexivity. Qed.
Print Assumptions e_fp_np_profile_independent.

Theorem e_fp_lp_profile_independent : forall limit ab C last B hp,
  wf_ab ab -> steps_exact_class ab -> Forall wf_rb hp -> 0 < na ab 1 -> 1 <= last -> last <= C ->
  e_fp_lp true ab C last B hp limit = e_fp_lp false ab C last B hp limit.
Proof. intros limit ab C last B hp H1 H2 H3 H4 H5 H6. rewrite !e_fp_lp_exhaustive by assumption. reflexivity. Qed.
Print Assumptions e_fp_lp_profile_independent.

Theorem e_fifo_profile_independent : forall limit rb, rb_steps_ok rb -> 0 < sn rb 1 ->
  e_fifo true rb limit = e_fifo false rb limit.
Proof. intros limit rb H1 H2. rewrite !e_fifo_exhaustive by assumption. reflexivity. Qed.
Print Assumptions e_fifo_profile_independent.

Theorem e_edf_fp_profile_independent : forall limit tua D others, rb_steps_ok tua ->
  Forall (fun o : RB * N => rb_steps_ok (fst o)) others ->
  e_edf_fp true tua D others limit = e_edf_fp false tua D others limit.
Proof.
  intros limit tua D others H1 H3.
  apply (e_edf_fp_total true); [apply rb_steps_ok_wf; exact H1|apply Forall_rb_steps_ok_wf2; exact H3].
Qed.
Print Assumptions e_edf_fp_profile_independent.

Theorem e_edf_fnp_profile_independent : forall limit tua D (others : list (RB * N * N)),
  rb_steps_ok tua -> Forall (fun o => rb_steps_ok (fst (fst o))) others ->
  e_edf_fnp true tua D others limit = e_edf_fnp false tua D others limit.
Proof.
  intros limit tua D others H1 H3.
  apply (e_edf_fnp_total true); [apply rb_steps_ok_wf; exact H1|apply Forall_rb_steps_ok_wf; exact H3].
Qed.
Print Assumptions e_edf_fnp_profile_independent.

Theorem e_edf_np_profile_independent : forall limit ab C D (others : list (AB * N * N)),
  wf_ab ab -> steps_exact_class ab -> 1 <= C ->
  Forall (fun o => wf_ab (fst (fst o)) /\ steps_exact_class (fst (fst o)) /\ 1 <= snd (fst o)) others ->
  e_edf_np true ab C D others limit = e_edf_np false ab C D others limit.
Proof.
  intros limit ab C D others H1 _ H4 H5.
  apply (e_edf_np_total true); [exact H1|exact H4|apply Forall_ab_wf; exact H5].
Qed.
Print Assumptions e_edf_np_profile_independent.

Theorem e_edf_lp_profile_independent : forall limit ab C D last (others : list (RB * N * N)),
  wf_ab ab -> steps_exact_class ab -> 1 <= last -> last <= C ->
  Forall (fun o => rb_steps_ok (fst (fst o))) others ->
  e_edf_lp true ab C D last others limit = e_edf_lp false ab C D last others limit.
Proof.
  intros limit ab C D last others H1 _ H4 H5 H6.
  apply (e_edf_lp_total true); [exact H1|exact H4|exact H5|apply Forall_rb_steps_ok_wf; exact H6].
Qed.
Print Assumptions e_edf_lp_profile_independent.

(* ------------------------------------------------------------------------------------------ *)
(* 6. concrete instances: the hypotheses are satisfiable                                        *)
(* ------------------------------------------------------------------------------------------ *)

(* NP-EDF: task under analysis Sporadic(T = 10, J = 2) with WCET 2 and deadline 15; one other task
   Sporadic(T = 15, J = 3) with WCET 4 and deadline 20; divergence limit 200 *)
Example edf_np_instance_hyps :
  wf_ab (Sporadic 10 2) /\ steps_exact_class (Sporadic 10 2) /\ 0 < na (Sporadic 10 2) 1 /\ 1 <= 2 /\
  Forall (fun o : AB * N * N => wf_ab (fst (fst o)) /\ steps_exact_class (fst (fst o)) /\ 1 <= snd (fst o))
         [(Sporadic 15 3, 4, 20)].
Proof.
  split; [cbn; lia|]. split; [exact I|]. split; [vm_compute; reflexivity|]. split; [lia|].
  constructor; [|constructor]. cbn [fst snd]. split; [cbn; lia|]. split; [exact I | lia].
Qed.

Example edf_np_instance_lhs : forall dbg,
  e_edf_np dbg (Sporadic 10 2) 2 15 [(Sporadic 15 3, 4, 20)] 200 = ROk 5.
Proof. intros [|]; vm_compute; reflexivity. Qed.

Example edf_np_instance_rhs :
  exh_edf true (2 - 1) (fun d => 2 * na (Sporadic 10 2) d) 15
    (map (fun o : AB * N * N => ((fun d => snd (fst o) * na (fst (fst o)) d), snd o, snd (fst o))) [(Sporadic 15 3, 4, 20)]) 200
  = ROk 5.
Proof. vm_compute. reflexivity. Qed.

(* the instance of the theorem itself *)
Example edf_np_instance : forall dbg,
  e_edf_np dbg (Sporadic 10 2) 2 15 [(Sporadic 15 3, 4, 20)] 200 =
  exh_edf true (2 - 1) (fun d => 2 * na (Sporadic 10 2) d) 15
    (map (fun o : AB * N * N => ((fun d => snd (fst o) * na (fst (fst o)) d), snd o, snd (fst o))) [(Sporadic 15 3, 4, 20)]) 200.
Proof.
  intros dbg. destruct edf_np_instance_hyps as (H1 & H2 & H3 & H4 & H5).
  apply e_edf_np_exhaustive; assumption.
Qed.
Print Assumptions edf_np_instance.

(* a request-bound instance (aggregate with a multiframe cost model) for FP-FP and FIFO *)
Example fp_fp_instance_hyps :
  rb_steps_ok (Agg [RBF (Periodic 9) (Scalar 1); RBF (Sporadic 11 3) (Multiframe [2; 1])]) /\
  Forall wf_rb [RBF (Periodic 20) (Scalar 3)] /\
  0 < sn (Agg [RBF (Periodic 9) (Scalar 1); RBF (Sporadic 11 3) (Multiframe [2; 1])]) 1.
Proof.
  split; [|split].
  - cbn. repeat split; try lia; try discriminate. repeat constructor; lia.
  - constructor; [|constructor]. cbn. split; [lia | exact I].
  - vm_compute. reflexivity.
Qed.

Example fp_fp_instance : forall dbg,
  e_fp_fp dbg (Agg [RBF (Periodic 9) (Scalar 1); RBF (Sporadic 11 3) (Multiframe [2; 1])]) [RBF (Periodic 20) (Scalar 3)] 200
  = exh_fp 0 0 (sn (Agg [RBF (Periodic 9) (Scalar 1); RBF (Sporadic 11 3) (Multiframe [2; 1])])) (sum_sn [RBF (Periodic 20) (Scalar 3)]) 200.
Proof. intros dbg. destruct fp_fp_instance_hyps as (H1 & H2 & H3). apply e_fp_fp_exhaustive; assumption. Qed.

(* ------------------------------------------------------------------------------------------ *)
(* 7. regression: finding C20-edf-never-tua                                                    *)
(* ------------------------------------------------------------------------------------------ *)

(* (edf_np ((never) 9 93) (((periodic 30) 12 17)) 200): the task under analysis never arrives, the search space
   consists of the offsets stemming from the other task's steps (here A = 0), where self_interference = 0 <
   rem_cost = 8.  Before the repair (self_interference - rem_cost, checked): panic in the debug build; the release
   build wrapped around twice (rhs = 0 + (2^64 - 8) + 12 = 4 mod 2^64, AF = 4) and returned Ok(4 + 8) = Ok(12).
   With saturating_sub: rhs = 0 + 0 + 12, AF = 12, Ok(12 + 8) = Ok(20) in both profiles (value confirmed by running
   both builds of the crate with the one-line repair applied) *)
Theorem edf_np_never_tua_repaired : forall dbg,
  e_edf_np dbg Never 9 93 [(Periodic 30, 12, 17)] 200 = ROk 20.
Proof. intros [|]; vm_compute; reflexivity. Qed.
Print Assumptions edf_np_never_tua_repaired.

(* (edf_lp ((never) 9 93 4) (((rbf (periodic 30) (scalar 12)) 17 3)) 200): rem_cost = 3; before the repair panic /
   Ok(12) (wrap-around); repaired: AF = 12, Ok(12 + 3) = Ok(15) in both profiles *)
Theorem edf_lp_never_tua_repaired : forall dbg,
  e_edf_lp dbg Never 9 93 4 [(RBF (Periodic 30) (Scalar 12), 17, 3)] 200 = ROk 15.
Proof. intros [|]; vm_compute; reflexivity. Qed.
Print Assumptions edf_lp_never_tua_repaired.

(* the witnesses are instances of e_edf_np_total / e_edf_lp_total: their hypotheses hold *)
Example edf_np_never_tua_hyps :
  wf_ab Never /\ 1 <= 9 /\ Forall (fun o : AB * N * N => wf_ab (fst (fst o))) [(Periodic 30, 12, 17)].
Proof. split; [exact I|]. split; [lia|]. constructor; [cbn; lia|constructor]. Qed.

Example edf_lp_never_tua_hyps :
  wf_ab Never /\ 1 <= 4 /\ 4 <= 9 /\
  Forall (fun o : RB * N * N => wf_rb (fst (fst o))) [(RBF (Periodic 30) (Scalar 12), 17, 3)].
Proof. split; [exact I|]. split; [lia|]. split; [lia|]. constructor; [cbn; split; [lia|exact I]|constructor]. Qed.
