(* EsSound.v — property C04 (event-source part): soundness of the ROS 2 event-source analysis
   [rta_event_source] (Lemma 1 of the ECRTS'19 paper; Model/Ros2.v, entry point [e_es] of
   Model/Eval.v) for a FIFO-served workload on a processor that is only available while a periodic /
   deadline-constrained reservation supplies service.

   If the model returns [ROk R], then for every legal placement of the reservation's budget
   ([supply_admits]), every job set that complies with the tasks' arrival curves and WCETs and every
   FIFO schedule that only uses supplied slots and is work-conserving relative to the supply, every
   job completes within R time units of its release.

   Part 1  [fifo_under_supply_bound]: the busy-window argument on schedules with an abstract supply
           (the supply-aware generalisation of FifoSound.v).
   Part 2  [supply_admits_sbf] (no legal budget placement delivers less than the model's
           supply-bound function in any window) and [event_source_sound] (end to end), via
           [event_source_exhaustive] (ExhRos.v), [total_workload_bounded] (Workload.v).
   Part 3  non-vacuity: a periodic reservation (Q = 2, P = 5), one sporadic task, a concrete
           reservation schedule, job set and FIFO schedule satisfying every hypothesis; the bound
           the analysis returns (12) is attained by another legal placement of the budget. *)
From Coq Require Import Arith NArith List Lia Bool.
From RTA.Model Require Import Base Arrival Wcet Demand Supply FixedPoint Analyses Ros2 Eval WellFormed.
From RTA.Spec Require Import Sched Events TaskModel Reservation SupplySched Exhaustive ExhaustiveRos.
From RTA.Proofs Require Import ArrivalNaProofs WcetProofs StepsProofs FixedPointProofs SupplyProofs
  ReservationProofs ExhFP ExhRos FifoSound Workload FifoEndToEnd EntryPoints.
Import ListNotations.
Local Close Scope N_scope.
Local Open Scope nat_scope.

(* ------------------------------------------------------------------------------------------ *)
(* Part 1: the busy-window argument under an abstract supply                                   *)
(* ------------------------------------------------------------------------------------------ *)

(* service delivered to the jobs satisfying P: one more slot *)
Lemma svcP_S : forall jobs sched P t1 d,
  svcP jobs sched P t1 (S d) =
  svcP jobs sched P t1 d + sumn (length jobs) (fun j => if P j then runs sched j (t1 + d) else 0).
Proof.
  intros jobs sched P t1 d. unfold svcP. rewrite <- sumn_add. apply sumn_ext.
  intros j _. destruct (P j); [|reflexivity]. reflexivity.
Qed.

(* a slot in which a job satisfying P runs contributes one unit *)
Lemma busyP_slot : forall jobs sched P t, valid jobs sched -> busyP sched P t ->
  sumn (length jobs) (fun j => if P j then runs sched j t else 0) = 1.
Proof.
  intros jobs sched P t Hvalid [k [Ek Pk]].
  rewrite <- (sumn_ext (length jobs) (fun j => runs sched j t)).
  - rewrite (runs_total jobs sched Hvalid), Ek. reflexivity.
  - intros j _. unfold runs. rewrite Ek.
    destruct (Nat.eqb_spec k j) as [<-|]; [rewrite Pk|destruct (P j)]; reflexivity.
Qed.

(* if in every supplied slot of [t1, t1 + d) a job satisfying P runs, these jobs receive all the
   service supplied in the window *)
Lemma svcP_supplied : forall jobs sched (sigma : rsched) P t1 d, valid jobs sched ->
  (forall i, i < d -> sigma (t1 + i) = true -> busyP sched P (t1 + i)) ->
  supplied sigma t1 d <= svcP jobs sched P t1 d.
Proof.
  intros jobs sched sigma P t1 d Hvalid. induction d as [|d IH]; intros H.
  - cbn [supplied]. lia.
  - cbn [supplied]. rewrite svcP_S.
    assert (IH' := IH (fun i Hi => H i (Nat.lt_lt_succ_r _ _ Hi))).
    destruct (sigma (t1 + d)) eqn:E; [|lia].
    rewrite (busyP_slot jobs sched P (t1 + d) Hvalid (H d (Nat.lt_succ_diag_r d) E)). lia.
Qed.

Section FifoUnderSupply.
  Variable jobs : list job.
  Variable sched : nat -> option nat.
  Variable sigma : rsched.
  Notation n := (length jobs).
  Notation arr := (arr jobs).
  Notation cost := (cost jobs).
  Notation service := (service sched).
  Notation pending := (pending jobs sched).

  Hypothesis Hvalid : valid jobs sched.
  Hypothesis Huses : uses_supply sched sigma.
  Hypothesis Hwc : work_conserving_under jobs sched sigma.
  Hypothesis Hfifo : forall t j j', sched t = Some j -> pending j' t -> arr j <= arr j'.

  (* total request-bound function *)
  Variable rbf : nat -> nat.
  Hypothesis Hrbf : forall t1 d,
    workP jobs (fun k => (t1 <=? arr k) && (arr k <? t1 + d)) <= rbf d.

  (* supply-bound function: a lower bound on the service supplied in ANY window *)
  Variable sbf : nat -> nat.
  Hypothesis Hsbf : forall t d, sbf d <= supplied sigma t d.

  (* busy-window bound: the supply catches up with the demand *)
  Variable maxbw : nat.
  Hypothesis Hbw : 0 < maxbw /\ rbf maxbw <= sbf maxbw.

  (* every offset A <= maxbw has some r <= R with sbf (A + r) >= rbf (A + 1) *)
  Variable R : nat.
  Hypothesis HR : forall A, A <= maxbw -> exists r, r <= R /\ rbf (A + 1) <= sbf (A + r).

  Let quiet := quiet jobs sched.
  Let in_win := in_win jobs.

  (* a job of the window that is incomplete contradicts "the jobs of the window received at
     least their whole workload" *)
  Lemma svcP_lt_work : forall P t1 d k, k < n -> P k = true ->
    service k (t1 + d) < cost k + service k t1 -> svcP jobs sched P t1 d < workP jobs P.
  Proof.
    intros P t1 d k Hk Pk Hinc. unfold svcP, workP. apply sumn_lt.
    - intros i Hi. destruct (P i); [|lia].
      assert (H := service_le_cost jobs sched Hvalid i (t1 + d) Hi).
      unfold Sched.service in H. rewrite svc_split in H. rewrite Nat.add_0_l in H. lia.
    - exists k. split; [exact Hk|]. rewrite Pk.
      unfold Sched.service in Hinc. rewrite svc_split in Hinc. rewrite Nat.add_0_l in Hinc.
      assert (H := service_le_cost jobs sched Hvalid k (t1 + d) Hk).
      unfold Sched.service in H. rewrite svc_split in H. rewrite Nat.add_0_l in H. lia.
  Qed.

  (* [uses_supply] is not needed for the bound: running a job in a slot the reservation does not
     supply can only help.  The general form omits it ... *)
  Theorem fifo_under_supply_bound_gen : forall j, j < n -> cost j <= service j (arr j + R).
  Proof.
    intros j Hj. set (a := arr j).
    destruct (last_quiet jobs sched (fun _ => 0) 1 Nat.lt_0_1 (Nat.le_0_l 1) a) as [t1 (Ht1 & Hq & Hnq)].
    fold quiet in Hq, Hnq.
    (* some job is pending throughout [t1, a) *)
    assert (Hbusy_pre : forall t, t1 <= t < a -> exists k, pending k t).
    { intros t Ht. apply (not_quiet_pending jobs sched (fun _ => 0) 1 Nat.lt_0_1 (Nat.le_0_l 1)). apply Hnq. lia. }
    (* jobs released before t1 never run at or after t1 *)
    assert (Hold : forall t k, t1 <= t -> sched t = Some k -> t1 <= arr k).
    { intros t k Ht Ek. destruct (Nat.le_gt_cases t1 (arr k)) as [|Hlt]; [assumption|].
      destruct (Hvalid _ _ Ek) as (Hk & _ & Hs). specialize (Hq k Hk Hlt).
      assert (service k t1 <= service k t) by (apply service_mono; lia). lia. }
    (* Step 1: the busy window is shorter than maxbw *)
    destruct Hbw as [Hbw0 Hbw1].
    assert (HA : a - t1 < maxbw).
    { destruct (Nat.lt_ge_cases (a - t1) maxbw) as [|Hge]; [assumption|]. exfalso.
      apply (Hnq (t1 + maxbw)); [lia|].
      set (P := in_win t1 maxbw).
      assert (Hb : forall i, i < maxbw -> sigma (t1 + i) = true -> busyP sched P (t1 + i)).
      { intros i Hi Hsig. destruct (Hbusy_pre (t1 + i)) as [k Hk]; [lia|].
        destruct (sched (t1 + i)) as [k'|] eqn:E; [|exfalso; eapply Hwc; eauto].
        exists k'. split; [exact E|]. unfold P, in_win, FifoSound.in_win.
        destruct (Hvalid _ _ E) as (_ & Ha' & _).
        assert (t1 <= arr k') by (eapply Hold; [|exact E]; lia).
        apply andb_true_iff. split; [apply Nat.leb_le|apply Nat.ltb_lt]; lia. }
      assert (Hs := svcP_supplied jobs sched sigma P t1 maxbw Hvalid Hb).
      assert (Hr := Hrbf t1 maxbw). change (workP jobs P <= rbf maxbw) in Hr.
      assert (Hsb := Hsbf t1 maxbw).
      intros k Hk Hak. destruct (Nat.lt_ge_cases (arr k) t1) as [Hlt|Hge'].
      { specialize (Hq k Hk Hlt).
        assert (service k t1 <= service k (t1 + maxbw)) by (apply service_mono; lia). lia. }
      destruct (Nat.le_gt_cases (cost k) (service k (t1 + maxbw))) as [|Hinc]; [assumption|]. exfalso.
      assert (svcP jobs sched P t1 maxbw < workP jobs P); [|lia].
      apply (svcP_lt_work P t1 maxbw k Hk); [|lia].
      unfold P, in_win, FifoSound.in_win.
      apply andb_true_iff. split; [apply Nat.leb_le|apply Nat.ltb_lt]; lia. }
    (* Step 2: j completes by t1 + A + r *)
    set (A := a - t1) in *.
    destruct (HR A ltac:(lia)) as (r & Hr & Hsol).
    set (x := A + r).
    assert (Hx : t1 + x <= a + R) by (unfold x, A; lia).
    apply Nat.le_trans with (service j (t1 + x)); [|apply service_mono; unfold a in Hx; lia].
    destruct (Nat.le_gt_cases (cost j) (service j (t1 + x))) as [|Hinc]; [assumption|]. exfalso.
    set (P := in_win t1 (A + 1)).
    assert (Pj : P j = true).
    { unfold P, in_win, FifoSound.in_win.
      apply andb_true_iff. split; [apply Nat.leb_le|apply Nat.ltb_lt]; unfold A; fold a; lia. }
    assert (Hb : forall i, i < x -> sigma (t1 + i) = true -> busyP sched P (t1 + i)).
    { intros i Hi Hsig.
      assert (Hjp : a <= t1 + i -> pending j (t1 + i)).
      { intros Hge. split; [exact Hj|]. split; [fold a; lia|].
        assert (service j (t1 + i) <= service j (t1 + x)) by (apply service_mono; lia). lia. }
      assert (Hp : exists k, pending k (t1 + i)).
      { destruct (Nat.lt_ge_cases (t1 + i) a) as [Hlt|Hge]; [apply Hbusy_pre; lia|].
        exists j. apply Hjp. exact Hge. }
      destruct Hp as [k Hk].
      destruct (sched (t1 + i)) as [k'|] eqn:E; [|exfalso; eapply Hwc; eauto].
      exists k'. split; [exact E|]. unfold P, in_win, FifoSound.in_win.
      destruct (Hvalid _ _ E) as (_ & Ha' & _).
      assert (t1 <= arr k') by (eapply Hold; [|exact E]; lia).
      assert (arr k' <= a).
      { destruct (Nat.lt_ge_cases (t1 + i) a) as [Hlt|Hge]; [lia|]. fold a.
        apply (Hfifo (t1 + i) k' j E). apply Hjp. exact Hge. }
      apply andb_true_iff. split; [apply Nat.leb_le|apply Nat.ltb_lt]; unfold A; lia. }
    assert (Hs := svcP_supplied jobs sched sigma P t1 x Hvalid Hb).
    assert (Hrb := Hrbf t1 (A + 1)). change (workP jobs P <= rbf (A + 1)) in Hrb.
    assert (Hsb := Hsbf t1 x). fold x in Hsol.
    assert (svcP jobs sched P t1 x < workP jobs P); [|lia].
    apply (svcP_lt_work P t1 x j Hj Pj). lia.
  Qed.

  (* ... and this is the statement with the full list of hypotheses of the model of computation *)
  Theorem fifo_under_supply_bound : forall j, j < n -> cost j <= service j (arr j + R).
  Proof using All. exact fifo_under_supply_bound_gen. Qed.
End FifoUnderSupply.
Print Assumptions fifo_under_supply_bound_gen.
Print Assumptions fifo_under_supply_bound.

(* ------------------------------------------------------------------------------------------ *)
(* Part 2: end to end for the reservations of the crate                                        *)
(* ------------------------------------------------------------------------------------------ *)
Local Open Scope N_scope.

(* the reservation schedules a supply model admits *)
Definition supply_admits (sb : SB) (sigma : rsched) : Prop :=
  match sb with
  | Dedicated => forall t, sigma t = true
  | PeriodicS Q P => valid_reservation (N.to_nat Q) (N.to_nat P) (N.to_nat P) sigma
  | ConstrainedS Q D P => valid_reservation (N.to_nat Q) (N.to_nat D) (N.to_nat P) sigma
  | _ => False
  end.

(* no reservation schedule the supply model allows delivers less than the model's supply-bound function, in any window *)
Theorem supply_admits_sbf : forall sb sigma, wf_sb sb -> supply_admits sb sigma ->
  forall t d : nat, (N.to_nat (sbf sb (N.of_nat d)) <= supplied sigma t d)%nat.
Proof.
  intros sb sigma Hwf Ha t d.
  destruct sb as [|Q P|Q D P|sb'|tbl]; cbn [supply_admits] in Ha; try contradiction.
  - cbn [sbf]. rewrite Nnat.Nat2N.id. rewrite supplied_all_true; [lia|]. intros u _. apply Ha.
  - destruct Hwf as (HQ & HP). cbn [sbf]. apply periodic_sbf_lower_bound; assumption.
  - destruct Hwf as (HQ & HD & HP). cbn [sbf]. apply constrained_sbf_lower_bound; assumption.
Qed.
Print Assumptions supply_admits_sbf.

Theorem event_source_sound : forall dbg sb (tasks : list task) limit R jobs sched sigma,
  wf_sb sb -> supply_admits sb sigma ->
  Forall fifo_task_ok tasks ->
  e_es dbg sb (Agg (map rb_of tasks)) limit = ROk R ->
  valid jobs sched -> uses_supply sched sigma -> work_conserving_under jobs sched sigma ->
  fifo_policy jobs sched ->
  respects_curves tasks jobs -> respects_costs tasks jobs ->
  forall k, (k < length jobs)%nat -> completes_within jobs sched k (N.to_nat R).
Proof.
  intros dbg sb tasks limit R jobs sched sigma Hwf Hadm Hok He Hv Hus Hwc Hf Hc Hcost k Hk.
  unfold e_es in He.
  assert (Hrb := rb_of_ok tasks Hok).
  assert (Htot : forall d, sn (Agg (map rb_of tasks)) d = total_of tasks d) by (apply sn_total).
  set (rb := Agg (map rb_of tasks)) in *.
  assert (Hwfrb := rb_steps_ok_wf rb Hrb).
  assert (Hmono := sn_mono rb Hwfrb).
  assert (H0 := sn_zero rb Hwfrb).
  assert (Hse := rb_steps_exact rb Hrb).
  assert (Hsok := sbf_wf_ok sb Hwf).
  assert (Hinv := st_wf_exact sb Hwf).
  destruct (N.eq_dec (sn rb 1) 0) as [Hz|Hnz].
  { exfalso. rewrite Htot in Hz. exact (no_arrivals_no_jobs tasks jobs Hok Hz Hc Hcost k Hk). }
  rewrite (event_source_exhaustive (sbf sb) (st sb) Hsok Hinv dbg limit (sn rb) (rb_steps_upto rb)
             Hmono H0 Hse) in He.
  unfold exh_event_source, exh_ecrts in He.
  destruct (least_sol (sbf sb) limit 0 (sn rb)) as [max_bw|] eqn:Ebw; [|discriminate].
  cbv zeta in He.
  set (sols := map (fun A => (A, least_sol (sbf sb) limit A (fun _ => sn rb (A + 1))))
                   (rangeN 0 (max_bw + 1))) in He.
  destruct (find (fun p => is_none (snd p)) sols) as [p|] eqn:Ef; [discriminate|].
  assert (HR : maxN (map (fun p => oval (snd p)) sols) = R) by (injection He as HR'; exact HR').
  apply least_sol_some in Ebw. destruct Ebw as (Hl1 & Hbl & Hsol & _).
  unfold sol in Hsol. rewrite N.add_0_l in Hsol.
  assert (Hbw0 : 0 < max_bw).
  { destruct (N.eq_dec max_bw 0) as [E|E]; [|lia]. exfalso. rewrite E in Hsol.
    destruct Hsok as (Hs0 & _). rewrite Hs0 in Hsol. change (N.max 0 1) with 1 in Hsol. lia. }
  replace (N.max max_bw 1) with max_bw in Hsol by lia.
  unfold completes_within.
  apply (fifo_under_supply_bound jobs sched sigma Hv Hus Hwc Hf
           (fun d => N.to_nat (sn rb (N.of_nat d)))) with
        (sbf := fun d => N.to_nat (sbf sb (N.of_nat d))) (maxbw := N.to_nat max_bw).
  - (* the workload of every window is bounded by the total RBF *)
    intros t1 d.
    assert (H := total_workload_bounded tasks jobs t1 d (wf_nth tasks Hok) Hc Hcost).
    fold (total_of tasks (N.of_nat d)) in H. rewrite <- Htot in H. lia.
  - (* the reservation delivers at least its supply-bound function *)
    intros t d. apply supply_admits_sbf; assumption.
  - rewrite Nnat.N2Nat.id. split; lia.
  - (* every offset up to max_bw has a solution, and it is at most R *)
    intros A HA. set (A' := N.of_nat A).
    assert (Hin : In (A', least_sol (sbf sb) limit A' (fun _ => sn rb (A' + 1))) sols).
    { unfold sols. apply (in_map (fun A => (A, least_sol (sbf sb) limit A (fun _ => sn rb (A + 1))))).
      apply in_rangeN. unfold A'. lia. }
    pose proof (find_none _ _ Ef _ Hin) as Hsome. cbn [snd] in Hsome.
    destruct (least_sol (sbf sb) limit A' (fun _ => sn rb (A' + 1))) as [r|] eqn:Er;
      [|discriminate Hsome].
    assert (Hle : r <= R).
    { rewrite <- HR. apply maxN_ub.
      change r with ((fun p : N * option N => oval (snd p)) (A', Some r)).
      apply in_map. exact Hin. }
    apply least_sol_some in Er. destruct Er as (_ & _ & Hs & _). unfold sol in Hs.
    exists (N.to_nat r). split; [lia|].
    replace (N.of_nat (A + 1)) with (A' + 1) by (unfold A'; lia).
    replace (N.of_nat (A + N.to_nat r)) with (A' + r) by (unfold A'; lia). lia.
  - exact Hk.
Qed.
Print Assumptions event_source_sound.

(* ------------------------------------------------------------------------------------------ *)
(* Part 3: non-vacuity — a periodic reservation with budget 2 every 5, one sporadic task       *)
(* ------------------------------------------------------------------------------------------ *)
Definition es_sb : SB := PeriodicS 2 5.
Definition es_tasks : list task := [(Sporadic 10 0, 3)].

Example es_sb_wf : wf_sb es_sb.
Proof. cbn. lia. Qed.

Example es_tasks_ok : Forall fifo_task_ok es_tasks.
Proof. repeat constructor; cbn; lia. Qed.

Example es_analysis : e_es false es_sb (Agg (map rb_of es_tasks)) 100 = ROk 12.
Proof. vm_compute. reflexivity. Qed.

(* every job of the task completes within 12, whatever legal placement of the budget *)
Corollary es_example_sound : forall jobs sched sigma,
  valid_reservation 2 5 5 sigma ->
  valid jobs sched -> uses_supply sched sigma -> work_conserving_under jobs sched sigma ->
  fifo_policy jobs sched ->
  respects_curves es_tasks jobs -> respects_costs es_tasks jobs ->
  forall k, (k < length jobs)%nat -> completes_within jobs sched k 12.
Proof.
  intros jobs sched sigma Hs Hv Hus Hwc Hf Hc Hcost k Hk.
  exact (event_source_sound false es_sb es_tasks 100 12 jobs sched sigma es_sb_wf Hs es_tasks_ok
           es_analysis Hv Hus Hwc Hf Hc Hcost k Hk).
Qed.
Print Assumptions es_analysis.
Print Assumptions es_example_sound.

(* the hypotheses are jointly satisfiable and the bound 12 is attained: the budget is delivered in
   slots 0, 1 of the first period and as late as possible (slots 3, 4) in every later period
   ([worst_sigma], ReservationProofs.v); one job of cost 3 is released at time 2, just after the
   budget of the first period is gone; it runs in the supplied slots 8, 9 and 13 *)
Section EsWitness.
  Local Open Scope nat_scope.
  Definition es_sigma : rsched := worst_sigma 2 5 5.
  Definition es_jobs : list job := [mkJob 0 2 3].
  Definition es_sched (t : nat) : option nat :=
    if (t =? 8) || (t =? 9) || (t =? 13) then Some 0 else None.

  Lemma es_sigma_valid : valid_reservation 2 5 5 es_sigma.
  Proof. apply worst_sigma_valid; lia. Qed.

  Lemma es_sigma_ok : supply_admits es_sb es_sigma.
  Proof. exact es_sigma_valid. Qed.

  Lemma es_valid : valid es_jobs es_sched.
  Proof.
    intros t j E.
    do 14 (destruct t as [|t];
           [first [ discriminate E
                  | injection E as <-; unfold pending, arr, cost, service, svc, runs; cbn; lia ]|]).
    discriminate E.
  Qed.

  Lemma es_uses_supply : uses_supply es_sched es_sigma.
  Proof.
    intros t k E.
    do 14 (destruct t as [|t]; [first [ discriminate E | reflexivity ]|]).
    discriminate E.
  Qed.

  Lemma es_work_conserving : work_conserving_under es_jobs es_sched es_sigma.
  Proof.
    intros t j (Hj & Ha & Hs) Hsig.
    assert (j = 0) as -> by (cbn in Hj; lia).
    change (arr es_jobs 0) with 2 in Ha. change (cost es_jobs 0) with 3 in Hs.
    do 14 (destruct t as [|t];
           [first [ exfalso; lia
                  | vm_compute in Hsig; discriminate Hsig
                  | cbn; discriminate ]|]).
    exfalso.
    assert (Hm := service_mono es_sched 0 14 (S (S (S (S (S (S (S (S (S (S (S (S (S (S t))))))))))))))
                    ltac:(lia)).
    assert (H14 : service es_sched 0 14 = 3) by reflexivity. lia.
  Qed.

  Lemma es_fifo_policy : fifo_policy es_jobs es_sched.
  Proof.
    intros t k k' E (Hk' & _).
    destruct (es_valid t k E) as (Hk & _).
    assert (k = 0) as -> by (cbn in Hk; lia). assert (k' = 0) as -> by (cbn in Hk'; lia). lia.
  Qed.

  Lemma es_respects_curves : respects_curves es_tasks es_jobs.
  Proof.
    intros i Hi. exists [2]. destruct i as [|i]; [|cbn in Hi; lia].
    split; [apply Permutation.Permutation_refl|].
    change [2] with (zip_add [2] [0]). apply adm_sporadic; cbn; auto.
  Qed.

  Lemma es_respects_costs : respects_costs es_tasks es_jobs.
  Proof. intros j [<-|[]]; cbn; lia. Qed.

  (* so the theorem applies: the job completes within 12 ... *)
  Example es_completes : forall k, k < 1 -> completes_within es_jobs es_sched k 12.
  Proof.
    intros k Hk.
    exact (es_example_sound es_jobs es_sched es_sigma es_sigma_valid es_valid es_uses_supply
             es_work_conserving es_fifo_policy es_respects_curves es_respects_costs k Hk).
  Qed.

  (* ... and not within 11: the bound is tight *)
  Example es_tight : ~ completes_within es_jobs es_sched 0 11.
  Proof. unfold completes_within, cost, arr, service, svc, runs. cbn. lia. Qed.
End EsWitness.
Print Assumptions es_completes.
Print Assumptions es_tight.
