(* ExecutorBridge.v — property C04, the missing link: every run of the OPERATIONAL ROS 2 executor of
   Spec/Executor.v (the machine against which C05 is proved, Proofs/RrSound.v) is a member of the ABSTRACT
   non-preemptive dispatcher class of Spec/NonPreemptive.v against which the ECRTS'19 analyses are proved
   (Proofs/PpSound.v: [pp_sound], [timer_sound]).  Hence the C04 theorems hold for the operational executor.

   DELIVERABLES
   [pp_sound_executor], [timer_sound_executor]: for the operational executor ([run cbs cost_of H arr sigma]) on a
   reservation, under [wf_sb sb], [supply_admits sb sigma], [Forall fifo_task_ok tasks], one task per callback,
   arrivals admissible for the tasks' arrival bounds ([arrivals_ok_t], the [arrivals_ok] of RrSound.v), execution
   times in [1, WCET] ([costs_ok_t]) and [e_pp ... = ROk R] (resp. [e_timer ... B ... = ROk R] with timer i,
   hp i = false, {i} + hp a set of timers closed under the executor's order, every other callback's WCET <= B):
   [executor_meets_bound cbs cost_of arr sigma i R], i.e. for EVERY horizon H
     - every entry (i, a, f) of [finished (run cbs cost_of H arr sigma)] has f - a <= R;
     - the k-th released instance of callback i, released at a with a + R <= H, HAS completed: it is the k-th entry
       (i, a, f) of callback i in that list, and f <= a + R;
     - (the same, unindexed) if i is in [arr a] and a + R <= H the list contains some (i, a, f) with f <= a + R.
   The polling-point analysis makes no assumption on the other callbacks: they may be timers or polled callbacks, of
   any priority; the interfering demand is the aggregate of ALL other callbacks of the executor.
   [pp_sound_executor_nonvacuous] (bound 12, attained), [timer_sound_executor_nonvacuous] (bound 13, observed 12),
   [timer_sound_executor_nonvacuous_hp] (with an interfering timer; bound 17, observed 13).

   CONSTRUCTION ([run_jobs], [run_sched])
   Job [jid c k] = the k-th released instance of callback c (queue order), for c < length cbs and the instances
   released before H, listed callback by callback: j_task = c, j_arr = its arrival slot, j_cost = [cost_of c k]
   (the executor serves each callback's queue in order, so the k-th STARTED instance is the k-th RELEASED one:
   [executor_fifo_per_callback]).  [run_sched t] = the job of the instance the executor runs in slot t, read off
   the executor's state at the beginning of slot t ([cur]: the instance in progress, else the one [start t]
   dispatches; None if the slot is not supplied or the executor idles).  No extra bookkeeping is needed: the state
   [st t] = [run cbs cost_of t arr sigma] is defined for every t.
   The horizon: the abstract class quantifies over all time, so the run is allowed to CONTINUE beyond H and H is
   chosen beyond the last arrival ([no_arrivals_from cbs arr H]); an arrival function that complies with
   [arrivals_ok_t] has a last arrival because admissible event sequences are finite lists ([arrivals_finite]).  For an
   arbitrary arrival function, [run_prefix_in_class] cuts the arrivals at H ([trunc_arr]): the first H slots of the
   given run are the first H slots of a member of the class.  No theorem of PpSound.v had to be re-proved.

   MEMBERSHIP (Section Membership; costs >= 1, no arrivals from H on)
   [service_state]: the service job (c, k) has received by t is cost_of c k if k < done c t, cost_of c k - rem t if
   it is in progress, 0 otherwise (induction over the slots with [slot_cases] of RrSound.v; [rem_lt_cost]: the
   remaining cost of the instance in progress is smaller than its cost).  Hence [pending_iff]: job (c, k) is pending
   at t iff done c t <= k < narr c (S t), and
     [run_valid], [run_uses_supply], [run_work_conserving] (from [executor_work_conserving]: at a polling point the
     executor admits every polled callback with a pending instance; a non-empty ready set only holds callbacks
     with a pending instance), [run_runs_to_completion], [run_fifo_within_task],
     [run_precedence]: for every class hiT of timers that is closed under the executor's order [precedes] (smaller
     priority number, then smaller index: [best_first], [start_timer_first]).
   All hypotheses of the abstract class are TRUE of the operational executor; none had to be weakened.
   Part 6 keeps the executable checks that preceded the proofs (boolean versions of the six hypotheses on three
   systems; they also show that [run_precedence] fails for a class that is not closed under [precedes]). *)
From Coq Require Import Arith NArith List Lia Bool Permutation.
From RTA.Model Require Import Base Arrival Wcet Demand Supply FixedPoint Analyses Ros2 Eval WellFormed.
From RTA.Spec Require Import Sched Events TaskModel Reservation SupplySched NonPreemptive Executor.
From RTA.Proofs Require Import SupplyProofs ReservationProofs FifoEndToEnd EsSound PpSound RrSound.
Import ListNotations.
Local Close Scope N_scope.
Local Open Scope nat_scope.

(* ------------------------------------------------------------------------------------------ *)
(* Part 0: enumerating a family of finite sequences                                            *)
(* ------------------------------------------------------------------------------------------ *)
Section Enum.
  Context {A : Type}.
  Variable len : nat -> nat.
  Variable f : nat -> nat -> A.

  Definition enum (m : nat) : list A := flat_map (fun c => map (f c) (seq 0 (len c))) (seq 0 m).

  Lemma enum_S : forall m, enum (S m) = enum m ++ map (f m) (seq 0 (len m)).
  Proof. intros m. unfold enum. rewrite seq_S, flat_map_app. cbn [flat_map Nat.add]. rewrite app_nil_r. reflexivity. Qed.

  Lemma enum_length : forall m, length (enum m) = sumn m len.
  Proof.
    induction m as [|m IH]; [reflexivity|]. rewrite enum_S, app_length, map_length, seq_length, IH. reflexivity.
  Qed.

  Lemma sumn_mono_n : forall c c', c <= c' -> sumn c len <= sumn c' len.
  Proof. intros c c' Hle. induction Hle as [|c' Hle IH]; [lia|]. cbn [sumn]. lia. Qed.

  Lemma enum_nth : forall m c k d, c < m -> k < len c -> nth (sumn c len + k) (enum m) d = f c k.
  Proof.
    induction m as [|m IH]; intros c k d Hc Hk; [lia|]. rewrite enum_S.
    destruct (Nat.eq_dec c m) as [->|Hne].
    - rewrite app_nth2 by (rewrite enum_length; lia). rewrite enum_length.
      replace (sumn m len + k - sumn m len) with k by lia.
      rewrite (nth_indep _ d (f m 0)) by (rewrite map_length, seq_length; exact Hk).
      rewrite map_nth, seq_nth by exact Hk. reflexivity.
    - assert (Hlt : sumn c len + k < sumn m len).
      { pose proof (sumn_mono_n (S c) m ltac:(lia)) as Hm. cbn [sumn] in Hm. lia. }
      rewrite app_nth1 by (rewrite enum_length; exact Hlt). apply IH; [lia|exact Hk].
  Qed.

  Lemma enum_decode : forall m j, j < sumn m len -> exists c k, c < m /\ k < len c /\ j = sumn c len + k.
  Proof.
    induction m as [|m IH]; intros j Hj; [cbn in Hj; lia|]. cbn [sumn] in Hj.
    destruct (Nat.lt_ge_cases j (sumn m len)) as [Hlt|Hge].
    - destruct (IH j Hlt) as (c & k & Hc & Hk & E). exists c, k. split; [lia|]. split; assumption.
    - exists m, (j - sumn m len). split; [lia|]. split; lia.
  Qed.

  Lemma enum_inj : forall c k c' k', k < len c -> k' < len c' -> sumn c len + k = sumn c' len + k' ->
    c = c' /\ k = k'.
  Proof.
    intros c k c' k' Hk Hk' E.
    destruct (Nat.lt_trichotomy c c') as [Hlt|[->|Hgt]].
    - pose proof (sumn_mono_n (S c) c' ltac:(lia)) as Hm. cbn [sumn] in Hm. lia.
    - split; [reflexivity|lia].
    - pose proof (sumn_mono_n (S c') c ltac:(lia)) as Hm. cbn [sumn] in Hm. lia.
  Qed.
End Enum.

Lemma map_nth_seq : forall (l : list nat), map (fun k => nth k l 0) (seq 0 (length l)) = l.
Proof.
  intros l. apply (nth_ext _ _ 0 0).
  - rewrite map_length, seq_length. reflexivity.
  - intros i Hi. rewrite map_length, seq_length in Hi.
    rewrite (nth_indep _ 0 (nth 0 l 0)) by (rewrite map_length, seq_length; exact Hi).
    pose proof (map_nth (fun k => nth k l 0) (seq 0 (length l)) 0 i) as E. cbv beta in E. rewrite E.
    rewrite seq_nth by exact Hi. reflexivity.
Qed.

(* the executor's order among the candidates of a dispatch: smaller priority number first, smaller index among ties *)
Definition precedes (cbs : list cbdef) (c c' : nat) : Prop :=
  prio (cb cbs c) < prio (cb cbs c') \/ (prio (cb cbs c) = prio (cb cbs c') /\ c <= c').

Lemma best_first : forall cbs (p : nat -> bool) m s c, best cbs (filter p (seq s m)) = Some c ->
  forall c', In c' (filter p (seq s m)) -> precedes cbs c c'.
Proof.
  intros cbs p. induction m as [|m IH]; intros s c E c' Hin; [destruct Hin|].
  cbn [seq filter] in E, Hin. destruct (p s) eqn:Ep; [|apply (IH (S s) c E c' Hin)].
  cbn [best] in E. destruct (best cbs (filter p (seq (S s) m))) as [c0|] eqn:Eb.
  - destruct (Nat.ltb_spec (prio (cb cbs c0)) (prio (cb cbs s))) as [Hlt|Hge]; injection E as <-.
    + destruct Hin as [<-|Hin]; [left; exact Hlt|apply (IH (S s) c0 Eb c' Hin)].
    + destruct Hin as [<-|Hin]; [right; split; [reflexivity|apply le_n]|].
      assert (Hs : S s <= c') by (apply filter_In in Hin; destruct Hin as (Hin & _); apply in_seq in Hin; lia).
      destruct (IH (S s) c0 Eb c' Hin) as [Hlt|(Heq & _)]; unfold precedes; lia.
  - apply best_none in Eb. rewrite Eb in Hin. injection E as <-.
    destruct Hin as [<-|[]]. right. split; [reflexivity|apply le_n].
Qed.

(* ------------------------------------------------------------------------------------------ *)
(* Part 1: the job list and the schedule of a run                                              *)
(* ------------------------------------------------------------------------------------------ *)
Section RunDefs.
  Variable cbs : list cbdef.
  Variable cost_of : nat -> nat -> nat.
  Variable arr : nat -> list nat.
  Variable sigma : nat -> bool.
  Variable H : nat.
  Notation n := (length cbs).

  (* instance k of callback c (k-th in arrival = queue order, counted from 0), c < length cbs, released before H:
     job number [jid c k]; the jobs are listed callback by callback, each callback's instances in arrival order *)
  Definition joff (c : nat) : nat := sumn c (fun c' => narr arr c' H).
  Definition jid (c k : nat) : nat := joff c + k.
  Definition aof (c k : nat) : nat := nth k (arrs_upto arr c H) 0.
  Definition run_jobs : list job :=
    flat_map (fun c => map (fun k => mkJob c (aof c k) (cost_of c k)) (seq 0 (narr arr c H))) (seq 0 n).

  (* the instance (callback, index) the executor runs in slot t: the one in progress, else the one it starts *)
  Definition cur (t : nat) : option (nat * nat) :=
    if sigma t then
      match Executor.running (st cbs cost_of arr sigma t) with
      | Some (c, _, _) => Some (c, srv cbs cost_of arr sigma c t - 1)
      | None => match start cbs cost_of arr sigma t with
                | Some c => Some (c, srv cbs cost_of arr sigma c t)
                | None => None
                end
      end
    else None.
  Definition run_sched (t : nat) : option nat :=
    match cur t with Some (c, k) => Some (jid c k) | None => None end.
End RunDefs.

(* no callback of the executor is released at or after H *)
Definition no_arrivals_from (cbs : list cbdef) (arr : nat -> list nat) (H : nat) : Prop :=
  forall t c, H <= t -> c < length cbs -> count_occ Nat.eq_dec (arr t) c = 0.

(* ------------------------------------------------------------------------------------------ *)
(* Part 2: the run is a member of the abstract dispatcher class                                *)
(* ------------------------------------------------------------------------------------------ *)
Section Membership.
  Variable cbs : list cbdef.
  Variable cost_of : nat -> nat -> nat.
  Variable arr : nat -> list nat.
  Variable sigma : nat -> bool.
  Variable H : nat.
  Notation n := (length cbs).
  Notation cbd := (cb cbs).
  Notation st := (st cbs cost_of arr sigma).
  Notation srv := (srv cbs cost_of arr sigma).
  Notation done := (done cbs cost_of arr sigma).
  Notation rem := (rem cbs cost_of arr sigma).
  Notation runs_cb := (runs_cb cbs cost_of arr sigma).
  Notation start := (start cbs cost_of arr sigma).
  Notation narr := (narr arr).
  Notation arrs_upto := (arrs_upto arr).
  Notation arrives := (arrives arr).
  Notation jobs := (run_jobs cbs cost_of arr H).
  Notation sched := (run_sched cbs cost_of arr sigma H).
  Notation cur := (cur cbs cost_of arr sigma).
  Notation jid := (jid arr H).
  Notation joff := (joff arr H).
  Notation aof := (aof arr H).
  Notation dj := (mkJob 0 0 0).

  Hypothesis Hcost1 : forall c k, c < n -> 1 <= cost_of c k.
  Hypothesis Hfin : no_arrivals_from cbs arr H.

  Ltac slot t :=
    destruct (slot_cases cbs cost_of arr sigma t) as
      [Es Est Epp Hsrv Erun Erdy Efin
      | c0 r0 a0 Es Est Epp Er Hsrv Erun Erdy Efin
      | c0 Es Est Er Hc0 Hp0 Hsrv Erun Efin Hknd
      | Es Est Er Hnp Hsrv Erun Erd Erdy Efin].

  (* ---- arrivals ---- *)
  Lemma arrs_upto_after : forall t c, H <= t -> c < n -> arrs_upto c t = arrs_upto c H.
  Proof.
    intros t c Hle Hc. induction Hle as [|t Hle IH]; [reflexivity|].
    rewrite arrs_upto_S, IH, (Hfin t c Hle Hc). cbn [repeat]. apply app_nil_r.
  Qed.

  Lemma narr_le_H : forall t c, c < n -> narr c t <= narr c H.
  Proof.
    intros t c Hc. destruct (Nat.le_ge_cases t H) as [Hle|Hge]; [apply narr_mono; exact Hle|].
    unfold RrSound.narr. rewrite (arrs_upto_after t c Hge Hc). lia.
  Qed.

  Lemma aof_arrives : forall c k, k < narr c H -> arrives c k (aof c k).
  Proof. intros c k Hk. apply nth_arrives. exact Hk. Qed.

  Lemma arrives_aof : forall c k a, c < n -> arrives c k a -> k < narr c H /\ aof c k = a.
  Proof.
    intros c k a Hc Ha. assert (Hk : k < narr c H).
    { destruct Ha as (_ & Ha). pose proof (narr_le_H (S a) c Hc). lia. }
    split; [exact Hk|]. apply (arrives_fun arr c k); [apply aof_arrives; exact Hk|exact Ha].
  Qed.

  Lemma arrives_le_iff : forall c k a t, arrives c k a -> (a <= t <-> k < narr c (S t)).
  Proof.
    intros c k a t (H1 & H2). split; intros Hx.
    - pose proof (narr_mono arr c (S a) (S t) ltac:(lia)). lia.
    - destruct (Nat.le_gt_cases a t) as [Hle|Hgt]; [exact Hle|].
      pose proof (narr_mono arr c (S t) a ltac:(lia)). lia.
  Qed.

  Lemma arrives_mono : forall c k a k' a', arrives c k a -> arrives c k' a' -> k <= k' -> a <= a'.
  Proof.
    intros c k a k' a' (H1 & H2) (H3 & H4) Hle.
    destruct (Nat.le_gt_cases a a') as [Hx|Hx]; [exact Hx|].
    pose proof (narr_mono arr c (S a') a ltac:(lia)). lia.
  Qed.

  (* ---- the job list ---- *)
  Lemma jobs_length : length jobs = joff n.
  Proof. apply (enum_length (fun c => narr c H)). Qed.

  Lemma jobs_nth : forall c k, c < n -> k < narr c H -> nth (jid c k) jobs dj = mkJob c (aof c k) (cost_of c k).
  Proof. intros c k Hc Hk. apply (enum_nth (fun c => narr c H) (fun c k => mkJob c (aof c k) (cost_of c k))); assumption. Qed.

  Lemma jid_lt : forall c k, c < n -> k < narr c H -> jid c k < length jobs.
  Proof.
    intros c k Hc Hk. rewrite jobs_length. unfold ExecutorBridge.jid, ExecutorBridge.joff.
    pose proof (sumn_mono_n (fun c => narr c H) (S c) n ltac:(lia)) as Hm. cbn [sumn] in Hm. lia.
  Qed.

  Lemma jobs_decode : forall j, j < length jobs -> exists c k, c < n /\ k < narr c H /\ j = jid c k.
  Proof. intros j Hj. rewrite jobs_length in Hj. apply (enum_decode (fun c => narr c H)). exact Hj. Qed.

  Lemma jid_inj : forall c k c' k', k < narr c H -> k' < narr c' H -> jid c k = jid c' k' -> c = c' /\ k = k'.
  Proof. intros c k c' k'. apply (enum_inj (fun c => narr c H)). Qed.

  Lemma job_task : forall c k, c < n -> k < narr c H -> j_task (nth (jid c k) jobs dj) = c.
  Proof. intros c k Hc Hk. rewrite jobs_nth by assumption. reflexivity. Qed.
  Lemma job_arr : forall c k, c < n -> k < narr c H -> Sched.arr jobs (jid c k) = aof c k.
  Proof. intros c k Hc Hk. unfold Sched.arr. rewrite jobs_nth by assumption. reflexivity. Qed.
  Lemma job_cost : forall c k, c < n -> k < narr c H -> Sched.cost jobs (jid c k) = cost_of c k.
  Proof. intros c k Hc Hk. unfold Sched.cost. rewrite jobs_nth by assumption. reflexivity. Qed.

  (* ---- the executor's state ---- *)
  Lemma done_running : forall t c r a, Executor.running (st t) = Some (c, r, a) ->
    c < n /\ 1 <= r /\ 1 <= srv c t /\ done c t = srv c t - 1 /\ rem t = r /\
    forall c', c' <> c -> done c' t = srv c' t.
  Proof.
    intros t c r a Er. pose proof (inv_run _ _ _ _ t (inv_all cbs cost_of arr sigma t)) as Hr. rewrite Er in Hr.
    destruct Hr as (Hc & Hr1 & _ & Hs & _). unfold RrSound.done, RrSound.runs_cb, RrSound.rem. rewrite Er, Nat.eqb_refl.
    repeat split; try assumption; try lia.
    intros c' Hne. destruct (Nat.eqb_spec c c') as [->|_]; [congruence|]. lia.
  Qed.

  Lemma done_idle : forall t, Executor.running (st t) = None -> rem t = 0 /\ forall c, done c t = srv c t.
  Proof.
    intros t Er. unfold RrSound.done, RrSound.runs_cb, RrSound.rem. rewrite Er. split; [reflexivity|]. intros c. lia.
  Qed.

  (* the remaining cost of the instance in progress is smaller than its cost: it has received service *)
  Lemma rem_lt_cost : forall t c r a, Executor.running (st t) = Some (c, r, a) -> r < cost_of c (srv c t - 1).
  Proof.
    induction t as [|t IH]; intros c r a Erx.
    - unfold RrSound.st, run in Erx. cbn in Erx. discriminate Erx.
    - pose proof (inv_run _ _ _ _ t (inv_all cbs cost_of arr sigma t)) as Hr.
      slot t.
      + rewrite Erun in Erx. rewrite Hsrv. apply (IH c r a Erx).
      + rewrite Erun in Erx. rewrite Er in Hr. destruct (Nat.leb_spec r0 1) as [Hw|Hw]; [discriminate Erx|].
        injection Erx as <- <- <-. rewrite Hsrv. specialize (IH c0 r0 a0 Er). lia.
      + rewrite Erun in Erx. destruct (Nat.leb_spec (cost_of c0 (srv c0 t)) 1) as [Hw|Hw]; [discriminate Erx|].
        injection Erx as <- <- <-. rewrite (Hsrv c0 Hc0), Nat.eqb_refl.
        replace (S (srv c0 t) - 1) with (srv c0 t) by lia. lia.
      + rewrite Erun in Erx. discriminate Erx.
  Qed.

  (* what [cur] is: the instance in progress or the instance that starts; in both cases the oldest incomplete
     instance of its callback *)
  Lemma cur_cases : forall t c k, cur t = Some (c, k) ->
    sigma t = true /\ c < n /\ k = done c t /\ k < narr c (S t) /\
    ((exists r a, Executor.running (st t) = Some (c, r, a) /\ S k = srv c t) \/
     (Executor.running (st t) = None /\ start t = Some c /\ k = srv c t)).
  Proof.
    intros t c k E. unfold ExecutorBridge.cur in E. destruct (sigma t) eqn:Esg; [|discriminate E].
    split; [reflexivity|].
    destruct (Executor.running (st t)) as [[[c' r] a]|] eqn:Erx.
    - injection E as <- <-. destruct (done_running t c' r a Erx) as (Hc & Hr1 & Hs & Hd & _).
      split; [exact Hc|]. split; [lia|]. split.
      + pose proof (srv_le_narr cbs cost_of arr sigma c' t Hc). pose proof (narr_mono arr c' t (S t) ltac:(lia)). lia.
      + left. exists r, a. split; [reflexivity|lia].
    - destruct (start t) as [c'|] eqn:Est0; [|discriminate E]. injection E as <- <-.
      destruct (done_idle t Erx) as (_ & Hd).
      slot t; rewrite Est in Est0; try discriminate Est0. injection Est0 as <-.
      split; [exact Hc0|]. split; [symmetry; apply Hd|]. split; [exact Hp0|].
      right. split; [reflexivity|]. split; reflexivity.
  Qed.

  Lemma cur_valid : forall t c k, cur t = Some (c, k) -> c < n /\ k < narr c H.
  Proof.
    intros t c k E. destruct (cur_cases t c k E) as (_ & Hc & _ & Hk & _). split; [exact Hc|].
    pose proof (narr_le_H (S t) c Hc). lia.
  Qed.

  Lemma sched_cur : forall t c k, c < n -> k < narr c H -> (sched t = Some (jid c k) <-> cur t = Some (c, k)).
  Proof.
    intros t c k Hc Hk. unfold ExecutorBridge.run_sched. destruct (cur t) as [[c' k']|] eqn:E.
    - destruct (cur_valid t c' k' E) as (Hc' & Hk'). split; intros Hx.
      + injection Hx as Hx. destruct (jid_inj c' k' c k Hk' Hk Hx) as (-> & ->). reflexivity.
      + injection Hx as -> ->. reflexivity.
    - split; intros Hx; discriminate Hx.
  Qed.

  Lemma sched_some : forall t j, sched t = Some j -> exists c k, cur t = Some (c, k) /\ j = jid c k.
  Proof.
    intros t j E. unfold ExecutorBridge.run_sched in E. destruct (cur t) as [[c k]|]; [|discriminate E].
    injection E as <-. exists c, k. split; reflexivity.
  Qed.

  Lemma runs_cur : forall t c k, c < n -> k < narr c H ->
    runs sched (jid c k) t = match cur t with
                             | Some (c', k') => if (c' =? c) && (k' =? k) then 1 else 0
                             | None => 0
                             end.
  Proof.
    intros t c k Hc Hk. unfold runs. pose proof (sched_cur t c k Hc Hk) as Hiff.
    destruct (sched t) as [j|] eqn:Ej.
    - destruct (sched_some t j Ej) as (c' & k' & Ec & ->). rewrite Ec.
      destruct (Nat.eqb_spec (jid c' k') (jid c k)) as [E|Hne].
      + rewrite E in Hiff. destruct Hiff as (Hx & _). specialize (Hx eq_refl). rewrite Ec in Hx.
        injection Hx as -> ->. rewrite !Nat.eqb_refl. reflexivity.
      + destruct (Nat.eqb_spec c' c) as [->|_]; [|reflexivity].
        destruct (Nat.eqb_spec k' k) as [->|_]; [|reflexivity]. congruence.
    - destruct (cur t) as [[c' k']|] eqn:Ec; [|reflexivity].
      unfold ExecutorBridge.run_sched in Ej. rewrite Ec in Ej. discriminate Ej.
  Qed.

  (* ---- service received = what the executor's state says ---- *)
  Definition sstate (c k t : nat) : nat :=
    if k <? done c t then cost_of c k else if k <? srv c t then cost_of c k - rem t else 0.

  Ltac ltbs := repeat match goal with |- context [?a <? ?b] => destruct (Nat.ltb_spec a b) end.

  Lemma srv_0 : forall c, c < n -> srv c 0 = 0.
  Proof. intros c Hc. pose proof (srv_le_narr cbs cost_of arr sigma c 0 Hc) as Hle.
    unfold RrSound.narr, RrSound.arrs_upto in Hle. cbn [seq flat_map length] in Hle. lia. Qed.

  Lemma service_state : forall t c k, c < n -> k < narr c H -> service sched (jid c k) t = sstate c k t.
  Proof.
    induction t as [|t IH]; intros c k Hc Hk.
    - unfold sstate. pose proof (srv_0 c Hc). pose proof (done_le_srv cbs cost_of arr sigma c 0).
      ltbs; try lia. reflexivity.
    - rewrite service_S, (IH c k Hc Hk), (runs_cur t c k Hc Hk). unfold ExecutorBridge.cur.
      slot t.
      + (* no supply *)
        rewrite Es. unfold sstate, RrSound.done, RrSound.runs_cb, RrSound.rem. rewrite Erun, !Hsrv. lia.
      + (* the instance in progress continues *)
        rewrite Es, Er.
        destruct (done_running t c0 r0 a0 Er) as (Hc0 & Hr1 & Hs1 & Hd & Hrm & Hoth).
        pose proof (rem_lt_cost t c0 r0 a0 Er) as Hlt.
        assert (Hnext : (r0 <= 1 /\ rem (S t) = 0 /\ forall c', done c' (S t) = srv c' t) \/
                        (1 < r0 /\ rem (S t) = r0 - 1 /\ done c0 (S t) = srv c0 t - 1 /\
                         forall c', c' <> c0 -> done c' (S t) = srv c' t)).
        { destruct (Nat.leb_spec r0 1) as [Hw|Hw].
          - left. destruct (done_idle (S t) Erun) as (H1 & H2). split; [exact Hw|]. split; [exact H1|].
            intros c'. rewrite H2. apply Hsrv.
          - right. destruct (done_running (S t) c0 (r0 - 1) a0 Erun) as (_ & _ & _ & H1 & H2 & H3).
            split; [exact Hw|]. split; [exact H2|]. rewrite Hsrv in H1. split; [exact H1|].
            intros c' Hne. rewrite (H3 c' Hne). apply Hsrv. }
        unfold sstate. rewrite !Hsrv.
        destruct (Nat.eqb_spec c0 c) as [->|Hne]; cbn [andb].
        * destruct (Nat.eqb_spec (srv c t - 1) k) as [<-|Hnk].
          -- destruct Hnext as [(Hw & Hr' & Hd')|(Hw & Hr' & Hd' & _)]; rewrite ?Hd', Hr', Hd, Hrm; ltbs; lia.
          -- destruct Hnext as [(Hw & Hr' & Hd')|(Hw & Hr' & Hd' & _)]; rewrite ?Hd', Hr', Hd, Hrm; ltbs; lia.
        * assert (Hc' : c <> c0) by congruence. rewrite (Hoth c Hc').
          destruct Hnext as [(Hw & Hr' & Hd')|(Hw & Hr' & _ & Hd')]; rewrite Hd' by exact Hc'; ltbs; lia.
      + (* an instance starts *)
        rewrite Es, Er, Est.
        destruct (done_idle t Er) as (Hrm & Hd). pose proof (Hcost1 c0 (srv c0 t) Hc0) as Hc1.
        assert (Hnext : (cost_of c0 (srv c0 t) <= 1 /\ rem (S t) = 0 /\ forall c', done c' (S t) = srv c' (S t)) \/
                        (1 < cost_of c0 (srv c0 t) /\ rem (S t) = cost_of c0 (srv c0 t) - 1 /\
                         done c0 (S t) = srv c0 (S t) - 1 /\ forall c', c' <> c0 -> done c' (S t) = srv c' (S t))).
        { destruct (Nat.leb_spec (cost_of c0 (srv c0 t)) 1) as [Hw|Hw].
          - left. destruct (done_idle (S t) Erun) as (H1 & H2). split; [exact Hw|]. split; [exact H1|exact H2].
          - right. destruct (done_running (S t) c0 _ _ Erun) as (_ & _ & _ & H1 & H2 & H3).
            split; [exact Hw|]. split; [exact H2|]. split; [exact H1|exact H3]. }
        unfold sstate. rewrite Hd, Hrm. pose proof (Hsrv c Hc) as Hs'.
        destruct (Nat.eqb_spec c0 c) as [->|Hne]; cbn [andb].
        * rewrite Nat.eqb_refl in Hs'.
          destruct (Nat.eqb_spec (srv c t) k) as [<-|Hnk].
          -- destruct Hnext as [(Hw & Hr' & Hd')|(Hw & Hr' & Hd' & _)]; rewrite ?Hd', Hr'; ltbs; lia.
          -- destruct Hnext as [(Hw & Hr' & Hd')|(Hw & Hr' & Hd' & _)]; rewrite ?Hd', ?Hr'; ltbs; lia.
        * destruct (Nat.eqb_spec c c0) as [E|_]; [congruence|]. assert (Hc' : c <> c0) by congruence.
          destruct Hnext as [(Hw & Hr' & Hd')|(Hw & Hr' & _ & Hd')]; rewrite Hd' by exact Hc'; ltbs; lia.
      + (* idle *)
        rewrite Es, Er, Est. destruct (done_idle t Er) as (Hrm & Hd). destruct (done_idle (S t) Erun) as (Hrm' & Hd').
        unfold sstate. rewrite Hd, Hd', Hrm, Hrm', !Hsrv. lia.
  Qed.
  Lemma done_lt_srv : forall t c, done c t < srv c t ->
    exists r a, Executor.running (st t) = Some (c, r, a) /\ S (done c t) = srv c t /\ rem t = r /\ 1 <= r /\
                r < cost_of c (done c t).
  Proof.
    intros t c Hlt. destruct (Executor.running (st t)) as [[[c' r] a]|] eqn:Erx.
    - destruct (done_running t c' r a Erx) as (Hc' & Hr1 & Hs1 & Hd & Hrm & Hoth).
      destruct (Nat.eq_dec c c') as [->|Hne]; [|rewrite (Hoth c Hne) in Hlt; lia].
      exists r, a. split; [reflexivity|]. split; [lia|]. split; [exact Hrm|]. split; [exact Hr1|].
      rewrite Hd. apply (rem_lt_cost t c' r a Erx).
    - destruct (done_idle t Erx) as (_ & Hd). rewrite Hd in Hlt. lia.
  Qed.

  Lemma service_lt_cost_iff : forall t c k, c < n -> k < narr c H ->
    (service sched (jid c k) t < cost_of c k <-> done c t <= k).
  Proof.
    intros t c k Hc Hk. rewrite (service_state t c k Hc Hk). unfold sstate. pose proof (Hcost1 c k Hc) as Hc1.
    destruct (Nat.ltb_spec k (done c t)) as [Hd|Hd]; [lia|].
    destruct (Nat.ltb_spec k (srv c t)) as [Hs|Hs]; [|lia].
    destruct (done_lt_srv t c ltac:(lia)) as (r & a & _ & _ & -> & Hr1 & _). lia.
  Qed.

  Lemma pending_iff : forall t c k, c < n -> k < narr c H ->
    (Sched.pending jobs sched (jid c k) t <-> k < narr c (S t) /\ done c t <= k).
  Proof.
    intros t c k Hc Hk. unfold Sched.pending. rewrite (job_arr c k Hc Hk), (job_cost c k Hc Hk).
    rewrite (arrives_le_iff c k (aof c k) t (aof_arrives c k Hk)), (service_lt_cost_iff t c k Hc Hk).
    pose proof (jid_lt c k Hc Hk). tauto.
  Qed.

  Lemma service_partial : forall t c k, c < n -> k < narr c H ->
    0 < service sched (jid c k) t -> service sched (jid c k) t < cost_of c k ->
    exists r a, Executor.running (st t) = Some (c, r, a) /\ S k = srv c t.
  Proof.
    intros t c k Hc Hk H0 H1. pose proof (proj1 (service_lt_cost_iff t c k Hc Hk) H1) as Hd.
    rewrite (service_state t c k Hc Hk) in H0. unfold sstate in H0.
    destruct (Nat.ltb_spec k (done c t)) as [Hd'|_]; [lia|].
    destruct (Nat.ltb_spec k (srv c t)) as [Hs|Hs]; [|lia].
    destruct (done_lt_srv t c ltac:(lia)) as (r & a & Erx & Hsd & _). exists r, a. split; [exact Erx|lia].
  Qed.

  (* ---- the membership theorems ---- *)
  Theorem run_valid : valid jobs sched.
  Proof.
    intros t j E. destruct (sched_some t j E) as (c & k & Ec & ->).
    destruct (cur_valid t c k Ec) as (Hc & Hk). destruct (cur_cases t c k Ec) as (_ & _ & Hd & Hks & _).
    apply pending_iff; try assumption. split; [exact Hks|lia].
  Qed.

  Theorem run_uses_supply : uses_supply sched sigma.
  Proof. intros t j E. destruct (sched_some t j E) as (c & k & Ec & _). apply (cur_cases t c k Ec). Qed.

  Theorem run_work_conserving : work_conserving_under jobs sched sigma.
  Proof.
    intros t j Hp Hs. destruct (jobs_decode j (proj1 Hp)) as (c & k & Hc & Hk & ->).
    apply pending_iff in Hp; try assumption. destruct Hp as (Hks & Hd).
    unfold ExecutorBridge.run_sched, ExecutorBridge.cur. rewrite Hs.
    destruct (Executor.running (st t)) as [[[c' r] a]|] eqn:Erx; [discriminate|].
    destruct (start t) as [c'|] eqn:Est0; [discriminate|]. exfalso.
    destruct (done_idle t Erx) as (_ & Hdi). rewrite Hdi in Hd.
    destruct (executor_work_conserving cbs cost_of arr sigma t c Hc ltac:(lia) Hs) as [Hx|Hx]; congruence.
  Qed.

  Lemma service_pos_lt : forall t j, 0 < service sched j t -> j < length jobs.
  Proof.
    intros t j H0. unfold service, svc in H0. destruct (sumn_pos_ex _ _ H0) as (u & _ & Hu).
    unfold runs in Hu. destruct (sched (0 + u)) as [j'|] eqn:E; [|lia].
    destruct (Nat.eqb_spec j' j) as [->|_]; [|lia]. apply (run_valid _ _ E).
  Qed.

  Theorem run_runs_to_completion : runs_to_completion_under jobs sched sigma.
  Proof.
    intros t j H0 H1 Hs. destruct (jobs_decode j (service_pos_lt t j H0)) as (c & k & Hc & Hk & ->).
    rewrite (job_cost c k Hc Hk) in H1.
    destruct (service_partial t c k Hc Hk H0 H1) as (r & a & Erx & Hsk).
    apply sched_cur; try assumption. unfold ExecutorBridge.cur. rewrite Hs, Erx. f_equal. f_equal. lia.
  Qed.

  Theorem run_fifo_within_task : fifo_within_task jobs sched.
  Proof.
    intros t j j' E Hp Ht. destruct (sched_some t j E) as (c & k & Ec & ->).
    destruct (cur_valid t c k Ec) as (Hc & Hk). destruct (cur_cases t c k Ec) as (_ & _ & Hd & _).
    destruct (jobs_decode j' (proj1 Hp)) as (c' & k' & Hc' & Hk' & ->).
    rewrite (job_task c k Hc Hk), (job_task c' k' Hc' Hk') in Ht. subst c'.
    apply pending_iff in Hp; try assumption. destruct Hp as (_ & Hd').
    rewrite (job_arr c k Hc Hk), (job_arr c k' Hc Hk').
    apply (arrives_mono c k (aof c k) k' (aof c k')); [apply aof_arrives; exact Hk|apply aof_arrives; exact Hk'|lia].
  Qed.

  (* an instance that starts (first unit of service) is dispatched by the executor in that slot *)
  Lemma starts_at_start : forall t c k, c < n -> k < narr c H -> starts_at sched (jid c k) t ->
    Executor.running (st t) = None /\ start t = Some c /\ k = srv c t.
  Proof.
    intros t c k Hc Hk (E & Hs0). apply sched_cur in E; try assumption.
    destruct (cur_cases t c k E) as (_ & _ & Hd & _ & [(r & a & Erx & Hsk)|Hst]); [exfalso|exact Hst].
    rewrite (service_state t c k Hc Hk) in Hs0. unfold sstate in Hs0.
    destruct (Nat.ltb_spec k (done c t)) as [Hd'|_]; [lia|].
    destruct (Nat.ltb_spec k (srv c t)) as [Hs|Hs]; [|lia].
    destruct (done_lt_srv t c ltac:(lia)) as (r' & a' & _ & _ & Hrm & Hr1 & Hlt). rewrite <- Hd in Hlt. lia.
  Qed.

  (* the timer the executor starts precedes every timer that has a pending instance *)
  Lemma start_timer_first : forall t c, start t = Some c -> is_timer (cbd c) = true ->
    forall c', c' < n -> is_timer (cbd c') = true -> srv c' t < narr c' (S t) -> precedes cbs c c'.
  Proof.
    intros t c Est0 Htc c' Hc' Htc' Hp. pose proof (inv_all cbs cost_of arr sigma t) as Hi.
    unfold RrSound.start in Est0. destruct (sigma t); [|discriminate Est0].
    destruct (Executor.running (st t)); [discriminate Est0|].
    unfold dispatch in Est0. set (p := pend cbs cost_of arr sigma t) in *.
    destruct (best cbs (filter (fun c1 => is_timer (cbd c1) && has_pending p c1) (seq 0 n))) as [c1|] eqn:Eb.
    - cbn [fst] in Est0. injection Est0 as ->. apply (best_first cbs _ n 0 c Eb c').
      apply filter_In. split; [apply in_seq; lia|]. rewrite Htc'. cbn [andb].
      apply (has_pending_iff cbs cost_of arr sigma t c' Hi Hc'). exact Hp.
    - exfalso. fold (pollset cbs p) in Est0. fold (rdy0 cbs p (ready (st t))) in Est0.
      destruct (best cbs (rdy0 cbs p (ready (st t)))) as [c1|] eqn:Er; cbn [fst] in Est0; [|discriminate Est0].
      injection Est0 as ->. apply best_some in Er. destruct Er as (Hin & _).
      destruct (in_rdy0 cbs cost_of arr sigma t c Hi Hin) as (_ & Hpol & _). congruence.
  Qed.

  (* timers first, in the executor's order: a class of timers that is closed under the executor's order
     (priority number, then index) takes precedence over every other callback *)
  Theorem run_precedence : forall hiT : nat -> bool,
    (forall c, c < n -> hiT c = true -> is_timer (cbd c) = true) ->
    (forall c c', c < n -> c' < n -> is_timer (cbd c) = true -> hiT c' = true ->
                  precedes cbs c c' -> hiT c = true) ->
    precedence_respected jobs sched hiT.
  Proof.
    intros hiT Htm Hcl t j j' Hst Hp Hh.
    assert (Hj : j < length jobs) by (apply (run_valid t j (proj1 Hst))).
    destruct (jobs_decode j Hj) as (c & k & Hc & Hk & ->).
    destruct (jobs_decode j' (proj1 Hp)) as (c' & k' & Hc' & Hk' & ->).
    rewrite (job_task c' k' Hc' Hk') in Hh. rewrite (job_task c k Hc Hk).
    apply pending_iff in Hp; try assumption. destruct Hp as (Hks' & Hd').
    destruct (starts_at_start t c k Hc Hk Hst) as (Erx & Est0 & _).
    destruct (done_idle t Erx) as (_ & Hdi). rewrite Hdi in Hd'.
    pose proof (Htm c' Hc' Hh) as Htm'.
    pose proof (start_timer_first t c Est0) as Hfirst.
    slot t; rewrite Est in Est0; try discriminate Est0. injection Est0 as ->.
    destruct Hknd as [(Htc & _)|(_ & Hnone & _)].
    - apply (Hcl c c' Hc Hc' Htc Hh). apply Hfirst; [exact Htc|exact Hc'|exact Htm'|lia].
    - specialize (Hnone c' Hc' Htm'). lia.
  Qed.
End Membership.

Print Assumptions run_valid.
Print Assumptions run_uses_supply.
Print Assumptions run_work_conserving.
Print Assumptions run_runs_to_completion.
Print Assumptions run_fifo_within_task.
Print Assumptions run_precedence.

(* ---- an arbitrary run, cut at the horizon H: its first H slots are the first H slots of a member of the class ---- *)
(* the arrival function that agrees with arr before H and releases nothing from H on: the executor behaves
   identically in the slots before H and then drains its queues *)
Definition trunc_arr (arr : nat -> list nat) (H t : nat) : list nat := if t <? H then arr t else [].

Lemma trunc_no_arrivals : forall cbs arr H, no_arrivals_from cbs (trunc_arr arr H) H.
Proof. intros cbs arr H t c Ht _. unfold trunc_arr. destruct (Nat.ltb_spec t H); [lia|reflexivity]. Qed.

Lemma trunc_agrees : forall arr H u, u < H -> trunc_arr arr H u = arr u.
Proof. intros arr H u Hu. unfold trunc_arr. destruct (Nat.ltb_spec u H); [reflexivity|lia]. Qed.

Section Ext.
  Variable cbs : list cbdef.
  Variable cost_of : nat -> nat -> nat.
  Variable sigma : nat -> bool.
  Variables arr arr' : nat -> list nat.

  Lemma st_ext : forall T, (forall u, u < T -> arr u = arr' u) ->
    st cbs cost_of arr sigma T = st cbs cost_of arr' sigma T.
  Proof.
    induction T as [|T IH]; intros Hext; [reflexivity|].
    rewrite !st_S, IH, (Hext T) by (intros; try apply Hext; lia). reflexivity.
  Qed.

  Lemma arrs_upto_ext : forall c T, (forall u, u < T -> arr u = arr' u) -> arrs_upto arr c T = arrs_upto arr' c T.
  Proof.
    intros c. induction T as [|T IH]; intros Hext; [reflexivity|].
    rewrite !arrs_upto_S, IH, (Hext T) by (intros; try apply Hext; lia). reflexivity.
  Qed.

  Lemma run_jobs_ext : forall H, (forall u, u < H -> arr u = arr' u) ->
    run_jobs cbs cost_of arr H = run_jobs cbs cost_of arr' H.
  Proof.
    intros H Hext. unfold run_jobs. apply flat_map_ext. intros c.
    unfold narr, aof. rewrite (arrs_upto_ext c H Hext). reflexivity.
  Qed.

  Lemma run_sched_ext : forall H t, (forall u, u < H -> arr u = arr' u) -> t < H ->
    run_sched cbs cost_of arr sigma H t = run_sched cbs cost_of arr' sigma H t.
  Proof.
    intros H t Hext Ht.
    assert (Hst : st cbs cost_of arr sigma t = st cbs cost_of arr' sigma t) by (apply st_ext; intros; apply Hext; lia).
    assert (Hcur : cur cbs cost_of arr sigma t = cur cbs cost_of arr' sigma t).
    { unfold cur, start, pend, srv. rewrite Hst, (Hext t Ht). reflexivity. }
    unfold run_sched. rewrite Hcur. destruct (cur cbs cost_of arr' sigma t) as [[c k]|]; [|reflexivity].
    unfold jid, joff. f_equal. f_equal. apply sumn_ext. intros c' _. unfold narr.
    rewrite (arrs_upto_ext c' H Hext). reflexivity.
  Qed.
End Ext.

(* EVERY run of the operational executor, observed for H slots: the job list of the instances released before
   H and the schedule of the run that releases nothing from H on -- which is the given run in every slot before
   H -- form a member of the abstract dispatcher class, without any hypothesis on the arrivals *)
Theorem run_prefix_in_class : forall cbs cost_of arr sigma H,
  (forall c k, c < length cbs -> 1 <= cost_of c k) ->
  let jobs := run_jobs cbs cost_of arr H in
  let sched := run_sched cbs cost_of (trunc_arr arr H) sigma H in
  (forall t, t < H -> sched t = run_sched cbs cost_of arr sigma H t) /\
  (forall t, t <= H -> run cbs cost_of t (trunc_arr arr H) sigma = run cbs cost_of t arr sigma) /\
  valid jobs sched /\ uses_supply sched sigma /\ work_conserving_under jobs sched sigma /\
  runs_to_completion_under jobs sched sigma /\ fifo_within_task jobs sched /\
  forall hiT : nat -> bool,
    (forall c, c < length cbs -> hiT c = true -> is_timer (cb cbs c) = true) ->
    (forall c c', c < length cbs -> c' < length cbs -> is_timer (cb cbs c) = true -> hiT c' = true ->
                  precedes cbs c c' -> hiT c = true) ->
    precedence_respected jobs sched hiT.
Proof.
  intros cbs cost_of arr sigma H Hc1 jobs sched.
  pose proof (trunc_no_arrivals cbs arr H) as Hfin.
  assert (Hext : forall u, u < H -> trunc_arr arr H u = arr u) by (intros u Hu; apply trunc_agrees; exact Hu).
  assert (Ej : jobs = run_jobs cbs cost_of (trunc_arr arr H) H).
  { unfold jobs. symmetry. apply run_jobs_ext. exact Hext. }
  split; [intros t Ht; apply run_sched_ext; assumption|].
  split; [intros t Ht; apply (st_ext cbs cost_of sigma (trunc_arr arr H) arr t); intros u Hu; apply Hext; lia|].
  rewrite Ej. unfold sched.
  split; [apply run_valid; assumption|]. split; [apply run_uses_supply|].
  split; [apply run_work_conserving; assumption|]. split; [apply run_runs_to_completion; assumption|].
  split; [apply run_fifo_within_task; assumption|].
  intros hiT H1 H2. apply run_precedence; assumption.
Qed.
Print Assumptions run_prefix_in_class.

(* ------------------------------------------------------------------------------------------ *)
(* Part 3: the list of completed instances and the counters                                    *)
(* ------------------------------------------------------------------------------------------ *)
Section Finished.
  Variable cbs : list cbdef.
  Variable cost_of : nat -> nat -> nat.
  Variable arr : nat -> list nat.
  Variable sigma : nat -> bool.
  Notation n := (length cbs).
  Notation st := (st cbs cost_of arr sigma).
  Notation srv := (srv cbs cost_of arr sigma).
  Notation done := (done cbs cost_of arr sigma).
  Notation narr := (narr arr).
  Notation arrives := (arrives arr).

  Ltac slot t :=
    destruct (slot_cases cbs cost_of arr sigma t) as
      [Es Est Epp Hsrv Erun Erdy Efin
      | c0 r0 a0 Es Est Epp Er Hsrv Erun Erdy Efin
      | c0 Es Est Er Hc0 Hp0 Hsrv Erun Efin Hknd
      | Es Est Er Hnp Hsrv Erun Erd Erdy Efin].

  (* the completed instances of callback c after T slots, in completion order *)
  Definition fin_of (c T : nat) : list (nat * nat * nat) :=
    filter (fun e => fst (fst e) =? c) (Executor.finished (st T)).

  (* the k-th completed instance of c is the k-th released one: (c, its arrival, its completion time) *)
  Definition fin_ok (c T : nat) : Prop :=
    length (fin_of c T) = done c T /\
    forall k e, nth_error (fin_of c T) k = Some e -> exists a f, e = (c, a, f) /\ arrives c k a /\ f <= T.

  Lemma fin_step_same : forall c T, Executor.finished (st (S T)) = Executor.finished (st T) ->
    done c (S T) = done c T -> fin_ok c T -> fin_ok c (S T).
  Proof.
    intros c T Ef Ed (Hl & Hk). unfold fin_ok, fin_of in *. rewrite Ef, Ed. split; [exact Hl|].
    intros k e E. destruct (Hk k e E) as (a & f & H1 & H2 & H3). exists a, f. split; [exact H1|]. split; [exact H2|lia].
  Qed.

  Lemma fin_step_app : forall c T c0 a0,
    Executor.finished (st (S T)) = Executor.finished (st T) ++ [(c0, a0, S T)] ->
    arrives c0 (done c0 T) a0 ->
    done c (S T) = done c T + (if c0 =? c then 1 else 0) -> fin_ok c T -> fin_ok c (S T).
  Proof.
    intros c T c0 a0 Ef Ha Ed (Hl & Hk). unfold fin_ok, fin_of in *. rewrite Ef, Ed, filter_app. cbn [filter fst].
    destruct (Nat.eqb_spec c0 c) as [->|Hne].
    - rewrite app_length. cbn [length]. split; [lia|]. intros k e E.
      destruct (Nat.lt_ge_cases k (length (filter (fun e0 => fst (fst e0) =? c) (Executor.finished (st T))))) as [Hlt|Hge].
      + rewrite nth_error_app1 in E by exact Hlt.
        destruct (Hk k e E) as (a & f & H1 & H2 & H3). exists a, f. split; [exact H1|]. split; [exact H2|lia].
      + rewrite nth_error_app2 in E by exact Hge. rewrite Hl in E, Hge.
        destruct (k - done c T) as [|d] eqn:Ek; [|destruct d; discriminate E]. injection E as <-.
        exists a0, (S T). split; [reflexivity|]. split; [|lia]. replace k with (done c T) by lia. exact Ha.
    - rewrite app_nil_r, Nat.add_0_r. split; [exact Hl|]. intros k e E.
      destruct (Hk k e E) as (a & f & H1 & H2 & H3). exists a, f. split; [exact H1|]. split; [exact H2|lia].
  Qed.

  Lemma fin_inv : forall T c, c < n -> fin_ok c T.
  Proof.
    induction T as [|T IH]; intros c Hc.
    - unfold fin_ok, fin_of. unfold RrSound.st, run. cbn [run_from init Executor.finished filter length].
      pose proof (srv_0 cbs cost_of arr sigma c Hc). pose proof (done_le_srv cbs cost_of arr sigma c 0).
      split; [unfold RrSound.st, run in *; cbn [run_from] in *; lia|]. intros [|k] e E; discriminate E.
    - specialize (IH c Hc). slot T.
      + apply fin_step_same; [exact Efin| |exact IH].
        unfold RrSound.done, RrSound.runs_cb. rewrite Erun, Hsrv. reflexivity.
      + destruct (done_running _ _ _ _ T c0 r0 a0 Er) as (Hc0 & Hr1 & Hs1 & Hd & _ & Hoth).
        destruct (Nat.leb_spec r0 1) as [Hw|Hw].
        * destruct (done_idle _ _ _ _ (S T) Erun) as (_ & Hd').
          apply (fin_step_app c T c0 a0 Efin); [| |exact IH].
          -- rewrite Hd. apply (executor_fifo_per_callback cbs cost_of arr sigma T c0 r0 a0 Er).
          -- rewrite Hd', Hsrv. destruct (Nat.eqb_spec c0 c) as [->|Hne]; [lia|].
             rewrite (Hoth c ltac:(congruence)). lia.
        * destruct (done_running _ _ _ _ (S T) c0 (r0 - 1) a0 Erun) as (_ & _ & _ & Hd' & _ & Hoth').
          apply fin_step_same; [exact Efin| |exact IH].
          destruct (Nat.eq_dec c c0) as [->|Hne]; [rewrite Hd', Hd, Hsrv; reflexivity|].
          rewrite (Hoth' c Hne), (Hoth c Hne), Hsrv. reflexivity.
      + destruct (done_idle _ _ _ _ T Er) as (_ & Hd).
        destruct (Nat.leb_spec (cost_of c0 (srv c0 T)) 1) as [Hw|Hw].
        * destruct (done_idle _ _ _ _ (S T) Erun) as (_ & Hd').
          apply (fin_step_app c T c0 _ Efin); [| |exact IH].
          -- rewrite Hd. apply nth_arrives. exact Hp0.
          -- rewrite Hd', Hd, (Hsrv c Hc). destruct (Nat.eqb_spec c c0) as [->|Hne].
             ++ rewrite Nat.eqb_refl. lia.
             ++ destruct (Nat.eqb_spec c0 c) as [E|_]; [congruence|lia].
        * destruct (done_running _ _ _ _ (S T) c0 _ _ Erun) as (_ & _ & _ & Hd' & _ & Hoth').
          apply fin_step_same; [exact Efin| |exact IH].
          destruct (Nat.eq_dec c c0) as [->|Hne].
          -- rewrite Hd', Hd, (Hsrv c0 Hc0), Nat.eqb_refl. lia.
          -- rewrite (Hoth' c Hne), Hd, (Hsrv c Hc). destruct (Nat.eqb_spec c c0) as [E|_]; [congruence|reflexivity].
      + apply fin_step_same; [exact Efin| |exact IH].
        unfold RrSound.done, RrSound.runs_cb. rewrite Erun, Er, Hsrv. reflexivity.
  Qed.

  Lemma finished_prefix : forall T T', T <= T' -> exists l, Executor.finished (st T') = Executor.finished (st T) ++ l.
  Proof.
    intros T T' Hle. induction Hle as [|T' Hle (l & IH)]; [exists []; rewrite app_nil_r; reflexivity|].
    slot T'; rewrite Efin, IH.
    - exists l. reflexivity.
    - destruct (r0 <=? 1); [rewrite <- app_assoc|]; eexists; reflexivity.
    - destruct (cost_of c0 (srv c0 T') <=? 1); [rewrite <- app_assoc|]; eexists; reflexivity.
    - exists l. reflexivity.
  Qed.

  (* an instance that the counters report as completed at T has an entry in the list of every longer run *)
  Lemma completed_entry : forall c k a T T', c < n -> arrives c k a -> k < done c T -> T <= T' ->
    exists f, nth_error (fin_of c T') k = Some (c, a, f) /\ f <= T.
  Proof.
    intros c k a T T' Hc Ha Hk Hle. destruct (fin_inv T c Hc) as (Hl & Hent).
    destruct (nth_error (fin_of c T) k) as [e|] eqn:E.
    2:{ apply nth_error_None in E. lia. }
    destruct (Hent k e E) as (a' & f & -> & Ha' & Hf).
    rewrite (arrives_fun arr c k a' a Ha' Ha) in E. exists f. split; [|exact Hf].
    destruct (finished_prefix T T' Hle) as (l & El). unfold fin_of in *. rewrite El, filter_app.
    rewrite nth_error_app1; [exact E|]. apply nth_error_Some. rewrite E. discriminate.
  Qed.

  Lemma fin_of_In : forall c T e, In e (fin_of c T) -> In e (Executor.finished (st T)).
  Proof. intros c T e Hin. unfold fin_of in Hin. apply filter_In in Hin. apply Hin. Qed.

  Lemma in_arr_arrives : forall c a, In c (arr a) -> arrives c (narr c a) a.
  Proof.
    intros c a Hin. unfold RrSound.arrives. rewrite narr_S.
    apply (count_occ_In Nat.eq_dec) in Hin. lia.
  Qed.

  (* what the corollaries conclude about callback i: no completed instance took longer than R; every instance
     whose bound expires within the horizon has completed, the k-th released instance being the k-th entry of
     callback i in the list of completed instances *)
  Definition executor_meets_bound (i R : nat) : Prop :=
    forall H,
      (forall a f, In (i, a, f) (Executor.finished (run cbs cost_of H arr sigma)) -> f - a <= R) /\
      (forall k a, arrives i k a -> a + R <= H ->
         exists f, nth_error (fin_of i H) k = Some (i, a, f) /\ f <= a + R) /\
      (forall a, In i (arr a) -> a + R <= H ->
         exists f, In (i, a, f) (Executor.finished (run cbs cost_of H arr sigma)) /\ f <= a + R).

  Lemma meets_bound_of_done : forall i R, i < n ->
    (forall k a, arrives i k a -> k < done i (a + R)) -> executor_meets_bound i R.
  Proof.
    intros i R Hi Hd H.
    assert (H2 : forall k a, arrives i k a -> a + R <= H ->
              exists f, nth_error (fin_of i H) k = Some (i, a, f) /\ f <= a + R).
    { intros k a Ha Hle. apply (completed_entry i k a (a + R) H Hi Ha (Hd k a Ha) Hle). }
    split; [|split; [exact H2|]].
    - intros a f Hin. change (run cbs cost_of H arr sigma) with (st H) in Hin.
      destruct (finished_origin cbs cost_of arr sigma H i a f Hin) as (t & k & -> & Ht & _ & Ha & Hdk).
      specialize (Hd k a Ha). destruct (Nat.le_gt_cases (a + R) t) as [Hle|Hgt]; [|lia].
      pose proof (done_mono cbs cost_of arr sigma i (a + R) t Hi Hle). lia.
    - intros a Hin Hle. destruct (H2 _ a (in_arr_arrives i a Hin) Hle) as (f & E & Hf).
      exists f. split; [|exact Hf]. apply nth_error_In in E. apply (fin_of_In i H _ E).
  Qed.
End Finished.

(* ------------------------------------------------------------------------------------------ *)
(* Part 4: the C04 theorems for the operational executor                                       *)
(* ------------------------------------------------------------------------------------------ *)
(* arr t lists the callbacks released in slot t; the release times of callback c form an event sequence that
   is admissible for the arrival model of task c (as [arrivals_ok] of RrSound.v) *)
Definition arrivals_ok_t (tasks : list task) (arr : nat -> list nat) : Prop :=
  forall c, c < length tasks -> exists es, admissible (fst (nth c tasks (Never, 0%N))) es /\
    forall t, count_occ Nat.eq_dec (arr t) c = count_occ Nat.eq_dec es t.

(* the k-th started instance of callback c executes for at least one and at most WCET_c time units *)
Definition costs_ok_t (tasks : list task) (cost_of : nat -> nat -> nat) : Prop :=
  forall c k, c < length tasks -> 1 <= cost_of c k <= N.to_nat (snd (nth c tasks (Never, 0%N))).

Lemma count_occ_arrs_upto : forall arr c T x,
  count_occ Nat.eq_dec (arrs_upto arr c T) x = if x <? T then count_occ Nat.eq_dec (arr x) c else 0.
Proof.
  intros arr c T x. induction T as [|T IH]; [reflexivity|].
  rewrite arrs_upto_S, count_occ_app, IH.
  destruct (Nat.eq_dec x T) as [->|Hne].
  - rewrite count_occ_repeat_eq by reflexivity.
    destruct (Nat.ltb_spec T T); destruct (Nat.ltb_spec T (S T)); lia.
  - rewrite count_occ_repeat_neq by exact Hne.
    destruct (Nat.ltb_spec x T); destruct (Nat.ltb_spec x (S T)); lia.
Qed.

Lemma filter_map_const : forall {A B} (p : B -> bool) (g : A -> B) (b : bool) l,
  (forall x, p (g x) = b) -> filter p (map g l) = if b then map g l else [].
Proof.
  intros A B p g b l Hp. induction l as [|x l IH]; cbn [map filter]; [destruct b; reflexivity|].
  rewrite Hp, IH. destruct b; reflexivity.
Qed.

(* the releases of callback c in the job list are its arrivals before H, in order *)
Lemma arrivals_of_run_jobs : forall cbs cost_of arr H c, c < length cbs ->
  arrivals_of (run_jobs cbs cost_of arr H) c = arrs_upto arr c H.
Proof.
  intros cbs cost_of arr H c Hc.
  change (run_jobs cbs cost_of arr H)
    with (enum (fun c => narr arr c H) (fun c k => mkJob c (aof arr H c k) (cost_of c k)) (length cbs)).
  assert (Hgen : forall m, arrivals_of (enum (fun c => narr arr c H) (fun c k => mkJob c (aof arr H c k) (cost_of c k)) m) c
                           = if c <? m then arrs_upto arr c H else []).
  { induction m as [|m IH]; [reflexivity|].
    rewrite enum_S. unfold arrivals_of in *. rewrite filter_app, map_app, IH.
    rewrite (filter_map_const (fun j => j_task j =? c) _ (m =? c)) by (intros x; reflexivity).
    destruct (Nat.eqb_spec m c) as [->|Hne].
    - rewrite map_map. cbn [j_arr]. unfold aof. unfold RrSound.narr. rewrite map_nth_seq.
      destruct (Nat.ltb_spec c c); destruct (Nat.ltb_spec c (S c)); try lia. reflexivity.
    - cbn [map]. rewrite app_nil_r. destruct (Nat.ltb_spec c m); destruct (Nat.ltb_spec c (S m)); try lia; reflexivity. }
  rewrite Hgen. destruct (Nat.ltb_spec c (length cbs)); [reflexivity|lia].
Qed.

Lemma no_arrivals_mono : forall cbs arr H H', no_arrivals_from cbs arr H -> H <= H' -> no_arrivals_from cbs arr H'.
Proof. intros cbs arr H H' Hf Hle t c Ht Hc. apply Hf; [lia|exact Hc]. Qed.

(* an arrival function that complies with (finite) admissible event sequences has a last arrival *)
Lemma arrivals_finite : forall (tasks : list task) cbs arr, length cbs = length tasks -> arrivals_ok_t tasks arr ->
  exists H, no_arrivals_from cbs arr H.
Proof.
  intros tasks cbs arr Hlen Harr.
  assert (Hgen : forall m, m <= length tasks -> exists H, forall t c, H <= t -> c < m -> count_occ Nat.eq_dec (arr t) c = 0).
  { induction m as [|m IH]; intros Hm; [exists 0; intros; lia|].
    destruct (IH ltac:(lia)) as (H1 & HH1). destruct (Harr m ltac:(lia)) as (es & _ & Hes).
    exists (Nat.max H1 (S (list_max es))). intros t c Ht Hc.
    destruct (Nat.eq_dec c m) as [->|Hne]; [|apply HH1; lia].
    rewrite Hes. apply count_occ_not_In. intros Hin.
    pose proof (proj1 (list_max_le es (list_max es)) (le_n _)) as Hall. rewrite Forall_forall in Hall.
    specialize (Hall t Hin). lia. }
  destruct (Hgen (length tasks) (le_n _)) as (H & HH). exists H. intros t c Ht Hc. apply HH; [exact Ht|lia].
Qed.

Section Core.
  Variable tasks : list task.
  Variable cbs : list cbdef.
  Variable cost_of : nat -> nat -> nat.
  Variable arr : nat -> list nat.
  Variable sigma : nat -> bool.
  Hypothesis Hlen : length cbs = length tasks.
  Hypothesis Harr : arrivals_ok_t tasks arr.
  Hypothesis Hcost : costs_ok_t tasks cost_of.

  Lemma core_cost1 : forall c k, c < length cbs -> 1 <= cost_of c k.
  Proof. intros c k Hc. rewrite Hlen in Hc. apply (Hcost c k Hc). Qed.

  Lemma core_curves : forall H, no_arrivals_from cbs arr H -> respects_curves tasks (run_jobs cbs cost_of arr H).
  Proof.
    intros H Hfin c Hc. destruct (Harr c Hc) as (es & Hadm & Hes). exists es. split; [|exact Hadm].
    rewrite arrivals_of_run_jobs by (rewrite Hlen; exact Hc).
    apply (Permutation_count_occ Nat.eq_dec). intros x. rewrite count_occ_arrs_upto, <- Hes.
    destruct (Nat.ltb_spec x H) as [_|Hge]; [reflexivity|]. apply Hfin; [exact Hge|rewrite Hlen; exact Hc].
  Qed.

  Lemma core_costs : forall H, respects_costs tasks (run_jobs cbs cost_of arr H).
  Proof.
    intros H j Hin. destruct (In_nth _ _ (mkJob 0 0 0) Hin) as (x & Hx & <-).
    destruct (jobs_decode cbs cost_of arr H x Hx) as (c & k & Hc & Hk & ->).
    rewrite (jobs_nth cbs cost_of arr H c k Hc Hk). cbn [j_task j_cost]. rewrite Hlen in Hc.
    split; [exact Hc|]. apply (Hcost c k Hc).
  Qed.

  (* a response-time bound for all the jobs of callback i of every (long enough) job list of the run, in the
     sense of the abstract class, is a bound on the executor's completion counter *)
  Lemma core_done : forall i R, i < length cbs ->
    (forall H, no_arrivals_from cbs arr H -> forall k, k < narr arr i H ->
       completes_within (run_jobs cbs cost_of arr H) (run_sched cbs cost_of arr sigma H) (jid arr H i k) R) ->
    forall k a, arrives arr i k a -> k < done cbs cost_of arr sigma i (a + R).
  Proof.
    intros i R Hi Hcw k a Ha. destruct (arrivals_finite tasks cbs arr Hlen Harr) as (H & Hfin).
    destruct (arrives_aof cbs arr H Hfin i k a Hi Ha) as (Hk & Eaof).
    specialize (Hcw H Hfin k Hk). unfold completes_within in Hcw.
    rewrite (job_arr cbs cost_of arr H i k Hi Hk), (job_cost cbs cost_of arr H i k Hi Hk), Eaof in Hcw.
    destruct (Nat.lt_ge_cases k (done cbs cost_of arr sigma i (a + R))) as [Hlt|Hge]; [exact Hlt|].
    apply (service_lt_cost_iff cbs cost_of arr sigma H core_cost1 Hfin (a + R) i k Hi Hk) in Hge. lia.
  Qed.
End Core.

(* polling-point-callback analysis (Lemmas 4/5): callback i of the executor, timer or polled; the interfering
   demand is the aggregate of ALL the other callbacks of the executor *)
Theorem pp_sound_executor : forall dbg sb (tasks : list task) i limit R cbs cost_of arr sigma,
  wf_sb sb -> supply_admits sb sigma -> Forall fifo_task_ok tasks ->
  length cbs = length tasks -> i < length tasks ->
  arrivals_ok_t tasks arr -> costs_ok_t tasks cost_of ->
  e_pp dbg sb (rb_of (nth i tasks (Never, 0%N))) (Agg (map rb_of (remove_nth i tasks))) limit = ROk R ->
  executor_meets_bound cbs cost_of arr sigma i (N.to_nat R).
Proof.
  intros dbg sb tasks i limit R cbs cost_of arr sigma Hwf Hadm Hok Hlen Hi Harr Hcost He.
  assert (Hi' : i < length cbs) by (rewrite Hlen; exact Hi).
  pose proof (core_cost1 tasks cbs cost_of Hlen Hcost) as Hc1.
  apply meets_bound_of_done; [exact Hi'|].
  apply (core_done tasks cbs cost_of arr sigma Hlen Harr Hcost i (N.to_nat R) Hi').
  intros H Hfin k Hk.
  apply (pp_sound dbg sb tasks i limit R (run_jobs cbs cost_of arr H) (run_sched cbs cost_of arr sigma H) sigma
           Hwf Hadm Hok Hi He).
  - apply run_valid; assumption.
  - apply run_uses_supply.
  - apply run_work_conserving; assumption.
  - apply run_runs_to_completion; assumption.
  - apply run_fifo_within_task; assumption.
  - apply (core_curves tasks cbs cost_of arr Hlen Harr H Hfin).
  - apply (core_costs tasks cbs cost_of arr Hlen Hcost H).
  - apply jid_lt; assumption.
  - apply job_task; assumption.
Qed.
Print Assumptions pp_sound_executor.

(* timer analysis (Lemma 3): timer i; hp = the interfering timers: {i} + hp is a set of timers that is closed
   under the executor's order [precedes] (priority number, then index): every timer that precedes a member is a
   member.  The least such hp is the set of timers that precede i; every callback outside {i} + hp (the polled
   callbacks and the timers that i precedes) has WCET at most B *)
Theorem timer_sound_executor : forall dbg sb (tasks : list task) i (hp : nat -> bool) B limit R cbs cost_of arr sigma,
  wf_sb sb -> supply_admits sb sigma -> Forall fifo_task_ok tasks ->
  length cbs = length tasks -> i < length tasks ->
  arrivals_ok_t tasks arr -> costs_ok_t tasks cost_of ->
  is_timer (cb cbs i) = true -> hp i = false ->
  (forall c, c < length tasks -> hp c = true -> is_timer (cb cbs c) = true) ->
  (forall c c', c < length tasks -> c' < length tasks -> is_timer (cb cbs c) = true ->
     c' = i \/ hp c' = true -> precedes cbs c c' -> c = i \/ hp c = true) ->
  (forall i', i' < length tasks -> i' <> i -> hp i' = false -> (snd (nth i' tasks (Never, 0%N)) <= B)%N) ->
  e_timer dbg sb (rb_of (nth i tasks (Never, 0%N))) (Agg (map rb_of (select_tasks hp tasks))) B limit = ROk R ->
  executor_meets_bound cbs cost_of arr sigma i (N.to_nat R).
Proof.
  intros dbg sb tasks i hp B limit R cbs cost_of arr sigma Hwf Hadm Hok Hlen Hi Harr Hcost Htmi Hhpi Hhpt Hcl HB He.
  assert (Hi' : i < length cbs) by (rewrite Hlen; exact Hi).
  pose proof (core_cost1 tasks cbs cost_of Hlen Hcost) as Hc1.
  apply meets_bound_of_done; [exact Hi'|].
  apply (core_done tasks cbs cost_of arr sigma Hlen Harr Hcost i (N.to_nat R) Hi').
  intros H Hfin k Hk.
  apply (timer_sound dbg sb tasks i hp B limit R (run_jobs cbs cost_of arr H) (run_sched cbs cost_of arr sigma H) sigma
           Hwf Hadm Hok Hi Hhpi HB He).
  - apply run_valid; assumption.
  - apply run_uses_supply.
  - apply run_work_conserving; assumption.
  - apply run_runs_to_completion; assumption.
  - apply run_fifo_within_task; assumption.
  - apply run_precedence; try assumption.
    + intros c Hc Hh. rewrite Hlen in Hc. apply orb_true_iff in Hh. destruct Hh as [Hh|Hh].
      * apply Nat.eqb_eq in Hh. subst c. exact Htmi.
      * apply Hhpt; assumption.
    + intros c c' Hc Hc' Htc Hh Hle. rewrite Hlen in Hc, Hc'. apply orb_true_iff.
      assert (Hd : c' = i \/ hp c' = true).
      { apply orb_true_iff in Hh. destruct Hh as [Hh|Hh]; [left; apply Nat.eqb_eq; exact Hh|right; exact Hh]. }
      destruct (Hcl c c' Hc Hc' Htc Hd Hle) as [->|Hx]; [left; apply Nat.eqb_refl|right; exact Hx].
  - apply (core_curves tasks cbs cost_of arr Hlen Harr H Hfin).
  - apply (core_costs tasks cbs cost_of arr Hlen Hcost H).
  - apply jid_lt; assumption.
  - apply job_task; assumption.
Qed.
Print Assumptions timer_sound_executor.

(* ------------------------------------------------------------------------------------------ *)
(* Part 5: non-vacuity                                                                         *)
(* ------------------------------------------------------------------------------------------ *)
Lemma single_release_ok : forall (a t : nat) (l : list nat) c,
  count_occ Nat.eq_dec (if t =? a then l else []) c = if t =? a then count_occ Nat.eq_dec l c else 0.
Proof. intros a t l c. destruct (t =? a); reflexivity. Qed.

Lemma adm_one : forall a : nat, admissible (Sporadic 20 0) [a].
Proof.
  intros a. replace [a] with (zip_add [a] [0]) by (cbn; rewrite Nat.add_0_r; reflexivity).
  apply adm_sporadic; cbn; auto.
Qed.

Lemma count_occ_one : forall a t : nat, count_occ Nat.eq_dec [a] t = if t =? a then 1 else 0.
Proof.
  intros a t. cbn [count_occ]. destruct (Nat.eq_dec a t) as [->|Hne]; [rewrite Nat.eqb_refl; reflexivity|].
  destruct (Nat.eqb_spec t a); [congruence|reflexivity].
Qed.

(* (a) polling-point analysis.  Reservation PeriodicS 2 5 with the budget placement [pp_sigma] of PpSound.v (supplied
   slots 0, 1, 8, 9, 13, 14, ...); two polled callbacks (WCET 2 and 1, sporadic 20), both released at time 2, the
   executor prefers callback 1.  At the polling point 8 the executor admits both, runs callback 1 in slot 8 and
   callback 0 in slots 9 and 13: response time 12 = the analysis' bound. *)
Definition cbs_pp : list cbdef := [mkCbdef false 1; mkCbdef false 0].
Definition arr_pp (t : nat) : list nat := if t =? 2 then [0; 1] else [].
Definition cost_pp (c k : nat) : nat := match c with 0 => 2 | _ => 1 end.

Lemma arr_pp_ok : arrivals_ok_t pp_tasks arr_pp.
Proof.
  intros c Hc. exists [2]. assert (Hab : fst (nth c pp_tasks (Never, 0%N)) = Sporadic 20 0).
  { destruct c as [|[|c]]; [reflexivity|reflexivity|cbn in Hc; lia]. }
  rewrite Hab. split; [apply adm_one|]. intros t. unfold arr_pp. rewrite single_release_ok, count_occ_one.
  destruct (t =? 2); [|reflexivity]. destruct c as [|[|c]]; [reflexivity|reflexivity|cbn in Hc; lia].
Qed.

Lemma cost_pp_ok : costs_ok_t pp_tasks cost_pp.
Proof. intros c k Hc. destruct c as [|[|c]]; [cbn; lia|cbn; lia|cbn in Hc; lia]. Qed.

Theorem pp_sound_executor_nonvacuous :
  executor_meets_bound cbs_pp cost_pp arr_pp pp_sigma 0 12 /\
  Executor.finished (run cbs_pp cost_pp 14 arr_pp pp_sigma) = [(1, 2, 9); (0, 2, 14)].
Proof.
  split; [|vm_compute; reflexivity].
  exact (pp_sound_executor false pp_sb pp_tasks 0 100%N 12%N cbs_pp cost_pp arr_pp pp_sigma pp_sb_wf pp_sigma_ok
           pp_tasks_ok eq_refl ltac:(cbn; lia) arr_pp_ok cost_pp_ok pp_analysis).
Qed.
Print Assumptions pp_sound_executor_nonvacuous.

(* (b) timer analysis, no interfering timer.  Timer 0 (WCET 2) and a polled callback (WCET 2 = B): the polled
   instance is released at 1, starts in slot 1 and is in progress when the timer instance is released at 2; it
   occupies slot 8, the timer runs in slots 9 and 13: response time 12, bound 13. *)
Definition cbs_tm : list cbdef := [mkCbdef true 0; mkCbdef false 0].
Definition arr_tm (t : nat) : list nat := if t =? 1 then [1] else if t =? 2 then [0] else [].
Definition cost_tm (c k : nat) : nat := 2.

Lemma arr_tm_ok : arrivals_ok_t tm_tasks arr_tm.
Proof.
  intros c Hc. destruct c as [|[|c]]; [| |cbn in Hc; lia].
  - exists [2]. split; [apply adm_one|]. intros t. unfold arr_tm. rewrite count_occ_one.
    destruct (Nat.eqb_spec t 1) as [->|_]; [reflexivity|]. destruct (t =? 2); reflexivity.
  - exists [1]. split; [apply adm_one|]. intros t. unfold arr_tm. rewrite count_occ_one.
    destruct (Nat.eqb_spec t 1) as [->|_]; [reflexivity|]. destruct (t =? 2); reflexivity.
Qed.

Lemma cost_tm_ok : costs_ok_t tm_tasks cost_tm.
Proof. intros c k Hc. unfold cost_tm. destruct c as [|[|c]]; [cbn; lia|cbn; lia|cbn in Hc; lia]. Qed.

Theorem timer_sound_executor_nonvacuous :
  executor_meets_bound cbs_tm cost_tm arr_tm pp_sigma 0 13 /\
  Executor.finished (run cbs_tm cost_tm 14 arr_tm pp_sigma) = [(1, 1, 9); (0, 2, 14)].
Proof.
  split; [|vm_compute; reflexivity].
  refine (timer_sound_executor false pp_sb tm_tasks 0 (fun _ => false) 2%N 100%N 13%N cbs_tm cost_tm arr_tm pp_sigma
            pp_sb_wf pp_sigma_ok tm_tasks_ok eq_refl ltac:(cbn; lia) arr_tm_ok cost_tm_ok eq_refl eq_refl _ _ _ tm_analysis).
  - intros c _ Hh. discriminate Hh.
  - intros c c' Hc Hc' Htc [->|Hh] _; [|discriminate Hh]. left.
    destruct c as [|[|c]]; [reflexivity|discriminate Htc|cbn in Hc; lia].
  - intros [|[|i']] Hi' Hne _; [contradiction|cbn; lia|cbn in Hi'; lia].
Qed.
Print Assumptions timer_sound_executor_nonvacuous.

(* (c) timer analysis with an interfering timer.  Timer 0 (priority number 1, WCET 2) under analysis, timer 1
   (priority number 0, WCET 1) interferes, polled callback 2 (WCET 2 = B).  The polled instance is released at 1 and is
   in progress when both timers are released at 2; it occupies slot 8, timer 1 slot 9, timer 0 slots 13 and 14:
   response time 13, bound 17. *)
Definition t3_tasks : list task := [(Sporadic 20 0, 2%N); (Sporadic 20 0, 1%N); (Sporadic 20 0, 2%N)].
Definition t3_hp (c : nat) : bool := c =? 1.
Definition cbs_t3 : list cbdef := [mkCbdef true 1; mkCbdef true 0; mkCbdef false 0].
Definition arr_t3 (t : nat) : list nat := if t =? 1 then [2] else if t =? 2 then [0; 1] else [].
Definition cost_t3 (c k : nat) : nat := match c with 1 => 1 | _ => 2 end.

Example t3_tasks_ok : Forall fifo_task_ok t3_tasks.
Proof. repeat constructor; cbn; lia. Qed.

Example t3_analysis :
  e_timer false pp_sb (rb_of (nth 0%nat t3_tasks (Never, 0%N))) (Agg (map rb_of (select_tasks t3_hp t3_tasks))) 2%N 100%N
  = ROk 17%N.
Proof. vm_compute. reflexivity. Qed.

Lemma arr_t3_ok : arrivals_ok_t t3_tasks arr_t3.
Proof.
  intros c Hc. destruct c as [|[|[|c]]]; [| | |cbn in Hc; lia].
  - exists [2]. split; [apply adm_one|]. intros t. unfold arr_t3. rewrite count_occ_one.
    destruct (Nat.eqb_spec t 1) as [->|_]; [reflexivity|]. destruct (t =? 2); reflexivity.
  - exists [2]. split; [apply adm_one|]. intros t. unfold arr_t3. rewrite count_occ_one.
    destruct (Nat.eqb_spec t 1) as [->|_]; [reflexivity|]. destruct (t =? 2); reflexivity.
  - exists [1]. split; [apply adm_one|]. intros t. unfold arr_t3. rewrite count_occ_one.
    destruct (Nat.eqb_spec t 1) as [->|_]; [reflexivity|]. destruct (t =? 2); reflexivity.
Qed.

Lemma cost_t3_ok : costs_ok_t t3_tasks cost_t3.
Proof. intros c k Hc. destruct c as [|[|[|c]]]; [cbn; lia|cbn; lia|cbn; lia|cbn in Hc; lia]. Qed.

Theorem timer_sound_executor_nonvacuous_hp :
  executor_meets_bound cbs_t3 cost_t3 arr_t3 pp_sigma 0 17 /\
  Executor.finished (run cbs_t3 cost_t3 15 arr_t3 pp_sigma) = [(2, 1, 9); (1, 2, 10); (0, 2, 15)].
Proof.
  split; [|vm_compute; reflexivity].
  refine (timer_sound_executor false pp_sb t3_tasks 0 t3_hp 2%N 100%N 17%N cbs_t3 cost_t3 arr_t3 pp_sigma
            pp_sb_wf pp_sigma_ok t3_tasks_ok eq_refl ltac:(cbn; lia) arr_t3_ok cost_t3_ok eq_refl eq_refl _ _ _ t3_analysis).
  - intros c Hc Hh. apply Nat.eqb_eq in Hh. subst c. reflexivity.
  - intros c c' Hc Hc' Htc _ _.
    destruct c as [|[|[|c]]]; [left; reflexivity|right; reflexivity|discriminate Htc|cbn in Hc; lia].
  - intros [|[|[|i']]] Hi' Hne Hh; [contradiction|discriminate Hh|cbn; lia|cbn in Hi'; lia].
Qed.
Print Assumptions timer_sound_executor_nonvacuous_hp.


(* ------------------------------------------------------------------------------------------ *)
(* Part 6: executable checks of the class hypotheses (the tests that preceded the proofs)      *)
(* ------------------------------------------------------------------------------------------ *)
Section Checkers.
  Variable jobs : list job.
  Variable sched : nat -> option nat.
  Variable sigma : nat -> bool.
  Variable T : nat.
  Notation nj := (length jobs).
  Definition pendb (k t : nat) : bool :=
    (k <? nj) && (Sched.arr jobs k <=? t) && (service sched k t <? Sched.cost jobs k).
  Definition all_t (f : nat -> bool) : bool := forallb f (seq 0 T).
  Definition all_j (f : nat -> bool) : bool := forallb f (seq 0 nj).
  Definition tskb (k : nat) : nat := j_task (nth k jobs (mkJob 0 0 0)).
  Definition validb : bool := all_t (fun t => match sched t with Some j => pendb j t | None => true end).
  Definition usesb : bool := all_t (fun t => match sched t with Some j => sigma t | None => true end).
  Definition wcb : bool :=
    all_t (fun t => all_j (fun k => negb (pendb k t && sigma t) || match sched t with Some _ => true | None => false end)).
  Definition rtcb : bool :=
    all_t (fun t => all_j (fun k =>
      negb ((0 <? service sched k t) && (service sched k t <? Sched.cost jobs k) && sigma t) ||
      match sched t with Some j => j =? k | None => false end)).
  Definition fifob : bool :=
    all_t (fun t => match sched t with
                    | Some k => all_j (fun k' => negb (pendb k' t && (tskb k =? tskb k')) ||
                                                 (Sched.arr jobs k <=? Sched.arr jobs k'))
                    | None => true
                    end).
  Definition precb (hiT : nat -> bool) : bool :=
    all_t (fun t => match sched t with
                    | Some k => negb (service sched k t =? 0) ||
                                all_j (fun k' => negb (pendb k' t && hiT (tskb k')) || hiT (tskb k))
                    | None => true
                    end).
  Definition class_checks (hiT : nat -> bool) : list bool := [validb; usesb; wcb; rtcb; fifob; precb hiT].
End Checkers.
(* the same with the schedule tabulated once *)
Definition class_checks_tab (jobs : list job) (sched : nat -> option nat) (sigma : nat -> bool) (T : nat)
    (hiT : nat -> bool) : list bool :=
  let tab := map sched (seq 0 T) in class_checks jobs (fun t => nth t tab None) sigma T hiT.

(* system 1: timers 0 (priority number 1) and 1 (priority number 0), polled callbacks 2 and 3; bursts, a release
   of an unknown callback (7), two instances of one callback in one slot; supply two slots out of three *)
Definition x1_cbs : list cbdef := [mkCbdef true 1; mkCbdef true 0; mkCbdef false 0; mkCbdef false 1].
Definition x1_arr (t : nat) : list nat :=
  match t with 0 => [3; 2] | 1 => [0; 3] | 2 => [1; 2] | 4 => [2; 2; 0] | 5 => [1; 3] | 9 => [0; 1; 2; 3] | 10 => [7] | _ => [] end.
Definition x1_cost (c k : nat) : nat := 1 + (c + k) mod 3.
Definition x1_sigma (t : nat) : bool := negb (t mod 3 =? 1).

Example x1_checks :
  class_checks_tab (run_jobs x1_cbs x1_cost x1_arr 12) (run_sched x1_cbs x1_cost x1_arr x1_sigma 12) x1_sigma 60
    (fun c => (c =? 0) || (c =? 1)) = [true; true; true; true; true; true] /\
  class_checks_tab (run_jobs x1_cbs x1_cost x1_arr 12) (run_sched x1_cbs x1_cost x1_arr x1_sigma 12) x1_sigma 60
    (fun c => c =? 1) = [true; true; true; true; true; true] /\
  (* {timer 0} alone is not closed under the executor's order: timer 1 precedes timer 0 *)
  class_checks_tab (run_jobs x1_cbs x1_cost x1_arr 12) (run_sched x1_cbs x1_cost x1_arr x1_sigma 12) x1_sigma 60
    (fun c => c =? 0) = [true; true; true; true; true; false].
Proof. vm_compute. repeat split. Qed.

(* system 2: polled callbacks with frequent releases and one timer; the horizon cuts the arrivals at 14 *)
Definition x2_cbs : list cbdef := [mkCbdef false 2; mkCbdef false 1; mkCbdef false 0; mkCbdef true 5].
Definition x2_arr (t : nat) : list nat :=
  if t mod 2 =? 0 then [0; 1; 2] else if t mod 5 =? 0 then [3; 1] else [2].
Definition x2_cost (c k : nat) : nat := 1 + (2 * c + k) mod 4.
Definition x2_sigma (t : nat) : bool := negb (t mod 4 =? 2).

Example x2_checks :
  class_checks_tab (run_jobs x2_cbs x2_cost x2_arr 14) (run_sched x2_cbs x2_cost (trunc_arr x2_arr 14) x2_sigma 14) x2_sigma 120
    (fun c => c =? 3) = [true; true; true; true; true; true].
Proof. vm_compute. reflexivity. Qed.

(* system 3: two timers with the SAME priority number: the executor prefers the smaller index.  {timer 0} is closed
   under [precedes], {timer 1} is not (timer 0 precedes timer 1: it must be counted as interfering) *)
Definition x3_cbs : list cbdef := [mkCbdef true 0; mkCbdef true 0; mkCbdef false 0].
Definition x3_arr (t : nat) : list nat := match t with 0 => [2; 1; 0] | 2 => [0; 1] | 3 => [2] | 5 => [1; 0] | _ => [] end.
Definition x3_cost (c k : nat) : nat := 1 + (c + k) mod 2.

Example x3_checks :
  class_checks_tab (run_jobs x3_cbs x3_cost x3_arr 8) (run_sched x3_cbs x3_cost x3_arr (fun _ => true) 8) (fun _ => true) 40
    (fun c => c =? 0) = [true; true; true; true; true; true] /\
  class_checks_tab (run_jobs x3_cbs x3_cost x3_arr 8) (run_sched x3_cbs x3_cost x3_arr (fun _ => true) 8) (fun _ => true) 40
    (fun c => c =? 1) = [true; true; true; true; true; false].
Proof. vm_compute. repeat split. Qed.
