(* ExhCorollaries.v — C06 for the four named fixed-priority analyses (instances of fp_generic). *)
From Coq Require Import List NArith Lia Bool.
From RTA.Model Require Import Base FixedPoint Analyses.
From RTA.Spec Require Import Exhaustive.
From RTA.Proofs Require Import FixedPointProofs ExhFP.

Lemma scaled_mono C arr : mono arr -> mono (fun d => C * arr d).
Proof. intros H a b Hab. specialize (H a b Hab). nia. Qed.

Lemma scaled_steps C arr steps : 1 <= C -> steps_exact arr steps -> steps_exact (fun d => C * arr d) steps.
Proof.
  intros HC H h d. rewrite (H h d). split; intros (A & B & E); (split; [exact A|split; [exact B|nia]]).
Qed.

Lemma scaled_step_gt C rem arr : rem < C -> forall d, C * arr (d - 1) < C * arr d -> C * arr (d - 1) + rem < C * arr d.
Proof. intros Hr d H. assert (arr (d - 1) < arr d) by nia. nia. Qed.

Section Named.
  Variables (arr hp : N -> N) (steps : N -> list N) (limit : N).
  Hypothesis arr_mono : mono arr.
  Hypothesis hp_mono : mono hp.
  Hypothesis arr0 : arr 0 = 0.
  Hypothesis arr_arrives : 0 < arr 1.
  Hypothesis steps_ok : steps_exact arr steps.

  Theorem fp_np_exhaustive : forall dbg C B, 1 <= C ->
    fp_np dbg C B arr hp steps limit = exh_fp B (C - 1) (fun d => C * arr d) hp limit.
  Proof.
    intros dbg C B HC. unfold fp_np.
    replace (1 <=? C) with true by (symmetry; apply N.leb_le; exact HC).
    apply fp_generic_exhaustive.
    - apply scaled_mono; exact arr_mono.
    - exact hp_mono.
    - apply scaled_steps; assumption.
    - nia.
    - rewrite arr0. lia.
    - apply scaled_step_gt. lia.
  Qed.

  Theorem fp_lp_exhaustive : forall dbg C last B, 1 <= last -> last <= C ->
    fp_lp dbg C last B arr hp steps limit = exh_fp B (last - 1) (fun d => C * arr d) hp limit.
  Proof.
    intros dbg C last B Hl HC. unfold fp_lp.
    replace ((1 <=? last) && (last - 1 <=? C)) with true.
    2:{ symmetry. apply andb_true_iff. split; apply N.leb_le; lia. }
    apply fp_generic_exhaustive.
    - apply scaled_mono; exact arr_mono.
    - exact hp_mono.
    - apply scaled_steps; [lia|assumption].
    - nia.
    - rewrite arr0. lia.
    - apply scaled_step_gt. lia.
  Qed.
End Named.

Section Rbf.
  Variables (tua hp : N -> N) (steps : N -> list N) (limit : N).
  Hypothesis tua_mono : mono tua.
  Hypothesis hp_mono : mono hp.
  Hypothesis tua0 : tua 0 = 0.
  Hypothesis tua_arrives : 0 < tua 1.
  Hypothesis steps_ok : steps_exact tua steps.

  Theorem fp_fp_exhaustive : forall dbg, fp_fp dbg tua hp steps limit = exh_fp 0 0 tua hp limit.
  Proof. intros dbg. unfold fp_fp. apply fp_generic_exhaustive; try assumption. intros d H. lia. Qed.

  Theorem fp_fnp_exhaustive : forall dbg B, fp_fnp dbg B tua hp steps limit = exh_fp B 0 tua hp limit.
  Proof. intros dbg B. unfold fp_fnp. apply fp_generic_exhaustive; try assumption. intros d H. lia. Qed.
End Rbf.
