(* ExhEDF.v — C06 for the four EDF analyses: the model [edf_generic] (search space = deduplicated
   merge of the step offsets of the task under analysis and of the shifted step offsets of the other
   tasks; fixed-point iteration) returns exactly the value of the naive exhaustive evaluator
   [exh_edf] of Spec/Exhaustive.v (every offset in [0, L), linear scan).

   Contents
   1. list helpers: [in_merge], [in_kmerge], [in_dedup], [all_some_map], [sumN_map_le],
      [filter_map_comm], [least_fix_le], [exhaustive_ext];
   2. the search space: [other_offsets_spec], [search_space_spec];
   3. dominance of the offsets outside the search space: [edf_rhs_step], [edf_dominated];
   4. [edf_generic_exhaustive], [edf_generic_no_panic];
   5. [edf_generic_total]: with the truncated subtraction tua (A + 1) - rem (saturating_sub in
      edf/fully_nonpreemptive.rs and edf/limited_preemptive.rs), monotone request-bound functions
      alone exclude a panic and make the result independent of the build profile: the task under
      analysis need not be able to release a job (arrival::Never, sparse ApproximatedPoisson). *)
From Coq Require Import List NArith Lia Bool.
From RTA.Model Require Import Base FixedPoint Analyses.
From RTA.Spec Require Import Exhaustive.
From RTA.Proofs Require Import FixedPointProofs ExhFP.

Definition other_triple (o : edf_other) : (N -> N) * N * N := (o_rbf o, o_dl o, o_seg o).

(* ------------------------------------------------------------------------------------------ *)
(* 1. helper lemmas                                                                            *)
(* ------------------------------------------------------------------------------------------ *)

Lemma merge_nil_l : forall l2, merge [] l2 = l2.
Proof. intros [|a l]; reflexivity. Qed.

Lemma merge_nil_r : forall l1, merge l1 [] = l1.
Proof. intros [|a l]; reflexivity. Qed.

Lemma merge_cons : forall a1 l1 a2 l2,
  merge (a1 :: l1) (a2 :: l2) =
  if a1 <=? a2 then a1 :: merge l1 (a2 :: l2) else a2 :: merge (a1 :: l1) l2.
Proof. reflexivity. Qed.

Lemma in_merge : forall x l1 l2, In x (merge l1 l2) <-> In x l1 \/ In x l2.
Proof.
  intros x l1. induction l1 as [|a1 l1 IH1]; intros l2.
  - rewrite merge_nil_l. cbn [In]. tauto.
  - induction l2 as [|a2 l2 IH2].
    + rewrite merge_nil_r. cbn [In]. tauto.
    + rewrite merge_cons. destruct (a1 <=? a2).
      * cbn [In]. rewrite IH1. cbn [In]. tauto.
      * cbn [In]. rewrite IH2. cbn [In]. tauto.
Qed.

Lemma in_kmerge : forall x ls, In x (kmerge ls) <-> exists l, In l ls /\ In x l.
Proof.
  intros x ls. induction ls as [|l ls IH].
  - cbn. split; [intros []|intros (l & [] & _)].
  - unfold kmerge in *. cbn [fold_right]. rewrite in_merge, IH. cbn [In]. split.
    + intros [H|(l' & H1 & H2)].
      * exists l. split; [left; reflexivity|exact H].
      * exists l'. split; [right; exact H1|exact H2].
    + intros (l' & [<-|H1] & H2).
      * left. exact H2.
      * right. exists l'. split; assumption.
Qed.

Lemma dedup_cons2 : forall a b l,
  dedup (a :: b :: l) = if a =? b then dedup (b :: l) else a :: dedup (b :: l).
Proof. reflexivity. Qed.

Lemma in_dedup : forall x l, In x (dedup l) <-> In x l.
Proof.
  intros x l. induction l as [|a l IH]; [reflexivity|].
  destruct l as [|b l]; [reflexivity|].
  rewrite dedup_cons2. destruct (N.eqb_spec a b) as [->|Hne].
  - rewrite IH. cbn [In]. tauto.
  - cbn [In] in *. rewrite IH. tauto.
Qed.

Lemma all_some_map : forall {A B} (f : A -> option B) (h : A -> B) (l : list A),
  (forall x, In x l -> f x = Some (h x)) -> all_some (map f l) = Some (map h l).
Proof.
  intros A B f h l. induction l as [|x l IH]; intros H; [reflexivity|].
  cbn [map all_some]. rewrite (H x (or_introl eq_refl)).
  rewrite IH; [reflexivity|]. intros y Hy. apply H. right. exact Hy.
Qed.

Lemma sumN_map_le : forall {A} (f g : A -> N) (l : list A),
  (forall x, In x l -> f x <= g x) -> sumN (map f l) <= sumN (map g l).
Proof.
  intros A f g l. induction l as [|x l IH]; intros H; [apply N.le_refl|].
  cbn [map sumN fold_right]. fold (sumN (map f l)). fold (sumN (map g l)).
  pose proof (H x (or_introl eq_refl)).
  assert (sumN (map f l) <= sumN (map g l)) by (apply IH; intros y Hy; apply H; right; exact Hy).
  lia.
Qed.

Lemma sumN_map_ext_in : forall {A} (f g : A -> N) (l : list A),
  (forall x, In x l -> f x = g x) -> sumN (map f l) = sumN (map g l).
Proof.
  intros A f g l H. f_equal. apply map_ext_in. exact H.
Qed.

Lemma filter_map_comm : forall {A B} (f : A -> B) (p : B -> bool) (l : list A),
  filter p (map f l) = map f (filter (fun x => p (f x)) l).
Proof.
  intros A B f p l. induction l as [|x l IH]; [reflexivity|].
  cbn [map filter]. destruct (p (f x)); cbn [map]; rewrite IH; reflexivity.
Qed.

(* a pointwise smaller right-hand side has a smaller least solution *)
Lemma least_fix_le : forall limit f g y, (forall x, f x <= g x) ->
  least_fix limit g = Some y -> exists x, least_fix limit f = Some x /\ x <= y.
Proof.
  intros limit f g y Hfg Hg. apply least_fix_spec in Hg. destruct Hg as (H1 & H2 & H3 & _).
  pose proof (Hfg y) as Hy.
  destruct (least_fix limit f) as [x|] eqn:E.
  - exists x. split; [reflexivity|]. apply least_fix_spec in E.
    destruct E as (_ & _ & _ & E4).
    destruct (N.le_gt_cases x y) as [Hle|Hgt]; [exact Hle|].
    specialize (E4 y H1 Hgt). lia.
  - exfalso. rewrite least_fix_none in E. specialize (E y H1 H2). lia.
Qed.

Lemma exhaustive_ext : forall limit bw bw' rhs rhs' bound,
  (forall L, bw L = bw' L) -> (forall A AF, rhs A AF = rhs' A AF) ->
  exhaustive limit bw rhs bound = exhaustive limit bw' rhs' bound.
Proof.
  intros limit bw bw' rhs rhs' bound Hbw Hrhs. unfold exhaustive.
  rewrite (least_fix_ext limit bw bw' Hbw).
  destruct (least_fix limit bw') as [L|]; [|reflexivity].
  cbv zeta.
  rewrite (map_ext (fun A => (A, least_fix limit (rhs A))) (fun A => (A, least_fix limit (rhs' A)))).
  - reflexivity.
  - intros A. f_equal. apply least_fix_ext. intros x. apply Hrhs.
Qed.

(* ------------------------------------------------------------------------------------------ *)
(* 2.-4. EDF                                                                                   *)
(* ------------------------------------------------------------------------------------------ *)

Section EDF.
  Variables (use_blocking : bool) (rem : N) (tua : N -> N) (tua_steps : N -> list N) (D : N).
  Variable others : list edf_other.
  Variable limit : N.
  Hypothesis tua_mono : mono tua.
  Hypothesis tua_steps_ok : steps_exact tua tua_steps.
  Hypothesis tua0 : tua 0 = 0.
  Hypothesis tua_arrives : 0 < tua 1.
  Hypothesis step_gt_rem : forall d, tua (d - 1) < tua d -> tua (d - 1) + rem < tua d.
  Hypothesis others_ok : forall o, In o others -> mono (o_rbf o) /\ steps_exact (o_rbf o) (o_steps o).

  Let bw := edf_bw_rhs tua others.
  Let rhs := edf_rhs use_blocking rem tua D others.
  Let g (A : N) : result :=
    match least_fix limit (rhs A) with Some AF => ROk (AF - A + rem) | None => RErr 0 limit end.

  (* ---------------- the exhaustive evaluator is stated over the same functions ---------------- *)

  Lemma exh_blocking_eq : forall A,
    exh_edf_blocking use_blocking D (map other_triple others) A = edf_blocking use_blocking D others A.
  Proof.
    intros A. unfold exh_edf_blocking, edf_blocking. destruct use_blocking; [|reflexivity].
    rewrite filter_map_comm, map_map. reflexivity.
  Qed.

  Lemma exh_edf_eq :
    exh_edf use_blocking rem tua D (map other_triple others) limit
    = exhaustive limit bw rhs (fun A AF => AF - A + rem).
  Proof.
    unfold exh_edf. apply exhaustive_ext.
    - intros L. unfold bw, edf_bw_rhs. rewrite map_map. reflexivity.
    - intros A AF. unfold rhs, edf_rhs, edf_hep. rewrite exh_blocking_eq, map_map. reflexivity.
  Qed.

  (* ---------------- monotonicity, positivity ---------------- *)

  Lemma rem_lt_tua : forall A, rem < tua (A + 1).
  Proof.
    intros A. pose proof (step_gt_rem 1) as H. change (1 - 1) with 0 in H.
    rewrite tua0 in H. specialize (H tua_arrives).
    pose proof (tua_mono 1 (A + 1)). lia.
  Qed.

  Lemma edf_bw_mono : mono bw.
  Proof.
    intros a b Hab. unfold bw, edf_bw_rhs.
    pose proof (tua_mono a b Hab).
    assert (sumN (map (fun o => o_rbf o a) others) <= sumN (map (fun o => o_rbf o b) others)).
    { apply sumN_map_le. intros o Ho. apply (proj1 (others_ok o Ho)). exact Hab. }
    lia.
  Qed.

  Lemma edf_bw_pos : 0 < bw 1.
  Proof. unfold bw, edf_bw_rhs. lia. Qed.

  Lemma edf_rhs_mono : forall A, mono (rhs A).
  Proof.
    intros A a b Hab. unfold rhs, edf_rhs, edf_hep.
    assert (sumN (map (fun o => o_rbf o (N.min a (A + 1 + D - o_dl o))) others)
            <= sumN (map (fun o => o_rbf o (N.min b (A + 1 + D - o_dl o))) others)).
    { apply sumN_map_le. intros o Ho. apply (proj1 (others_ok o Ho)). lia. }
    lia.
  Qed.

  Lemma edf_rhs_pos : forall A, 0 < rhs A 1.
  Proof. intros A. unfold rhs, edf_rhs. pose proof (rem_lt_tua A). lia. Qed.

  Lemma edf_rta_g : forall dbg A, edf_rta dbg use_blocking rem tua D others limit A = g A.
  Proof.
    intros dbg A. unfold edf_rta, g.
    fold rhs. rewrite (ded_search_least_fix dbg limit (rhs A) (edf_rhs_mono A) (edf_rhs_pos A)).
    destruct (least_fix limit (rhs A)) as [AF|]; reflexivity.
  Qed.

  Lemma g_not_panic : forall l, existsb is_panic (map g l) = false.
  Proof.
    induction l as [|A l IH]; [reflexivity|].
    cbn [map existsb]. rewrite IH. unfold g. destruct (least_fix limit (rhs A)); reflexivity.
  Qed.

  (* ---------------- the search space ---------------- *)

  Lemma other_offsets_spec : forall L o, 0 < L -> In o others ->
    exists offs, edf_other_offsets D L o = Some offs /\
      forall A, In A offs <->
        exists a, a < L + D - o_dl o /\ o_rbf o a < o_rbf o (a + 1) /\ A = a + o_dl o - D.
  Proof.
    intros L o HL Ho. unfold edf_other_offsets.
    destruct (N.eqb_spec L 0) as [HL0|_]; [lia|].
    destruct (offsets_of_steps_exact (o_rbf o) (o_steps o) (L + D - o_dl o)
                (proj2 (others_ok o Ho))) as (offs & -> & Hoffs).
    eexists. split; [reflexivity|]. intros A. rewrite in_map_iff. split.
    - intros (a & <- & Ha). apply Hoffs in Ha. exists a. tauto.
    - intros (a & H1 & H2 & ->). exists a. split; [reflexivity|]. apply Hoffs. tauto.
  Qed.

  Definition in_space (L A : N) : Prop :=
    A < L /\ (tua A < tua (A + 1) \/
              exists o a, In o others /\ o_rbf o a < o_rbf o (a + 1) /\ A = a + o_dl o - D).

  Lemma search_space_spec : forall L, 0 < L ->
    exists ss, edf_search_space tua_steps D others L = Some ss /\ forall A, In A ss <-> in_space L A.
  Proof.
    intros L HL. unfold edf_search_space.
    set (h := fun o => match edf_other_offsets D L o with Some y => y | None => [] end).
    rewrite (all_some_map (edf_other_offsets D L) h others).
    2:{ intros o Ho. destruct (other_offsets_spec L o HL Ho) as (offs & E & _).
        unfold h. rewrite E. reflexivity. }
    destruct (offsets_of_steps_exact tua tua_steps L tua_steps_ok) as (ts & -> & Hts).
    eexists. split; [reflexivity|]. intros A.
    rewrite in_dedup, in_merge, in_kmerge, Hts. unfold in_space. split.
    - intros [(l & Hl & HA)|(H1 & H2)].
      + apply in_map_iff in Hl. destruct Hl as (o & <- & Ho).
        destruct (other_offsets_spec L o HL Ho) as (offs & E & Hoffs).
        unfold h in HA. rewrite E in HA. apply Hoffs in HA.
        destruct HA as (a & Ha1 & Ha2 & ->). split; [lia|].
        right. exists o, a. split; [exact Ho|]. split; [exact Ha2|reflexivity].
      + split; [exact H1|]. left. exact H2.
    - intros (H1 & [H2|(o & a & Ho & Ha & ->)]).
      + right. split; assumption.
      + left. exists (h o). split; [apply in_map; exact Ho|].
        destruct (other_offsets_spec L o HL Ho) as (offs & E & Hoffs).
        unfold h. rewrite E. apply Hoffs. exists a.
        split; [lia|]. split; [exact Ha|reflexivity].
  Qed.

  (* ---------------- dominance ---------------- *)

  Lemma edf_blocking_step : forall A,
    edf_blocking use_blocking D others (A + 1) <= edf_blocking use_blocking D others A.
  Proof.
    intros A. unfold edf_blocking. destruct use_blocking; [|apply N.le_refl].
    apply maxN_le_maxN. intros x Hx. apply in_map_iff in Hx. destruct Hx as (o & <- & Ho).
    apply filter_In in Ho. destruct Ho as (Ho1 & Ho2).
    apply andb_true_iff in Ho2. destruct Ho2 as (Ho2 & Ho3). apply N.ltb_lt in Ho2.
    exists (o_seg o - 1). split; [|apply N.le_refl].
    apply (in_map (fun o => o_seg o - 1)). apply filter_In. split; [exact Ho1|].
    apply andb_true_iff. split; [|exact Ho3]. apply N.ltb_lt. lia.
  Qed.

  (* if neither the task under analysis nor any other task has a step that maps to offset A + 1,
     the right-hand side for A + 1 is below the one for A *)
  Lemma edf_rhs_step : forall A,
    ~ tua (A + 1) < tua (A + 1 + 1) ->
    (forall o a, In o others -> o_rbf o a < o_rbf o (a + 1) -> A + 1 <> a + o_dl o - D) ->
    forall x, rhs (A + 1) x <= rhs A x.
  Proof.
    intros A Hns Hno x. unfold rhs, edf_rhs.
    pose proof (edf_blocking_step A) as HB.
    assert (HT : tua (A + 1 + 1) = tua (A + 1)).
    { pose proof (tua_mono (A + 1) (A + 1 + 1)). lia. }
    assert (HH : edf_hep D others (A + 1) x = edf_hep D others A x).
    { unfold edf_hep. apply sumN_map_ext_in. intros o Ho.
      destruct (others_ok o Ho) as (Hm & _).
      destruct (N.le_gt_cases (o_dl o) (A + 1 + D)) as [Hle|Hgt].
      - set (X := A + 1 + D - o_dl o).
        assert (HX : o_rbf o (X + 1) = o_rbf o X).
        { pose proof (Hm X (X + 1)) as Hm1.
          destruct (N.lt_ge_cases (o_rbf o X) (o_rbf o (X + 1))) as [Hlt|Hge]; [|lia].
          exfalso. apply (Hno o X Ho Hlt). unfold X. lia. }
        replace (A + 1 + 1 + D - o_dl o) with (X + 1) by (unfold X; lia).
        destruct (N.le_gt_cases x X) as [Hx|Hx].
        + rewrite !N.min_l by lia. reflexivity.
        + rewrite !N.min_r by lia. exact HX.
      - replace (A + 1 + 1 + D - o_dl o) with 0 by lia.
        replace (A + 1 + D - o_dl o) with 0 by lia. reflexivity. }
    rewrite HT, HH. lia.
  Qed.

  Lemma in_space_dec : forall L ss A, (forall A, In A ss <-> in_space L A) ->
    {in_space L A} + {~ in_space L A}.
  Proof.
    intros L ss A H. destruct (in_dec N.eq_dec A ss) as [Hin|Hnin].
    - left. apply H. exact Hin.
    - right. intros HA. apply Hnin. apply H. exact HA.
  Qed.

  (* every offset below L is dominated by an offset of the search space below it *)
  Lemma edf_dominated : forall L ss, 0 < L -> (forall A, In A ss <-> in_space L A) ->
    forall A, A < L -> exists A', in_space L A' /\ A' <= A /\ forall x, rhs A x <= rhs A' x.
  Proof.
    intros L ss HL Hss A. induction A as [|A IH] using N.peano_ind; intros HA.
    - exists 0. split; [|split; [lia|intros x; apply N.le_refl]].
      split; [exact HL|]. left. change (0 + 1) with 1. lia.
    - destruct (in_space_dec L ss (N.succ A) Hss) as [Hin|Hnin].
      + exists (N.succ A). split; [exact Hin|]. split; [lia|intros x; apply N.le_refl].
      + destruct IH as (A' & H1 & H2 & H3); [lia|].
        exists A'. split; [exact H1|]. split; [lia|]. intros x.
        apply N.le_trans with (rhs A x); [|apply H3].
        rewrite <- N.add_1_r in *. apply edf_rhs_step.
        * intros Hs. apply Hnin. split; [exact HA|]. left. exact Hs.
        * intros o a Ho Ha Heq. apply Hnin. split; [exact HA|]. right.
          exists o, a. split; [exact Ho|]. split; [exact Ha|exact Heq].
  Qed.

  (* ---------------- C06 for the four EDF analyses ---------------- *)

  Theorem edf_generic_exhaustive : forall dbg,
    edf_generic dbg use_blocking true rem tua tua_steps D others limit
    = exh_edf use_blocking rem tua D (map other_triple others) limit.
  Proof.
    intros dbg. rewrite exh_edf_eq. unfold edf_generic, exhaustive. fold bw.
    rewrite (ded_search_least_fix dbg limit bw edf_bw_mono edf_bw_pos).
    destruct (least_fix limit bw) as [L|] eqn:HL; cbn [rbind]; [|reflexivity].
    cbn [negb]. cbv zeta.
    assert (HL0 : 0 < L).
    { apply least_fix_spec in HL. lia. }
    destruct (search_space_spec L HL0) as (ss & -> & Hss).
    rewrite (map_ext (edf_rta dbg use_blocking rem tua D others limit) g (edf_rta_g dbg)).
    rewrite (mrt_spec _ (g_not_panic ss)).
    assert (Hdom : forall A, A < L -> exists A', In A' ss /\ A' <= A /\
              forall AF', least_fix limit (rhs A') = Some AF' ->
                exists AF, least_fix limit (rhs A) = Some AF /\ AF <= AF').
    { intros A HA. destruct (edf_dominated L ss HL0 Hss A HA) as (A' & H1 & H2 & H3).
      exists A'. split; [apply Hss; exact H1|]. split; [exact H2|].
      intros AF' E. apply (least_fix_le limit (rhs A) (rhs A') AF' H3 E). }
    set (sols := map (fun A => (A, least_fix limit (rhs A))) (rangeN 0 L)).
    destruct (existsb (fun p => is_none (snd p)) sols) eqn:EX.
    - (* some offset has no solution within the limit *)
      apply existsb_exists in EX. destruct EX as (p & Hp & Hnone).
      unfold sols in Hp. apply in_map_iff in Hp. destruct Hp as (A & <- & HA).
      cbn [snd] in Hnone. apply in_rangeN in HA.
      destruct (Hdom A) as (A' & HA'1 & _ & HA'3); [lia|].
      destruct (find is_err (map g ss)) as [e|] eqn:EF.
      + apply find_some in EF. destruct EF as (He1 & He2).
        apply in_map_iff in He1. destruct He1 as (A2 & <- & _).
        unfold g in *. destruct (least_fix limit (rhs A2)); [discriminate He2|reflexivity].
      + exfalso. pose proof (find_none _ _ EF (g A') (in_map g _ _ HA'1)) as HF.
        unfold g in HF. destruct (least_fix limit (rhs A')) as [AF'|]; [|discriminate HF].
        destruct (HA'3 AF' eq_refl) as (AF & E & _). rewrite E in Hnone. discriminate Hnone.
    - (* every offset has a solution *)
      assert (Hall : forall A, A < L -> exists AF, least_fix limit (rhs A) = Some AF).
      { intros A HA. destruct (least_fix limit (rhs A)) as [AF|] eqn:E; [exists AF; reflexivity|].
        exfalso. assert (HT : existsb (fun p => is_none (snd p)) sols = true); [|congruence].
        apply existsb_exists. exists (A, least_fix limit (rhs A)). split.
        - unfold sols. apply (in_map (fun A => (A, least_fix limit (rhs A)))).
          apply in_rangeN. lia.
        - cbn [snd]. rewrite E. reflexivity. }
      destruct (find is_err (map g ss)) as [e|] eqn:EF.
      + exfalso. apply find_some in EF. destruct EF as (He1 & He2).
        apply in_map_iff in He1. destruct He1 as (A2 & <- & HA2).
        apply Hss in HA2. destruct HA2 as (HA2 & _). destruct (Hall A2 HA2) as (AF & E).
        unfold g in He2. rewrite E in He2. discriminate He2.
      + f_equal. unfold sols. rewrite !map_map. cbn [fst snd].
        apply maxN_map_eq.
        * intros A HA. exists A. apply Hss in HA. destruct HA as (HA1 & _).
          split; [apply in_rangeN; lia|].
          destruct (Hall A HA1) as (AF & E). unfold g. rewrite E.
          cbn [val_of oval]. lia.
        * intros A HA. apply in_rangeN in HA.
          destruct (Hdom A) as (A' & HA'1 & HA'2 & HA'3); [lia|].
          exists A'. split; [exact HA'1|].
          assert (HA'L : A' < L) by lia.
          destruct (Hall A' HA'L) as (AF' & E'). destruct (HA'3 AF' E') as (AF & E & Hle).
          unfold g. rewrite E, E'. cbn [val_of oval]. lia.
  Qed.

  Theorem edf_generic_no_panic : forall dbg,
    edf_generic dbg use_blocking true rem tua tua_steps D others limit <> RPanic.
  Proof.
    intros dbg. rewrite edf_generic_exhaustive. unfold exh_edf, exhaustive.
    destruct (least_fix limit _); [|discriminate].
    cbv zeta. destruct (existsb _ _); discriminate.
  Qed.
End EDF.
Print Assumptions edf_generic_exhaustive.
Print Assumptions edf_generic_no_panic.

(* ------------------------------------------------------------------------------------------ *)
(* 5. totality from monotonicity alone                                                         *)
(* ------------------------------------------------------------------------------------------ *)

Lemma ded_search_swo : forall dbg limit w, mono w ->
  ded_search dbg limit w = search_with_offset (fun d => d) 0 limit w.
Proof.
  intros dbg limit w Hm. unfold ded_search.
  assert (Hinv : forall d t : N, (fun d => d) d <= t <-> d <= (fun d => d) t) by (intros; reflexivity).
  apply (search_dbg_irrelevant (fun d => d) (fun d => d) Hinv eq_refl (fun t => N.le_refl _) w Hm).
Qed.

Lemma ded_search_no_panic : forall dbg limit w, mono w -> ded_search dbg limit w <> RPanic.
Proof.
  intros dbg limit w Hm. rewrite (ded_search_swo dbg limit w Hm).
  assert (Hinv : forall d t : N, (fun d => d) d <= t <-> d <= (fun d => d) t) by (intros; reflexivity).
  apply (swo_no_panic (fun d => d) (fun d => d) Hinv w Hm 0 limit (N.le_0_l _)).
Qed.

Lemma all_some_other_offsets : forall D L others,
  exists os, all_some (map (edf_other_offsets D L) others) = Some os.
Proof.
  intros D L others. induction others as [|o l (os & IH)]; [exists []; reflexivity|].
  cbn [map all_some]. rewrite IH. unfold edf_other_offsets, offsets_of_steps.
  destruct (L =? 0); eexists; reflexivity.
Qed.

Lemma edf_search_space_some : forall tua_steps D others L,
  exists ss, edf_search_space tua_steps D others L = Some ss.
Proof.
  intros tua_steps D others L. unfold edf_search_space.
  destruct (all_some_other_offsets D L others) as (os & ->).
  unfold offsets_of_steps. eexists. reflexivity.
Qed.

Section EDFTotal.
  Variables (use_blocking : bool) (rem : N) (tua : N -> N) (tua_steps : N -> list N) (D : N).
  Variable others : list edf_other.
  Variable limit : N.
  Hypothesis tua_mono : mono tua.
  Hypothesis others_mono : forall o, In o others -> mono (o_rbf o).

  Lemma edf_bw_mono_gen : mono (edf_bw_rhs tua others).
  Proof.
    intros a b Hab. unfold edf_bw_rhs.
    pose proof (tua_mono a b Hab).
    assert (sumN (map (fun o => o_rbf o a) others) <= sumN (map (fun o => o_rbf o b) others)).
    { apply sumN_map_le. intros o Ho. apply (others_mono o Ho). exact Hab. }
    lia.
  Qed.

  Lemma edf_rhs_mono_gen : forall A, mono (edf_rhs use_blocking rem tua D others A).
  Proof.
    intros A a b Hab. unfold edf_rhs, edf_hep.
    assert (sumN (map (fun o => o_rbf o (N.min a (A + 1 + D - o_dl o))) others)
            <= sumN (map (fun o => o_rbf o (N.min b (A + 1 + D - o_dl o))) others)).
    { apply sumN_map_le. intros o Ho. apply (others_mono o Ho). lia. }
    lia.
  Qed.

  (* the outcome for one offset: mentions neither dbg nor RPanic *)
  Definition t_edf_rta (A : N) : result :=
    rbind (search_with_offset (fun d => d) 0 limit (edf_rhs use_blocking rem tua D others A))
          (fun AF => ROk ((AF - A) + rem)).

  Lemma edf_rta_t : forall dbg A,
    edf_rta dbg use_blocking rem tua D others limit A = t_edf_rta A.
  Proof.
    intros dbg A. unfold edf_rta, t_edf_rta.
    rewrite (ded_search_swo dbg limit _ (edf_rhs_mono_gen A)). reflexivity.
  Qed.

  Lemma t_edf_rta_not_panic : forall l, existsb is_panic (map t_edf_rta l) = false.
  Proof.
    induction l as [|A l IH]; [reflexivity|].
    cbn [map existsb]. rewrite IH, orb_false_r. unfold t_edf_rta.
    pose proof (ded_search_no_panic false limit _ (edf_rhs_mono_gen A)) as Hnp.
    rewrite (ded_search_swo false limit _ (edf_rhs_mono_gen A)) in Hnp.
    destruct (search_with_offset _ 0 limit _) as [AF|o li|]; [reflexivity|reflexivity|congruence].
  Qed.

  (* the whole analysis: mentions neither dbg nor RPanic *)
  Definition t_edf : result :=
    rbind (search_with_offset (fun d => d) 0 limit (edf_bw_rhs tua others)) (fun L =>
      match edf_search_space tua_steps D others L with
      | None => ROk 0
      | Some offs => max_response_time (map t_edf_rta offs)
      end).

  Lemma edf_generic_t : forall dbg,
    edf_generic dbg use_blocking true rem tua tua_steps D others limit = t_edf.
  Proof.
    intros dbg. unfold edf_generic, t_edf.
    rewrite (ded_search_swo dbg limit _ edf_bw_mono_gen).
    destruct (search_with_offset _ 0 limit _) as [L|o li|]; cbn [rbind negb]; try reflexivity.
    destruct (edf_search_space_some tua_steps D others L) as (ss & ->).
    rewrite (map_ext _ _ (edf_rta_t dbg)). reflexivity.
  Qed.

  Lemma t_edf_not_panic : t_edf <> RPanic.
  Proof.
    unfold t_edf.
    pose proof (ded_search_no_panic false limit _ edf_bw_mono_gen) as Hnp.
    rewrite (ded_search_swo false limit _ edf_bw_mono_gen) in Hnp.
    destruct (search_with_offset _ 0 limit _) as [L|o li|]; cbn [rbind]; [|discriminate|congruence].
    destruct (edf_search_space_some tua_steps D others L) as (ss & ->).
    rewrite (mrt_spec _ (t_edf_rta_not_panic ss)).
    destruct (find is_err (map t_edf_rta ss)) as [e|] eqn:E; [|discriminate].
    apply find_some in E. destruct E as (_ & E).
    destruct e as [r|o li|]; [discriminate|discriminate|discriminate E].
  Qed.

  (* C20 for the EDF skeleton without any assumption on the arrivals of the task under analysis *)
  Theorem edf_generic_total : forall dbg,
    edf_generic dbg use_blocking true rem tua tua_steps D others limit <> RPanic /\
    edf_generic dbg use_blocking true rem tua tua_steps D others limit
    = edf_generic (negb dbg) use_blocking true rem tua tua_steps D others limit.
  Proof.
    intros dbg. rewrite !edf_generic_t. split; [exact t_edf_not_panic|reflexivity].
  Qed.
End EDFTotal.
Print Assumptions edf_generic_total.
