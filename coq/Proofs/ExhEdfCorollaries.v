(* ExhEdfCorollaries.v — C06 for the four named EDF analyses over the deep embedding's entry points
   is an instance of edf_generic_exhaustive; here: the statement for the generic skeleton with the
   guard discharged for NP / LP parameters. *)
From Coq Require Import List NArith Lia Bool.
From RTA.Model Require Import Base FixedPoint Analyses.
From RTA.Spec Require Import Exhaustive.
From RTA.Proofs Require Import FixedPointProofs ExhFP ExhCorollaries ExhEDF.

Section NamedEDF.
  Variables (arr : N -> N) (steps : N -> list N) (D : N) (others : list edf_other) (limit : N).
  Hypothesis arr_mono : mono arr.
  Hypothesis arr0 : arr 0 = 0.
  Hypothesis arr_arrives : 0 < arr 1.
  Hypothesis steps_ok : steps_exact arr steps.
  Hypothesis others_ok : forall o, In o others -> mono (o_rbf o) /\ steps_exact (o_rbf o) (o_steps o).

  (* NP-EDF and LP-EDF: scalar WCET C, remaining cost rem < C *)
  Theorem edf_scalar_exhaustive : forall dbg C rem, 1 <= C -> rem < C ->
    edf_generic dbg true true rem (fun d => C * arr d) steps D others limit
    = exh_edf true rem (fun d => C * arr d) D (map other_triple others) limit.
  Proof.
    intros dbg C rem HC Hrem. apply edf_generic_exhaustive.
    - apply scaled_mono; exact arr_mono.
    - apply scaled_steps; assumption.
    - rewrite arr0. lia.
    - nia.
    - apply scaled_step_gt. exact Hrem.
    - exact others_ok.
  Qed.
End NamedEDF.
