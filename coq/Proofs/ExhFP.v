(* ExhFP.v — C06 for the fixed-priority and FIFO analyses: the model of the pruned, iterative
   analyses (search space = step offsets of the RBF, fixed-point iteration) returns exactly the value
   of the naive exhaustive evaluator of Spec/Exhaustive.v (every offset in [0, L), linear scan).

   Contents
   1. general helper lemmas (reused by the EDF proof): [in_rangeN], [find_rangeN_some/none],
      [least_fix_spec], [least_fix_none], [least_fix_ext], [maxN_ub], [maxN_le], [maxN_attained],
      [maxN_le_maxN], [maxN_map_eq], [step_dominated], [offsets_of_steps_exact];
   2. [ded_search_least_fix]: the iterative search on a dedicated processor is [least_fix];
   3. [fp_generic_exhaustive], [fp_generic_no_panic] (and the by-product [fp_offset_beyond]);
   4. [fifo_exhaustive]. *)
From Coq Require Import List NArith Lia Bool.
From RTA.Model Require Import Base FixedPoint Analyses.
From RTA.Spec Require Import Exhaustive.
From RTA.Proofs Require Import FixedPointProofs.

Definition mono (f : N -> N) : Prop := forall a b, a <= b -> f a <= f b.
(* [steps h] enumerates exactly the points in [1, h] where f increases (in any order, duplicates allowed) *)
Definition steps_exact (f : N -> N) (steps : N -> list N) : Prop :=
  forall h d, In d (steps h) <-> (1 <= d /\ d <= h /\ f (d - 1) < f d).

(* ------------------------------------------------------------------------------------------ *)
(* 1. helper lemmas                                                                            *)
(* ------------------------------------------------------------------------------------------ *)

Lemma rangeN_0 : forall a, rangeN a 0 = [].
Proof. reflexivity. Qed.

Lemma rangeN_succ : forall a n, rangeN a (N.succ n) = a :: rangeN (a + 1) n.
Proof.
  intros a n. unfold rangeN. rewrite Nnat.N2Nat.inj_succ.
  cbn [seq map]. f_equal.
  - change (N.of_nat 0) with 0. lia.
  - rewrite <- seq_shift, map_map. apply map_ext. intros i.
    rewrite Nnat.Nat2N.inj_succ. lia.
Qed.

Lemma in_rangeN : forall n a x, In x (rangeN a n) <-> a <= x /\ x < a + n.
Proof.
  intros n. induction n as [|n IH] using N.peano_ind; intros a x.
  - rewrite rangeN_0. cbn [In]. lia.
  - rewrite rangeN_succ. cbn [In]. rewrite IH. lia.
Qed.

Lemma find_rangeN_some_1 : forall (p : N -> bool) n a x,
  find p (rangeN a n) = Some x ->
  a <= x /\ x < a + n /\ p x = true /\ forall y, a <= y -> y < x -> p y = false.
Proof.
  intros p n. induction n as [|n IH] using N.peano_ind; intros a x H.
  - rewrite rangeN_0 in H. discriminate H.
  - rewrite rangeN_succ in H. cbn [find] in H. destruct (p a) eqn:Hpa.
    + injection H as <-. repeat split; try lia. exact Hpa.
    + apply IH in H. destruct H as (H1 & H2 & H3 & H4).
      repeat split; try lia; [exact H3|].
      intros y Hy1 Hy2. destruct (N.eq_dec y a) as [->|Hne]; [exact Hpa|].
      apply H4; lia.
Qed.

Lemma find_rangeN_none : forall (p : N -> bool) n a,
  find p (rangeN a n) = None <-> forall y, a <= y -> y < a + n -> p y = false.
Proof.
  intros p n a. split.
  - intros H y Hy1 Hy2. apply (find_none _ _ H). apply in_rangeN. lia.
  - intros H. destruct (find p (rangeN a n)) as [x|] eqn:E; [|reflexivity].
    apply find_rangeN_some_1 in E. destruct E as (H1 & H2 & H3 & _).
    rewrite (H x H1 H2) in H3. discriminate H3.
Qed.

Lemma find_rangeN_some : forall (p : N -> bool) n a x,
  find p (rangeN a n) = Some x <->
  (a <= x /\ x < a + n /\ p x = true /\ forall y, a <= y -> y < x -> p y = false).
Proof.
  intros p n a x. split; [apply find_rangeN_some_1|].
  intros (H1 & H2 & H3 & H4).
  destruct (find p (rangeN a n)) as [x'|] eqn:E.
  - apply find_rangeN_some_1 in E. destruct E as (E1 & E2 & E3 & E4).
    f_equal. destruct (N.lt_trichotomy x' x) as [Hlt|[Heq|Hgt]]; [|exact Heq|].
    + rewrite (H4 x' E1 Hlt) in E3. discriminate E3.
    + rewrite (E4 x H1 Hgt) in H3. discriminate H3.
  - rewrite find_rangeN_none in E. rewrite (E x H1 H2) in H3. discriminate H3.
Qed.

(* [least_fix limit f] is the least x in [1, limit] with f x <= x *)
Lemma least_fix_spec : forall limit f x,
  least_fix limit f = Some x <->
  (1 <= x /\ x <= limit /\ f x <= x /\ forall y, 1 <= y -> y < x -> y < f y).
Proof.
  intros limit f x. unfold least_fix. rewrite find_rangeN_some. split.
  - intros (H1 & H2 & H3 & H4). repeat split; try lia.
    + apply N.leb_le. exact H3.
    + intros y Hy1 Hy2. specialize (H4 y Hy1 Hy2). apply N.leb_gt in H4. exact H4.
  - intros (H1 & H2 & H3 & H4). repeat split; try lia.
    + apply N.leb_le. exact H3.
    + intros y Hy1 Hy2. apply N.leb_gt. apply H4; assumption.
Qed.

Lemma least_fix_none : forall limit f,
  least_fix limit f = None <-> forall y, 1 <= y -> y <= limit -> y < f y.
Proof.
  intros limit f. unfold least_fix. rewrite find_rangeN_none. split.
  - intros H y Hy1 Hy2. apply N.leb_gt. apply H; lia.
  - intros H y Hy1 Hy2. apply N.leb_gt. apply H; lia.
Qed.

Lemma least_fix_ext : forall limit f g, (forall x, f x = g x) -> least_fix limit f = least_fix limit g.
Proof.
  intros limit f g H. unfold least_fix.
  induction (rangeN 1 limit) as [|y l IH]; [reflexivity|].
  cbn [find]. rewrite H, IH. reflexivity.
Qed.

(* [maxN] *)
Lemma maxN_cons : forall x l, maxN (x :: l) = N.max x (maxN l).
Proof. reflexivity. Qed.

Lemma maxN_ub : forall l x, In x l -> x <= maxN l.
Proof.
  induction l as [|y l IH]; intros x H; [destruct H|].
  rewrite maxN_cons. destruct H as [->|H]; [lia|]. specialize (IH x H). lia.
Qed.

Lemma maxN_le : forall l b, (forall x, In x l -> x <= b) -> maxN l <= b.
Proof.
  induction l as [|y l IH]; intros b H; [apply N.le_0_l|].
  rewrite maxN_cons. apply N.max_lub.
  - apply H. left. reflexivity.
  - apply IH. intros x Hx. apply H. right. exact Hx.
Qed.

Lemma maxN_attained : forall l, maxN l = 0 \/ In (maxN l) l.
Proof.
  induction l as [|y l IH]; [left; reflexivity|].
  rewrite maxN_cons. destruct (N.max_spec y (maxN l)) as [[Hlt ->]|[Hle ->]].
  - destruct IH as [IH|IH]; [left; exact IH|right; right; exact IH].
  - right. left. reflexivity.
Qed.

Lemma maxN_le_maxN : forall l1 l2,
  (forall x, In x l1 -> exists y, In y l2 /\ x <= y) -> maxN l1 <= maxN l2.
Proof.
  intros l1 l2 H. apply maxN_le. intros x Hx.
  destruct (H x Hx) as (y & Hy & Hxy). pose proof (maxN_ub l2 y Hy). lia.
Qed.

(* the maximum of [f] over a sub-family [l1] that dominates the whole family [l2] *)
Lemma maxN_map_eq : forall {A B} (f : A -> N) (g : B -> N) (l1 : list A) (l2 : list B),
  (forall a, In a l1 -> exists b, In b l2 /\ f a <= g b) ->
  (forall b, In b l2 -> exists a, In a l1 /\ g b <= f a) ->
  maxN (map f l1) = maxN (map g l2).
Proof.
  intros A B f g l1 l2 H1 H2. apply N.le_antisymm; apply maxN_le_maxN; intros x Hx;
    apply in_map_iff in Hx; destruct Hx as (a & <- & Ha).
  - destruct (H1 a Ha) as (b & Hb & Hab). exists (g b). split; [apply in_map; exact Hb|exact Hab].
  - destruct (H2 a Ha) as (b & Hb & Hab). exists (f b). split; [apply in_map; exact Hb|exact Hab].
Qed.

(* every offset is dominated by a step offset below it with the same value of [f (A + 1)] *)
Lemma step_dominated : forall f, mono f -> f 0 < f 1 ->
  forall A, exists A', A' <= A /\ f A' < f (A' + 1) /\ f (A' + 1) = f (A + 1).
Proof.
  intros f Hm H01 A. induction A as [|A IH] using N.peano_ind.
  - exists 0. split; [lia|]. split; [exact H01|reflexivity].
  - destruct (N.lt_ge_cases (f (N.succ A)) (f (N.succ A + 1))) as [Hlt|Hge].
    + exists (N.succ A). split; [lia|]. split; [exact Hlt|reflexivity].
    + destruct IH as (A' & H1 & H2 & H3). exists A'.
      split; [lia|]. split; [exact H2|].
      rewrite H3. replace (A + 1) with (N.succ A) by lia.
      pose proof (Hm (N.succ A) (N.succ A + 1)). lia.
  Qed.

(* the search space built from an exact step enumerator: the step offsets below L *)
Lemma offsets_of_steps_exact : forall f steps L, steps_exact f steps ->
  exists offs, offsets_of_steps (steps L) = Some offs /\
               forall A, In A offs <-> (A < L /\ f A < f (A + 1)).
Proof.
  intros f steps L Hs. unfold offsets_of_steps.
  rewrite filter_pos_id by (intros d Hd; apply Hs in Hd; lia).
  eexists. split; [reflexivity|]. intros A. rewrite in_map_iff. split.
  - intros (d & <- & Hd). apply Hs in Hd. destruct Hd as (H1 & H2 & H3).
    replace (d - 1 + 1) with d by lia. split; [lia|exact H3].
  - intros (H1 & H2). exists (A + 1). split; [lia|]. apply Hs.
    replace (A + 1 - 1) with A by lia. split; [lia|]. split; [lia|exact H2].
Qed.

(* ------------------------------------------------------------------------------------------ *)
(* 2. the iterative search on a dedicated processor is the linear-scan least fixed point        *)
(* ------------------------------------------------------------------------------------------ *)

Theorem ded_search_least_fix : forall dbg limit w, mono w -> 0 < w 1 ->
  ded_search dbg limit w = match least_fix limit w with Some x => ROk x | None => RErr 0 limit end.
Proof.
  intros dbg limit w Hm H1. unfold ded_search.
  assert (Hinv : forall d t : N, (fun d => d) d <= t <-> d <= (fun d => d) t) by (intros; reflexivity).
  rewrite (search_dbg_irrelevant (fun d => d) (fun d => d) Hinv eq_refl
             (fun t => N.le_refl _) w Hm).
  apply (swo_spec_unique (fun d => d) w 0 limit).
  - apply swo_spec_holds; [exact Hinv|exact Hm|apply N.le_0_l].
  - assert (Hsol : forall s, sol (fun d => d) w 0 s <-> (1 <= s /\ w s <= s)).
    { intros s. unfold sol. rewrite N.add_0_l. destruct (N.eq_dec s 0) as [->|Hs].
      - change (N.max 0 1) with 1. lia.
      - rewrite N.max_l by lia. lia. }
    destruct (least_fix limit w) as [x|] eqn:E.
    + apply least_fix_spec in E. destruct E as (E1 & E2 & E3 & E4).
      cbn [swo_spec]. split; [lia|]. split; [exact E2|]. split.
      * apply Hsol. split; assumption.
      * intros s Hs. apply Hsol in Hs. destruct Hs as (Hs1 & Hs2).
        destruct (N.le_gt_cases x s) as [Hle|Hgt]; [exact Hle|].
        specialize (E4 s Hs1 Hgt). lia.
    + rewrite least_fix_none in E. cbn [swo_spec].
      split; [reflexivity|]. split; [reflexivity|].
      intros s Hs. apply Hsol in Hs. destruct Hs as (Hs1 & Hs2).
      rewrite N.max_l by lia.
      destruct (N.le_gt_cases s limit) as [Hle|Hgt]; [|exact Hgt].
      specialize (E s Hs1 Hle). lia.
Qed.
Print Assumptions ded_search_least_fix.

(* ------------------------------------------------------------------------------------------ *)
(* 3. fixed priority                                                                           *)
(* ------------------------------------------------------------------------------------------ *)

Section FP.
  Variables (B rem : N) (tua hp : N -> N) (tua_steps : N -> list N) (limit : N).
  Hypothesis tua_mono : mono tua.
  Hypothesis hp_mono : mono hp.
  Hypothesis tua_steps_ok : steps_exact tua tua_steps.
  Hypothesis tua_arrives : 0 < tua 1.                         (* the task under analysis can release a job *)
  Hypothesis tua0 : tua 0 = 0.
  (* every increase of tua's RBF exceeds the remaining cost (a job costs more than what is left after
     its run-to-completion threshold): true for scalar WCET C with rem <= C - 1 *)
  Hypothesis step_gt_rem : forall d, tua (d - 1) < tua d -> tua (d - 1) + rem < tua d.

  Let bw := fp_bw_rhs B tua hp.
  Let rhs := fp_rhs B rem tua hp.
  (* the outcome for offset A in terms of the linear scan *)
  Let g (A : N) : result :=
    match least_fix limit (rhs A) with Some AF => ROk (AF - A + rem) | None => RErr 0 limit end.

  Lemma fp_bw_mono : mono bw.
  Proof.
    intros a b Hab. unfold bw, fp_bw_rhs.
    pose proof (tua_mono a b Hab). pose proof (hp_mono a b Hab). lia.
  Qed.

  Lemma fp_bw_pos : 0 < bw 1.
  Proof. unfold bw, fp_bw_rhs. lia. Qed.

  Lemma fp_rhs_mono : forall A, mono (rhs A).
  Proof.
    intros A a b Hab. unfold rhs, fp_rhs. pose proof (hp_mono a b Hab). lia.
  Qed.

  Lemma fp_step_rem : forall A, tua A < tua (A + 1) -> tua A + rem < tua (A + 1).
  Proof.
    intros A H. pose proof (step_gt_rem (A + 1)) as HS.
    rewrite N.add_sub in HS. apply HS. exact H.
  Qed.

  (* by-product: on a step offset inside the busy window the least solution lies beyond the offset *)
  Lemma fp_offset_beyond : forall L A AF,
    least_fix limit bw = Some L -> A < L -> tua A < tua (A + 1) ->
    least_fix limit (rhs A) = Some AF -> A < AF.
  Proof.
    clear tua_arrives tua0.
    intros L A AF HL HA Hstep HAF.
    apply least_fix_spec in HL. destruct HL as (_ & _ & _ & HLmin).
    apply least_fix_spec in HAF. destruct HAF as (HAF1 & _ & HAF3 & _).
    destruct (N.lt_ge_cases A AF) as [Hlt|Hge]; [exact Hlt|exfalso].
    assert (HAFL : AF < L) by lia.
    specialize (HLmin AF HAF1 HAFL). unfold bw, fp_bw_rhs in HLmin.
    unfold rhs, fp_rhs in HAF3.
    pose proof (tua_mono AF A Hge). pose proof (fp_step_rem A Hstep). lia.
  Qed.

  Lemma fp_rta_step : forall dbg L A,
    least_fix limit bw = Some L -> A < L -> tua A < tua (A + 1) ->
    fp_rta dbg B rem tua hp limit A = g A.
  Proof.
    intros dbg L A HL HA Hstep. unfold fp_rta, g.
    pose proof (fp_step_rem A Hstep) as Hrem.
    destruct (N.ltb_spec (tua (A + 1)) rem) as [Hlt|_]; [lia|].
    fold rhs. rewrite (ded_search_least_fix dbg limit (rhs A) (fp_rhs_mono A)).
    2:{ unfold rhs, fp_rhs. lia. }
    destruct (least_fix limit (rhs A)) as [AF|] eqn:E; cbn [rbind]; [|reflexivity].
    pose proof (fp_offset_beyond L A AF HL HA Hstep E) as Hb.
    destruct (N.ltb_spec AF A) as [Hlt|_]; [lia|reflexivity].
  Qed.

  Lemma g_not_panic : forall l, existsb is_panic (map g l) = false.
  Proof.
    induction l as [|A l IH]; [reflexivity|].
    cbn [map existsb]. rewrite IH. unfold g. destruct (least_fix limit (rhs A)); reflexivity.
  Qed.

  Lemma fp_rhs_same : forall A A', tua (A' + 1) = tua (A + 1) ->
    least_fix limit (rhs A') = least_fix limit (rhs A).
  Proof.
    intros A A' H. apply least_fix_ext. intros x. unfold rhs, fp_rhs. rewrite H. reflexivity.
  Qed.

  (* C06 for the four fixed-priority analyses *)
  Theorem fp_generic_exhaustive : forall dbg,
    fp_generic dbg true B rem tua hp tua_steps limit = exh_fp B rem tua hp limit.
  Proof.
    intros dbg. unfold fp_generic, exh_fp, exhaustive. fold bw.
    rewrite (ded_search_least_fix dbg limit bw fp_bw_mono fp_bw_pos).
    change (fun L : N => B + hp L + tua L) with bw.
    destruct (least_fix limit bw) as [L|] eqn:HL; cbn [rbind]; [|reflexivity].
    cbn [negb]. cbv zeta.
    destruct (offsets_of_steps_exact tua tua_steps L tua_steps_ok) as (offs & -> & Hoffs).
    change (map (fun A => (A, least_fix limit (fun AF => B + (tua (A + 1) - rem) + hp AF))) (rangeN 0 L))
      with (map (fun A => (A, least_fix limit (rhs A))) (rangeN 0 L)).
    (* the model side *)
    rewrite (map_ext_in (fp_rta dbg B rem tua hp limit) g).
    2:{ intros A HA. apply Hoffs in HA. destruct HA as (HA1 & HA2).
        apply (fp_rta_step dbg L A HL HA1 HA2). }
    rewrite (mrt_spec _ (g_not_panic offs)).
    (* domination of every offset by a step offset *)
    assert (H01 : tua 0 < tua 1) by lia.
    assert (Hdom : forall A, A < L -> exists A', In A' offs /\ A' <= A /\
                     least_fix limit (rhs A') = least_fix limit (rhs A)).
    { intros A HA. destruct (step_dominated tua tua_mono H01 A) as (A' & H1 & H2 & H3).
      exists A'. split; [apply Hoffs; split; [lia|exact H2]|].
      split; [exact H1|]. apply fp_rhs_same. exact H3. }
    set (sols := map (fun A => (A, least_fix limit (rhs A))) (rangeN 0 L)).
    destruct (existsb (fun p => is_none (snd p)) sols) eqn:EX.
    - (* some offset has no solution within the limit *)
      apply existsb_exists in EX. destruct EX as (p & Hp & Hnone).
      unfold sols in Hp. apply in_map_iff in Hp. destruct Hp as (A & <- & HA).
      cbn [snd] in Hnone. apply in_rangeN in HA.
      destruct (Hdom A) as (A' & HA'1 & _ & HA'3); [lia|].
      rewrite <- HA'3 in Hnone.
      destruct (find is_err (map g offs)) as [e|] eqn:EF.
      + apply find_some in EF. destruct EF as (He1 & He2).
        apply in_map_iff in He1. destruct He1 as (A2 & <- & _).
        unfold g in *. destruct (least_fix limit (rhs A2)); [discriminate He2|reflexivity].
      + exfalso. pose proof (find_none _ _ EF (g A') (in_map g _ _ HA'1)) as HF.
        unfold g in HF. destruct (least_fix limit (rhs A')); [discriminate Hnone|discriminate HF].
    - (* every offset has a solution *)
      assert (Hall : forall A, A < L -> exists AF, least_fix limit (rhs A) = Some AF).
      { intros A HA. destruct (least_fix limit (rhs A)) as [AF|] eqn:E; [exists AF; reflexivity|].
        exfalso. assert (HT : existsb (fun p => is_none (snd p)) sols = true); [|congruence].
        apply existsb_exists. exists (A, least_fix limit (rhs A)). split.
        - unfold sols. apply (in_map (fun A => (A, least_fix limit (rhs A)))).
          apply in_rangeN. lia.
        - cbn [snd]. rewrite E. reflexivity. }
      destruct (find is_err (map g offs)) as [e|] eqn:EF.
      + exfalso. apply find_some in EF. destruct EF as (He1 & He2).
        apply in_map_iff in He1. destruct He1 as (A2 & <- & HA2).
        apply Hoffs in HA2. destruct (Hall A2) as (AF & E); [tauto|].
        unfold g in He2. rewrite E in He2. discriminate He2.
      + f_equal. unfold sols. rewrite !map_map. cbn [fst snd].
        apply maxN_map_eq.
        * intros A HA. exists A. apply Hoffs in HA. destruct HA as (HA1 & HA2).
          split; [apply in_rangeN; lia|].
          destruct (Hall A HA1) as (AF & E). unfold g. rewrite E.
          cbn [val_of oval]. lia.
        * intros A HA. apply in_rangeN in HA.
          destruct (Hdom A) as (A' & HA'1 & HA'2 & HA'3); [lia|].
          exists A'. split; [exact HA'1|].
          destruct (Hall A) as (AF & E); [lia|]. unfold g.
          rewrite HA'3, E. cbn [val_of oval]. lia.
  Qed.

  (* by-products used elsewhere (C20, C01) *)
  Theorem fp_generic_no_panic : forall dbg, fp_generic dbg true B rem tua hp tua_steps limit <> RPanic.
  Proof.
    intros dbg. rewrite fp_generic_exhaustive. unfold exh_fp, exhaustive.
    destruct (least_fix limit (fun L => B + hp L + tua L)); [|discriminate].
    cbv zeta. destruct (existsb _ _); discriminate.
  Qed.
End FP.
Print Assumptions fp_generic_exhaustive.
Print Assumptions fp_generic_no_panic.
Print Assumptions fp_offset_beyond.

(* ------------------------------------------------------------------------------------------ *)
(* 4. FIFO                                                                                     *)
(* ------------------------------------------------------------------------------------------ *)

Section FIFO.
  Variables (total : N -> N) (total_steps : N -> list N) (limit : N).
  Hypothesis total_mono : mono total.
  Hypothesis total_steps_ok : steps_exact total total_steps.
  Hypothesis total_arrives : 0 < total 1.
  Hypothesis total0 : total 0 = 0.

  (* inside the busy window the demand of offset A exceeds A: the subtraction never underflows *)
  Lemma fifo_offset_beyond : forall L A, least_fix limit total = Some L -> A < L -> A < total (A + 1).
  Proof.
    clear total0.
    intros L A HL HA. apply least_fix_spec in HL. destruct HL as (_ & _ & _ & Hmin).
    destruct (N.eq_dec A 0) as [->|HA0]; [exact total_arrives|].
    assert (H1 : 1 <= A) by lia. specialize (Hmin A H1 HA).
    pose proof (total_mono A (A + 1)). lia.
  Qed.

  Theorem fifo_exhaustive : forall dbg, fifo_rta dbg total total_steps limit = exh_fifo total limit.
  Proof.
    intros dbg. unfold fifo_rta, exh_fifo.
    rewrite (ded_search_least_fix dbg limit total total_mono total_arrives).
    destruct (least_fix limit total) as [L|] eqn:HL; cbn [rbind]; [|reflexivity].
    destruct (offsets_of_steps_exact total total_steps L total_steps_ok) as (offs & -> & Hoffs).
    destruct (existsb (fun A => total (A + 1) <? A) offs) eqn:EX.
    - exfalso. apply existsb_exists in EX. destruct EX as (A & HA & Hlt).
      apply N.ltb_lt in Hlt. apply Hoffs in HA. destruct HA as (HA & _).
      pose proof (fifo_offset_beyond L A HL HA). lia.
    - f_equal. apply maxN_map_eq.
      + intros A HA. exists A. apply Hoffs in HA. split; [apply in_rangeN; lia|lia].
      + intros A HA. apply in_rangeN in HA.
        assert (H01 : total 0 < total 1) by lia.
        destruct (step_dominated total total_mono H01 A) as (A' & H1 & H2 & H3).
        exists A'. split; [apply Hoffs; split; [lia|exact H2]|]. rewrite H3. lia.
  Qed.

  Theorem fifo_no_panic : forall dbg, fifo_rta dbg total total_steps limit <> RPanic.
  Proof.
    intros dbg. rewrite fifo_exhaustive. unfold exh_fifo.
    destruct (least_fix limit total); discriminate.
  Qed.
End FIFO.
Print Assumptions fifo_exhaustive.
Print Assumptions fifo_no_panic.
