(* ExhRos.v — C07: the models of the ROS 2 analyses (Model/Ros2.v) against their naive exhaustive
   evaluators (Spec/ExhaustiveRos.v: every offset, linear-scan fixed points, supply-bound function only).

   Contents
   1. [least_sol_some/none], [search_with_offset_least_sol], [search_least_sol], [st_is_inv_scan]:
      the searches of the crate are the linear scans, the closed-form inverse is the scanned inverse;
   2. [rr_exhaustive] (Theorem 2 of RTSS'21);
   3. [brt_unfold] (the ECRTS'19 driver with every search replaced by its scan) and
      [event_source_exhaustive] (Lemma 1; the only offset that can lack a solution is max_bw itself);
   4. [pp_not_exhaustive_refuted]: known finding C07-ecrts19-pruning (impl 5, exhaustive 8);
   5. [bw_exhaustive] (Theorem 3 with the Lemma-19 offset set), under the extra hypothesis that offset 0
      is a step of the end-of-chain callback; [bw_exhaustive_needs_arrival_refuted] shows it is needed;
   6. [bound_response_time_step_offsets] and its instances [timer_step_offsets], [pp_step_offsets],
      [chain_step_offsets]: these analyses are exactly the maximum over the step offsets <= max_bw;
   7. [bw_debug_check_passes] (needs the steps in increasing order: [bw_debug_check_needs_sorted_refuted]),
      and [bw_exhaustive_any_build]. *)
From Coq Require Import List NArith Arith Lia Bool.
From RTA.Model Require Import Base FixedPoint Ros2 Arrival.
From RTA.Spec Require Import Exhaustive ExhaustiveRos.
From Coq Require Import Sorting.Sorted.
From RTA.Proofs Require Import StepsProofs.
From RTA.Proofs Require Import FixedPointProofs SupplyProofs ExhFP ExhEDF.

Section Ros.
  Variables (sbf st : N -> N).
  Hypothesis Hok : sbf_ok sbf.
  Hypothesis Hinv : exact_inverse sbf st.

  (* ---------------------------------------------------------------------------------------- *)
  (* 1. the searches of the crate are linear scans                                             *)
  (* ---------------------------------------------------------------------------------------- *)

  Lemma least_sol_some : forall limit off w r,
    least_sol sbf limit off w = Some r <->
    (1 <= limit /\ r <= limit /\ sol sbf w off r /\ forall s, s < r -> ~ sol sbf w off s).
  Proof.
    intros limit off w r. unfold least_sol, sol.
    destruct (N.eqb_spec limit 0) as [->|Hl].
    - split; [discriminate|]. intros (H & _). lia.
    - rewrite find_rangeN_some. split.
      + intros (_ & H2 & H3 & H4). apply N.leb_le in H3.
        split; [lia|]. split; [lia|]. split; [exact H3|].
        intros s Hs Hsol. specialize (H4 s (N.le_0_l _) Hs). apply N.leb_gt in H4. lia.
      + intros (_ & H2 & H3 & H4). split; [apply N.le_0_l|]. split; [lia|]. split.
        * apply N.leb_le. exact H3.
        * intros y _ Hy. apply N.leb_gt. specialize (H4 y Hy). lia.
  Qed.

  Lemma least_sol_none : forall limit off w,
    least_sol sbf limit off w = None <-> (limit = 0 \/ forall s, s <= limit -> ~ sol sbf w off s).
  Proof.
    intros limit off w. unfold least_sol, sol.
    destruct (N.eqb_spec limit 0) as [->|Hl].
    - split; [intros _; left; reflexivity|reflexivity].
    - rewrite find_rangeN_none. split.
      + intros H. right. intros s Hs Hsol. specialize (H s (N.le_0_l _)).
        rewrite N.add_0_l in H. specialize (H ltac:(lia)). apply N.leb_gt in H. lia.
      + intros [H|H]; [contradiction|]. intros y _ Hy. apply N.leb_gt.
        specialize (H y ltac:(lia)). lia.
  Qed.

  Lemma swo_spec_least_sol : forall off limit w,
    swo_spec sbf w off limit
      (match least_sol sbf limit off w with Some r => ROk r | None => RErr off limit end).
  Proof.
    intros off limit w. destruct (least_sol sbf limit off w) as [r|] eqn:E.
    - apply least_sol_some in E. destruct E as (H1 & H2 & H3 & H4).
      cbn [swo_spec]. repeat split; try assumption.
      intros s Hs. destruct (N.le_gt_cases r s) as [Hle|Hgt]; [exact Hle|].
      exfalso. exact (H4 s Hgt Hs).
    - apply least_sol_none in E. cbn [swo_spec]. split; [reflexivity|]. split; [reflexivity|].
      intros s Hs. destruct E as [->|E]; [lia|].
      destruct (N.le_gt_cases s limit) as [Hle|Hgt]; [|lia].
      exfalso. exact (E s Hle Hs).
  Qed.

  Theorem search_with_offset_least_sol : forall off limit w, mono w -> off <= st (w 1) ->
    search_with_offset st off limit w =
      match least_sol sbf limit off w with Some r => ROk r | None => RErr off limit end.
  Proof.
    intros off limit w Hm Hoff.
    apply (swo_spec_unique sbf w off limit).
    - apply swo_spec_holds; [exact Hinv|exact Hm|exact Hoff].
    - apply swo_spec_least_sol.
  Qed.

  Theorem search_least_sol : forall dbg limit w, mono w ->
    search sbf st dbg limit w =
      match least_sol sbf limit 0 w with Some r => ROk r | None => RErr 0 limit end.
  Proof.
    intros dbg limit w Hm. destruct Hok as (H0 & _ & Hl).
    rewrite (search_dbg_irrelevant sbf st Hinv H0 Hl w Hm).
    apply search_with_offset_least_sol; [exact Hm|apply N.le_0_l].
  Qed.

  Theorem st_is_inv_scan : forall bound d, st d < bound -> st d = inv_scan sbf bound d.
  Proof.
    intros bound d Hb. unfold inv_scan.
    assert (E : find (fun t => d <=? sbf t) (rangeN 0 bound) = Some (st d)).
    { apply find_rangeN_some. split; [apply N.le_0_l|]. split; [lia|]. split.
      - apply N.leb_le. apply Hinv. reflexivity.
      - intros y _ Hy. apply N.leb_gt.
        destruct (N.lt_ge_cases (sbf y) d) as [Hlt|Hge]; [exact Hlt|].
        apply Hinv in Hge. lia. }
    rewrite E. reflexivity.
  Qed.
End Ros.
Print Assumptions search_with_offset_least_sol.
Print Assumptions search_least_sol.
Print Assumptions st_is_inv_scan.

(* ------------------------------------------------------------------------------------------ *)
(* 2. rr subchain                                                                              *)
(* ------------------------------------------------------------------------------------------ *)

Lemma capped_mono : forall k k' a a' base, a <= a' -> capped k k' a base <= capped k k' a' base.
Proof.
  intros k k' a a' base H. unfold capped. destruct k as [| | |p]; try lia. destruct k'; lia.
Qed.

Lemma in_others : forall wl sc cb, In cb (others wl sc) -> In cb wl.
Proof.
  intros wl sc cb H. unfold others in H. apply in_map_iff in H.
  destruct H as ((i & c) & <- & H). apply filter_In in H. destruct H as (H & _).
  unfold indexed in H. apply in_combine_r in H. exact H.
Qed.

Lemma rr_rhs_mono : forall wl sc,
  (forall cb, In cb wl -> mono (cb_na cb) /\ mono (cb_cost cb)) ->
  mono (cb_na (eoc wl sc)) -> mono (cb_cost (eoc wl sc)) -> mono (rr_rhs wl sc).
Proof.
  intros wl sc Hwl Hna Hc a b Hab. unfold rr_rhs.
  assert (H1 : sumN (map (fun cb => rr_direct wl sc cb a) (others wl sc)) <=
               sumN (map (fun cb => rr_direct wl sc cb b) (others wl sc))).
  { apply sumN_map_le. intros cb Hcb. apply in_others in Hcb.
    destruct (Hwl cb Hcb) as (Hn & Hk). unfold rr_direct. apply Hk, capped_mono, Hn. lia. }
  assert (H2 : cb_cost (eoc wl sc) (rr_self_instances wl sc a) <=
               cb_cost (eoc wl sc) (rr_self_instances wl sc b)).
  { apply Hc. unfold rr_self_instances.
    assert (cb_na (eoc wl sc) (a + cb_R (eoc wl sc) - 1) <= cb_na (eoc wl sc) (b + cb_R (eoc wl sc) - 1))
      by (apply Hna; lia).
    lia. }
  lia.
Qed.

Section Ros2.
  Variables (sbf st : N -> N).
  Hypothesis Hok : sbf_ok sbf.
  Hypothesis Hinv : exact_inverse sbf st.

  Theorem rr_exhaustive : forall dbg wl sc limit (bound : N -> N),
    (forall cb, In cb wl -> mono (cb_na cb) /\ mono (cb_cost cb)) ->
    mono (cb_na (eoc wl sc)) -> mono (cb_cost (eoc wl sc)) ->
    (forall d, st d < bound d) ->
    rr_subchain dbg sbf st wl sc limit = exh_rr sbf bound wl sc limit.
  Proof.
    intros dbg wl sc limit bound Hwl Hna Hc Hb. unfold rr_subchain, exh_rr.
    rewrite (search_least_sol sbf st Hok Hinv dbg limit _ (rr_rhs_mono wl sc Hwl Hna Hc)).
    destruct (least_sol sbf limit 0 (rr_rhs wl sc)) as [S|]; cbn [rbind]; [|reflexivity].
    cbv zeta.
    destruct (N.ltb_spec (cb_cost (eoc wl sc) (rr_self_instances wl sc S + 1))
                         (cb_cost (eoc wl sc) (rr_self_instances wl sc S))) as [Hlt|_].
    - pose proof (Hc (rr_self_instances wl sc S) (rr_self_instances wl sc S + 1)). lia.
    - f_equal. apply (st_is_inv_scan sbf st Hinv). apply Hb.
  Qed.
End Ros2.
Print Assumptions rr_exhaustive.

(* ------------------------------------------------------------------------------------------ *)
(* 3. the ECRTS'19 driver and the event-source analysis                                        *)
(* ------------------------------------------------------------------------------------------ *)

Lemma maxN_map_eq0 : forall {A B} (f : A -> N) (g : B -> N) (l1 : list A) (l2 : list B),
  (forall a, In a l1 -> exists b, In b l2 /\ f a <= g b) ->
  (forall b, In b l2 -> g b = 0 \/ exists a, In a l1 /\ g b <= f a) ->
  maxN (map f l1) = maxN (map g l2).
Proof.
  intros A B f g l1 l2 H1 H2. apply N.le_antisymm.
  - apply maxN_le_maxN. intros x Hx. apply in_map_iff in Hx. destruct Hx as (a & <- & Ha).
    destruct (H1 a Ha) as (b & Hb & Hab). exists (g b). split; [apply in_map; exact Hb|exact Hab].
  - apply maxN_le. intros x Hx. apply in_map_iff in Hx. destruct Hx as (b & <- & Hb).
    destruct (H2 b Hb) as [->|(a & Ha & Hab)]; [apply N.le_0_l|].
    pose proof (maxN_ub (map f l1) (f a) (in_map f _ _ Ha)). lia.
Qed.

Section Ecrts.
  Variables (sbf st : N -> N).
  Hypothesis Hok : sbf_ok sbf.
  Hypothesis Hinv : exact_inverse sbf st.

  (* the outcome for one offset in terms of the linear scan *)
  Definition off_res (limit A : N) (w : N -> N) : result :=
    match least_sol sbf limit A w with Some r => ROk r | None => RErr A limit end.

  Lemma off_res_not_panic : forall limit (rhs : N -> N -> N) l,
    existsb is_panic (map (fun A => off_res limit A (rhs A)) l) = false.
  Proof.
    intros limit rhs l. induction l as [|A l IH]; [reflexivity|].
    cbn [map existsb]. rewrite IH. unfold off_res. destruct (least_sol sbf limit A (rhs A)); reflexivity.
  Qed.

  (* the driver, with every search replaced by its linear scan *)
  Lemma brt_unfold : forall dbg limit demand steps bw_rhs rhs,
    steps_exact demand steps -> mono bw_rhs -> (forall A, mono (rhs A)) ->
    (forall max_bw A, least_sol sbf limit 0 bw_rhs = Some max_bw -> A <= max_bw ->
                      demand A < demand (A + 1) -> A <= st (rhs A 1)) ->
    bound_response_time dbg sbf st limit steps bw_rhs rhs =
    match least_sol sbf limit 0 bw_rhs with
    | None => RErr 0 limit
    | Some max_bw =>
        max_response_time (map (fun A => off_res limit A (rhs A)) (map (fun d => d - 1) (steps (max_bw + 1))))
    end.
  Proof.
    intros dbg limit demand steps bw_rhs rhs Hs Hbw Hrhs Hpre. unfold bound_response_time.
    rewrite (search_least_sol sbf st Hok Hinv dbg limit bw_rhs Hbw).
    destruct (least_sol sbf limit 0 bw_rhs) as [max_bw|] eqn:E; cbn [rbind]; [|reflexivity].
    cbv zeta.
    rewrite filter_pos_id by (intros d Hd; apply Hs in Hd; lia).
    f_equal. apply map_ext_in. intros A HA. apply in_map_iff in HA.
    destruct HA as (d & <- & Hd). apply Hs in Hd. destruct Hd as (H1 & H2 & H3).
    unfold off_res. apply (search_with_offset_least_sol sbf st Hinv); [apply Hrhs|].
    apply (Hpre max_bw); [reflexivity|lia|]. replace (d - 1 + 1) with d by lia. exact H3.
  Qed.

  Lemma in_step_offsets : forall demand steps h A, steps_exact demand steps ->
    In A (map (fun d => d - 1) (steps (h + 1))) <-> (A <= h /\ demand A < demand (A + 1)).
  Proof.
    intros demand steps h A Hs. rewrite in_map_iff. split.
    - intros (d & <- & Hd). apply Hs in Hd. destruct Hd as (H1 & H2 & H3).
      replace (d - 1 + 1) with d by lia. split; [lia|exact H3].
    - intros (H1 & H2). exists (A + 1). split; [lia|]. apply Hs.
      replace (A + 1 - 1) with A by lia. split; [lia|]. split; [lia|exact H2].
  Qed.

  (* inside the busy window the supply has not caught up with the demand *)
  Lemma bw_supply_le_demand : forall limit demand max_bw A, mono demand ->
    least_sol sbf limit 0 demand = Some max_bw -> 1 <= A -> A <= max_bw -> sbf A <= demand A.
  Proof.
    intros limit demand max_bw A Hm E HA1 HA2.
    apply least_sol_some in E. destruct E as (_ & _ & _ & Hmin).
    assert (Hn : ~ sol sbf demand 0 (A - 1)) by (apply Hmin; lia).
    unfold sol in Hn. rewrite N.add_0_l in Hn.
    assert (H1 : demand (N.max (A - 1) 1) <= demand A) by (apply Hm; lia).
    destruct Hok as (_ & _ & Hl). specialize (Hl (A - 1)).
    replace (A - 1 + 1) with A in Hl by lia. lia.
  Qed.

  (* the least solution of a constant right-hand side *)
  Lemma least_sol_const : forall limit A c, 1 <= limit ->
    least_sol sbf limit A (fun _ => c) = if st c - A <=? limit then Some (st c - A) else None.
  Proof.
    intros limit A c Hl.
    assert (Hsol : forall r, sol sbf (fun _ => c) A r <-> st c - A <= r).
    { intros r. unfold sol. rewrite <- (Hinv c (A + r)). lia. }
    destruct (N.leb_spec (st c - A) limit) as [Hle|Hgt].
    - apply least_sol_some. split; [exact Hl|]. split; [exact Hle|]. split.
      + apply Hsol. lia.
      + intros s Hs Hc. apply Hsol in Hc. lia.
    - apply least_sol_none. right. intros s Hs Hc. apply Hsol in Hc. lia.
  Qed.

  Lemma step_dominated0 : forall f, mono f -> f 0 = 0 ->
    forall A, f (A + 1) = 0 \/ exists A', A' <= A /\ f A' < f (A' + 1) /\ f (A' + 1) = f (A + 1).
  Proof.
    intros f Hm H0 A. induction A as [|A IH] using N.peano_ind.
    - destruct (N.eq_dec (f (0 + 1)) 0) as [E|E]; [left; exact E|right].
      exists 0. split; [lia|]. split; [lia|reflexivity].
    - destruct (N.lt_ge_cases (f (N.succ A)) (f (N.succ A + 1))) as [Hlt|Hge].
      + right. exists (N.succ A). split; [lia|]. split; [exact Hlt|reflexivity].
      + assert (E : f (N.succ A + 1) = f (A + 1)).
        { replace (A + 1) with (N.succ A) by lia. pose proof (Hm (N.succ A) (N.succ A + 1)). lia. }
        rewrite E. destruct IH as [IH|(A' & H1 & H2 & H3)]; [left; exact IH|right].
        exists A'. split; [lia|]. split; [exact H2|exact H3].
  Qed.

  Theorem event_source_exhaustive : forall dbg limit demand steps,
    mono demand -> demand 0 = 0 -> steps_exact demand steps ->
    rta_event_source dbg sbf st limit demand steps = exh_event_source sbf limit demand.
  Proof.
    intros dbg limit demand steps Hm H0 Hs. unfold rta_event_source, exh_event_source, exh_ecrts.
    rewrite (brt_unfold dbg limit demand steps demand (fun off _ => demand (off + 1)) Hs Hm).
    2:{ intros A a b _. apply N.le_refl. }
    2:{ intros max_bw A E HA Hstep. destruct (N.eq_dec A 0) as [->|HA0]; [apply N.le_0_l|].
        pose proof (bw_supply_le_demand limit demand max_bw A Hm E ltac:(lia) HA) as Hle.
        destruct (N.le_gt_cases A (st (demand (A + 1)))) as [Hok'|Hlt]; [exact Hok'|exfalso].
        assert (Hc : st (demand (A + 1)) <= A) by lia. apply Hinv in Hc. lia. }
    destruct (least_sol sbf limit 0 demand) as [max_bw|] eqn:E; [|reflexivity].
    pose proof E as E'. apply least_sol_some in E'. destruct E' as (Hl1 & Hbl & Hsol & Hmin).
    set (v := fun A => st (demand (A + 1)) - A).
    assert (Hg : forall A, off_res limit A (fun _ => demand (A + 1)) =
                           if v A <=? limit then ROk (v A) else RErr A limit).
    { intros A. unfold off_res. rewrite (least_sol_const limit A _ Hl1). fold (v A).
      destruct (v A <=? limit); reflexivity. }
    assert (Hls : forall A, least_sol sbf limit A (fun _ => demand (A + 1)) =
                            if v A <=? limit then Some (v A) else None).
    { intros A. apply (least_sol_const limit A _ Hl1). }
    (* below max_bw every offset has a solution *)
    assert (F2 : forall A, A < max_bw -> v A <= limit).
    { intros A HA. unfold v. unfold sol in Hsol. rewrite N.add_0_l in Hsol.
      assert (H1 : demand (A + 1) <= demand (N.max max_bw 1)) by (apply Hm; lia).
      assert (H2 : st (demand (A + 1)) <= max_bw) by (apply Hinv; lia). lia. }
    (* a non-step offset is dominated by its predecessor *)
    assert (F3 : forall A, 1 <= A -> demand A = demand (A + 1) -> v A <= v (A - 1)).
    { intros A HA Heq. unfold v. replace (A - 1 + 1) with A by lia. rewrite Heq. lia. }
    set (offs := map (fun d => d - 1) (steps (max_bw + 1))).
    assert (Hoffs : forall A, In A offs <-> (A <= max_bw /\ demand A < demand (A + 1))).
    { intros A. apply in_step_offsets. exact Hs. }
    rewrite (mrt_spec _ (off_res_not_panic limit (fun off _ => demand (off + 1)) offs)).
    set (sols := map (fun A => (A, least_sol sbf limit A (fun _ => demand (A + 1)))) (rangeN 0 (max_bw + 1))).
    destruct (N.leb_spec (v max_bw) limit) as [Hv|Hv].
    - (* every offset has a solution *)
      assert (Hall : forall A, A <= max_bw -> v A <= limit).
      { intros A HA. destruct (N.eq_dec A max_bw) as [->|Hne]; [exact Hv|apply F2; lia]. }
      destruct (find (fun p => is_none (snd p)) sols) as [p|] eqn:EF.
      { exfalso. apply find_some in EF. destruct EF as (Hp & Hn). unfold sols in Hp.
        apply in_map_iff in Hp. destruct Hp as (A & <- & HA). apply in_rangeN in HA.
        cbn [snd] in Hn. rewrite Hls in Hn.
        destruct (N.leb_spec (v A) limit) as [_|Hgt]; [discriminate Hn|].
        specialize (Hall A ltac:(lia)). lia. }
      destruct (find is_err _) as [e|] eqn:EF2.
      { exfalso. apply find_some in EF2. destruct EF2 as (He & Hn).
        apply in_map_iff in He. destruct He as (A & <- & HA). apply Hoffs in HA.
        rewrite Hg in Hn. destruct (N.leb_spec (v A) limit) as [_|Hgt]; [discriminate Hn|].
        specialize (Hall A ltac:(tauto)). lia. }
      f_equal. unfold sols. rewrite !map_map. cbn [snd].
      apply maxN_map_eq0.
      + intros A HA. apply Hoffs in HA. exists A. split; [apply in_rangeN; lia|].
        rewrite Hg, Hls. destruct (v A <=? limit); cbn [val_of oval]; lia.
      + intros A HA. apply in_rangeN in HA. rewrite Hls.
        assert (HvA : v A <= limit) by (apply Hall; lia).
        destruct (N.leb_spec (v A) limit) as [_|Hgt]; [|lia]. cbn [oval].
        destruct (step_dominated0 demand Hm H0 A) as [Hz|(A' & H1 & H2 & H3)].
        * left. unfold v. rewrite Hz.
          assert (st 0 <= 0) by (apply Hinv; apply N.le_0_l). lia.
        * right. exists A'. split; [apply Hoffs; split; [lia|exact H2]|].
          rewrite Hg. assert (HvA' : v A' <= limit) by (apply Hall; lia).
          destruct (N.leb_spec (v A') limit) as [_|Hgt]; [|lia]. cbn [val_of].
          unfold v. rewrite H3. lia.
    - (* the last offset has no solution; it is a step offset *)
      assert (Hstep : demand max_bw < demand (max_bw + 1)).
      { destruct (N.eq_dec max_bw 0) as [->|Hne].
        - rewrite H0. destruct (N.eq_dec (demand (0 + 1)) 0) as [Hz|Hz]; [|lia].
          exfalso. unfold v in Hv. rewrite Hz in Hv.
          assert (st 0 <= 0) by (apply Hinv; apply N.le_0_l). lia.
        - destruct (N.lt_ge_cases (demand max_bw) (demand (max_bw + 1))) as [Hlt|Hge]; [exact Hlt|].
          exfalso. pose proof (Hm max_bw (max_bw + 1) ltac:(lia)).
          pose proof (F3 max_bw ltac:(lia) ltac:(lia)). pose proof (F2 (max_bw - 1) ltac:(lia)). lia. }
      assert (Honly : forall A, A <= max_bw -> limit < v A -> A = max_bw).
      { intros A HA HvA. destruct (N.eq_dec A max_bw) as [->|Hne]; [reflexivity|].
        pose proof (F2 A ltac:(lia)). lia. }
      destruct (find (fun p => is_none (snd p)) sols) as [p|] eqn:EF.
      + apply find_some in EF. destruct EF as (Hp & Hn). unfold sols in Hp.
        apply in_map_iff in Hp. destruct Hp as (A & <- & HA). apply in_rangeN in HA.
        cbn [snd] in Hn. rewrite Hls in Hn. cbn [fst].
        destruct (N.leb_spec (v A) limit) as [_|Hgt]; [discriminate Hn|].
        rewrite (Honly A ltac:(lia) Hgt).
        destruct (find is_err _) as [e|] eqn:EF2.
        * apply find_some in EF2. destruct EF2 as (He & Hn2).
          apply in_map_iff in He. destruct He as (A2 & <- & HA2). apply Hoffs in HA2.
          rewrite Hg in *. destruct (N.leb_spec (v A2) limit) as [_|Hgt2]; [discriminate Hn2|].
          rewrite (Honly A2 ltac:(tauto) Hgt2). reflexivity.
        * exfalso.
          assert (Hin : In max_bw offs) by (apply Hoffs; split; [lia|exact Hstep]).
          pose proof (find_none _ _ EF2 _ (in_map (fun A => off_res limit A (fun _ => demand (A + 1))) _ _ Hin)) as HF.
          cbv beta in HF. rewrite Hg in HF.
          destruct (N.leb_spec (v max_bw) limit) as [Hle|_]; [lia|discriminate HF].
      + exfalso.
        assert (Hin : In (max_bw, least_sol sbf limit max_bw (fun _ => demand (max_bw + 1))) sols).
        { unfold sols. apply (in_map (fun A => (A, least_sol sbf limit A (fun _ => demand (A + 1))))).
          apply in_rangeN. lia. }
        pose proof (find_none _ _ EF _ Hin) as HF. cbn [snd] in HF. rewrite Hls in HF.
        destruct (N.leb_spec (v max_bw) limit) as [Hle|_]; [lia|discriminate HF].
  Qed.
End Ecrts.
Print Assumptions event_source_exhaustive.

(* ------------------------------------------------------------------------------------------ *)
(* 4. known finding C07-ecrts19-pruning: the polling-point analysis is not exhaustive          *)
(* ------------------------------------------------------------------------------------------ *)

Definition wit_own (d : N) : N := if d =? 0 then 0 else (d + 18) / 19.      (* sporadic, period 19, cost 1 *)
Definition wit_own_lw (d : N) : N := if wit_own d =? 0 then 0 else 1.
Definition wit_intf (d : N) : N := 4 * curve_na [5; 8; 17; 24] d.           (* delta-min [5;8;17;24], cost 4 *)
Definition wit_steps (h : N) : list N := filter (fun d => wit_own (d - 1) <? wit_own d) (rangeN 1 h).

Theorem pp_not_exhaustive_refuted : exists own own_lw intf steps limit,
  rta_pp true (fun d => d) (fun d => d) limit own own_lw steps intf = ROk 5 /\
  exh_ecrts (fun d => d) limit (fun d => own d + intf d)
     (fun off resp => own (off + 1) + intf (interference_interval own_lw off resp)) = ROk 8.
Proof.
  exists wit_own, wit_own_lw, wit_intf, wit_steps, 100. split; vm_compute; reflexivity.
Qed.
Print Assumptions pp_not_exhaustive_refuted.

(* ------------------------------------------------------------------------------------------ *)
(* 5. bw subchain                                                                              *)
(* ------------------------------------------------------------------------------------------ *)

Lemma capped_mono2 : forall k k' a a' b b', a <= a' -> b <= b' -> capped k k' a b <= capped k k' a' b'.
Proof.
  intros k k' a a' b b' Ha Hb. unfold capped. destruct k as [| | |p]; try lia. destruct k'; lia.
Qed.

Lemma least_sol_ext : forall sbf limit off f g, (forall x, f x = g x) ->
  least_sol sbf limit off f = least_sol sbf limit off g.
Proof.
  intros sbf limit off f g H. unfold least_sol. destruct (limit =? 0); [reflexivity|].
  induction (rangeN 0 (limit + 1)) as [|y l IH]; [reflexivity|].
  cbn [find]. rewrite H, IH. reflexivity.
Qed.

Lemma in_indexed_gen : forall (l : list callback) (a i : nat) d, (i < length l)%nat ->
  In ((a + i)%nat, nth i l d) (combine (seq a (length l)) l).
Proof.
  induction l as [|x l IH]; intros a i d Hi; cbn [length] in Hi; [inversion Hi|].
  cbn [length seq combine]. destruct i as [|i].
  - left. cbn [nth]. f_equal. symmetry. apply Nat.add_0_r.
  - right. cbn [nth]. replace (a + S i)%nat with (S a + i)%nat by (rewrite <- plus_n_Sm; reflexivity).
    apply IH. apply Nat.succ_lt_mono. exact Hi.
Qed.

Section Bw.
  Variables (sbf st : N -> N).
  Hypothesis Hok : sbf_ok sbf.
  Hypothesis Hinv : exact_inverse sbf st.
  Variables (wl : list callback) (sc : list nat) (limit : N) (bound : N -> N).
  Let e := eoc wl sc.
  Hypothesis Hwl : forall cb, In cb wl -> mono (cb_na cb) /\ mono (cb_cost cb) /\ steps_exact (cb_na cb) (cb_steps cb).
  Hypothesis He : mono (cb_na e) /\ mono (cb_cost e) /\ steps_exact (cb_na e) (cb_steps e).
  Hypothesis Hb : forall d, st d < bound d.
  (* the end-of-chain callback can be activated: offset 0 is in the Lemma-19 step set *)
  Hypothesis Harr : cb_na e 0 < cb_na e 1.
  (* release build, or a debug build in which the cross-check of the step enumeration passes *)
  Variable dbg : bool.
  Hypothesis Hchk : forall m, dbg && negb (bw_debug_check wl sc m) = false.

  Lemma bw_rbf_mono2 : forall cb a a' b b', In cb (others wl sc) -> a <= a' -> b <= b' ->
    bw_rbf wl sc cb a b <= bw_rbf wl sc cb a' b'.
  Proof.
    intros cb a a' b b' Hcb Ha Hb'. apply in_others in Hcb. destruct (Hwl cb Hcb) as (Hn & Hk & _).
    unfold bw_rbf. apply Hk, capped_mono2; [apply Hn; exact Ha|].
    pose proof (Hn b b' Hb'). lia.
  Qed.

  Lemma bw_interference_mono2 : forall a a' b b', a <= a' -> b <= b' ->
    bw_interference wl sc a b <= bw_interference wl sc a' b'.
  Proof.
    intros a a' b b' Ha Hb'. unfold bw_interference. apply sumN_map_le.
    intros cb Hcb. apply bw_rbf_mono2; assumption.
  Qed.

  Lemma bw_max_rhs_mono : mono (bw_max_rhs wl sc).
  Proof.
    intros a b Hab. unfold bw_max_rhs. fold e.
    pose proof (bw_interference_mono2 a b a b Hab Hab).
    destruct He as (Hn & Hk & _). pose proof (Hk _ _ (Hn a b Hab)). lia.
  Qed.

  Definition bw_g (singleton : bool) (ta : N) : result :=
    match exh_bw_at sbf bound wl sc limit singleton ta with Some v => ROk v | None => RErr 0 limit end.

  Lemma bw_rta_exh : forall singleton act,
    bw_rta dbg sbf st wl sc limit singleton act = bw_g singleton act.
  Proof.
    intros singleton act. unfold bw_rta, bw_g, exh_bw_at. cbv zeta. fold e.
    rewrite (search_least_sol sbf st Hok Hinv dbg limit).
    2:{ intros a b Hab. pose proof (bw_interference_mono2 a b act act Hab (N.le_refl _)). lia. }
    destruct (least_sol sbf limit 0 _) as [S|]; cbn [rbind]; [|reflexivity].
    destruct He as (_ & Hk & _).
    destruct (N.ltb_spec (cb_cost e (bw_self_instances wl sc act + 1))
                         (cb_cost e (bw_self_instances wl sc act))) as [Hlt|_].
    - pose proof (Hk (bw_self_instances wl sc act) (bw_self_instances wl sc act + 1)). lia.
    - rewrite <- (st_is_inv_scan sbf st Hinv) by apply Hb. reflexivity.
  Qed.

  Lemma bw_g_not_panic : forall s l, existsb is_panic (map (bw_g s) l) = false.
  Proof.
    intros s l. induction l as [|A l IH]; [reflexivity|].
    cbn [map existsb]. rewrite IH. unfold bw_g. destruct (exh_bw_at _ _ _ _ _ _ _); reflexivity.
  Qed.

  (* two offsets between which nothing the offset-specific analysis depends on changes *)
  Definition bw_same (ta ta' : N) : Prop :=
    cb_na e (ta + 1) = cb_na e (ta' + 1) /\
    forall cb, In cb (others wl sc) -> is_pp (cb_kind cb) = true -> cb_na cb ta = cb_na cb ta'.

  Lemma bw_rbf_same : forall ta ta' cb S, bw_same ta ta' -> In cb (others wl sc) ->
    bw_rbf wl sc cb S ta = bw_rbf wl sc cb S ta'.
  Proof.
    intros ta ta' cb S (_ & H) Hcb. specialize (H cb Hcb). unfold bw_rbf, capped.
    destruct (cb_kind cb) as [| | |p]; cbn [is_pp] in H; try reflexivity; rewrite (H eq_refl); reflexivity.
  Qed.

  Lemma exh_bw_at_same : forall s ta ta', bw_same ta ta' -> ta' <= ta ->
    match exh_bw_at sbf bound wl sc limit s ta', exh_bw_at sbf bound wl sc limit s ta with
    | Some a, Some b => b <= a
    | None, None => True
    | _, _ => False
    end.
  Proof.
    intros s ta ta' Hsame Hle. unfold exh_bw_at. cbv zeta. fold e.
    assert (Hsi : bw_self_instances wl sc ta = bw_self_instances wl sc ta').
    { unfold bw_self_instances. fold e. destruct Hsame as (H & _). rewrite H. reflexivity. }
    rewrite Hsi.
    rewrite (least_sol_ext sbf limit 0
               (fun x => 1 + bw_interference wl sc x ta + cb_cost e (bw_self_instances wl sc ta'))
               (fun x => 1 + bw_interference wl sc x ta' + cb_cost e (bw_self_instances wl sc ta'))).
    2:{ intros x. f_equal. f_equal. unfold bw_interference. apply sumN_map_ext_in.
        intros cb Hcb. apply bw_rbf_same; assumption. }
    destruct (least_sol sbf limit 0 _) as [S|]; [|exact I].
    destruct s; lia.
  Qed.

  Lemma eoc_in_range : (eoc_idx sc < length wl)%nat.
  Proof.
    destruct (Nat.lt_ge_cases (eoc_idx sc) (length wl)) as [H|H]; [exact H|exfalso].
    unfold e, eoc, cb_at in Harr. rewrite nth_overflow in Harr by exact H.
    cbn [cb_na] in Harr. lia.
  Qed.

  Lemma eoc_indexed : In (eoc_idx sc, e) (indexed wl).
  Proof.
    unfold indexed, e, eoc, cb_at. apply (in_indexed_gen wl 0 (eoc_idx sc)). apply eoc_in_range.
  Qed.

  Lemma in_all_steps_intro : forall h ic x, In ic (indexed wl) ->
    is_pp (cb_kind (snd ic)) || Nat.eqb (fst ic) (eoc_idx sc) = true ->
    In x (bw_cb_steps sc h ic) -> In x (bw_all_steps wl sc h).
  Proof.
    intros h ic x Hic Hf Hx. unfold bw_all_steps. apply in_dedup, in_kmerge.
    exists (bw_cb_steps sc h ic). split; [|exact Hx].
    apply in_map. apply filter_In. split; assumption.
  Qed.

  Lemma bw_same_refl : forall ta, bw_same ta ta.
  Proof. intros ta. split; [reflexivity|]. intros; reflexivity. Qed.

  Lemma bw_same_trans : forall a b c, bw_same a b -> bw_same b c -> bw_same a c.
  Proof.
    intros a b c (H1 & H2) (H3 & H4). split; [congruence|].
    intros cb Hcb Hpp. rewrite (H2 cb Hcb Hpp). apply H4; assumption.
  Qed.

  Lemma bw_dominated : forall m ta, ta < m ->
    exists ta', ta' <= ta /\ In ta' (bw_all_steps wl sc m) /\ bw_same ta ta'.
  Proof.
    intros m ta. induction ta as [|ta IH] using N.peano_ind; intros Hta.
    - exists 0. split; [lia|]. split; [|apply bw_same_refl].
      apply (in_all_steps_intro m (eoc_idx sc, e)); [apply eoc_indexed| |].
      + cbn [fst snd]. rewrite Nat.eqb_refl. apply orb_true_r.
      + unfold bw_cb_steps. cbn [fst snd]. rewrite Nat.eqb_refl.
        apply in_map_iff. exists 1. split; [reflexivity|].
        destruct He as (_ & _ & Hs). apply Hs. change (1 - 1) with 0. split; [lia|]. split; [lia|exact Harr].
    - destruct (in_dec N.eq_dec (N.succ ta) (bw_all_steps wl sc m)) as [Hin|Hnin].
      + exists (N.succ ta). split; [lia|]. split; [exact Hin|apply bw_same_refl].
      + destruct (IH ltac:(lia)) as (ta' & H1 & H2 & H3).
        exists ta'. split; [lia|]. split; [exact H2|].
        apply (bw_same_trans _ ta); [|exact H3]. split.
        * destruct He as (Hn & _ & Hs).
          destruct (N.eq_dec (cb_na e (N.succ ta + 1)) (cb_na e (ta + 1))) as [E|E]; [exact E|exfalso].
          apply Hnin. apply (in_all_steps_intro m (eoc_idx sc, e)); [apply eoc_indexed| |].
          -- cbn [fst snd]. rewrite Nat.eqb_refl. apply orb_true_r.
          -- unfold bw_cb_steps. cbn [fst snd]. rewrite Nat.eqb_refl.
             apply in_map_iff. exists (N.succ ta + 1). split; [lia|].
             apply Hs. replace (N.succ ta + 1 - 1) with (ta + 1) by lia.
             pose proof (Hn (ta + 1) (N.succ ta + 1) ltac:(lia)). lia.
        * intros cb Hcb Hpp.
          destruct (N.eq_dec (cb_na cb (N.succ ta)) (cb_na cb ta)) as [E|E]; [exact E|exfalso].
          apply Hnin. unfold others in Hcb. apply in_map_iff in Hcb.
          destruct Hcb as (ic & <- & Hic). apply filter_In in Hic. destruct Hic as (Hic & Hne).
          apply (in_all_steps_intro m ic); [exact Hic|rewrite Hpp; reflexivity|].
          unfold bw_cb_steps. apply negb_true_iff in Hne. rewrite Hne.
          assert (Hcbwl : In (snd ic) wl).
          { destruct ic as (i & c). unfold indexed in Hic. apply in_combine_r in Hic. exact Hic. }
          destruct (Hwl _ Hcbwl) as (Hn & _ & Hs). apply Hs.
          replace (N.succ ta - 1) with ta by lia.
          pose proof (Hn ta (N.succ ta) ltac:(lia)). lia.
  Qed.

  Theorem bw_exhaustive_sec : bw_subchain dbg sbf st wl sc limit = exh_bw sbf bound wl sc limit.
  Proof.
    unfold bw_subchain, exh_bw. cbv zeta.
    rewrite (search_least_sol sbf st Hok Hinv dbg limit _ bw_max_rhs_mono).
    destruct (least_sol sbf limit 0 (bw_max_rhs wl sc)) as [m|]; cbn [rbind]; [|reflexivity].
    rewrite Hchk.
    set (s := Nat.eqb (length sc) 1).
    set (l := filter (fun a => a <? m) (bw_all_steps wl sc m)).
    rewrite (map_ext _ _ (bw_rta_exh s)).
    rewrite (mrt_spec _ (bw_g_not_panic s l)).
    assert (Hl : forall x, In x l <-> In x (bw_all_steps wl sc m) /\ x < m).
    { intros x. unfold l. rewrite filter_In, N.ltb_lt. reflexivity. }
    assert (Hdom : forall ta, ta < m -> exists ta', In ta' l /\
              match exh_bw_at sbf bound wl sc limit s ta', exh_bw_at sbf bound wl sc limit s ta with
              | Some a, Some b => b <= a | None, None => True | _, _ => False end).
    { intros ta Hta. destruct (bw_dominated m ta Hta) as (ta' & H1 & H2 & H3).
      exists ta'. split; [apply Hl; split; [exact H2|lia]|].
      apply exh_bw_at_same; assumption. }
    destruct (existsb is_none (map (exh_bw_at sbf bound wl sc limit s) (rangeN 0 m))) eqn:EX.
    - apply existsb_exists in EX. destruct EX as (o & Ho & Hn).
      apply in_map_iff in Ho. destruct Ho as (ta & <- & Hta). apply in_rangeN in Hta.
      destruct (Hdom ta ltac:(lia)) as (ta' & H1 & H2).
      destruct (find is_err (map (bw_g s) l)) as [r|] eqn:EF.
      + apply find_some in EF. destruct EF as (Hr & Herr). apply in_map_iff in Hr.
        destruct Hr as (x & <- & _). unfold bw_g in *.
        destruct (exh_bw_at sbf bound wl sc limit s x); [discriminate Herr|reflexivity].
      + exfalso. pose proof (find_none _ _ EF _ (in_map (bw_g s) _ _ H1)) as HF.
        unfold bw_g in HF.
        destruct (exh_bw_at sbf bound wl sc limit s ta'); [|discriminate HF].
        destruct (exh_bw_at sbf bound wl sc limit s ta); [discriminate Hn|contradiction].
    - assert (Hall : forall ta, ta < m -> exh_bw_at sbf bound wl sc limit s ta <> None).
      { intros ta Hta E.
        assert (HT : existsb is_none (map (exh_bw_at sbf bound wl sc limit s) (rangeN 0 m)) = true); [|congruence].
        apply existsb_exists. exists (exh_bw_at sbf bound wl sc limit s ta). split.
        - apply in_map. apply in_rangeN. lia.
        - rewrite E. reflexivity. }
      destruct (find is_err (map (bw_g s) l)) as [r|] eqn:EF.
      + exfalso. apply find_some in EF. destruct EF as (Hr & Herr). apply in_map_iff in Hr.
        destruct Hr as (x & <- & Hx). apply Hl in Hx. destruct Hx as (_ & Hx).
        specialize (Hall x Hx). unfold bw_g in Herr.
        destruct (exh_bw_at sbf bound wl sc limit s x); [discriminate Herr|congruence].
      + f_equal. rewrite !map_map. apply maxN_map_eq.
        * intros x Hx. exists x. apply Hl in Hx. destruct Hx as (_ & Hx).
          split; [apply in_rangeN; lia|]. unfold bw_g.
          destruct (exh_bw_at sbf bound wl sc limit s x); cbn [val_of oval]; lia.
        * intros ta Hta. apply in_rangeN in Hta.
          destruct (Hdom ta ltac:(lia)) as (ta' & H1 & H2). exists ta'. split; [exact H1|].
          specialize (Hall ta ltac:(lia)). unfold bw_g.
          destruct (exh_bw_at sbf bound wl sc limit s ta'), (exh_bw_at sbf bound wl sc limit s ta);
            cbn [val_of oval]; try contradiction; try congruence; lia.
  Qed.
End Bw.

Theorem bw_exhaustive : forall sbf st, sbf_ok sbf -> exact_inverse sbf st ->
  forall wl sc limit (bound : N -> N),
  (forall cb, In cb wl -> mono (cb_na cb) /\ mono (cb_cost cb) /\ steps_exact (cb_na cb) (cb_steps cb)) ->
  (let e := eoc wl sc in mono (cb_na e) /\ mono (cb_cost e) /\ steps_exact (cb_na e) (cb_steps e)) ->
  (forall d, st d < bound d) ->
  cb_na (eoc wl sc) 0 < cb_na (eoc wl sc) 1 ->        (* extra: offset 0 is a step of the end-of-chain callback *)
  bw_subchain false sbf st wl sc limit = exh_bw sbf bound wl sc limit.
Proof.
  intros sbf st Hok Hinv wl sc limit bound Hwl He Hb Harr.
  apply bw_exhaustive_sec; try assumption. intros m. reflexivity.
Qed.
Print Assumptions bw_exhaustive.

(* without the extra hypothesis of [bw_exhaustive] the statement is false: an end-of-chain callback that
   never arrives has no step, the model analyses no offset at all, the exhaustive evaluator offset 0 *)
Theorem bw_exhaustive_needs_arrival_refuted : exists wl sc limit,
  (forall cb, In cb wl -> mono (cb_na cb) /\ mono (cb_cost cb) /\ steps_exact (cb_na cb) (cb_steps cb)) /\
  bw_subchain false (fun d => d) (fun d => d) wl sc limit = ROk 0 /\
  exh_bw (fun d => d) (fun d => d + 1) wl sc limit = ROk 1.
Proof.
  exists [mkCb 0 (fun _ => 0) (fun _ => []) (fun n => n) KTimer], [0%nat], 10.
  split; [|split; vm_compute; reflexivity].
  intros cb [<-|[]]. cbn [cb_na cb_cost cb_steps]. split; [intros a b _; lia|]. split; [intros a b H; exact H|].
  intros h d. cbn [In]. lia.
Qed.
Print Assumptions bw_exhaustive_needs_arrival_refuted.

(* ------------------------------------------------------------------------------------------ *)
(* 6. timer / polling point / chain: exactly the maximum over the step offsets                 *)
(* ------------------------------------------------------------------------------------------ *)

Lemma sorted_ext : forall l1 l2, StronglySorted N.lt l1 -> StronglySorted N.lt l2 ->
  (forall x, In x l1 <-> In x l2) -> l1 = l2.
Proof.
  induction l1 as [|a l1 IH]; intros l2 H1 H2 H.
  - destruct l2 as [|b l2]; [reflexivity|]. exfalso. apply (H b). left. reflexivity.
  - destruct l2 as [|b l2]; [exfalso; apply (H a); left; reflexivity|].
    apply StronglySorted_inv in H1. destruct H1 as (H1 & F1).
    apply StronglySorted_inv in H2. destruct H2 as (H2 & F2).
    rewrite Forall_forall in F1, F2.
    assert (E : a = b).
    { pose proof (proj1 (H a) (or_introl eq_refl)) as Ha.
      pose proof (proj2 (H b) (or_introl eq_refl)) as Hb'.
      destruct Ha as [Ha|Ha]; [symmetry; exact Ha|]. destruct Hb' as [Hb'|Hb']; [exact Hb'|].
      specialize (F1 b Hb'). specialize (F2 a Ha). lia. }
    subst b. f_equal. apply IH; [exact H1|exact H2|].
    intros x. split; intros Hx.
    + destruct (proj1 (H x) (or_intror Hx)) as [Hx'|Hx']; [|exact Hx'].
      specialize (F1 x Hx). lia.
    + destruct (proj2 (H x) (or_intror Hx)) as [Hx'|Hx']; [|exact Hx'].
      specialize (F2 x Hx). lia.
Qed.

Section EcrtsSteps.
  Variables (sbf st : N -> N).
  Hypothesis Hok : sbf_ok sbf.
  Hypothesis Hinv : exact_inverse sbf st.

  Definition exh_ecrts_steps (limit : N) (demand bw_rhs : N -> N) (rhs : N -> N -> N) : result :=
    match least_sol sbf limit 0 bw_rhs with
    | None => RErr 0 limit
    | Some max_bw =>
        let offs := filter (fun A => demand A <? demand (A + 1)) (rangeN 0 (max_bw + 1)) in
        let sols := map (fun A => (A, least_sol sbf limit A (rhs A))) offs in
        match find (fun p => is_none (snd p)) sols with
        | Some p => RErr (fst p) limit
        | None => ROk (maxN (map (fun p => oval (snd p)) sols))
        end
    end.

  Lemma find_err_sols : forall limit (rhs : N -> N -> N) offs,
    find is_err (map (fun A => match least_sol sbf limit A (rhs A) with Some r => ROk r | None => RErr A limit end) offs) =
    match find (fun p => is_none (snd p)) (map (fun A => (A, least_sol sbf limit A (rhs A))) offs) with
    | Some p => Some (RErr (fst p) limit)
    | None => None
    end.
  Proof.
    intros limit rhs offs. induction offs as [|A offs IH]; [reflexivity|].
    cbn [map find snd]. destruct (least_sol sbf limit A (rhs A)); cbn [is_err is_none fst]; [exact IH|reflexivity].
  Qed.

  Theorem bound_response_time_step_offsets : forall dbg limit demand steps bw_rhs rhs,
    (forall h, steps_spec demand (steps h) h) ->
    mono bw_rhs -> (forall A, mono (rhs A)) ->
    (forall max_bw A, least_sol sbf limit 0 bw_rhs = Some max_bw -> A <= max_bw ->
                      demand A < demand (A + 1) -> A <= st (rhs A 1)) ->
    bound_response_time dbg sbf st limit steps bw_rhs rhs = exh_ecrts_steps limit demand bw_rhs rhs.
  Proof.
    intros dbg limit demand steps bw_rhs rhs Hs Hbw Hrhs Hpre.
    assert (Hse : steps_exact demand steps) by (intros h d; apply (Hs h)).
    rewrite (brt_unfold sbf st Hok Hinv dbg limit demand steps bw_rhs rhs Hse Hbw Hrhs Hpre).
    unfold exh_ecrts_steps.
    destruct (least_sol sbf limit 0 bw_rhs) as [max_bw|]; [|reflexivity]. cbv zeta.
    assert (E : map (fun d => d - 1) (steps (max_bw + 1)) =
                filter (fun A => demand A <? demand (A + 1)) (rangeN 0 (max_bw + 1))).
    { apply sorted_ext.
      - apply (map_sorted (fun d => 1 <= d)).
        + rewrite Forall_forall. intros d Hd. apply (Hs (max_bw + 1)) in Hd. lia.
        + intros x y Hx Hy Hxy. lia.
        + apply (Hs (max_bw + 1)).
      - apply filter_sorted, rangeN_sorted.
      - intros A. rewrite (in_step_offsets demand steps max_bw A Hse).
        rewrite filter_In, in_rangeN, N.ltb_lt. lia. }
    rewrite E.
    rewrite (mrt_spec _ (off_res_not_panic sbf limit rhs _)).
    unfold off_res. rewrite find_err_sols.
    destruct (find (fun p => is_none (snd p)) _) as [p|]; [reflexivity|].
    f_equal. rewrite !map_map. f_equal. apply map_ext. intros A. cbn [snd].
    destruct (least_sol sbf limit A (rhs A)); reflexivity.
  Qed.
End EcrtsSteps.
Print Assumptions bound_response_time_step_offsets.

(* the three ECRTS'19 analyses with a pruned, lossy offset set *)
Lemma ii_ge : forall lw off r, off + 1 <= interference_interval lw off r.
Proof.
  intros lw off r. unfold interference_interval. cbv zeta.
  destruct (N.ltb_spec (lw (off + r)) r); lia.
Qed.

(* [interference_interval] is monotone in the response time when the least WCET is the same in every
   non-empty interval (an RBF whose arrival bound allows an arrival in an interval of length 1) *)
Lemma ii_mono_const : forall lw c off, (forall d, 1 <= d -> lw d = c) -> mono (interference_interval lw off).
Proof.
  intros lw c off Hc a b Hab. destruct (N.eq_dec a 0) as [->|Ha].
  - unfold interference_interval at 1. cbv zeta.
    destruct (N.ltb_spec (lw (off + 0)) 0) as [Hlt|_]; [lia|]. apply ii_ge.
  - unfold interference_interval. cbv zeta.
    rewrite (Hc (off + a)) by lia. rewrite (Hc (off + b)) by lia.
    destruct (N.ltb_spec c a), (N.ltb_spec c b); lia.
Qed.

Section EcrtsThree.
  Variables (sbf st : N -> N).
  Hypothesis Hok : sbf_ok sbf.
  Hypothesis Hinv : exact_inverse sbf st.

  Lemma offset_in_bw : forall limit bw_rhs max_bw A x, mono bw_rhs ->
    least_sol sbf limit 0 bw_rhs = Some max_bw -> A <= max_bw -> (1 <= A -> bw_rhs A < x) -> A <= st x.
  Proof.
    intros limit bw_rhs max_bw A x Hm E HA Hx.
    destruct (N.eq_dec A 0) as [->|HA0]; [apply N.le_0_l|].
    pose proof (bw_supply_le_demand sbf Hok limit bw_rhs max_bw A Hm E ltac:(lia) HA) as Hle.
    specialize (Hx ltac:(lia)).
    destruct (N.le_gt_cases A (st x)) as [H|H]; [exact H|exfalso].
    assert (Hc : st x <= A) by lia. apply Hinv in Hc. lia.
  Qed.

  Theorem timer_step_offsets : forall dbg limit own own_lw steps intf B,
    (forall h, steps_spec own (steps h) h) -> mono own -> mono intf ->
    (forall off, mono (interference_interval own_lw off)) ->
    rta_timer dbg sbf st limit own own_lw steps intf B =
    exh_ecrts_steps sbf limit own (fun d => own d + B + intf d)
      (fun off resp => own (off + 1) + intf (interference_interval own_lw off resp) + B).
  Proof.
    intros dbg limit own own_lw steps intf B Hs Hown Hintf Hii. unfold rta_timer.
    apply (bound_response_time_step_offsets sbf st Hok Hinv); [exact Hs| | |].
    - intros a b Hab. pose proof (Hown a b Hab). pose proof (Hintf a b Hab). lia.
    - intros A a b Hab. pose proof (Hintf _ _ (Hii A a b Hab)). lia.
    - intros max_bw A E HA Hstep.
      apply (offset_in_bw limit (fun d => own d + B + intf d) max_bw); [|exact E|exact HA|].
      + intros a b Hab. pose proof (Hown a b Hab). pose proof (Hintf a b Hab). lia.
      + intros _. pose proof (ii_ge own_lw A 1) as Hge.
        assert (Hle : A <= interference_interval own_lw A 1) by lia. pose proof (Hintf _ _ Hle). lia.
  Qed.

  Theorem pp_step_offsets : forall dbg limit own own_lw steps intf,
    (forall h, steps_spec own (steps h) h) -> mono own -> mono intf ->
    (forall off, mono (interference_interval own_lw off)) ->
    rta_pp dbg sbf st limit own own_lw steps intf =
    exh_ecrts_steps sbf limit own (fun d => own d + intf d)
      (fun off resp => own (off + 1) + intf (interference_interval own_lw off resp)).
  Proof.
    intros dbg limit own own_lw steps intf Hs Hown Hintf Hii. unfold rta_pp.
    apply (bound_response_time_step_offsets sbf st Hok Hinv); [exact Hs| | |].
    - intros a b Hab. pose proof (Hown a b Hab). pose proof (Hintf a b Hab). lia.
    - intros A a b Hab. pose proof (Hintf _ _ (Hii A a b Hab)). lia.
    - intros max_bw A E HA Hstep.
      apply (offset_in_bw limit (fun d => own d + intf d) max_bw); [|exact E|exact HA|].
      + intros a b Hab. pose proof (Hown a b Hab). pose proof (Hintf a b Hab). lia.
      + intros _. pose proof (ii_ge own_lw A 1) as Hge.
        assert (Hle : A <= interference_interval own_lw A 1) by lia. pose proof (Hintf _ _ Hle). lia.
  Qed.

  (* the chain analysis; [full = prefix + lastcb] is the caller's obligation (a debug_assert of the crate) *)
  Theorem chain_step_offsets : forall dbg limit lastcb lastcb_lw prefix full full_steps other,
    (forall h, steps_spec full (full_steps h) h) ->
    (forall d, full d = prefix d + lastcb d) ->
    mono lastcb -> mono prefix -> mono other ->
    (forall off, mono (interference_interval lastcb_lw off)) ->
    rta_chain dbg sbf st limit lastcb lastcb_lw prefix full full_steps other =
    exh_ecrts_steps sbf limit full (fun d => full d + other d)
      (fun off resp => let ii := interference_interval lastcb_lw off resp in
                       lastcb (off + 1) + prefix ii + other ii).
  Proof.
    intros dbg limit lastcb lastcb_lw prefix full full_steps other Hs Hfull Hl Hp Ho Hii. unfold rta_chain.
    assert (Hfm : mono (fun d => full d + other d)).
    { intros a b Hab. rewrite !Hfull. pose proof (Hl a b Hab). pose proof (Hp a b Hab).
      pose proof (Ho a b Hab). lia. }
    apply (bound_response_time_step_offsets sbf st Hok Hinv); [exact Hs|exact Hfm| |].
    - intros A a b Hab. cbv zeta. pose proof (Hii A a b Hab) as H.
      pose proof (Hp _ _ H). pose proof (Ho _ _ H). lia.
    - intros max_bw A E HA Hstep. cbv zeta.
      apply (offset_in_bw limit (fun d => full d + other d) max_bw); [exact Hfm|exact E|exact HA|].
      intros _. pose proof (ii_ge lastcb_lw A 1) as H.
      assert (Hle : A <= interference_interval lastcb_lw A 1) by lia.
      pose proof (Hp _ _ H). pose proof (Ho _ _ Hle).
      rewrite (Hfull (A + 1)) in Hstep. lia.
  Qed.
End EcrtsThree.
Print Assumptions timer_step_offsets.
Print Assumptions pp_step_offsets.
Print Assumptions chain_step_offsets.

(* ------------------------------------------------------------------------------------------ *)
(* 7. the debug-only brute-force enumeration of the Lemma-19 steps                             *)
(* ------------------------------------------------------------------------------------------ *)

Lemma list_eqb_refl : forall l, list_eqb l l = true.
Proof.
  induction l as [|x l IH]; [reflexivity|]. cbn [list_eqb]. rewrite N.eqb_refl, IH. reflexivity.
Qed.

Section BwDebug.
  Variables (wl : list callback) (sc : list nat).
  (* the step enumerators yield the steps in increasing order (as steps_iter does) *)
  Hypothesis Hwl : forall cb, In cb wl ->
    mono (cb_na cb) /\ forall h, steps_spec (cb_na cb) (cb_steps cb h) h.

  Lemma indexed_snd_in : forall ic, In ic (indexed wl) -> In (snd ic) wl.
  Proof.
    intros (i & c) H. unfold indexed in H. apply in_combine_r in H. exact H.
  Qed.

  Lemma bw_cb_steps_sorted : forall h ic, In ic (indexed wl) -> StronglySorted N.lt (bw_cb_steps sc h ic).
  Proof.
    intros h ic Hic. destruct (Hwl _ (indexed_snd_in ic Hic)) as (_ & Hs).
    unfold bw_cb_steps. destruct (Nat.eqb (fst ic) (eoc_idx sc)).
    - apply (map_sorted (fun d => 1 <= d)).
      + rewrite Forall_forall. intros d Hd. apply (Hs (h + 1)) in Hd. lia.
      + intros x y Hx Hy Hxy. lia.
      + apply (Hs (h + 1)).
    - apply (Hs h).
  Qed.

  Lemma bw_all_steps_sorted : forall h, StronglySorted N.lt (bw_all_steps wl sc h).
  Proof.
    intros h. unfold bw_all_steps. apply dedup_sorted, kmerge_sorted.
    rewrite Forall_forall. intros l Hl. apply in_map_iff in Hl. destruct Hl as (ic & <- & Hic).
    apply filter_In in Hic. apply lt_sorted_le, bw_cb_steps_sorted, Hic.
  Qed.

  Lemma bw_step_iff : forall x ic ta, In ic (indexed wl) ->
    ((is_pp (cb_kind (snd ic)) || Nat.eqb (fst ic) (eoc_idx sc) = true /\ In ta (bw_cb_steps sc x ic)) /\ ta <= x)
    <->
    (ta <= x /\
     (if Nat.eqb (fst ic) (eoc_idx sc) then negb (cb_na (snd ic) ta =? cb_na (snd ic) (ta + 1))
      else is_pp (cb_kind (snd ic)) && (0 <? ta) && negb (cb_na (snd ic) (ta - 1) =? cb_na (snd ic) ta)) = true).
  Proof.
    intros x ic ta Hic. destruct (Hwl _ (indexed_snd_in ic Hic)) as (Hm & Hs).
    unfold bw_cb_steps. destruct (Nat.eqb (fst ic) (eoc_idx sc)).
    - rewrite orb_true_r, in_map_iff, negb_true_iff, N.eqb_neq. split.
      + intros ((_ & d & <- & Hd) & Hx). apply (Hs (x + 1)) in Hd. destruct Hd as (H1 & H2 & H3).
        split; [exact Hx|]. replace (d - 1 + 1) with d by lia. lia.
      + intros (Hx & Hne). pose proof (Hm ta (ta + 1) ltac:(lia)) as Hle.
        split; [|exact Hx]. split; [reflexivity|]. exists (ta + 1). split; [lia|].
        apply (Hs (x + 1)). replace (ta + 1 - 1) with ta by lia. lia.
    - rewrite orb_false_r, !andb_true_iff, negb_true_iff, N.eqb_neq, N.ltb_lt. split.
      + intros ((Hpp & Hd) & Hx). apply (Hs x) in Hd. destruct Hd as (H1 & H2 & H3).
        split; [exact Hx|]. split; [split; [exact Hpp|lia]|lia].
      + intros (Hx & (Hpp & H0) & Hne). pose proof (Hm (ta - 1) ta ltac:(lia)) as Hle.
        split; [|exact Hx]. split; [exact Hpp|]. apply (Hs x). lia.
  Qed.

  Lemma bw_pulled_eq : forall x, filter (fun y => y <=? x) (bw_all_steps wl sc x) = bw_bf_steps wl sc x.
  Proof.
    intros x. apply sorted_ext.
    - apply filter_sorted, bw_all_steps_sorted.
    - apply filter_sorted, rangeN_sorted.
    - intros ta. rewrite filter_In, N.leb_le. unfold bw_all_steps. rewrite in_dedup, in_kmerge.
      unfold bw_bf_steps. rewrite filter_In, in_rangeN. unfold bw_is_bf_step. rewrite existsb_exists. split.
      + intros ((l & Hl & Hta) & Hx). apply in_map_iff in Hl. destruct Hl as (ic & <- & Hic).
        apply filter_In in Hic. destruct Hic as (Hic & Hf). split; [lia|].
        exists ic. split; [exact Hic|]. apply (bw_step_iff x ic ta Hic). tauto.
      + intros (Hr & ic & Hic & Hbody). assert (Hx0 : ta <= x) by lia.
        destruct (proj2 (bw_step_iff x ic ta Hic) (conj Hx0 Hbody)) as ((Hf & Hin) & Hx).
        split; [|exact Hx]. exists (bw_cb_steps sc x ic). split; [|exact Hin].
        apply in_map. apply filter_In. split; assumption.
  Qed.

  Theorem bw_debug_check_passes : forall m, bw_debug_check wl sc m = true.
  Proof.
    intros m. unfold bw_debug_check. destruct (first_at_or_above wl sc m) as [x|]; [|reflexivity].
    cbv zeta. rewrite bw_pulled_eq. rewrite firstn_all, list_eqb_refl, Nat.leb_refl. reflexivity.
  Qed.
End BwDebug.
Print Assumptions bw_debug_check_passes.

(* with step enumerators that are exact only up to order ([steps_exact]) the check can fail *)
Definition wit_na2 (d : N) : N := (d + 1) / 2.
Definition wit_st2 (h : N) : list N := rev (filter (fun d => wit_na2 (d - 1) <? wit_na2 d) (rangeN 1 h)).
Theorem bw_debug_check_needs_sorted_refuted :
  bw_debug_check [mkCb 0 wit_na2 wit_st2 (fun n => n) KTimer] [0%nat] 3 = false.
Proof. vm_compute. reflexivity. Qed.
Print Assumptions bw_debug_check_needs_sorted_refuted.

(* hence, on step enumerators that yield the steps in increasing order, the debug build agrees as well *)
Theorem bw_exhaustive_any_build : forall sbf st, sbf_ok sbf -> exact_inverse sbf st ->
  forall dbg wl sc limit (bound : N -> N),
  (forall cb, In cb wl -> mono (cb_na cb) /\ mono (cb_cost cb) /\ forall h, steps_spec (cb_na cb) (cb_steps cb h) h) ->
  (let e := eoc wl sc in mono (cb_na e) /\ mono (cb_cost e) /\ forall h, steps_spec (cb_na e) (cb_steps e h) h) ->
  (forall d, st d < bound d) ->
  cb_na (eoc wl sc) 0 < cb_na (eoc wl sc) 1 ->
  bw_subchain dbg sbf st wl sc limit = exh_bw sbf bound wl sc limit.
Proof.
  intros sbf st Hok Hinv dbg wl sc limit bound Hwl He Hb Harr.
  apply bw_exhaustive_sec; try assumption.
  - intros cb Hcb. destruct (Hwl cb Hcb) as (H1 & H2 & H3).
    split; [exact H1|]. split; [exact H2|]. intros h d. apply (H3 h).
  - destruct He as (H1 & H2 & H3). split; [exact H1|]. split; [exact H2|]. intros h d. apply (H3 h).
  - intros m. rewrite bw_debug_check_passes; [apply andb_false_r|].
    intros cb Hcb. destruct (Hwl cb Hcb) as (H1 & _ & H3). split; assumption.
Qed.
Print Assumptions bw_exhaustive_any_build.
