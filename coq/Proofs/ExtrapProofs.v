(* ExtrapProofs.v — C13: curve extrapolation (arrival::Curve::extrapolate*, ExtrapolatingCurve)
   is conservative, only tightens (up to the extrapolated horizon), and the shared cache of
   ExtrapolatingCurve is invisible.
   0. the extension Nat.iter k push_next d (stable entries, super-additivity across the seam),
   1. the original prefix is kept, values inside it are unchanged
      (extrapolate_unchanged_inside needs `lastN d <= lastN (d ++ tl)`; witness without it),
   2. extrapolation only tightens up to the extrapolated horizon; holds for every wf_dmin prefix
      (super-additivity of the prefix is not needed); fails beyond the horizon (known finding),
   3. the extrapolated curve bounds every event sequence that respects the original prefix,
   4. ExtrapolatingCurve answers like an eagerly extrapolated Curve,
   5. every reachable cache (any number of pushes, also for one-entry prefixes) gives the
      answers of the fresh prefix; hence so does every query history. *)
From Coq Require Import List NArith Arith Lia Bool.
From Coq Require Import ZifyBool.
From RTA.Model Require Import Base Arrival WellFormed.
From RTA.Spec Require Import Events.
From RTA.Proofs Require Import FixedPointProofs ArrivalNaProofs.
Import ListNotations.

(* ------------------------------------------------------------------------------------------ *)
(* 0. the extension Nat.iter k push_next d                                                     *)
(* ------------------------------------------------------------------------------------------ *)
Lemma wf_len : forall d, wf_dmin d -> (1 <= length d)%nat.
Proof. intros d [Hne _]. destruct d; [congruence | cbn [length]; lia]. Qed.

Lemma push_last_le : forall d, d <> [] -> lastN d <= extrapolate_next d.
Proof.
  intros d Hne.
  assert (Hn : (1 <= length d)%nat) by (destruct d; [congruence | cbn [length]; lia]).
  pose proof (extrapolate_next_lb d O ltac:(lia)) as Hlb.
  rewrite Nat.sub_0_r, <- last_nth in Hlb. lia.
Qed.

Lemma iter_push_last_mono : forall k d, wf_dmin d -> lastN d <= lastN (Nat.iter k push_next d).
Proof.
  intros k d Hwf. induction k as [|k IH]; [change (Nat.iter 0 push_next d) with d; lia|].
  rewrite iter_S, push_next_last.
  pose proof (iter_push_wf k d Hwf) as [Hne _].
  pose proof (push_last_le _ Hne). lia.
Qed.

Lemma iter_nth_stable : forall k k' d i, (k' <= k)%nat -> (i < length d + k')%nat ->
  nthN (Nat.iter k push_next d) i = nthN (Nat.iter k' push_next d) i.
Proof.
  intros k k' d i Hk Hi. replace k with ((k - k') + k')%nat by lia. rewrite iter_add.
  destruct (iter_push_app (k - k') (Nat.iter k' push_next d)) as [l [-> _]].
  unfold nthN. apply app_nth1. rewrite iter_push_length. exact Hi.
Qed.

Lemma iter_nth_prefix : forall k d i, (i < length d)%nat -> nthN (Nat.iter k push_next d) i = nthN d i.
Proof. intros k d i Hi. rewrite (iter_nth_stable k O d i) by lia. reflexivity. Qed.

Lemma iter_nth_new : forall k d i, (length d <= i)%nat -> (i < length d + k)%nat ->
  nthN (Nat.iter k push_next d) i = extrapolate_next (Nat.iter (i - length d) push_next d).
Proof.
  intros k d i Hlo Hhi. rewrite (iter_nth_stable k (S (i - length d)) d i) by lia.
  rewrite iter_S. unfold push_next, nthN. rewrite app_nth2 by (rewrite iter_push_length; lia).
  rewrite iter_push_length. replace (i - (length d + (i - length d)))%nat with O by lia. reflexivity.
Qed.

(* dist(n + 1 events) + dist(m events) <= dist(n + m events) inside the extension *)
Lemma iter_superadd : forall k d i, wf_dmin d -> (length d <= i)%nat -> (i < length d + k)%nat ->
  nthN (Nat.iter k push_next d) (length d - 1) + nthN (Nat.iter k push_next d) (i - length d)
    <= nthN (Nat.iter k push_next d) i.
Proof.
  intros k d i Hwf Hlo Hhi. pose proof (wf_len d Hwf) as Hn.
  rewrite (iter_nth_new k d i Hlo Hhi).
  set (e' := Nat.iter (i - length d) push_next d).
  assert (Hlen : length e' = i) by (unfold e'; rewrite iter_push_length; lia).
  pose proof (extrapolate_next_lb e' (length d - 1)%nat ltac:(lia)) as Hlb.
  rewrite Hlen in Hlb. replace (i - 1 - (length d - 1))%nat with (i - length d)%nat in Hlb by lia.
  rewrite (iter_nth_stable k (i - length d) d (length d - 1)) by lia.
  rewrite (iter_nth_stable k (i - length d) d (i - length d)) by lia.
  exact Hlb.
Qed.

(* q full repetitions of the prefix: entry q*n + t of the extension is at least q*last + d[t] *)
Lemma ext_block : forall k d, wf_dmin d -> forall q t, (t < length d)%nat ->
  (q * length d + t < length d + k)%nat ->
  N.of_nat q * lastN d + nthN d t <= nthN (Nat.iter k push_next d) (q * length d + t).
Proof.
  intros k d Hwf q. pose proof (wf_len d Hwf) as Hn.
  induction q as [|q IH]; intros t Ht Hi.
  - cbn [Nat.mul Nat.add]. rewrite iter_nth_prefix by exact Ht. lia.
  - assert (Hi' : (q * length d + t < length d + k)%nat) by lia.
    specialize (IH t Ht Hi').
    pose proof (iter_superadd k d (S q * length d + t) Hwf ltac:(lia) Hi) as Hs.
    replace (S q * length d + t - length d)%nat with (q * length d + t)%nat in Hs by lia.
    rewrite iter_nth_prefix in Hs by lia. rewrite <- last_nth in Hs.
    rewrite Nnat.Nat2N.inj_succ, N.mul_succ_l. lia.
Qed.

(* ------------------------------------------------------------------------------------------ *)
(* 1. the original prefix is kept                                                              *)
(* ------------------------------------------------------------------------------------------ *)
Theorem extrapolate_keeps_prefix : forall d h, exists tl, extrapolate d h = d ++ tl.
Proof.
  intros d h. destruct (extrapolate_prefix d h) as [k ->].
  destruct (iter_push_app k d) as [l [-> _]]. exists l. reflexivity.
Qed.

Theorem extrapolate_steps_keeps_prefix : forall d n, exists tl, extrapolate_steps d n = d ++ tl.
Proof.
  intros d n. unfold extrapolate_steps. destruct (can_extrapolate d).
  - destruct (iter_push_app (N.to_nat (n - lenN d)) d) as [l [-> _]]. exists l. reflexivity.
  - exists []. rewrite app_nil_r. reflexivity.
Qed.

Theorem extrapolate_with_bound_keeps_prefix : forall d delta n d',
  extrapolate_with_bound d delta n = Some d' -> exists tl, d' = d ++ tl.
Proof.
  intros d delta n d' H. unfold extrapolate_with_bound in H.
  destruct (delta =? 0); [discriminate|]. cbv zeta in H.
  destruct (lenN d + 2 =? n).
  - destruct (can_extrapolate d); inversion H; eexists; reflexivity.
  - inversion H. exists []. rewrite app_nil_r. reflexivity.
Qed.

(* all values inside the original prefix are unchanged by any extension whose last entry is not
   below the last entry of the prefix *)
Theorem extrapolate_unchanged_inside : forall d tl delta, wf_dmin d ->
  lastN d <= lastN (d ++ tl) -> delta <= lastN d ->
  curve_na (d ++ tl) delta = curve_na d delta.
Proof.
  intros d tl delta [Hne _] Hl Hd. destruct (N.eq_dec delta 0) as [->|H0]; [reflexivity|].
  rewrite !curve_na_le_last by lia. apply curve_tail_app; [exact Hne | lia].
Qed.

(* without the hypothesis on the last entry the statement is false (a shorter "period") *)
Theorem extrapolate_unchanged_inside_needs_last_refuted :
  exists d tl delta, wf_dmin d /\ delta < lastN d /\ curve_na (d ++ tl) delta <> curve_na d delta.
Proof.
  exists [5], [1], 3. split; [|split].
  - split; [discriminate|]. split; [|reflexivity]. intros i Hi. cbn [length] in Hi. lia.
  - reflexivity.
  - vm_compute. discriminate.
Qed.

Lemma iter_unchanged_inside : forall k d delta, wf_dmin d -> delta <= lastN d ->
  curve_na (Nat.iter k push_next d) delta = curve_na d delta.
Proof.
  intros k d delta Hwf Hd. pose proof (iter_push_last_mono k d Hwf) as Hl.
  destruct (iter_push_app k d) as [l [E _]]. rewrite E in *.
  apply extrapolate_unchanged_inside; assumption.
Qed.

Theorem extrapolate_unchanged_inside_horizon : forall d h delta, wf_dmin d -> delta <= lastN d ->
  curve_na (extrapolate d h) delta = curve_na d delta.
Proof.
  intros d h delta Hwf Hd. destruct (extrapolate_prefix d h) as [k ->].
  apply iter_unchanged_inside; assumption.
Qed.

Theorem extrapolate_steps_unchanged_inside : forall d n delta, wf_dmin d -> delta <= lastN d ->
  curve_na (extrapolate_steps d n) delta = curve_na d delta.
Proof.
  intros d n delta Hwf Hd. unfold extrapolate_steps. destruct (can_extrapolate d); [|reflexivity].
  apply iter_unchanged_inside; assumption.
Qed.

(* ------------------------------------------------------------------------------------------ *)
(* 2. extrapolation only tightens, up to the extrapolated horizon                              *)
(* ------------------------------------------------------------------------------------------ *)
Lemma lookup_hit : forall d x, d <> [] -> x <= lastN d ->
  exists m, lookup_arrivals d x = N.of_nat m + 1 /\ (m < length d)%nat /\ x <= nthN d m.
Proof.
  intros d x. induction d as [|y d IH]; intros Hne Hx; [congruence|].
  cbn [lookup_arrivals]. destruct (N.leb_spec x y) as [Hle|Hgt].
  - exists O. cbn [length]. unfold nthN. cbn [nth]. split; [reflexivity|]. split; [lia | exact Hle].
  - destruct d as [|z d]; [unfold lastN in Hx; cbn [last] in Hx; lia|].
    rewrite lastN_cons2 in Hx. destruct (IH ltac:(discriminate) Hx) as [m [E [Hm Hxm]]].
    exists (S m). rewrite E. split; [lia|]. split; [cbn [length] in *; lia|].
    unfold nthN in *. cbn [nth]. exact Hxm.
Qed.

Lemma lookup_ub : forall d x m, (m < length d)%nat -> x <= nthN d m ->
  lookup_arrivals d x <= N.of_nat m + 1.
Proof.
  intros d x. induction d as [|y d IH]; intros m Hm Hx; [cbn [length] in Hm; lia|].
  cbn [lookup_arrivals]. destruct (N.leb_spec x y) as [Hle|Hgt]; [lia|].
  destruct m as [|m]; [unfold nthN in Hx; cbn [nth] in Hx; lia|].
  unfold nthN in Hx. cbn [nth] in Hx. cbn [length] in Hm.
  specialize (IH m ltac:(lia) Hx). lia.
Qed.

Lemma curve_tail_spec : forall d r, d <> [] -> r <= lastN d ->
  (r = 0 /\ curve_tail d r = 0) \/
  (exists m, curve_tail d r = N.of_nat m + 1 /\ (m < length d)%nat /\ r <= nthN d m).
Proof.
  intros d r Hne Hr. unfold curve_tail. destruct (N.ltb_spec (hdN d) r) as [Hhd|Hhd].
  - right. apply lookup_hit; assumption.
  - destruct (N.eq_dec r 0) as [->|H0]; [left; split; reflexivity|].
    right. exists O. split; [|split].
    + unfold b2n. destruct (N.ltb_spec 0 r); [reflexivity | lia].
    + destruct d; [congruence | cbn [length]; lia].
    + rewrite <- hdN_nth. exact Hhd.
Qed.

Lemma curve_tail_ub : forall e x m, (m < length e)%nat -> x <= nthN e m ->
  curve_tail e x <= N.of_nat m + 1.
Proof.
  intros e x m Hm Hx. unfold curve_tail. destruct (hdN e <? x).
  - apply lookup_ub; assumption.
  - unfold b2n. destruct (0 <? x); lia.
Qed.

(* if the un-extrapolated curve says [a] arrivals and the extension has more than [a] entries,
   then [a + 1] events already span at least delta in the extension *)
Lemma tighten_core : forall k d delta a, wf_dmin d -> delta <> 0 ->
  curve_na d delta = N.of_nat a -> (a < length d + k)%nat ->
  (1 <= a)%nat /\ delta <= nthN (Nat.iter k push_next d) (a - 1).
Proof.
  intros k d delta a Hwf H0 Ha Hlt. pose proof Hwf as [Hne [Hnd Hlast]].
  pose proof (wf_len d Hwf) as Hn.
  rewrite curve_na_eq in Ha by assumption.
  pose proof (N.div_mod (delta - 1) (lastN d) ltac:(lia)) as Hdm.
  pose proof (N.mod_lt (delta - 1) (lastN d) ltac:(lia)) as Hr.
  set (L := lastN d) in *.
  remember ((delta - 1) mod L) as r eqn:Er. remember ((delta - 1) / L) as qN eqn:Eq. clear Er Eq.
  rewrite <- (Nnat.N2Nat.id qN) in Ha, Hdm. set (q := N.to_nat qN) in *. clearbody q. clear qN.
  unfold lenN in Ha. rewrite <- Nnat.Nat2N.inj_mul in Ha.
  destruct (curve_tail_spec d (r + 1) Hne ltac:(unfold L in *; lia)) as [[Hr0 HT]|[m [HT [Hm Hrm]]]]; [lia|].
  rewrite HT in Ha.
  assert (Ea : a = (q * length d + m + 1)%nat) by lia. subst a.
  split; [lia|].
  replace (q * length d + m + 1 - 1)%nat with (q * length d + m)%nat by lia.
  pose proof (ext_block k d Hwf q m Hm ltac:(lia)) as Hb. fold L in Hb. lia.
Qed.

(* up to and INCLUDING the last entry of the extension (with the repair of number_arrivals at exact multiples of
   the last entry; before, the last entry of a plateau-ended extension was excluded) *)
Lemma iter_tightens_below : forall k d delta, wf_dmin d ->
  delta <= lastN (Nat.iter k push_next d) ->
  curve_na (Nat.iter k push_next d) delta <= curve_na d delta.
Proof.
  intros k d delta Hwf Hd.
  destruct (N.eq_dec delta 0) as [->|H0]; [rewrite !curve_na_0; lia|].
  set (e := Nat.iter k push_next d) in *.
  assert (Hwe : wf_dmin e) by (apply iter_push_wf; exact Hwf). pose proof Hwe as [Hnee _].
  assert (Hle : length e = (length d + k)%nat) by apply iter_push_length.
  rewrite (curve_na_le_last e) by assumption.
  remember (curve_na d delta) as A eqn:EA. symmetry in EA.
  rewrite <- (Nnat.N2Nat.id A) in EA |- *. set (a := N.to_nat A) in *. clearbody a. clear A.
  destruct (le_lt_dec (length e) a) as [Hge|Hlt].
  - pose proof (curve_tail_le_len e delta Hnee ltac:(lia)) as H. unfold lenN in H. lia.
  - destruct (tighten_core k d delta a Hwf H0 EA ltac:(lia)) as [Ha1 Hx]. fold e in Hx.
    pose proof (curve_tail_ub e delta (a - 1) ltac:(lia) Hx). lia.
Qed.

(* at its last entry a curve answers by lookup: the number of entries, unless the vector ends in a plateau *)
Lemma curve_na_at_last : forall e, wf_dmin e -> curve_na e (lastN e) = lookup_arrivals e (lastN e).
Proof.
  intros e [Hne [_ Hl]]. rewrite curve_na_le_last by lia. unfold curve_tail.
  destruct (N.ltb_spec (hdN e) (lastN e)) as [_|Hhd]; [reflexivity|].
  unfold b2n. destruct (N.ltb_spec 0 (lastN e)) as [_|E]; [|lia].
  destruct e as [|y e]; [congruence|]. unfold hdN in Hhd. cbn [hd] in Hhd. cbn [lookup_arrivals].
  destruct (N.leb_spec (lastN (y :: e)) y); [reflexivity | lia].
Qed.

Lemma curve_na_at_last_le : forall e, wf_dmin e -> curve_na e (lastN e) <= lenN e.
Proof.
  intros e Hwf. rewrite curve_na_at_last by exact Hwf. destruct Hwf as [Hne _].
  apply lookup_le_len; [exact Hne | lia].
Qed.

Lemma iter_tightens_at : forall k d, wf_dmin d ->
  curve_na (Nat.iter (S k) push_next d) (lastN (Nat.iter (S k) push_next d))
    <= curve_na d (lastN (Nat.iter (S k) push_next d)).
Proof. intros k d Hwf. apply iter_tightens_below; [exact Hwf | lia]. Qed.

(* [realisable] is not needed: the theorem holds for every well-formed prefix *)
Theorem extrapolate_only_tightens_wf : forall d h delta, wf_dmin d ->
  delta <= lastN (extrapolate d h) -> curve_na (extrapolate d h) delta <= curve_na d delta.
Proof.
  intros d h delta Hwf Hd. destruct (extrapolate_prefix d h) as [k E]. rewrite E in *.
  apply iter_tightens_below; assumption.
Qed.

(* the same for extrapolate_steps: its result may end in a plateau (e.g. [0; 2] extended to 13 entries); this was
   the "last entry of a plateau-ended extrapolated vector" part of the finding C13-beyond-horizon *)
Theorem extrapolate_steps_only_tightens_wf : forall d n delta, wf_dmin d ->
  delta <= lastN (extrapolate_steps d n) -> curve_na (extrapolate_steps d n) delta <= curve_na d delta.
Proof.
  intros d n delta Hwf Hd. unfold extrapolate_steps in *. destruct (can_extrapolate d); [|lia].
  apply iter_tightens_below; assumption.
Qed.

(* regression: the former witness of the plateau-ended part of C13-beyond-horizon (13 > 12 before the repair) *)
Theorem plateau_ended_horizon_repaired :
  lastN (extrapolate_steps [0; 2] 13) = 12 /\ plateau_end (extrapolate_steps [0; 2] 13) /\
  curve_na (extrapolate_steps [0; 2] 13) 12 = 12 /\ curve_na [0; 2] 12 = 12.
Proof.
  split; [vm_compute; reflexivity|]. split; [|split; vm_compute; reflexivity].
  split; [vm_compute; lia | vm_compute; reflexivity].
Qed.

Theorem extrapolate_only_tightens : forall d h delta, realisable d ->
  delta <= lastN (extrapolate d h) -> curve_na (extrapolate d h) delta <= curve_na d delta.
Proof. intros d h delta [Hwf _]. apply extrapolate_only_tightens_wf. exact Hwf. Qed.

(* the known finding: beyond the extrapolated horizon the inequality can fail *)
Theorem tightening_fails_beyond_horizon_refuted :
  exists d h delta, realisable d /\ lastN (extrapolate d h) < delta /\
    curve_na d delta < curve_na (extrapolate d h) delta.
Proof.
  exists [2; 5], 12, 15. split; [|split].
  - split; [split; [discriminate|split]|].
    + intros i Hi. cbn [length] in Hi. assert (i = O) by lia. subst i. vm_compute. discriminate.
    + reflexivity.
    + intros i j Hij. cbn [length] in Hij. assert (i = O) by lia. assert (j = O) by lia. subst i j.
      vm_compute. discriminate.
  - vm_compute. reflexivity.
  - vm_compute. reflexivity.
Qed.

(* ------------------------------------------------------------------------------------------ *)
(* 3. the extrapolated curve still bounds every sequence that respects the original prefix     *)
(* ------------------------------------------------------------------------------------------ *)
Theorem extrapolated_curve_bounds_prefix_sequences : forall d h es, wf_dmin d -> respects_dmin d es ->
  forall t delta : nat, N.of_nat (count es t delta) <= curve_na (extrapolate d h) (N.of_nat delta).
Proof.
  intros d h es Hwf Hr. apply curve_na_covers; [apply extrapolate_wf | apply extrapolate_respected]; assumption.
Qed.

Theorem extrapolating_curve_bounds_prefix_sequences : forall d es, wf_dmin d -> respects_dmin d es ->
  forall t delta : nat, N.of_nat (count es t delta) <= extrap_na d (N.of_nat delta).
Proof.
  intros d es Hwf Hr t delta. unfold extrap_na. destruct (N.eqb_spec (N.of_nat delta) 0) as [H0|H0].
  - assert (delta = O) by lia. subst delta. rewrite count_zero. lia.
  - apply extrapolated_curve_bounds_prefix_sequences; assumption.
Qed.

(* ------------------------------------------------------------------------------------------ *)
(* 4. ExtrapolatingCurve answers like an eagerly extrapolated Curve                            *)
(* ------------------------------------------------------------------------------------------ *)
Lemma iter_agree_le : forall d a b delta, wf_dmin d -> (a <= b)%nat ->
  delta <= lastN (Nat.iter a push_next d) ->
  curve_na (Nat.iter b push_next d) delta = curve_na (Nat.iter a push_next d) delta.
Proof.
  intros d a b delta Hwf Hab Hd. replace b with ((b - a) + a)%nat by lia. rewrite iter_add.
  apply iter_unchanged_inside; [apply iter_push_wf; exact Hwf | exact Hd].
Qed.

Lemma iter_agree : forall d a b delta, wf_dmin d ->
  delta <= lastN (Nat.iter a push_next d) -> delta <= lastN (Nat.iter b push_next d) ->
  curve_na (Nat.iter a push_next d) delta = curve_na (Nat.iter b push_next d) delta.
Proof.
  intros d a b delta Hwf Ha Hb. destruct (le_lt_dec a b) as [Hle|Hlt].
  - symmetry. apply iter_agree_le; assumption.
  - apply iter_agree_le; [exact Hwf | lia | exact Hb].
Qed.

Theorem extrap_na_is_eager : forall d delta H, wf_dmin d -> (2 <= length d)%nat -> delta <= H ->
  extrap_na d delta = curve_na (extrapolate d H) delta.
Proof.
  intros d delta H Hwf Hlen HH. unfold extrap_na.
  destruct (N.eqb_spec delta 0) as [->|H0]; [reflexivity|].
  pose proof (extrapolate_reaches d (delta + 1) Hwf Hlen) as R1.
  pose proof (extrapolate_reaches d H Hwf Hlen) as R2.
  destruct (extrapolate_prefix d (delta + 1)) as [ka Ea]. destruct (extrapolate_prefix d H) as [kb Eb].
  rewrite Ea, Eb in *. apply iter_agree; [exact Hwf | lia | lia].
Qed.

(* ------------------------------------------------------------------------------------------ *)
(* 5. the cache is invisible                                                                   *)
(* ------------------------------------------------------------------------------------------ *)
Lemma can_extrapolate_iter : forall k d, (2 <= length d)%nat -> can_extrapolate (Nat.iter k push_next d) = true.
Proof.
  intros k d H. unfold can_extrapolate, lenN. rewrite iter_push_length. lia.
Qed.

(* --- steps --- *)
Definition steps_of (h : N) (v : list N) : list N :=
  filter (fun x => x <=? h) (1 :: map (fun v => 1 + v) (dedup (filter (fun x => 0 <? x) v))).

Lemma dedup_cons2 : forall a b l, dedup (a :: b :: l) = if a =? b then dedup (b :: l) else a :: dedup (b :: l).
Proof. reflexivity. Qed.

Lemma dedup_In : forall l x, In x (dedup l) -> In x l.
Proof.
  intros l. induction l as [|a l IH]; intros x H; [exact H|].
  destruct l as [|b l]; [exact H|]. rewrite dedup_cons2 in H. destruct (a =? b).
  - right. apply IH. exact H.
  - destruct H as [->|H]; [left; reflexivity | right; apply IH; exact H].
Qed.

Lemma filter_none : forall {A} (p : A -> bool) l, (forall x, In x l -> p x = false) -> filter p l = [].
Proof.
  intros A p l H. induction l as [|a l IH]; [reflexivity|]. cbn [filter].
  rewrite (H a (or_introl eq_refl)). apply IH. intros x Hx. apply H. right. exact Hx.
Qed.

Lemma filter_dedup_app : forall (p : N -> bool) A B, (forall b, In b B -> p b = false) ->
  filter p (dedup (A ++ B)) = filter p (dedup A).
Proof.
  intros p A B HB. induction A as [|a A IH].
  - cbn [app]. apply filter_none. intros x Hx. apply HB. apply dedup_In. exact Hx.
  - destruct A as [|a' A].
    + cbn [app]. destruct B as [|b B]; [reflexivity|]. rewrite dedup_cons2.
      assert (Hn : filter p (dedup (b :: B)) = []).
      { apply filter_none. intros x Hx. apply HB. apply dedup_In. exact Hx. }
      change (dedup [a]) with [a]. cbn [filter].
      destruct (N.eqb_spec a b) as [->|Hab].
      * rewrite Hn, (HB b (or_introl eq_refl)). reflexivity.
      * cbn [filter]. rewrite Hn. reflexivity.
    + cbn [app] in *. rewrite !dedup_cons2. destruct (a =? a'); [exact IH|].
      cbn [filter]. rewrite IH. reflexivity.
Qed.

Lemma filter_map_swap : forall {A B} (p : B -> bool) (f : A -> B) l,
  filter p (map f l) = map f (filter (fun x => p (f x)) l).
Proof.
  intros A B p f l. induction l as [|a l IH]; [reflexivity|]. cbn [map filter].
  destruct (p (f a)); cbn [map]; rewrite IH; reflexivity.
Qed.

Lemma app_tail_ge_last : forall E l, E <> [] -> nondecreasing (E ++ l) ->
  forall x, In x l -> lastN E <= x.
Proof.
  intros E l Hne Hnd x Hx. destruct (In_nth _ _ 0 Hx) as [j [Hj Hnth]].
  assert (Hn : (1 <= length E)%nat) by (destruct E; [congruence | cbn [length]; lia]).
  pose proof (nondecreasing_nth (E ++ l) (length E - 1) (length E + j) Hnd ltac:(lia)
                ltac:(rewrite app_length; lia)) as H.
  unfold nthN in H. rewrite app_nth1 in H by lia. rewrite app_nth2 in H by lia.
  replace (length E + j - length E)%nat with j in H by lia. rewrite Hnth in H.
  rewrite last_nth. unfold nthN. exact H.
Qed.

Lemma steps_agree_le : forall d a b h, wf_dmin d -> (a <= b)%nat ->
  h <= lastN (Nat.iter a push_next d) ->
  steps_of h (Nat.iter b push_next d) = steps_of h (Nat.iter a push_next d).
Proof.
  intros d a b h Hwf Hab Hh. replace b with ((b - a) + a)%nat by lia. rewrite iter_add.
  set (E := Nat.iter a push_next d) in *.
  assert (HwE : wf_dmin E) by (apply iter_push_wf; exact Hwf).
  assert (HwEl : wf_dmin (Nat.iter (b - a) push_next E)) by (apply iter_push_wf; exact HwE).
  destruct (iter_push_app (b - a) E) as [l [El _]]. rewrite El in *.
  destruct HwE as [HneE _]. destruct HwEl as [_ [Hnd _]].
  pose proof (app_tail_ge_last E l HneE Hnd) as Hge.
  unfold steps_of. cbn [filter]. rewrite !filter_map_swap, filter_app.
  rewrite (filter_dedup_app (fun x => 1 + x <=? h)); [reflexivity|].
  intros x Hx. apply filter_In in Hx. destruct Hx as [Hx _]. specialize (Hge x Hx). lia.
Qed.

Lemma steps_agree : forall d a b h, wf_dmin d ->
  h <= lastN (Nat.iter a push_next d) -> h <= lastN (Nat.iter b push_next d) ->
  steps_of h (Nat.iter a push_next d) = steps_of h (Nat.iter b push_next d).
Proof.
  intros d a b h Hwf Ha Hb. destruct (le_lt_dec a b) as [Hle|Hlt].
  - symmetry. apply steps_agree_le; assumption.
  - apply steps_agree_le; [exact Hwf | lia | exact Hb].
Qed.

(* --- prefixes with a single entry [T]: every extension is the arithmetic progression
       T, 2T, 3T, ... and answers like the un-extrapolated (periodic) curve.  The crate never
       extends such a cache; this part only makes the invariant hold for every [Nat.iter]. --- *)
Lemma wf_len1 : forall d, wf_dmin d -> (length d < 2)%nat -> exists T, d = [T] /\ 0 < T.
Proof.
  intros d [Hne [_ Hl]] Hlen. destruct d as [|T [|y d]]; [congruence| |cbn [length] in Hlen; lia].
  exists T. split; [reflexivity | exact Hl].
Qed.

Lemma ap_nth : forall T k i, (i <= k)%nat ->
  nthN (Nat.iter k push_next [T]) i = T * (N.of_nat i + 1).
Proof.
  intros T k. induction k as [|k IH]; intros i Hi.
  - assert (i = O) by lia. subst i. change (Nat.iter 0 push_next [T]) with [T].
    unfold nthN. cbn [nth]. lia.
  - destruct (Nat.eq_dec i (S k)) as [->|Hne].
    + rewrite (iter_nth_new (S k) [T] (S k)) by (cbn [length]; lia).
      cbn [length]. replace (S k - 1)%nat with k by lia.
      set (e' := Nat.iter k push_next [T]) in *.
      assert (Hlen : length e' = S k) by (unfold e'; rewrite iter_push_length; cbn [length]; lia).
      apply N.le_antisymm.
      * apply extrapolate_next_ub. intros j Hj. rewrite Hlen in Hj |- *. rewrite !IH by lia.
        rewrite <- N.mul_add_distr_l. apply N.mul_le_mono_l. lia.
      * pose proof (extrapolate_next_lb e' O ltac:(lia)) as Hlb. rewrite Hlen in Hlb.
        replace (S k - 1 - 0)%nat with k in Hlb by lia.
        rewrite !IH in Hlb by lia. rewrite <- N.mul_add_distr_l in Hlb.
        replace (N.of_nat (S k) + 1) with (N.of_nat 0 + 1 + (N.of_nat k + 1)) by lia. exact Hlb.
    + rewrite (iter_nth_stable (S k) k [T] i) by (cbn [length]; lia). apply IH. lia.
Qed.

Lemma ap_last : forall T k, lastN (Nat.iter k push_next [T]) = T * (N.of_nat k + 1).
Proof.
  intros T k. rewrite last_nth, iter_push_length. cbn [length].
  replace (1 + k - 1)%nat with k by lia. apply ap_nth. lia.
Qed.

Lemma ap_lookup : forall e T (m : nat) delta,
  (forall i, (i < length e)%nat -> nthN e i = T * (N.of_nat i + 1)) -> (m < length e)%nat ->
  T * N.of_nat m < delta -> delta <= T * (N.of_nat m + 1) ->
  lookup_arrivals e delta = N.of_nat m + 1.
Proof.
  intros e T m delta He Hm Hlo Hhi. apply N.le_antisymm.
  - apply lookup_ub; [exact Hm | rewrite He by exact Hm; exact Hhi].
  - apply lookup_lb; [lia|]. intros i Hi. rewrite He by lia.
    assert (T * (N.of_nat i + 1) <= T * N.of_nat m) by (apply N.mul_le_mono_l; lia). lia.
Qed.

Lemma ap_tail : forall e T (m : nat) delta,
  (forall i, (i < length e)%nat -> nthN e i = T * (N.of_nat i + 1)) -> (m < length e)%nat ->
  T * N.of_nat m < delta -> delta <= T * (N.of_nat m + 1) ->
  curve_tail e delta = N.of_nat m + 1.
Proof.
  intros e T m delta He Hm Hlo Hhi. unfold curve_tail. rewrite hdN_nth, He by lia.
  replace (T * (N.of_nat 0 + 1)) with T by lia.
  destruct (N.ltb_spec T delta) as [Hlt|Hge].
  - apply (ap_lookup e T m delta); assumption.
  - assert (m = O).
    { destruct m as [|m]; [reflexivity|]. exfalso.
      assert (T * 1 <= T * N.of_nat (S m)) by (apply N.mul_le_mono_l; lia). lia. }
    subst m. unfold b2n. destruct (N.ltb_spec 0 delta); lia.
Qed.

Lemma block_of : forall T delta, 0 < T -> delta <> 0 ->
  exists m : nat, T * N.of_nat m < delta /\ delta <= T * (N.of_nat m + 1).
Proof.
  intros T delta HT H0.
  pose proof (N.div_mod (delta - 1) T ltac:(lia)) as Hdm.
  pose proof (N.mod_lt (delta - 1) T ltac:(lia)) as Hr.
  exists (N.to_nat ((delta - 1) / T)). rewrite Nnat.N2Nat.id.
  generalize dependent ((delta - 1) / T). generalize dependent ((delta - 1) mod T).
  intros r Hr q Hdm. rewrite N.mul_add_distr_l. lia.
Qed.

Lemma curve_na_single : forall T (m : nat) delta, 0 < T ->
  T * N.of_nat m < delta -> delta <= T * (N.of_nat m + 1) -> curve_na [T] delta = N.of_nat m + 1.
Proof.
  intros T m delta HT Hlo Hhi. rewrite curve_na_eq by (try change (lastN [T]) with T; lia).
  change (lastN [T]) with T. change (lenN [T]) with 1. unfold curve_tail. change (hdN [T]) with T.
  pose proof (N.div_mod (delta - 1) T ltac:(lia)) as Hdm. pose proof (N.mod_lt (delta - 1) T ltac:(lia)) as Hr.
  set (q := (delta - 1) / T) in *. set (r := (delta - 1) mod T) in *. clearbody q r.
  destruct (N.ltb_spec T (r + 1)); [lia|]. unfold b2n.
  destruct (N.ltb_spec 0 (r + 1)) as [_|E]; [|lia].
  destruct (N.lt_trichotomy q (N.of_nat m)) as [Hq|[Hq|Hq]].
  - exfalso. assert (T * (q + 1) <= T * N.of_nat m) by (apply N.mul_le_mono_l; lia). lia.
  - lia.
  - exfalso. assert (T * (N.of_nat m + 1) <= T * q) by (apply N.mul_le_mono_l; lia). lia.
Qed.

Lemma ap_curve_na : forall T k delta, 0 < T -> delta < lastN (Nat.iter k push_next [T]) ->
  curve_na (Nat.iter k push_next [T]) delta = curve_na [T] delta.
Proof.
  intros T k delta HT Hd. destruct (N.eq_dec delta 0) as [->|H0]; [reflexivity|].
  rewrite curve_na_small by assumption. rewrite ap_last in Hd.
  destruct (block_of T delta HT H0) as [m [Hlo Hhi]].
  assert (Hm : (m < S k)%nat).
  { destruct (le_lt_dec (S k) m) as [Hge|Hlt]; [|exact Hlt]. exfalso.
    assert (T * (N.of_nat k + 1) <= T * N.of_nat m) by (apply N.mul_le_mono_l; lia). lia. }
  rewrite (curve_na_single T m delta HT Hlo Hhi).
  apply (ap_tail _ T m delta); [|rewrite iter_push_length; cbn [length]; lia | exact Hlo | exact Hhi].
  intros i Hi. rewrite iter_push_length in Hi. cbn [length] in Hi. apply ap_nth. lia.
Qed.

Lemma ap_list : forall T k,
  Nat.iter k push_next [T] = map (fun j => T * (N.of_nat j + 1)) (seq 0 (S k)).
Proof.
  intros T k. apply (nth_ext _ _ 0 0).
  - rewrite iter_push_length, map_length, seq_length. cbn [length]. lia.
  - intros n Hn. rewrite iter_push_length in Hn. cbn [length] in Hn.
    change (nth n (Nat.iter k push_next [T]) 0) with (nthN (Nat.iter k push_next [T]) n).
    rewrite ap_nth by lia.
    rewrite (nth_map_N _ _ O) by (rewrite seq_length; lia). rewrite seq_nth by lia. reflexivity.
Qed.

Lemma filter_all : forall {A} (p : A -> bool) l, (forall x, In x l -> p x = true) -> filter p l = l.
Proof.
  intros A p l H. induction l as [|a l IH]; [reflexivity|]. cbn [filter].
  rewrite (H a (or_introl eq_refl)). f_equal. apply IH. intros x Hx. apply H. right. exact Hx.
Qed.

Lemma dedup_map_seq : forall (f : nat -> N) n a, (forall j, f j <> f (S j)) ->
  dedup (map f (seq a n)) = map f (seq a n).
Proof.
  intros f n. induction n as [|n IH]; intros a Hf; [reflexivity|].
  destruct n as [|n]; [reflexivity|].
  change (map f (seq a (S (S n)))) with (f a :: f (S a) :: map f (seq (S (S a)) n)).
  rewrite dedup_cons2. destruct (N.eqb_spec (f a) (f (S a))) as [E|_]; [exfalso; exact (Hf a E)|].
  f_equal. exact (IH (S a) Hf).
Qed.

Lemma filter_map_seq_cut : forall (g : nat -> N) (p : N -> bool) n n0, (n0 <= n)%nat ->
  (forall j, (j < n0)%nat -> p (g j) = true) ->
  (forall j, (n0 <= j)%nat -> (j < n)%nat -> p (g j) = false) ->
  filter p (map g (seq 0 n)) = map g (seq 0 n0).
Proof.
  intros g p n n0 Hn Ht Hf.
  replace (seq 0 n) with (seq 0 n0 ++ seq n0 (n - n0)).
  2:{ change n0 with (0 + n0)%nat at 2. rewrite <- seq_app. f_equal. lia. }
  rewrite map_app, filter_app, filter_all, filter_none, app_nil_r; [reflexivity| |].
  - intros x Hx. apply in_map_iff in Hx. destruct Hx as [j [<- Hj]]. apply in_seq in Hj. apply Hf; lia.
  - intros x Hx. apply in_map_iff in Hx. destruct Hx as [j [<- Hj]]. apply in_seq in Hj. apply Ht; lia.
Qed.

Lemma ap_steps : forall T k h, 0 < T -> h <= lastN (Nat.iter k push_next [T]) ->
  steps_of h (Nat.iter k push_next [T]) = periodic_steps_upto T h.
Proof.
  intros T k h HT Hh. rewrite ap_last in Hh. unfold steps_of. rewrite ap_list.
  set (f := fun j : nat => T * (N.of_nat j + 1)). set (g := fun j : nat => T * N.of_nat j + 1).
  rewrite (filter_all (fun x => 0 <? x)).
  2:{ intros x Hx. apply in_map_iff in Hx. destruct Hx as [j [<- _]]. unfold f.
      assert (T * 1 <= T * (N.of_nat j + 1)) by (apply N.mul_le_mono_l; lia). lia. }
  rewrite dedup_map_seq.
  2:{ intros j E. unfold f in E.
      assert (T * (N.of_nat j + 1) + T * 1 = T * (N.of_nat (S j) + 1)) by (rewrite <- N.mul_add_distr_l; f_equal; lia).
      lia. }
  assert (E : 1 :: map (fun v => 1 + v) (map f (seq 0 (S k))) = map g (seq 0 (S (S k)))).
  { rewrite <- (cons_seq (S k) 0). cbn [map]. f_equal; [unfold g; lia|].
    rewrite <- seq_shift, !map_map. apply map_ext. intros j. unfold f, g.
    replace (N.of_nat (S j)) with (N.of_nat j + 1) by lia. lia. }
  rewrite E. clear E. unfold periodic_steps_upto.
  destruct (N.eqb_spec h 0) as [->|H0].
  - apply filter_none. intros x Hx. apply in_map_iff in Hx. destruct Hx as [j [<- _]]. unfold g. lia.
  - pose proof (N.div_mod (h - 1) T ltac:(lia)) as Hdm. pose proof (N.mod_lt (h - 1) T ltac:(lia)) as Hr.
    set (q := (h - 1) / T) in *. set (r := (h - 1) mod T) in *.
    assert (Er : map (fun j => T * j + 1) (rangeN 0 (q + 1)) = map g (seq 0 (N.to_nat (q + 1)))).
    { unfold rangeN. rewrite map_map. apply map_ext. intros j. unfold g. f_equal. }
    rewrite Er. clear Er.
    apply filter_map_seq_cut.
    + destruct (le_lt_dec (N.to_nat (q + 1)) (S (S k))) as [Hle|Hgt]; [exact Hle|]. exfalso.
      assert (T * (N.of_nat k + 1) <= T * q) by (apply N.mul_le_mono_l; lia). lia.
    + intros j Hj. unfold g.
      assert (T * N.of_nat j <= T * q) by (apply N.mul_le_mono_l; lia). lia.
    + intros j Hj _. unfold g.
      assert (T * (q + 1) <= T * N.of_nat j) by (apply N.mul_le_mono_l; lia). lia.
Qed.

(* --- reachable caches --- *)
Definition reachable (d c : list N) : Prop := exists k, c = Nat.iter k push_next d.

Lemma reachable_refl : forall d, reachable d d.
Proof. intros d. exists O. reflexivity. Qed.

Lemma reachable_extrapolate : forall d k h,
  reachable d (extrapolate (Nat.iter k push_next d) h).
Proof.
  intros d k h. destruct (extrapolate_prefix (Nat.iter k push_next d) h) as [k' ->].
  rewrite <- iter_add. exists (k' + k)%nat. reflexivity.
Qed.

Theorem cache_na_invisible : forall d c delta, wf_dmin d -> reachable d c ->
  snd (cache_na c delta) = extrap_na d delta /\ reachable d (fst (cache_na c delta)).
Proof.
  intros d c delta Hwf [k ->]. unfold cache_na, extrap_na.
  destruct (N.eqb_spec delta 0) as [H0|H0]; cbn [fst snd].
  { split; [reflexivity | exists k; reflexivity]. }
  split; [|apply reachable_extrapolate].
  set (c := Nat.iter k push_next d).
  assert (Hwc : wf_dmin c) by (apply iter_push_wf; exact Hwf).
  destruct (le_lt_dec 2 (length d)) as [Hlen|Hlen].
  - assert (Hlc : (2 <= length c)%nat) by (unfold c; rewrite iter_push_length; lia).
    pose proof (extrapolate_reaches c (delta + 1) Hwc Hlc) as R1.
    pose proof (extrapolate_reaches d (delta + 1) Hwf Hlen) as R2.
    destruct (extrapolate_prefix c (delta + 1)) as [k' E1].
    destruct (extrapolate_prefix d (delta + 1)) as [ka E2].
    rewrite E1, E2 in *. unfold c in *. rewrite <- iter_add in *.
    apply iter_agree; [exact Hwf | lia | lia].
  - destruct (wf_len1 d Hwf Hlen) as [T [-> HT]].
    assert (E0 : extrapolate [T] (delta + 1) = [T]) by reflexivity. rewrite E0.
    destruct k as [|k]; [unfold c; change (Nat.iter 0 push_next [T]) with [T]; rewrite E0; reflexivity|].
    assert (Hlc : (2 <= length c)%nat) by (unfold c; rewrite iter_push_length; cbn [length]; lia).
    pose proof (extrapolate_reaches c (delta + 1) Hwc Hlc) as R1.
    destruct (extrapolate_prefix c (delta + 1)) as [k' E1]. rewrite E1 in *.
    unfold c in *. rewrite <- iter_add in *. apply ap_curve_na; [exact HT | lia].
Qed.

Theorem cache_steps_invisible : forall d c h, wf_dmin d -> reachable d c ->
  snd (cache_steps c h) = extrap_steps_upto d h /\ reachable d (fst (cache_steps c h)).
Proof.
  intros d c h Hwf [k ->].
  set (c := Nat.iter k push_next d).
  assert (Hwc : wf_dmin c) by (apply iter_push_wf; exact Hwf).
  destruct (le_lt_dec 2 (length d)) as [Hlen|Hlen].
  - unfold cache_steps, extrap_steps_upto. unfold c. rewrite can_extrapolate_iter by exact Hlen.
    assert (Hcd : can_extrapolate d = true) by (unfold can_extrapolate, lenN; lia). rewrite Hcd.
    cbv zeta. cbn [fst snd]. split; [|apply reachable_extrapolate]. fold c.
    assert (Hlc : (2 <= length c)%nat) by (unfold c; rewrite iter_push_length; lia).
    pose proof (extrapolate_reaches c h Hwc Hlc) as R1.
    pose proof (extrapolate_reaches d h Hwf Hlen) as R2.
    destruct (extrapolate_prefix c h) as [k' E1]. destruct (extrapolate_prefix d h) as [ka E2].
    rewrite E1, E2 in *. unfold c in *. rewrite <- iter_add in *.
    apply (steps_agree d (k' + k) ka h Hwf R1 R2).
  - destruct (wf_len1 d Hwf Hlen) as [T [-> HT]].
    assert (Es : extrap_steps_upto [T] h = periodic_steps_upto T h) by reflexivity. rewrite Es.
    destruct k as [|k].
    + unfold c. change (Nat.iter 0 push_next [T]) with [T].
      assert (Ec : cache_steps [T] h = ([T], periodic_steps_upto T h)) by reflexivity. rewrite Ec.
      cbn [fst snd]. split; [reflexivity | apply reachable_refl].
    + assert (Hlc : (2 <= length c)%nat) by (unfold c; rewrite iter_push_length; cbn [length]; lia).
      unfold cache_steps.
      assert (Hcc : can_extrapolate c = true) by (unfold can_extrapolate, lenN; lia). rewrite Hcc.
      cbv zeta. cbn [fst snd]. split; [|apply reachable_extrapolate].
      pose proof (extrapolate_reaches c h Hwc Hlc) as R1.
      destruct (extrapolate_prefix c h) as [k' E1]. rewrite E1 in *.
      unfold c in *. rewrite <- iter_add in *. apply (ap_steps T (k' + S k) h HT R1).
Qed.

(* hence for every history of queries on clones sharing the cache *)
Inductive hanswer := ANa (n : N) | ASteps (l : list N).
Definition hstep (c : list N) (q : hquery) : list N * hanswer :=
  match q with
  | HNa delta => let r := cache_na c delta in (fst r, ANa (snd r))
  | HStepsUpto h => let r := cache_steps c h in (fst r, ASteps (snd r))
  end.
Fixpoint hrun (c : list N) (qs : list hquery) : list hanswer :=
  match qs with [] => [] | q :: qs' => let r := hstep c q in snd r :: hrun (fst r) qs' end.

Lemma hstep_invisible : forall d c q, wf_dmin d -> reachable d c ->
  snd (hstep c q) = snd (hstep d q) /\ reachable d (fst (hstep c q)).
Proof.
  intros d c q Hwf Hr. destruct q as [delta|h]; cbn [hstep]; cbv zeta; cbn [fst snd].
  - destruct (cache_na_invisible d c delta Hwf Hr) as [H1 H2].
    destruct (cache_na_invisible d d delta Hwf (reachable_refl d)) as [H3 _].
    rewrite H1, H3. split; [reflexivity | exact H2].
  - destruct (cache_steps_invisible d c h Hwf Hr) as [H1 H2].
    destruct (cache_steps_invisible d d h Hwf (reachable_refl d)) as [H3 _].
    rewrite H1, H3. split; [reflexivity | exact H2].
Qed.

Theorem history_invisible_from : forall d c qs, wf_dmin d -> reachable d c ->
  hrun c qs = map (fun q => snd (hstep d q)) qs.
Proof.
  intros d c qs Hwf. revert c. induction qs as [|q qs IH]; intros c Hr; [reflexivity|].
  cbn [hrun map]. cbv zeta. destruct (hstep_invisible d c q Hwf Hr) as [H1 H2].
  rewrite H1, (IH _ H2). reflexivity.
Qed.

Theorem history_invisible : forall d qs, wf_dmin d -> hrun d qs = map (fun q => snd (hstep d q)) qs.
Proof. intros d qs Hwf. apply history_invisible_from; [exact Hwf | apply reachable_refl]. Qed.

Print Assumptions extrapolate_keeps_prefix.
Print Assumptions extrapolate_steps_keeps_prefix.
Print Assumptions extrapolate_with_bound_keeps_prefix.
Print Assumptions extrapolate_unchanged_inside.
Print Assumptions extrapolate_unchanged_inside_needs_last_refuted.
Print Assumptions extrapolate_unchanged_inside_horizon.
Print Assumptions extrapolate_steps_unchanged_inside.
Print Assumptions extrapolate_only_tightens_wf.
Print Assumptions extrapolate_only_tightens.
Print Assumptions tightening_fails_beyond_horizon_refuted.
Print Assumptions extrapolated_curve_bounds_prefix_sequences.
Print Assumptions extrapolating_curve_bounds_prefix_sequences.
Print Assumptions extrap_na_is_eager.
Print Assumptions extrapolate_steps_only_tightens_wf.
Print Assumptions plateau_ended_horizon_repaired.
Print Assumptions cache_na_invisible.
Print Assumptions cache_steps_invisible.
Print Assumptions history_invisible_from.
Print Assumptions history_invisible.
