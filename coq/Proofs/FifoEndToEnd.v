(* FifoEndToEnd.v — property C03: soundness of the FIFO response-time analysis, end to end.
   If the model of the crate's FIFO analysis (Model/Eval.v, [e_fifo]) returns [ROk R] for a task set,
   then in every legal FIFO schedule of every job set that complies with the tasks' arrival curves
   and WCETs, every job completes within R time units of its release.

   Ingredients: [fifo_exhaustive] (ExhFP.v: the pruned search equals the exhaustive evaluator),
   [rb_steps_both] (StepsProofs.v: the step enumeration is exact), [total_workload_bounded]
   (Workload.v: arrival curves + WCETs bound the workload of every window) and
   [fifo_response_time_bound] (FifoSound.v: the busy-window argument on schedules). *)
From Coq Require Import Arith NArith List Lia Bool.
From RTA.Model Require Import Base Arrival Wcet Demand FixedPoint Analyses Eval WellFormed.
From RTA.Spec Require Import Sched Events TaskModel Exhaustive.
From RTA.Proofs Require Import ArrivalNaProofs WcetProofs StepsProofs ExhFP FifoSound Workload.
Import ListNotations.
Local Open Scope N_scope.

(* a well-formed FIFO task set: arrival models well-formed and outside the two known classes of
   C11, WCET >= 1 *)
Definition fifo_task_ok (tk : task) : Prop :=
  wf_ab (fst tk) /\ steps_exact_class (fst tk) /\ (1 <= snd tk)%N.
Definition rb_of (tk : task) : RB := RBF (fst tk) (Scalar (snd tk)).

(* the total request-bound function of the task set *)
Definition total_of (tasks : list task) (d : N) : N :=
  sumN (map (fun tk => snd tk * na (fst tk) d) tasks).

Lemma sn_total : forall tasks d, sn (Agg (map rb_of tasks)) d = total_of tasks d.
Proof. intros tasks d. cbn [sn]. rewrite map_map. reflexivity. Qed.

Lemma rb_of_ok : forall tasks, Forall fifo_task_ok tasks -> rb_steps_ok (Agg (map rb_of tasks)).
Proof.
  intros tasks H. apply rb_ok_agg. induction H as [|tk l (Hwf & Hcl & HC) _ IH]; cbn [map]; constructor.
  - unfold rb_of. cbn [rb_steps_ok wf_cm positive_cm]. auto.
  - exact IH.
Qed.

Lemma total_zero : forall tasks, Forall fifo_task_ok tasks -> total_of tasks 0 = 0.
Proof.
  intros tasks H. unfold total_of. induction H as [|tk l (Hwf & _ & _) _ IH]; [reflexivity|].
  cbn [map sumN fold_right]. unfold sumN in IH. rewrite IH, (na_zero _ Hwf). lia.
Qed.

Lemma wf_nth : forall tasks, Forall fifo_task_ok tasks ->
  forall i, (i < length tasks)%nat -> wf_ab (fst (nth i tasks (Never, 0))).
Proof.
  intros tasks H i Hi. rewrite Forall_forall in H. apply (H (nth i tasks (Never, 0))). apply nth_In. exact Hi.
Qed.

Lemma sumN_zero_In : forall {A} (g : A -> N) l x, sumN (map g l) = 0 -> In x l -> g x = 0.
Proof.
  intros A g l x. induction l as [|y l IH]; intros Hs Hin; [destruct Hin|].
  cbn [map sumN fold_right] in Hs. fold (sumN (map g l)) in Hs.
  destruct Hin as [->|Hin]; [lia|]. apply IH; [lia|exact Hin].
Qed.

Lemma sumn_ge_term : forall n f k, (k < n)%nat -> (f k <= sumn n f)%nat.
Proof.
  induction n as [|n IH]; intros f k Hk; [lia|]. cbn [sumn].
  destruct (Nat.eq_dec k n) as [->|Hne]; [lia|]. specialize (IH f k ltac:(lia)). lia.
Qed.

(* if nothing can arrive in a window of length one then there are no jobs at all *)
Lemma no_arrivals_no_jobs : forall tasks jobs, Forall fifo_task_ok tasks -> total_of tasks 1 = 0 ->
  respects_curves tasks jobs -> respects_costs tasks jobs -> forall k, (k < length jobs)%nat -> False.
Proof.
  intros tasks jobs Hok Hz Hc Hcost k Hk.
  set (j := nth k jobs (mkJob 0 0 0)).
  destruct (Hcost j (nth_In _ _ Hk)) as (Hi & _ & _).
  set (i := j_task j) in *.
  assert (Hin : In (nth i tasks (Never, 0)) tasks) by (apply nth_In; exact Hi).
  assert (Hna := sumN_zero_In _ _ _ Hz Hin). cbn beta in Hna.
  rewrite Forall_forall in Hok. destruct (Hok _ Hin) as (Hwf & _ & HC).
  assert (Hb := task_jobs_in_window_bounded tasks jobs i (arr jobs k) 1 Hi Hwf Hc).
  assert (Hone : (1 <= sumn (length jobs) (fun k' => if task_in_win jobs i (arr jobs k) 1 k' then 1 else 0))%nat).
  { eapply Nat.le_trans; [|apply (sumn_ge_term _ _ k Hk)].
    unfold task_in_win. fold j. fold i. rewrite Nat.eqb_refl, Nat.leb_refl. cbn [andb].
    destruct (Nat.ltb_spec (arr jobs k) (arr jobs k + 1)); lia. }
  change (N.of_nat 1) with 1 in Hb.
  apply N.mul_eq_0 in Hna. destruct Hna as [Hna|Hna]; [lia|]. unfold task in Hna. rewrite Hna in Hb. lia.
Qed.

Theorem fifo_rta_sound : forall dbg (tasks : list task) limit R jobs sched,
  Forall fifo_task_ok tasks ->
  e_fifo dbg (Agg (map rb_of tasks)) limit = ROk R ->
  valid jobs sched -> work_conserving jobs sched -> fifo_policy jobs sched ->
  respects_curves tasks jobs -> respects_costs tasks jobs ->
  forall k, (k < length jobs)%nat -> completes_within jobs sched k (N.to_nat R).
Proof.
  intros dbg tasks limit R jobs sched Hok He Hv Hwc Hf Hc Hcost k Hk.
  unfold e_fifo in He.
  assert (Hrb := rb_of_ok tasks Hok).
  assert (Htot : forall d, sn (Agg (map rb_of tasks)) d = total_of tasks d) by (apply sn_total).
  set (rb := Agg (map rb_of tasks)) in *.
  destruct (rb_steps_both rb Hrb) as [Hmono Hsteps].
  assert (Hse : steps_exact (sn rb) (rb_steps_upto rb)).
  { intros h d. destruct (Hsteps h) as [_ H]. apply H. }
  assert (H0 : sn rb 0 = 0) by (rewrite Htot; apply total_zero; exact Hok).
  destruct (N.eq_dec (sn rb 1) 0) as [Hz|Hnz].
  { exfalso. rewrite Htot in Hz. exact (no_arrivals_no_jobs tasks jobs Hok Hz Hc Hcost k Hk). }
  assert (H1 : 0 < sn rb 1) by lia.
  rewrite (fifo_exhaustive (sn rb) (rb_steps_upto rb) limit Hmono Hse H1 H0 dbg) in He.
  unfold exh_fifo in He. destruct (least_fix limit (sn rb)) as [L|] eqn:HL; [|discriminate].
  assert (HR : maxN (map (fun A => sn rb (A + 1) - A) (rangeN 0 L)) = R)
    by (injection He as HR'; exact HR').
  apply least_fix_spec in HL. destruct HL as (HL1 & _ & HLfix & _).
  unfold completes_within.
  apply (fifo_response_time_bound jobs sched Hv Hwc Hf
           (fun d => N.to_nat (sn rb (N.of_nat d)))) with (L := N.to_nat L).
  - (* the workload of every window is bounded by the total RBF *)
    intros t1 d.
    assert (H := total_workload_bounded tasks jobs t1 d (wf_nth tasks Hok) Hc Hcost).
    fold (total_of tasks (N.of_nat d)) in H. rewrite <- Htot in H.
    unfold in_win. lia.
  - lia.
  - rewrite Nnat.N2Nat.id. lia.
  - intros A HA.
    assert (Hin : In (sn rb (N.of_nat A + 1) - N.of_nat A)
                     (map (fun A => sn rb (A + 1) - A) (rangeN 0 L))).
    { apply (in_map (fun A => sn rb (A + 1) - A)). apply in_rangeN. lia. }
    apply maxN_ub in Hin. rewrite HR in Hin.
    replace (N.of_nat (A + 1)) with (N.of_nat A + 1) by lia. lia.
  - exact Hk.
Qed.
Print Assumptions fifo_rta_sound.

(* ------------------------------------------------------------------------------------------ *)
(* non-vacuity: a concrete task set the theorem applies to                                     *)
(* ------------------------------------------------------------------------------------------ *)
Definition ex_tasks : list task := [(Sporadic 10 0, 3); (Sporadic 20 5, 5)].

Example ex_fifo_ok : e_fifo false (Agg (map rb_of ex_tasks)) 100 = ROk 8.
Proof. vm_compute. reflexivity. Qed.

Example ex_tasks_ok : Forall fifo_task_ok ex_tasks.
Proof. repeat constructor; cbn; lia. Qed.

Corollary ex_fifo_sound : forall jobs sched,
  valid jobs sched -> work_conserving jobs sched -> fifo_policy jobs sched ->
  respects_curves ex_tasks jobs -> respects_costs ex_tasks jobs ->
  forall k, (k < length jobs)%nat -> completes_within jobs sched k 8.
Proof.
  intros jobs sched Hv Hwc Hf Hc Hcost k Hk.
  exact (fifo_rta_sound false ex_tasks 100 8 jobs sched ex_tasks_ok ex_fifo_ok Hv Hwc Hf Hc Hcost k Hk).
Qed.
Print Assumptions ex_fifo_ok.
Print Assumptions ex_tasks_ok.
Print Assumptions ex_fifo_sound.

(* the hypotheses are jointly satisfiable and the bound 8 is attained: both tasks release a job at
   time 0 (costs 3 and 5), the first one runs first *)
Section Witness.
  Local Open Scope nat_scope.
  Definition ex_jobs : list job := [mkJob 0 0 3; mkJob 1 0 5].
  Definition ex_sched (t : nat) : option nat :=
    if t <? 3 then Some 0 else if t <? 8 then Some 1 else None.

  Lemma ex_arr0 : forall k, arr ex_jobs k = 0.
  Proof. intros [|[|[|k]]]; reflexivity. Qed.

  Lemma ex_valid : valid ex_jobs ex_sched.
  Proof.
    intros t j E.
    do 8 (destruct t as [|t];
          [injection E as <-; unfold pending, arr, cost, service, svc, runs; cbn; lia|]).
    discriminate E.
  Qed.

  Lemma ex_work_conserving : work_conserving ex_jobs ex_sched.
  Proof.
    intros t j (Hj & _ & Hs).
    do 8 (destruct t as [|t]; [discriminate|]). exfalso.
    assert (Hm := service_mono ex_sched j 8 (S (S (S (S (S (S (S (S t)))))))) ltac:(lia)).
    destruct j as [|[|j]]; [| |cbn in Hj; lia].
    - change (cost ex_jobs 0) with 3 in Hs.
      assert (H8 : service ex_sched 0 8 = 3) by reflexivity. lia.
    - change (cost ex_jobs 1) with 5 in Hs.
      assert (H8 : service ex_sched 1 8 = 5) by reflexivity. lia.
  Qed.

  Lemma ex_fifo_policy : fifo_policy ex_jobs ex_sched.
  Proof. intros t k k' _ _. rewrite !ex_arr0. lia. Qed.

  Lemma ex_respects_curves : respects_curves ex_tasks ex_jobs.
  Proof.
    intros i Hi. exists [0]. destruct i as [|[|i]]; [| |cbn in Hi; lia].
    - split; [apply Permutation.Permutation_refl|].
      change [0] with (zip_add [0] [0]). apply adm_sporadic; cbn; auto.
    - split; [apply Permutation.Permutation_refl|].
      change [0] with (zip_add [0] [0]). apply adm_sporadic; cbn; auto.
      constructor; [lia|constructor].
  Qed.

  Lemma ex_respects_costs : respects_costs ex_tasks ex_jobs.
  Proof. intros j [<-|[<-|[]]]; cbn; lia. Qed.

  (* so the theorem applies: both jobs complete within 8 ... *)
  Example ex_completes : forall k, k < 2 -> completes_within ex_jobs ex_sched k 8.
  Proof.
    intros k Hk.
    exact (ex_fifo_sound ex_jobs ex_sched ex_valid ex_work_conserving ex_fifo_policy
             ex_respects_curves ex_respects_costs k Hk).
  Qed.

  (* ... and the second one not within 7: the bound is tight *)
  Example ex_tight : ~ completes_within ex_jobs ex_sched 1 7.
  Proof. unfold completes_within, cost, arr, service, svc, runs. cbn. lia. Qed.
End Witness.
Print Assumptions ex_completes.
Print Assumptions ex_tight.
