From Coq Require Import List Arith Lia Bool.
From RTA.Spec Require Import Sched.
Import ListNotations.

Section Fifo.
  Variable jobs : list job.
  Variable sched : nat -> option nat.
  Notation n := (length jobs).
  Notation arr := (arr jobs).
  Notation cost := (cost jobs).
  Notation service := (service sched).
  Notation pending := (pending jobs sched).

  Hypothesis Hvalid : valid jobs sched.
  Hypothesis Hwc : work_conserving jobs sched.
  Hypothesis Hfifo : forall t j j', sched t = Some j -> pending j' t -> arr j <= arr j'.

  (* total request-bound function *)
  Variable rbf : nat -> nat.
  Definition in_win (t1 d j : nat) : bool := (t1 <=? arr j) && (arr j <? t1 + d).
  Hypothesis Hrbf : forall t1 d, workP jobs (in_win t1 d) <= rbf d.

  Variable L : nat.
  Hypothesis HL0 : 0 < L.
  Hypothesis HL : rbf L <= L.
  Variable R : nat.
  Hypothesis HR : forall A, A < L -> rbf (A + 1) <= A + R.

  (* quiet time: every job that arrived before t has completed by t *)
  Definition quiet (t : nat) := forall k, k < n -> arr k < t -> cost k <= service k t.
  Definition quietb (t : nat) : bool :=
    forallb (fun k => negb (arr k <? t) || (cost k <=? service k t)) (seq 0 n).
  Lemma quietP t : quietb t = true <-> quiet t.
  Proof.
    unfold quietb, quiet. rewrite forallb_forall. split.
    - intros H k Hk Ha. specialize (H k). rewrite in_seq in H. specialize (H ltac:(lia)).
      apply orb_true_iff in H. destruct H as [H|H].
      + apply negb_true_iff in H. apply Nat.ltb_ge in H. lia.
      + apply Nat.leb_le in H. exact H.
    - intros H k Hk. rewrite in_seq in Hk. destruct (Nat.ltb_spec (arr k) t); simpl; [|reflexivity].
      apply Nat.leb_le. apply H; lia.
  Qed.

  Lemma quiet0 : quiet 0. Proof. intros k _ H. lia. Qed.

  (* latest quiet time at or before a *)
  Lemma last_quiet a : exists t1, t1 <= a /\ quiet t1 /\ forall t, t1 < t <= a -> ~ quiet t.
  Proof.
    induction a as [|a [t1 (H1 & H2 & H3)]].
    - exists 0. split; [lia|]. split; [apply quiet0|]. intros; lia.
    - destruct (quietb (S a)) eqn:E.
      + exists (S a). split; [lia|]. split; [apply quietP; exact E|]. intros; lia.
      + exists t1. split; [lia|]. split; [exact H2|]. intros t Ht.
        destruct (Nat.eq_dec t (S a)) as [->|]; [|apply H3; lia].
        intros Hq. apply quietP in Hq. congruence.
  Qed.

  (* if t+1 is not quiet then some job that arrived by t is pending at t, so the processor is busy *)
  Lemma not_quiet_pending t : ~ quiet (S t) -> exists k, pending k t.
  Proof.
    intros Hnq. assert (E : quietb (S t) = false).
    { destruct (quietb (S t)) eqn:E; [|reflexivity]. exfalso. apply Hnq, quietP, E. }
    unfold quietb in E. 
    assert (exists k, In k (seq 0 n) /\ (negb (arr k <? S t) || (cost k <=? service k (S t))) = false) as [k [Hin Hk]].
    { clear -E. induction (seq 0 n) as [|x l IH]; simpl in E; [discriminate|].
      apply andb_false_iff in E. destruct E as [E|E]; [exists x; split; [left; reflexivity|exact E]|].
      destruct (IH E) as [k [? ?]]. exists k. split; [right|]; assumption. }
    apply in_seq in Hin. apply orb_false_iff in Hk. destruct Hk as [Ha Hc].
    apply negb_false_iff, Nat.ltb_lt in Ha. apply Nat.leb_gt in Hc.
    exists k. split; [lia|]. split; [lia|].
    assert (service k t <= service k (S t)) by (apply service_mono; lia). lia.
  Qed.

  Theorem fifo_response_time_bound j : j < n -> cost j <= service j (arr j + R).
  Proof.
    intros Hj. set (a := arr j).
    destruct (last_quiet a) as [t1 (Ht1 & Hq & Hnq)].
    (* the processor is busy throughout [t1, a) *)
    assert (Hbusy_pre : forall t, t1 <= t < a -> exists k, pending k t).
    { intros t Ht. apply not_quiet_pending. apply Hnq. lia. }
    (* jobs that arrived before t1 never run at or after t1 *)
    assert (Hold : forall t k, t1 <= t -> sched t = Some k -> t1 <= arr k).
    { intros t k Ht Ek. destruct (Nat.le_gt_cases t1 (arr k)) as [|Hlt]; [assumption|].
      destruct (Hvalid _ _ Ek) as (Hk & _ & Hs). specialize (Hq k Hk Hlt).
      assert (service k t1 <= service k t) by (apply service_mono; lia). lia. }
    (* Step 1: the busy window is shorter than L *)
    assert (HA : a - t1 < L).
    { destruct (Nat.lt_ge_cases (a - t1) L) as [|Hge]; [assumption|]. exfalso.
      apply (Hnq (t1 + L)); [lia|].
      set (P := in_win t1 L).
      assert (Hb : forall i, i < L -> busyP sched P (t1 + i)).
      { intros i Hi. destruct (Hbusy_pre (t1 + i)) as [k Hk]; [lia|].
        destruct (sched (t1 + i)) as [k'|] eqn:E; [|exfalso; eapply Hwc; eauto].
        exists k'. split; [exact E|]. unfold P, in_win.
        destruct (Hvalid _ _ E) as (_ & Ha' & _). assert (t1 <= arr k') by (eapply Hold; [|exact E]; lia).
        apply andb_true_iff. split; [apply Nat.leb_le|apply Nat.ltb_lt]; lia. }
      assert (Hs := svcP_busy jobs sched Hvalid P t1 L Hb).
      assert (Hw := svcP_le_work jobs sched Hvalid P t1 L).
      assert (Hr := Hrbf t1 L). fold P in Hr.
      (* every job in P is complete at t1+L *)
      intros k Hk Hak. destruct (Nat.lt_ge_cases (arr k) t1) as [Hlt|Hge'].
      { specialize (Hq k Hk Hlt). assert (service k t1 <= service k (t1 + L)) by (apply service_mono; lia). lia. }
      destruct (Nat.le_gt_cases (cost k) (service k (t1 + L))) as [|Hinc]; [assumption|]. exfalso.
      assert (svcP jobs sched P t1 L < workP jobs P); [|lia].
      unfold svcP, workP. apply sumn_lt.
      - intros i Hi. destruct (P i); [|lia].
        assert (H := service_le_cost jobs sched Hvalid i (t1 + L) Hi). unfold Sched.service in H. rewrite svc_split in H. simpl in H. lia.
      - exists k. split; [exact Hk|]. assert (Pk : P k = true).
        { unfold P, in_win. apply andb_true_iff. split; [apply Nat.leb_le|apply Nat.ltb_lt]; lia. }
        rewrite Pk. unfold Sched.service in Hinc. rewrite svc_split in Hinc. simpl in Hinc.
        assert (0 <= svc sched k 0 t1) by lia. lia. }
    (* Step 2: j completes by t1 + rbf (A+1) *)
    set (A := a - t1). set (W := rbf (A + 1)).
    assert (HW : t1 + W <= a + R) by (specialize (HR A HA); unfold W; lia).
    apply Nat.le_trans with (service j (t1 + W)); [|apply service_mono; unfold a in HW; lia].
    destruct (Nat.le_gt_cases (cost j) (service j (t1 + W))) as [|Hinc]; [assumption|]. exfalso.
    set (P := in_win t1 (A + 1)).
    assert (Pj : P j = true).
    { unfold P, in_win. apply andb_true_iff. split; [apply Nat.leb_le|apply Nat.ltb_lt]; unfold A, a; fold a; lia. }
    assert (Hb : forall i, i < W -> busyP sched P (t1 + i)).
    { intros i Hi. 
      assert (Hp : exists k, pending k (t1 + i)).
      { destruct (Nat.lt_ge_cases (t1 + i) a) as [Hlt|Hge]; [apply Hbusy_pre; lia|].
        exists j. split; [exact Hj|]. split; [fold a; lia|].
        assert (service j (t1 + i) <= service j (t1 + W)) by (apply service_mono; lia). lia. }
      destruct Hp as [k Hk].
      destruct (sched (t1 + i)) as [k'|] eqn:E; [|exfalso; eapply Hwc; eauto].
      exists k'. split; [exact E|]. unfold P, in_win.
      destruct (Hvalid _ _ E) as (_ & Ha' & _). assert (t1 <= arr k') by (eapply Hold; [|exact E]; lia).
      assert (arr k' <= a).
      { destruct (Nat.lt_ge_cases (t1 + i) a) as [Hlt|Hge]; [lia|]. fold a.
        apply (Hfifo (t1 + i) k' j E). split; [exact Hj|]. split; [fold a; lia|].
        assert (service j (t1 + i) <= service j (t1 + W)) by (apply service_mono; lia). lia. }
      apply andb_true_iff. split; [apply Nat.leb_le|apply Nat.ltb_lt]; unfold A; lia. }
    assert (Hs := svcP_busy jobs sched Hvalid P t1 W Hb).
    assert (Hr := Hrbf t1 (A + 1)). fold P in Hr. fold W in Hr.
    assert (svcP jobs sched P t1 W < workP jobs P); [|lia].
    unfold svcP, workP. apply sumn_lt.
    - intros i Hi. destruct (P i); [|lia].
      assert (H := service_le_cost jobs sched Hvalid i (t1 + W) Hi). unfold Sched.service in H. rewrite svc_split in H. simpl in H. lia.
    - exists j. split; [exact Hj|]. rewrite Pj. unfold Sched.service in Hinc. rewrite svc_split in Hinc. simpl in Hinc. lia.
  Qed.
End Fifo.
Print Assumptions fifo_response_time_bound.
