(* FixedPointProofs.v — proofs about Model/FixedPoint.v (src/fixed_point.rs):
   1. the binary-fuel loops agree with the unary reference loop,
   2. C08: search_with_offset returns the least solution or reports divergence,
   3. the debug-only brute-force cross-check of [search] never fires for a 1-Lipschitz supply,
   4. max_response_time = first error if any, else the maximum. *)
From Coq Require Import List NArith Lia Bool.
From Coq Require Import PArith Pnat Nnat.
From RTA.Model Require Import Base FixedPoint.

(* ------------------------------------------------------------------------------------------ *)
(* 1. binary-fuel loops agree with the unary reference                                         *)
(* ------------------------------------------------------------------------------------------ *)

Lemma loop_nat_add : forall {S R} n m (body : S -> S + R) s,
  loop_nat (n + m) body s =
  match loop_nat n body s with inl s' => loop_nat m body s' | inr r => inr r end.
Proof.
  intros S R n. induction n as [|n IH]; intros m body s; cbn [loop_nat Nat.add].
  - reflexivity.
  - destruct (body s) as [s'|r]; [apply IH | reflexivity].
Qed.

Lemma loop_pos_nat : forall {S R} p (body : S -> S + R) s,
  loop_pos p body s = loop_nat (Pos.to_nat p) body s.
Proof.
  intros S R p. induction p as [p IH|p IH|]; intros body s; cbn [loop_pos].
  - rewrite Pos2Nat.inj_xI. cbn [loop_nat].
    destruct (body s) as [s'|r]; [|reflexivity].
    replace (2 * Pos.to_nat p)%nat with (Pos.to_nat p + Pos.to_nat p)%nat by lia.
    rewrite loop_nat_add, <- IH.
    destruct (loop_pos p body s') as [s''|r]; [apply IH | reflexivity].
  - rewrite Pos2Nat.inj_xO.
    replace (2 * Pos.to_nat p)%nat with (Pos.to_nat p + Pos.to_nat p)%nat by lia.
    rewrite loop_nat_add, <- IH.
    destruct (loop_pos p body s) as [s'|r]; [apply IH | reflexivity].
  - change (Pos.to_nat 1) with 1%nat. cbn [loop_nat].
    destruct (body s); reflexivity.
Qed.

Lemma loopN_nat : forall {S R} fuel (body : S -> S + R) s,
  loopN fuel body s = loop_nat (N.to_nat fuel) body s.
Proof.
  intros S R [|p] body s; cbn [loopN N.to_nat].
  - reflexivity.
  - apply loop_pos_nat.
Qed.

Lemma result_eqb_refl : forall a, result_eqb a a = true.
Proof.
  intros [r|o l|]; cbn [result_eqb]; rewrite ?N.eqb_refl; reflexivity.
Qed.

(* ------------------------------------------------------------------------------------------ *)
(* 2. C08: search_with_offset returns the least solution or reports divergence                 *)
(* ------------------------------------------------------------------------------------------ *)

Section C08.
  Variables sbf st : N -> N.
  (* st is the exact inverse (Galois connection) of sbf *)
  Hypothesis st_inv : forall d t, st d <= t <-> d <= sbf t.
  Variable w : N -> N.
  Hypothesis w_mono : forall a b, a <= b -> w a <= w b.
  Variables off limit : N.
  Hypothesis off_in_bw : off <= st (w 1).          (* the offset lies inside the busy window *)

  Definition sol (r : N) : Prop := w (N.max r 1) <= sbf (off + r).

  (* The complete specification of a search outcome for divergence limit [lim]; it determines
     the outcome uniquely (swo_spec_unique). *)
  Definition swo_spec (lim : N) (res : result) : Prop :=
    match res with
    | ROk b => 1 <= lim /\ b <= lim /\ sol b /\ forall s, sol s -> b <= s
    | RErr o l => o = off /\ l = lim /\ forall s, sol s -> lim < N.max s 1
    | RPanic => False
    end.

  Lemma st_mono : forall d d', d <= d' -> st d <= st d'.
  Proof.
    intros d d' H. apply st_inv. transitivity d'; [exact H|].
    apply st_inv. reflexivity.
  Qed.

  Lemma st_sbf : forall d, d <= sbf (st d).
  Proof. intros d. apply st_inv. reflexivity. Qed.

  Lemma swo_loop : forall lim n r,
      1 <= r ->
      (forall s, sol s -> r <= N.max s 1) ->
      (N.to_nat (lim + 1 - r) < n)%nat ->
      exists res, loop_nat n (swo_body st off lim w) r = inr res /\ swo_spec lim res.
  Proof.
    intros lim n. induction n as [|n IH]; intros r Hr HI Hm; [lia|].
    cbn [loop_nat]. unfold swo_body. cbv zeta.
    destruct (N.leb_spec r lim) as [Hle|Hgt].
    - assert (Hoff : off <= st (w r)).
      { transitivity (st (w 1)); [exact off_in_bw|]. apply st_mono, w_mono. exact Hr. }
      destruct (N.ltb_spec (st (w r)) off) as [Hlt|_]; [lia|].
      assert (Hb : forall s, sol s -> st (w r) - off <= s).
      { intros s Hs.
        assert (st (w r) <= off + s).
        { apply st_inv. transitivity (w (N.max s 1)); [|exact Hs].
          apply w_mono, HI, Hs. }
        lia. }
      destruct (N.leb_spec (st (w r) - off) r) as [Hbr|Hbr].
      + eexists; split; [reflexivity|]. cbn [swo_spec].
        split; [lia|]. split; [lia|]. split; [|exact Hb].
        unfold sol. replace (off + (st (w r) - off)) with (st (w r)) by lia.
        transitivity (w r); [|apply st_sbf]. apply w_mono. lia.
      + apply IH.
        * lia.
        * intros s Hs. specialize (Hb s Hs). lia.
        * lia.
    - eexists; split; [reflexivity|]. cbn [swo_spec].
      split; [reflexivity|]. split; [reflexivity|].
      intros s Hs. specialize (HI s Hs). lia.
  Qed.

  Lemma swo_spec_holds : forall lim, swo_spec lim (search_with_offset st off lim w).
  Proof.
    intros lim. unfold search_with_offset. rewrite loopN_nat.
    destruct (swo_loop lim (N.to_nat (lim + 1)) 1) as [res [E HS]].
    - lia.
    - intros s _. lia.
    - lia.
    - rewrite E. exact HS.
  Qed.

  Lemma swo_spec_unique : forall lim a b, swo_spec lim a -> swo_spec lim b -> a = b.
  Proof.
    clear st_inv w_mono off_in_bw st.
    intros lim [a|oa la|] [b|ob lb|]; cbn [swo_spec]; intros Ha Hb; try tauto.
    - destruct Ha as (_ & _ & Hsa & Hla), Hb as (_ & _ & Hsb & Hlb).
      f_equal. apply N.le_antisymm; auto.
    - destruct Ha as (H1 & Hal & Hsa & _), Hb as (_ & _ & Hn).
      specialize (Hn a Hsa). lia.
    - destruct Hb as (H1 & Hbl & Hsb & _), Ha as (_ & _ & Hn).
      specialize (Hn b Hsb). lia.
    - destruct Ha as (-> & -> & _), Hb as (-> & -> & _). reflexivity.
  Qed.

  Theorem swo_ok : forall r, search_with_offset st off limit w = ROk r ->
      r <= limit /\ sol r /\ forall r', r' < r -> ~ sol r'.
  Proof.
    intros r H. pose proof (swo_spec_holds limit) as HS. rewrite H in HS.
    cbn [swo_spec] in HS. destruct HS as (_ & Hl & Hs & Hleast).
    split; [exact Hl|]. split; [exact Hs|].
    intros r' Hlt Hs'. apply Hleast in Hs'. lia.
  Qed.

  Theorem swo_err : forall o l, search_with_offset st off limit w = RErr o l ->
      o = off /\ l = limit /\ (1 <= limit -> forall r, r <= limit -> ~ sol r).
  Proof.
    intros o l H. pose proof (swo_spec_holds limit) as HS. rewrite H in HS.
    cbn [swo_spec] in HS. destruct HS as (Ho & Hl & Hn).
    split; [exact Ho|]. split; [exact Hl|].
    intros H1 r Hr Hs. apply Hn in Hs. lia.
  Qed.

  Theorem swo_no_panic : search_with_offset st off limit w <> RPanic.
  Proof.
    intros H. pose proof (swo_spec_holds limit) as HS. rewrite H in HS. exact HS.
  Qed.

  (* completeness: the least solution is found whenever it is within the limit *)
  Theorem swo_complete : forall r, 1 <= limit -> r <= limit -> sol r ->
      (forall r', r' < r -> ~ sol r') ->
      search_with_offset st off limit w = ROk r.
  Proof.
    intros r H1 Hr Hs Hleast.
    apply (swo_spec_unique limit); [apply swo_spec_holds|].
    cbn [swo_spec]. split; [exact H1|]. split; [exact Hr|]. split; [exact Hs|].
    intros s Hss. destruct (N.le_gt_cases r s) as [Hle|Hgt]; [exact Hle|].
    exfalso. exact (Hleast s Hgt Hss).
  Qed.

  (* hence an Ok result does not change when the limit is raised *)
  Theorem swo_limit_mono : forall r limit', limit <= limit' ->
      search_with_offset st off limit w = ROk r -> search_with_offset st off limit' w = ROk r.
  Proof.
    intros r limit' Hle H. pose proof (swo_spec_holds limit) as HS. rewrite H in HS.
    cbn [swo_spec] in HS. destruct HS as (H1 & Hl & Hs & Hleast).
    apply (swo_spec_unique limit'); [apply swo_spec_holds|].
    cbn [swo_spec]. split; [lia|]. split; [lia|]. split; [exact Hs|exact Hleast].
  Qed.
End C08.

Print Assumptions swo_ok.
Print Assumptions swo_err.
Print Assumptions swo_no_panic.
Print Assumptions swo_complete.
Print Assumptions swo_limit_mono.

(* the known corner: with limit = 0 the search reports divergence although r = 0 is a solution *)
Lemma swo_limit0_refuted :
  exists (w : N -> N), search_with_offset (fun d => d) 0 0 w = RErr 0 0 /\ w 1 <= 0.
Proof.
  exists (fun _ => 0). split; [reflexivity|]. reflexivity.
Qed.
Print Assumptions swo_limit0_refuted.

(* ------------------------------------------------------------------------------------------ *)
(* 3. the debug-only brute-force cross-check of [search] never fires for a 1-Lipschitz supply  *)
(* ------------------------------------------------------------------------------------------ *)

Section BruteForce.
  Variables sbf st : N -> N.
  Hypothesis st_inv : forall d t, st d <= t <-> d <= sbf t.
  Hypothesis sbf0 : sbf 0 = 0.
  Hypothesis sbf_lip : forall t, sbf (t + 1) <= sbf t + 1.
  Variable w : N -> N.
  Hypothesis w_mono : forall a b, a <= b -> w a <= w b.

  Lemma sol0_iff : sol sbf w 0 0 <-> w 1 = 0.
  Proof.
    unfold sol. change (N.max 0 1) with 1. change (0 + 0) with 0. rewrite sbf0. lia.
  Qed.

  Lemma sol_pos : forall s, 1 <= s -> (sol sbf w 0 s <-> w s <= sbf s).
  Proof.
    intros s Hs. unfold sol. rewrite N.max_l by exact Hs. rewrite N.add_0_l. reflexivity.
  Qed.

  Lemma bf_loop : forall lim n r,
      1 <= r ->
      (1 < r -> w 1 <> 0) ->
      (forall s, 1 <= s -> s < r -> sbf s < w s) ->
      (N.to_nat (lim + 1 - r) < n)%nat ->
      exists res, loop_nat n (bf_body sbf 0 lim w) r = inr res /\ swo_spec sbf w 0 lim res.
  Proof.
    intros lim n. induction n as [|n IH]; intros r Hr H1 HI Hm; [lia|].
    cbn [loop_nat]. unfold bf_body. rewrite N.add_0_l.
    destruct (N.leb_spec r lim) as [Hle|Hgt].
    - destruct (N.eqb_spec (w r) 0) as [Hw0|Hw0].
      + (* w r = 0: Ok 0 *)
        eexists; split; [reflexivity|]. cbn [swo_spec].
        split; [lia|]. split; [lia|]. split.
        * apply sol0_iff. pose proof (w_mono 1 r Hr). lia.
        * intros s _. lia.
      + destruct (N.eqb_spec (sbf r) (w r)) as [Heq|Hne].
        * (* sbf r = w r: Ok r *)
          eexists; split; [reflexivity|]. cbn [swo_spec].
          split; [lia|]. split; [exact Hle|]. split.
          -- apply sol_pos; [exact Hr|]. lia.
          -- intros s Hs. destruct (N.le_gt_cases r s) as [Hrs|Hrs]; [exact Hrs|].
             exfalso. destruct (N.eq_dec s 0) as [->|Hs0].
             ++ apply sol0_iff in Hs.
                destruct (N.eq_dec r 1) as [->|Hr1]; [lia|]. apply H1; [lia|exact Hs].
             ++ apply sol_pos in Hs; [|lia]. specialize (HI s). lia.
        * (* continue with r + 1 *)
          apply IH.
          -- lia.
          -- intros _. destruct (N.eq_dec r 1) as [->|Hr1]; [exact Hw0|]. apply H1. lia.
          -- intros s Hs1 Hs2. destruct (N.eq_dec s r) as [->|Hsr]; [|apply HI; lia].
             assert (sbf r <= w r); [|lia].
             destruct (N.eq_dec r 1) as [->|Hr1].
             ++ pose proof (sbf_lip 0) as HL. change (0 + 1) with 1 in HL.
                rewrite sbf0 in HL. lia.
             ++ pose proof (sbf_lip (r - 1)) as HL.
                replace (r - 1 + 1) with r in HL by lia.
                assert (sbf (r - 1) < w (r - 1)) by (apply HI; lia).
                assert (w (r - 1) <= w r) by (apply w_mono; lia).
                lia.
          -- lia.
    - (* r > lim: Err *)
      eexists; split; [reflexivity|]. cbn [swo_spec].
      split; [reflexivity|]. split; [reflexivity|].
      intros s Hs. destruct (N.eq_dec s 0) as [->|Hs0].
      + apply sol0_iff in Hs.
        destruct (N.eq_dec r 1) as [->|Hr1]; [lia|]. exfalso. apply H1; [lia|exact Hs].
      + destruct (N.le_gt_cases r s) as [Hrs|Hrs]; [lia|].
        apply sol_pos in Hs; [|lia]. specialize (HI s). lia.
  Qed.

  Theorem bf_eq_iterative : forall limit,
      brute_force_search_with_offset sbf 0 limit w = search_with_offset st 0 limit w.
  Proof.
    intros limit. apply (swo_spec_unique sbf w 0 limit).
    - unfold brute_force_search_with_offset. rewrite loopN_nat.
      destruct (bf_loop limit (N.to_nat (limit + 1)) 1) as [res [E HS]].
      + lia.
      + lia.
      + intros s Hs1 Hs2. lia.
      + lia.
      + rewrite E. exact HS.
    - apply swo_spec_holds; [exact st_inv|exact w_mono|apply N.le_0_l].
  Qed.

  Theorem search_dbg_irrelevant : forall dbg limit,
      search sbf st dbg limit w = search_with_offset st 0 limit w.
  Proof.
    intros dbg limit. unfold search. cbv zeta.
    rewrite bf_eq_iterative, result_eqb_refl.
    destruct (dbg && (limit <=? 100000)); reflexivity.
  Qed.
End BruteForce.

Print Assumptions bf_eq_iterative.
Print Assumptions search_dbg_irrelevant.

(* ------------------------------------------------------------------------------------------ *)
(* 4. max_response_time = first error if any, else the maximum, Ok 0 for the empty sequence    *)
(* ------------------------------------------------------------------------------------------ *)

Definition is_err (r : result) : bool := match r with RErr _ _ => true | _ => false end.
Definition val_of (r : result) : N := match r with ROk v => v | _ => 0 end.

Theorem mrt_nil : max_response_time [] = ROk 0.
Proof. reflexivity. Qed.

Lemma fold_rmax2_err : forall l o li, fold_left rmax2 l (RErr o li) = RErr o li.
Proof.
  induction l as [|y l IH]; intros o li; cbn [fold_left rmax2]; [reflexivity|apply IH].
Qed.

Lemma fold_rmax2_ok : forall l a, existsb is_panic l = false ->
  fold_left rmax2 l (ROk a) =
  match find is_err l with
  | Some e => e
  | None => ROk (N.max a (maxN (map val_of l)))
  end.
Proof.
  induction l as [|y l IH]; intros a H.
  - cbn [fold_left find map maxN fold_right]. rewrite N.max_0_r. reflexivity.
  - cbn [existsb] in H. apply orb_false_iff in H. destruct H as [Hy Hl].
    cbn [fold_left find map maxN fold_right].
    destruct y as [b|o li|]; cbn [rmax2 is_err val_of is_panic] in *.
    + destruct (N.ltb_spec b a) as [Hlt|Hge]; rewrite (IH _ Hl);
        destruct (find is_err l); try reflexivity; f_equal; unfold maxN; lia.
    + apply fold_rmax2_err.
    + discriminate Hy.
Qed.

Theorem mrt_spec : forall l, existsb is_panic l = false ->
    max_response_time l =
    match find is_err l with Some e => e | None => ROk (maxN (map val_of l)) end.
Proof.
  intros l H. unfold max_response_time. rewrite H.
  destruct l as [|x l]; [reflexivity|].
  cbn [existsb] in H. apply orb_false_iff in H. destruct H as [Hx Hl].
  cbn [find map maxN fold_right].
  destruct x as [a|o li|]; cbn [is_err val_of is_panic] in *.
  - apply fold_rmax2_ok. exact Hl.
  - apply fold_rmax2_err.
  - discriminate Hx.
Qed.

Theorem mrt_panic : forall l, existsb is_panic l = true -> max_response_time l = RPanic.
Proof.
  intros l H. unfold max_response_time. rewrite H. reflexivity.
Qed.

Print Assumptions mrt_nil.
Print Assumptions mrt_spec.
Print Assumptions mrt_panic.
Print Assumptions loop_nat_add.
Print Assumptions loop_pos_nat.
Print Assumptions loopN_nat.

(* zero-length steps are skipped when interval lengths are converted to offsets: on a list of positive steps the
   filter is the identity *)
Lemma filter_pos_id : forall l : list N, (forall d, In d l -> 1 <= d) -> filter (fun d => 0 <? d) l = l.
Proof.
  intros l. induction l as [|x l IH]; intros H; cbn [filter]; [reflexivity|].
  assert (Hx : 1 <= x) by (apply H; left; reflexivity).
  destruct (N.ltb_spec 0 x) as [_|Hc]; [|lia].
  f_equal. apply IH. intros d Hd. apply H. right. exact Hd.
Qed.

Lemma in_filter_pos : forall (l : list N) d, In d (filter (fun d => 0 <? d) l) <-> In d l /\ 1 <= d.
Proof.
  intros l d. rewrite filter_In. split; intros (H1 & H2); (split; [exact H1|]).
  - apply N.ltb_lt in H2. lia.
  - apply N.ltb_lt. lia.
Qed.
