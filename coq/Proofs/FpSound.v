(* FpSound.v — property C01: soundness of the fixed-priority response-time analyses, end to end.
   If the model of a fixed-priority analysis (fully preemptive, fully non-preemptive, limited
   preemptive, floating non-preemptive: all instances of [fp_generic], Model/Analyses.v) returns
   [ROk R] for a task, then in every legal schedule of every job set that complies with the tasks'
   arrival curves and WCETs, every job of that task completes within R time units of its release.

   Ingredients: [fp_generic_exhaustive] (ExhFP.v), [ab_steps_exact] (EntryPoints.v / StepsProofs.v),
   [task_jobs_in_window_bounded], [task_workload_bounded] (Workload.v) and the generic busy-window
   theorem [jlfp_response_time_bound2] (Jlfp2.v).

   Contents
   1. facts about legal limited-preemptive schedules (any priority relation):
      [pp_when_not_running], [last_decision], [np_run_le], [runs_to_completion];
   2. [exh_fp_ok_inv]: what [exh_fp ... = ROk R] says;
   3. summation helpers;
   4. Section FPSound: [fp_block] (bounded priority inversion), workload bounds, [fp_exh_sound],
      [fp_generic_sound];
   5. the four named corollaries over the public entry points: [fp_fully_preemptive_sound],
      [fp_fully_nonpreemptive_sound], [fp_limited_preemptive_sound], [fp_floating_nonpreemptive_sound];
   6. non-vacuity: a concrete non-preemptive schedule with blocking to which the theorem applies and
      in which the computed bound is attained. *)
From Coq Require Import Arith NArith List Lia Bool Permutation.
From RTA.Model Require Import Base Arrival Wcet Demand Analyses Eval WellFormed.
From RTA.Spec Require Import Sched Events TaskModel Policies Exhaustive.
From RTA.Proofs Require Import FixedPointProofs ExhFP ExhCorollaries ArrivalNaProofs WcetProofs StepsProofs EntryPoints Workload Jlfp2.
Import ListNotations.
Local Open Scope N_scope.

(* ------------------------------------------------------------------------------------------ *)
(* 1. legal limited-preemptive schedules                                                       *)
(* ------------------------------------------------------------------------------------------ *)
Section LegalFacts.
  Local Open Scope nat_scope.
  Variables (jobs : list job) (sched : nat -> option nat) (hp : nat -> nat -> Prop) (pp : nat -> nat -> bool).
  Hypothesis Hvalid : valid jobs sched.
  Hypothesis Hpp : pp_sane jobs pp.
  Hypothesis Hlegal : legal jobs sched hp pp.

  Lemma cost_pos_lt : forall k, 0 < cost jobs k -> k < length jobs.
  Proof.
    intros k H. destruct (Nat.lt_ge_cases k (length jobs)) as [|Hge]; [assumption|].
    unfold cost in H. rewrite nth_overflow in H by exact Hge. cbn in H. lia.
  Qed.

  Lemma service_not_running : forall k t, sched t <> Some k -> service sched k (S t) = service sched k t.
  Proof.
    intros k t H. rewrite service_S. unfold runs. destruct (sched t) as [k'|]; [|lia].
    destruct (Nat.eqb_spec k' k) as [->|]; [congruence|lia].
  Qed.

  Lemma service_running : forall k t, sched t = Some k -> service sched k (S t) = service sched k t + 1.
  Proof. intros k t H. rewrite service_S. unfold runs. rewrite H, Nat.eqb_refl. reflexivity. Qed.

  Lemma sched_dec : forall t k, {sched t = Some k} + {sched t <> Some k}.
  Proof.
    intros t k. destruct (sched t) as [k'|]; [|right; discriminate].
    destruct (Nat.eq_dec k' k) as [->|]; [left; reflexivity|right; congruence].
  Qed.

  (* an incomplete job that did not run in the previous slot stands at one of its preemption points *)
  Lemma pp_when_not_running : forall t k, service sched k t < cost jobs k ->
    (t = 0 \/ sched (t - 1) <> Some k) -> pp k (service sched k t) = true.
  Proof.
    induction t as [|u IH]; intros k Hs Hn.
    - change (service sched k 0) with 0. apply Hpp.
    - assert (Hu : sched u <> Some k).
      { destruct Hn as [Hn|Hn]; [discriminate|]. replace (S u - 1) with u in Hn by lia. exact Hn. }
      rewrite (service_not_running k u Hu) in *.
      destruct (Nat.eq_dec u 0) as [->|Hu0]; [apply IH; [exact Hs|left; reflexivity]|].
      destruct (sched_dec (u - 1) k) as [E|E]; [|apply IH; [exact Hs|right; exact E]].
      destruct Hlegal as [Ha _].
      specialize (Ha (u - 1) k E). replace (S (u - 1)) with u in Ha by lia.
      apply Ha; [exact Hu|]. destruct (Hvalid _ _ E) as (Hk & Harr & _).
      split; [exact Hk|]. split; [lia|exact Hs].
  Qed.

  Lemma svc_run : forall k t0 d, (forall u, t0 <= u < t0 + d -> sched u = Some k) ->
    service sched k (t0 + d) = service sched k t0 + d.
  Proof.
    intros k t0 d. induction d as [|d IH]; intros H; [rewrite !Nat.add_0_r; reflexivity|].
    replace (t0 + S d) with (S (t0 + d)) by lia. rewrite service_running by (apply H; lia).
    rewrite IH by (intros u Hu; apply H; lia). lia.
  Qed.

  Lemma decision_dec : forall k t, decision sched pp k t \/ ~ decision sched pp k t.
  Proof.
    intros k t. unfold decision. destruct (sched_dec t k) as [E|E]; [|right; tauto].
    destruct (Nat.eq_dec t 0) as [->|Ht]; [left; tauto|].
    destruct (sched_dec (t - 1) k) as [E1|E1]; [|left; tauto].
    destruct (pp k (service sched k t)) eqn:P; [left; tauto|].
    right. intros (_ & [H|[H|H]]); [lia|tauto|discriminate].
  Qed.

  (* the last scheduling decision in favour of the job running at t *)
  Lemma last_decision : forall t k, sched t = Some k ->
    exists t0, t0 <= t /\ decision sched pp k t0 /\
      forall s, t0 < s <= t -> sched s = Some k /\ pp k (service sched k s) = false.
  Proof.
    induction t as [|t IH]; intros k E.
    - exists 0. split; [lia|]. split; [split; [exact E|left; reflexivity]|]. intros s Hs. lia.
    - destruct (decision_dec k (S t)) as [D|D].
      + exists (S t). split; [lia|]. split; [exact D|]. intros s Hs. lia.
      + assert (E1 : sched t = Some k).
        { destruct (sched_dec t k) as [E1|E1]; [exact E1|]. exfalso. apply D. split; [exact E|].
          right. left. replace (S t - 1) with t by lia. exact E1. }
        assert (P : pp k (service sched k (S t)) = false).
        { destruct (pp k (service sched k (S t))) eqn:P; [|reflexivity]. exfalso. apply D. split; [exact E|tauto]. }
        destruct (IH k E1) as (t0 & Ht0 & Hd & Hr). exists t0. split; [lia|]. split; [exact Hd|].
        intros s Hs. destruct (Nat.eq_dec s (S t)) as [->|Hne]; [split; assumption|]. apply Hr. lia.
  Qed.

  (* a job whose non-preemptive segments are at most m + 1 long runs for at most m slots past its
     last decision point without reaching another one *)
  Lemma np_run_le : forall t k t0 m, t0 <= t -> decision sched pp k t0 ->
    (forall s, t0 < s <= t -> sched s = Some k /\ pp k (service sched k s) = false) ->
    sched t = Some k -> segments_le jobs pp k (m + 1) -> t <= t0 + m.
  Proof.
    intros t k t0 m Ht0 (E0 & Hd) Hr Et Hseg.
    destruct (Nat.le_gt_cases t (t0 + m)) as [|Hgt]; [assumption|exfalso].
    destruct (Hvalid _ _ E0) as (Hk & _ & Hs0).
    assert (P0 : pp k (service sched k t0) = true).
    { destruct Hd as [Hd|[Hd|Hd]]; [apply pp_when_not_running; [exact Hs0|left; exact Hd]
                                    |apply pp_when_not_running; [exact Hs0|right; exact Hd]|exact Hd]. }
    destruct (Hseg _ P0 Hs0) as (s' & Hs1 & Hs2 & Hs3 & Hs4).
    set (s0 := service sched k t0) in *.
    assert (Hsv : service sched k (t0 + (s' - s0)) = s0 + (s' - s0)).
    { apply svc_run. intros u Hu. destruct (Nat.eq_dec u t0) as [->|Hne]; [exact E0|]. apply Hr. lia. }
    destruct (Hr (t0 + (s' - s0))) as (_ & Pf); [lia|].
    rewrite Hsv in Pf. replace (s0 + (s' - s0)) with s' in Pf by lia. congruence.
  Qed.

  (* past the start of its last non-preemptive segment a job runs until it completes *)
  Lemma runs_to_completion : forall k b t, last_segment_starts_by jobs pp k b ->
    b < service sched k t -> service sched k t < cost jobs k -> sched t = Some k.
  Proof.
    intros k b t Hlast Hb Hc.
    assert (Pf : pp k (service sched k t) = false) by (apply Hlast; assumption).
    assert (Hk : k < length jobs) by (apply cost_pos_lt; lia).
    destruct (Nat.eq_dec t 0) as [->|Ht0].
    { rewrite pp_when_not_running in Pf; [discriminate|exact Hc|left; reflexivity]. }
    destruct (sched_dec (t - 1) k) as [E1|E1].
    2:{ rewrite pp_when_not_running in Pf; [discriminate|exact Hc|right; exact E1]. }
    destruct (sched_dec t k) as [E|E]; [exact E|exfalso].
    destruct Hlegal as [Ha _]. specialize (Ha (t - 1) k E1). replace (S (t - 1)) with t in Ha by lia.
    rewrite Ha in Pf; [discriminate|exact E|].
    destruct (Hvalid _ _ E1) as (_ & Harr & _). split; [exact Hk|]. split; [lia|exact Hc].
  Qed.
End LegalFacts.

(* ------------------------------------------------------------------------------------------ *)
(* 2. what a successful exhaustive evaluation says                                             *)
(* ------------------------------------------------------------------------------------------ *)
Lemma exh_fp_ok_inv : forall B rem tua hp limit R, exh_fp B rem tua hp limit = ROk R ->
  exists L, 1 <= L /\ B + hp L + tua L <= L /\
    forall A, A < L -> exists AF, 1 <= AF /\ B + (tua (A + 1) - rem) + hp AF <= AF /\ AF - A + rem <= R.
Proof.
  intros B rem tua hp limit R H. unfold exh_fp, exhaustive in H.
  destruct (least_fix limit (fun L => B + hp L + tua L)) as [L|] eqn:HL; [|discriminate].
  cbv zeta in H.
  pose (rhs := fun A AF => B + (tua (A + 1) - rem) + hp AF).
  pose (sols := map (fun A => (A, least_fix limit (rhs A))) (rangeN 0 L)).
  change (map (fun A => (A, least_fix limit (fun AF => B + (tua (A + 1) - rem) + hp AF))) (rangeN 0 L))
    with sols in H.
  destruct (existsb (fun p => is_none (snd p)) sols) eqn:EX; [discriminate|].
  assert (HR : maxN (map (fun p => oval (snd p) - fst p + rem) sols) = R) by (injection H as H'; exact H').
  apply least_fix_spec in HL. destruct HL as (HL1 & _ & HLfix & _).
  exists L. split; [exact HL1|]. split; [exact HLfix|].
  intros A HA.
  assert (Hin : In (A, least_fix limit (rhs A)) sols).
  { unfold sols. apply (in_map (fun A => (A, least_fix limit (rhs A)))). apply in_rangeN. lia. }
  destruct (least_fix limit (rhs A)) as [AF|] eqn:E.
  - exists AF. assert (E' := E). apply least_fix_spec in E'. destruct E' as (E1 & _ & E3 & _).
    split; [exact E1|]. split; [exact E3|].
    rewrite <- HR.
    assert (Hin' : In (AF - A + rem) (map (fun p => oval (snd p) - fst p + rem) sols)).
    { apply in_map_iff. exists (A, Some AF). split; [reflexivity|].
      unfold sols. apply in_map_iff. exists A. split; [rewrite E; reflexivity|apply in_rangeN; lia]. }
    apply ExhFP.maxN_ub in Hin'. exact Hin'.
  - exfalso. assert (HT : existsb (fun p => is_none (snd p)) sols = true); [|congruence].
    apply existsb_exists. exists (A, None). split; [exact Hin|reflexivity].
Qed.

(* ------------------------------------------------------------------------------------------ *)
(* 3. summation helpers                                                                        *)
(* ------------------------------------------------------------------------------------------ *)
Lemma sumn_filter_le : forall (p : nat -> bool) (g : nat -> nat) (G : nat -> N) m,
  (forall x, (x < m)%nat -> p x = true -> N.of_nat (g x) <= G x) ->
  N.of_nat (sumn m (fun x => if p x then g x else 0%nat)) <= sumN (map G (filter p (seq 0 m))).
Proof.
  intros p g G m. induction m as [|m IH]; intros H; [cbn; lia|].
  rewrite seq_S, filter_app, map_app, sumN_app. cbn [sumn plus filter].
  rewrite Nnat.Nat2N.inj_add.
  assert (IH' := IH (fun x Hx => H x (Nat.lt_lt_succ_r _ _ Hx))).
  destruct (p m) eqn:Pm.
  - cbn [map sumN fold_right]. specialize (H m (Nat.lt_succ_diag_r m) Pm). lia.
  - cbn [map sumN fold_right]. lia.
Qed.

Lemma workP_le_split : forall jobs (P Q1 Q2 : nat -> bool),
  (forall k, (k < length jobs)%nat -> P k = true -> Q1 k = true \/ Q2 k = true) ->
  (workP jobs P <= workP jobs Q1 + workP jobs Q2)%nat.
Proof.
  intros jobs P Q1 Q2 H. unfold workP. rewrite <- sumn_add. apply sumn_le. intros k Hk.
  destruct (P k) eqn:Pk; [|lia]. destruct (H k Hk Pk) as [->| ->]; [|destruct (Q1 k)]; lia.
Qed.

Lemma sumn_term_le : forall n f k, (k < n)%nat -> (f k <= sumn n f)%nat.
Proof.
  induction n as [|n IH]; intros f k Hk; [lia|]. cbn [sumn].
  destruct (Nat.eq_dec k n) as [->|Hne]; [lia|]. specialize (IH f k ltac:(lia)). lia.
Qed.

(* ------------------------------------------------------------------------------------------ *)
(* 4. the generic fixed-priority soundness theorem                                             *)
(* ------------------------------------------------------------------------------------------ *)
Section FPSound.
  Variable tasks : list task.                 (* (arrival bound, WCET) per task index *)
  Variable i : nat.                           (* index of the task under analysis *)
  Variable prio : nat -> nat.                 (* task priorities: smaller = higher *)
  Hypothesis Hi : (i < length tasks)%nat.
  Hypothesis tasks_ok : Forall (fun tk => wf_ab (fst tk) /\ steps_exact_class (fst tk) /\ 1 <= snd tk) tasks.
  Hypothesis prio_inj : forall a b, (a < length tasks)%nat -> (b < length tasks)%nat -> prio a = prio b -> a = b.
  (* indices of the other tasks with higher priority than task i *)
  Definition hp_idx : list nat := filter (fun k => (prio k <? prio i)%nat) (seq 0 (length tasks)).
  Definition C : N := snd (nth i tasks (Never, 0)).
  Definition ab_i : AB := fst (nth i tasks (Never, 0)).
  Definition hp_rbs : list RB :=
    map (fun k => RBF (fst (nth k tasks (Never, 0))) (Scalar (snd (nth k tasks (Never, 0))))) hp_idx.

  Variables (jobs : list job) (sched : nat -> option nat) (pp : nat -> nat -> bool).
  Hypothesis Hvalid : valid jobs sched.
  Hypothesis Hwc : work_conserving jobs sched.
  Hypothesis Hcurves : respects_curves tasks jobs.
  Hypothesis Hcosts : respects_costs tasks jobs.
  Hypothesis Hpp : pp_sane jobs pp.
  Hypothesis Hlegal : legal jobs sched (fp_hp jobs prio) pp.

  (* analysis parameters: the blocking bound B covers every non-preemptive segment of every
     lower-priority job; the last non-preemptive segment of every job of task i starts after at most
     C - last units of service *)
  Variables (B last : N).
  Hypothesis Hlast : 1 <= last /\ last <= C.
  Hypothesis Hseg_lp : forall k, (k < length jobs)%nat -> (prio i < prio (j_task (nth k jobs (mkJob 0 0 0))))%nat ->
     segments_le jobs pp k (N.to_nat B + 1).
  Hypothesis Hseg_tua : forall k, (k < length jobs)%nat -> j_task (nth k jobs (mkJob 0 0 0)) = i ->
     last_segment_starts_by jobs pp k (N.to_nat (C - last)).

  Notation tsk k := (j_task (nth k jobs (mkJob 0 0 0))).
  Notation Ck k := (snd (nth k tasks (Never, 0))).
  Notation abk k := (fst (nth k tasks (Never, 0))).

  (* the jobs with higher-or-equal priority than a job of task i released at time a *)
  Definition hepb (a k : nat) : bool :=
    (prio (tsk k) <? prio i)%nat || ((tsk k =? i)%nat && (arr jobs k <=? a)%nat).

  Lemma task_facts : forall k, (k < length tasks)%nat -> wf_ab (abk k) /\ steps_exact_class (abk k) /\ 1 <= Ck k.
  Proof.
    intros k Hk. pose proof (proj1 (Forall_forall _ _) tasks_ok) as H.
    apply (H (nth k tasks (Never, 0))). apply nth_In. exact Hk.
  Qed.

  Lemma job_facts : forall k, (k < length jobs)%nat ->
    (tsk k < length tasks)%nat /\ (1 <= cost jobs k)%nat /\ (cost jobs k <= N.to_nat (Ck (tsk k)))%nat.
  Proof. intros k Hk. apply (Hcosts (nth k jobs (mkJob 0 0 0))). apply nth_In. exact Hk. Qed.

  Local Open Scope nat_scope.

  (* ---- bounded priority inversion ---- *)
  Lemma fp_block : forall j, j < length jobs -> tsk j = i ->
    forall t k k', sched t = Some k -> hepb (arr jobs j) k = false ->
      pending jobs sched k' t -> hepb (arr jobs j) k' = true -> service sched j t < cost jobs j ->
      exists t0, t0 < t /\ t <= t0 + N.to_nat B /\
        (forall k'', pending jobs sched k'' t0 -> hepb (arr jobs j) k'' = false).
  Proof.
    intros j Hj Htj t k k' Ek Hk Hk' Hhk' Hinc.
    destruct (last_decision sched pp t k Ek) as (t0 & Ht0 & Hdec & Hrun).
    destruct (Hvalid _ _ Ek) as (Hkn & Hka & _).
    destruct (job_facts k Hkn) as (Hkt & _ & _).
    assert (E0 : sched t0 = Some k) by (destruct Hdec; assumption).
    destruct (Hvalid _ _ E0) as (_ & Hka0 & _).
    unfold hepb in Hk. apply orb_false_iff in Hk. destruct Hk as [Hk1 Hk2].
    apply Nat.ltb_ge in Hk1.
    destruct Hlegal as [_ Hb].
    destruct (Nat.eq_dec (prio (tsk k)) (prio i)) as [Heq|Hne].
    - (* a later job of task i cannot have been chosen while j is incomplete *)
      exfalso. apply prio_inj in Heq; [|exact Hkt|exact Hi].
      rewrite Heq, Nat.eqb_refl in Hk2. cbn [andb] in Hk2. apply Nat.leb_gt in Hk2.
      apply (Hb t0 k j Hdec).
      + split; [exact Hj|]. split; [lia|].
        assert (service sched j t0 <= service sched j t) by (apply service_mono; lia). lia.
      + right. split; [congruence|exact Hk2].
    - assert (Hlow : prio i < prio (tsk k)) by lia.
      assert (Hnone : forall k'', pending jobs sched k'' t0 -> hepb (arr jobs j) k'' = false).
      { intros k'' Hp. destruct (hepb (arr jobs j) k'') eqn:Hh; [exfalso|reflexivity].
        apply (Hb t0 k k'' Hdec Hp). left. unfold hepb in Hh.
        apply orb_true_iff in Hh. destruct Hh as [Hh|Hh]; [apply Nat.ltb_lt in Hh; lia|].
        apply andb_true_iff in Hh. destruct Hh as [Hh _]. apply Nat.eqb_eq in Hh. rewrite Hh. exact Hlow. }
      exists t0. split.
      + destruct (Nat.eq_dec t0 t) as [->|]; [|lia]. rewrite (Hnone _ Hk') in Hhk'. discriminate.
      + split; [|exact Hnone].
        apply (np_run_le jobs sched (fp_hp jobs prio) pp Hvalid Hpp Hlegal t k t0 (N.to_nat B) Ht0 Hdec Hrun Ek).
        apply Hseg_lp; assumption.
  Qed.

  (* ---- run to completion ---- *)
  Lemma fp_rtc : forall j, j < length jobs -> tsk j = i ->
    forall t, N.to_nat (C - last + 1) <= service sched j t -> service sched j t < cost jobs j -> sched t = Some j.
  Proof.
    intros j Hj Htj t Hs Hc.
    apply (runs_to_completion jobs sched (fp_hp jobs prio) pp Hvalid Hpp Hlegal j (N.to_nat (C - last))).
    - apply Hseg_tua; assumption.
    - lia.
    - exact Hc.
  Qed.

  (* ---- workload bounds ---- *)
  (* jobs of higher-priority tasks released in [t1, t1 + x) *)
  Definition hpw (t1 x k : nat) : bool := (prio (tsk k) <? prio i) && in_win jobs t1 x k.

  Lemma hpw_split : forall t1 x,
    workP jobs (hpw t1 x)
    = sumn (length tasks) (fun i' => if prio i' <? prio i then workP jobs (task_in_win jobs i' t1 x) else 0).
  Proof.
    intros t1 x. unfold workP.
    rewrite (sumn_ext (length tasks) _
               (fun i' => sumn (length jobs)
                  (fun k => if (prio i' <? prio i) && task_in_win jobs i' t1 x k then cost jobs k else 0))).
    2:{ intros i' _. destruct (prio i' <? prio i); cbn [andb]; [reflexivity|].
        symmetry. apply sumn_const0. reflexivity. }
    rewrite sumn_exch. apply sumn_ext. intros k Hk.
    destruct (job_facts k Hk) as (Ht & _ & _).
    rewrite (sumn_ext (length tasks) _
               (fun i' => if tsk k =? i' then (if hpw t1 x k then cost jobs k else 0) else 0)).
    - rewrite sumn_pick by exact Ht. reflexivity.
    - intros i' _. unfold task_in_win, hpw, in_win.
      destruct (Nat.eqb_spec (tsk k) i') as [<-|Hne]; cbn [andb]; [reflexivity|].
      rewrite andb_false_r. reflexivity.
  Qed.

  Lemma sum_sn_hp : forall d,
    sum_sn hp_rbs d = sumN (map (fun k => (Ck k * na (abk k) d)%N) hp_idx).
  Proof. intros d. unfold sum_sn, hp_rbs. rewrite map_map. reflexivity. Qed.

  Lemma hp_workload : forall t1 x, (N.of_nat (workP jobs (hpw t1 x)) <= sum_sn hp_rbs (N.of_nat x))%N.
  Proof.
    intros t1 x. rewrite hpw_split, sum_sn_hp. unfold hp_idx.
    apply (sumn_filter_le (fun k => prio k <? prio i)
             (fun i' => workP jobs (task_in_win jobs i' t1 x))
             (fun k => (Ck k * na (abk k) (N.of_nat x))%N)).
    intros i' Hi' _. apply task_workload_bounded; auto. apply task_facts. exact Hi'.
  Qed.

  (* jobs of task i other than j released in [t1, arr j] *)
  Lemma tua_workload : forall j, j < length jobs -> tsk j = i -> forall t1, t1 <= arr jobs j ->
    (N.of_nat (workP jobs (fun k => task_in_win jobs i t1 (arr jobs j - t1 + 1)%nat k && negb (k =? j)%nat)) + C
      <= C * na ab_i (N.of_nat (arr jobs j - t1) + 1))%N.
  Proof.
    intros j Hj Htj t1 Ht1.
    set (d := arr jobs j - t1 + 1).
    set (cnt := sumn (length jobs) (fun k => if task_in_win jobs i t1 d k then 1 else 0)).
    assert (Hcnt : (N.of_nat cnt <= na ab_i (N.of_nat d))%N).
    { apply (task_jobs_in_window_bounded tasks jobs i t1 d Hi); [apply task_facts; exact Hi|exact Hcurves]. }
    set (Cn := N.to_nat C).
    assert (Hw : workP jobs (fun k => task_in_win jobs i t1 d k && negb (k =? j)) + Cn <= Cn * cnt).
    { assert (Hpick := sumn_pick (length jobs) j Cn Hj).
      assert (Hsum : sumn (length jobs) (fun k => (if task_in_win jobs i t1 d k && negb (k =? j) then cost jobs k else 0)
                                                   + (if j =? k then Cn else 0))
                     <= sumn (length jobs) (fun k => if task_in_win jobs i t1 d k then Cn else 0)).
      { apply sumn_le. intros k Hk. destruct (Nat.eqb_spec j k) as [<-|Hne].
        - rewrite Nat.eqb_refl. cbn [negb]. rewrite andb_false_r.
          assert (E : task_in_win jobs i t1 d j = true).
          { unfold task_in_win. rewrite Htj, Nat.eqb_refl. cbn [andb].
            apply andb_true_iff. split; [apply Nat.leb_le|apply Nat.ltb_lt]; unfold d; lia. }
          rewrite E. lia.
        - destruct (Nat.eqb_spec k j) as [Heq|_]; [congruence|]. cbn [negb]. rewrite andb_true_r.
          destruct (task_in_win jobs i t1 d k) eqn:E; [|lia].
          unfold task_in_win in E. apply andb_true_iff in E. destruct E as [E _].
          apply andb_true_iff in E. destruct E as [E _]. apply Nat.eqb_eq in E.
          destruct (job_facts k Hk) as (_ & _ & Hle). rewrite E in Hle. unfold Cn, C. lia. }
      rewrite sumn_add, Hpick, sumn_scale in Hsum. exact Hsum. }
    apply N.le_trans with (C * N.of_nat cnt)%N.
    - unfold Cn in Hw. fold d.
      assert (H : (N.of_nat (workP jobs (fun k => task_in_win jobs i t1 d k && negb (k =? j)%nat) + N.to_nat C)%nat
                   <= N.of_nat (N.to_nat C * cnt)%nat)%N) by lia.
      rewrite Nnat.Nat2N.inj_add, Nnat.Nat2N.inj_mul, Nnat.N2Nat.id in H. exact H.
    - apply N.mul_le_mono_l. replace (N.of_nat (arr jobs j - t1) + 1)%N with (N.of_nat d) by (unfold d; lia).
      exact Hcnt.
  Qed.

  Lemma hepb_cases : forall a k, hepb a k = true ->
    (prio (tsk k) <? prio i) = true \/ (tsk k = i /\ arr jobs k <= a).
  Proof.
    intros a k H. unfold hepb in H. apply orb_true_iff in H. destruct H as [H|H]; [left; exact H|right].
    apply andb_true_iff in H. destruct H as [H1 H2]. apply Nat.eqb_eq in H1. apply Nat.leb_le in H2. tauto.
  Qed.

  Lemma fp_wl : forall j, j < length jobs -> tsk j = i -> forall t1 x, t1 <= arr jobs j ->
    workP jobs (fun k => hepb (arr jobs j) k && in_win jobs t1 x k && negb (k =? j)) + N.to_nat (C - last + 1)
    <= N.to_nat ((C * na ab_i (N.of_nat (arr jobs j - t1) + 1) - (last - 1)) + sum_sn hp_rbs (N.of_nat x)).
  Proof.
    intros j Hj Htj t1 x Ht1.
    assert (H1 := workP_le_split jobs
                    (fun k => hepb (arr jobs j) k && in_win jobs t1 x k && negb (k =? j))
                    (hpw t1 x)
                    (fun k => task_in_win jobs i t1 (arr jobs j - t1 + 1) k && negb (k =? j))).
    assert (H2 := hp_workload t1 x).
    assert (H3 := tua_workload j Hj Htj t1 Ht1).
    assert (H1' := H1 ltac:(
      intros k Hk HP; apply andb_true_iff in HP; destruct HP as [HP Hn];
      apply andb_true_iff in HP; destruct HP as [Hh Hw];
      destruct (hepb_cases _ _ Hh) as [Hp|[Ht Ha]];
      [left; unfold hpw; rewrite Hp, Hw; reflexivity|right];
      rewrite Hn, andb_true_r; unfold task_in_win; unfold in_win in Hw;
      apply andb_true_iff in Hw; destruct Hw as [Hw1 Hw2];
      rewrite Ht, Nat.eqb_refl, Hw1; cbn [andb]; apply Nat.ltb_lt; apply Nat.leb_le in Hw1; lia)).
    clear H1.
    destruct Hlast as [Hl1 Hl2].
    generalize dependent (workP jobs (fun k => hepb (arr jobs j) k && in_win jobs t1 x k && negb (k =? j))).
    generalize dependent (workP jobs (hpw t1 x)).
    generalize dependent (workP jobs (fun k => task_in_win jobs i t1 (arr jobs j - t1 + 1) k && negb (k =? j))).
    generalize dependent (sum_sn hp_rbs (N.of_nat x)).
    generalize dependent (na ab_i (N.of_nat (arr jobs j - t1) + 1)).
    intros n0 s w1 H3 w2 H2 w3 H1. nia.
  Qed.

  Lemma fp_wlL : forall a L t1,
    workP jobs (fun k => hepb a k && in_win jobs t1 L k)
    <= N.to_nat (sum_sn hp_rbs (N.of_nat L) + C * na ab_i (N.of_nat L)).
  Proof.
    intros a L t1.
    assert (H1 := workP_le_split jobs (fun k => hepb a k && in_win jobs t1 L k) (hpw t1 L) (task_in_win jobs i t1 L)).
    assert (H2 := hp_workload t1 L).
    assert (H3 : (N.of_nat (workP jobs (task_in_win jobs i t1 L)) <= C * na ab_i (N.of_nat L))%N).
    { apply task_workload_bounded; auto. apply task_facts. exact Hi. }
    assert (H1' := H1 ltac:(
      intros k Hk HP; apply andb_true_iff in HP; destruct HP as [Hh Hw];
      destruct (hepb_cases _ _ Hh) as [Hp|[Ht Ha]];
      [left; unfold hpw; rewrite Hp, Hw; reflexivity|right];
      unfold task_in_win; unfold in_win in Hw; rewrite Ht, Nat.eqb_refl; exact Hw)).
    lia.
  Qed.

  Local Open Scope N_scope.

  Lemma wf_hp_rbs : Forall wf_rb hp_rbs.
  Proof.
    unfold hp_rbs. apply Forall_forall. intros r Hr. apply in_map_iff in Hr. destruct Hr as (k & <- & Hk).
    unfold hp_idx in Hk. apply filter_In in Hk. destruct Hk as [Hk _]. apply in_seq in Hk.
    cbn [wf_rb wf_cm]. split; [apply task_facts; lia|exact I].
  Qed.

  (* soundness of the exhaustive evaluation of the equations ... *)
  Theorem fp_exh_sound : forall limit R,
    exh_fp B (last - 1) (fun d => C * na ab_i d) (sum_sn hp_rbs) limit = ROk R ->
    forall k, (k < length jobs)%nat -> j_task (nth k jobs (mkJob 0 0 0)) = i ->
      completes_within jobs sched k (N.to_nat R).
  Proof.
    intros limit R He j Hj Htj.
    destruct (exh_fp_ok_inv _ _ _ _ _ _ He) as (L & HL1 & HLfix & HRr).
    destruct (job_facts j Hj) as (_ & Hc1 & Hc2). rewrite Htj in Hc2. fold C in Hc2.
    destruct Hlast as [Hl1 Hl2].
    unfold completes_within.
    refine (jlfp_response_time_bound2 jobs sched Hvalid Hwc j Hj _ (hepb (arr jobs j)) _
              (N.to_nat B) (fp_block j Hj Htj)
              (N.to_nat (C - last + 1)) (N.to_nat (last - 1))
              (fun A x => N.to_nat ((C * na ab_i (N.of_nat A + 1) - (last - 1)) + sum_sn hp_rbs (N.of_nat x)))
              (N.to_nat L) (N.to_nat (sum_sn hp_rbs L + C * na ab_i L)) (N.to_nat R)
              _ (fp_rtc j Hj Htj) (fp_wl j Hj Htj) _ _ _ _).
    - lia.
    - unfold hepb. rewrite Htj, Nat.eqb_refl, Nat.leb_refl. cbn [andb]. apply orb_true_r.
    - lia.
    - lia.
    - intros t1. assert (H := fp_wlL (arr jobs j) (N.to_nat L) t1). rewrite Nnat.N2Nat.id in H. exact H.
    - lia.
    - intros A HA. destruct (HRr (N.of_nat A) ltac:(lia)) as (AF & H1 & H2 & H3).
      exists (N.to_nat AF). rewrite Nnat.N2Nat.id. split; [lia|]. split; lia.
  Qed.

  (* ... and hence of the pruned, iterative analysis *)
  Theorem fp_generic_sound : forall dbg limit R,
    fp_generic dbg true B (last - 1) (fun d => C * na ab_i d) (sum_sn hp_rbs) (steps_upto ab_i) limit = ROk R ->
    forall k, (k < length jobs)%nat -> j_task (nth k jobs (mkJob 0 0 0)) = i ->
      completes_within jobs sched k (N.to_nat R).
  Proof.
    intros dbg limit R He k Hk Htk.
    destruct (task_facts i Hi) as (Hwf & Hcl & HC1). fold ab_i in Hwf, Hcl. fold C in HC1.
    assert (Hna1 : 0 < na ab_i 1).
    { (* task i has a job, so its arrival bound cannot vanish on windows of length one *)
      assert (Hb := task_jobs_in_window_bounded tasks jobs i (arr jobs k) 1 Hi Hwf Hcurves).
      set (cnt := sumn (length jobs) _) in Hb.
      assert (Hone : (1 <= cnt)%nat).
      { eapply Nat.le_trans; [|apply (sumn_term_le _ _ k Hk)].
        unfold task_in_win. rewrite Htk, Nat.eqb_refl, Nat.leb_refl. cbn [andb].
        destruct (Nat.ltb_spec (arr jobs k) (arr jobs k + 1)); lia. }
      change (N.of_nat 1) with 1 in Hb. apply N.lt_le_trans with (N.of_nat cnt); [lia|exact Hb]. }
    destruct Hlast as [Hl1 Hl2].
    rewrite (fp_generic_exhaustive B (last - 1) (fun d => C * na ab_i d) (sum_sn hp_rbs) (steps_upto ab_i) limit) in He.
    - exact (fp_exh_sound limit R He k Hk Htk).
    - apply scaled_mono. apply na_mono'. exact Hwf.
    - apply sum_sn_mono. exact wf_hp_rbs.
    - apply scaled_steps; [exact HC1|apply ab_steps_exact; assumption].
    - nia.
    - rewrite (na_zero _ Hwf). lia.
    - apply scaled_step_gt. lia.
  Qed.
End FPSound.
Print Assumptions fp_exh_sound.
Print Assumptions fp_generic_sound.

(* ------------------------------------------------------------------------------------------ *)
(* 5. the four named analyses at their public entry points                                     *)
(* ------------------------------------------------------------------------------------------ *)
Section FPNamed.
  Variable tasks : list task.
  Variable i : nat.
  Variable prio : nat -> nat.
  Hypothesis Hi : (i < length tasks)%nat.
  Hypothesis tasks_ok : Forall (fun tk => wf_ab (fst tk) /\ steps_exact_class (fst tk) /\ 1 <= snd tk) tasks.
  Hypothesis prio_inj : forall a b, (a < length tasks)%nat -> (b < length tasks)%nat -> prio a = prio b -> a = b.
  Variables (jobs : list job) (sched : nat -> option nat) (pp : nat -> nat -> bool).
  Hypothesis Hvalid : valid jobs sched.
  Hypothesis Hwc : work_conserving jobs sched.
  Hypothesis Hcurves : respects_curves tasks jobs.
  Hypothesis Hcosts : respects_costs tasks jobs.
  Hypothesis Hpp : pp_sane jobs pp.
  Hypothesis Hlegal : legal jobs sched (fp_hp jobs prio) pp.

  Notation Ci := (C tasks i).
  Notation abi := (ab_i tasks i).
  Notation hps := (hp_rbs tasks i prio).
  Notation tsk k := (j_task (nth k jobs (mkJob 0 0 0))).

  Lemma Ci_pos : 1 <= Ci.
  Proof. apply (task_facts tasks tasks_ok i Hi). Qed.

  Lemma cost_le_Ci : forall k, (k < length jobs)%nat -> tsk k = i -> (cost jobs k <= N.to_nat Ci)%nat.
  Proof.
    intros k Hk Htk. destruct (job_facts tasks jobs Hcosts k Hk) as (_ & _ & H).
    rewrite Htk in H. exact H.
  Qed.

  (* with last = 1 the hypothesis on the last segment of the task under analysis is vacuous *)
  Lemma last1_vacuous : forall k, (k < length jobs)%nat -> tsk k = i ->
    last_segment_starts_by jobs pp k (N.to_nat (Ci - 1)).
  Proof.
    intros k Hk Htk s Hs1 Hs2. pose proof (cost_le_Ci k Hk Htk). pose proof Ci_pos. lia.
  Qed.

  (* fixed_priority::fully_preemptive *)
  Theorem fp_fully_preemptive_sound : forall dbg limit R,
    fully_preemptive pp ->
    e_fp_fp dbg (RBF abi (Scalar Ci)) hps limit = ROk R ->
    forall k, (k < length jobs)%nat -> tsk k = i -> completes_within jobs sched k (N.to_nat R).
  Proof.
    intros dbg limit R Hfp He.
    apply (fp_generic_sound tasks i prio Hi tasks_ok prio_inj jobs sched pp Hvalid Hwc Hcurves Hcosts Hpp Hlegal
             0 1) with (dbg := dbg) (limit := limit).
    - pose proof Ci_pos. lia.
    - intros k Hk _ s _ Hs. exists (S s). rewrite Hfp. change (N.to_nat 0) with 0%nat. repeat split; lia.
    - exact last1_vacuous.
    - exact He.
  Qed.

  (* fixed_priority::floating_nonpreemptive: every non-preemptive segment of a lower-priority job is
     at most B + 1 long *)
  Theorem fp_floating_nonpreemptive_sound : forall dbg B limit R,
    (forall k, (k < length jobs)%nat -> (prio i < prio (tsk k))%nat -> segments_le jobs pp k (N.to_nat B + 1)) ->
    e_fp_fnp dbg (RBF abi (Scalar Ci)) B hps limit = ROk R ->
    forall k, (k < length jobs)%nat -> tsk k = i -> completes_within jobs sched k (N.to_nat R).
  Proof.
    intros dbg B limit R Hseg He.
    apply (fp_generic_sound tasks i prio Hi tasks_ok prio_inj jobs sched pp Hvalid Hwc Hcurves Hcosts Hpp Hlegal
             B 1) with (dbg := dbg) (limit := limit).
    - pose proof Ci_pos. lia.
    - exact Hseg.
    - exact last1_vacuous.
    - exact He.
  Qed.

  (* fixed_priority::limited_preemptive *)
  Theorem fp_limited_preemptive_sound : forall dbg B last limit R,
    1 <= last /\ last <= Ci ->
    (forall k, (k < length jobs)%nat -> (prio i < prio (tsk k))%nat -> segments_le jobs pp k (N.to_nat B + 1)) ->
    (forall k, (k < length jobs)%nat -> tsk k = i -> last_segment_starts_by jobs pp k (N.to_nat (Ci - last))) ->
    e_fp_lp dbg abi Ci last B hps limit = ROk R ->
    forall k, (k < length jobs)%nat -> tsk k = i -> completes_within jobs sched k (N.to_nat R).
  Proof.
    intros dbg B last limit R Hlast Hseg Htua He.
    apply (fp_generic_sound tasks i prio Hi tasks_ok prio_inj jobs sched pp Hvalid Hwc Hcurves Hcosts Hpp Hlegal
             B last Hlast Hseg Htua) with (dbg := dbg) (limit := limit).
    unfold e_fp_lp, fp_lp in He.
    replace ((1 <=? last) && (last - 1 <=? Ci)) with true in He; [exact He|].
    symmetry. apply andb_true_iff. split; apply N.leb_le; lia.
  Qed.

  (* fixed_priority::fully_nonpreemptive: B + 1 bounds the cost of every lower-priority job *)
  Theorem fp_fully_nonpreemptive_sound : forall dbg B limit R,
    fully_nonpreemptive jobs pp ->
    (forall k, (k < length jobs)%nat -> (prio i < prio (tsk k))%nat -> (cost jobs k <= N.to_nat B + 1)%nat) ->
    e_fp_np dbg abi Ci B hps limit = ROk R ->
    forall k, (k < length jobs)%nat -> tsk k = i -> completes_within jobs sched k (N.to_nat R).
  Proof.
    intros dbg B limit R Hnp HB He.
    pose proof Ci_pos as HC.
    apply (fp_generic_sound tasks i prio Hi tasks_ok prio_inj jobs sched pp Hvalid Hwc Hcurves Hcosts Hpp Hlegal
             B Ci) with (dbg := dbg) (limit := limit).
    - lia.
    - intros k Hk Hlow s Hs Hsc. rewrite Hnp in Hs.
      assert (Hs0 : s = 0%nat).
      { apply orb_true_iff in Hs. destruct Hs as [Hs|Hs]; apply Nat.eqb_eq in Hs; lia. }
      exists (cost jobs k). specialize (HB k Hk Hlow). rewrite Hnp, Nat.eqb_refl, orb_true_r.
      repeat split; lia.
    - intros k Hk Htk s Hs1 Hs2. rewrite Hnp.
      destruct (Nat.eqb_spec s 0) as [->|_]; [lia|]. destruct (Nat.eqb_spec s (cost jobs k)); [lia|reflexivity].
    - unfold e_fp_np, fp_np in He.
      replace (1 <=? Ci) with true in He; [exact He|]. symmetry. apply N.leb_le. exact HC.
  Qed.
End FPNamed.
Print Assumptions fp_fully_preemptive_sound.
Print Assumptions fp_fully_nonpreemptive_sound.
Print Assumptions fp_limited_preemptive_sound.
Print Assumptions fp_floating_nonpreemptive_sound.

(* ------------------------------------------------------------------------------------------ *)
(* 6. non-vacuity: a concrete task set, job set and non-preemptive schedule with blocking      *)
(* ------------------------------------------------------------------------------------------ *)
Definition ex_tasks : list task := [(Sporadic 10 0, 3); (Sporadic 20 0, 5)].
Definition ex_prio (k : nat) : nat := k.

Example ex_tasks_ok : Forall (fun tk => wf_ab (fst tk) /\ steps_exact_class (fst tk) /\ 1 <= snd tk) ex_tasks.
Proof. repeat constructor; cbn; lia. Qed.

(* task 0 (highest priority, WCET 3), blocked for at most 4 by the non-preemptive job of task 1 (WCET 5) *)
Example ex_np_ok : e_fp_np false (ab_i ex_tasks 0) (C ex_tasks 0) 4 (hp_rbs ex_tasks 0 ex_prio) 100 = ROk 7.
Proof. vm_compute. reflexivity. Qed.

Section Witness.
  Local Open Scope nat_scope.
  (* the low-priority job is released at 0 and runs non-preemptively in [0,5); the job of task 0 is
     released at 1, blocked until 5, and runs in [5,8): response time 7 *)
  Definition ex_jobs : list job := [mkJob 1 0 5; mkJob 0 1 3].
  Definition ex_sched (t : nat) : option nat :=
    if t <? 5 then Some 0 else if t <? 8 then Some 1 else None.
  Definition ex_pp (k s : nat) : bool := (s =? 0) || (s =? cost ex_jobs k).

  Lemma ex_np : fully_nonpreemptive ex_jobs ex_pp.
  Proof. intros k s. reflexivity. Qed.

  Lemma ex_pp_sane : pp_sane ex_jobs ex_pp.
  Proof. intros k. unfold ex_pp. split; [reflexivity|]. rewrite Nat.eqb_refl. apply orb_true_r. Qed.

  Lemma ex_valid : valid ex_jobs ex_sched.
  Proof.
    intros t j E.
    do 8 (destruct t as [|t];
          [injection E as <-; unfold pending, arr, cost, service, svc, runs; cbn; lia|]).
    discriminate E.
  Qed.

  Lemma ex_done : forall t j, j < 2 -> 8 <= t -> cost ex_jobs j <= service ex_sched j t.
  Proof.
    intros t j Hj Ht. assert (Hm := service_mono ex_sched j 8 t Ht).
    destruct j as [|[|j]]; [| |lia].
    - assert (H8 : service ex_sched 0 8 = 5) by reflexivity. change (cost ex_jobs 0) with 5. lia.
    - assert (H8 : service ex_sched 1 8 = 3) by reflexivity. change (cost ex_jobs 1) with 3. lia.
  Qed.

  Lemma ex_work_conserving : work_conserving ex_jobs ex_sched.
  Proof.
    intros t j (Hj & _ & Hs).
    do 8 (destruct t as [|t]; [discriminate|]). exfalso.
    assert (H := ex_done (S (S (S (S (S (S (S (S t)))))))) j Hj ltac:(lia)). lia.
  Qed.

  Lemma ex_respects_curves : respects_curves ex_tasks ex_jobs.
  Proof.
    intros i Hi. destruct i as [|[|i]]; [| |cbn in Hi; lia].
    - exists [1]. split; [apply Permutation_refl|].
      change [1] with (zip_add [1] [0]). apply adm_sporadic; cbn; auto.
    - exists [0]. split; [apply Permutation_refl|].
      change [0] with (zip_add [0] [0]). apply adm_sporadic; cbn; auto.
  Qed.

  Lemma ex_respects_costs : respects_costs ex_tasks ex_jobs.
  Proof. intros j [<-|[<-|[]]]; cbn; lia. Qed.

  Lemma ex_legal : legal ex_jobs ex_sched (fp_hp ex_jobs ex_prio) ex_pp.
  Proof.
    split.
    - intros t k E N (_ & _ & P).
      do 8 (destruct t as [|t];
            [injection E as <-; try (exfalso; apply N; reflexivity);
             unfold cost, service, svc, runs in P; cbn in P; lia|]).
      discriminate E.
    - intros t k k' (E & D) (Hk' & Ha & Hs) H.
      assert (Hk'2 : k' = 0 \/ k' = 1) by (cbn in Hk'; lia).
      do 8 (destruct t as [|t];
            [injection E as <-;
             destruct Hk'2 as [-> | ->];
             unfold fp_hp, ex_prio, arr, cost, service, svc, runs, ex_pp in *; cbn in *;
             try lia;
             try (destruct D as [D|[D|D]]; [lia|apply D; reflexivity|discriminate D]) |]).
      discriminate E.
  Qed.

  (* so the theorem applies: the job of task 0 (index 1) completes within 7 ... *)
  Example ex_completes : completes_within ex_jobs ex_sched 1 7.
  Proof.
    apply (fp_fully_nonpreemptive_sound ex_tasks 0 ex_prio ltac:(cbn; lia) ex_tasks_ok
             ltac:(intros a b _ _ H; exact H)
             ex_jobs ex_sched ex_pp ex_valid ex_work_conserving ex_respects_curves ex_respects_costs
             ex_pp_sane ex_legal false 4%N 100%N 7%N ex_np).
    - intros k Hk Hlow. destruct k as [|[|k]]; cbn in *; lia.
    - exact ex_np_ok.
    - cbn. lia.
    - reflexivity.
  Qed.

  (* ... and not within 6: the bound is attained *)
  Example ex_tight : ~ completes_within ex_jobs ex_sched 1 6.
  Proof. unfold completes_within, cost, arr, service, svc, runs. cbn. lia. Qed.
End Witness.
Print Assumptions ex_np_ok.
Print Assumptions ex_completes.
Print Assumptions ex_tight.
