(* GeneralCosts.v — soundness of the dedicated-processor analyses (FIFO, fixed priority, EDF) for tasks
   with GENERAL job-cost models (Model/Wcet.v: Scalar | Multiframe | CurveCM | ExtrapCM), generalising
   the scalar-WCET theorems of FifoEndToEnd.v (C03), FpSound.v (C01) and EdfSound.v (C02).

   1. Definitions: [gtask], [grb_of], [respects_gcurves], [respects_cost_models]: every job belongs to a
      task and costs >= 1, and the jobs of every task can be enumerated in release order (SOME order
      among simultaneous releases: an existential, so the hypothesis is as weak as possible; it is
      implied by "the job list itself is release-ordered per task" ([rcm_check_sound]) and by "every
      release-ordered enumeration" ([respects_cost_models_every_enumeration])) such that every block of
      m consecutive jobs costs at most [cost_of_jobs cm m] — what JobCostModel::cost_of_jobs promises.
      "Consecutive" refers to RELEASE order (j_arr); with release jitter >= period this may differ from
      activation order.  [scalar_respects_cost_models]: the scalar [respects_costs] is the special case.
   2. The key lemma: [window_is_block] (the jobs of a task released in a window are consecutive),
      [gtask_workload_bounded] (their cost is at most cost_of_jobs cm (na ab d) = sn (grb_of tk) d),
      [gtotal_workload_bounded].
   3. FIFO: [fifo_rta_sound_gen] (and [fifo_rta_sound_from_gen]: C03 is the special case).
   4. Fixed priority: [gfp_exh_sound] (generic in the per-job threshold), [fp_fp_sound_gen],
      [fp_fnp_sound_gen] — every task general.
   5. EDF: [gedf_exh_sound], [edf_fp_sound_gen], [edf_fnp_sound_gen] — every task general.
   4b/5b. Entry points that take the analysed task as arrival bound + scalar C (rem defined from C):
      [fp_np_sound_gen], [fp_lp_sound_gen], [edf_lp_sound_gen] — task i scalar, interfering tasks
      general.  (e_edf_np takes ALL tasks as arrival bound + scalar: nothing to generalise.)
   6. Checkers ([rcm_check_sound]), trace-derived curves are respected by their trace
      ([trace_blocks_bounded], via C14), the Multiframe examples [mf_ok] / [mf_bad], and three concrete
      systems with Multiframe / Curve cost models (FIFO, FP, EDF) simulated with the rank scheduler of
      Tightness.v: the theorems apply and the computed bounds are ATTAINED ([gx_*_completes],
      [gx_*_tight]).
   7. Observation [multiframe_first_frames_refuted]: Multiframe::cost_of_jobs charges the FIRST n
      frames; for a frame vector that is not accumulatively monotonic (e.g. [1; 3]) a job set cycling
      through the frames violates [respects_cost_models] and exceeds the computed bound.
   8. [fp_fully_preemptive_sound_from_gen], [edf_fully_preemptive_sound_from_gen]: the scalar theorems
      of C01 / C02 are special cases of the general ones. *)
From Coq Require Import Arith NArith List Lia Bool Permutation.
From RTA.Model Require Import Base Arrival Wcet Demand Analyses Eval WellFormed.
From RTA.Spec Require Import Sched Events TaskModel Policies Exhaustive.
From RTA.Proofs Require Import FixedPointProofs ExhFP ExhCorollaries ExhEDF ArrivalNaProofs WcetProofs StepsProofs
  EntryPoints Workload FifoSound FifoEndToEnd Jlfp2 Jlfp3 FpSound EdfSound AgreeProofs WcetTraceProofs Tightness.
Import ListNotations.
Local Open Scope N_scope.

(* ------------------------------------------------------------------------------------------ *)
(* 1. definitions                                                                              *)
(* ------------------------------------------------------------------------------------------ *)
(* a task: arrival bound and job-cost model *)
Definition gtask := (AB * CM)%type.
Definition gdflt : gtask := (Never, Scalar 0).
Definition grb_of (tk : gtask) : RB := RBF (fst tk) (snd tk).

Section Defs.
  Local Open Scope nat_scope.

  (* the jobs of task i, in job-list order *)
  Definition jobs_of (jobs : list job) (i : nat) : list job := filter (fun j => j_task j =? i) jobs.
  Definition total_cost (js : list job) : nat := list_sum (map j_cost js).

  (* an enumeration of jobs in release order (jobs with equal release times in any order) *)
  Fixpoint release_sorted (js : list job) : Prop :=
    match js with
    | [] => True
    | x :: js' => (forall y, In y js' -> j_arr x <= j_arr y) /\ release_sorted js'
    end.

  (* the m consecutive jobs from position p on *)
  Definition block (js : list job) (p m : nat) : list job := firstn m (skipn p js).

  (* what JobCostModel::cost_of_jobs promises: any n consecutive jobs cost at most cost_of_jobs n *)
  Definition blocks_bounded (cm : CM) (js : list job) : Prop :=
    forall p m, p + m <= length js ->
      (N.of_nat (total_cost (block js p m)) <= cost_of_jobs cm (N.of_nat m))%N.

  (* every task's releases form (up to reordering) an event sequence admissible for its arrival model
     ([respects_curves] of Spec/TaskModel.v, for tasks with cost models) *)
  Definition respects_gcurves (tasks : list gtask) (jobs : list job) : Prop :=
    forall i, i < length tasks ->
      exists es, Permutation es (arrivals_of jobs i) /\ admissible (fst (nth i tasks gdflt)) es.

  (* every job belongs to a task and costs at least 1; the jobs of every task can be enumerated in
     release order (SOME order among simultaneous releases) such that every block of consecutive
     jobs respects the task's cost model *)
  Definition respects_cost_models (tasks : list gtask) (jobs : list job) : Prop :=
    (forall j, In j jobs -> j_task j < length tasks /\ 1 <= j_cost j) /\
    forall i, i < length tasks ->
      exists js, Permutation js (jobs_of jobs i) /\ release_sorted js /\
                 blocks_bounded (snd (nth i tasks gdflt)) js.

  (* the arrival bounds alone, as a task list of Spec/TaskModel.v *)
  Definition ab_tasks (tasks : list gtask) : list task := map (fun tk => (fst tk, 0%N)) tasks.

  Lemma respects_gcurves_iff : forall tasks jobs,
    respects_gcurves tasks jobs <-> respects_curves (ab_tasks tasks) jobs.
  Proof.
    intros tasks jobs. unfold respects_gcurves, respects_curves, ab_tasks. rewrite map_length.
    split; intros H i Hi; destruct (H i Hi) as (es & Hp & Ha); exists es; (split; [exact Hp|]).
    - change (Never, 0%N) with ((fun tk : gtask => (fst tk, 0%N)) gdflt). rewrite map_nth. exact Ha.
    - change (Never, 0%N) with ((fun tk : gtask => (fst tk, 0%N)) gdflt) in Ha. rewrite map_nth in Ha. exact Ha.
  Qed.

  (* ---- sorting by release time (existence of a release-ordered enumeration) ---- *)
  Fixpoint ins (x : job) (l : list job) : list job :=
    match l with
    | [] => [x]
    | y :: l' => if j_arr x <=? j_arr y then x :: l else y :: ins x l'
    end.
  Definition rsort (l : list job) : list job := fold_right ins [] l.

  Lemma ins_perm : forall x l, Permutation (ins x l) (x :: l).
  Proof.
    intros x l. induction l as [|y l IH]; [apply Permutation_refl|]. cbn [ins].
    destruct (j_arr x <=? j_arr y); [apply Permutation_refl|].
    eapply Permutation_trans; [apply perm_skip; exact IH|apply perm_swap].
  Qed.

  Lemma rsort_perm : forall l, Permutation (rsort l) l.
  Proof.
    induction l as [|x l IH]; [apply Permutation_refl|]. cbn [rsort fold_right].
    eapply Permutation_trans; [apply ins_perm|]. apply perm_skip. exact IH.
  Qed.

  Lemma ins_sorted : forall x l, release_sorted l -> release_sorted (ins x l).
  Proof.
    intros x l. induction l as [|y l IH]; intros Hs; [cbn; split; [intros y []|exact I]|].
    cbn [ins]. destruct (Nat.leb_spec (j_arr x) (j_arr y)) as [Hle|Hgt].
    - cbn [release_sorted]. split; [|exact Hs].
      intros z [<-|Hz]; [exact Hle|]. destruct Hs as [Hy _]. specialize (Hy z Hz). lia.
    - destruct Hs as [Hy Hs]. cbn [release_sorted]. split; [|apply IH; exact Hs].
      intros z Hz. apply (Permutation_in _ (ins_perm x l)) in Hz. destruct Hz as [<-|Hz]; [lia|apply Hy; exact Hz].
  Qed.

  Lemma rsort_sorted : forall l, release_sorted (rsort l).
  Proof. induction l as [|x l IH]; [exact I|]. cbn [rsort fold_right]. apply ins_sorted. exact IH. Qed.

  (* ---- the scalar model is the special case ---- *)
  Definition gtask_of (tk : task) : gtask := (fst tk, Scalar (snd tk)).

  Lemma total_cost_le_scalar : forall (js : list job) c, (forall j, In j js -> j_cost j <= c) ->
    total_cost js <= c * length js.
  Proof.
    intros js c. induction js as [|x js IH]; intros H; [cbn; lia|].
    unfold total_cost in *. cbn [map list_sum fold_right length].
    assert (Hx := H x (or_introl eq_refl)).
    assert (IH' := IH (fun j Hj => H j (or_intror Hj))). unfold list_sum in IH'. lia.
  Qed.

  Lemma In_firstn : forall {A} m (l : list A) x, In x (firstn m l) -> In x l.
  Proof.
    intros A m. induction m as [|m IH]; intros [|y l] x H; cbn [firstn] in H; try destruct H as [].
    - left. assumption.
    - right. apply IH. assumption.
  Qed.

  Lemma block_incl : forall js p m j, In j (block js p m) -> In j js.
  Proof.
    intros js p m j H. unfold block in H. apply In_firstn in H.
    rewrite <- (firstn_skipn p js). apply in_or_app. right. exact H.
  Qed.

  Lemma block_length : forall js p m, p + m <= length js -> length (block js p m) = m.
  Proof.
    intros js p m H. unfold block. rewrite firstn_length, skipn_length. lia.
  Qed.

  Theorem scalar_respects_cost_models : forall (tasks : list task) jobs,
    respects_costs tasks jobs -> respects_cost_models (map gtask_of tasks) jobs.
  Proof.
    intros tasks jobs Hc. split.
    - intros j Hj. rewrite map_length. destruct (Hc j Hj) as (H1 & H2 & _). split; assumption.
    - intros i Hi. rewrite map_length in Hi. exists (rsort (jobs_of jobs i)).
      split; [apply rsort_perm|]. split; [apply rsort_sorted|].
      change gdflt with (gtask_of (Never, 0%N)). rewrite map_nth. cbn [gtask_of snd].
      set (C := snd (nth i tasks (Never, 0%N))).
      intros p m Hpm. cbn [cost_of_jobs].
      assert (H : total_cost (block (rsort (jobs_of jobs i)) p m) <= N.to_nat C * m).
      { rewrite <- (block_length _ p m Hpm) at 2. apply total_cost_le_scalar.
        intros j Hj. apply block_incl in Hj. apply (Permutation_in _ (rsort_perm _)) in Hj.
        unfold jobs_of in Hj. apply filter_In in Hj. destruct Hj as [Hj Ht]. apply Nat.eqb_eq in Ht.
        destruct (Hc j Hj) as (_ & _ & Hle). rewrite Ht in Hle. exact Hle. }
      lia.
  Qed.

  Lemma scalar_respects_gcurves : forall (tasks : list task) jobs,
    respects_curves tasks jobs -> respects_gcurves (map gtask_of tasks) jobs.
  Proof.
    intros tasks jobs H i Hi. rewrite map_length in Hi. destruct (H i Hi) as (es & Hp & Ha).
    exists es. split; [exact Hp|]. change gdflt with (gtask_of (Never, 0%N)). rewrite map_nth. exact Ha.
  Qed.

  (* ------------------------------------------------------------------------------------------ *)
  (* 2. the key lemma: the jobs of a task released in a window are consecutive                   *)
  (* ------------------------------------------------------------------------------------------ *)
  Definition jwin (t1 d : nat) (j : job) : bool := in_window t1 d (j_arr j).

  Lemma filter_nil : forall {A} (q : A -> bool) l, (forall x, In x l -> q x = false) -> filter q l = [].
  Proof.
    intros A q l. induction l as [|x l IH]; intros H; [reflexivity|]. cbn [filter].
    rewrite (H x (or_introl eq_refl)). apply IH. intros y Hy. apply H. right. exact Hy.
  Qed.

  Lemma filter_length_le : forall {A} (q : A -> bool) l, length (filter q l) <= length l.
  Proof. intros A q l. induction l as [|x l IH]; [cbn; lia|]. cbn [filter]. destruct (q x); cbn [length]; lia. Qed.

  (* all jobs released at or after t1: the window selects a prefix *)
  Lemma window_is_prefix : forall t1 d js, release_sorted js -> (forall y, In y js -> t1 <= j_arr y) ->
    filter (jwin t1 d) js = firstn (length (filter (jwin t1 d) js)) js.
  Proof.
    intros t1 d js. induction js as [|x js IH]; intros Hs Hge; [reflexivity|].
    destruct Hs as [Hx Hs]. cbn [filter]. destruct (jwin t1 d x) eqn:E.
    - cbn [length firstn]. f_equal. apply IH; [exact Hs|]. intros y Hy. apply Hge. right. exact Hy.
    - rewrite filter_nil; [reflexivity|]. intros y Hy. specialize (Hx y Hy).
      assert (Hgx := Hge x (or_introl eq_refl)).
      unfold jwin, in_window in *. apply andb_false_iff in E.
      destruct E as [E|E]; [apply Nat.leb_gt in E; lia|]. apply Nat.ltb_ge in E.
      apply andb_false_iff. right. apply Nat.ltb_ge. lia.
  Qed.

  Theorem window_is_block : forall t1 d js, release_sorted js ->
    exists p, p + length (filter (jwin t1 d) js) <= length js /\
              filter (jwin t1 d) js = block js p (length (filter (jwin t1 d) js)).
  Proof.
    intros t1 d js. induction js as [|x js IH]; intros Hs.
    - exists 0. split; [cbn; lia|reflexivity].
    - destruct (Nat.le_gt_cases t1 (j_arr x)) as [Hge|Hlt].
      + exists 0. split; [apply (filter_length_le (jwin t1 d) (x :: js))|].
        unfold block. cbn [skipn]. apply window_is_prefix; [exact Hs|].
        intros y [<-|Hy]; [exact Hge|]. destruct Hs as [Hx _]. specialize (Hx y Hy). lia.
      + destruct Hs as [_ Hs]. destruct (IH Hs) as (p & Hp & Hf). exists (S p).
        assert (E : jwin t1 d x = false).
        { unfold jwin, in_window. apply andb_false_iff. left. apply Nat.leb_gt. exact Hlt. }
        cbn [filter]. rewrite E. split; [cbn [length]; lia|]. unfold block. cbn [skipn]. exact Hf.
  Qed.

  Lemma perm_filter : forall {A} (q : A -> bool) l l', Permutation l l' -> Permutation (filter q l) (filter q l').
  Proof.
    intros A q l l' H. induction H as [|x l l' _ IH|x y l|l l' l'' _ IH1 _ IH2]; cbn [filter].
    - apply perm_nil.
    - destruct (q x); [apply perm_skip|]; exact IH.
    - destruct (q x), (q y); try apply Permutation_refl. apply perm_swap.
    - eapply Permutation_trans; eassumption.
  Qed.

  Lemma total_cost_perm : forall js js', Permutation js js' -> total_cost js = total_cost js'.
  Proof. intros js js' H. unfold total_cost. apply Permutation_list_sum. apply Permutation_map. exact H. Qed.

  (* the workload of task i in a window, as a cost of a filtered job list *)
  Lemma workP_task_in_win : forall jobs i t1 d,
    workP jobs (task_in_win jobs i t1 d) = total_cost (filter (jwin t1 d) (jobs_of jobs i)).
  Proof.
    intros jobs i t1 d. unfold workP.
    pose (f := fun j => if (j_task j =? i) && jwin t1 d j then j_cost j else 0).
    rewrite (sumn_ext _ _ (fun k => f (nth k jobs (mkJob 0 0 0)))).
    2:{ intros k _. unfold f, task_in_win, jwin, in_window, arr, cost. rewrite andb_assoc. reflexivity. }
    rewrite (sumn_nth jobs (mkJob 0 0 0) f). unfold f, total_cost, jobs_of.
    induction jobs as [|j jobs IH]; [reflexivity|].
    cbn [map list_sum fold_right filter]. unfold list_sum in IH. rewrite IH.
    destruct (j_task j =? i); cbn [andb filter]; [|reflexivity].
    destruct (jwin t1 d j); reflexivity.
  Qed.

  Lemma count_jobs_of : forall jobs i t1 d,
    length (filter (jwin t1 d) (jobs_of jobs i)) = count (arrivals_of jobs i) t1 d.
  Proof.
    intros jobs i t1 d. unfold count, arrivals_of. fold (jobs_of jobs i).
    induction (jobs_of jobs i) as [|j l IH]; [reflexivity|].
    cbn [map filter]. unfold jwin at 1. destruct (in_window t1 d (j_arr j)); cbn [length]; rewrite IH; reflexivity.
  Qed.
End Defs.

Section WorkloadGen.
  Variable tasks : list gtask.
  Variable jobs : list job.
  Hypothesis Hcurves : respects_gcurves tasks jobs.
  Hypothesis Hcm : respects_cost_models tasks jobs.

  Notation abk k := (fst (nth k tasks gdflt)).
  Notation cmk k := (snd (nth k tasks gdflt)).
  Notation tsk k := (j_task (nth k jobs (mkJob 0 0 0))).

  (* the number of jobs of task i released in a window is bounded by its arrival curve *)
  Theorem gtask_jobs_in_window_bounded : forall i t1 d, (i < length tasks)%nat -> wf_ab (abk i) ->
    N.of_nat (count (arrivals_of jobs i) t1 d) <= na (abk i) (N.of_nat d).
  Proof.
    intros i t1 d Hi Hwf. destruct (Hcurves i Hi) as (es & Hperm & Hadm).
    rewrite <- (count_perm _ _ t1 d Hperm). apply na_bounds_admissible; assumption.
  Qed.

  (* the total cost of the jobs of task i released in any window [t1, t1 + d) is at most
     cost_of_jobs cm (na ab d) = sn (grb_of tk_i) d *)
  Theorem gtask_workload_bounded : forall i t1 d, (i < length tasks)%nat ->
    wf_ab (abk i) -> wf_cm (cmk i) ->
    N.of_nat (workP jobs (task_in_win jobs i t1 d)) <= sn (grb_of (nth i tasks gdflt)) (N.of_nat d).
  Proof.
    intros i t1 d Hi Hwf Hwc. cbn [grb_of sn].
    destruct Hcm as [_ Hblocks]. destruct (Hblocks i Hi) as (js & Hperm & Hsorted & Hbb).
    rewrite workP_task_in_win.
    rewrite <- (total_cost_perm _ _ (perm_filter (jwin t1 d) _ _ Hperm)).
    assert (Hcnt := gtask_jobs_in_window_bounded i t1 d Hi Hwf).
    rewrite <- count_jobs_of in Hcnt.
    rewrite <- (Permutation_length (perm_filter (jwin t1 d) _ _ Hperm)) in Hcnt.
    destruct (window_is_block t1 d js Hsorted) as (p & Hp & Hf).
    rewrite Hf. eapply N.le_trans; [apply Hbb; exact Hp|].
    apply cost_mono; [exact Hwc|exact Hcnt].
  Qed.

  Lemma gjob_task : forall k, (k < length jobs)%nat -> (tsk k < length tasks)%nat /\ (1 <= cost jobs k)%nat.
  Proof. intros k Hk. destruct Hcm as [H _]. apply (H (nth k jobs (mkJob 0 0 0))). apply nth_In. exact Hk. Qed.

  (* jobs of the tasks selected by p released in per-task windows [t1, t1 + len o) *)
  Lemma gpw_split : forall (p : nat -> bool) (len : nat -> nat) t1,
    workP jobs (fun k => p (tsk k) && Jlfp2.in_win jobs t1 (len (tsk k)) k)
    = sumn (length tasks) (fun i' => if p i' then workP jobs (task_in_win jobs i' t1 (len i')) else 0%nat).
  Proof.
    intros p len t1. unfold workP.
    rewrite (sumn_ext (length tasks) _
               (fun i' => sumn (length jobs)
                  (fun k => if p i' && task_in_win jobs i' t1 (len i') k then cost jobs k else 0%nat))).
    2:{ intros i' _. destruct (p i'); cbn [andb]; [reflexivity|].
        symmetry. apply sumn_const0. reflexivity. }
    rewrite sumn_exch. apply sumn_ext. intros k Hk.
    destruct (gjob_task k Hk) as (Ht & _).
    rewrite (sumn_ext (length tasks) _
               (fun i' => if (tsk k =? i')%nat
                          then (if p (tsk k) && Jlfp2.in_win jobs t1 (len (tsk k)) k then cost jobs k else 0%nat) else 0%nat)).
    - rewrite sumn_pick by exact Ht. reflexivity.
    - intros i' _. unfold task_in_win, Jlfp2.in_win.
      destruct (Nat.eqb_spec (tsk k) i') as [<-|Hne]; cbn [andb]; [reflexivity|].
      rewrite andb_false_r. reflexivity.
  Qed.

  Hypothesis tasks_wf : forall i, (i < length tasks)%nat -> wf_ab (abk i) /\ wf_cm (cmk i).

  (* jobs of the tasks selected by p, against the sum of their request-bound functions *)
  Lemma gsel_workload : forall (p : nat -> bool) (len : nat -> nat) t1,
    N.of_nat (workP jobs (fun k => p (tsk k) && Jlfp2.in_win jobs t1 (len (tsk k)) k))
    <= sumN (map (fun i' => sn (grb_of (nth i' tasks gdflt)) (N.of_nat (len i'))) (filter p (seq 0 (length tasks)))).
  Proof.
    intros p len t1. rewrite gpw_split.
    apply (sumn_filter_le p (fun i' => workP jobs (task_in_win jobs i' t1 (len i')))
             (fun i' => sn (grb_of (nth i' tasks gdflt)) (N.of_nat (len i')))).
    intros i' Hi' _. apply gtask_workload_bounded; [exact Hi'|apply tasks_wf; exact Hi'|apply tasks_wf; exact Hi'].
  Qed.

  Lemma map_nth_seq : forall {A B} (f : A -> B) (l : list A) (dflt : A),
    map (fun i => f (nth i l dflt)) (seq 0 (length l)) = map f l.
  Proof.
    intros A B f l dflt. induction l as [|x l IH]; [reflexivity|].
    cbn [length seq map nth]. f_equal. rewrite <- seq_shift, map_map. exact IH.
  Qed.

  (* the total workload released in a window is bounded by the aggregate request-bound function *)
  Theorem gtotal_workload_bounded : forall t1 d,
    N.of_nat (workP jobs (Jlfp2.in_win jobs t1 d)) <= sn (Agg (map grb_of tasks)) (N.of_nat d).
  Proof.
    intros t1 d.
    assert (H := gsel_workload (fun _ => true) (fun _ => d) t1). cbn [andb] in H.
    replace (filter (fun _ : nat => true) (seq 0 (length tasks))) with (seq 0 (length tasks)) in H.
    2:{ clear H. induction (seq 0 (length tasks)) as [|x l IH]; [reflexivity|]. cbn [filter]. f_equal. exact IH. }
    rewrite (map_nth_seq (fun tk => sn (grb_of tk) (N.of_nat d)) tasks gdflt) in H.
    cbn [sn]. rewrite map_map. exact H.
  Qed.
End WorkloadGen.
Print Assumptions scalar_respects_cost_models.
Print Assumptions window_is_block.
Print Assumptions gtask_workload_bounded.
Print Assumptions gtotal_workload_bounded.

(* ------------------------------------------------------------------------------------------ *)
(* 3. FIFO                                                                                     *)
(* ------------------------------------------------------------------------------------------ *)
(* what the entry points require of a request bound RBF ab cm (StepsProofs.rb_steps_ok): the arrival
   model well-formed and outside the known class of C11, the cost model well-formed and positive *)
Definition gtask_ok (tk : gtask) : Prop :=
  wf_ab (fst tk) /\ steps_exact_class (fst tk) /\ wf_cm (snd tk) /\ positive_cm (snd tk).

Lemma gtask_ok_rb : forall tk, gtask_ok tk -> rb_steps_ok (grb_of tk).
Proof. intros tk H. exact H. Qed.

Lemma gtasks_ok_agg : forall tasks, Forall gtask_ok tasks -> rb_steps_ok (Agg (map grb_of tasks)).
Proof.
  intros tasks H. apply rb_ok_agg. induction H as [|tk l Htk _ IH]; cbn [map]; constructor; [exact Htk|exact IH].
Qed.

Lemma gtasks_ok_nth : forall tasks, Forall gtask_ok tasks ->
  forall i, (i < length tasks)%nat -> gtask_ok (nth i tasks gdflt).
Proof. intros tasks H i Hi. rewrite Forall_forall in H. apply H. apply nth_In. exact Hi. Qed.

Lemma gtasks_ok_wf : forall tasks, Forall gtask_ok tasks ->
  forall i, (i < length tasks)%nat -> wf_ab (fst (nth i tasks gdflt)) /\ wf_cm (snd (nth i tasks gdflt)).
Proof. intros tasks H i Hi. destruct (gtasks_ok_nth tasks H i Hi) as (H1 & _ & H3 & _). split; assumption. Qed.

(* a task set that has a job at all has a positive aggregate request bound on windows of length one *)
Lemma gjob_sn1_pos : forall tasks jobs, Forall gtask_ok tasks ->
  respects_gcurves tasks jobs -> respects_cost_models tasks jobs ->
  forall k, (k < length jobs)%nat -> 0 < sn (grb_of (nth (j_task (nth k jobs (mkJob 0 0 0))) tasks gdflt)) 1.
Proof.
  intros tasks jobs Hok Hc Hcm k Hk.
  destruct (gjob_task tasks jobs Hcm k Hk) as (Ht & Hc1).
  set (i := j_task (nth k jobs (mkJob 0 0 0))) in *.
  destruct (gtasks_ok_wf tasks Hok i Ht) as (Hwa & Hwc).
  assert (Hb := gtask_workload_bounded tasks jobs Hc Hcm i (arr jobs k) 1 Ht Hwa Hwc).
  change (N.of_nat 1) with 1 in Hb.
  assert (Hone : (cost jobs k <= workP jobs (task_in_win jobs i (arr jobs k) 1))%nat).
  { unfold workP.
    eapply Nat.le_trans; [|apply (sumn_ge_term _ (fun k' => if task_in_win jobs i (arr jobs k) 1 k' then cost jobs k' else 0%nat) k Hk)].
    cbn beta. unfold task_in_win. fold i. rewrite Nat.eqb_refl, Nat.leb_refl. cbn [andb].
    destruct (Nat.ltb_spec (arr jobs k) (arr jobs k + 1)); lia. }
  lia.
Qed.

Lemma sumN_ge_In : forall {A} (g : A -> N) l x, In x l -> g x <= sumN (map g l).
Proof.
  intros A g l x. induction l as [|y l IH]; intros Hin; [destruct Hin|].
  cbn [map sumN fold_right]. fold (sumN (map g l)). destruct Hin as [->|Hin]; [lia|]. specialize (IH Hin). lia.
Qed.

Theorem fifo_rta_sound_gen : forall dbg (tasks : list gtask) limit R jobs sched,
  Forall gtask_ok tasks ->
  e_fifo dbg (Agg (map grb_of tasks)) limit = ROk R ->
  valid jobs sched -> work_conserving jobs sched -> fifo_policy jobs sched ->
  respects_gcurves tasks jobs -> respects_cost_models tasks jobs ->
  forall k, (k < length jobs)%nat -> completes_within jobs sched k (N.to_nat R).
Proof.
  intros dbg tasks limit R jobs sched Hok He Hv Hwc Hf Hc Hcm k Hk.
  assert (Hrb := gtasks_ok_agg tasks Hok).
  set (rb := Agg (map grb_of tasks)) in *.
  assert (H1 : 0 < sn rb 1).
  { pose proof (gjob_sn1_pos tasks jobs Hok Hc Hcm k Hk) as Hp.
    destruct (gjob_task tasks jobs Hcm k Hk) as (Ht & _).
    eapply N.lt_le_trans; [exact Hp|]. unfold rb. cbn [sn]. rewrite map_map.
    apply (sumN_ge_In (fun tk => sn (grb_of tk) 1)). apply nth_In. exact Ht. }
  rewrite (e_fifo_exhaustive dbg rb limit Hrb H1) in He.
  unfold exh_fifo in He. destruct (least_fix limit (sn rb)) as [L|] eqn:HL; [|discriminate].
  assert (HR : maxN (map (fun A => sn rb (A + 1) - A) (rangeN 0 L)) = R)
    by (injection He as HR'; exact HR').
  apply least_fix_spec in HL. destruct HL as (HL1 & _ & HLfix & _).
  unfold completes_within.
  apply (fifo_response_time_bound jobs sched Hv Hwc Hf
           (fun d => N.to_nat (sn rb (N.of_nat d)))) with (L := N.to_nat L).
  - intros t1 d.
    assert (H := gtotal_workload_bounded tasks jobs Hc Hcm (gtasks_ok_wf tasks Hok) t1 d).
    fold rb in H. change (FifoSound.in_win jobs t1 d) with (Jlfp2.in_win jobs t1 d). lia.
  - lia.
  - rewrite Nnat.N2Nat.id. lia.
  - intros A HA.
    assert (Hin : In (sn rb (N.of_nat A + 1) - N.of_nat A)
                     (map (fun A => sn rb (A + 1) - A) (rangeN 0 L))).
    { apply (in_map (fun A => sn rb (A + 1) - A)). apply in_rangeN. lia. }
    apply ExhFP.maxN_ub in Hin. rewrite HR in Hin.
    replace (N.of_nat (A + 1)) with (N.of_nat A + 1) by lia. lia.
  - exact Hk.
Qed.
Print Assumptions fifo_rta_sound_gen.

(* the scalar theorem (C03) is the special case *)
Corollary fifo_rta_sound_from_gen : forall dbg (tasks : list task) limit R jobs sched,
  Forall fifo_task_ok tasks ->
  e_fifo dbg (Agg (map rb_of tasks)) limit = ROk R ->
  valid jobs sched -> work_conserving jobs sched -> fifo_policy jobs sched ->
  respects_curves tasks jobs -> respects_costs tasks jobs ->
  forall k, (k < length jobs)%nat -> completes_within jobs sched k (N.to_nat R).
Proof.
  intros dbg tasks limit R jobs sched Hok He Hv Hwc Hf Hc Hcost.
  apply (fifo_rta_sound_gen dbg (map gtask_of tasks) limit R jobs sched); try assumption.
  - rewrite Forall_forall in *. intros tk Htk. apply in_map_iff in Htk. destruct Htk as (tk' & <- & Hin).
    destruct (Hok tk' Hin) as (H1 & H2 & H3). unfold gtask_ok, gtask_of. cbn [fst snd wf_cm positive_cm]. auto.
  - rewrite map_map. exact He.
  - apply scalar_respects_gcurves. exact Hc.
  - apply scalar_respects_cost_models. exact Hcost.
Qed.
Print Assumptions fifo_rta_sound_from_gen.

(* ------------------------------------------------------------------------------------------ *)
(* 4. fixed priority                                                                           *)
(* ------------------------------------------------------------------------------------------ *)
(* Which per-job facts of the scalar proof are about the scalar WCET?  The busy-window theorem
   [jlfp_response_time_bound2] needs, for the job j under analysis, a run-to-completion threshold
   rtct and a remainder rem with  cost j <= rtct + rem,  "from rtct units of service on j is not
   preempted", and  workload of the OTHER hep jobs + rtct <= tua (A + 1) - rem.
   * fully preemptive / floating non-preemptive (rem = 0): the scalar proof takes rtct = C and uses
     cost j <= C.  Nothing scalar is needed: take rtct = cost j (the ACTUAL cost); then j itself is
     one of the jobs of task i released in [t1, a + 1), so "others + cost j" is the workload of that
     window, bounded by the key lemma.  These analyses generalise completely.
   * fully non-preemptive / limited preemptive (rem = C - 1 resp. last - 1): the entry points take the
     task under analysis as arrival bound + scalar C, and rem is defined from C; the scalar argument
     (others + C <= C * na (A + 1)) is kept for task i, the interfering tasks are general. *)
Section FPGen.
  Variable tasks : list gtask.
  Variable i : nat.                           (* index of the task under analysis *)
  Variable prio : nat -> nat.                 (* task priorities: smaller = higher *)
  Hypothesis Hi : (i < length tasks)%nat.
  Hypothesis tasks_ok : Forall gtask_ok tasks.
  Hypothesis prio_inj : forall a b, (a < length tasks)%nat -> (b < length tasks)%nat -> prio a = prio b -> a = b.
  Definition ghp_idx : list nat := filter (fun k => (prio k <? prio i)%nat) (seq 0 (length tasks)).
  Definition ghp_rbs : list RB := map (fun k => grb_of (nth k tasks gdflt)) ghp_idx.
  Definition gtua : RB := grb_of (nth i tasks gdflt).

  Variables (jobs : list job) (sched : nat -> option nat) (pp : nat -> nat -> bool).
  Hypothesis Hvalid : valid jobs sched.
  Hypothesis Hwc : work_conserving jobs sched.
  Hypothesis Hcurves : respects_gcurves tasks jobs.
  Hypothesis Hcm : respects_cost_models tasks jobs.
  Hypothesis Hpp : pp_sane jobs pp.
  Hypothesis Hlegal : legal jobs sched (fp_hp jobs prio) pp.

  Variable B : N.
  Notation tsk k := (j_task (nth k jobs (mkJob 0 0 0))).
  Hypothesis Hseg_lp : forall k, (k < length jobs)%nat -> (prio i < prio (tsk k))%nat ->
     segments_le jobs pp k (N.to_nat B + 1).

  Notation hepb := (FpSound.hepb i prio jobs).
  Notation hpw := (FpSound.hpw i prio jobs).
  Let job_facts := gjob_task tasks jobs Hcm.
  Let twf := gtasks_ok_wf tasks tasks_ok.

  Local Open Scope nat_scope.

  (* bounded priority inversion (as FpSound.fp_block; only "every job belongs to a task" is used) *)
  Lemma gfp_block : forall j, j < length jobs -> tsk j = i ->
    forall t k k', sched t = Some k -> hepb (arr jobs j) k = false ->
      pending jobs sched k' t -> hepb (arr jobs j) k' = true -> service sched j t < cost jobs j ->
      exists t0, t0 < t /\ t <= t0 + N.to_nat B /\
        (forall k'', pending jobs sched k'' t0 -> hepb (arr jobs j) k'' = false).
  Proof.
    intros j Hj Htj t k k' Ek Hk Hk' Hhk' Hinc.
    destruct (last_decision sched pp t k Ek) as (t0 & Ht0 & Hdec & Hrun).
    destruct (Hvalid _ _ Ek) as (Hkn & Hka & _).
    destruct (job_facts k Hkn) as (Hkt & _).
    assert (E0 : sched t0 = Some k) by (destruct Hdec; assumption).
    destruct (Hvalid _ _ E0) as (_ & Hka0 & _).
    unfold FpSound.hepb in Hk. apply orb_false_iff in Hk. destruct Hk as [Hk1 Hk2].
    apply Nat.ltb_ge in Hk1.
    destruct Hlegal as [_ Hb].
    destruct (Nat.eq_dec (prio (tsk k)) (prio i)) as [Heq|Hne].
    - exfalso. apply prio_inj in Heq; [|exact Hkt|exact Hi].
      rewrite Heq, Nat.eqb_refl in Hk2. cbn [andb] in Hk2. apply Nat.leb_gt in Hk2.
      apply (Hb t0 k j Hdec).
      + split; [exact Hj|]. split; [lia|].
        assert (service sched j t0 <= service sched j t) by (apply service_mono; lia). lia.
      + right. split; [congruence|exact Hk2].
    - assert (Hlow : prio i < prio (tsk k)) by lia.
      assert (Hnone : forall k'', pending jobs sched k'' t0 -> hepb (arr jobs j) k'' = false).
      { intros k'' Hp. destruct (hepb (arr jobs j) k'') eqn:Hh; [exfalso|reflexivity].
        apply (Hb t0 k k'' Hdec Hp). left. unfold FpSound.hepb in Hh.
        apply orb_true_iff in Hh. destruct Hh as [Hh|Hh]; [apply Nat.ltb_lt in Hh; lia|].
        apply andb_true_iff in Hh. destruct Hh as [Hh _]. apply Nat.eqb_eq in Hh. rewrite Hh. exact Hlow. }
      exists t0. split.
      + destruct (Nat.eq_dec t0 t) as [->|]; [|lia]. rewrite (Hnone _ Hk') in Hhk'. discriminate.
      + split; [|exact Hnone].
        apply (np_run_le jobs sched (fp_hp jobs prio) pp Hvalid Hpp Hlegal t k t0 (N.to_nat B) Ht0 Hdec Hrun Ek).
        apply Hseg_lp; assumption.
  Qed.

  Lemma ghepb_cases : forall a k, hepb a k = true ->
    (prio (tsk k) <? prio i) = true \/ (tsk k = i /\ arr jobs k <= a).
  Proof.
    intros a k H. unfold FpSound.hepb in H. apply orb_true_iff in H. destruct H as [H|H]; [left; exact H|right].
    apply andb_true_iff in H. destruct H as [H1 H2]. apply Nat.eqb_eq in H1. apply Nat.leb_le in H2. tauto.
  Qed.

  Lemma gsum_sn_hp : forall d,
    sum_sn ghp_rbs d = sumN (map (fun k => sn (grb_of (nth k tasks gdflt)) d) ghp_idx).
  Proof. intros d. unfold sum_sn, ghp_rbs. rewrite map_map. reflexivity. Qed.

  (* jobs of higher-priority tasks released in [t1, t1 + x) *)
  Lemma ghp_workload : forall t1 x, (N.of_nat (workP jobs (hpw t1 x)) <= sum_sn ghp_rbs (N.of_nat x))%N.
  Proof.
    intros t1 x. rewrite gsum_sn_hp. unfold ghp_idx.
    exact (gsel_workload tasks jobs Hcurves Hcm twf (fun k => prio k <? prio i) (fun _ => x) t1).
  Qed.

  Lemma gwf_hp_rbs : Forall wf_rb ghp_rbs.
  Proof.
    unfold ghp_rbs. apply Forall_forall. intros r Hr. apply in_map_iff in Hr. destruct Hr as (k & <- & Hk).
    unfold ghp_idx in Hk. apply filter_In in Hk. destruct Hk as [Hk _]. apply in_seq in Hk.
    cbn [grb_of wf_rb]. apply twf. lia.
  Qed.

  (* soundness of the exhaustive evaluation of the equations, for any request-bound function tuaf of
     task i, remainder rem and per-job threshold rtct with the three per-job facts *)
  Lemma gfp_exh_sound : forall (tuaf : N -> N) (rem : N) limit R j (rtct : nat),
    j < length jobs -> tsk j = i ->
    cost jobs j <= rtct + N.to_nat rem ->
    (forall t, rtct <= service sched j t -> service sched j t < cost jobs j -> sched t = Some j) ->
    (forall t1, t1 <= arr jobs j ->
       (N.of_nat (workP jobs (fun k => task_in_win jobs i t1 (arr jobs j - t1 + 1)%nat k && negb (k =? j)%nat))
        + N.of_nat rtct + rem <= tuaf (N.of_nat (arr jobs j - t1) + 1))%N) ->
    (forall t1 L, (N.of_nat (workP jobs (task_in_win jobs i t1 L)) <= tuaf (N.of_nat L))%N) ->
    exh_fp B rem tuaf (sum_sn ghp_rbs) limit = ROk R ->
    completes_within jobs sched j (N.to_nat R).
  Proof.
    intros tuaf rem limit R j rtct Hj Htj Hcr Hrtc Hown Hbusy He.
    destruct (exh_fp_ok_inv _ _ _ _ _ _ He) as (L & HL1 & HLfix & HRr).
    destruct (job_facts j Hj) as (_ & Hc1).
    unfold completes_within.
    refine (jlfp_response_time_bound2 jobs sched Hvalid Hwc j Hj _ (hepb (arr jobs j)) _
              (N.to_nat B) (gfp_block j Hj Htj)
              rtct (N.to_nat rem)
              (fun A x => N.to_nat ((tuaf (N.of_nat A + 1) - rem) + sum_sn ghp_rbs (N.of_nat x))%N)
              (N.to_nat L) (N.to_nat (sum_sn ghp_rbs L + tuaf L)%N) (N.to_nat R)
              Hcr Hrtc _ _ _ _ _).
    - lia.
    - unfold FpSound.hepb. rewrite Htj, Nat.eqb_refl, Nat.leb_refl. cbn [andb]. apply orb_true_r.
    - (* the interference bound *)
      intros t1 x Ht1.
      assert (H1 := workP_le_split jobs
                      (fun k => hepb (arr jobs j) k && Jlfp2.in_win jobs t1 x k && negb (k =? j))
                      (hpw t1 x)
                      (fun k => task_in_win jobs i t1 (arr jobs j - t1 + 1) k && negb (k =? j))).
      assert (H2 := ghp_workload t1 x).
      assert (H3 := Hown t1 Ht1).
      assert (H1' := H1 ltac:(
        intros k Hk HP; apply andb_true_iff in HP; destruct HP as [HP Hn];
        apply andb_true_iff in HP; destruct HP as [Hh Hw];
        destruct (ghepb_cases _ _ Hh) as [Hp|[Ht Ha]];
        [left; unfold FpSound.hpw; rewrite Hp, Hw; reflexivity|right];
        rewrite Hn, andb_true_r; unfold task_in_win; unfold Jlfp2.in_win in Hw;
        apply andb_true_iff in Hw; destruct Hw as [Hw1 Hw2];
        rewrite Ht, Nat.eqb_refl, Hw1; cbn [andb]; apply Nat.ltb_lt; apply Nat.leb_le in Hw1; lia)).
      clear H1. lia.
    - lia.
    - (* the busy-window bound *)
      intros t1.
      assert (H1 := workP_le_split jobs (fun k => hepb (arr jobs j) k && Jlfp2.in_win jobs t1 (N.to_nat L) k)
                      (hpw t1 (N.to_nat L)) (task_in_win jobs i t1 (N.to_nat L))).
      assert (H2 := ghp_workload t1 (N.to_nat L)).
      assert (H3 := Hbusy t1 (N.to_nat L)).
      assert (H1' := H1 ltac:(
        intros k Hk HP; apply andb_true_iff in HP; destruct HP as [Hh Hw];
        destruct (ghepb_cases _ _ Hh) as [Hp|[Ht Ha]];
        [left; unfold FpSound.hpw; rewrite Hp, Hw; reflexivity|right];
        unfold task_in_win; unfold Jlfp2.in_win in Hw; rewrite Ht, Nat.eqb_refl; exact Hw)).
      rewrite Nnat.N2Nat.id in H2, H3. lia.
    - lia.
    - intros A HA. destruct (HRr (N.of_nat A) ltac:(lia)) as (AF & H1 & H2 & H3).
      exists (N.to_nat AF). rewrite Nnat.N2Nat.id. split; [lia|]. split; lia.
  Qed.

  (* ---- rem = 0: fully preemptive and floating non-preemptive, any cost model for task i ---- *)
  Lemma gown_workload : forall j, j < length jobs -> tsk j = i -> forall t1, t1 <= arr jobs j ->
    (N.of_nat (workP jobs (fun k => task_in_win jobs i t1 (arr jobs j - t1 + 1)%nat k && negb (k =? j)%nat))
     + N.of_nat (cost jobs j) + 0 <= sn gtua (N.of_nat (arr jobs j - t1) + 1))%N.
  Proof.
    intros j Hj Htj t1 Ht1. set (d := arr jobs j - t1 + 1).
    destruct (twf i Hi) as (Hwa & Hwcm).
    assert (Hb := gtask_workload_bounded tasks jobs Hcurves Hcm i t1 d Hi Hwa Hwcm). fold gtua in Hb.
    replace (N.of_nat (arr jobs j - t1) + 1)%N with (N.of_nat d) by (unfold d; lia).
    assert (Hw : workP jobs (fun k => task_in_win jobs i t1 d k && negb (k =? j)) + cost jobs j
                 <= workP jobs (task_in_win jobs i t1 d)).
    { unfold workP. rewrite <- (sumn_pick (length jobs) j (cost jobs j) Hj) at 1. rewrite <- sumn_add.
      apply sumn_le. intros k Hk. destruct (Nat.eqb_spec j k) as [<-|Hne].
      - rewrite Nat.eqb_refl. cbn [negb]. rewrite andb_false_r.
        assert (E : task_in_win jobs i t1 d j = true).
        { unfold task_in_win. rewrite Htj, Nat.eqb_refl. cbn [andb].
          apply andb_true_iff. split; [apply Nat.leb_le|apply Nat.ltb_lt]; unfold d; lia. }
        rewrite E. lia.
      - destruct (Nat.eqb_spec k j) as [Heq|_]; [congruence|]. cbn [negb]. rewrite andb_true_r. lia. }
    lia.
  Qed.

  Theorem gfp_rem0_sound : forall limit R,
    exh_fp B 0 (sn gtua) (sum_sn ghp_rbs) limit = ROk R ->
    forall k, k < length jobs -> tsk k = i -> completes_within jobs sched k (N.to_nat R).
  Proof.
    intros limit R He j Hj Htj.
    apply (gfp_exh_sound (sn gtua) 0%N limit R j (cost jobs j) Hj Htj).
    - change (N.to_nat 0) with 0. lia.
    - intros t H1 H2. lia.
    - apply gown_workload; assumption.
    - intros t1 L. destruct (twf i Hi) as (Hwa & Hwcm).
      apply (gtask_workload_bounded tasks jobs Hcurves Hcm i t1 L Hi Hwa Hwcm).
    - exact He.
  Qed.

  Lemma gtua_pos : forall k, k < length jobs -> tsk k = i -> (0 < sn gtua 1)%N.
  Proof.
    intros k Hk Htk. pose proof (gjob_sn1_pos tasks jobs tasks_ok Hcurves Hcm k Hk) as H.
    rewrite Htk in H. exact H.
  Qed.
End FPGen.
Print Assumptions gfp_exh_sound.
Print Assumptions gfp_rem0_sound.

Section FPNamedGen.
  Variable tasks : list gtask.
  Variable i : nat.
  Variable prio : nat -> nat.
  Hypothesis Hi : (i < length tasks)%nat.
  Hypothesis tasks_ok : Forall gtask_ok tasks.
  Hypothesis prio_inj : forall a b, (a < length tasks)%nat -> (b < length tasks)%nat -> prio a = prio b -> a = b.
  Variables (jobs : list job) (sched : nat -> option nat) (pp : nat -> nat -> bool).
  Hypothesis Hvalid : valid jobs sched.
  Hypothesis Hwc : work_conserving jobs sched.
  Hypothesis Hcurves : respects_gcurves tasks jobs.
  Hypothesis Hcm : respects_cost_models tasks jobs.
  Hypothesis Hpp : pp_sane jobs pp.
  Hypothesis Hlegal : legal jobs sched (fp_hp jobs prio) pp.
  Notation tsk k := (j_task (nth k jobs (mkJob 0 0 0))).
  Notation tua := (gtua tasks i).
  Notation hps := (ghp_rbs tasks i prio).

  (* fixed_priority::floating_nonpreemptive with request bounds of arbitrary cost models *)
  Theorem fp_fnp_sound_gen : forall dbg B limit R,
    (forall k, (k < length jobs)%nat -> (prio i < prio (tsk k))%nat -> segments_le jobs pp k (N.to_nat B + 1)) ->
    e_fp_fnp dbg tua B hps limit = ROk R ->
    forall k, (k < length jobs)%nat -> tsk k = i -> completes_within jobs sched k (N.to_nat R).
  Proof.
    intros dbg B limit R Hseg He k Hk Htk.
    rewrite e_fp_fnp_exhaustive in He.
    - exact (gfp_rem0_sound tasks i prio Hi tasks_ok prio_inj jobs sched pp Hvalid Hwc Hcurves Hcm Hpp Hlegal
               B Hseg limit R He k Hk Htk).
    - apply gtask_ok_rb. apply gtasks_ok_nth; assumption.
    - eapply gwf_hp_rbs; eassumption.
    - eapply gtua_pos; eassumption.
  Qed.

  (* fixed_priority::fully_preemptive with request bounds of arbitrary cost models *)
  Theorem fp_fp_sound_gen : forall dbg limit R,
    fully_preemptive pp ->
    e_fp_fp dbg tua hps limit = ROk R ->
    forall k, (k < length jobs)%nat -> tsk k = i -> completes_within jobs sched k (N.to_nat R).
  Proof.
    intros dbg limit R Hfp He k Hk Htk.
    rewrite e_fp_fp_exhaustive in He.
    - refine (gfp_rem0_sound tasks i prio Hi tasks_ok prio_inj jobs sched pp Hvalid Hwc Hcurves Hcm Hpp Hlegal
               0 _ limit R He k Hk Htk).
      intros k' Hk' _ s _ Hs. exists (S s). rewrite Hfp. change (N.to_nat 0) with 0%nat. repeat split; lia.
    - apply gtask_ok_rb. apply gtasks_ok_nth; assumption.
    - eapply gwf_hp_rbs; eassumption.
    - eapply gtua_pos; eassumption.
  Qed.
End FPNamedGen.
Print Assumptions fp_fp_sound_gen.
Print Assumptions fp_fnp_sound_gen.

(* ------------------------------------------------------------------------------------------ *)
(* 5. EDF                                                                                      *)
(* ------------------------------------------------------------------------------------------ *)
Section EDFGen.
  Variable tasks : list gtask.
  Variable dl : nat -> nat.                   (* relative deadline per task index *)
  Variable i : nat.                           (* index of the task under analysis *)
  Hypothesis Hi : (i < length tasks)%nat.
  Hypothesis tasks_ok : Forall gtask_ok tasks.
  Notation D := (N.of_nat (dl i)).

  (* the other tasks, in index order, with their maximum non-preemptive segment lengths *)
  Definition gother_idx : list nat := filter (fun k => negb (k =? i)%nat) (seq 0 (length tasks)).
  Variable seg : nat -> N.
  Definition gtriple (k : nat) : RB * N * N := (grb_of (nth k tasks gdflt), N.of_nat (dl k), seg k).
  Definition gothers3 : list (RB * N * N) := map gtriple gother_idx.
  Definition gothers : list edf_other := map other_of_rb gothers3.

  Variables (jobs : list job) (sched : nat -> option nat) (pp : nat -> nat -> bool).
  Hypothesis Hvalid : valid jobs sched.
  Hypothesis Hwc : work_conserving jobs sched.
  Hypothesis Hcurves : respects_gcurves tasks jobs.
  Hypothesis Hcm : respects_cost_models tasks jobs.
  Hypothesis Hpp : pp_sane jobs pp.
  Hypothesis Hlegal : legal jobs sched (edf_hp jobs dl) pp.

  Notation tsk k := (j_task (nth k jobs (mkJob 0 0 0))).
  Hypothesis Hseg : forall k, (k < length jobs)%nat -> tsk k <> i ->
     segments_le jobs pp k (N.to_nat (seg (tsk k))).

  Notation hepb := (EdfSound.hepb dl i jobs).
  Notation ow := (EdfSound.ow dl i jobs).
  Let job_facts := gjob_task tasks jobs Hcm.
  Let twf := gtasks_ok_wf tasks tasks_ok.

  Lemma gin_others : forall o, (o < length tasks)%nat -> o <> i -> In (other_of_rb (gtriple o)) gothers.
  Proof.
    intros o Ho Hne. unfold gothers, gothers3. apply in_map. apply in_map. unfold gother_idx. apply filter_In.
    split; [apply in_seq; lia|]. destruct (Nat.eqb_spec o i); [contradiction|reflexivity].
  Qed.

  Local Open Scope nat_scope.

  (* offset-dependent bounded priority inversion (as EdfSound.edf_block) *)
  Lemma gedf_block : forall j, j < length jobs -> tsk j = i ->
    forall t1 t k, quiet jobs sched (hepb (arr jobs j)) t1 -> t1 <= arr jobs j -> t1 <= t ->
      sched t = Some k -> hepb (arr jobs j) k = false -> service sched j t < cost jobs j ->
      (forall u, t1 <= u <= t -> exists k', pending jobs sched k' u /\ hepb (arr jobs j) k' = true) ->
      t < t1 + N.to_nat (edf_blocking true D gothers (N.of_nat (arr jobs j - t1))).
  Proof.
    intros j Hj Htj t1 t k _ Ht1 Ht Ek Hk Hinc Hhp.
    destruct (last_decision sched pp t k Ek) as (t0 & Ht0 & Hdec & Hrun).
    destruct (Hvalid _ _ Ek) as (Hkn & _ & _).
    destruct (job_facts k Hkn) as (Hkt & Hkc).
    assert (E0 : sched t0 = Some k) by (destruct Hdec; assumption).
    destruct (Hvalid _ _ E0) as (_ & Hka0 & _).
    unfold EdfSound.hepb in Hk. apply Nat.leb_gt in Hk.
    destruct Hlegal as [_ Hb].
    assert (Hnone : forall k'', pending jobs sched k'' t0 -> hepb (arr jobs j) k'' = false).
    { intros k'' Hp. destruct (hepb (arr jobs j) k'') eqn:Hh; [exfalso|reflexivity].
      apply (Hb t0 k k'' Hdec Hp). unfold edf_hp. unfold EdfSound.hepb in Hh. apply Nat.leb_le in Hh. lia. }
    assert (Ht01 : t0 < t1).
    { destruct (Nat.lt_ge_cases t0 t1) as [|Hge]; [assumption|exfalso].
      destruct (Hhp t0 ltac:(lia)) as (k' & Hp' & Hh'). rewrite (Hnone _ Hp') in Hh'. discriminate. }
    assert (Hne : tsk k <> i).
    { intros Heq. rewrite Heq in Hk. lia. }
    assert (Hsegk := Hseg k Hkn Hne).
    pose proof (gjob_sn1_pos tasks jobs tasks_ok Hcurves Hcm k Hkn) as Hsn1.
    set (o := tsk k) in *.
    destruct (N.eq_dec (seg o) 0) as [Hs0|Hs0].
    { exfalso. rewrite Hs0 in Hsegk. change (N.to_nat 0) with 0 in Hsegk.
      destruct (Hsegk 0 (proj1 (Hpp k)) ltac:(lia)) as (s' & H1 & H2 & _). lia. }
    assert (Hrunle : t <= t0 + N.to_nat (seg o - 1)).
    { apply (np_run_le jobs sched (edf_hp jobs dl) pp Hvalid Hpp Hlegal t k t0 (N.to_nat (seg o - 1)) Ht0 Hdec Hrun Ek).
      replace (N.to_nat (seg o - 1) + 1) with (N.to_nat (seg o)) by lia. exact Hsegk. }
    assert (Hub : (seg o - 1 <= edf_blocking true D gothers (N.of_nat (arr jobs j - t1)))%N).
    { unfold edf_blocking. apply ExhFP.maxN_ub.
      apply (in_map (fun o' => (o_seg o' - 1)%N) _ (other_of_rb (gtriple o))).
      apply filter_In. split; [apply gin_others; assumption|].
      cbn [gtriple other_of_rb o_dl o_rbf]. apply andb_true_iff. split.
      - apply N.ltb_lt. lia.
      - apply N.ltb_lt. exact Hsn1. }
    lia.
  Qed.

  (* jobs of the other tasks released in [t1, t1 + min x (A + 1 + D - D_o)) *)
  Lemma gother_workload : forall A t1 x,
    (N.of_nat (workP jobs (ow A t1 x)) <= edf_hep D gothers (N.of_nat A) (N.of_nat x))%N.
  Proof.
    intros A t1 x.
    assert (H := gsel_workload tasks jobs Hcurves Hcm twf (fun o => negb (o =? i))
                   (fun o => min x (A + 1 + dl i - dl o)) t1).
    unfold edf_hep, gothers, gothers3. rewrite !map_map. fold gother_idx in H.
    erewrite map_ext; [exact H|]. intros o. cbn [gtriple other_of_rb o_rbf o_dl]. cbv beta.
    f_equal. lia.
  Qed.

  Lemma gothers_bw : forall t1 L,
    (N.of_nat (workP jobs (fun k => negb (tsk k =? i)%nat && Jlfp2.in_win jobs t1 L k))
     <= sumN (map (fun o => o_rbf o (N.of_nat L)) gothers))%N.
  Proof.
    intros t1 L.
    assert (H := gsel_workload tasks jobs Hcurves Hcm twf (fun o => negb (o =? i)) (fun _ => L) t1).
    unfold gothers, gothers3. rewrite !map_map. fold gother_idx in H. exact H.
  Qed.

  Lemma gothers_ok : forall o, In o gothers -> ExhFP.mono (o_rbf o) /\ steps_exact (o_rbf o) (o_steps o).
  Proof.
    apply others_rb_ok. unfold gothers3. apply Forall_forall. intros x Hx. apply in_map_iff in Hx.
    destruct Hx as (k & <- & Hk). unfold gother_idx in Hk. apply filter_In in Hk. destruct Hk as [Hk _].
    apply in_seq in Hk. cbn [gtriple fst]. apply gtask_ok_rb. apply gtasks_ok_nth; [exact tasks_ok|lia].
  Qed.

  (* soundness of the exhaustive evaluation, for any request-bound function tuaf of task i, remainder
     rem and per-job threshold rtct with the three per-job facts (cf. gfp_exh_sound) *)
  Lemma gedf_exh_sound : forall (tuaf : N -> N) (rem : N) limit R j (rtct : nat),
    j < length jobs -> tsk j = i ->
    cost jobs j <= rtct + N.to_nat rem ->
    (forall t, rtct <= service sched j t -> service sched j t < cost jobs j -> sched t = Some j) ->
    (forall t1, t1 <= arr jobs j ->
       (N.of_nat (workP jobs (fun k => task_in_win jobs i t1 (arr jobs j - t1 + 1)%nat k && negb (k =? j)%nat))
        + N.of_nat rtct + rem <= tuaf (N.of_nat (arr jobs j - t1) + 1))%N) ->
    (forall t1 L, (N.of_nat (workP jobs (task_in_win jobs i t1 L)) <= tuaf (N.of_nat L))%N) ->
    exh_edf true rem tuaf D (map other_triple gothers) limit = ROk R ->
    completes_within jobs sched j (N.to_nat R).
  Proof.
    intros tuaf rem limit R j rtct Hj Htj Hcr Hrtc Hown Hbusy He.
    rewrite exh_edf_eq in He.
    destruct (exhaustive_ok_inv _ _ _ _ _ He) as (L & HL1 & HLfix & HRr).
    destruct (job_facts j Hj) as (_ & Hc1).
    unfold completes_within.
    assert (hep_j : hepb (arr jobs j) j = true).
    { unfold EdfSound.hepb. rewrite Htj. apply Nat.leb_refl. }
    refine (jlfp_response_time_bound3 jobs sched Hvalid Hwc j Hj _ (hepb (arr jobs j)) hep_j
              (fun A => N.to_nat (edf_blocking true D gothers (N.of_nat A))) (gedf_block j Hj Htj)
              rtct (N.to_nat rem) Hcr Hrtc
              (fun A x => N.to_nat ((tuaf (N.of_nat A + 1) - rem)
                                    + edf_hep D gothers (N.of_nat A) (N.of_nat x))%N)
              _
              (N.to_nat L) _ (N.to_nat R) _).
    - lia.
    - (* the interference bound *)
      intros t1 x Ht1.
      set (a := arr jobs j) in *. set (A := a - t1).
      assert (H1 := workP_le_split jobs
                      (fun k => hepb a k && Jlfp2.in_win jobs t1 x k && negb (k =? j))
                      (ow A t1 x)
                      (fun k => task_in_win jobs i t1 (A + 1) k && negb (k =? j))).
      assert (H2 := gother_workload A t1 x).
      assert (H3 := Hown t1 Ht1). fold A in H3.
      assert (H1' : workP jobs (fun k => hepb a k && Jlfp2.in_win jobs t1 x k && negb (k =? j))
                    <= workP jobs (ow A t1 x)
                       + workP jobs (fun k => task_in_win jobs i t1 (A + 1) k && negb (k =? j))).
      { apply H1. intros k Hk HP. apply andb_true_iff in HP. destruct HP as [HP Hn].
        apply andb_true_iff in HP. destruct HP as [Hh Hw].
        unfold EdfSound.hepb in Hh. apply Nat.leb_le in Hh.
        unfold Jlfp2.in_win in Hw. apply andb_true_iff in Hw. destruct Hw as [Hw1 Hw2].
        apply Nat.leb_le in Hw1. apply Nat.ltb_lt in Hw2.
        destruct (Nat.eqb_spec (tsk k) i) as [Ht|Ht].
        - right. rewrite Hn, andb_true_r. unfold task_in_win. rewrite Ht, Nat.eqb_refl. cbn [andb].
          rewrite Ht in Hh.
          apply andb_true_iff. split; [apply Nat.leb_le|apply Nat.ltb_lt]; unfold arr in *; lia.
        - left. unfold EdfSound.ow, Jlfp2.in_win. destruct (Nat.eqb_spec (tsk k) i) as [|_]; [contradiction|]. cbn [negb andb].
          apply andb_true_iff. split; [apply Nat.leb_le; exact Hw1|apply Nat.ltb_lt].
          unfold A. unfold arr in *. lia. }
      clear H1. lia.
    - (* the busy-window bound: the total busy window *)
      apply (total_busy_window_bound jobs sched Hvalid Hwc j Hj ltac:(lia) (hepb (arr jobs j)) (N.to_nat L)
               (N.to_nat (edf_bw_rhs tuaf gothers L))).
      + lia.
      + intros t1.
        assert (H1 := workP_le_split jobs (Jlfp2.in_win jobs t1 (N.to_nat L))
                        (fun k => negb (tsk k =? i) && Jlfp2.in_win jobs t1 (N.to_nat L) k)
                        (task_in_win jobs i t1 (N.to_nat L))).
        assert (H2 := gothers_bw t1 (N.to_nat L)).
        assert (H3 := Hbusy t1 (N.to_nat L)).
        assert (H1' := H1 ltac:(
          intros k Hk Hw; cbv beta; destruct (Nat.eqb_spec (tsk k) i) as [Ht|Ht];
          [right; unfold task_in_win; unfold Jlfp2.in_win in Hw; rewrite Ht, Nat.eqb_refl; exact Hw
          |left; cbn [negb andb]; exact Hw])).
        clear H1. rewrite Nnat.N2Nat.id in H2, H3. unfold edf_bw_rhs. lia.
      + lia.
    - intros A HA. destruct (HRr (N.of_nat A) ltac:(lia)) as (AF & H1 & H2 & H3).
      exists (N.to_nat AF). rewrite Nnat.N2Nat.id. unfold edf_rhs in H2.
      split; [lia|]. split; lia.
  Qed.

  Notation gtua := (gtua tasks i).

  (* rem = 0: floating non-preemptive (and fully preemptive), any cost model for task i *)
  Theorem gedf_rem0_sound : forall limit R,
    exh_edf true 0 (sn gtua) D (map other_triple gothers) limit = ROk R ->
    forall k, k < length jobs -> tsk k = i -> completes_within jobs sched k (N.to_nat R).
  Proof.
    intros limit R He j Hj Htj.
    apply (gedf_exh_sound (sn gtua) 0%N limit R j (cost jobs j) Hj Htj).
    - change (N.to_nat 0) with 0. lia.
    - intros t H1 H2. lia.
    - eapply gown_workload; eassumption.
    - intros t1 L. destruct (twf i Hi) as (Hwa & Hwcm).
      apply (gtask_workload_bounded tasks jobs Hcurves Hcm i t1 L Hi Hwa Hwcm).
    - exact He.
  Qed.
End EDFGen.
Print Assumptions gedf_exh_sound.
Print Assumptions gedf_rem0_sound.

Section EDFNamedGen.
  Variable tasks : list gtask.
  Variable dl : nat -> nat.
  Variable i : nat.
  Hypothesis Hi : (i < length tasks)%nat.
  Hypothesis tasks_ok : Forall gtask_ok tasks.
  Variables (jobs : list job) (sched : nat -> option nat) (pp : nat -> nat -> bool).
  Hypothesis Hvalid : valid jobs sched.
  Hypothesis Hwc : work_conserving jobs sched.
  Hypothesis Hcurves : respects_gcurves tasks jobs.
  Hypothesis Hcm : respects_cost_models tasks jobs.
  Hypothesis Hpp : pp_sane jobs pp.
  Hypothesis Hlegal : legal jobs sched (edf_hp jobs dl) pp.
  Notation tsk k := (j_task (nth k jobs (mkJob 0 0 0))).
  Notation tua := (gtua tasks i).
  Notation Di := (N.of_nat (dl i)).
  Notation rbk k := (grb_of (nth k tasks gdflt)).
  Notation oidx := (gother_idx tasks i).

  Lemma gothers3_ok : forall seg, Forall (fun o : RB * N * N => rb_steps_ok (fst (fst o))) (gothers3 tasks dl i seg).
  Proof.
    intros seg. unfold gothers3. apply Forall_forall. intros x Hx. apply in_map_iff in Hx.
    destruct Hx as (k & <- & Hk). unfold gother_idx in Hk. apply filter_In in Hk. destruct Hk as [Hk _].
    apply in_seq in Hk. cbn [gtriple fst]. apply gtask_ok_rb. apply gtasks_ok_nth; [exact tasks_ok|lia].
  Qed.

  (* edf::floating_nonpreemptive with request bounds of arbitrary cost models: the other tasks with
     their relative deadlines and maximum non-preemptive segment lengths *)
  Theorem edf_fnp_sound_gen : forall dbg (seg : nat -> N) limit R,
    (forall k, (k < length jobs)%nat -> tsk k <> i -> segments_le jobs pp k (N.to_nat (seg (tsk k)))) ->
    e_edf_fnp dbg tua Di (map (fun k => (rbk k, N.of_nat (dl k), seg k)) oidx) limit = ROk R ->
    forall k, (k < length jobs)%nat -> tsk k = i -> completes_within jobs sched k (N.to_nat R).
  Proof.
    intros dbg seg limit R Hseg He k Hk Htk.
    change (map (fun k => (rbk k, N.of_nat (dl k), seg k)) oidx) with (gothers3 tasks dl i seg) in He.
    rewrite e_edf_fnp_exhaustive in He.
    - rewrite <- others_rb_triples in He. fold (gothers tasks dl i seg) in He.
      exact (gedf_rem0_sound tasks dl i Hi tasks_ok seg jobs sched pp Hvalid Hwc Hcurves Hcm Hpp Hlegal Hseg
               limit R He k Hk Htk).
    - apply gtask_ok_rb. apply gtasks_ok_nth; assumption.
    - eapply gtua_pos; eassumption.
    - apply gothers3_ok.
  Qed.

  (* edf::fully_preemptive: no blocking term; it is the floating analysis with all segments 1 *)
  Theorem edf_fp_sound_gen : forall dbg limit R,
    fully_preemptive pp ->
    e_edf_fp dbg tua Di (map (fun k => (rbk k, N.of_nat (dl k))) oidx) limit = ROk R ->
    forall k, (k < length jobs)%nat -> tsk k = i -> completes_within jobs sched k (N.to_nat R).
  Proof.
    intros dbg limit R Hfp He.
    rewrite <- edf_fnp_segs1_is_fp in He. rewrite map_map in He. cbn [fst snd] in He.
    apply (edf_fnp_sound_gen dbg (fun _ => 1) limit R); [|exact He].
    intros k Hk _ s _ Hs. exists (S s). rewrite Hfp. change (N.to_nat 1) with 1%nat. repeat split; lia.
  Qed.
End EDFNamedGen.
Print Assumptions edf_fp_sound_gen.
Print Assumptions edf_fnp_sound_gen.

(* ------------------------------------------------------------------------------------------ *)
(* 4b / 5b. the variants whose entry points take the task under analysis as arrival bound +     *)
(* scalar WCET (fully non-preemptive, limited preemptive): task i scalar, interferers general   *)
(* ------------------------------------------------------------------------------------------ *)
Lemma skipn_nth : forall {A} (l : list A) p d, (p < length l)%nat -> exists tl, skipn p l = nth p l d :: tl.
Proof.
  intros A l. induction l as [|x l IH]; intros p d Hp; [cbn in Hp; lia|].
  destruct p as [|p]; [exists l; reflexivity|]. cbn [skipn nth]. apply IH. cbn [length] in Hp. lia.
Qed.

(* every single job is a block of length one *)
Lemma gjob_cost_le1 : forall tasks jobs, respects_cost_models tasks jobs ->
  forall k, (k < length jobs)%nat ->
  N.of_nat (cost jobs k) <= cost_of_jobs (snd (nth (j_task (nth k jobs (mkJob 0 0 0))) tasks gdflt)) 1.
Proof.
  intros tasks jobs [Hj Hb] k Hk. set (j := nth k jobs (mkJob 0 0 0)).
  assert (Hin : In j jobs) by (apply nth_In; exact Hk).
  destruct (Hj j Hin) as (Ht & _). destruct (Hb (j_task j) Ht) as (js & Hperm & _ & Hbb).
  assert (Hjs : In j js).
  { apply (Permutation_in _ (Permutation_sym Hperm)). unfold jobs_of. apply filter_In.
    split; [exact Hin|apply Nat.eqb_refl]. }
  destruct (In_nth js j (mkJob 0 0 0) Hjs) as (p & Hp & Hnth).
  specialize (Hbb p 1%nat ltac:(lia)). unfold block in Hbb.
  destruct (skipn_nth js p (mkJob 0 0 0) Hp) as (tl & Hsk). rewrite Hsk, Hnth in Hbb.
  unfold total_cost in Hbb. cbn [firstn map list_sum fold_right] in Hbb.
  change (N.of_nat 1) with 1 in Hbb. unfold cost. fold j. lia.
Qed.

Section ScalarOwn.
  Variable tasks : list gtask.
  Variable i : nat.
  Hypothesis Hi : (i < length tasks)%nat.
  Hypothesis tasks_ok : Forall gtask_ok tasks.
  Variables (ab : AB) (C : N).
  Hypothesis Hscalar : nth i tasks gdflt = (ab, Scalar C).
  Variable jobs : list job.
  Hypothesis Hcurves : respects_gcurves tasks jobs.
  Hypothesis Hcm : respects_cost_models tasks jobs.
  Notation tsk k := (j_task (nth k jobs (mkJob 0 0 0))).

  Lemma so_facts : wf_ab ab /\ steps_exact_class ab /\ 1 <= C.
  Proof.
    destruct (gtasks_ok_nth tasks tasks_ok i Hi) as (H1 & H2 & _ & H4). rewrite Hscalar in *.
    cbn [fst snd positive_cm] in *. auto.
  Qed.

  Lemma so_cost_le : forall k, (k < length jobs)%nat -> tsk k = i -> (cost jobs k <= N.to_nat C)%nat.
  Proof.
    intros k Hk Htk. pose proof (gjob_cost_le1 tasks jobs Hcm k Hk) as H.
    rewrite Htk, Hscalar in H. cbn [snd cost_of_jobs] in H. lia.
  Qed.

  Lemma so_na1_pos : forall k, (k < length jobs)%nat -> tsk k = i -> 0 < na ab 1.
  Proof.
    intros k Hk Htk. pose proof (gjob_sn1_pos tasks jobs tasks_ok Hcurves Hcm k Hk) as H.
    rewrite Htk, Hscalar in H. cbn [grb_of fst snd sn cost_of_jobs] in H. nia.
  Qed.

  Lemma so_busy : forall t1 L, N.of_nat (workP jobs (task_in_win jobs i t1 L)) <= C * na ab (N.of_nat L).
  Proof.
    intros t1 L. destruct (gtasks_ok_wf tasks tasks_ok i Hi) as (Hwa & Hwcm).
    pose proof (gtask_workload_bounded tasks jobs Hcurves Hcm i t1 L Hi Hwa Hwcm) as H.
    rewrite Hscalar in H. exact H.
  Qed.

  (* jobs of task i other than j released in [t1, arr j], plus a full WCET (as FpSound.tua_workload) *)
  Lemma so_own : forall j, (j < length jobs)%nat -> tsk j = i -> forall t1, (t1 <= arr jobs j)%nat ->
    N.of_nat (workP jobs (fun k => task_in_win jobs i t1 (arr jobs j - t1 + 1)%nat k && negb (k =? j)%nat)) + C
      <= C * na ab (N.of_nat (arr jobs j - t1) + 1).
  Proof.
    intros j Hj Htj t1 Ht1.
    set (d := (arr jobs j - t1 + 1)%nat).
    set (cnt := sumn (length jobs) (fun k => if task_in_win jobs i t1 d k then 1%nat else 0%nat)).
    assert (Hcnt : N.of_nat cnt <= na ab (N.of_nat d)).
    { unfold cnt. rewrite task_count_eq.
      pose proof (gtask_jobs_in_window_bounded tasks jobs Hcurves i t1 d Hi) as H.
      rewrite Hscalar in H. apply H. apply so_facts. }
    set (Cn := N.to_nat C).
    assert (Hw : (workP jobs (fun k => task_in_win jobs i t1 d k && negb (k =? j)%nat) + Cn <= Cn * cnt)%nat).
    { assert (Hpick := sumn_pick (length jobs) j Cn Hj).
      assert (Hsum : (sumn (length jobs) (fun k => (if task_in_win jobs i t1 d k && negb (k =? j)%nat then cost jobs k else 0)
                                                   + (if (j =? k)%nat then Cn else 0))
                     <= sumn (length jobs) (fun k => if task_in_win jobs i t1 d k then Cn else 0))%nat).
      { apply sumn_le. intros k Hk. destruct (Nat.eqb_spec j k) as [<-|Hne].
        - rewrite Nat.eqb_refl. cbn [negb]. rewrite andb_false_r.
          assert (E : task_in_win jobs i t1 d j = true).
          { unfold task_in_win. rewrite Htj, Nat.eqb_refl. cbn [andb].
            apply andb_true_iff. split; [apply Nat.leb_le|apply Nat.ltb_lt]; unfold d; lia. }
          rewrite E. lia.
        - destruct (Nat.eqb_spec k j) as [Heq|_]; [congruence|]. cbn [negb]. rewrite andb_true_r.
          destruct (task_in_win jobs i t1 d k) eqn:E; [|lia].
          unfold task_in_win in E. apply andb_true_iff in E. destruct E as [E _].
          apply andb_true_iff in E. destruct E as [E _]. apply Nat.eqb_eq in E.
          pose proof (so_cost_le k Hk E). unfold Cn. lia. }
      rewrite sumn_add, Hpick, sumn_scale in Hsum. exact Hsum. }
    apply N.le_trans with (C * N.of_nat cnt).
    - unfold Cn in Hw. fold d. nia.
    - apply N.mul_le_mono_l. replace (N.of_nat (arr jobs j - t1) + 1) with (N.of_nat d) by (unfold d; lia).
      exact Hcnt.
  Qed.
End ScalarOwn.

Section FPScalarTua.
  Variable tasks : list gtask.
  Variable i : nat.
  Variable prio : nat -> nat.
  Hypothesis Hi : (i < length tasks)%nat.
  Hypothesis tasks_ok : Forall gtask_ok tasks.
  Hypothesis prio_inj : forall a b, (a < length tasks)%nat -> (b < length tasks)%nat -> prio a = prio b -> a = b.
  Variables (ab : AB) (C : N).
  Hypothesis Hscalar : nth i tasks gdflt = (ab, Scalar C).
  Variables (jobs : list job) (sched : nat -> option nat) (pp : nat -> nat -> bool).
  Hypothesis Hvalid : valid jobs sched.
  Hypothesis Hwc : work_conserving jobs sched.
  Hypothesis Hcurves : respects_gcurves tasks jobs.
  Hypothesis Hcm : respects_cost_models tasks jobs.
  Hypothesis Hpp : pp_sane jobs pp.
  Hypothesis Hlegal : legal jobs sched (fp_hp jobs prio) pp.
  Notation tsk k := (j_task (nth k jobs (mkJob 0 0 0))).
  Notation hps := (ghp_rbs tasks i prio).

  (* fixed_priority::limited_preemptive: task i = (ab, Scalar C), interfering tasks general *)
  Theorem fp_lp_sound_gen : forall dbg B last limit R,
    1 <= last /\ last <= C ->
    (forall k, (k < length jobs)%nat -> (prio i < prio (tsk k))%nat -> segments_le jobs pp k (N.to_nat B + 1)) ->
    (forall k, (k < length jobs)%nat -> tsk k = i -> last_segment_starts_by jobs pp k (N.to_nat (C - last))) ->
    e_fp_lp dbg ab C last B hps limit = ROk R ->
    forall k, (k < length jobs)%nat -> tsk k = i -> completes_within jobs sched k (N.to_nat R).
  Proof.
    intros dbg B last limit R [Hl1 Hl2] Hseg Htua He k Hk Htk.
    assert (Hso : wf_ab ab /\ steps_exact_class ab /\ 1 <= C) by (eapply so_facts; eassumption).
    destruct Hso as (Hwa & Hcl & HC1).
    rewrite e_fp_lp_exhaustive in He; try assumption.
    2:{ eapply gwf_hp_rbs; eassumption. }
    2:{ eapply so_na1_pos; eassumption. }
    apply (gfp_exh_sound tasks i prio Hi tasks_ok prio_inj jobs sched pp Hvalid Hwc Hcurves Hcm Hpp Hlegal B Hseg
             (fun d => C * na ab d) (last - 1) limit R k (N.to_nat (C - last + 1)) Hk Htk).
    - assert (Hle : (cost jobs k <= N.to_nat C)%nat) by (eapply so_cost_le; eassumption). lia.
    - intros t Hs Hc.
      apply (runs_to_completion jobs sched (fp_hp jobs prio) pp Hvalid Hpp Hlegal k (N.to_nat (C - last))).
      + apply Htua; assumption.
      + lia.
      + exact Hc.
    - intros t1 Ht1.
      assert (Ho : N.of_nat (workP jobs (fun k' => task_in_win jobs i t1 (arr jobs k - t1 + 1)%nat k' && negb (k' =? k)%nat)) + C
                   <= C * na ab (N.of_nat (arr jobs k - t1) + 1)) by (eapply so_own; eassumption).
      lia.
    - eapply so_busy; eassumption.
    - exact He.
  Qed.

  (* fixed_priority::fully_nonpreemptive: B + 1 bounds the cost of every lower-priority job *)
  Theorem fp_np_sound_gen : forall dbg B limit R,
    fully_nonpreemptive jobs pp ->
    (forall k, (k < length jobs)%nat -> (prio i < prio (tsk k))%nat -> (cost jobs k <= N.to_nat B + 1)%nat) ->
    e_fp_np dbg ab C B hps limit = ROk R ->
    forall k, (k < length jobs)%nat -> tsk k = i -> completes_within jobs sched k (N.to_nat R).
  Proof.
    intros dbg B limit R Hnp HB He.
    assert (Hso : wf_ab ab /\ steps_exact_class ab /\ 1 <= C) by (eapply so_facts; eassumption).
    destruct Hso as (Hwa & Hcl & HC1).
    apply (fp_lp_sound_gen dbg B C limit R).
    - lia.
    - intros k Hk Hlow s Hs Hsc. rewrite Hnp in Hs.
      assert (Hs0 : s = 0%nat).
      { apply orb_true_iff in Hs. destruct Hs as [Hs|Hs]; apply Nat.eqb_eq in Hs; lia. }
      exists (cost jobs k). specialize (HB k Hk Hlow). rewrite Hnp, Nat.eqb_refl, orb_true_r.
      repeat split; lia.
    - intros k Hk Htk s Hs1 Hs2. rewrite Hnp.
      destruct (Nat.eqb_spec s 0) as [->|_]; [lia|]. destruct (Nat.eqb_spec s (cost jobs k)); [lia|reflexivity].
    - unfold e_fp_np, fp_np in He. unfold e_fp_lp, fp_lp.
      replace (1 <=? C) with true in He by (symmetry; apply N.leb_le; exact HC1).
      replace ((1 <=? C) && (C - 1 <=? C)) with true; [exact He|].
      symmetry. apply andb_true_iff. split; apply N.leb_le; lia.
  Qed.
End FPScalarTua.
Print Assumptions fp_lp_sound_gen.
Print Assumptions fp_np_sound_gen.

Section EDFScalarTua.
  Variable tasks : list gtask.
  Variable dl : nat -> nat.
  Variable i : nat.
  Hypothesis Hi : (i < length tasks)%nat.
  Hypothesis tasks_ok : Forall gtask_ok tasks.
  Variables (ab : AB) (C : N).
  Hypothesis Hscalar : nth i tasks gdflt = (ab, Scalar C).
  Variables (jobs : list job) (sched : nat -> option nat) (pp : nat -> nat -> bool).
  Hypothesis Hvalid : valid jobs sched.
  Hypothesis Hwc : work_conserving jobs sched.
  Hypothesis Hcurves : respects_gcurves tasks jobs.
  Hypothesis Hcm : respects_cost_models tasks jobs.
  Hypothesis Hpp : pp_sane jobs pp.
  Hypothesis Hlegal : legal jobs sched (edf_hp jobs dl) pp.
  Notation tsk k := (j_task (nth k jobs (mkJob 0 0 0))).
  Notation rbk k := (grb_of (nth k tasks gdflt)).

  (* edf::limited_preemptive: task i = (ab, Scalar C), the other tasks general *)
  Theorem edf_lp_sound_gen : forall dbg (seg : nat -> N) last limit R,
    1 <= last /\ last <= C ->
    (forall k, (k < length jobs)%nat -> tsk k <> i -> segments_le jobs pp k (N.to_nat (seg (tsk k)))) ->
    (forall k, (k < length jobs)%nat -> tsk k = i -> last_segment_starts_by jobs pp k (N.to_nat (C - last))) ->
    e_edf_lp dbg ab C (N.of_nat (dl i)) last
      (map (fun k => (rbk k, N.of_nat (dl k), seg k)) (gother_idx tasks i)) limit = ROk R ->
    forall k, (k < length jobs)%nat -> tsk k = i -> completes_within jobs sched k (N.to_nat R).
  Proof.
    intros dbg seg last limit R [Hl1 Hl2] Hseg Htua He k Hk Htk.
    assert (Hso : wf_ab ab /\ steps_exact_class ab /\ 1 <= C) by (eapply so_facts; eassumption).
    destruct Hso as (Hwa & Hcl & HC1).
    change (map (fun k => (rbk k, N.of_nat (dl k), seg k)) (gother_idx tasks i)) with (gothers3 tasks dl i seg) in He.
    rewrite e_edf_lp_exhaustive in He; try assumption.
    2:{ eapply so_na1_pos; eassumption. }
    2:{ eapply gothers3_ok; eassumption. }
    rewrite <- others_rb_triples in He. fold (gothers tasks dl i seg) in He.
    apply (gedf_exh_sound tasks dl i Hi tasks_ok seg jobs sched pp Hvalid Hwc Hcurves Hcm Hpp Hlegal Hseg
             (fun d => C * na ab d) (last - 1) limit R k (N.to_nat (C - last + 1)) Hk Htk).
    - assert (Hle : (cost jobs k <= N.to_nat C)%nat) by (eapply so_cost_le; eassumption). lia.
    - intros t Hs Hc.
      apply (runs_to_completion jobs sched (edf_hp jobs dl) pp Hvalid Hpp Hlegal k (N.to_nat (C - last))).
      + apply Htua; assumption.
      + lia.
      + exact Hc.
    - intros t1 Ht1.
      assert (Ho : N.of_nat (workP jobs (fun k' => task_in_win jobs i t1 (arr jobs k - t1 + 1)%nat k' && negb (k' =? k)%nat)) + C
                   <= C * na ab (N.of_nat (arr jobs k - t1) + 1)) by (eapply so_own; eassumption).
      lia.
    - eapply so_busy; eassumption.
    - exact He.
  Qed.
End EDFScalarTua.
Print Assumptions edf_lp_sound_gen.

(* ------------------------------------------------------------------------------------------ *)
(* 6. checkers, examples, tests, non-vacuity                                                   *)
(* ------------------------------------------------------------------------------------------ *)
Section Checkers.
  Local Open Scope nat_scope.

  (* adjacent-sortedness implies release_sorted *)
  Fixpoint sortedb (js : list job) : bool :=
    match js with
    | [] => true
    | x :: js' => match js' with [] => true | y :: _ => (j_arr x <=? j_arr y) && sortedb js' end
    end.

  Lemma sortedb_sound : forall js, sortedb js = true -> release_sorted js.
  Proof.
    induction js as [|x js IH]; intros H; [exact I|]. cbn [sortedb] in H.
    destruct js as [|y js]; [split; [intros y []|exact I]|].
    apply andb_true_iff in H. destruct H as [Hxy Hs]. apply Nat.leb_le in Hxy.
    specialize (IH Hs). split; [|exact IH].
    intros z [<-|Hz]; [exact Hxy|]. destruct IH as [Hy _]. specialize (Hy z Hz). lia.
  Qed.

  Definition bb_check (cm : CM) (js : list job) : bool :=
    forallb (fun p => forallb (fun m => (N.of_nat (total_cost (block js p m)) <=? cost_of_jobs cm (N.of_nat m))%N)
                        (seq 0 (S (length js - p)))) (seq 0 (S (length js))).

  Lemma bb_check_sound : forall cm js, bb_check cm js = true -> blocks_bounded cm js.
  Proof.
    intros cm js H p m Hpm. unfold bb_check in H. rewrite forallb_forall in H.
    specialize (H p ltac:(apply in_seq; lia)). rewrite forallb_forall in H.
    specialize (H m ltac:(apply in_seq; lia)). apply N.leb_le in H. exact H.
  Qed.

  (* a job list in which the jobs of every task appear in release order (the order of the job list
     breaks ties) and every block respects the cost model *)
  Definition rcm_check (tasks : list gtask) (jobs : list job) : bool :=
    forallb (fun j => (j_task j <? length tasks) && (1 <=? j_cost j)) jobs &&
    forallb (fun i => sortedb (jobs_of jobs i) && bb_check (snd (nth i tasks gdflt)) (jobs_of jobs i))
            (seq 0 (length tasks)).

  Theorem rcm_check_sound : forall tasks jobs, rcm_check tasks jobs = true -> respects_cost_models tasks jobs.
  Proof.
    intros tasks jobs H. unfold rcm_check in H. apply andb_true_iff in H. destruct H as [H1 H2].
    rewrite forallb_forall in H1, H2. split.
    - intros j Hj. specialize (H1 j Hj). apply andb_true_iff in H1. destruct H1 as [Ha Hb].
      apply Nat.ltb_lt in Ha. apply Nat.leb_le in Hb. split; assumption.
    - intros i Hi. specialize (H2 i ltac:(apply in_seq; lia)). apply andb_true_iff in H2. destruct H2 as [Ha Hb].
      exists (jobs_of jobs i). split; [apply Permutation_refl|]. split; [apply sortedb_sound; exact Ha|].
      apply bb_check_sound. exact Hb.
  Qed.

  (* a curve inferred from the trace of a task's job costs (wcet::Curve::from_trace, C14) is
     respected by the very job sequence it was inferred from *)
  Lemma total_cost_sumN : forall js, N.of_nat (total_cost js) = sumN (map (fun j => N.of_nat (j_cost j)) js).
  Proof.
    induction js as [|x js IH]; [reflexivity|]. unfold total_cost in *.
    cbn [map list_sum fold_right sumN]. fold (sumN (map (fun j => N.of_nat (j_cost j)) js)).
    rewrite <- IH. unfold list_sum. lia.
  Qed.

  Theorem trace_blocks_bounded : forall js k, (1 <= k)%N ->
    blocks_bounded (CurveCM (wcurve_from_trace (map (fun j => N.of_nat (j_cost j)) js) k)) js.
  Proof.
    intros js k Hk p m Hpm. cbn [cost_of_jobs]. rewrite total_cost_sumN. unfold block.
    rewrite <- firstn_map, <- skipn_map.
    apply (from_trace_bounds_every_run (map (fun j => N.of_nat (j_cost j)) js) k p m Hk).
    rewrite map_length. exact Hpm.
  Qed.

  Theorem trace_blocks_bounded_extrap : forall js k, (1 <= k)%N ->
    blocks_bounded (ExtrapCM (wcurve_from_trace (map (fun j => N.of_nat (j_cost j)) js) k)) js.
  Proof.
    intros js k Hk p m Hpm. rewrite total_cost_sumN. unfold block.
    rewrite <- firstn_map, <- skipn_map.
    apply (extrapolating_curve_bounds_every_run (map (fun j => N.of_nat (j_cost j)) js) k p m Hk).
    rewrite map_length. exact Hpm.
  Qed.
End Checkers.
Print Assumptions rcm_check_sound.
Print Assumptions trace_blocks_bounded.
Print Assumptions trace_blocks_bounded_extrap.

(* ---- the Multiframe example of the task statement ---- *)
Definition mf_tasks : list gtask := [(Periodic 10, Multiframe [3; 1])].
Definition mf_jobs_ok : list job := [mkJob 0 0 3; mkJob 0 10 1; mkJob 0 20 3; mkJob 0 30 1]%nat.
Definition mf_jobs_ok' : list job := [mkJob 0 0 1; mkJob 0 10 3; mkJob 0 20 1; mkJob 0 30 3]%nat.  (* other phase *)
Definition mf_jobs_bad : list job := [mkJob 0 0 3; mkJob 0 10 3]%nat.

Example mf_ok : respects_cost_models mf_tasks mf_jobs_ok /\ respects_cost_models mf_tasks mf_jobs_ok'.
Proof. split; apply rcm_check_sound; vm_compute; reflexivity. Qed.

Example mf_bad : ~ respects_cost_models mf_tasks mf_jobs_bad.
Proof.
  intros [_ H]. destruct (H 0%nat ltac:(cbn; lia)) as (js & Hperm & _ & Hbb).
  assert (Hlen : length js = 2%nat) by (rewrite (Permutation_length Hperm); reflexivity).
  specialize (Hbb 0%nat 2%nat ltac:(lia)). unfold block in Hbb. cbn [skipn] in Hbb.
  assert (Hall : firstn 2 js = js) by (rewrite <- Hlen; apply firstn_all).
  rewrite Hall, (total_cost_perm _ _ Hperm) in Hbb.
  vm_compute in Hbb. apply Hbb. reflexivity.
Qed.
Print Assumptions mf_ok.
Print Assumptions mf_bad.

(* ---- periodic releases are admissible ---- *)
Lemma periodic_gcurves1 : forall T es, separated (N.to_nat T) es -> admissible (Periodic T) es.
Proof. intros T es H. apply adm_periodic. exact H. Qed.

(* ---- test 1 / non-vacuity, FIFO: Multiframe + Curve cost models, expensive frames released together;
        the computed bound 5 is attained ---- *)
Definition gx_fifo_tasks : list gtask := [(Periodic 5, Multiframe [3; 1]); (Periodic 7, CurveCM [2; 3])].
Definition gx_fifo_jobs : list job := [mkJob 0 0 3; mkJob 0 5 1; mkJob 0 10 3; mkJob 1 0 2; mkJob 1 7 1]%nat.
Definition gx_fifo_sched := rsched gx_fifo_jobs (fifo_rank gx_fifo_jobs).

Example gx_fifo_bound : e_fifo false (Agg (map grb_of gx_fifo_tasks)) 100 = ROk 5.
Proof. vm_compute. reflexivity. Qed.

Example gx_fifo_tasks_ok : Forall gtask_ok gx_fifo_tasks.
Proof.
  repeat constructor; cbn; try lia; try discriminate.
  all: intros [|[|i]] Hi; cbn in Hi; try lia; vm_compute; try discriminate; reflexivity.
Qed.

Example gx_fifo_curves : respects_gcurves gx_fifo_tasks gx_fifo_jobs.
Proof.
  intros [|[|i]] Hi; [| |cbn in Hi; lia].
  - exists [0; 5; 10]%nat. split; [apply Permutation_refl|]. apply adm_periodic. cbn. lia.
  - exists [0; 7]%nat. split; [apply Permutation_refl|]. apply adm_periodic. cbn. lia.
Qed.

Example gx_fifo_costs : respects_cost_models gx_fifo_tasks gx_fifo_jobs.
Proof. apply rcm_check_sound. vm_compute. reflexivity. Qed.

Example gx_fifo_completes : forall k, (k < 5)%nat -> completes_within gx_fifo_jobs gx_fifo_sched k 5.
Proof.
  intros k Hk.
  exact (fifo_rta_sound_gen false gx_fifo_tasks 100 5 gx_fifo_jobs gx_fifo_sched gx_fifo_tasks_ok gx_fifo_bound
           (rs_valid _ _) (rs_work_conserving _ _) (rs_fifo_policy _) gx_fifo_curves gx_fifo_costs k Hk).
Qed.

Example gx_fifo_tight : ~ completes_within gx_fifo_jobs gx_fifo_sched 3 4.
Proof. unfold completes_within. vm_compute. lia. Qed.
Print Assumptions gx_fifo_completes.
Print Assumptions gx_fifo_tight.

(* ---- test 2 / non-vacuity, fully preemptive FP: two Multiframe tasks; bound 6 attained ---- *)
Definition gx_fp_tasks : list gtask := [(Periodic 4, Multiframe [2; 1]); (Periodic 6, Multiframe [3; 1])].
Definition gx_fp_jobs : list job := [mkJob 0 0 2; mkJob 0 4 1; mkJob 1 0 3]%nat.
Definition gx_prio (k : nat) : nat := k.
Definition gx_fp_sched := rsched gx_fp_jobs (fp_rank gx_fp_jobs gx_prio).

Example gx_fp_bound : e_fp_fp false (gtua gx_fp_tasks 1) (ghp_rbs gx_fp_tasks 1 gx_prio) 100 = ROk 6.
Proof. vm_compute. reflexivity. Qed.

Example gx_fp_tasks_ok : Forall gtask_ok gx_fp_tasks.
Proof. repeat constructor; cbn; try lia; discriminate. Qed.

Example gx_fp_curves : respects_gcurves gx_fp_tasks gx_fp_jobs.
Proof.
  intros [|[|i]] Hi; [| |cbn in Hi; lia].
  - exists [0; 4]%nat. split; [apply Permutation_refl|]. apply adm_periodic. cbn. lia.
  - exists [0]%nat. split; [apply Permutation_refl|]. apply adm_periodic. cbn. exact I.
Qed.

Example gx_fp_costs : respects_cost_models gx_fp_tasks gx_fp_jobs.
Proof. apply rcm_check_sound. vm_compute. reflexivity. Qed.

Example gx_fp_completes : completes_within gx_fp_jobs gx_fp_sched 2 6.
Proof.
  apply (fp_fp_sound_gen gx_fp_tasks 1 gx_prio ltac:(cbn; lia) gx_fp_tasks_ok ltac:(intros a b _ _ H; exact H)
           gx_fp_jobs gx_fp_sched (fun _ _ => true) (rs_valid _ _) (rs_work_conserving _ _)
           gx_fp_curves gx_fp_costs ltac:(intros k; split; reflexivity) (rs_fp_legal _ _)
           false 100 6 ltac:(intros k s; reflexivity) gx_fp_bound).
  - cbn. lia.
  - reflexivity.
Qed.

Example gx_fp_tight : ~ completes_within gx_fp_jobs gx_fp_sched 2 5.
Proof. unfold completes_within. vm_compute. lia. Qed.
Print Assumptions gx_fp_completes.
Print Assumptions gx_fp_tight.

(* ---- test 3 / non-vacuity, fully preemptive EDF: Multiframe + Curve; bound 5 attained ---- *)
Definition edf_rank (jobs : list job) (dl : nat -> nat) (k : nat) : nat :=
  ((arr jobs k + dl (j_task (nth k jobs (mkJob 0 0 0)))) * length jobs + k)%nat.

(* the rank scheduler with the EDF rank is a legal fully preemptive EDF schedule *)
Lemma rs_edf_legal : forall jobs dl,
  legal jobs (rsched jobs (edf_rank jobs dl)) (edf_hp jobs dl) (fun _ _ => true).
Proof.
  intros jobs dl. split; [intros; reflexivity|].
  intros t k k' [E _] Hp Hhp.
  pose proof (rs_min jobs (edf_rank jobs dl) t k k' E Hp) as Hr.
  destruct (rs_valid jobs (edf_rank jobs dl) t k E) as (Hk & _). destruct Hp as (Hk' & _).
  unfold edf_hp in Hhp. unfold edf_rank in Hr. nia.
Qed.

Definition gx_edf_tasks : list gtask := [(Periodic 4, Multiframe [2; 1]); (Periodic 6, CurveCM [3; 4])].
Definition gx_dl (k : nat) : nat := match k with O => 4%nat | _ => 7%nat end.
Definition gx_edf_jobs : list job := [mkJob 0 0 2; mkJob 0 4 1; mkJob 1 0 3]%nat.
Definition gx_edf_sched := rsched gx_edf_jobs (edf_rank gx_edf_jobs gx_dl).

Example gx_edf_bound :
  e_edf_fp false (gtua gx_edf_tasks 1) (N.of_nat (gx_dl 1))
    (map (fun k => (grb_of (nth k gx_edf_tasks gdflt), N.of_nat (gx_dl k))) (gother_idx gx_edf_tasks 1)) 100 = ROk 5.
Proof. vm_compute. reflexivity. Qed.

Example gx_edf_tasks_ok : Forall gtask_ok gx_edf_tasks.
Proof.
  repeat constructor; cbn; try lia; try discriminate.
  all: intros [|[|i]] Hi; cbn in Hi; try lia; vm_compute; try discriminate; reflexivity.
Qed.

Example gx_edf_curves : respects_gcurves gx_edf_tasks gx_edf_jobs.
Proof.
  intros [|[|i]] Hi; [| |cbn in Hi; lia].
  - exists [0; 4]%nat. split; [apply Permutation_refl|]. apply adm_periodic. cbn. lia.
  - exists [0]%nat. split; [apply Permutation_refl|]. apply adm_periodic. cbn. exact I.
Qed.

Example gx_edf_costs : respects_cost_models gx_edf_tasks gx_edf_jobs.
Proof. apply rcm_check_sound. vm_compute. reflexivity. Qed.

Example gx_edf_completes : completes_within gx_edf_jobs gx_edf_sched 2 5.
Proof.
  apply (edf_fp_sound_gen gx_edf_tasks gx_dl 1 ltac:(cbn; lia) gx_edf_tasks_ok
           gx_edf_jobs gx_edf_sched (fun _ _ => true) (rs_valid _ _) (rs_work_conserving _ _)
           gx_edf_curves gx_edf_costs ltac:(intros k; split; reflexivity) (rs_edf_legal _ _)
           false 100 5 ltac:(intros k s; reflexivity) gx_edf_bound).
  - cbn. lia.
  - reflexivity.
Qed.

Example gx_edf_tight : ~ completes_within gx_edf_jobs gx_edf_sched 2 4.
Proof. unfold completes_within. vm_compute. lia. Qed.
Print Assumptions gx_edf_completes.
Print Assumptions gx_edf_tight.

(* ---- the hypothesis may also be established for EVERY release-ordered enumeration ---- *)
Lemma respects_cost_models_every_enumeration : forall tasks jobs,
  (forall j, In j jobs -> (j_task j < length tasks)%nat /\ (1 <= j_cost j)%nat) ->
  (forall i js, (i < length tasks)%nat -> Permutation js (jobs_of jobs i) -> release_sorted js ->
     blocks_bounded (snd (nth i tasks gdflt)) js) ->
  respects_cost_models tasks jobs.
Proof.
  intros tasks jobs H1 H2. split; [exact H1|]. intros i Hi. exists (rsort (jobs_of jobs i)).
  split; [apply rsort_perm|]. split; [apply rsort_sorted|].
  apply (H2 i _ Hi); [apply rsort_perm|apply rsort_sorted].
Qed.

(* ------------------------------------------------------------------------------------------ *)
(* 7. observation: Multiframe charges the FIRST n frames                                        *)
(* ------------------------------------------------------------------------------------------ *)
(* JobCostModel::cost_of_jobs is documented as "the maximum cumulative processor demand of ANY n
   consecutive jobs"; for wcet::Multiframe it is the sum of the first n entries of the cyclic frame
   vector.  That bounds every run of n consecutive jobs only if no cyclic run of n frames exceeds the
   first n (accumulatively monotonic vectors, e.g. [3; 1]).  For [1; 3] a job set whose jobs cycle
   through the frame vector as documented ("consecutive jobs cycle through the given vector of
   bounds"), starting with the first frame, violates [respects_cost_models] (the second job alone
   costs 3 > cost_of_jobs 1 = 1) and exceeds the FIFO bound computed from the request-bound function:
   bound 1, response time 3.  The theorems above are therefore about job sets that satisfy what
   cost_of_jobs PROMISES ([respects_cost_models]); whether the frames of a Multiframe task do is a
   proof obligation on the vector (it holds when the prefix sums dominate all cyclic window sums). *)
Definition mfx_tasks : list gtask := [(Periodic 10, Multiframe [1; 3])].
Definition mfx_jobs : list job := [mkJob 0 0 1; mkJob 0 10 3]%nat.
Definition mfx_sched := rsched mfx_jobs (fifo_rank mfx_jobs).

Theorem multiframe_first_frames_refuted :
  Forall gtask_ok mfx_tasks /\
  e_fifo false (Agg (map grb_of mfx_tasks)) 100 = ROk 1 /\
  valid mfx_jobs mfx_sched /\ work_conserving mfx_jobs mfx_sched /\ fifo_policy mfx_jobs mfx_sched /\
  respects_gcurves mfx_tasks mfx_jobs /\
  (* the job costs are the frames, in release order, starting with the first frame *)
  map (fun j => N.of_nat (j_cost j)) mfx_jobs = job_costs (Multiframe [1; 3]) 2 /\
  ~ completes_within mfx_jobs mfx_sched 1 1 /\
  ~ respects_cost_models mfx_tasks mfx_jobs.
Proof.
  split; [repeat constructor; cbn; try lia; discriminate|].
  split; [vm_compute; reflexivity|].
  split; [apply rs_valid|]. split; [apply rs_work_conserving|]. split; [apply rs_fifo_policy|].
  split.
  { intros [|i] Hi; [|cbn in Hi; lia]. exists [0; 10]%nat. split; [apply Permutation_refl|].
    apply adm_periodic. cbn. lia. }
  split; [vm_compute; reflexivity|].
  split; [unfold completes_within; vm_compute; lia|].
  intros Hcm. pose proof (gjob_cost_le1 mfx_tasks mfx_jobs Hcm 1%nat ltac:(cbn; lia)) as H.
  vm_compute in H. apply H. reflexivity.
Qed.
Print Assumptions multiframe_first_frames_refuted.

(* ------------------------------------------------------------------------------------------ *)
(* 8. the scalar theorems of C01 / C02 are special cases                                       *)
(* ------------------------------------------------------------------------------------------ *)
Section Subsume.
  Variable tasks : list task.
  Variable i : nat.
  Hypothesis Hi : (i < length tasks)%nat.
  Hypothesis tasks_ok : Forall (fun tk => wf_ab (fst tk) /\ steps_exact_class (fst tk) /\ 1 <= snd tk) tasks.

  Lemma scalar_gtasks_ok : Forall gtask_ok (map gtask_of tasks).
  Proof.
    rewrite Forall_forall in *. intros tk Htk. apply in_map_iff in Htk. destruct Htk as (tk' & <- & Hin).
    destruct (tasks_ok tk' Hin) as (H1 & H2 & H3). unfold gtask_ok, gtask_of. cbn [fst snd wf_cm positive_cm]. auto.
  Qed.

  Lemma scalar_nth : forall k, nth k (map gtask_of tasks) gdflt = gtask_of (nth k tasks (Never, 0)).
  Proof. intros k. change gdflt with (gtask_of (Never, 0)). apply map_nth. Qed.

  Lemma scalar_gtua : gtua (map gtask_of tasks) i = RBF (ab_i tasks i) (Scalar (FpSound.C tasks i)).
  Proof. unfold gtua. rewrite scalar_nth. reflexivity. Qed.

  Lemma scalar_ghp_rbs : forall prio, ghp_rbs (map gtask_of tasks) i prio = hp_rbs tasks i prio.
  Proof.
    intros prio. unfold ghp_rbs, hp_rbs, ghp_idx, hp_idx. rewrite map_length.
    apply map_ext. intros k. rewrite scalar_nth. reflexivity.
  Qed.

  (* C01_fully_preemptive_sound / fp_fully_preemptive_sound from fp_fp_sound_gen *)
  Corollary fp_fully_preemptive_sound_from_gen : forall prio,
    (forall a b, (a < length tasks)%nat -> (b < length tasks)%nat -> prio a = prio b -> a = b) ->
    forall jobs sched pp, valid jobs sched -> work_conserving jobs sched ->
    respects_curves tasks jobs -> respects_costs tasks jobs -> pp_sane jobs pp ->
    legal jobs sched (fp_hp jobs prio) pp ->
    forall dbg limit R, fully_preemptive pp ->
    e_fp_fp dbg (RBF (ab_i tasks i) (Scalar (FpSound.C tasks i))) (hp_rbs tasks i prio) limit = ROk R ->
    forall k, (k < length jobs)%nat -> j_task (nth k jobs (mkJob 0 0 0)) = i ->
      completes_within jobs sched k (N.to_nat R).
  Proof.
    intros prio Hinj jobs sched pp Hv Hwc Hc Hcost Hpp Hlegal dbg limit R Hfp He.
    rewrite <- scalar_gtua, <- scalar_ghp_rbs in He.
    apply (fp_fp_sound_gen (map gtask_of tasks) i prio) with (pp := pp) (dbg := dbg) (limit := limit); try assumption.
    - rewrite map_length. exact Hi.
    - exact scalar_gtasks_ok.
    - rewrite map_length. exact Hinj.
    - apply scalar_respects_gcurves. exact Hc.
    - apply scalar_respects_cost_models. exact Hcost.
  Qed.

  (* C02_fully_preemptive_sound / edf_fully_preemptive_sound from edf_fp_sound_gen *)
  Corollary edf_fully_preemptive_sound_from_gen : forall dl,
    forall jobs sched pp, valid jobs sched -> work_conserving jobs sched ->
    respects_curves tasks jobs -> respects_costs tasks jobs -> pp_sane jobs pp ->
    legal jobs sched (edf_hp jobs dl) pp ->
    forall dbg limit R, fully_preemptive pp ->
    e_edf_fp dbg (RBF (ab_i tasks i) (Scalar (FpSound.C tasks i))) (N.of_nat (dl i))
      (map (fun k => (RBF (fst (nth k tasks (Never, 0))) (Scalar (snd (nth k tasks (Never, 0)))), N.of_nat (dl k)))
           (other_idx tasks i)) limit = ROk R ->
    forall k, (k < length jobs)%nat -> j_task (nth k jobs (mkJob 0 0 0)) = i ->
      completes_within jobs sched k (N.to_nat R).
  Proof.
    intros dl jobs sched pp Hv Hwc Hc Hcost Hpp Hlegal dbg limit R Hfp He.
    rewrite <- scalar_gtua in He.
    apply (edf_fp_sound_gen (map gtask_of tasks) dl i) with (pp := pp) (dbg := dbg) (limit := limit); try assumption.
    - rewrite map_length. exact Hi.
    - exact scalar_gtasks_ok.
    - apply scalar_respects_gcurves. exact Hc.
    - apply scalar_respects_cost_models. exact Hcost.
    - unfold gother_idx. rewrite map_length. fold (other_idx tasks i).
      rewrite (map_ext _ (fun k => (RBF (fst (nth k tasks (Never, 0))) (Scalar (snd (nth k tasks (Never, 0)))), N.of_nat (dl k))));
        [exact He|]. intros k. rewrite scalar_nth. reflexivity.
  Qed.
End Subsume.
Print Assumptions fp_fully_preemptive_sound_from_gen.
Print Assumptions edf_fully_preemptive_sound_from_gen.
